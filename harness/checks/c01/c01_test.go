// C01 — generated mock files are valid Go in their destination package.
//
// A case is a generated Go module (progen) plus a rendering (template, formatter,
// placement, template-data). mockery must exit 0 and the Go toolchain must accept every
// destination package (go vet type-checks all packages incl. test variants, with the build
// tags that satisfy the drawn constraint). A diagnostic in a source file is a generator bug.
package c01

import (
	"encoding/json"
	"fmt"
	"os"
	"path/filepath"
	"regexp"
	"sort"
	"strings"
	"testing"

	"pgregory.net/rapid"
	"verif/harness/progen"
	"verif/harness/vh"
)

type Case struct {
	Mod progen.Module    `json:"mod"`
	R   progen.Rendering `json:"r"`
}

// method names that collide with the documented API of the mock (outside the guarantee)
var testifyAPI = map[string]bool{"EXPECT": true, "Mock": true, "On": true, "Called": true, "Test": true, "TestData": true,
	"AssertExpectations": true, "AssertCalled": true, "AssertNotCalled": true, "AssertNumberOfCalls": true, "MethodCalled": true, "IsMethodCallable": true}

// knownSwitches maps the key of a recorded finding to the generator switches that steer away
// from its trigger.
var knownSwitches = map[string][]string{
	"testify/compile/t_redeclared_in_this_block": {"tparamname:t", "tparamname:mock"},
	"matryer/compile/mock.LAlias_is_not_a_type":  {"srcpkg:mock", "pkg:mockp"},
}

func avoidSet() map[string]bool {
	av := map[string]bool{}
	for key, sw := range knownSwitches {
		if vh.Known(key) {
			for _, s := range sw {
				av[s] = true
			}
		}
	}
	return av
}

// corners is a small corpus of module shapes that random generation reaches too rarely; one case
// in twelve takes its module from here (the rendering is still drawn).
var corners = []string{
	// a package whose name is a suffix of its directory name and equals a standard-library package
	// that exports the same identifiers (import-name guessing by goimports)
	`{"modpath":"example.com/m","gomod":"plain","pkgs":[{"dir":"xhttp","name":"http","files":1,"ifaces":[{"name":"Handler","methods":[{"name":"Do","sig":{"params":[{"name":"p0","t":{"k":"basic","n":"int"}}]}}]},{"name":"Client","methods":[{"name":"Get","sig":{"results":[{"name":"","t":{"k":"basic","n":"error"}}]}}]}]}]}`,
	`{"modpath":"example.com/m","gomod":"plain","pkgs":[{"dir":"httpd","name":"http","files":1,"ifaces":[{"name":"Handler","methods":[{"name":"Do","sig":{"params":[{"name":"p0","t":{"k":"basic","n":"string"}}]}}]}]}]}`,
	// the source package in the module root, its own types in the signatures
	`{"modpath":"example.com/ledger","gomod":"plain","pkgs":[{"dir":"","name":"ledger","files":1,"ifaces":[{"name":"Store","methods":[{"name":"Put","sig":{"params":[{"name":"e","t":{"k":"named","n":"Local"}}],"results":[{"name":"","t":{"k":"ptr","e":{"k":"named","n":"Local"}}}]}}]}]}]}`,
	// three same-named packages in one signature
	`{"modpath":"example.com/m","gomod":"plain","pkgs":[{"dir":"svc","name":"svc","files":1,"ifaces":[{"name":"Service","methods":[{"name":"Do","sig":{"params":[{"name":"a","t":{"k":"named","n":"T","p":"alpha"}},{"name":"b","t":{"k":"named","n":"T","p":"alphb"}},{"name":"c","t":{"k":"named","n":"T","p":"alphc"}}]}}]}]}]}`,
	// a parameter named like a type that only a LATER parameter of the same method brings in
	`{"modpath":"example.com/m","gomod":"plain","pkgs":[{"dir":"svc","name":"svc","files":1,"ifaces":[{"name":"Service","methods":[{"name":"Convert","sig":{"params":[{"name":"Local","t":{"k":"basic","n":"string"}},{"name":"target","t":{"k":"named","n":"Local"}}],"results":[{"name":"","t":{"k":"basic","n":"error"}}]}},{"name":"Tag","sig":{"params":[{"name":"LStr","t":{"k":"basic","n":"int"}},{"name":"all","t":{"k":"slice","e":{"k":"named","n":"LStr"}}}],"results":[{"name":"","t":{"k":"named","n":"LStr"}}]}}]}]}]}`,
}

func gen(t *rapid.T) Case {
	if rapid.IntRange(0, 11).Draw(t, "corner") == 0 {
		var m progen.Module
		if err := json.Unmarshal([]byte(rapid.SampledFrom(corners).Draw(t, "which-corner")), &m); err != nil {
			panic(err)
		}
		r := progen.GenRendering(t)
		r.GenIfaceData(t, &m)
		return Case{Mod: m, R: r}
	}
	r := progen.GenRendering(t)
	o := progen.Opts{Avoid: avoidSet(), CrossEmbed: true}
	if r.InPackage() && rapid.IntRange(0, 2).Draw(t, "unexported") == 0 {
		o.AllowUnexported = true
	}
	if r.Template == "testify" {
		o.MethodFilter = func(n string) bool { return testifyAPI[n] }
	}
	o.OnAvoid = vh.Excluded
	mod := progen.Gen(t, o)
	if rapid.IntRange(0, 2).Draw(t, "template-locals") == 0 {
		progen.HostileLocals(t, &mod, r.Template)
	}
	r.GenIfaceData(t, &mod)
	r.GenIfaceConfigs(t, &mod)
	return Case{Mod: mod, R: r}
}

var diagRe = regexp.MustCompile(`(?m)^(?:vet: )?(\S+\.go):(\d+):(\d+): (.*)$`)
var numRe = regexp.MustCompile(`\d+`)

func normDiag(s string) string {
	s = numRe.ReplaceAllString(s, "N")
	if len(s) > 90 {
		s = s[:90]
	}
	return strings.ReplaceAll(strings.TrimSpace(s), " ", "_")
}

func nontrivial(feats []string, r progen.Rendering) bool {
	if r.Placement != "inpkg-test" || r.Formatter != "goimports" {
		return true
	}
	for _, f := range feats {
		switch {
		case strings.HasPrefix(f, "pkg:"), f == "generic", f == "named-instantiation", f == "variadic",
			f == "type:func", f == "type:struct", f == "type:iface", strings.HasPrefix(f, "ident:") && f != "ident:blank" && f != "ident:unnamed":
			return true
		}
	}
	return false
}

func run(c Case) *vh.Violation {
	feats := c.Mod.Features()
	cl := append([]string{"template=" + c.R.Template, "formatter=" + c.R.Formatter, "placement=" + c.R.Placement}, feats...)
	for k := range c.R.Data {
		cl = append(cl, "data:"+k)
	}
	if c.R.All {
		cl = append(cl, "all=true")
	}
	fp := ""
	if nontrivial(feats, c.R) {
		fp = vh.Hash(strings.Join(cl, ","))
	}
	vh.Count(fp, cl...)
	if fp != "" && vh.NeedSample() {
		vh.Sample(map[string]any{"rendering": c.R, "features": feats, "interfaces": ifaceTexts(&c.Mod)})
	}

	dir := vh.NewScratch()
	defer vh.RemoveAll(dir)
	files := c.Mod.Files()
	files[".mockery.yml"] = c.R.ConfigYAML(&c.Mod, nil)
	files["go.sum"] = vh.GoSum()
	if c.R.Boiler {
		files["boiler.txt"] = progen.BoilerText
	}
	vh.WriteFiles(dir, files)
	delete(files, "go.sum")

	res := vh.Mockery(dir, nil)
	if res.TimedOut {
		vh.Infra("mockery timed out")
	}
	srcOK := func() (bool, string) { return vh.GoVet(dir, c.R.BuildTags()) }
	fail := func(key, format string, a ...any) *vh.Violation {
		obs := fmt.Sprintf("mockery exit %d\n--- stderr\n%s", res.Exit, vh.Trunc(res.Stderr, 4000))
		tree := vh.ReadTree(dir)
		return vh.Violate(c.R.Template+"/"+key, format, a...).With(tree, obs)
	}
	if res.Exit != 0 {
		// remove whatever was generated and make sure the source module itself is fine
		for pi := range c.Mod.Pkgs {
			f, _ := c.R.OutputFile(&c.Mod.Pkgs[pi])
			_ = os.Remove(filepath.Join(dir, f))
		}
		if ok, out := srcOK(); !ok {
			vh.Invalid()
			vh.Infra("generated module does not compile by itself: %s", vh.Trunc(out, 1500))
		}
		if res.Panicked() {
			return fail("panic", "mockery panicked on a valid module")
		}
		msg := lastError(res.Stderr)
		return fail("exit/"+normDiag(msg), "mockery exited %d on a valid module: %s", res.Exit, msg)
	}
	var outs []string
	for pi := range c.Mod.Pkgs {
		f, _ := c.R.OutputFile(&c.Mod.Pkgs[pi])
		outs = append(outs, f)
		if _, err := os.Stat(filepath.Join(dir, f)); err != nil {
			return fail("missing-output", "mockery exited 0 but %s was not written", f)
		}
	}
	ok, out := vh.GoVet(dir, c.R.BuildTags())
	if ok {
		return nil
	}
	// attribute the diagnostics
	isOut := map[string]bool{}
	for _, f := range outs {
		isOut[filepath.Clean(f)] = true
	}
	var first string
	inSource := false
	for _, m := range diagRe.FindAllStringSubmatch(out, -1) {
		p := filepath.Clean(strings.TrimPrefix(m[1], "./"))
		if filepath.IsAbs(p) {
			if rel, err := filepath.Rel(dir, p); err == nil {
				p = rel
			}
		}
		if isOut[p] {
			if first == "" {
				first = m[4]
			}
		} else {
			inSource = true
		}
	}
	if first == "" || inSource {
		// is the module fine without the generated files?
		saved := map[string][]byte{}
		for _, f := range outs {
			b, _ := os.ReadFile(filepath.Join(dir, f))
			saved[f] = b
			_ = os.Remove(filepath.Join(dir, f))
		}
		if ok2, out2 := srcOK(); !ok2 {
			vh.Invalid()
			vh.Infra("generated module does not compile by itself: %s", vh.Trunc(out2, 1500))
		}
		for f, b := range saved {
			_ = os.WriteFile(filepath.Join(dir, f), b, 0o644)
		}
		if first == "" {
			first = firstLine(out)
		}
	}
	fmtClass := "any-formatter"
	_ = fmtClass
	v := fail("compile/"+normDiag(first), "generated mocks do not type-check in their destination package: %s", first)
	v.Observed += "\n--- go vet\n" + vh.Trunc(out, 4000)
	return v
}

func firstLine(s string) string {
	for _, ln := range strings.Split(s, "\n") {
		ln = strings.TrimSpace(ln)
		if ln != "" && !strings.HasPrefix(ln, "#") {
			return ln
		}
	}
	return "?"
}

var errFieldRe = regexp.MustCompile(`error="?([^"\n]*)`)
var ansiRe = regexp.MustCompile(`\x1b\[[0-9;]*m`)

func lastError(stderr string) string {
	stderr = ansiRe.ReplaceAllString(stderr, "")
	lines := strings.Split(strings.TrimSpace(stderr), "\n")
	for i := len(lines) - 1; i >= 0; i-- {
		if m := errFieldRe.FindStringSubmatch(lines[i]); m != nil {
			return m[1]
		}
	}
	if len(lines) > 0 {
		return lines[len(lines)-1]
	}
	return "?"
}

func ifaceTexts(m *progen.Module) []string {
	var out []string
	for _, p := range m.Pkgs {
		for _, it := range p.Ifaces {
			var ms []string
			q := func(k string) string {
				if k == "" {
					return ""
				}
				return progen.LookupPkg(k).Name + "."
			}
			for _, mt := range it.Methods {
				ms = append(ms, mt.Name+progen.RenderSig(mt.Sig, q))
			}
			sort.Strings(ms)
			s := p.Name + "." + it.Name
			if len(it.TParams) > 0 {
				s += fmt.Sprint(it.TParams)
			}
			out = append(out, vh.Trunc(s+"{"+strings.Join(ms, "; ")+"}", 300))
		}
	}
	return out
}

func TestProp(t *testing.T) {
	vh.Main(t, vh.Check[Case]{Gen: gen, Run: run, Reduce: reduce})
}

// reduce lists structurally simpler cases (rendering towards the defaults, then the module).
func reduce(c Case) []Case {
	var out []Case
	if c.R.Formatter != "goimports" {
		d := c
		d.R.Formatter = "goimports"
		out = append(out, d)
	}
	if c.R.Placement != "inpkg-test" {
		d := c
		d.R.Placement = "inpkg-test"
		out = append(out, d)
	}
	for k := range c.R.Data {
		d := c
		d.R.Data = map[string]any{}
		for k2, v := range c.R.Data {
			if k2 != k {
				d.R.Data[k2] = v
			}
		}
		if k == "boilerplate-file" {
			d.R.Boiler = false
		}
		out = append(out, d)
	}
	if c.R.All {
		d := c
		d.R.All = false
		out = append(out, d)
	}
	sort.SliceStable(out, func(i, j int) bool { return false })
	for _, m := range progen.Reductions(c.Mod) {
		out = append(out, Case{Mod: m, R: c.R})
	}
	return out
}
