// C02 — the generated mock type implements exactly the source interface.
//
// A case is a generated module (benign identifiers; emphasis on embedding, generics, named
// instantiations, aliases, function-local types shadowing interface names) and a rendering.
// After mockery ran, the harness writes an assertion file into every destination package,
//   var _ src.I[targs] = (*Mock[targs])(nil)
// for 1–3 admissible type-argument tuples per generic interface, and the Go type checker
// decides assignability. The output is also parsed: every selected interface must have
// exactly one mock type declaration, and nothing else may be mocked.
package c02

import (
	"fmt"
	"go/ast"
	"go/parser"
	"go/token"
	"os"
	"path"
	"path/filepath"
	"regexp"
	"sort"
	"strings"
	"testing"

	"pgregory.net/rapid"
	"verif/harness/progen"
	"verif/harness/vh"
)

type Case struct {
	Mod progen.Module    `json:"mod"`
	R   progen.Rendering `json:"r"`
}

var testifyAPI = map[string]bool{"EXPECT": true, "Mock": true, "On": true, "Called": true, "Test": true, "TestData": true,
	"AssertExpectations": true, "AssertCalled": true, "AssertNotCalled": true, "AssertNumberOfCalls": true, "MethodCalled": true, "IsMethodCallable": true}

func gen(t *rapid.T) Case {
	r := progen.GenRendering(t)
	if rapid.IntRange(0, 2).Draw(t, "goimports") > 0 {
		r.Formatter = "goimports"
	}
	o := progen.Opts{BenignNames: true, Avoid: map[string]bool{"srcpkg:mock": true, "pkg:mockp": true}, CrossEmbed: true}
	if r.InPackage() && rapid.IntRange(0, 2).Draw(t, "unexported") == 0 {
		o.AllowUnexported = true
	}
	if r.Template == "testify" {
		o.MethodFilter = func(n string) bool { return testifyAPI[n] }
	}
	mod := progen.Gen(t, o)
	r.GenIfaceData(t, &mod)
	return Case{Mod: mod, R: r}
}

func mockName(iface string) string {
	if iface != "" && iface[0] >= 'A' && iface[0] <= 'Z' {
		return "Mock" + iface
	}
	return "mock" + iface
}

var aliasRe = regexp.MustCompile(`[^A-Za-z0-9]`)

// typeArgs returns admissible type-argument tuples for a generic interface.

func localIfaces(m *progen.Module) []progen.Iface {
	out := []progen.Iface{
		{Name: "LIface"},
		{Name: "LGI", TParams: []progen.TParam{{Name: "X", Constraint: "any"}, {Name: "Y", Constraint: "comparable"}}},
	}
	if m.Unexp {
		out = append(out, progen.Iface{Name: "lface"})
	}
	return out
}

func run(c Case) *vh.Violation {
	feats := c.Mod.Features()
	nt := false
	for _, f := range feats {
		if f == "embedding" || f == "generic" || f == "variadic" || f == "func-local-types" || f == "named-instantiation" {
			nt = true
		}
	}
	cl := append([]string{"template=" + c.R.Template, "placement=" + c.R.Placement}, feats...)
	if c.R.All {
		cl = append(cl, "all=true")
	}
	fp := ""
	if nt {
		fp = vh.Hash(vh.JSON(c))
	}
	vh.Count(fp, cl...)

	// the assertion files (one per destination package) and the helper packages they mention
	extra := map[string]string{}
	asserts := map[string]string{}
	expected := map[string][]string{} // output file -> struct names
	optional := map[string][]string{} // output file -> struct names that may or may not exist (aliases)
	nAssert := 0
	for pi := range c.Mod.Pkgs {
		p := &c.Mod.Pkgs[pi]
		outFile, pkgname := c.R.OutputFile(p)
		imports := map[string]string{}
		q := func(k string) string {
			if k == "" {
				if c.R.InPackage() {
					return ""
				}
				imports[c.Mod.PkgPath(p)] = "src"
				return "src."
			}
			a := "q_" + aliasRe.ReplaceAllString(k, "_")
			imports[c.Mod.ImportPath(k)] = a
			if !progen.LookupPkg(k).Std {
				f, src := progen.HelperFile(k)
				extra[f] = src
			}
			return a + "."
		}
		var body strings.Builder
		ifs := append([]progen.Iface{}, p.Ifaces...)
		if c.R.All {
			ifs = append(ifs, localIfaces(&c.Mod)...)
		}
		for ii := range ifs {
			it := &ifs[ii]
			if it.Alias {
				// an alias declaration is not a type of its own: whether it is mocked is don't-care
				// (with all: true), but its target must still be mocked exactly once
				optional[outFile] = append(optional[outFile], mockName(it.Name))
				continue
			}
			expected[outFile] = append(expected[outFile], mockName(it.Name))
			if !it.Exported() && !c.R.InPackage() {
				continue // not nameable from here
			}
			for _, tuple := range genericArgs(it) {
				inst := ""
				if len(tuple) > 0 {
					parts := make([]string, len(tuple))
					for i, a := range tuple {
						parts[i] = progen.Render(a, q)
					}
					inst = "[" + strings.Join(parts, ", ") + "]"
				}
				fmt.Fprintf(&body, "var _ %s%s%s = (*%s%s)(nil)\n", q(""), it.Name, inst, mockName(it.Name), inst)
				nAssert++
			}
		}
		var sb strings.Builder
		sb.WriteString("package " + pkgname + "\n\n")
		var paths []string
		for ip := range imports {
			paths = append(paths, ip)
		}
		sort.Strings(paths)
		if len(paths) > 0 {
			sb.WriteString("import (\n")
			for _, ip := range paths {
				fmt.Fprintf(&sb, "\t%s %q\n", imports[ip], ip)
			}
			sb.WriteString(")\n\n")
		}
		sb.WriteString(body.String())
		asserts[path.Join(path.Dir(outFile), "zz_verif_assert_test.go")] = sb.String()
	}
	if fp != "" && vh.NeedSample() {
		var a []string
		for _, v := range asserts {
			a = append(a, vh.Trunc(v, 600))
		}
		vh.Sample(map[string]any{"rendering": c.R, "features": feats, "assertions": a})
	}
	vh.AddEvaluations(nAssert)

	dir, _ := progen.Materialize(&c.Mod, c.R, nil, extra)
	defer vh.RemoveAll(dir)
	res := vh.Mockery(dir, nil)
	if res.TimedOut {
		vh.Infra("mockery timed out")
	}
	outs := c.R.Outputs(&c.Mod)
	fail := func(key, format string, a ...any) *vh.Violation {
		obs := fmt.Sprintf("mockery exit %d\n--- stderr\n%s", res.Exit, vh.Trunc(res.Stderr, 3000))
		return vh.Violate(c.R.Template+"/"+key, format, a...).With(vh.ReadTree(dir), obs)
	}
	if res.Exit != 0 {
		// no mock at all for a valid module: the mock cannot implement anything (C01 reports the same root cause)
		progen.AssertSourceCompiles(dir, c.R.BuildTags(), outs)
		if res.Panicked() {
			return fail("no-mock/panic", "mockery panicked on a valid module, no mock was produced")
		}
		msg := progen.LastError(res.Stderr)
		return fail("no-mock/exit/"+progen.NormDiag(msg), "mockery exited %d on a valid module, no mock was produced: %s", res.Exit, msg)
	}
	// the generated files alone must compile (otherwise it is C01's business) …
	ok, first, out := progen.TypeCheck(dir, c.R.BuildTags(), outs)
	if !ok {
		if implRe.MatchString(out) {
			return fail("ensure/"+progen.NormDiag(implLine(out)), "the generated file's own ensure line fails: %s", implLine(out))
		}
		// a mock that does not compile implements nothing (C01 reports the same root cause)
		v := fail("no-mock/compile/"+progen.NormDiag(first), "the generated mock does not compile, so it does not implement its interface: %s", first)
		v.Observed += "\n--- go vet\n" + vh.Trunc(out, 3000)
		return v
	}
	// … declaration counts …
	for outFile, names := range expected {
		fset := token.NewFileSet()
		f, err := parser.ParseFile(fset, filepath.Join(dir, outFile), nil, parser.SkipObjectResolution)
		if err != nil {
			return fail("parse", "output %s does not parse: %v", outFile, err)
		}
		count := map[string]int{}
		mockTypes := 0
		for _, d := range f.Decls {
			gd, ok := d.(*ast.GenDecl)
			if !ok || gd.Tok != token.TYPE {
				continue
			}
			for _, sp := range gd.Specs {
				n := sp.(*ast.TypeSpec).Name.Name
				count[n]++
				if mockTypeRe.MatchString(n) {
					mockTypes++
				}
			}
		}
		for _, n := range names {
			if count[n] != 1 {
				return fail(fmt.Sprintf("decl-count/%d", count[n]), "mock type %s is declared %d times in %s (want exactly once)", n, count[n], outFile)
			}
		}
		for _, n := range optional[outFile] {
			if count[n] > 1 {
				return fail(fmt.Sprintf("decl-count/%d", count[n]), "mock type %s is declared %d times in %s", n, count[n], outFile)
			}
			mockTypes -= count[n]
			if count[n] == 1 {
				vh.DontCare("alias-declaration-mocked")
			}
		}
		if mockTypes != len(names) {
			return fail("extra-mock", "%s declares %d mock types, the configuration selects %d (%v)", outFile, mockTypes, len(names), names)
		}
	}
	// … and the assertions must type-check
	var afiles []string
	for f, src := range asserts {
		afiles = append(afiles, f)
		if err := os.WriteFile(filepath.Join(dir, f), []byte(src), 0o644); err != nil {
			vh.Infra("write assertion: %v", err)
		}
	}
	ok2, out2 := vh.GoVet(dir, c.R.BuildTags())
	if ok2 {
		return nil
	}
	if !strings.Contains(out2, "zz_verif_assert_test.go") || strings.Contains(out2, "could not import") || strings.Contains(out2, "is not in std") {
		vh.Infra("assertion harness problem: %s", vh.Trunc(out2, 1500))
	}
	line := implLine(out2)
	v := fail("assign/"+progen.NormDiag(shape(line)), "the mock is not assignable to its interface: %s", line)
	v.Observed += "\n--- go vet\n" + vh.Trunc(out2, 3000)
	return v
}

var mockTypeRe = regexp.MustCompile(`^[Mm]ock[A-Za-z0-9]*$`)
var implRe = regexp.MustCompile(`does not implement|missing method|wrong type for method`)

func implLine(out string) string {
	lines := strings.Split(out, "\n")
	for i, ln := range lines {
		if strings.Contains(ln, "zz_verif_assert_test.go") || implRe.MatchString(ln) {
			s := strings.TrimSpace(ln)
			if i+1 < len(lines) && strings.HasPrefix(lines[i+1], "\t") {
				s += " " + strings.TrimSpace(lines[i+1])
			}
			return s
		}
	}
	return "?"
}

var posRe = regexp.MustCompile(`^\S+\.go:\d+:\d+: `)
var quotedRe = regexp.MustCompile(`\([^()]*\)|\[[^\[\]]*\]`)

// shape keeps the kind of the diagnostic and drops the concrete types.
func shape(s string) string {
	s = posRe.ReplaceAllString(strings.TrimPrefix(s, "vet: "), "")
	switch {
	case strings.Contains(s, "missing method"):
		return "missing method"
	case strings.Contains(s, "wrong type for method"):
		return "wrong type for method"
	case strings.Contains(s, "undefined:"):
		return "undefined mock type"
	}
	return quotedRe.ReplaceAllString(s, "")
}

func reduce(c Case) []Case {
	var out []Case
	if c.R.Placement != "inpkg-test" {
		d := c
		d.R.Placement = "inpkg-test"
		out = append(out, d)
	}
	for k := range c.R.Data {
		d := c
		d.R.Data = map[string]any{}
		for k2, v := range c.R.Data {
			if k2 != k {
				d.R.Data[k2] = v
			}
		}
		if k == "boilerplate-file" {
			d.R.Boiler = false
		}
		out = append(out, d)
	}
	if c.R.All {
		d := c
		d.R.All = false
		out = append(out, d)
	}
	for _, m := range progen.Reductions(c.Mod) {
		out = append(out, Case{Mod: m, R: c.R})
	}
	return out
}

func TestProp(t *testing.T) {
	vh.Main(t, vh.Check[Case]{Gen: gen, Run: run, Reduce: reduce})
}

func genericArgs(it *progen.Iface) [][]progen.Ty {
	if len(it.TParams) == 0 {
		return [][]progen.Ty{nil}
	}
	return progen.TypeArgs(it, 3)
}
