// C03 — testify-style mocks route arguments, callbacks and return values faithfully.
//
// Outer level (this file): a generated module rendered with the testify template under each
// unroll-variadic setting. Inner level (mockdrive, a rapid state machine inside the scratch
// module, linked against the freshly generated mocks): histories of expectation
// registrations (typed Return, Run+Return, RunAndReturn, per-result providers,
// whole-signature provider, nil returns, no return values; Once/Times) and calls. The
// reference is testify's own mock.Mock driven directly with the argument lists the property
// describes, so matching, exhaustion and AssertExpectations are never re-implemented.
package c03

import (
	"fmt"
	"regexp"
	"strings"
	"testing"

	"pgregory.net/rapid"
	"verif/harness/mockdrive"
	"verif/harness/progen"
	"verif/harness/vh"
)

type Case struct {
	Mod    progen.Module    `json:"mod"`
	R      progen.Rendering `json:"r"`
	Seed   uint64           `json:"seed"`
	Checks int              `json:"checks"`
	// Replace: root-level replace-type rules mapping non-nillable types to nillable ones (and
	// back); the driver works on the signatures the mock really has.
	Replace bool `json:"replace,omitempty"`
}

// replaceRules: (helper package key, type) -> (helper package key, type)
var replaceRules = [][4]string{
	{"alpha", "T", "alpha", "I"},      // struct -> interface
	{"alpha", "MyInt", "alpha", "Fn"}, // int -> func
	{"alpha", "I", "alphb", "T"},      // interface -> struct
	{"alphb", "Cmp", "alpha", "I"},    // string -> interface
}

var testifyAPI = map[string]bool{"EXPECT": true, "Mock": true, "On": true, "Called": true, "Test": true, "TestData": true,
	"AssertExpectations": true, "AssertCalled": true, "AssertNotCalled": true, "AssertNumberOfCalls": true, "MethodCalled": true, "IsMethodCallable": true}

func gen(t *rapid.T) Case {
	r := progen.Rendering{Template: "testify", Formatter: "goimports", Placement: "separate"}
	switch rapid.IntRange(0, 2).Draw(t, "unroll") {
	case 1:
		r.Data = map[string]any{"unroll-variadic": true}
	case 2:
		r.Data = map[string]any{"unroll-variadic": false}
	}
	o := progen.Opts{MaxPkgs: 2, MaxIfaces: 3, Avoid: map[string]bool{"srcpkg:mock": true, "pkg:mockp": true, "tparamname:mock": true, "tparamname:t": true},
		MethodFilter: func(n string) bool { return testifyAPI[n] }}
	mod := progen.Gen(t, o)
	if rapid.IntRange(0, 3).Draw(t, "template-locals") > 0 {
		// parameters named like the template's own locals (ret, _mock, args, ...)
		progen.HostileLocals(t, &mod, "testify")
	}
	if rapid.IntRange(0, 3).Draw(t, "logging-shape") == 0 {
		// Println(args ...any): the variadic parameter is the method's only parameter
		it := &mod.Pkgs[0].Ifaces[0]
		if it.InstOf == nil {
			taken := false
			for _, mt := range it.Methods {
				taken = taken || mt.Name == "Println"
			}
			if !taken {
				sg := progen.Sig{Params: []progen.Var{{Name: "args", T: progen.B("any")}}, Variadic: true}
				if rapid.Bool().Draw(t, "logging-result") {
					sg.Results = []progen.Var{{T: progen.B("int")}}
				}
				it.Methods = append(it.Methods, progen.Meth{Name: "Println", Sig: sg})
			}
		}
	}
	r.GenIfaceData(t, &mod)
	r.GenIfaceConfigs(t, &mod)
	replace := rapid.IntRange(0, 3).Draw(t, "replace-type") == 0
	if replace {
		// an interface whose parameters and results are exactly the types the rules replace
		T, MyInt, I, Cmp := progen.N("alpha", "T"), progen.N("alpha", "MyInt"), progen.N("alpha", "I"), progen.N("alphb", "Cmp")
		mod.Pkgs[0].Ifaces = append(mod.Pkgs[0].Ifaces, progen.Iface{Name: "Replaced", Methods: []progen.Meth{
			{Name: "GetT", Sig: progen.Sig{Results: []progen.Var{{T: T}}}},
			{Name: "GetBoth", Sig: progen.Sig{Params: []progen.Var{{Name: "x", T: MyInt}}, Results: []progen.Var{{T: T}, {T: progen.B("error")}}}},
			{Name: "Take", Sig: progen.Sig{Params: []progen.Var{{Name: "c", T: Cmp}, {Name: "i", T: I}}, Results: []progen.Var{{T: MyInt}}}},
			{Name: "Many", Sig: progen.Sig{Params: []progen.Var{{Name: "ts", T: T}}, Variadic: true, Results: []progen.Var{{T: I}, {T: Cmp}}}},
		}})
	}
	return Case{Replace: replace, Mod: mod, R: r, Seed: rapid.Uint64Range(1, 1<<62).Draw(t, "innerseed"), Checks: vh.Pick(150, 400)}
}

var mockFileErr = regexp.MustCompile(`(?m)^(\.\./)?mocks/[^:\s]*\.go:\d+`)

func unrollKey(r progen.Rendering) string {
	v, ok := r.Data["unroll-variadic"]
	if !ok {
		return "unroll=unset"
	}
	return fmt.Sprintf("unroll=%v", v)
}

func run(c Case) *vh.Violation {
	cl := []string{unrollKey(c.R)}
	var extraRoot map[string]any
	extraFiles := map[string]string{}
	if c.Replace {
		cl = append(cl, "replace-type")
		rt := map[string]any{}
		for _, r := range replaceRules {
			from := c.Mod.ImportPath(r[0])
			if rt[from] == nil {
				rt[from] = map[string]any{}
			}
			rt[from].(map[string]any)[r[1]] = map[string]any{"pkg-path": c.Mod.ImportPath(r[2]), "type-name": r[3]}
		}
		extraRoot = map[string]any{"replace-type": rt}
		for _, k := range []string{"alpha", "alphb"} {
			f, src := progen.HelperFile(k)
			extraFiles[f] = src
		}
	}
	dir, _ := progen.Materialize(&c.Mod, c.R, extraRoot, extraFiles)
	defer vh.RemoveAll(dir)
	res := vh.Mockery(dir, nil)
	if res.TimedOut {
		vh.Infra("mockery timed out")
	}
	outs := c.R.Outputs(&c.Mod)
	if res.Exit != 0 {
		progen.AssertSourceCompiles(dir, "", outs)
		vh.Count("", append(cl, "skipped:c01-mockery-exit")...)
		vh.DontCare("c01:mockery-exit-nonzero")
		return nil
	}
	mockdrive.Install(dir, &c.Mod, c.R, "testify")
	rr := mockdrive.Run(dir, "TestTestify", c.Seed, c.Checks, false)
	if rr.BuildFail {
		if mockFileErr.MatchString(rr.Output) && !strings.Contains(rr.Output, "zz_drv/") {
			vh.Count("", append(cl, "skipped:c01-compile")...)
			vh.DontCare("c01:generated-file-does-not-compile")
			return nil
		}
		vh.Infra("driver did not build/run: %s", vh.Trunc(rr.Output, 2500))
	}
	v := rr.Verdict
	for k := range v.Classes {
		cl = append(cl, k)
	}
	fp := ""
	if v.NonTrivial > 0 {
		fp = vh.Hash(vh.JSON(c))
	}
	vh.Count(fp, cl...)
	vh.AddEvaluations(v.Histories)
	for _, s := range v.Shapes {
		vh.AddFingerprint(unrollKey(c.R) + " " + s)
	}
	if fp != "" && vh.NeedSample() {
		vh.Sample(map[string]any{"opts": c.R.Data, "histories": v.Histories, "calls": v.Steps, "nontrivial_histories": v.NonTrivial, "signature_shapes": v.Shapes, "classes": v.Classes})
	}
	if v.Failure != nil {
		f := v.Failure
		key := "testify/" + f.Kind
		if !strings.Contains(f.Kind, "unroll=") && strings.Contains(f.Kind, "variadic") {
			key += "/" + unrollKey(c.R)
		}
		obs := fmt.Sprintf("target %s\n%s\n--- history (shrunk by the inner rapid run)\n%s\n--- driver output\n%s", f.Target, f.Msg, strings.Join(f.History, "\n"), vh.Trunc(rr.Output, 2500))
		return vh.Violate(key, "%s: %s", f.Target, f.Msg).With(vh.ReadTree(dir), obs)
	}
	if rr.Exit != 0 {
		vh.Infra("driver failed without a recorded failure: %s", vh.Trunc(rr.Output, 2500))
	}
	return nil
}

func reduce(c Case) []Case {
	var out []Case
	for _, m := range progen.Reductions(c.Mod) {
		d := c
		d.Mod = m
		out = append(out, d)
	}
	return out
}

func TestProp(t *testing.T) {
	vh.Main(t, vh.Check[Case]{Gen: gen, Run: run, Reduce: reduce})
}
