// C04 — matryer-style mocks forward calls and record them faithfully.
//
// Outer level (this file): a generated module rendered with the matryer template under all
// combinations of skip-ensure / stub-impl / with-resets. Inner level (mockdrive, a rapid
// state machine running inside the scratch module, linked against the freshly generated
// mocks): setFunc / call / readCalls / resetOne / resetAll histories checked against a
// list-per-method model after every step.
package c04

import (
	"fmt"
	"regexp"
	"sort"
	"strings"
	"testing"

	"pgregory.net/rapid"
	"verif/harness/mockdrive"
	"verif/harness/progen"
	"verif/harness/vh"
)

type Case struct {
	Mod    progen.Module    `json:"mod"`
	R      progen.Rendering `json:"r"`
	Seed   uint64           `json:"seed"`
	Checks int              `json:"checks"`
}

func gen(t *rapid.T) Case {
	r := progen.Rendering{Template: "matryer", Formatter: "goimports", Placement: "separate"}
	data := map[string]any{}
	for _, k := range []string{"skip-ensure", "stub-impl", "with-resets"} {
		switch rapid.IntRange(0, 2).Draw(t, k) {
		case 1:
			data[k] = true
		case 2:
			data[k] = false
		}
	}
	if len(data) > 0 {
		r.Data = data
	}
	o := progen.Opts{MaxPkgs: 2, MaxIfaces: 3, Avoid: map[string]bool{"srcpkg:mock": true, "pkg:mockp": true, "tparamname:mock": true}}
	mod := progen.Gen(t, o)
	if rapid.Bool().Draw(t, "template-locals") {
		progen.HostileLocals(t, &mod, "matryer")
	}
	if rapid.IntRange(0, 3).Draw(t, "logging-shape") == 0 {
		// Println(args ...any): the variadic parameter is the method's only parameter
		it := &mod.Pkgs[0].Ifaces[0]
		if it.InstOf == nil {
			taken := false
			for _, mt := range it.Methods {
				taken = taken || mt.Name == "Println"
			}
			if !taken {
				sg := progen.Sig{Params: []progen.Var{{Name: "args", T: progen.B("any")}}, Variadic: true}
				if rapid.Bool().Draw(t, "logging-result") {
					sg.Results = []progen.Var{{T: progen.B("int")}}
				}
				it.Methods = append(it.Methods, progen.Meth{Name: "Println", Sig: sg})
			}
		}
	}
	r.GenIfaceData(t, &mod)
	r.GenIfaceConfigs(t, &mod)
	return Case{Mod: mod, R: r, Seed: rapid.Uint64Range(1, 1<<62).Draw(t, "innerseed"), Checks: vh.Pick(150, 400)}
}

var mockFileErr = regexp.MustCompile(`(?m)^(\.\./)?mocks/[^:\s]*\.go:\d+`)

func optsKey(r progen.Rendering) string {
	var ks []string
	for k, v := range r.Data {
		if v == true {
			ks = append(ks, k)
		}
	}
	sort.Strings(ks)
	if len(ks) == 0 {
		return "defaults"
	}
	return strings.Join(ks, "+")
}

func run(c Case) *vh.Violation {
	cl := []string{"opts=" + optsKey(c.R)}
	if len(c.R.IfaceConfigs) > 0 {
		cl = append(cl, "configs-list:several-mocks-of-one-interface-in-one-file")
	}
	dir, _ := progen.Materialize(&c.Mod, c.R, nil, nil)
	defer vh.RemoveAll(dir)
	res := vh.Mockery(dir, nil)
	if res.TimedOut {
		vh.Infra("mockery timed out")
	}
	outs := c.R.Outputs(&c.Mod)
	if res.Exit != 0 {
		progen.AssertSourceCompiles(dir, "", outs)
		vh.Count("", append(cl, "skipped:c01-mockery-exit")...)
		vh.DontCare("c01:mockery-exit-nonzero")
		return nil
	}
	mockdrive.Install(dir, &c.Mod, c.R, "matryer")
	rr := mockdrive.Run(dir, "TestMatryer", c.Seed, c.Checks, false)
	if rr.BuildFail && strings.Contains(rr.Output, "all goroutines are asleep - deadlock") {
		return vh.Violate("matryer/deadlock", "the generated mock deadlocked").With(vh.ReadTree(dir), vh.Trunc(rr.Output, 4000))
	}
	if rr.BuildFail {
		if mockFileErr.MatchString(rr.Output) && !strings.Contains(rr.Output, "zz_drv/") {
			vh.Count("", append(cl, "skipped:c01-compile")...)
			vh.DontCare("c01:generated-file-does-not-compile")
			return nil
		}
		vh.Infra("driver did not build/run: %s", vh.Trunc(rr.Output, 2500))
	}
	v := rr.Verdict
	for k, n := range v.Classes {
		for i := 0; i < n && i < 1; i++ {
			cl = append(cl, k)
		}
	}
	fp := ""
	if v.NonTrivial > 0 {
		fp = vh.Hash(vh.JSON(c))
	}
	vh.Count(fp, cl...)
	vh.AddEvaluations(v.Histories)
	for _, s := range v.Shapes {
		vh.AddFingerprint(optsKey(c.R) + " " + s)
	}
	if fp != "" && vh.NeedSample() {
		vh.Sample(map[string]any{"opts": c.R.Data, "histories": v.Histories, "steps": v.Steps, "nontrivial_histories": v.NonTrivial, "signature_shapes": v.Shapes, "classes": v.Classes})
	}
	if v.Failure == nil && strings.Contains(rr.Output, "all goroutines are asleep - deadlock") {
		return vh.Violate("matryer/deadlock", "the generated mock deadlocked").With(vh.ReadTree(dir), vh.Trunc(rr.Output, 4000))
	}
	if v.Failure != nil {
		f := v.Failure
		key := "matryer/" + f.Kind
		if strings.HasPrefix(f.Kind, "stub") || strings.HasPrefix(f.Kind, "nil-func") {
			key += fmt.Sprintf("/stub-impl-at-root=%v", c.R.Data["stub-impl"] == true)
			if len(c.R.IfaceData) > 0 {
				key += "/interface-level-template-data"
			}
			if len(c.R.IfaceConfigs) > 0 {
				key += "/configs-list"
			}
		}
		if strings.HasPrefix(f.Kind, "reset") {
			key += fmt.Sprintf("/with-resets=%v", c.R.Data["with-resets"] == true)
		}
		obs := fmt.Sprintf("target %s\n%s\n--- history (shrunk by the inner rapid run)\n%s\n--- driver output\n%s", f.Target, f.Msg, strings.Join(f.History, "\n"), vh.Trunc(rr.Output, 2500))
		return vh.Violate(key, "%s: %s", f.Target, f.Msg).With(vh.ReadTree(dir), obs)
	}
	if rr.Exit != 0 {
		vh.Infra("driver failed without a recorded failure: %s", vh.Trunc(rr.Output, 2500))
	}
	return nil
}

func reduce(c Case) []Case {
	var out []Case
	for k := range c.R.Data {
		d := c
		d.R.Data = map[string]any{}
		for k2, v := range c.R.Data {
			if k2 != k {
				d.R.Data[k2] = v
			}
		}
		out = append(out, d)
	}
	for k := range c.R.IfaceConfigs {
		d := c
		d.R.IfaceConfigs = map[string][]progen.MockCfg{}
		for k2, v := range c.R.IfaceConfigs {
			if k2 != k {
				d.R.IfaceConfigs[k2] = v
			}
		}
		out = append(out, d)
	}
	for _, m := range progen.Reductions(c.Mod) {
		d := c
		d.Mod = m
		out = append(out, d)
	}
	return out
}

func TestProp(t *testing.T) {
	vh.Main(t, vh.Check[Case]{Gen: gen, Run: run, Reduce: reduce})
}
