// C05 — generated mocks are safe under concurrent use.
//
// Outer level: a small generated module whose method parameters can carry a call id (ints,
// strings, slices, pointers, structs of those), rendered with matryer (with and without
// resets) or testify (every unroll-variadic setting). Inner level (mockdrive TestRace, built
// with -race): rapid draws concurrent programs — 2–8 goroutines, each a list of calls with
// unique ids, Calls() reads and resets, released by a barrier, under GOMAXPROCS 1/2/8 with
// drawn Gosched points. Oracle: the race detector stays silent; no call lost or recorded
// twice; every record holds the arguments of exactly one call; the user func / Run callback
// ran exactly once per call.
package c05

import (
	"fmt"
	"regexp"
	"strings"
	"testing"

	"pgregory.net/rapid"
	"verif/harness/mockdrive"
	"verif/harness/progen"
	"verif/harness/vh"
)

type Case struct {
	Mod    progen.Module    `json:"mod"`
	R      progen.Rendering `json:"r"`
	Seed   uint64           `json:"seed"`
	Checks int              `json:"checks"`
}

func idType(t *rapid.T, label string, depth int) progen.Ty {
	k := rapid.IntRange(0, 11).Draw(t, label)
	if depth >= 2 && k >= 5 && k <= 8 {
		k = 0
	}
	switch k {
	case 0, 1:
		return progen.B("int")
	case 2:
		return progen.B("string")
	case 3:
		return progen.B("int64")
	case 4:
		return progen.N("", "Local")
	case 5:
		e := idType(t, label+"e", depth+1)
		return progen.Ty{K: "slice", Elem: &e}
	case 6:
		e := idType(t, label+"e", depth+1)
		return progen.Ty{K: "ptr", Elem: &e}
	case 7:
		e := idType(t, label+"e", depth+1)
		return progen.Ty{K: "array", Len: 2, Elem: &e}
	case 8:
		return progen.Ty{K: "struct", Fields: []progen.Field{{Name: "A", T: progen.B("int")}, {Name: "B", T: progen.B("string")}}}
	case 9:
		return progen.N("alpha", "T")
	case 10:
		return progen.N("alpha", "MyInt")
	default:
		return progen.B("error") // carries no id
	}
}

func gen(t *rapid.T) Case {
	r := progen.Rendering{Formatter: "goimports", Placement: "separate"}
	if rapid.IntRange(0, 2).Draw(t, "style") < 2 {
		r.Template = "matryer"
		data := map[string]any{}
		if rapid.Bool().Draw(t, "resets") {
			data["with-resets"] = true
		}
		if rapid.IntRange(0, 3).Draw(t, "stub") == 0 {
			data["stub-impl"] = true
		}
		if len(data) > 0 {
			r.Data = data
		}
	} else {
		r.Template = "testify"
		switch rapid.IntRange(0, 2).Draw(t, "unroll") {
		case 1:
			r.Data = map[string]any{"unroll-variadic": true}
		case 2:
			r.Data = map[string]any{"unroll-variadic": false}
		}
	}
	mod := progen.Module{ModPath: "example.com/m", GoMod: "plain", Pkgs: []progen.Pkg{{Dir: "svc", Name: "svc", Files: 1}}}
	names := []string{"Do", "Get", "Put", "Fetch"}
	ni := rapid.IntRange(1, 2).Draw(t, "nifaces")
	for i := 0; i < ni; i++ {
		it := progen.Iface{Name: []string{"Service", "Store"}[i]}
		nm := rapid.IntRange(1, 3).Draw(t, "nmethods")
		for j := 0; j < nm; j++ {
			var s progen.Sig
			np := rapid.IntRange(0, 3).Draw(t, "nparams")
			for k := 0; k < np; k++ {
				s.Params = append(s.Params, progen.Var{Name: fmt.Sprintf("p%d", k), T: idType(t, "pt", 0)})
			}
			if np > 0 && rapid.IntRange(0, 3).Draw(t, "variadic") == 0 {
				s.Variadic = true
				if rapid.IntRange(0, 1).Draw(t, "variadic-any") == 0 {
					s.Params[np-1].T = progen.B("any") // ...any: the shape logging-style methods have
				}
			}
			nr := rapid.IntRange(0, 2).Draw(t, "nresults")
			for k := 0; k < nr; k++ {
				s.Results = append(s.Results, progen.Var{T: idType(t, "rt", 1)})
			}
			it.Methods = append(it.Methods, progen.Meth{Name: names[j], Sig: s})
		}
		if i == 0 && rapid.IntRange(0, 4).Draw(t, "logging-shape") == 0 {
			// the shape logging-style methods have: the variadic is the only parameter
			it.Methods[0].Sig = progen.Sig{Params: []progen.Var{{Name: "args", T: progen.B("any")}}, Variadic: true}
		}
		mod.Pkgs[0].Ifaces = append(mod.Pkgs[0].Ifaces, it)
	}
	return Case{Mod: mod, R: r, Seed: rapid.Uint64Range(1, 1<<62).Draw(t, "innerseed"), Checks: vh.Pick(40, 200)}
}

var raceBlock = regexp.MustCompile(`(?s)WARNING: DATA RACE.*?==================`)

func optsKey(r progen.Rendering) string {
	s := r.Template
	for _, k := range []string{"with-resets", "stub-impl", "unroll-variadic"} {
		if v, ok := r.Data[k]; ok {
			s += fmt.Sprintf(" %s=%v", k, v)
		}
	}
	return s
}

func run(c Case) *vh.Violation {
	cl := []string{"opts=" + optsKey(c.R)}
	dir, _ := progen.Materialize(&c.Mod, c.R, nil, nil)
	defer vh.RemoveAll(dir)
	res := vh.Mockery(dir, nil)
	if res.TimedOut {
		vh.Infra("mockery timed out")
	}
	if res.Exit != 0 {
		progen.AssertSourceCompiles(dir, "", c.R.Outputs(&c.Mod))
		vh.Count("", append(cl, "skipped:c01-mockery-exit")...)
		vh.DontCare("c01:mockery-exit-nonzero")
		return nil
	}
	mockdrive.Install(dir, &c.Mod, c.R, c.R.Template)
	rr := mockdrive.Run(dir, "TestRace", c.Seed, c.Checks, true)
	if rr.BuildFail {
		if strings.Contains(rr.Output, "mocks/svc/mocks.go") && !strings.Contains(rr.Output, "zz_drv/") {
			vh.Count("", append(cl, "skipped:c01-compile")...)
			vh.DontCare("c01:generated-file-does-not-compile")
			return nil
		}
		vh.Infra("race driver did not build/run: %s", vh.Trunc(rr.Output, 2500))
	}
	v := rr.Verdict
	for k := range v.Classes {
		cl = append(cl, k)
	}
	fp := ""
	if v.NonTrivial > 0 {
		fp = vh.Hash(vh.JSON(c))
	}
	vh.Count(fp, cl...)
	vh.AddEvaluations(v.Histories)
	for _, s := range v.Shapes {
		vh.AddFingerprint(optsKey(c.R) + " " + s)
	}
	if fp != "" && vh.NeedSample() {
		vh.Sample(map[string]any{"opts": optsKey(c.R), "programs": v.Histories, "operations": v.Steps, "nontrivial_programs": v.NonTrivial, "shapes": v.Shapes})
	}
	fail := func(key, format string, a ...any) *vh.Violation {
		return vh.Violate(c.R.Template+"/"+key, format, a...).With(vh.ReadTree(dir), vh.Trunc(rr.Output, 6000))
	}
	if blk := raceBlock.FindString(rr.Output); blk != "" {
		inGenerated := strings.Contains(blk, "/mocks/svc/mocks.go")
		onlyDriver := !inGenerated && !strings.Contains(blk, "testify")
		// the two conflicting accesses: one made by the caller on memory it owns (only driver
		// frames), the other by testify => the generated code handed the caller's memory to testify
		callerVsTestify := false
		if parts := strings.SplitN(blk, "Previous ", 2); len(parts) == 2 {
			second := parts[1]
			if i := strings.Index(second, "Goroutine "); i >= 0 {
				second = second[:i]
			}
			pure := func(s string) bool { return !strings.Contains(s, "testify") && !strings.Contains(s, "/mocks/svc/") }
			callerVsTestify = (pure(parts[0]) && strings.Contains(second, "testify")) || (pure(second) && strings.Contains(parts[0], "testify"))
		}
		switch {
		case callerVsTestify && c.R.Template == "testify":
			return fail("data-race/caller-memory-retained", "a write of the caller to its own (reused) variadic slice races with testify reading a recorded call: the mock kept the caller's backing array")
		case inGenerated:
			return fail("data-race/generated-code", "the race detector reports a data race with a frame in the generated mock")
		case c.R.Template == "matryer" && !onlyDriver:
			return fail("data-race", "the race detector reports a data race while using a matryer mock")
		case onlyDriver:
			vh.Infra("data race inside the driver itself: %s", vh.Trunc(blk, 2500))
		default:
			vh.DontCare("race-confined-to-testify-frames")
			vh.Note("race report confined to testify frames: %s", vh.Trunc(blk, 400))
		}
	}
	if v.Failure != nil {
		f := v.Failure
		return fail(f.Kind, "%s: %s\nprogram:\n%s", f.Target, f.Msg, strings.Join(f.History, "\n"))
	}
	if rr.Exit != 0 {
		vh.Infra("race driver failed without a recorded failure: %s", vh.Trunc(rr.Output, 2500))
	}
	return nil
}

func TestProp(t *testing.T) {
	vh.Main(t, vh.Check[Case]{Gen: gen, Run: run})
}
