// C06 — generation is deterministic and idempotent.
//
// A case is a scratch Go module (2-8 packages in a directory tree, 1-3 interfaces each, methods
// drawn from a pool of shapes known to compile under both built-in templates, two helper
// packages that share the package name "types") plus a .mockery.yml rich in iteration-order
// hazards: several packages and output files, nested recursive packages, explicit packages
// under recursive parents, several `configs` per interface, template-data at every level,
// both built-in templates and a file:// probe template (optionally with per-package
// template-schema files), nine output layouts (test files / non-test files in the source
// package, mocks/ sub-packages, a mirrored tree, one shared package).
//
// Oracle (metamorphic, from the property text only):
//
//	(a) k runs (quick 5, thorough and saved cases 12), each from an identical pristine copy of the
//	    tree at the SAME absolute path: identical exit status, whether that is 0 or not; if they
//	    succeed, identical tree (paths, modes, contents). The property says nothing about WHICH
//	    files a failing run leaves behind (mockery stops at the first output file that fails, in
//	    map order), so the tree of failing runs is only classified, never judged.
//	(b) one more run on top of that output (force-file-write: true at the root from the start, so
//	    (a) and (b) share one config): exit 0, tree unchanged, no new paths (no mocks of mocks).
//	(c) once more: unchanged.
//	(b') if some level says force-file-write: false, a rerun over the earlier output legitimately
//	    fails for those files only: the rerun is then repeated k times; every repetition must
//	    exit with the same status and leave the tree exactly as it was (files that may be
//	    overwritten are reproduced, the others are not touched, nothing is added).
//
// Partially failing runs: a fifth of the cases give some (about half) of the configured packages,
// or single interfaces with an output file of their own, a setting that makes only THEIR output
// files fail: an unknown formatter, template-data that the package's template-schema rejects, a
// template-schema that does not exist while it is required, or force-file-write: false (fails
// on the rerun only). Same inputs => same exit status in every repetition.
//
// stdout/stderr are don't-care (log order, timestamps). go.mod/go.sum are not outputs of
// mockery and are left out of the comparison (the scratch go.mod is complete, so the go
// command has no reason to touch it).
package c06

import (
	"fmt"
	"os"
	"path/filepath"
	"regexp"
	"sort"
	"strings"
	"testing"
	"time"

	"pgregory.net/rapid"
	"verif/harness/vh"
)

// ---- case ---------------------------------------------------------------------------------------

type KV struct {
	K string `json:"k"`
	V string `json:"v"` // YAML flow value, rendered verbatim
}

// Level is one config block (root, package `config`, interface `config`, one `configs` entry).
// Empty fields are not written.
type Level struct {
	All       string `json:"all,omitempty"`
	Recursive string `json:"recursive,omitempty"`
	Layout    string `json:"layout,omitempty"`    // sets dir + filename + pkgname together
	FileOnly  string `json:"file_only,omitempty"` // sets filename only
	Struct    string `json:"struct,omitempty"`    // structname pattern id
	Template  string `json:"template,omitempty"`  // testify | matryer | probe
	Schema    string `json:"schema,omitempty"`    // template-schema id (probe only)
	ReqSchema string `json:"req_schema,omitempty"`
	Include   string `json:"include,omitempty"`   // include-interface-regex
	ExclSub   string `json:"excl_sub,omitempty"`  // exclude-subpkg-regex (one entry)
	Formatter string `json:"formatter,omitempty"` // below the root: only set by the partial-failure generator
	Force     string `json:"force,omitempty"`     // force-file-write (the root always says true)
	TD        []KV   `json:"td,omitempty"`
}

type IfaceCfg struct {
	Name    string  `json:"name"`
	Config  *Level  `json:"config,omitempty"`
	Configs []Level `json:"configs,omitempty"`
}

type PkgCfg struct {
	Dir    string     `json:"dir"`
	Config *Level     `json:"config,omitempty"`
	Ifaces []IfaceCfg `json:"ifaces,omitempty"`
}

type Iface struct {
	Name    string `json:"name"`
	File    int    `json:"file"` // 0 = api.go, 1 = more.go
	Generic bool   `json:"generic,omitempty"`
	Methods []int  `json:"methods,omitempty"` // indices into methodPool
}

type SrcPkg struct {
	Dir    string  `json:"dir"`
	Ifaces []Iface `json:"ifaces"`
}

type Case struct {
	// K overrides the number of pristine runs (saved cases only; the generator never sets it).
	K         int      `json:"k,omitempty"`
	Src       []SrcPkg `json:"src"`
	Formatter string   `json:"formatter,omitempty"`
	Root      Level    `json:"root"`
	Pkgs      []PkgCfg `json:"pkgs"`
}

// ---- pools --------------------------------------------------------------------------------------

const modPath = "example.com/m"

var universe = []struct {
	dir    string
	weight int // out of 10
}{
	{"alpha", 8}, {"alpha/beta", 7}, {"alpha/beta/gamma", 6}, {"alpha/beta/gamma/omega", 3},
	{"alpha/beta/delta", 4}, {"alpha/eps", 4}, {"zeta", 6}, {"zeta/eta", 5}, {"zeta/eta/theta", 4}, {"kappa", 3},
}

type methodShape struct {
	name, sig string
	imports   []string // context io time t1 t2
	variadic  bool
}

// Shapes known to compile under both built-in templates with every formatter that is used
// with them here (see DESIGN section 6 rows 4, 8, 9, 19 for what is deliberately avoided:
// template-internal parameter names, variadics with two results, constrained type parameters).
var methodPool = []methodShape{
	{"Get", "(ctx context.Context, id string) (Item, error)", []string{"context"}, false},
	{"Read", "(src io.Reader) (int, error)", []string{"io"}, false},
	{"Wait", "(d time.Duration) error", []string{"time"}, false},
	{"Logf", "(format string, vals ...any) bool", nil, true}, // with a result: unroll-variadic + no result does not format (C01 matter)
	{"Convert", "(x t1.Thing) t2.Thing", []string{"t1", "t2"}, false},
	{"Both", "(x t2.Thing, y t1.Thing) error", []string{"t1", "t2"}, false},
	{"Close", "() error", nil, false},
	{"Count", "() int", nil, false},
	{"Sum", "(base int, nums ...int) int", nil, true},
	{"Items", "(ctx context.Context) ([]Item, map[string]*Item, error)", []string{"context"}, false},
	{"OnlyTwo", "(x t2.Thing) error", []string{"t2"}, false},
	{"Handle", "(fn func(t1.Thing) error) error", []string{"t1"}, false},
}

var importLines = map[string]string{
	"context": `"context"`,
	"io":      `"io"`,
	"time":    `"time"`,
	"t1":      `t1 "` + modPath + `/h1/types"`,
	"t2":      `t2 "` + modPath + `/h2/types"`,
}

var ifaceBases = []string{"Reader", "Store", "Client", "Logger", "Repo", "Cache", "Queue"}

type layoutDef struct{ dir, file, pkg string }

var layouts = map[string]layoutDef{
	"test-one": {"{{.InterfaceDir}}", "mocks_test.go", "{{.SrcPackageName}}"},
	"test-per": {"{{.InterfaceDir}}", "mock_{{.InterfaceName}}_test.go", "{{.SrcPackageName}}"},
	"exttest":  {"{{.InterfaceDir}}", "ext_mocks_test.go", "{{.SrcPackageName}}_test"},
	"src-one":  {"{{.InterfaceDir}}", "zz_mocks_gen.go", "{{.SrcPackageName}}"},
	"src-per":  {"{{.InterfaceDir}}", "zz_mock_{{.InterfaceName | snakecase}}.go", "{{.SrcPackageName}}"},
	// non-test output in the source package that sorts before / between the source files api.go and
	// more.go (the rerun then meets its own output in the middle of pkg.GoFiles)
	"src-first":   {"{{.InterfaceDir}}", "aa_mocks_gen.go", "{{.SrcPackageName}}"},
	"src-mid":     {"{{.InterfaceDir}}", "gen_mocks.go", "{{.SrcPackageName}}"},
	"src-mid-per": {"{{.InterfaceDir}}", "gen_mock_{{.InterfaceName | snakecase}}.go", "{{.SrcPackageName}}"},
	"sub-one":     {"{{.InterfaceDir}}/mocks", "mocks.go", "mocks"},
	"sub-per":     {"{{.InterfaceDir}}/mocks", "{{.InterfaceName}}.go", "mocks"},
	"tree":        {"mocks/{{.SrcPackagePath}}", "mocks.go", "mocks_{{.SrcPackageName}}"},
	"shared":      {"internal/allmocks", "{{.SrcPackageName}}_mocks.go", "allmocks"},
	// .StructName piped through a function that does not commute with resolving the (templated)
	// structname: deterministic only if every templated parameter sees the same .StructName
	"sn-dir": {"{{.InterfaceDir}}/mocks/{{ .StructName | firstLower }}", "mock.go", "mocks"},
}
var layoutIDs = []string{"test-one", "test-per", "exttest", "src-one", "src-per", "src-first", "src-mid", "src-mid-per", "sub-one", "sub-per", "tree", "shared", "sn-dir"}

// filename-only overrides: always a per-interface test file, valid in every directory and
// under every pkgname the layouts above produce
var fileOnly = map[string]string{
	"extra":  "extra_{{.InterfaceName}}_test.go",
	"second": "second_{{.InterfaceName | lower}}_test.go",
	// see layout sn-dir
	"sn-trim":  `{{ .StructName | trimPrefix "Mock" }}_mock_test.go`,
	"sn-lower": "{{ .StructName | firstLower }}_gen_test.go",
}
var fileOnlyIDs = []string{"extra", "second", "sn-trim", "sn-lower"}

var structPatterns = map[string]string{
	"mock":   "{{.Mock}}{{.InterfaceName}}",
	"fake":   "Fake{{.InterfaceName}}",
	"stub":   "Stub{{.InterfaceName}}",
	"suffix": "{{.InterfaceName}}Mock",
	"double": "{{.InterfaceName}}Double",
}
var structIDs = []string{"mock", "fake", "stub", "suffix", "double"}

const probeURL = "file://templates/probe.templ"

var schemaIDs = []string{"alpha", "beta", "loose"}

// template-data keys
var commonTD = []KV{
	{"mock-build-tags", `"!lvl0"`}, {"mock-build-tags", `"!lvl1"`}, {"mock-build-tags", `"!lvl2 && !lvl3"`},
	{"boilerplate-file", `"boiler/one.txt"`}, {"boilerplate-file", `"boiler/two.txt"`},
}
var testifyTD = []KV{{"unroll-variadic", "true"}, {"unroll-variadic", "false"}}
var matryerTD = []KV{
	{"skip-ensure", "true"}, {"skip-ensure", "false"}, {"stub-impl", "true"}, {"stub-impl", "false"},
	{"with-resets", "true"}, {"with-resets", "false"},
}
var probeTD = []KV{
	{"marker", `"m0"`}, {"marker", `"m1"`}, {"marker", `"m2"`}, {"level", "1"}, {"level", "2"},
	{"nested", `{x: 1, sub: {y: "a"}}`}, {"nested", `{z: 2, sub: {w: "b"}}`}, {"nested", `{x: 9}`},
	{"list", `[3, 1, 2]`},
}

// The row-20 trigger (DESIGN section 6; repaired in /repo 732d8a4, regression case
// replays/C06/fixed-remote-template-cache-schema): >=2 packages generated with the same file://
// template but different template-schema / require-template-schema-exists values.
const keyRow20 = "mockery/shared-remote-template+schema-differs/exit-status-differs"

// ---- generator ----------------------------------------------------------------------------------

func chance(t *rapid.T, label string, outOf10 int) bool {
	// 0 shrinks to "no"
	return rapid.IntRange(0, 9).Draw(t, label) >= 10-outOf10
}

func pick(t *rapid.T, label string, ids []string, noneWeight int) string {
	// index 0..noneWeight-1 = unset (shrinks to unset)
	i := rapid.IntRange(0, noneWeight+len(ids)-1).Draw(t, label)
	if i < noneWeight {
		return ""
	}
	return ids[i-noneWeight]
}

func isUnder(child, parent string) bool { return strings.HasPrefix(child, parent+"/") }

func last(dir string) string { return dir[strings.LastIndex(dir, "/")+1:] }

func title(s string) string { return strings.ToUpper(s[:1]) + s[1:] }

func genTD(t *rapid.T, label string, pool []KV, max int) []KV {
	if len(pool) == 0 {
		return nil
	}
	n := rapid.IntRange(0, max).Draw(t, label+".n")
	var out []KV
	seen := map[string]bool{}
	for i := 0; i < n; i++ {
		kv := pool[rapid.IntRange(0, len(pool)-1).Draw(t, label+".kv")]
		if seen[kv.K] {
			continue
		}
		seen[kv.K] = true
		out = append(out, kv)
	}
	return out
}

func tdPool(tmpl string, specific bool) []KV {
	p := append([]KV{}, commonTD...)
	if !specific {
		return p
	}
	switch tmpl {
	case "matryer":
		p = append(p, matryerTD...)
	case "probe":
		p = append(p, probeTD...)
	default:
		p = append(p, testifyTD...)
	}
	return p
}

func effTemplate(root Level, pc *Level) string {
	if pc != nil && pc.Template != "" {
		return pc.Template
	}
	if root.Template != "" {
		return root.Template
	}
	return "testify"
}

func gen(t *rapid.T) Case {
	var c Case
	// scenario boosts: each forces a little structure, everything else is drawn freely
	wantNested := chance(t, "want-nested", 4)
	wantExplicitUnder := chance(t, "want-explicit-under", 3)
	wantMulti := chance(t, "want-multi-configs", 4)
	wantRow20 := chance(t, "want-shared-remote-template", 1)
	// >=9 entries under packages: (maps spread over buckets, sort.Slice beyond its insertion-sort range of
	// short slices) with three or more recursive packages
	wantBig := chance(t, "want-big", 2)
	// a recursive package unrelated to the nested pair (it can sit between them in any processing order)
	wantThird := wantNested && chance(t, "want-third-recursive", 6)
	row20Known := vh.Known(keyRow20) // repaired in /repo 732d8a4; the switch stays for the findings protocol
	// partially failing runs: some packages (or single interfaces) carry a setting that fails their output files only
	wantFault := chance(t, "want-partial-failure", 2)
	faults := map[string]string{} // package dir -> fault kind

	// ---- sources
	present := map[string]bool{}
	for _, u := range universe {
		if chance(t, "has:"+u.dir, u.weight) || wantBig {
			present[u.dir] = true
		}
	}
	if wantNested {
		present["alpha"], present["alpha/beta"], present["alpha/beta/gamma"] = true, true, true
	}
	if wantExplicitUnder || wantRow20 {
		present["alpha"], present["alpha/beta"] = true, true
	}
	if wantThird {
		present["zeta"], present["zeta/eta"] = true, true
	}
	n := 0
	for _, u := range universe {
		if present[u.dir] {
			n++
			if n > 10 {
				delete(present, u.dir)
			}
		}
	}
	if n == 0 {
		present["alpha"] = true
	}
	for _, u := range universe {
		if !present[u.dir] {
			continue
		}
		sp := SrcPkg{Dir: u.dir}
		ni := rapid.IntRange(1, 3).Draw(t, "nifaces")
		used := map[string]bool{}
		for i := 0; i < ni; i++ {
			base := ifaceBases[rapid.IntRange(0, len(ifaceBases)-1).Draw(t, "base")]
			if used[base] {
				continue
			}
			used[base] = true
			ifc := Iface{Name: base + title(last(u.dir)), File: rapid.IntRange(0, 1).Draw(t, "file")}
			if chance(t, "generic", 2) {
				ifc.Generic = true
			} else {
				nm := rapid.IntRange(1, 4).Draw(t, "nmethods")
				seen := map[int]bool{}
				for j := 0; j < nm; j++ {
					m := rapid.IntRange(0, len(methodPool)-1).Draw(t, "method")
					if seen[m] {
						continue
					}
					seen[m] = true
					ifc.Methods = append(ifc.Methods, m)
				}
			}
			sp.Ifaces = append(sp.Ifaces, ifc)
		}
		c.Src = append(c.Src, sp)
	}

	// ---- formatter and templates (phase 1: everything that decides which template-data keys are admissible)
	c.Formatter = pick(t, "formatter", []string{"goimports", "gofmt", "noop"}, 5)
	// matryer under gofmt/noop used to emit an unused "fmt" import and to miss the source import
	// (DESIGN rows 1, 21; repaired in /repo c3ee887, f82c503), so every template goes with every formatter;
	// on older trees the does-not-compile guard of the rerun phase absorbs it.
	tmplIDs := []string{"testify", "matryer", "matryer", "probe"}
	c.Root.Template = pick(t, "root.template", tmplIDs, 3)
	if wantRow20 {
		c.Root.Template = "probe"
	}
	c.Root.All = pick(t, "root.all", []string{"true", "true", "true", "true", "true", "false"}, 2)
	if chance(t, "root.recursive", 1) {
		c.Root.Recursive = "true" // every configured package becomes a recursive one
	}

	hasBelow := func(dir string) bool {
		for _, s := range c.Src {
			if isUnder(s.Dir, dir) {
				return true
			}
		}
		return false
	}
	for _, s := range c.Src {
		forced := (wantNested && (s.Dir == "alpha" || s.Dir == "alpha/beta")) ||
			((wantExplicitUnder || wantRow20) && (s.Dir == "alpha" || s.Dir == "alpha/beta")) ||
			(wantThird && s.Dir == "zeta")
		skip := wantNested && s.Dir == "alpha/beta/gamma" && chance(t, "gamma-discovered", 8)
		pConf, pRec := 6, 5
		if wantFault {
			pConf = 8 // failing and succeeding output files side by side
		}
		if wantBig {
			pConf, pRec = 9, 7
		}
		if skip || (!forced && !chance(t, "configured:"+s.Dir, pConf)) {
			continue
		}
		pc := PkgCfg{Dir: s.Dir}
		lv := Level{}
		switch {
		case wantNested && (s.Dir == "alpha" || s.Dir == "alpha/beta"):
			lv.Recursive = "true"
		case wantExplicitUnder && s.Dir == "alpha":
			lv.Recursive = "true"
		case wantThird && s.Dir == "zeta":
			lv.Recursive = "true"
		case hasBelow(s.Dir) && chance(t, "recursive", pRec):
			lv.Recursive = "true"
		case !hasBelow(s.Dir) && chance(t, "recursive-leaf", 1):
			lv.Recursive = "true"
		}
		if chance(t, "pkg.template?", 3) {
			lv.Template = pick(t, "pkg.template", tmplIDs, 0)
		}
		lv.All = pick(t, "pkg.all", []string{"true", "true", "true", "false"}, 6)
		if wantFault && chance(t, "fault:"+s.Dir, 5) {
			faults[s.Dir] = genFault(t, row20Known)
		}
		pc.Config = &lv
		c.Pkgs = append(c.Pkgs, pc)
	}
	if len(c.Pkgs) == 0 {
		c.Pkgs = append(c.Pkgs, PkgCfg{Dir: c.Src[0].Dir, Config: &Level{}})
	}
	if wantFault && len(faults) == 0 {
		faults[c.Pkgs[rapid.IntRange(0, len(c.Pkgs)-1).Draw(t, "fault-at")].Dir] = genFault(t, row20Known)
	}
	for i := range c.Pkgs {
		// the schema faults need a template whose schema the case controls
		if f := faults[c.Pkgs[i].Dir]; f == faultBadData || f == faultNoSchema {
			c.Pkgs[i].Config.Template = "probe"
		}
	}
	// are the effective templates uniform? then template-specific keys are admissible everywhere
	uniform := true
	for i := range c.Pkgs {
		if effTemplate(c.Root, c.Pkgs[i].Config) != effTemplate(c.Root, nil) {
			uniform = false
		}
	}

	// ---- root level
	c.Root.Layout = pick(t, "root.layout", layoutIDs, 4)
	if c.Root.Layout == "" && chance(t, "root.fileonly?", 2) {
		c.Root.FileOnly = pick(t, "root.fileonly", fileOnlyIDs, 0)
	}
	// one schema that several probe packages share (the require flag and the data then vary per package)
	commonSchema := pick(t, "common-schema", []string{"alpha", "alpha", "loose"}, 2)
	c.Root.Struct = pick(t, "root.struct", structIDs, 8)
	c.Root.TD = genTD(t, "root.td", tdPool(effTemplate(c.Root, nil), uniform), 2)

	// ---- package and interface levels
	srcOf := map[string]SrcPkg{}
	for _, s := range c.Src {
		srcOf[s.Dir] = s
	}
	for i := range c.Pkgs {
		pc := &c.Pkgs[i]
		lv := pc.Config
		tm := effTemplate(c.Root, lv)
		recursive := lv.Recursive == "true" || c.Root.Recursive == "true"
		if chance(t, "pkg.layout?", 4) {
			lv.Layout = pick(t, "pkg.layout", layoutIDs, 0)
		} else if chance(t, "pkg.fileonly?", 2) {
			lv.FileOnly = pick(t, "pkg.fileonly", fileOnlyIDs, 0)
		}
		if chance(t, "pkg.struct?", 3) {
			lv.Struct = pick(t, "pkg.struct", structIDs, 0)
		}
		if chance(t, "pkg.td?", 4) {
			lv.TD = genTD(t, "pkg.td", tdPool(tm, uniform || !recursive), 2)
		}
		fault := faults[pc.Dir]
		switch fault {
		case faultFormatter:
			lv.Formatter = rapid.SampledFrom(bogusFormatters).Draw(t, "bogus-formatter")
		case faultNoOverwrite:
			lv.Force = "false"
		}
		if lv.All != "true" && c.Root.All != "true" && chance(t, "pkg.include", 3) {
			lv.Include = rapid.SampledFrom([]string{"^(Reader|Store|Client)", "^[L-Z]", ".*"}).Draw(t, "include")
		}
		if recursive && chance(t, "excl-sub", 1) {
			lv.ExclSub = rapid.SampledFrom([]string{"delta$", "eps$", "/mocks$", "theta"}).Draw(t, "exclsub")
		}
		if tm == "probe" {
			// per-package schema settings: the known trigger when >=2 probe packages differ
			schemaFault := fault == faultBadData || fault == faultNoSchema
			if chance(t, "pkg.schema?", 5) || wantRow20 || schemaFault {
				sch := pick(t, "pkg.schema", schemaIDs, 1)
				if commonSchema != "" && chance(t, "use-common-schema", 6) {
					sch = commonSchema
				}
				req := pick(t, "pkg.req-schema", []string{"false", "false", "true"}, 3)
				if row20Known && (sch != "" || req != "") {
					vh.Excluded(keyRow20)
					sch, req = "", ""
				}
				if recursive && (sch == "alpha" || sch == "beta") {
					sch = "loose"
				}
				if schemaFault {
					// validation is on (require-template-schema-exists defaults to true)
					req = pick(t, "fault.req-schema", []string{"true"}, 1)
					if fault == faultBadData {
						sch = pick(t, "fault.schema", []string{"alpha", "beta"}, 0)
					} else {
						sch = "missing"
					}
				}
				lv.Schema, lv.ReqSchema = sch, req
				switch sch {
				case "alpha":
					lv.TD = setKV(delKV(lv.TD, "beta"), KV{"alpha", `"a-value"`})
				case "beta":
					lv.TD = setKV(delKV(lv.TD, "alpha"), KV{"beta", "7"})
				}
				// opted out of validation: data the strict schema rejects is then fine (not a recursive
				// package, so the data stays in this package; the strict schemas are never on recursive ones)
				if (sch == "alpha" || sch == "beta") && req == "false" && chance(t, "unvalidated-bad-data", 7) {
					lv.TD = setKV(delKV(delKV(lv.TD, "alpha"), "beta"), KV{"rejected", `"by the strict schemas"`})
				}
				if fault == faultBadData {
					lv.TD = setKV(delKV(delKV(lv.TD, "alpha"), "beta"), KV{"rejected", `"by the strict schemas"`})
				}
			}
		}
		// interfaces
		src := srcOf[pc.Dir]
		listAll := wantMulti && i == 0
		if !listAll && !chance(t, "list-ifaces?", 5) {
			continue
		}
		for _, ifc := range src.Ifaces {
			if !listAll && !chance(t, "list:"+ifc.Name, 6) {
				continue
			}
			ic := IfaceCfg{Name: ifc.Name}
			if chance(t, "iface.config?", 5) {
				il := genIfaceLevel(t, "iface.config", tm, "")
				ic.Config = &il
			}
			if (listAll && len(pc.Ifaces) == 0) || chance(t, "iface.configs?", 3) {
				nc := rapid.IntRange(2, 3).Draw(t, "nconfigs")
				start := rapid.IntRange(0, len(structIDs)-1).Draw(t, "configs.struct0")
				for j := 0; j < nc; j++ {
					// distinct struct names by construction
					cl := genIfaceLevel(t, "configs", tm, structIDs[(start+j)%len(structIDs)])
					ic.Configs = append(ic.Configs, cl)
				}
			}
			// a single interface whose output file (one of its own) fails while its neighbours' files succeed
			if wantFault && len(ic.Configs) == 0 && ownFile(ic.Config, lv, &c.Root) && chance(t, "iface-fault?", 4) {
				if ic.Config == nil {
					ic.Config = &Level{}
				}
				if chance(t, "iface-fault=no-overwrite", 4) {
					ic.Config.Force = "false"
				} else {
					ic.Config.Formatter = rapid.SampledFrom(bogusFormatters).Draw(t, "bogus-formatter")
				}
			}
			pc.Ifaces = append(pc.Ifaces, ic)
		}
	}
	// document order of the entries under packages: — small Go maps are only ever ranged in rotations
	// of their insertion order, so the order in the file decides which relative orders can occur at all
	if chance(t, "shuffle-packages", 6) {
		for i := len(c.Pkgs) - 1; i > 0; i-- {
			j := i - rapid.IntRange(0, i).Draw(t, "shuffle") // 0 = stay
			c.Pkgs[i], c.Pkgs[j] = c.Pkgs[j], c.Pkgs[i]
		}
	}
	return c
}

// fault kinds: settings that make the output files of one package (or interface) fail, nothing else
const (
	faultFormatter   = "unknown-formatter"
	faultBadData     = "schema-rejects-data"
	faultNoSchema    = "schema-missing"
	faultNoOverwrite = "no-overwrite" // fails only once the output exists: the rerun phase
)

var bogusFormatters = []string{"nosuch", "gofumpt"}

func genFault(t *rapid.T, row20Known bool) string {
	kinds := []string{faultFormatter, faultNoOverwrite, faultBadData, faultNoSchema, faultFormatter, faultNoOverwrite}
	f := kinds[rapid.IntRange(0, len(kinds)-1).Draw(t, "fault-kind")]
	if row20Known && (f == faultBadData || f == faultNoSchema) {
		// per-package schema settings are switched off while that finding is open
		vh.Excluded(keyRow20)
		f = faultFormatter
	}
	return f
}

var perIfaceLayouts = map[string]bool{"test-per": true, "src-per": true, "src-mid-per": true, "sub-per": true, "sn-dir": true}

// ownFile: does the nearest level that says where the output goes give every interface a file of its own?
func ownFile(levels ...*Level) bool {
	for _, l := range levels {
		if l == nil {
			continue
		}
		if l.FileOnly != "" {
			return true
		}
		if l.Layout != "" {
			return perIfaceLayouts[l.Layout]
		}
	}
	return false // the default: one mocks_test.go per package
}

func genIfaceLevel(t *rapid.T, label, tmpl, forceStruct string) Level {
	var l Level
	l.Struct = forceStruct
	if l.Struct == "" && chance(t, label+".struct?", 4) {
		l.Struct = pick(t, label+".struct", structIDs, 0)
	}
	switch rapid.IntRange(0, 9).Draw(t, label+".where") {
	case 0, 1, 2, 3, 4, 5:
	case 6, 7:
		l.FileOnly = pick(t, label+".fileonly", fileOnlyIDs, 0)
	default:
		l.Layout = pick(t, label+".layout", layoutIDs, 0)
	}
	if chance(t, label+".td?", 4) {
		l.TD = genTD(t, label+".td", tdPool(tmpl, true), 2)
		l.TD = delKV(delKV(l.TD, "alpha"), "beta")
	}
	return l
}

func delKV(td []KV, k string) []KV {
	var out []KV
	for _, kv := range td {
		if kv.K != k {
			out = append(out, kv)
		}
	}
	return out
}

func setKV(td []KV, kv KV) []KV { return append(delKV(td, kv.K), kv) }

// ---- rendering ----------------------------------------------------------------------------------

const goMod = `module ` + modPath + `

go 1.23

require github.com/stretchr/testify v1.10.0

require (
	github.com/davecgh/go-spew v1.1.1 // indirect
	github.com/pmezard/go-difflib v1.0.0 // indirect
	github.com/stretchr/objx v0.5.2 // indirect
	gopkg.in/yaml.v3 v3.0.1 // indirect
)
`

const probeTempl = `// Code generated by mockery; DO NOT EDIT.
// template: probe
{{- if (index .TemplateData "boilerplate-file") }}
{{ index .TemplateData "boilerplate-file" | readFile }}
{{- end }}
{{- if (index .TemplateData "mock-build-tags") }}

//go:build {{ index .TemplateData "mock-build-tags" }}
{{- end }}

package {{.PkgName}}

// file-level template-data: {{ printf "%v" .TemplateData }}
// source qualifier: {{ printf "%q" .SrcPkgQualifier }}
{{- range .Interfaces }}
//
// interface {{ .Name }} => {{ .StructName }}{{ .TypeConstraint }}
//   template-data: {{ printf "%v" .TemplateData }}
{{- range .Methods }}
//   func {{ .Name }}({{ .ArgList }}) {{ .ReturnArgTypeList }}
{{- end }}
{{- end }}
//
// imports:
{{- range .Imports }}
//   {{ .ImportStatement }}
{{- end }}
`

const allProps = `"mock-build-tags": {"type": "string"}, "boilerplate-file": {"type": "string"},
  "marker": {"type": "string"}, "level": {"type": "integer"}, "nested": {"type": "object"}, "list": {"type": "array"},
  "unroll-variadic": {"type": "boolean"}`

var staticFiles = map[string]string{
	"go.mod":                            goMod,
	"h1/types/t.go":                     "package types\n\n// Thing of the first helper package.\ntype Thing struct{ A int }\n",
	"h2/types/t.go":                     "package types\n\n// Thing of the second helper package (same package name, different path).\ntype Thing struct{ B string }\n",
	"boiler/one.txt":                    "// Copyright (c) One Corp.\n// boilerplate one",
	"boiler/two.txt":                    "// boilerplate two: all rights reserved",
	"templates/probe.templ":             probeTempl,
	"templates/probe.templ.schema.json": `{"$schema": "http://json-schema.org/draft-07/schema#", "type": "object"}` + "\n",
	"templates/schema-loose.json":       `{"$schema": "http://json-schema.org/draft-07/schema#", "type": "object", "additionalProperties": true}` + "\n",
	"templates/schema-alpha.json": `{"$schema": "http://json-schema.org/draft-07/schema#", "type": "object", "additionalProperties": false,
 "properties": {"alpha": {"type": "string"}, ` + allProps + `}, "required": ["alpha"]}` + "\n",
	"templates/schema-beta.json": `{"$schema": "http://json-schema.org/draft-07/schema#", "type": "object", "additionalProperties": false,
 "properties": {"beta": {"type": "integer"}, ` + allProps + `}, "required": ["beta"]}` + "\n",
}

// goSum is the part of the harness go.sum that the scratch module needs (testify and what it
// requires); the full 260 kB file would be rewritten for every one of the k runs.
func goSum() string {
	var b strings.Builder
	for _, ln := range strings.Split(vh.GoSum(), "\n") {
		for _, m := range []string{"github.com/stretchr/testify ", "github.com/davecgh/go-spew ", "github.com/pmezard/go-difflib ",
			"github.com/stretchr/objx ", "gopkg.in/yaml.v3 ", "gopkg.in/check.v1 "} {
			if strings.HasPrefix(ln, m) {
				b.WriteString(ln + "\n")
			}
		}
	}
	return b.String()
}

func renderSrc(p SrcPkg, out map[string]string) {
	name := last(p.Dir)
	for f, fname := range []string{"api.go", "more.go"} {
		var body strings.Builder
		need := map[string]bool{}
		count := 0
		for _, ifc := range p.Ifaces {
			if ifc.File != f {
				continue
			}
			count++
			if ifc.Generic {
				fmt.Fprintf(&body, "\n// %s is a generic interface.\ntype %s[T any] interface {\n\tPut(key string, v T) error\n\tFetch(key string) (T, bool)\n}\n", ifc.Name, ifc.Name)
				continue
			}
			fmt.Fprintf(&body, "\ntype %s interface {\n", ifc.Name)
			for _, m := range ifc.Methods {
				ms := methodPool[m]
				fmt.Fprintf(&body, "\t%s%s\n", ms.name, ms.sig)
				for _, im := range ms.imports {
					need[im] = true
				}
			}
			body.WriteString("}\n")
		}
		if f == 1 && count == 0 {
			continue
		}
		var b strings.Builder
		fmt.Fprintf(&b, "package %s\n", name)
		if len(need) > 0 {
			b.WriteString("\nimport (\n")
			for _, k := range []string{"context", "io", "time", "t1", "t2"} {
				if need[k] {
					b.WriteString("\t" + importLines[k] + "\n")
				}
			}
			b.WriteString(")\n")
		}
		if f == 0 {
			b.WriteString("\n// Item is a local named type.\ntype Item struct{ ID string }\n")
		}
		b.WriteString(body.String())
		out[p.Dir+"/"+fname] = b.String()
	}
}

func q(s string) string {
	if strings.Contains(s, `"`) {
		return "'" + s + "'" // YAML single-quoted scalar (no single quotes occur in the pools)
	}
	return `"` + s + `"`
}

func renderLevel(b *strings.Builder, ind string, l Level, first string) {
	// first = prefix of the first emitted line (for list items "- "), afterwards ind
	pre := first
	emit := func(k, v string) {
		b.WriteString(pre + k + ": " + v + "\n")
		pre = ind
	}
	if l.All != "" {
		emit("all", l.All)
	}
	if l.Recursive != "" {
		emit("recursive", l.Recursive)
	}
	if l.Template != "" {
		if l.Template == "probe" {
			emit("template", q(probeURL))
		} else {
			emit("template", l.Template)
		}
	}
	if l.Schema != "" {
		emit("template-schema", q("file://templates/schema-"+l.Schema+".json"))
	}
	if l.ReqSchema != "" {
		emit("require-template-schema-exists", l.ReqSchema)
	}
	if l.Formatter != "" {
		emit("formatter", l.Formatter)
	}
	if l.Force != "" {
		emit("force-file-write", l.Force)
	}
	if l.Layout != "" {
		d := layouts[l.Layout]
		emit("dir", q(d.dir))
		emit("filename", q(d.file))
		emit("pkgname", q(d.pkg))
	}
	if l.FileOnly != "" {
		emit("filename", q(fileOnly[l.FileOnly]))
	}
	if l.Struct != "" {
		emit("structname", q(structPatterns[l.Struct]))
	}
	if l.Include != "" {
		emit("include-interface-regex", q(l.Include))
	}
	if l.ExclSub != "" {
		emit("exclude-subpkg-regex", "["+q(l.ExclSub)+"]")
	}
	if len(l.TD) > 0 {
		emit("template-data", "")
		for _, kv := range l.TD {
			b.WriteString(ind + "  " + kv.K + ": " + kv.V + "\n")
		}
	}
}

func levelEmpty(l *Level) bool {
	if l == nil {
		return true
	}
	var b strings.Builder
	renderLevel(&b, "", *l, "")
	return b.Len() == 0
}

func renderConfig(c Case) string {
	var b strings.Builder
	b.WriteString("force-file-write: true\n")
	if c.Formatter != "" {
		b.WriteString("formatter: " + c.Formatter + "\n")
	}
	renderLevel(&b, "", c.Root, "")
	b.WriteString("packages:\n")
	for _, p := range c.Pkgs {
		b.WriteString("  " + modPath + "/" + p.Dir + ":")
		if levelEmpty(p.Config) && len(p.Ifaces) == 0 {
			b.WriteString("\n") // null entry
			continue
		}
		b.WriteString("\n")
		if !levelEmpty(p.Config) {
			b.WriteString("    config:\n")
			renderLevel(&b, "      ", *p.Config, "      ")
		}
		if len(p.Ifaces) > 0 {
			b.WriteString("    interfaces:\n")
			for _, ic := range p.Ifaces {
				b.WriteString("      " + ic.Name + ":\n")
				if !levelEmpty(ic.Config) {
					b.WriteString("        config:\n")
					renderLevel(&b, "          ", *ic.Config, "          ")
				}
				if len(ic.Configs) > 0 {
					b.WriteString("        configs:\n")
					for i := range ic.Configs {
						if levelEmpty(&ic.Configs[i]) {
							b.WriteString("          - {}\n")
							continue
						}
						renderLevel(&b, "            ", ic.Configs[i], "          - ")
					}
				}
			}
		}
	}
	return b.String()
}

func render(c Case) map[string]string {
	files := map[string]string{}
	for k, v := range staticFiles {
		files[k] = v
	}
	for _, s := range c.Src {
		renderSrc(s, files)
	}
	files[".mockery.yml"] = renderConfig(c)
	return files
}

// ---- classification -----------------------------------------------------------------------------

type shape struct {
	nestedRecursive, explicitUnderRecursive, anyRecursive, multiConfigs, sameNameImports bool
	row20, reqDiffers, structPiped, reparse, nullEntry, discovered                       bool
	faulty                                                                               bool // some level carries a setting that fails its output files in every run
	noOverwrite                                                                          bool // some level says force-file-write: false: its files fail once they exist
	classes                                                                              []string
}

func analyse(c Case) shape {
	var s shape
	add := func(cl string) { s.classes = append(s.classes, cl) }
	rec := map[string]bool{}
	explicit := map[string]bool{}
	for _, p := range c.Pkgs {
		explicit[p.Dir] = true
		if (p.Config != nil && p.Config.Recursive == "true") || (c.Root.Recursive == "true" && (p.Config == nil || p.Config.Recursive == "")) {
			rec[p.Dir] = true
			s.anyRecursive = true
		}
		if levelEmpty(p.Config) && len(p.Ifaces) == 0 {
			s.nullEntry = true
		}
	}
	for _, p := range c.Pkgs {
		for r := range rec {
			if isUnder(p.Dir, r) {
				s.explicitUnderRecursive = true
				if rec[p.Dir] {
					s.nestedRecursive = true
				}
			}
		}
	}
	for _, sp := range c.Src {
		if explicit[sp.Dir] {
			continue
		}
		for r := range rec {
			if isUnder(sp.Dir, r) {
				s.discovered = true
			}
		}
	}
	for _, p := range c.Pkgs {
		for _, ic := range p.Ifaces {
			if len(ic.Configs) >= 2 {
				s.multiConfigs = true
			}
		}
	}
	for _, sp := range c.Src {
		t1, t2 := false, false
		for _, ifc := range sp.Ifaces {
			for _, m := range ifc.Methods {
				for _, im := range methodPool[m].imports {
					t1 = t1 || im == "t1"
					t2 = t2 || im == "t2"
				}
			}
		}
		if t1 && t2 {
			s.sameNameImports = true
		}
	}
	// the row-20 trigger
	type ss struct{ sch, req string }
	seen := map[ss]bool{}
	tmpls := map[string]bool{}
	for _, p := range c.Pkgs {
		tm := effTemplate(c.Root, p.Config)
		tmpls[tm] = true
		if tm != "probe" {
			continue
		}
		k := ss{}
		if p.Config != nil {
			k = ss{p.Config.Schema, p.Config.ReqSchema}
		}
		seen[k] = true
	}
	s.row20 = len(seen) >= 2
	// same template and same schema URL, only the require flag differs
	schemas := map[string]map[string]bool{}
	for k := range seen {
		if schemas[k.sch] == nil {
			schemas[k.sch] = map[string]bool{}
		}
		schemas[k.sch][k.req] = true
	}
	for _, reqs := range schemas {
		if len(reqs) >= 2 {
			s.reqDiffers = true
		}
	}
	if s.reqDiffers && len(schemas) == 1 {
		s.row20 = false
	}
	// layouts in use anywhere
	lay := map[string]bool{}
	note := func(l *Level) {
		if l == nil {
			return
		}
		if l.Layout != "" {
			lay[l.Layout] = true
		}
		if l.FileOnly != "" {
			lay["fileonly"] = true
			if strings.HasPrefix(l.FileOnly, "sn-") {
				lay["sn-file"] = true
			}
		}
	}
	note(&c.Root)
	if c.Root.Layout == "" {
		lay["test-one"] = true // the default
	}
	for _, p := range c.Pkgs {
		note(p.Config)
		for _, ic := range p.Ifaces {
			note(ic.Config)
			for i := range ic.Configs {
				note(&ic.Configs[i])
			}
		}
	}
	s.structPiped = lay["sn-dir"] || lay["sn-file"]
	delete(lay, "sn-file")
	for _, l := range []string{"src-one", "src-per", "src-first", "src-mid", "src-mid-per"} {
		if lay[l] {
			s.reparse = true
		}
	}
	if s.anyRecursive && (lay["sub-one"] || lay["sub-per"]) {
		s.reparse = true
	}
	for l := range lay {
		add("layout=" + l)
	}
	for tm := range tmpls {
		add("template=" + tm)
	}
	if len(tmpls) > 1 {
		add("templates=mixed")
	}
	f := c.Formatter
	if f == "" {
		f = "default(goimports)"
	}
	add("formatter=" + f)
	add(fmt.Sprintf("src-packages=%d", len(c.Src)))
	add(fmt.Sprintf("configured-packages=%d", len(c.Pkgs)))
	flag := func(on bool, name string) {
		if on {
			add(name)
		}
	}
	flag(s.nestedRecursive, "hazard=nested-recursive")
	flag(s.explicitUnderRecursive, "hazard=explicit-under-recursive")
	flag(s.anyRecursive, "hazard=recursive")
	flag(s.discovered, "hazard=discovered-subpackage")
	flag(s.multiConfigs, "hazard=multi-configs")
	flag(s.sameNameImports, "hazard=same-name-imports")
	flag(s.reparse, "hazard=rerun-reparses-own-output")
	flag(s.row20, "hazard=shared-remote-template+schema-differs")
	flag(s.reqDiffers, "hazard=shared-remote-template+require-differs")
	flag(s.structPiped, "hazard=structname-piped-into-path")
	flag(len(c.Pkgs) >= 9, "package-entries>=9")
	flag(len(rec) >= 3, "recursive-packages>=3")
	nestedPlusUnrelated := false
	for a := range rec {
		for b := range rec {
			for x := range rec {
				if isUnder(b, a) && !isUnder(x, a) && !isUnder(a, x) && !isUnder(b, x) && x != a && x != b {
					nestedPlusUnrelated = true
				}
			}
		}
	}
	flag(nestedPlusUnrelated && s.discovered, "hazard=nested-recursive+unrelated-recursive")
	flag(s.nullEntry, "null-package-entry")
	// settings that fail single output files
	validFmt := map[string]bool{"": true, "goimports": true, "gofmt": true, "noop": true}
	faultOf := func(l *Level, tm string) []string {
		var out []string
		if l == nil {
			return nil
		}
		if !validFmt[l.Formatter] {
			out = append(out, faultFormatter)
		}
		if l.Force == "false" {
			out = append(out, faultNoOverwrite)
		}
		if tm == "probe" && l.ReqSchema != "false" {
			rejected := false
			for _, kv := range l.TD {
				rejected = rejected || kv.K == "rejected"
			}
			if l.Schema == "missing" {
				out = append(out, faultNoSchema)
			} else if (l.Schema == "alpha" || l.Schema == "beta") && rejected {
				out = append(out, faultBadData)
			}
		}
		return out
	}
	faultyPkgs, faultyIfaces := 0, 0
	for _, p := range c.Pkgs {
		fs := faultOf(p.Config, effTemplate(c.Root, p.Config))
		if len(fs) > 0 {
			faultyPkgs++
		}
		for _, ic := range p.Ifaces {
			fi := faultOf(ic.Config, "")
			if len(fi) > 0 {
				faultyIfaces++
			}
			fs = append(fs, fi...)
		}
		for _, f := range fs {
			if f == faultNoOverwrite {
				s.noOverwrite = true
			} else {
				s.faulty = true
			}
			add("fault=" + f)
		}
	}
	if s.faulty || s.noOverwrite {
		add("hazard=partial-failure")
		switch {
		case faultyPkgs == len(c.Pkgs):
			add("faulty-packages=all")
		case faultyPkgs > 0:
			add("faulty-packages=some")
		}
		flag(faultyIfaces > 0, "faulty-single-interfaces")
	}
	flag(c.Root.Recursive == "true", "root-recursive")
	tdLevels := 0
	if len(c.Root.TD) > 0 {
		tdLevels++
	}
	pl, il := false, false
	for _, p := range c.Pkgs {
		if p.Config != nil && len(p.Config.TD) > 0 {
			pl = true
		}
		for _, ic := range p.Ifaces {
			if ic.Config != nil && len(ic.Config.TD) > 0 {
				il = true
			}
			for _, cl := range ic.Configs {
				if len(cl.TD) > 0 {
					il = true
				}
			}
		}
	}
	if pl {
		tdLevels++
	}
	if il {
		tdLevels++
	}
	add(fmt.Sprintf("template-data-levels=%d", tdLevels))
	sort.Strings(s.classes)
	s.classes = uniq(s.classes)
	return s
}

func uniq(in []string) []string {
	var out []string
	for i, x := range in {
		if i == 0 || x != in[i-1] {
			out = append(out, x)
		}
	}
	return out
}

func (s shape) hazard() string {
	switch {
	case s.faulty || s.noOverwrite:
		return "partial-failure"
	case s.row20:
		return "shared-remote-template+schema-differs"
	case s.reqDiffers:
		return "shared-remote-template+require-differs"
	case s.structPiped:
		return "structname-piped-into-path"
	case s.nestedRecursive:
		return "nested-recursive"
	case s.explicitUnderRecursive:
		return "explicit-under-recursive"
	case s.anyRecursive:
		return "recursive"
	case s.multiConfigs:
		return "multi-configs"
	case s.sameNameImports:
		return "same-name-imports"
	}
	return "plain"
}

// ---- execution ----------------------------------------------------------------------------------

func snap(dir string) map[string]string {
	s := vh.Snapshot(dir)
	delete(s, "go.mod")
	delete(s, "go.sum")
	return s
}

var resourceRe = regexp.MustCompile(`(?i)resource temporarily unavailable|cannot allocate memory|too many open files|signal: killed|no space left on device|out of memory`)

func isReplay() bool { return os.Getenv("VCHECK_REPLAY") != "" }

func firstDiff(a, b string) (string, string, string) {
	al, bl := strings.Split(a, "\n"), strings.Split(b, "\n")
	for i := 0; i < len(al) || i < len(bl); i++ {
		var x, y string
		if i < len(al) {
			x = al[i]
		}
		if i < len(bl) {
			y = bl[i]
		}
		if x != y {
			return fmt.Sprintf("line %d:\n  - %s\n  + %s", i+1, x, y), x, y
		}
	}
	return "(no line difference)", "", ""
}

var importLineRe = regexp.MustCompile(`^\s*(//\s*)?([A-Za-z_][A-Za-z0-9_]*\s+)?"[^"]+"\s*$`)

// lineCategory normalises the first differing line of a content difference for the canonical key.
func lineCategory(a, b string) string {
	cat := func(l string) string {
		t := strings.TrimSpace(l)
		switch {
		case strings.HasPrefix(t, "//go:build"):
			return "build-constraint"
		case importLineRe.MatchString(l):
			return "import-line"
		case strings.HasPrefix(t, "// template:"):
			return "template-header"
		case strings.HasPrefix(t, "//"):
			return "comment"
		case strings.HasPrefix(t, "package "):
			return "package-clause"
		case strings.HasPrefix(t, "type ") || strings.HasPrefix(t, "func ") || strings.HasPrefix(t, "var "):
			return "declaration"
		case t == "":
			return "end-or-blank"
		}
		return "code"
	}
	x, y := cat(a), cat(b)
	if x == y {
		return x
	}
	if x > y {
		x, y = y, x
	}
	return x + "|" + y
}

func describeDiff(dir string, ref map[string]string, refTree map[string]string, cur map[string]string) (string, string) {
	category := ""
	var b strings.Builder
	d := vh.DiffSnap(ref, cur)
	b.WriteString("paths (- only in run 1, + only now, ~ content/mode differs): " + strings.Join(d, " ") + "\n")
	shown := 0
	for _, e := range d {
		if e[0] != '~' || shown >= 2 {
			continue
		}
		now, err := os.ReadFile(filepath.Join(dir, e[1:]))
		if err != nil {
			continue
		}
		shown++
		fd, x, y := firstDiff(refTree[e[1:]], string(now))
		if category == "" {
			category = lineCategory(x, y)
		}
		b.WriteString(e[1:] + ": first difference at " + fd + "\n")
	}
	return b.String(), category
}

func stderrTail(r vh.Result) string {
	var keep []string
	for _, ln := range strings.Split(r.Stderr, "\n") {
		if strings.Contains(ln, " ERR ") || strings.Contains(ln, " FTL ") || strings.Contains(ln, "panic") || strings.Contains(ln, " WRN ") {
			keep = append(keep, vh.Trunc(ln, 500))
		}
	}
	if len(keep) > 12 {
		keep = keep[len(keep)-12:]
	}
	return strings.Join(keep, "\n")
}

func run(c Case) *vh.Violation {
	k := vh.Pick(5, 12)
	if isReplay() {
		k = 12 // saved order-dependent findings are padded to maps of >=9 entries: a dependent outcome survives with probability 2^-11
	}
	if c.K >= 2 {
		k = c.K // killers of deterministic mutants need no more than two runs
	}
	sh := analyse(c)
	files := render(c)
	outputs := 0          // output files of run 1 (of the run that wrote most, when the runs fail)
	partialSeen := false  // every pristine run failed and at least one of them wrote an output file
	rerunPartial := false // every repeated rerun failed although overwriting is enabled at the root
	classes := sh.classes
	defer func() {
		fp := ""
		if outputs >= 2 && (sh.nestedRecursive || sh.multiConfigs || sh.explicitUnderRecursive || sh.sameNameImports) {
			fp = vh.Hash(vh.JSON(c))
		}
		if partialSeen || rerunPartial {
			fp = vh.Hash(vh.JSON(c))
		}
		switch {
		case outputs == 0:
			classes = append(classes, "outputs=0")
		case outputs == 1:
			classes = append(classes, "outputs=1")
		case outputs <= 4:
			classes = append(classes, "outputs=2-4")
		default:
			classes = append(classes, "outputs=5+")
		}
		vh.Count(fp, classes...)
		if fp != "" && vh.NeedSample() {
			vh.Sample(c)
		}
	}()

	dir := vh.NewScratch()
	defer vh.RemoveAll(dir)
	pristine := func() {
		vh.RemoveAll(dir)
		if err := os.MkdirAll(dir, 0o755); err != nil {
			vh.Infra("mkdir %s: %v", dir, err)
		}
		vh.WriteFiles(dir, files)
		vh.WriteFiles(dir, map[string]string{"go.sum": goSum()})
	}
	pristine()
	// generator soundness: the module must compile on its own
	if r := vh.GoRun(dir, 300*time.Second, "build", "./..."); r.Exit != 0 || r.TimedOut {
		if !r.TimedOut {
			vh.Invalid()
		}
		vh.Infra("generated module does not build: %s", vh.Trunc(r.Both(), 1500))
	}
	base := snap(dir)
	shown := map[string]string{}
	for p, v := range files {
		shown[p] = v
	}
	fail := func(kind, format string, a ...any) *vh.Violation {
		return vh.Violate("mockery/"+sh.hazard()+"/"+kind, format, a...)
	}
	mock := func() vh.Result {
		r := vh.Mockery(dir, nil)
		if r.TimedOut {
			vh.Infra("mockery timed out")
		}
		// mockery itself exits 0, 1 (fatal) or 2 (panic); anything else is a signal (OOM kill on the
		// shared machine). Resource exhaustion inside the go command it spawns is not its behaviour either.
		if r.Exit < 0 || r.Exit > 2 {
			vh.Infra("mockery ended with status %d: %s", r.Exit, vh.Trunc(r.Stderr, 400))
		}
		if r.Exit != 0 && resourceRe.MatchString(r.Stderr) {
			vh.Infra("resource exhaustion during a mockery run: %s", vh.Trunc(resourceRe.FindString(r.Stderr), 200))
		}
		return r
	}

	// ---- runs 1..k, each from the pristine tree at the same path
	var log strings.Builder
	fmt.Fprintf(&log, "k=%d\n", k)
	var r1 vh.Result
	var s1, tree1 map[string]string
	var h1 string
	written := func(si map[string]string) int {
		n := 0
		for p, d := range si {
			if _, ok := base[p]; !ok && strings.HasPrefix(d, "f:") {
				n++
			}
		}
		return n
	}
	failTrees := map[string]bool{}
	for i := 1; i <= k; i++ {
		if i > 1 {
			pristine()
		}
		ri := mock()
		si := snap(dir)
		hi := vh.HashSnap(si)
		fmt.Fprintf(&log, "run %d: exit %d tree %s (%d output files)\n", i, ri.Exit, hi, written(si))
		if ri.Exit != 0 {
			failTrees[hi] = true
			if w := written(si); w > outputs {
				outputs = w
			}
		}
		if i == 1 {
			r1, s1, h1 = ri, si, hi
			if r1.Exit == 0 {
				tree1 = vh.ReadTree(dir)
				outputs = written(s1)
			}
			continue
		}
		if ri.Exit != r1.Exit {
			bad := ri
			if r1.Exit != 0 {
				bad = r1
			}
			return fail("exit-status-differs", "same inputs, same path: run 1 exited %d, run %d exited %d", r1.Exit, i, ri.Exit).
				With(shown, log.String()+"--- stderr of a failing run\n"+strings.ReplaceAll(stderrTail(bad), dir, "<dir>"))
		}
		if r1.Exit == 0 && hi != h1 {
			d := vh.DiffSnap(s1, si)
			kind := "output-content-differs"
			for _, e := range d {
				if e[0] != '~' {
					kind = "output-file-set-differs"
				}
			}
			desc, cat := describeDiff(dir, s1, tree1, si)
			if kind == "output-content-differs" && cat != "" {
				kind += ":" + cat
			}
			return fail(kind, "same inputs, same path, both runs exit 0: run %d wrote a different tree than run 1", i).
				With(shown, log.String()+desc)
		}
	}
	if r1.Exit != 0 {
		// All k runs agree on a non-zero status: that is what the property asks of failing runs. What they
		// leave behind is not specified (the real binary stops at the first failing file, in map order).
		classes = append(classes, "exit=nonzero-in-all-runs")
		if outputs > 0 {
			partialSeen = true
			classes = append(classes, "partial-failure=observed(failing-runs-wrote-output-files)")
		} else {
			classes = append(classes, "failing-runs-wrote-nothing")
		}
		if len(failTrees) > 1 {
			classes = append(classes, "failing-run-tree=varies(unspecified)")
		} else {
			classes = append(classes, "failing-run-tree=same")
		}
		if !sh.faulty {
			vh.Note("consistently failing case without a generated fault: %s", vh.Trunc(strings.ReplaceAll(stderrTail(r1), dir, "<dir>"), 400))
		}
		return nil
	}
	classes = append(classes, "exit=0-in-all-runs")

	// ---- idempotence: two more runs on top of the output (the tree now holds run k's output, identical to run 1's).
	// With force-file-write: false somewhere the rerun may fail for those files; it is then repeated k times
	// from the same state (the tree is demanded unchanged after each, so the state IS the same).
	names := []string{"rerun", "third-run"}
	if sh.noOverwrite {
		for len(names) < k {
			names = append(names, "later-rerun")
		}
	}
	rerunExit := 0
	for i, name := range names {
		rb := mock()
		sb := snap(dir)
		fmt.Fprintf(&log, "%s on top of the previous output: exit %d tree %s\n", name, rb.Exit, vh.HashSnap(sb))
		if sh.noOverwrite {
			if i == 0 {
				rerunExit = rb.Exit
			} else if rb.Exit != rerunExit {
				bad := rb
				return fail("rerun-exit-status-differs", "same tree (sources, config and mockery's earlier output), force-file-write: false at some level: rerun 1 exited %d, rerun %d exited %d", rerunExit, i+1, rb.Exit).
					With(shown, log.String()+"--- stderr of the last rerun\n"+strings.ReplaceAll(stderrTail(bad), dir, "<dir>"))
			}
		}
		if rb.Exit != 0 && !sh.noOverwrite {
			// a previous output that does not compile makes the packages unloadable: C01's business
			pristine()
			if rr := mock(); rr.Exit == 0 {
				if ok, diag := vh.GoVet(dir, ""); !ok {
					vh.DontCare("rerun-fails/first-output-does-not-compile")
					vh.Note("first output does not compile (C01 matter), idempotence not judged: %s", vh.Trunc(strings.TrimSpace(strings.ReplaceAll(diag, dir, "<dir>")), 300))
					classes = append(classes, "rerun=not-judged(output-does-not-compile)")
					return nil
				}
			}
			return fail(name+"-fails", "mockery run over a tree containing its own previous output (force-file-write: true) exits %d; the first %d runs exited 0", rb.Exit, k).
				With(shown, log.String()+"--- stderr of the failing run\n"+strings.ReplaceAll(stderrTail(rb), dir, "<dir>"))
		}
		if d := vh.DiffSnap(s1, sb); len(d) != 0 {
			kind := name + "-changes-output"
			for _, e := range d {
				if e[0] == '+' {
					kind = name + "-adds-paths"
				}
			}
			desc, cat := describeDiff(dir, s1, tree1, sb)
			if strings.HasSuffix(kind, "-changes-output") && cat != "" {
				kind += ":" + cat
			}
			return fail(kind, "the %s over mockery's own previous output changed the tree (run %d of the history)", name, i+2).
				With(shown, log.String()+desc)
		}
	}
	if sh.noOverwrite && rerunExit != 0 {
		rerunPartial = true
		classes = append(classes, "rerun=fails-in-all-repetitions(no-overwrite),tree-unchanged")
		return nil
	}
	classes = append(classes, "rerun=unchanged")
	return nil
}

func TestProp(t *testing.T) {
	if _, err := os.Stat(vh.SUT()); err != nil {
		t.Skipf("mockery binary missing: %v", err)
	}
	vh.Note("k=%d pristine runs per case (saved cases: 12 unless the case says otherwise) + 2 reruns over the output. Go ranges over a map of <=8 entries from a random slot of its single bucket, so only rotations of the insertion order occur: two given keys swap with probability d/8 per run (d = their distance in insertion order; 1/8 for a two-entry map). Measured on builds with the repairs reverted: 0.27 (nested recursive packages) and 0.38 (shared remote template) per run for the minimal cases, 0.5 once the map has >=9 entries. All k runs agree on a p-dependent outcome with probability (1-p)^k+p^k: k=5: 0.51 (p=1/8), 0.21 (p=0.27), 0.06 (p=1/2); k=12: 0.20, 0.023, 0.0005. Partially failing runs (class hazard=partial-failure): only the exit status is compared between failing repetitions; a rerun that fails because of force-file-write: false is repeated k times and must leave the tree unchanged each time", vh.Pick(5, 12))
	vh.Main(t, vh.Check[Case]{Gen: gen, Run: run})
}
