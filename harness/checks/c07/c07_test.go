// C07 — exactly the configured interfaces and packages are mocked, once per config entry.
//
// A case is a scratch Go module (a forest of directories: packages with a drawn mix of
// declarations, directories without Go files, with only _test.go files, with only
// build-tagged files) plus a .mockery.yml drawn from the selection decision table
// (all / listed / include regex / exclude regex at root and package level, `configs`
// entries with distinct struct names, recursive / exclude-subpkg-regex at root and
// package level, explicit packages under recursive parents, nested recursive parents).
// Every output is rendered through a dump probe template that prints one line per mock:
// (source package path, interface name, struct name). The observed multiset must equal
// the multiset computed by a reference model that is the property's sentence, literally.
package c07

import (
	"fmt"
	"os"
	"path/filepath"
	"regexp"
	"sort"
	"strings"
	"testing"

	"pgregory.net/rapid"
	"verif/harness/vh"
)

const modPath = "example.com/m"

// extTagOnly widens the domain by directories whose only Go file is build-tagged while
// `build-tags: sometag` is configured (see the report: recursive discovery does not apply
// build-tags). build-tags is not among the parameters the property quantifies over, so this is
// on by default since /repo applies build-tags to the discovery; C07_EXT_TAGONLY=0 turns it off.
var extTagOnly = os.Getenv("C07_EXT_TAGONLY") != "0"

// ---- case -------------------------------------------------------------------------------------

type Local struct {
	Name string `json:"name"`
	Kind string `json:"kind"` // iface | inst | struct
	Ref  string `json:"ref,omitempty"`
}

// Decl is one package-level declaration.
//
//	iface      type N interface{ ... }            (Var: 0 one method, 1 empty, 2 embeds Ref, 3 two methods)
//	giface     type N[T any] interface{ ... }     (Var: 0 one type parameter, 1 two)
//	inst       type N Ref[int] / Ref[int,string]  (Ref is a giface, possibly "dir:Name" in another package)
//	ginst      type N[T any] Ref[T]
//	struct, func, gstruct (generic struct), sinst (type N Box[int] over a gstruct)
//	alias      type N = Ref (Ref: iface, giface (instantiated), struct, gstruct (instantiated))
//	defn       type N Ref   (Ref: a named non-generic interface or a struct)
//	constraint type N interface{ ~int | ~string }
//	local      a function (Var 0), method (Var 1) or func literal in a var initialiser (Var 2)
//	           whose body declares the Locals
type Decl struct {
	Kind   string  `json:"kind"`
	Name   string  `json:"name"`
	Ref    string  `json:"ref,omitempty"`
	Var    int     `json:"var,omitempty"`
	File   string  `json:"file"` // a | b | tag (//go:build sometag) | test (_test.go)
	Locals []Local `json:"locals,omitempty"`
}

type Pkg struct {
	Dir   string `json:"dir"`  // relative to the module root; the last element is the package name
	Kind  string `json:"kind"` // go | nogo | testonly | tagonly
	Decls []Decl `json:"decls,omitempty"`
	// Headers: comment written before the package clause, per file (a | b | tag | test):
	// generated (standard "Code generated ... DO NOT EDIT." marker of another tool), mockery (the text
	// mockery's own templates write), constraint (a satisfied //go:build line), license (block comment)
	Headers map[string]string `json:"headers,omitempty"`
}

var headerKinds = []string{"generated", "mockery", "constraint", "license"}

// files lists the Go files the package consists of, in a fixed order.
func (p Pkg) files() []string {
	has := map[string]bool{}
	if p.Kind == "go" {
		has["a"] = true
	}
	for _, d := range p.Decls {
		has[d.File] = true
	}
	if p.Kind == "nogo" {
		return nil
	}
	var out []string
	for _, f := range []string{"a", "b", "tag", "test"} {
		if has[f] {
			out = append(out, f)
		}
	}
	return out
}

// allGenerated reports whether every Go file of the package carries a "DO NOT EDIT" marker.
func (p Pkg) allGenerated() bool {
	fs := p.files()
	for _, f := range fs {
		if h := p.Headers[f]; h != "generated" && h != "mockery" {
			return false
		}
	}
	return len(fs) > 0
}

type Settings struct {
	All *bool  `json:"all,omitempty"`
	Inc string `json:"inc,omitempty"` // "" = not set
	Exc string `json:"exc,omitempty"`
	// IncEmpty / ExcEmpty: the package writes an explicit empty string (`include-interface-regex: ""`),
	// which switches off a regex set at a higher level (the most specific level that sets it wins)
	IncEmpty bool     `json:"inc_empty,omitempty"`
	ExcEmpty bool     `json:"exc_empty,omitempty"`
	Rec      *bool    `json:"rec,omitempty"`
	ExSub    []string `json:"exsub,omitempty"` // nil = not set
}

type IfaceCfg struct {
	Name       string   `json:"name"`
	Struct     string   `json:"struct,omitempty"` // interface-level config.structname
	HasConfigs bool     `json:"has_configs,omitempty"`
	Entries    []string `json:"entries,omitempty"` // structname per configs entry ("" = entry does not set it)
}

type PkgCfg struct {
	Dir    string     `json:"dir"`
	S      Settings   `json:"s"`
	Ifaces []IfaceCfg `json:"ifaces,omitempty"`
}

type Case struct {
	Pkgs      []Pkg    `json:"pkgs"`
	BuildTags bool     `json:"build_tags,omitempty"` // build-tags: sometag at root
	PerMock   bool     `json:"per_mock,omitempty"`   // one output file per mock instead of one per package
	Root      Settings `json:"root"`
	Cfgs      []PkgCfg `json:"cfgs"`
}

// ---- generator --------------------------------------------------------------------------------

var tokens = []string{"alfa", "bravo", "carol", "delta", "echo", "fox", "golf", "hotel", "india", "julia", "kilo", "lima", "mike", "nova", "oscar", "papa"}

var namePool = func() []string {
	var out []string
	for _, d := range []string{"", "2"} {
		for _, s := range []string{"Svc", "Repo", "Store", "Er"} {
			for _, p := range []string{"A", "B", "C", "a", "b"} {
				out = append(out, p+s+d)
			}
		}
	}
	return out
}()

var regexAtoms = []string{"^A", "^B", "^C", "^a", "^b", "^[A-Z]", "^[a-z]", "Svc", "Repo$", "Store", "Er$", "Er", "2$", "[^2]$", "."}

// uniform draws an (almost) uniformly distributed number in [0, n). rapid's integer
// generators are deliberately biased towards small values, which would skew every
// probability below; single bits are not biased. All-zero bits (what shrinking aims for)
// give 0.
func uniform(t *rapid.T, label string, n int) int {
	v := 0
	for i := 0; i < 10; i++ {
		v <<= 1
		if rapid.Bool().Draw(t, label) {
			v |= 1
		}
	}
	return v * n / 1024
}

// pct is true with probability p/100; shrinks towards false.
func pct(t *rapid.T, label string, p int) bool {
	return uniform(t, label, 100) >= 100-p
}

func weighted(t *rapid.T, label string, opts ...any) string {
	// opts: name, weight, name, weight ... ; shrinks towards the first option
	total := 0
	for i := 1; i < len(opts); i += 2 {
		total += opts[i].(int)
	}
	n := uniform(t, label, total)
	for i := 0; i < len(opts); i += 2 {
		w := opts[i+1].(int)
		if n < w {
			return opts[i].(string)
		}
		n -= w
	}
	return opts[0].(string)
}

func bptr(b bool) *bool { return &b }

func drawTri(t *rapid.T, label string, unset, tr, fa int) *bool {
	switch weighted(t, label, "unset", unset, "true", tr, "false", fa) {
	case "true":
		return bptr(true)
	case "false":
		return bptr(false)
	}
	return nil
}

type pkgBuilder struct {
	t    *rapid.T
	c    *Case
	idx  int
	used map[string]bool
}

func (b *pkgBuilder) p() *Pkg { return &b.c.Pkgs[b.idx] }

func (b *pkgBuilder) newName() string {
	i := rapid.IntRange(0, len(namePool)-1).Draw(b.t, "name")
	for k := 0; k < len(namePool); k++ {
		n := namePool[(i+k)%len(namePool)]
		if !b.used[n] {
			b.used[n] = true
			return n
		}
	}
	n := fmt.Sprintf("X%d", len(b.used))
	b.used[n] = true
	return n
}

// existing returns names of declarations of one of the kinds that live in an always-built file.
func (b *pkgBuilder) existing(not string, kinds ...string) []Decl {
	var out []Decl
	for _, d := range b.p().Decls {
		if d.File != "a" && d.File != "b" || d.Name == not {
			continue
		}
		for _, k := range kinds {
			if d.Kind == k {
				out = append(out, d)
			}
		}
	}
	return out
}

// ensure returns a declaration of the kind in an always-built file, creating one if necessary.
func (b *pkgBuilder) ensure(not string, kind string) Decl {
	if ex := b.existing(not, kind); len(ex) > 0 {
		return ex[rapid.IntRange(0, len(ex)-1).Draw(b.t, "pick-"+kind)]
	}
	d := Decl{Kind: kind, Name: b.newName(), File: "a"}
	if kind == "giface" {
		d.Var = rapid.IntRange(0, 1).Draw(b.t, "arity")
	}
	b.p().Decls = append(b.p().Decls, d)
	return d
}

// depGifaces lists exported generic / plain interfaces of earlier packages ("dir:Name").
func (b *pkgBuilder) depDecls(kind string) []string {
	var out []string
	for i := 0; i < b.idx; i++ {
		q := b.c.Pkgs[i]
		if q.Kind != "go" {
			continue
		}
		for _, d := range q.Decls {
			if d.Kind == kind && (d.File == "a" || d.File == "b") && d.Name[0] >= 'A' && d.Name[0] <= 'Z' && (kind != "iface" || d.Var != 2) {
				out = append(out, q.Dir+":"+d.Name)
			}
		}
	}
	return out
}

func (b *pkgBuilder) file(kind string) string {
	if kind == "local" {
		return weighted(b.t, "file", "a", 4, "b", 1)
	}
	return weighted(b.t, "file", "a", 13, "b", 3, "tag", 2, "test", 2)
}

func (b *pkgBuilder) addDecl() {
	t := b.t
	kind := weighted(t, "kind", "iface", 7, "giface", 2, "inst", 3, "ginst", 1, "struct", 2, "func", 1, "sinst", 2, "alias", 2, "defn", 2, "constraint", 1, "local", 4)
	switch kind {
	case "iface":
		d := Decl{Kind: kind, Name: b.newName(), File: b.file(kind)}
		switch weighted(t, "ifvar", "one", 5, "empty", 1, "embed", 2, "two", 1, "embed-dep", 2) {
		case "empty":
			d.Var = 1
		case "two":
			d.Var = 3
		case "embed":
			if ex := b.existing(d.Name, "iface"); len(ex) > 0 {
				d.Var, d.Ref = 2, ex[rapid.IntRange(0, len(ex)-1).Draw(t, "embed")].Name
			}
		case "embed-dep":
			if deps := b.depDecls("iface"); len(deps) > 0 {
				d.Var, d.Ref = 2, rapid.SampledFrom(deps).Draw(t, "embed-dep")
			}
		}
		b.p().Decls = append(b.p().Decls, d)
	case "giface":
		b.p().Decls = append(b.p().Decls, Decl{Kind: kind, Name: b.newName(), File: b.file(kind), Var: rapid.IntRange(0, 1).Draw(t, "arity")})
	case "inst", "ginst":
		ref := ""
		if deps := b.depDecls("giface"); kind == "inst" && len(deps) > 0 && rapid.IntRange(0, 2).Draw(t, "dep") == 0 {
			ref = rapid.SampledFrom(deps).Draw(t, "inst-dep")
		} else {
			ref = b.ensure("", "giface").Name
		}
		b.p().Decls = append(b.p().Decls, Decl{Kind: kind, Name: b.newName(), Ref: ref, File: b.file(kind)})
	case "struct", "func", "constraint":
		b.p().Decls = append(b.p().Decls, Decl{Kind: kind, Name: b.newName(), File: b.file(kind)})
	case "sinst":
		ref := b.ensure("", "gstruct").Name
		b.p().Decls = append(b.p().Decls, Decl{Kind: kind, Name: b.newName(), Ref: ref, File: b.file(kind)})
	case "alias":
		tk := weighted(t, "alias-target", "iface", 4, "giface", 2, "struct", 1, "gstruct", 1)
		ref := b.ensure("", tk).Name
		b.p().Decls = append(b.p().Decls, Decl{Kind: kind, Name: b.newName(), Ref: ref, File: b.file(kind)})
	case "defn":
		tk := weighted(t, "defn-target", "iface", 3, "struct", 1)
		ref := b.ensure("", tk).Name
		b.p().Decls = append(b.p().Decls, Decl{Kind: kind, Name: b.newName(), Ref: ref, File: b.file(kind)})
	case "local":
		d := Decl{Kind: kind, Name: b.newName(), File: b.file(kind), Var: rapid.IntRange(0, 2).Draw(t, "holder")}
		n := rapid.IntRange(1, 2).Draw(t, "nlocals")
		for i := 0; i < n; i++ {
			l := Local{Kind: weighted(t, "lkind", "iface", 7, "inst", 2, "struct", 1)}
			if l.Kind == "inst" {
				l.Ref = b.ensure("", "giface").Name
			}
			switch weighted(t, "lname", "shadow-iface", 5, "shadow-other", 2, "fresh", 4, "L", 1) {
			case "shadow-iface":
				if ex := b.existing("", "iface", "giface", "inst", "ginst"); len(ex) > 0 {
					l.Name = ex[rapid.IntRange(0, len(ex)-1).Draw(t, "shadow")].Name
				}
			case "shadow-other":
				if ex := b.existing("", "struct", "func", "gstruct", "sinst", "alias", "defn"); len(ex) > 0 {
					l.Name = ex[rapid.IntRange(0, len(ex)-1).Draw(t, "shadow")].Name
				}
			case "fresh":
				l.Name = b.newName() // reserved: stays unused at package level in this package
			}
			if l.Name == "" {
				l.Name = fmt.Sprintf("L%d", i)
			}
			if l.Kind == "inst" && l.Name == l.Ref {
				// `type G G[int]` inside a function refers to itself: not valid Go
				l.Kind, l.Ref = "iface", ""
			}
			d.Locals = append(d.Locals, l)
		}
		b.p().Decls = append(b.p().Decls, d)
	}
}

func depth(dir string) int { return strings.Count(dir, "/") + 1 }

func isUnder(dir, anc string) bool { return strings.HasPrefix(dir, anc+"/") }

func genRegex(t *rapid.T, label string, names []string) string {
	atom := func(i int) string {
		if len(names) > 0 && rapid.IntRange(0, 3).Draw(t, fmt.Sprintf("%s-exact%d", label, i)) == 0 {
			return "^" + rapid.SampledFrom(names).Draw(t, label+"-name") + "$"
		}
		return rapid.SampledFrom(regexAtoms).Draw(t, fmt.Sprintf("%s-atom%d", label, i))
	}
	re := atom(0)
	if rapid.IntRange(0, 2).Draw(t, label+"-two") == 0 {
		re += "|" + atom(1)
	}
	return re
}

func genExSub(t *rapid.T, label string, preferred, all []string) []string {
	n := rapid.IntRange(1, 2).Draw(t, label+"-n")
	var out []string
	for i := 0; i < n; i++ {
		pick := func(j int) string {
			pool := all
			if len(preferred) > 0 && rapid.IntRange(0, 4).Draw(t, fmt.Sprintf("%s-pref%d%d", label, i, j)) > 0 {
				pool = preferred
			}
			return rapid.SampledFrom(pool).Draw(t, fmt.Sprintf("%s-tok%d%d", label, i, j))
		}
		re := pick(0)
		switch rapid.IntRange(0, 5).Draw(t, fmt.Sprintf("%s-form%d", label, i)) {
		case 0:
			re += "|" + pick(1)
		case 1:
			re = "(" + re + ")"
		}
		out = append(out, re)
	}
	return out
}

func gen(t *rapid.T) Case {
	c := Case{}
	c.BuildTags = rapid.IntRange(0, 5).Draw(t, "buildtags") == 0
	c.PerMock = rapid.IntRange(0, 3).Draw(t, "permock") == 0
	hint := weighted(t, "hint", "none", 2, "recursive", 5, "nested", 3, "explicit-under", 2, "root-recursive", 1)

	// ---- directory forest
	tok := 0
	first := true
	lastSibling := map[string]string{}
	var addNode func(parent string, d int)
	addNode = func(parent string, d int) {
		if tok >= 12 {
			return
		}
		name := tokens[tok]
		tok++
		// sometimes a sibling whose name merely extends the previous sibling's name (api, apiv2):
		// path-prefix tests without a separator boundary confuse the two
		if prev := lastSibling[parent]; prev != "" && rapid.IntRange(0, 3).Draw(t, "prefixsibling") == 0 {
			name = prev + "v2"
		}
		lastSibling[parent] = name
		dir := name
		if parent != "" {
			dir = parent + "/" + name
		}
		kind := "go"
		if d == 1 {
			kind = weighted(t, "dirkind", "go", 12, "nogo", 1)
		} else {
			kind = weighted(t, "dirkind", "go", 12, "nogo", 3, "testonly", 2, "tagonly", 2)
		}
		if kind == "tagonly" && c.BuildTags && !extTagOnly {
			kind = "go"
		}
		c.Pkgs = append(c.Pkgs, Pkg{Dir: dir, Kind: kind})
		if d < 3 {
			var n int
			switch {
			case d == 1 && first:
				n = []int{0, 1, 2, 2, 2, 3, 3, 3, 4, 4}[rapid.IntRange(0, 9).Draw(t, "children")]
			case d == 1:
				n = []int{0, 0, 0, 0, 0, 1, 1, 2, 2, 3}[rapid.IntRange(0, 9).Draw(t, "children")]
			default:
				n = []int{0, 0, 0, 1, 1, 1, 2, 2}[rapid.IntRange(0, 7).Draw(t, "children")]
			}
			for i := 0; i < n; i++ {
				addNode(dir, d+1)
			}
		}
	}
	nTop := rapid.IntRange(2, 4).Draw(t, "ntop")
	for i := 0; i < nTop; i++ {
		addNode("", 1)
		first = false
	}
	if hint == "nested" {
		// make sure there is a chain of three packages, so that a discovered package can have two
		// recursive ancestors
		chain := false
		for _, p := range c.Pkgs {
			if p.Kind == "go" && depth(p.Dir) == 3 {
				par, gpar := filepath.Dir(p.Dir), filepath.Dir(filepath.Dir(p.Dir))
				for _, q := range c.Pkgs {
					for _, r := range c.Pkgs {
						if q.Dir == par && r.Dir == gpar && q.Kind == "go" && r.Kind == "go" {
							chain = true
						}
					}
				}
			}
		}
		if !chain {
			top := c.Pkgs[0].Dir
			c.Pkgs[0].Kind = "go"
			mid := top + "/" + tokens[tok]
			c.Pkgs = append(c.Pkgs, Pkg{Dir: mid, Kind: "go"}, Pkg{Dir: mid + "/" + tokens[tok+1], Kind: "go"})
			tok += 2
		}
	}

	// ---- declarations
	for i := range c.Pkgs {
		b := &pkgBuilder{t: t, c: &c, idx: i, used: map[string]bool{}}
		switch c.Pkgs[i].Kind {
		case "go":
			n := rapid.IntRange(1, 6).Draw(t, "ndecls")
			for j := 0; j < n; j++ {
				b.addDecl()
			}
		case "testonly":
			c.Pkgs[i].Decls = []Decl{{Kind: "iface", Name: b.newName(), File: "test"}}
		case "tagonly":
			c.Pkgs[i].Decls = []Decl{{Kind: "iface", Name: b.newName(), File: "tag"}}
		}
	}
	var goDirs []string
	for _, p := range c.Pkgs {
		if p.Kind == "go" {
			goDirs = append(goDirs, p.Dir)
		}
	}
	if len(goDirs) == 0 { // every top-level directory came out without Go files: make the first one a package
		c.Pkgs[0].Kind = "go"
		b := &pkgBuilder{t: t, c: &c, idx: 0, used: map[string]bool{}}
		b.addDecl()
		goDirs = append(goDirs, c.Pkgs[0].Dir)
	}
	goDesc := func(dir string) []string {
		var out []string
		for _, g := range goDirs {
			if isUnder(g, dir) {
				out = append(out, g)
			}
		}
		return out
	}
	// ---- header comments, drawn independently of everything else: they must not change what is mocked
	for i := range c.Pkgs {
		fs := c.Pkgs[i].files()
		if len(fs) == 0 {
			continue
		}
		mode := weighted(t, "hdr-mode", "none", 5, "independent", 5, "all-generated", 3, "all-mockery", 1)
		if mode == "none" {
			continue
		}
		c.Pkgs[i].Headers = map[string]string{}
		for _, f := range fs {
			switch mode {
			case "all-generated":
				c.Pkgs[i].Headers[f] = "generated"
			case "all-mockery":
				c.Pkgs[i].Headers[f] = "mockery"
			default:
				if h := weighted(t, "hdr", "", 3, "generated", 2, "mockery", 1, "constraint", 1, "license", 1); h != "" {
					c.Pkgs[i].Headers[f] = h
				}
			}
		}
		if len(c.Pkgs[i].Headers) == 0 {
			c.Pkgs[i].Headers = nil
		}
	}
	var roots []string // packages with at least one package beneath them
	for _, g := range goDirs {
		if len(goDesc(g)) > 0 {
			roots = append(roots, g)
		}
	}

	// ---- configuration
	explicit := map[string]bool{}
	forcedRec := map[string]*bool{}
	nestedOuter, nestedInner := "", ""
	if len(roots) == 0 {
		hint = "none"
	}
	switch hint {
	case "recursive":
		r := rapid.SampledFrom(roots).Draw(t, "rec-root")
		explicit[r], forcedRec[r] = true, bptr(true)
	case "nested", "explicit-under":
		cands := roots
		if hint == "nested" {
			var deepRoots []string
			for _, r := range roots {
				for _, g := range goDesc(r) {
					if len(goDesc(g)) > 0 {
						deepRoots = append(deepRoots, r)
						break
					}
				}
			}
			if len(deepRoots) > 0 {
				cands = deepRoots
			}
		}
		r := rapid.SampledFrom(cands).Draw(t, "rec-root")
		inner := goDesc(r)
		if hint == "nested" {
			var deep []string
			for _, g := range inner {
				if len(goDesc(g)) > 0 {
					deep = append(deep, g)
				}
			}
			if len(deep) > 0 && rapid.IntRange(0, 4).Draw(t, "inner-deep") > 0 {
				inner = deep
			}
		}
		d := rapid.SampledFrom(inner).Draw(t, "rec-inner")
		explicit[r], forcedRec[r] = true, bptr(true)
		explicit[d] = true
		if hint == "nested" {
			nestedOuter, nestedInner = r, d
			if rapid.IntRange(0, 4).Draw(t, "inner-rec-set") > 0 {
				forcedRec[d] = bptr(true)
			}
		} else {
			forcedRec[d] = drawTri(t, "inner-rec", 3, 0, 2)
		}
	case "root-recursive":
		c.Root.Rec = bptr(true)
	}
	for _, g := range goDirs {
		p := 35
		if hint == "root-recursive" {
			p = 15
		}
		for r := range forcedRec {
			if isUnder(g, r) {
				p = 10 // leave most of a recursive tree to discovery
			}
		}
		if nestedInner != "" && isUnder(g, nestedInner) {
			p = 3
		}
		if !explicit[g] && pct(t, "explicit", p) {
			explicit[g] = true
		}
	}
	if len(explicit) == 0 {
		explicit[rapid.SampledFrom(goDirs).Draw(t, "explicit-one")] = true
	}

	var allNames []string
	seen := map[string]bool{}
	for _, p := range c.Pkgs {
		for _, d := range p.Decls {
			if d.Kind != "local" && !seen[d.Name] {
				seen[d.Name] = true
				allNames = append(allNames, d.Name)
			}
		}
	}
	var subTokens []string // directory names below the top level, plus one that names nothing
	for _, p := range c.Pkgs {
		if depth(p.Dir) >= 2 {
			subTokens = append(subTokens, filepath.Base(p.Dir))
		}
	}
	subTokens = append(subTokens, "zulu")

	c.Root.All = drawTri(t, "root-all", 5, 2, 3)
	if pct(t, "root-inc", 35) {
		c.Root.Inc = genRegex(t, "root-inc", allNames)
	}
	if pct(t, "root-exc", 30) {
		c.Root.Exc = genRegex(t, "root-exc", allNames)
	}
	if c.Root.Rec == nil {
		c.Root.Rec = drawTri(t, "root-rec", 16, 1, 3)
	}
	rootExsub := 30
	if hint == "nested" {
		rootExsub = 12 // keep most packages below two recursive ones discoverable
	}
	if pct(t, "root-exsub", rootExsub) {
		c.Root.ExSub = genExSub(t, "root-exsub", nil, subTokens)
	}

	marker := 0
	model := newStatic(&c)
	for _, p := range c.Pkgs {
		if !explicit[p.Dir] {
			continue
		}
		pc := PkgCfg{Dir: p.Dir}
		var localNames []string
		for _, d := range p.Decls {
			if d.Kind != "local" {
				localNames = append(localNames, d.Name)
			}
		}
		pc.S.All = drawTri(t, "pkg-all", 8, 5, 7)
		if pct(t, "pkg-inc", 40) {
			pc.S.Inc = genRegex(t, "pkg-inc", localNames)
		}
		if pct(t, "pkg-exc", 30) {
			pc.S.Exc = genRegex(t, "pkg-exc", localNames)
		}
		// an explicit empty string where a higher level (top level or a configured ancestor) sets a regex
		higherInc, higherExc := c.Root.Inc != "", c.Root.Exc != ""
		for _, prev := range c.Cfgs {
			if isUnder(p.Dir, prev.Dir) {
				higherInc = higherInc || prev.S.Inc != ""
				higherExc = higherExc || prev.S.Exc != ""
			}
		}
		if pc.S.Inc == "" && higherInc && pct(t, "pkg-inc-empty", 35) {
			pc.S.IncEmpty = true
		}
		if pc.S.Exc == "" && higherExc && pct(t, "pkg-exc-empty", 35) {
			pc.S.ExcEmpty = true
		}
		if fr, ok := forcedRec[p.Dir]; ok {
			pc.S.Rec = fr
		} else if len(goDesc(p.Dir)) > 0 {
			pc.S.Rec = drawTri(t, "pkg-rec", 5, 3, 2)
		} else {
			pc.S.Rec = drawTri(t, "pkg-rec", 16, 2, 2)
		}
		var below []string
		for _, q := range c.Pkgs {
			if isUnder(q.Dir, p.Dir) {
				below = append(below, filepath.Base(q.Dir))
			}
		}
		pkgExsub := 45
		if p.Dir == nestedOuter || p.Dir == nestedInner {
			pkgExsub = 12
		}
		if len(below) > 0 && pct(t, "pkg-exsub", pkgExsub) {
			pc.S.ExSub = genExSub(t, "pkg-exsub", below, subTokens)
		}
		// listed interfaces: only names that certainly are interfaces of this package in this build
		for _, cd := range model.pkgs[p.Dir].cands {
			if cd.status != "cand" || len(pc.Ifaces) >= 3 || !pct(t, "listed", 35) {
				continue
			}
			ic := IfaceCfg{Name: cd.name}
			mode := weighted(t, "ifcfg", "null", 3, "config", 2, "configs1", 2, "configs2", 3, "configs3", 2, "config+configs", 2)
			mk := func() string { marker++; return fmt.Sprintf("Mk%d", marker) }
			n := 0
			switch mode {
			case "config":
				ic.Struct = mk()
			case "configs1":
				n = 1
			case "configs2":
				n = 2
			case "configs3":
				n = 3
			case "config+configs":
				ic.Struct = mk()
				n = rapid.IntRange(1, 3).Draw(t, "nentries")
			}
			if n > 0 {
				ic.HasConfigs = true
				inherit := -1
				if rapid.IntRange(0, 3).Draw(t, "entry-inherits") == 0 {
					inherit = rapid.IntRange(0, n-1).Draw(t, "entry-inherits-which")
				}
				for i := 0; i < n; i++ {
					if i == inherit {
						ic.Entries = append(ic.Entries, "")
					} else {
						ic.Entries = append(ic.Entries, mk())
					}
				}
			}
			pc.Ifaces = append(pc.Ifaces, ic)
		}
		c.Cfgs = append(c.Cfgs, pc)
	}

	// An explicitly configured package below a recursive one that leaves a setting unset, while
	// its recursive ancestor and the top level differ, is judged loosely (either value accepted).
	// Pin most of those settings so that the sharp oracle applies to most cases.
	decided := map[string]bool{}
	for iter := 0; iter < 3; iter++ {
		_, keys := newStatic(&c).worlds()
		if len(keys) == 0 {
			break
		}
		for _, k := range keys {
			if decided[k] {
				continue
			}
			decided[k] = true
			if rapid.IntRange(0, 3).Draw(t, "pin") == 0 {
				continue
			}
			i := strings.Index(k, "|")
			dir, setting := k[:i], k[i+1:]
			for j := range c.Cfgs {
				if c.Cfgs[j].Dir != dir {
					continue
				}
				switch setting {
				case "all":
					c.Cfgs[j].S.All = bptr(rapid.Bool().Draw(t, "pin-all"))
				case "inc":
					c.Cfgs[j].S.Inc, c.Cfgs[j].S.IncEmpty = genRegex(t, "pin-inc", allNames), false
				case "exc":
					c.Cfgs[j].S.Exc, c.Cfgs[j].S.ExcEmpty = genRegex(t, "pin-exc", allNames), false
				case "rec":
					c.Cfgs[j].S.Rec = bptr(rapid.Bool().Draw(t, "pin-rec"))
				case "exsub":
					c.Cfgs[j].S.ExSub = genExSub(t, "pin-exsub", nil, subTokens)
				}
			}
		}
	}
	return c
}

// ---- rendering --------------------------------------------------------------------------------

func pkgName(dir string) string { return filepath.Base(dir) }

func (c *Case) findDecl(dir, name string) *Decl {
	for i := range c.Pkgs {
		if c.Pkgs[i].Dir != dir {
			continue
		}
		for j := range c.Pkgs[i].Decls {
			if c.Pkgs[i].Decls[j].Name == name && c.Pkgs[i].Decls[j].Kind != "local" {
				return &c.Pkgs[i].Decls[j]
			}
		}
	}
	return nil
}

// resolve returns the Go expression naming ref from inside package dir, the declaration it
// refers to and the directory to import ("" for the same package).
func (c *Case) resolve(dir, ref string) (expr string, target *Decl, imp string) {
	if i := strings.Index(ref, ":"); i >= 0 {
		d, n := ref[:i], ref[i+1:]
		return pkgName(d) + "." + n, c.findDecl(d, n), d
	}
	return ref, c.findDecl(dir, ref), ""
}

func typeArgs(target *Decl, params bool) string {
	two := target != nil && target.Kind == "giface" && target.Var == 1
	switch {
	case params && two:
		return "[K, V]"
	case params:
		return "[T]"
	case two:
		return "[int, string]"
	}
	return "[int]"
}

func tparams(target *Decl) string {
	if target != nil && target.Kind == "giface" && target.Var == 1 {
		return "[K comparable, V any]"
	}
	return "[T any]"
}

func (c *Case) renderDecl(dir string, d Decl, imports map[string]bool) string {
	var sb strings.Builder
	switch d.Kind {
	case "iface":
		switch d.Var {
		case 1:
			fmt.Fprintf(&sb, "type %s interface{}\n", d.Name)
		case 2:
			expr, _, imp := c.resolve(dir, d.Ref)
			if imp != "" {
				imports[imp] = true
			}
			fmt.Fprintf(&sb, "type %s interface {\n\t%s\n\tExtra%s() error\n}\n", d.Name, expr, d.Name)
		case 3:
			fmt.Fprintf(&sb, "type %s interface {\n\tDo(x int) string\n\tClose() error\n}\n", d.Name)
		default:
			fmt.Fprintf(&sb, "type %s interface {\n\tDo(x int) string\n}\n", d.Name)
		}
	case "giface":
		if d.Var == 1 {
			fmt.Fprintf(&sb, "type %s[K comparable, V any] interface {\n\tLoad(k K) (V, bool)\n}\n", d.Name)
		} else {
			fmt.Fprintf(&sb, "type %s[T any] interface {\n\tGet() T\n\tPut(v T)\n}\n", d.Name)
		}
	case "inst":
		expr, target, imp := c.resolve(dir, d.Ref)
		if imp != "" {
			imports[imp] = true
		}
		fmt.Fprintf(&sb, "type %s %s%s\n", d.Name, expr, typeArgs(target, false))
	case "ginst":
		expr, target, _ := c.resolve(dir, d.Ref)
		fmt.Fprintf(&sb, "type %s%s %s%s\n", d.Name, tparams(target), expr, typeArgs(target, true))
	case "struct":
		fmt.Fprintf(&sb, "type %s struct{ X int }\n", d.Name)
	case "func":
		fmt.Fprintf(&sb, "type %s func(int) string\n", d.Name)
	case "gstruct":
		fmt.Fprintf(&sb, "type %s[T any] struct{ V T }\n", d.Name)
	case "sinst":
		fmt.Fprintf(&sb, "type %s %s[int]\n", d.Name, d.Ref)
	case "alias":
		expr, target, _ := c.resolve(dir, d.Ref)
		if target != nil && (target.Kind == "giface" || target.Kind == "gstruct") {
			expr += typeArgs(target, false)
		}
		fmt.Fprintf(&sb, "type %s = %s\n", d.Name, expr)
	case "defn":
		fmt.Fprintf(&sb, "type %s %s\n", d.Name, d.Ref)
	case "constraint":
		fmt.Fprintf(&sb, "type %s interface{ ~int | ~string }\n", d.Name)
	case "local":
		var body strings.Builder
		for _, l := range d.Locals {
			body.WriteString("\t{\n")
			switch l.Kind {
			case "inst":
				_, target, _ := c.resolve(dir, l.Ref)
				// the local name may shadow the generic type it instantiates: refer to it before the declaration takes effect
				fmt.Fprintf(&body, "\t\ttype %s %s%s\n", l.Name, l.Ref, typeArgs(target, false))
			case "struct":
				fmt.Fprintf(&body, "\t\ttype %s struct{ Y string }\n", l.Name)
			default:
				fmt.Fprintf(&body, "\t\ttype %s interface{ Local%s() }\n", l.Name, l.Name)
			}
			fmt.Fprintf(&body, "\t\tvar _ %s\n\t}\n", l.Name)
		}
		switch d.Var {
		case 1:
			fmt.Fprintf(&sb, "type recv%s struct{}\n\nfunc (recv%s) method() {\n%s}\n", d.Name, d.Name, body.String())
		case 2:
			fmt.Fprintf(&sb, "var vr%s = func() int {\n%s\treturn 0\n}()\n", d.Name, body.String())
		default:
			fmt.Fprintf(&sb, "func fn%s() {\n%s}\n", d.Name, body.String())
		}
	}
	return sb.String()
}

func (c *Case) render(root string) map[string]string {
	files := map[string]string{
		"go.mod":      "module " + modPath + "\n\ngo 1.23\n",
		"probe.templ": "{{- $pp := .Registry.SrcPkg.PkgPath -}}\nPROBE {{$pp}}\n{{- range .Interfaces}}\nMOCK|{{$pp}}|{{.Name}}|{{.StructName}}\n{{- end}}\n",
	}
	for _, p := range c.Pkgs {
		if p.Kind == "nogo" {
			files[p.Dir+"/README.md"] = "no Go files here\n"
			continue
		}
		byFile := map[string][]Decl{}
		for _, d := range p.Decls {
			byFile[d.File] = append(byFile[d.File], d)
		}
		if p.Kind == "go" {
			if _, ok := byFile["a"]; !ok {
				byFile["a"] = nil
			}
		}
		for f, ds := range byFile {
			imports := map[string]bool{}
			var body strings.Builder
			for _, d := range ds {
				body.WriteString("\n")
				body.WriteString(c.renderDecl(p.Dir, d, imports))
			}
			var sb strings.Builder
			hdr := p.Headers[f]
			switch {
			case f == "tag" && hdr == "constraint":
				sb.WriteString("//go:build sometag && !c07neverset\n\n")
			case f == "tag":
				sb.WriteString("//go:build sometag\n\n")
			case hdr == "constraint":
				sb.WriteString("//go:build !c07neverset\n\n")
			}
			switch hdr {
			case "generated":
				sb.WriteString("// Code generated by protoc-gen-go-grpc. DO NOT EDIT.\n// versions:\n// - protoc v4.25.1\n// source: api.proto\n\n")
			case "mockery":
				sb.WriteString("// Code generated by mockery; DO NOT EDIT.\n// github.com/vektra/mockery\n// template: testify\n\n")
			case "license":
				sb.WriteString("/*\nCopyright 2024 The Authors.\n\nLicensed under the Apache License, Version 2.0 (the \"License\");\nyou may not use this file except in compliance with the License.\n*/\n\n")
			}
			fmt.Fprintf(&sb, "package %s\n", pkgName(p.Dir))
			var imps []string
			for i := range imports {
				imps = append(imps, i)
			}
			sort.Strings(imps)
			for _, i := range imps {
				fmt.Fprintf(&sb, "\nimport %q\n", modPath+"/"+i)
			}
			if f == "a" {
				sb.WriteString("\nconst Filler = 1\n")
			}
			sb.WriteString(body.String())
			name := map[string]string{"a": "a.go", "b": "b.go", "tag": "tagged.go", "test": "x_test.go"}[f]
			files[p.Dir+"/"+name] = sb.String()
		}
	}
	files[".mockery.yml"] = c.renderConfig(root)
	return files
}

func yq(s string) string { return "'" + strings.ReplaceAll(s, "'", "''") + "'" }

func renderSettings(sb *strings.Builder, ind string, s Settings) {
	if s.All != nil {
		fmt.Fprintf(sb, "%sall: %v\n", ind, *s.All)
	}
	if s.Inc != "" {
		fmt.Fprintf(sb, "%sinclude-interface-regex: %s\n", ind, yq(s.Inc))
	} else if s.IncEmpty {
		fmt.Fprintf(sb, "%sinclude-interface-regex: \"\"\n", ind)
	}
	if s.Exc != "" {
		fmt.Fprintf(sb, "%sexclude-interface-regex: %s\n", ind, yq(s.Exc))
	} else if s.ExcEmpty {
		fmt.Fprintf(sb, "%sexclude-interface-regex: \"\"\n", ind)
	}
	if s.Rec != nil {
		fmt.Fprintf(sb, "%srecursive: %v\n", ind, *s.Rec)
	}
	if s.ExSub != nil {
		fmt.Fprintf(sb, "%sexclude-subpkg-regex:\n", ind)
		for _, r := range s.ExSub {
			fmt.Fprintf(sb, "%s  - %s\n", ind, yq(r))
		}
	}
}

func (s Settings) empty() bool {
	return s.All == nil && s.Inc == "" && s.Exc == "" && !s.IncEmpty && !s.ExcEmpty && s.Rec == nil && s.ExSub == nil
}

func (c *Case) renderConfig(root string) string {
	var sb strings.Builder
	fmt.Fprintf(&sb, "template: %s\n", yq("file://"+filepath.Join(root, "probe.templ")))
	sb.WriteString("require-template-schema-exists: false\nformatter: noop\n")
	sb.WriteString("dir: '{{.ConfigDir}}/out/{{.SrcPackagePath}}'\n")
	if c.PerMock {
		sb.WriteString("filename: '{{.InterfaceName}}.{{.StructName}}.txt'\n")
	} else {
		sb.WriteString("filename: dump.txt\n")
	}
	sb.WriteString("pkgname: x\n")
	if c.BuildTags {
		sb.WriteString("build-tags: sometag\n")
	}
	renderSettings(&sb, "", c.Root)
	sb.WriteString("packages:\n")
	for _, pc := range c.Cfgs {
		fmt.Fprintf(&sb, "  %s/%s:\n", modPath, pc.Dir)
		if !pc.S.empty() {
			sb.WriteString("    config:\n")
			renderSettings(&sb, "      ", pc.S)
		}
		if len(pc.Ifaces) > 0 {
			sb.WriteString("    interfaces:\n")
			for _, ic := range pc.Ifaces {
				fmt.Fprintf(&sb, "      %s:\n", ic.Name)
				if ic.Struct != "" {
					fmt.Fprintf(&sb, "        config:\n          structname: %s\n", ic.Struct)
				}
				if ic.HasConfigs && len(ic.Entries) > 0 {
					sb.WriteString("        configs:\n")
					for _, e := range ic.Entries {
						if e == "" {
							sb.WriteString("          - pkgname: x\n")
						} else {
							fmt.Fprintf(&sb, "          - structname: %s\n", e)
						}
					}
				}
			}
		}
	}
	return sb.String()
}

// ---- reference model --------------------------------------------------------------------------

type cand struct {
	name   string
	status string // cand | dontcare
	why    string
	kind   string
}

type pkgInfo struct {
	dir     string
	kind    string
	hasGo   bool // contains Go files that belong to the build
	cands   []cand
	locals  map[string]bool   // names of function-local types
	decl    map[string]string // package-level type name -> kind (for diagnostics)
	declTag map[string]string // package-level type name -> file
}

type static struct {
	c    *Case
	pkgs map[string]*pkgInfo
	dirs []string
}

// nature says what the property makes of a declaration: a candidate (a package-level named
// interface type declared with an interface literal or by instantiating a generic interface),
// a don't-care, or never an interface.
func (c *Case) nature(dir string, d Decl) (string, string) {
	switch d.Kind {
	case "iface", "giface", "inst", "ginst":
		return "cand", ""
	case "constraint":
		return "dontcare", "constraint-only-interface"
	case "alias":
		_, target, _ := c.resolve(dir, d.Ref)
		if target != nil && (target.Kind == "iface" || target.Kind == "giface") {
			return "dontcare", "alias-to-interface"
		}
	case "defn":
		_, target, _ := c.resolve(dir, d.Ref)
		if target != nil && target.Kind == "iface" {
			return "dontcare", "type-D-A-over-named-interface"
		}
	}
	return "never", ""
}

func newStatic(c *Case) *static {
	st := &static{c: c, pkgs: map[string]*pkgInfo{}}
	for _, p := range c.Pkgs {
		pi := &pkgInfo{dir: p.Dir, kind: p.Kind, locals: map[string]bool{}, decl: map[string]string{}, declTag: map[string]string{}}
		pi.hasGo = p.Kind == "go" || (p.Kind == "tagonly" && c.BuildTags)
		for _, d := range p.Decls {
			if d.Kind == "local" {
				for _, l := range d.Locals {
					pi.locals[l.Name] = true
				}
				continue
			}
			pi.decl[d.Name], pi.declTag[d.Name] = d.Kind, d.File
			nat, why := c.nature(p.Dir, d)
			if nat == "never" {
				continue
			}
			switch {
			case d.File == "test":
				pi.cands = append(pi.cands, cand{d.Name, "dontcare", "declared-in-_test.go", d.Kind})
			case d.File == "tag" && !c.BuildTags:
				// not part of the build: the type does not exist as far as this run is concerned
			default:
				pi.cands = append(pi.cands, cand{d.Name, nat, why, d.Kind})
			}
		}
		st.pkgs[p.Dir] = pi
		st.dirs = append(st.dirs, p.Dir)
	}
	return st
}

type eff struct {
	all   bool
	inc   string
	exc   string
	rec   bool
	exsub []string
}

var reCache = map[string]*regexp.Regexp{}

func match(re, s string) bool {
	r, ok := reCache[re]
	if !ok {
		r = regexp.MustCompile(re)
		reCache[re] = r
	}
	return r.MatchString(s)
}

func matchAny(res []string, s string) bool {
	for _, r := range res {
		if match(r, s) {
			return true
		}
	}
	return false
}

func sameList(a, b []string) bool {
	return strings.Join(a, "\x00") == strings.Join(b, "\x00") && (a == nil) == (b == nil)
}

type pkgSel struct {
	e      eff
	listed map[string]IfaceCfg
	dc     map[string]string // interface names that are don't-care in this package (beyond the static ones)
	role   string
}

type world struct {
	cfg      map[string]*pkgSel
	free     map[string]string // directories whose mocks are not judged -> reason
	excluded map[string]string // sub-packages kept out by an exclusion regex -> "root"/"pkg" level of the regex
	added    int
	nested   bool
	underRec bool
	anyRec   bool
	orderDep bool // some package lies below two recursive packages: the processing order of those matters
}

func ancestors(dir string) []string { // nearest first
	var out []string
	for {
		i := strings.LastIndex(dir, "/")
		if i < 0 {
			return out
		}
		dir = dir[:i]
		out = append(out, dir)
	}
}

func pkgPath(dir string) string { return modPath + "/" + dir }

// world computes which packages are configured and with which settings. ask resolves the
// places where the property leaves a choice (settings an explicitly configured package does
// not set itself while its recursive ancestor and the top level differ).
func (st *static) world(ask func(key string) bool) *world {
	c := st.c
	w := &world{cfg: map[string]*pkgSel{}, free: map[string]string{}, excluded: map[string]string{}}
	root := eff{all: c.Root.All != nil && *c.Root.All, inc: c.Root.Inc, exc: c.Root.Exc, rec: c.Root.Rec != nil && *c.Root.Rec, exsub: c.Root.ExSub}
	cfgs := append([]PkgCfg(nil), c.Cfgs...)
	sort.SliceStable(cfgs, func(i, j int) bool { return depth(cfgs[i].Dir) < depth(cfgs[j].Dir) })
	explicit := map[string]*pkgSel{}
	exsubLevel := map[string]string{}
	for _, pc := range cfgs {
		var par *pkgSel
		parDir := ""
		for _, a := range ancestors(pc.Dir) {
			if pa, ok := explicit[a]; ok && pa.e.rec && !matchAny(pa.e.exsub, pkgPath(pc.Dir)) {
				par, parDir = pa, a
				break
			}
		}
		e := root
		choose := func(setting string, differs bool) bool { // true = take the recursive ancestor's value
			return par != nil && differs && ask(pc.Dir+"|"+setting)
		}
		switch {
		case pc.S.All != nil:
			e.all = *pc.S.All
		case par != nil && choose("all", par.e.all != root.all):
			e.all = par.e.all
		}
		switch {
		case pc.S.Inc != "":
			e.inc = pc.S.Inc
		case pc.S.IncEmpty:
			e.inc = "" // set here, to nothing: only all / listed select
		case par != nil && choose("inc", par.e.inc != root.inc):
			e.inc = par.e.inc
		}
		switch {
		case pc.S.Exc != "":
			e.exc = pc.S.Exc
		case pc.S.ExcEmpty:
			e.exc = "" // set here, to nothing: nothing is excluded
		case par != nil && choose("exc", par.e.exc != root.exc):
			e.exc = par.e.exc
		}
		switch {
		case pc.S.Rec != nil:
			e.rec = *pc.S.Rec
		case par != nil && choose("rec", par.e.rec != root.rec):
			e.rec = par.e.rec
		}
		lvl := "root"
		switch {
		case pc.S.ExSub != nil:
			e.exsub, lvl = pc.S.ExSub, "pkg"
		case par != nil && choose("exsub", !sameList(par.e.exsub, root.exsub)):
			e.exsub, lvl = par.e.exsub, exsubLevel[parDir]
		}
		exsubLevel[pc.Dir] = lvl
		ps := &pkgSel{e: e, listed: map[string]IfaceCfg{}, dc: map[string]string{}, role: "explicit"}
		for _, ic := range pc.Ifaces {
			ps.listed[ic.Name] = ic
		}
		if par != nil {
			ps.role = "explicit-under-recursive"
			w.underRec = true
			for n := range par.listed {
				if _, own := ps.listed[n]; !own {
					ps.dc[n] = "listed-in-recursive-ancestor"
				}
			}
			if e.rec {
				w.nested = true
			}
		} else {
			for _, a := range ancestors(pc.Dir) {
				if pa, ok := explicit[a]; ok && pa.e.rec {
					ps.role = "explicit-excluded-by-ancestor"
					if e.rec {
						w.nested = true
					}
				}
			}
		}
		if e.rec {
			w.anyRec = true
		}
		explicit[pc.Dir] = ps
		w.cfg[pc.Dir] = ps
	}
	// a recursive package whose own import path matches one of its exclusion regexes: whether
	// the regex is applied to the full import path or to the part below the recursive package
	// changes the answer, so nothing below it is judged
	for dir, ps := range explicit {
		if ps.e.rec && matchAny(ps.e.exsub, pkgPath(dir)) {
			for _, d := range st.dirs {
				if isUnder(d, dir) {
					w.free[d] = "exclusion-regex-matches-recursive-package-itself"
				}
			}
		}
	}
	for _, d := range st.dirs {
		n := 0
		for _, a := range ancestors(d) {
			if pa, ok := explicit[a]; ok && pa.e.rec {
				n++
			}
		}
		if n >= 2 && st.pkgs[d].hasGo {
			w.orderDep = true
		}
	}
	// sub-packages added by recursion
	for _, d := range st.dirs {
		pi := st.pkgs[d]
		if _, ok := explicit[d]; ok {
			continue
		}
		if pi.kind == "testonly" {
			// contains Go files only in the sense of _test.go; interfaces in _test.go files are don't-care
			w.free[d] = "directory-with-only-_test.go-files"
			continue
		}
		if !pi.hasGo {
			continue
		}
		var recAnc []string
		for _, a := range ancestors(d) {
			if pa, ok := explicit[a]; ok && pa.e.rec {
				recAnc = append(recAnc, a)
			}
		}
		if len(recAnc) == 0 {
			continue
		}
		near := explicit[recAnc[0]]
		if !matchAny(near.e.exsub, pkgPath(d)) {
			ps := &pkgSel{e: near.e, listed: map[string]IfaceCfg{}, dc: map[string]string{}, role: "discovered"}
			if len(recAnc) > 1 {
				ps.role = "discovered-nested"
			}
			for n := range near.listed {
				ps.dc[n] = "listed-in-recursive-ancestor"
			}
			w.cfg[d] = ps
			w.added++
			continue
		}
		adopted := false
		for _, a := range recAnc[1:] {
			if !matchAny(explicit[a].e.exsub, pkgPath(d)) {
				adopted = true
			}
		}
		if adopted {
			w.free[d] = "excluded-by-nearest-recursive-ancestor-but-not-by-a-farther-one"
			continue
		}
		w.excluded[d] = exsubLevel[recAnc[0]]
	}
	return w
}

func defaultStruct(name string) string {
	if name[0] >= 'A' && name[0] <= 'Z' {
		return "Mock" + name
	}
	return "mock" + name
}

func structNames(ic IfaceCfg, listed bool, name string) []string {
	base := defaultStruct(name)
	if !listed {
		return []string{base}
	}
	if ic.Struct != "" {
		base = ic.Struct
	}
	if !ic.HasConfigs || len(ic.Entries) == 0 {
		return []string{base}
	}
	var out []string
	for _, e := range ic.Entries {
		if e == "" {
			out = append(out, base)
		} else {
			out = append(out, e)
		}
	}
	return out
}

type votes struct {
	all, listed    bool
	incSet, incHit bool
	excSet, excHit bool
}

func (v votes) selected() bool {
	// the property: all, or listed, or (matches include and not matches exclude); regexes ignored
	// when all is set, exclude ignored without include
	return v.all || v.listed || (v.incSet && v.incHit && !(v.excSet && v.excHit))
}

func (v votes) String() string {
	tri := func(set, hit bool) string {
		switch {
		case !set:
			return "-"
		case hit:
			return "match"
		}
		return "nomatch"
	}
	return fmt.Sprintf("all=%v,listed=%v,inc=%s,exc=%s", v.all, v.listed, tri(v.incSet, v.incHit), tri(v.excSet, v.excHit))
}

func (v votes) disagree() bool {
	inc := v.incSet && v.incHit
	if v.all != v.listed || v.all != inc {
		return true
	}
	return inc && v.excSet && v.excHit
}

func vote(ps *pkgSel, name string) votes {
	_, listed := ps.listed[name]
	v := votes{all: ps.e.all, listed: listed, incSet: ps.e.inc != "", excSet: ps.e.exc != ""}
	if v.incSet {
		v.incHit = match(ps.e.inc, name)
	}
	if v.excSet {
		v.excHit = match(ps.e.exc, name)
	}
	return v
}

func line(dir, iface, structName string) string {
	return "MOCK|" + pkgPath(dir) + "|" + iface + "|" + structName
}

// expected returns the multiset of mock lines the property demands in world w.
func (st *static) expected(w *world) map[string]int {
	out := map[string]int{}
	for dir, ps := range w.cfg {
		for _, cd := range st.pkgs[dir].cands {
			if cd.status != "cand" {
				continue
			}
			if !vote(ps, cd.name).selected() {
				continue
			}
			ic, listed := ps.listed[cd.name]
			for _, s := range structNames(ic, listed, cd.name) {
				out[line(dir, cd.name, s)]++
			}
		}
	}
	return out
}

// judged reports whether a mock line of (dir, iface) is within what the property fixes in world w.
func (st *static) dontCare(w *world, dir, iface string) string {
	if why, ok := w.free[dir]; ok {
		return why
	}
	if pi, ok := st.pkgs[dir]; ok {
		for _, cd := range pi.cands {
			if cd.name == iface && cd.status == "dontcare" {
				return cd.why
			}
		}
	}
	if ps, ok := w.cfg[dir]; ok {
		if why, ok := ps.dc[iface]; ok {
			return why
		}
	}
	return ""
}

func (st *static) worlds() ([]*world, []string) {
	var keys []string
	known := map[string]int{}
	for {
		var res []*world
		restart := false
		for mask := 0; mask < 1<<len(keys); mask++ {
			var fresh []string
			w := st.world(func(k string) bool {
				if i, ok := known[k]; ok {
					return mask>>i&1 == 1
				}
				for _, f := range fresh {
					if f == k {
						return false
					}
				}
				fresh = append(fresh, k)
				return false
			})
			if len(fresh) > 0 {
				for _, f := range fresh {
					known[f] = len(keys)
					keys = append(keys, f)
				}
				restart = true
				break
			}
			res = append(res, w)
		}
		if !restart {
			return res, keys
		}
		if len(keys) > 10 {
			return nil, keys
		}
	}
}

// ---- observation ------------------------------------------------------------------------------

var ansiRe = regexp.MustCompile("\x1b\\[[0-9;]*m")

func observe(root string) (map[string]int, []string) {
	out := map[string]int{}
	var bad []string
	_ = filepath.Walk(filepath.Join(root, "out"), func(p string, info os.FileInfo, err error) error {
		if err != nil || info.IsDir() {
			return nil
		}
		b, err := os.ReadFile(p)
		if err != nil {
			bad = append(bad, "unreadable output "+p)
			return nil
		}
		for _, ln := range strings.Split(string(b), "\n") {
			ln = strings.TrimSpace(ln)
			switch {
			case strings.HasPrefix(ln, "MOCK|"):
				if len(strings.Split(ln, "|")) != 4 {
					bad = append(bad, "malformed probe line "+ln)
				}
				out[ln]++
			case ln == "" || strings.HasPrefix(ln, "PROBE "):
			default:
				bad = append(bad, "unexpected output line "+ln)
			}
		}
		return nil
	})
	return out, bad
}

func splitLine(ln string) (dir, iface, structName string) {
	f := strings.Split(ln, "|")
	return strings.TrimPrefix(strings.TrimPrefix(f[1], modPath), "/"), f[2], f[3]
}

type diffItem struct {
	line      string
	want, got int
}

// compare returns the differences between observation and expectation in world w, leaving out
// everything the property does not fix, and the don't-care reasons that were actually used.
func (st *static) compare(w *world, obs map[string]int) ([]diffItem, map[string]bool) {
	exp := st.expected(w)
	used := map[string]bool{}
	keys := map[string]bool{}
	for k := range exp {
		keys[k] = true
	}
	for k := range obs {
		keys[k] = true
	}
	var d []diffItem
	for k := range keys {
		dir, iface, _ := splitLine(k)
		if why := st.dontCare(w, dir, iface); why != "" {
			used[why] = true
			continue
		}
		if exp[k] != obs[k] {
			d = append(d, diffItem{k, exp[k], obs[k]})
		}
	}
	sort.Slice(d, func(i, j int) bool { return d[i].line < d[j].line })
	return d, used
}

// ---- diagnostics ------------------------------------------------------------------------------

func (st *static) describe(w *world, di diffItem) string {
	dir, iface, _ := splitLine(di.line)
	pi := st.pkgs[dir]
	role := "unconfigured"
	if ps, ok := w.cfg[dir]; ok {
		role = ps.role
	} else if lvl, ok := w.excluded[dir]; ok {
		role = "excluded-by-" + lvl + "-level-regex"
	}
	kind := "no-such-type"
	if pi != nil {
		if k, ok := pi.decl[iface]; ok {
			kind = k
			if f := pi.declTag[iface]; f == "tag" || f == "test" {
				kind += "@" + f
			}
			if pi.locals[iface] {
				kind += "+local-shadow"
			}
		} else if pi.locals[iface] {
			kind = "function-local-only"
		}
		if pi.kind != "go" {
			role += "(" + pi.kind + ")"
		}
		for _, p := range st.c.Pkgs {
			if p.Dir == dir && p.allGenerated() {
				role += "+all-files-marked-generated"
			}
		}
	} else {
		role = "unknown-package"
	}
	v := "-"
	if ps, ok := w.cfg[dir]; ok {
		v = vote(ps, iface).String()
	}
	what := "missing"
	switch {
	case di.got > di.want && di.want > 0:
		what = "duplicated"
	case di.got > di.want:
		what = "unexpected"
	case di.got > 0:
		what = "too-few"
	}
	return fmt.Sprintf("pkg=%s/decl=%s/%s/%s", role, kind, v, what)
}

var (
	pathRe = regexp.MustCompile(`(/[A-Za-z0-9_.@+-]+){2,}`)
	numRe  = regexp.MustCompile(`[0-9]+`)
	kvRe   = regexp.MustCompile(`\s[A-Za-z-]+=.*$`)
	lvlRe  = regexp.MustCompile(`\b(ERR|FTL|PNC)\b\s+(.*)$`)
)

func exitDiag(r vh.Result) string {
	txt := ansiRe.ReplaceAllString(r.Stderr+"\n"+r.Stdout, "")
	if r.Panicked() {
		for _, ln := range strings.Split(txt, "\n") {
			if strings.HasPrefix(ln, "panic: ") || strings.HasPrefix(ln, "fatal error: ") {
				return "panic:" + strings.TrimSpace(numRe.ReplaceAllString(pathRe.ReplaceAllString(strings.TrimPrefix(ln, "panic: "), "PATH"), "N"))
			}
		}
		return "panic"
	}
	first := ""
	for _, ln := range strings.Split(txt, "\n") {
		if m := lvlRe.FindStringSubmatch(ln); m != nil {
			msg := kvRe.ReplaceAllString(m[2], "")
			msg = numRe.ReplaceAllString(pathRe.ReplaceAllString(msg, "PATH"), "N")
			if first == "" {
				first = strings.TrimSpace(msg)
			}
		}
	}
	if first == "" {
		first = "no-diagnostic"
	}
	return "error:" + first
}

func (c *Case) features(w *world) string {
	var f []string
	hasLocal := false
	for _, p := range c.Pkgs {
		for _, d := range p.Decls {
			if d.Kind == "local" {
				hasLocal = true
			}
		}
	}
	if hasLocal {
		f = append(f, "local-types")
	}
	if w != nil && w.nested {
		f = append(f, "nested-recursive")
	} else if w != nil && w.anyRec {
		f = append(f, "recursive")
	}
	if c.BuildTags {
		f = append(f, "build-tags")
	}
	if len(f) == 0 {
		return "plain"
	}
	return strings.Join(f, "+")
}

// ---- classification ---------------------------------------------------------------------------

func (st *static) classify(ws []*world) (nonTrivial bool, classes []string) {
	c := st.c
	w := ws[0]
	set := map[string]bool{}
	add := func(s string) { set[s] = true }
	if len(ws) > 1 {
		add("ambiguous-inheritance-worlds>1")
	}
	for _, x := range ws {
		if x.nested {
			add("tree:nested-recursive")
		}
		if x.orderDep {
			add("tree:pkg-below-two-recursive-pkgs(k=4)")
		}
		if x.underRec {
			add("tree:explicit-under-recursive")
		}
		if x.anyRec {
			add("tree:recursive")
		}
		for _, why := range x.free {
			if why != "directory-with-only-_test.go-files" {
				add("tree:has-unjudged-dirs")
			}
		}
	}
	if c.Root.Rec != nil && *c.Root.Rec {
		add("tree:recursive@root")
	}
	if c.Root.ExSub != nil {
		add("lvl:exsub@root")
	}
	if c.BuildTags {
		add("build-tags=on")
	}
	if c.PerMock {
		add("layout=file-per-mock")
	} else {
		add("layout=file-per-package")
	}
	if w.added > 0 {
		add("tree:added>=1")
	}
	for _, lvl := range w.excluded {
		add("tree:excluded-by-" + lvl + "-level-regex")
	}
	if w.added > 0 && len(w.excluded) > 0 {
		add("tree:added+excluded")
		nonTrivial = true
	}
	for _, ps := range w.cfg {
		add("role:" + ps.role)
	}
	for _, pc := range c.Cfgs {
		if pc.S.All != nil {
			add("lvl:all@pkg")
		}
		if pc.S.Inc != "" {
			add("lvl:inc@pkg")
		}
		if pc.S.Exc != "" {
			add("lvl:exc@pkg")
		}
		if pc.S.IncEmpty {
			add("lvl:inc@pkg=explicit-empty-over-higher-level")
		}
		if pc.S.ExcEmpty {
			add("lvl:exc@pkg=explicit-empty-over-higher-level")
		}
		if pc.S.ExSub != nil {
			add("lvl:exsub@pkg")
		}
		for _, ic := range pc.Ifaces {
			add(fmt.Sprintf("configs=%d", len(ic.Entries)))
			if ic.Struct != "" {
				add("iface-config-structname")
			}
		}
	}
	if c.Root.All != nil {
		add(fmt.Sprintf("lvl:all@root=%v", *c.Root.All))
	}
	if c.Root.Inc != "" {
		add("lvl:inc@root")
	}
	if c.Root.Exc != "" {
		add("lvl:exc@root")
	}
	// directories and declarations
	recAbove := func(dir string) bool {
		for _, a := range ancestors(dir) {
			if ps, ok := w.cfg[a]; ok && ps.e.rec {
				return true
			}
		}
		return false
	}
	imported := map[string]bool{}
	for _, p := range c.Pkgs {
		for _, d := range p.Decls {
			if i := strings.Index(d.Ref, ":"); i >= 0 {
				imported[d.Ref[:i]] = true
			}
		}
	}
	var selCounts []string
	for _, p := range c.Pkgs {
		pi := st.pkgs[p.Dir]
		ps, configured := w.cfg[p.Dir]
		for _, f := range p.files() {
			if h := p.Headers[f]; h != "" {
				add("hdr:" + h)
			}
		}
		if p.allGenerated() {
			role := "unconfigured"
			if configured {
				role = ps.role
			} else if _, ex := w.excluded[p.Dir]; ex {
				role = "excluded"
			}
			if p.Kind != "go" {
				role += "(" + p.Kind + ")"
			}
			add("hdr:all-files-generated@" + role)
			if configured && depth(p.Dir) >= 2 && strings.HasPrefix(ps.role, "discovered") {
				add(fmt.Sprintf("hdr:all-files-generated@discovered-depth%d", depth(p.Dir)-1))
			}
		}
		if recAbove(p.Dir) && p.Kind != "go" {
			add("tree:" + p.Kind + "-dir-under-recursive")
		}
		if !configured && pi.hasGo && len(pi.cands) > 0 {
			if _, ex := w.excluded[p.Dir]; !ex {
				if imported[p.Dir] {
					add("tree:unconfigured-imported-pkg-with-ifaces")
				}
				for _, a := range ancestors(p.Dir) {
					for _, q := range c.Pkgs {
						if q.Dir != p.Dir && filepath.Dir(q.Dir) == a {
							if qs, ok := w.cfg[q.Dir]; ok && qs.e.rec {
								add("tree:unconfigured-sibling-of-recursive-root")
							}
						}
					}
				}
				if depth(p.Dir) == 1 {
					for _, q := range c.Pkgs {
						if depth(q.Dir) == 1 && q.Dir != p.Dir {
							if qs, ok := w.cfg[q.Dir]; ok && qs.e.rec {
								add("tree:unconfigured-sibling-of-recursive-root")
							}
						}
					}
				}
				add("tree:unconfigured-pkg-with-ifaces")
			}
		}
		if !configured {
			continue
		}
		for _, d := range p.Decls {
			if d.Kind == "local" {
				for _, l := range d.Locals {
					k, pkgLevel := pi.decl[l.Name]
					switch {
					case !pkgLevel:
						add("decl:local-type-named-like-nothing")
					case k == "iface" || k == "giface" || k == "inst" || k == "ginst":
						add("decl:local-type-shadows-interface")
					default:
						add("decl:local-type-shadows-non-interface")
					}
					add(fmt.Sprintf("decl:local-holder=%d/%s", d.Var, l.Kind))
				}
				continue
			}
			add("decl:" + d.Kind)
			if d.Kind == "iface" && d.Var == 1 {
				add("decl:iface-empty")
			}
			if strings.Contains(d.Ref, ":") {
				add("decl:" + d.Kind + "-refers-to-other-package")
			}
			if d.File == "tag" || d.File == "test" {
				add("decl:in-" + d.File + "-file")
			}
		}
		for _, cd := range pi.cands {
			if cd.status != "cand" {
				continue
			}
			if _, free := w.free[p.Dir]; free {
				continue
			}
			v := vote(ps, cd.name)
			selCounts = append(selCounts, "sel:"+v.String())
			if v.disagree() {
				nonTrivial = true
			}
		}
	}
	for s := range set {
		classes = append(classes, s)
	}
	sort.Strings(classes)
	classes = append(classes, selCounts...)
	return nonTrivial, classes
}

// ---- the property body ------------------------------------------------------------------------

func run(c Case) *vh.Violation {
	if !valid(c) {
		vh.Invalid()
		vh.Infra("case outside the generator's domain: %s", vh.Trunc(vh.JSON(c), 600))
	}
	st := newStatic(&c)
	ws, keys := st.worlds()
	if ws == nil {
		vh.Count("", "too-many-ambiguous-settings")
		vh.Excluded("too-many-ambiguous-settings")
		_ = keys
		return nil
	}
	nt, classes := st.classify(ws)
	fp := ""
	if nt {
		fp = vh.Hash(vh.JSON(c))
	}
	vh.Count(fp, classes...)
	if nt && vh.NeedSample() {
		vh.Sample(c)
	}

	root := vh.NewScratch()
	defer vh.RemoveAll(root)
	files := c.render(root)
	vh.WriteFiles(root, files)

	k := 1
	for _, w := range ws {
		if w.orderDep {
			k = 4 // the outcome below two nested recursive packages used to depend on map order: sample it
		}
	}
	usedDC := map[string]bool{}
	for i := 0; i < k; i++ {
		if err := os.RemoveAll(filepath.Join(root, "out")); err != nil {
			vh.Infra("remove out: %v", err)
		}
		res := vh.Mockery(root, nil, "--config", filepath.Join(root, ".mockery.yml"))
		if res.TimedOut {
			vh.Infra("mockery timed out")
		}
		report := func(extra string) string {
			return fmt.Sprintf("run %d of %d: exit %d\n%s\n--- stderr\n%s", i+1, k, res.Exit, extra, vh.Trunc(ansiRe.ReplaceAllString(res.Stderr, ""), 6000))
		}
		if res.Exit != 0 || res.Panicked() {
			// a generator bug (module does not compile) must never be reported as a finding
			tags := ""
			if c.BuildTags {
				tags = "sometag"
			}
			if ok, diag := vh.GoVet(root, tags); !ok {
				vh.Invalid()
				vh.Infra("generated module does not type-check: %s", vh.Trunc(diag, 1500))
			}
			return vh.Violate("mockery/"+c.features(ws[0])+"/exit/"+exitDiag(res),
				"mockery exited with status %d on a valid configuration (every listed interface exists)", res.Exit).With(files, report(""))
		}
		obs, bad := observe(root)
		if len(bad) > 0 {
			vh.Infra("probe output not understood: %v", bad)
		}
		// the observation must agree with the model in at least one admissible world
		var best []diffItem
		var bestW *world
		okWorld := false
		for _, w := range ws {
			d, used := st.compare(w, obs)
			if len(d) == 0 {
				okWorld = true
				for u := range used {
					usedDC[u] = true
				}
				break
			}
			if best == nil || len(d) < len(best) {
				best, bestW = d, w
			}
		}
		if okWorld {
			continue
		}
		var sb strings.Builder
		fmt.Fprintf(&sb, "difference to the reference model (closest of %d admissible readings):\n", len(ws))
		for _, di := range best {
			fmt.Fprintf(&sb, "  %-60s expected %d, observed %d   [%s]\n", di.line, di.want, di.got, st.describe(bestW, di))
		}
		sb.WriteString("expected mocks:\n")
		exp := st.expected(bestW)
		var el []string
		for l, n := range exp {
			el = append(el, fmt.Sprintf("  %dx %s", n, l))
		}
		sort.Strings(el)
		sb.WriteString(strings.Join(el, "\n") + "\nobserved mocks:\n")
		el = el[:0]
		for l, n := range obs {
			el = append(el, fmt.Sprintf("  %dx %s", n, l))
		}
		sort.Strings(el)
		sb.WriteString(strings.Join(el, "\n") + "\n")
		desc := st.describe(bestW, best[0])
		return vh.Violate("mockery/"+desc,
			"the set of generated mocks differs from what the configuration selects: %s (expected %d, observed %d)", best[0].line, best[0].want, best[0].got).With(files, report(sb.String()))
	}
	for u := range usedDC {
		vh.DontCare(u)
	}
	if len(ws) > 1 {
		vh.DontCare("setting-unset-on-explicit-package-under-recursive-ancestor")
	}
	return nil
}

func TestProp(t *testing.T) {
	if _, err := os.Stat(vh.SUT()); err != nil {
		t.Skipf("mockery binary missing: %v", err)
	}
	judge := run
	if out := os.Getenv("C07_MINIMIZE"); out != "" && os.Getenv("VCHECK_REPLAY") != "" {
		judge = minimizingRun(out) // development aid, see minimize_test.go
	}
	vh.Main(t, vh.Check[Case]{Gen: gen, Run: judge})
}
