package c07

// A structural minimiser for saved cases. rapid's own shrinking works on the draw stream and,
// with 0.5-2 s per evaluation, leaves large cases within the shrink budget. This greedy pass
// works on the Case value itself: it is used (by hand) before a found case is promoted to the
// regression corpus:
//
//	C07_MINIMIZE=/some/out/dir ./vcheck replay C07 replays/C07/found/<dir>
//
// writes the minimised case to /some/out/dir/case.json (and judges it).

import (
	"encoding/json"
	"os"
	"path/filepath"
	"strings"

	"verif/harness/vh"
)

func clone(c Case) Case {
	b, _ := json.Marshal(c)
	var out Case
	_ = json.Unmarshal(b, &out)
	return out
}

// valid reports whether a case is inside the generator's domain (every reference resolves to
// a declaration of the right kind in an always-built file, names are unique per package, every
// configured package exists and every listed interface certainly is one).
func valid(c Case) bool {
	idx := map[string]int{}
	for i, p := range c.Pkgs {
		if _, dup := idx[p.Dir]; dup {
			return false
		}
		idx[p.Dir] = i
	}
	okTarget := func(kind string, target *Decl) bool {
		if target == nil || (target.File != "a" && target.File != "b") {
			return false
		}
		switch kind {
		case "inst", "ginst":
			return target.Kind == "giface"
		case "sinst":
			return target.Kind == "gstruct"
		case "alias":
			return target.Kind == "iface" || target.Kind == "giface" || target.Kind == "struct" || target.Kind == "gstruct"
		case "defn":
			return target.Kind == "iface" || target.Kind == "struct"
		case "iface":
			return target.Kind == "iface"
		}
		return false
	}
	for _, p := range c.Pkgs {
		for _, h := range p.Headers { // an entry for a file the package does not have is ignored
			known := false
			for _, k := range headerKinds {
				known = known || h == k
			}
			if !known {
				return false
			}
		}
	}
	for i, p := range c.Pkgs {
		names := map[string]bool{}
		for _, d := range p.Decls {
			if names[d.Name] {
				return false
			}
			names[d.Name] = true
			if p.Kind != "go" && (d.Kind != "iface" || d.Ref != "") {
				return false
			}
			if (p.Kind == "testonly" && d.File != "test") || (p.Kind == "tagonly" && d.File != "tag") || p.Kind == "nogo" {
				return false
			}
			if d.Kind == "local" {
				if len(d.Locals) == 0 || (d.File != "a" && d.File != "b") {
					return false
				}
				for _, l := range d.Locals {
					if l.Kind == "inst" {
						_, target, imp := c.resolve(p.Dir, l.Ref)
						if imp != "" || !okTarget("inst", target) || l.Name == l.Ref {
							return false
						}
					}
				}
				continue
			}
			needsRef := d.Kind == "inst" || d.Kind == "ginst" || d.Kind == "sinst" || d.Kind == "alias" || d.Kind == "defn" || (d.Kind == "iface" && d.Var == 2)
			if !needsRef {
				if d.Ref != "" {
					return false
				}
				continue
			}
			_, target, imp := c.resolve(p.Dir, d.Ref)
			if !okTarget(d.Kind, target) || target.Name == d.Name && imp == "" {
				return false
			}
			if imp != "" {
				j, ok := idx[imp]
				if !ok || j >= i || c.Pkgs[j].Kind != "go" || !(d.Kind == "inst" || d.Kind == "iface") || target.Name[0] < 'A' || target.Name[0] > 'Z' {
					return false
				}
			}
		}

	}
	if len(c.Cfgs) == 0 {
		return false
	}
	if c.Root.IncEmpty || c.Root.ExcEmpty {
		return false
	}
	for _, pc := range c.Cfgs {
		if (pc.S.IncEmpty && pc.S.Inc != "") || (pc.S.ExcEmpty && pc.S.Exc != "") {
			return false
		}
	}
	st := newStatic(&c)
	seen := map[string]bool{}
	for _, pc := range c.Cfgs {
		i, ok := idx[pc.Dir]
		if !ok || c.Pkgs[i].Kind != "go" || seen[pc.Dir] {
			return false
		}
		seen[pc.Dir] = true
		for _, ic := range pc.Ifaces {
			found := false
			for _, cd := range st.pkgs[pc.Dir].cands {
				if cd.name == ic.Name && cd.status == "cand" {
					found = true
				}
			}
			if !found {
				return false
			}
			empty := 0
			for _, e := range ic.Entries {
				if e == "" {
					empty++
				}
			}
			if empty > 1 {
				return false
			}
		}
	}
	return true
}

func violationClass(v *vh.Violation) string {
	if v == nil {
		return ""
	}
	if i := strings.Index(v.Key, "/exit/"); i >= 0 {
		return v.Key[i:]
	}
	return v.Key[strings.LastIndex(v.Key, "/"):]
}

func settingsReductions(s *Settings, apply func()) []func() {
	_ = apply
	return []func(){
		func() { s.All = nil },
		func() { s.Inc = "" },
		func() { s.Exc = "" },
		func() { s.IncEmpty = false },
		func() { s.ExcEmpty = false },
		func() { s.Rec = nil },
		func() { s.ExSub = nil },
		func() {
			if len(s.ExSub) > 1 {
				s.ExSub = s.ExSub[:1]
			}
		},
		func() {
			if len(s.ExSub) > 1 {
				s.ExSub = s.ExSub[1:]
			}
		},
	}
}

// reductions returns every one-step simplification of c.
func reductions(c Case) []Case {
	var out []Case
	try := func(f func(x *Case)) {
		x := clone(c)
		f(&x)
		out = append(out, x)
	}
	for i := range c.Pkgs {
		i := i
		try(func(x *Case) { // drop the directory together with its configuration
			dir := x.Pkgs[i].Dir
			x.Pkgs = append(x.Pkgs[:i], x.Pkgs[i+1:]...)
			var keep []PkgCfg
			for _, pc := range x.Cfgs {
				if pc.Dir != dir {
					keep = append(keep, pc)
				}
			}
			x.Cfgs = keep
		})
	}
	for i := range c.Pkgs {
		i := i
		for _, f := range c.Pkgs[i].files() {
			f := f
			if _, ok := c.Pkgs[i].Headers[f]; ok {
				try(func(x *Case) { delete(x.Pkgs[i].Headers, f) })
			}
		}
	}
	for i := range c.Pkgs {
		for j := range c.Pkgs[i].Decls {
			i, j := i, j
			try(func(x *Case) { x.Pkgs[i].Decls = append(x.Pkgs[i].Decls[:j], x.Pkgs[i].Decls[j+1:]...) })
			d := c.Pkgs[i].Decls[j]
			if d.File != "a" && c.Pkgs[i].Kind == "go" {
				try(func(x *Case) { x.Pkgs[i].Decls[j].File = "a" })
			}
			if d.Var != 0 {
				try(func(x *Case) { x.Pkgs[i].Decls[j].Var, x.Pkgs[i].Decls[j].Ref = 0, "" })
			}
			for k := range d.Locals {
				k := k
				try(func(x *Case) {
					l := x.Pkgs[i].Decls[j].Locals
					x.Pkgs[i].Decls[j].Locals = append(l[:k], l[k+1:]...)
				})
				if d.Locals[k].Kind != "iface" {
					try(func(x *Case) { x.Pkgs[i].Decls[j].Locals[k].Kind, x.Pkgs[i].Decls[j].Locals[k].Ref = "iface", "" })
				}
			}
		}
	}
	for i := range c.Cfgs {
		i := i
		try(func(x *Case) { x.Cfgs = append(x.Cfgs[:i], x.Cfgs[i+1:]...) })
		for n := 0; n < 9; n++ {
			n := n
			try(func(x *Case) { settingsReductions(&x.Cfgs[i].S, nil)[n]() })
		}
		for j := range c.Cfgs[i].Ifaces {
			j := j
			try(func(x *Case) { x.Cfgs[i].Ifaces = append(x.Cfgs[i].Ifaces[:j], x.Cfgs[i].Ifaces[j+1:]...) })
			ic := c.Cfgs[i].Ifaces[j]
			if ic.Struct != "" {
				try(func(x *Case) { x.Cfgs[i].Ifaces[j].Struct = "" })
			}
			if ic.HasConfigs {
				try(func(x *Case) { x.Cfgs[i].Ifaces[j].HasConfigs, x.Cfgs[i].Ifaces[j].Entries = false, nil })
			}
			for k := range ic.Entries {
				k := k
				if len(ic.Entries) > 1 {
					try(func(x *Case) {
						e := x.Cfgs[i].Ifaces[j].Entries
						x.Cfgs[i].Ifaces[j].Entries = append(e[:k], e[k+1:]...)
					})
				}
			}
		}
	}
	for n := 0; n < 9; n++ {
		n := n
		try(func(x *Case) { settingsReductions(&x.Root, nil)[n]() })
	}
	if c.BuildTags {
		try(func(x *Case) { x.BuildTags = false })
	}
	if c.PerMock {
		try(func(x *Case) { x.PerMock = false })
	}
	return out
}

func minimize(c Case) Case {
	v := run(c)
	if v == nil {
		// order-dependent behaviour: try once more before giving up
		if v = run(c); v == nil {
			return c
		}
	}
	class := violationClass(v)
	before := vh.JSON(c)
	for progress := true; progress; {
		progress = false
		for _, x := range reductions(c) {
			if vh.JSON(x) == vh.JSON(c) || !valid(x) {
				continue
			}
			if vx := run(x); vx != nil && violationClass(vx) == class {
				c, progress = x, true
				break
			}
		}
	}
	_ = before
	return c
}

func minimizingRun(outDir string) func(c Case) *vh.Violation {
	return func(c Case) *vh.Violation {
		m := minimize(c)
		v := run(m)
		if err := os.MkdirAll(outDir, 0o755); err != nil {
			vh.Infra("mkdir %s: %v", outDir, err)
		}
		b, _ := json.MarshalIndent(m, "", " ")
		_ = os.WriteFile(filepath.Join(outDir, "case.json"), b, 0o644)
		if v != nil {
			_ = os.WriteFile(filepath.Join(outDir, "observed.txt"), []byte("key: "+v.Key+"\n"+v.Msg+"\n\n"+v.Observed+"\n"), 0o644)
			if v.Files != nil {
				vh.WriteFiles(filepath.Join(outDir, "tree"), v.Files)
			}
		}
		return v
	}
}
