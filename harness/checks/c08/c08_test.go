// C08 — configuration resolves hierarchically; the most specific setting wins.
//
// A case is a configuration tree (environment variables, config file root, packages, interfaces,
// `configs` entries, command-line flags) in which every written value is a pairwise-distinct marker
// (`zq<letter><n>`), so an observed value names the level it was written at. One reference model
// ("first level that sets it": configs[i] -> interface config -> package config -> top level
// [flag > file > env > default]; template-data merged key by key with the same precedence) is
// compared with two observation ports of the real binary:
//
//	port 1: `mockery showconfig` — the merged tree printed per package / interface / configs entry;
//	port 2: a real `mockery` run with probe templates — which values were CONSUMED per mock and per
//	        output file (path, package clause, struct name, template-data dump, template banner,
//	        formatter signature, overwrite of an existing file, schema applied, replaced types,
//	        selected interfaces / sub-packages, debug lines).
package c08

import (
	"encoding/json"
	"fmt"
	"os"
	"regexp"
	"sort"
	"strconv"
	"strings"
	"testing"

	"pgregory.net/rapid"
	"verif/harness/vh"
)

// ---- case ---------------------------------------------------------------------------------------

// Level is what one level of the tree writes: yaml parameter name -> value (string, bool, number,
// list, nested map). A parameter that is absent is not set at that level.
type Level map[string]any

type Iface struct {
	Name    string  `json:"name"`
	Null    bool    `json:"null,omitempty"`    // `Name:` with a YAML null value
	Config  Level   `json:"config,omitempty"`  // nil: no `config` key
	Configs []Level `json:"configs,omitempty"` // nil: no `configs` key
}

type Pkg struct {
	Path   string  `json:"path"`
	Null   bool    `json:"null,omitempty"`
	Config Level   `json:"config,omitempty"`
	Ifaces []Iface `json:"interfaces,omitempty"`
}

type Case struct {
	Port      int      `json:"port"`
	Env       Level    `json:"env,omitempty"`            // top-level parameters given as MOCKERY_* variables
	BoolStyle int      `json:"bool_style,omitempty"`     // spelling of booleans in the environment: 0 true, 1 True, 2 TRUE
	Root      Level    `json:"root,omitempty"`           // top level of the config file
	FlagLog   string   `json:"flag_log_level,omitempty"` // --log-level
	ConfigVia string   `json:"config_via"`               // search | flag | env | flag+env (env names a decoy file)
	Pkgs      []Pkg    `json:"packages"`
	Preexist  []string `json:"preexisting,omitempty"` // port 2: output files that exist before the run
	WantFail  string   `json:"want_fail,omitempty"`   // port 2: "", "force-file-write", "schema"
	TypeCheck bool     `json:"type_check,omitempty"`  // port 2: additionally type-check the output directories (go vet)
}

const modPath = "example.com/m"

// every directory of the fixed scratch module that holds a Go package with interfaces A, B, C
var layout = []string{"pa", "pb", "pc", "pc/s1", "pc/s1/t", "pc/s1/t/u", "pc/s2", "pc/s2/w", "pd"}
var ifaceNames = []string{"A", "B", "C"}

var scalarParams = []string{"dir", "filename", "pkgname", "structname", "template", "template-schema", "formatter",
	"include-interface-regex", "exclude-interface-regex", "all", "recursive", "force-file-write", "require-template-schema-exists"}
var boolParams = map[string]bool{"all": true, "recursive": true, "force-file-write": true, "require-template-schema-exists": true}
var topOnlyParams = []string{"log-level", "build-tags"}

const listParam = "exclude-subpkg-regex"

var allJudged = append(append(append([]string{}, scalarParams...), listParam), "template-data", "replace-type")

// defaults as created by the loader and written by `mockery init`; the parameter table in
// docs/configuration.md names different defaults for three of them, both are accepted.
var defaults = Level{
	"all": false, "dir": "{{.InterfaceDir}}", "filename": "mocks_test.go", "force-file-write": false,
	"formatter": "goimports", "log-level": "info", "structname": "{{.Mock}}{{.InterfaceName}}",
	"pkgname": "{{.SrcPackageName}}", "recursive": false, "require-template-schema-exists": true,
	"template": "testify", "template-schema": "{{.Template}}.schema.json", "include-interface-regex": "",
	"exclude-interface-regex": "", "build-tags": "", listParam: []any{},
}
var altDefaults = map[string]string{"dir": "mocks/{{.SrcPackagePath}}", "filename": "mock_{{.InterfaceName}}.go", "template": ""}

// ---- small helpers ------------------------------------------------------------------------------

func deepCopy(v any) any {
	switch x := v.(type) {
	case map[string]any:
		m := make(map[string]any, len(x))
		for k, e := range x {
			m[k] = deepCopy(e)
		}
		return m
	case Level:
		m := make(map[string]any, len(x))
		for k, e := range x {
			m[k] = deepCopy(e)
		}
		return m
	case []any:
		l := make([]any, len(x))
		for i, e := range x {
			l[i] = deepCopy(e)
		}
		return l
	}
	return v
}

// norm renders a value canonically (sorted keys, numbers as JSON numbers, nil list/map as empty).
func norm(v any) string {
	switch x := v.(type) {
	case nil:
		return "null"
	case Level:
		return norm(map[string]any(x))
	case []string:
		l := make([]any, len(x))
		for i, s := range x {
			l[i] = s
		}
		return norm(l)
	}
	b, err := json.Marshal(v)
	if err != nil {
		return fmt.Sprintf("%#v", v)
	}
	return string(b)
}

func sortedKeys[V any](m map[string]V) []string {
	ks := make([]string, 0, len(m))
	for k := range m {
		ks = append(ks, k)
	}
	sort.Strings(ks)
	return ks
}

var markerRe = regexp.MustCompile(`[zZ]q[a-z](\d+)`)

// markersIn lists the marker numbers occurring in any string inside v (values and list elements;
// map keys are names shared between levels, not markers).
func markersIn(v any, out map[int]bool) {
	switch x := v.(type) {
	case string:
		for _, m := range markerRe.FindAllStringSubmatch(x, -1) {
			n, _ := strconv.Atoi(m[1])
			out[n] = true
		}
	case map[string]any:
		for _, e := range x {
			markersIn(e, out)
		}
	case Level:
		for _, e := range x {
			markersIn(e, out)
		}
	case []any:
		for _, e := range x {
			markersIn(e, out)
		}
	}
}

func kindOf(id string) string {
	switch {
	case id == "env" || id == "root" || id == "default" || id == "flag":
		return id
	case strings.HasPrefix(id, "pkg:"):
		return "package"
	case strings.HasPrefix(id, "if:"):
		return "interface"
	case strings.HasPrefix(id, "cfg:"):
		return "configs"
	}
	return "other"
}

// ---- the reference resolution model -------------------------------------------------------------

type node struct {
	ID string
	L  Level
}

type Eff struct {
	V    Level             // effective value per parameter
	From map[string]string // parameter -> id of the level that supplied it
}

func overlay(dst, src map[string]any) {
	for k, v := range src {
		if sm, ok := v.(map[string]any); ok {
			if dm, ok := dst[k].(map[string]any); ok {
				overlay(dm, sm)
				continue
			}
			if _, exists := dst[k]; !exists {
				dst[k] = deepCopy(sm)
				continue
			}
		}
		dst[k] = deepCopy(v)
	}
}

// resolve applies "first level that sets it" along a chain ordered from the most specific level to
// the default; template-data is merged key by key (recursively) with the same precedence.
func resolve(ch []node) Eff {
	e := Eff{V: Level{}, From: map[string]string{}}
	for _, p := range append(append(append([]string{}, scalarParams...), listParam), topOnlyParams...) {
		for _, n := range ch {
			if v, ok := n.L[p]; ok {
				e.V[p], e.From[p] = v, n.ID
				break
			}
		}
	}
	td := map[string]any{}
	for i := len(ch) - 1; i >= 0; i-- {
		if m, ok := ch[i].L["template-data"].(map[string]any); ok {
			overlay(td, m)
		}
	}
	e.V["template-data"] = td
	return e
}

type rtKey struct{ pkg, typ string }

func rtEntries(l Level) map[rtKey]string {
	m, ok := l["replace-type"].(map[string]any)
	if !ok {
		return nil
	}
	out := map[rtKey]string{}
	for p, tm := range m {
		if tmm, ok := tm.(map[string]any); ok {
			for t, v := range tmm {
				out[rtKey{p, t}] = norm(v)
			}
		}
	}
	return out
}

// rtExpect: the entries of the most specific level that sets replace-type are required; whether
// entries for other keys written at less specific levels are merged in is not fixed by the property
// (only template-data is said to merge key by key), so those are allowed but not required.
func rtExpect(ch []node) (must map[rtKey]string, may map[rtKey]map[string]bool, mustFrom string) {
	may = map[rtKey]map[string]bool{}
	for _, n := range ch {
		ents := rtEntries(n.L)
		if ents == nil {
			continue
		}
		if must == nil {
			must, mustFrom = ents, n.ID
			continue
		}
		for k, v := range ents {
			if _, ok := must[k]; ok {
				continue
			}
			if may[k] == nil {
				may[k] = map[string]bool{}
			}
			may[k][v] = true
		}
	}
	if must == nil {
		must = map[rtKey]string{}
	}
	return
}

// ---- tree navigation ----------------------------------------------------------------------------

func (c *Case) topChain() []node {
	return []node{{"root", c.Root}, {"env", c.Env}, {"default", defaults}}
}

func (c *Case) listed(path string) *Pkg {
	for i := range c.Pkgs {
		if c.Pkgs[i].Path == path {
			return &c.Pkgs[i]
		}
	}
	return nil
}

// listedAncestors returns the listed packages whose path is a proper prefix of path, nearest first.
func (c *Case) listedAncestors(path string) []*Pkg {
	var out []*Pkg
	for i := range c.Pkgs {
		if strings.HasPrefix(path, c.Pkgs[i].Path+"/") {
			out = append(out, &c.Pkgs[i])
		}
	}
	sort.Slice(out, func(i, j int) bool { return len(out[i].Path) > len(out[j].Path) })
	return out
}

func pkgNode(p *Pkg) node { return node{"pkg:" + p.Path, p.Config} }

// pkgChains returns the alternative resolution chains of a package-level config (most specific
// first). A listed package without a listed ancestor, and a discovered sub-package of exactly one
// listed package, have exactly one chain. Below a listed ancestor that may be recursive the property
// does not say whether the ancestor's settings sit between the package and the top level, so both
// orders of events are admitted (alternatives; judged per parameter).
func (c *Case) pkgChains(path string) [][]node {
	top := c.topChain()
	anc := c.listedAncestors(path)
	var own []node
	if p := c.listed(path); p != nil {
		own = []node{pkgNode(p)}
	}
	var chains [][]node
	if own != nil {
		chains = append(chains, append(append([]node{}, own...), top...))
	}
	anyRec := false
	for _, a := range anc {
		if c.mayRecurse(a.Path) {
			anyRec = true
		}
	}
	if !anyRec && own != nil {
		return chains
	}
	if own == nil && len(anc) > 1 && c.certainDiscoverer(anc[0], path) {
		// A discovered package takes the configuration of its NEAREST recursive listed ancestor
		// ("sub-packages inherit the config of their nearest recursive ancestor"): whatever that
		// ancestor sets wins. Only whether the farther ancestors sit between it and the top level
		// is left open (as it is for the listed ancestor itself).
		for mask := 0; mask < 1<<(len(anc)-1); mask++ {
			ch := []node{pkgNode(anc[0])}
			for i, a := range anc[1:] {
				if mask&(1<<i) != 0 {
					ch = append(ch, pkgNode(a))
				}
			}
			chains = append(chains, append(ch, top...))
		}
		return chains
	}
	// every non-empty order-preserving selection of the listed ancestors
	for mask := 1; mask < 1<<len(anc); mask++ {
		ch := append([]node{}, own...)
		for i, a := range anc {
			if mask&(1<<i) != 0 {
				ch = append(ch, pkgNode(a))
			}
		}
		chains = append(chains, append(ch, top...))
	}
	return chains
}

// certainDiscoverer: the listed package p writes `recursive: true` itself and excludes the
// sub-package under none of its admitted resolution chains, so it discovers the sub-package whatever
// the standing of its own listed ancestors.
func (c *Case) certainDiscoverer(p *Pkg, sub string) bool {
	if b, _ := p.Config["recursive"].(bool); !b || p.Null {
		return false
	}
	for _, ch := range c.pkgChains(p.Path) {
		if excludedBy(resolve(ch), sub) {
			return false
		}
	}
	return true
}

// mayRecurse: some admitted chain of the listed package makes `recursive` true.
func (c *Case) mayRecurse(path string) bool {
	for _, ch := range c.pkgChains(path) {
		if b, _ := resolve(ch).V["recursive"].(bool); b {
			return true
		}
	}
	return false
}

func excludedBy(e Eff, path string) bool {
	l, _ := e.V[listParam].([]any)
	for _, r := range l {
		s, _ := r.(string)
		if ok, err := regexp.MatchString(s, modPath+"/"+path); err == nil && ok {
			return true
		}
	}
	return false
}

// discovered classifies a package directory that is not listed: "must" (exactly one listed ancestor,
// recursive, not excluded), "never", or "maybe" (nested listed ancestors: don't-care).
func (c *Case) discovered(path string) string {
	anc := c.listedAncestors(path)
	switch len(anc) {
	case 0:
		return "never"
	case 1:
		e := resolve(c.pkgChains(anc[0].Path)[0])
		if b, _ := e.V["recursive"].(bool); b && !excludedBy(e, path) {
			return "must"
		}
		return "never"
	}
	if c.certainDiscoverer(anc[0], path) {
		return "must"
	}
	for _, a := range anc {
		if c.mayRecurse(a.Path) {
			return "maybe"
		}
	}
	return "never"
}

// writers maps every marker number to the ids of the levels that wrote it.
func (c *Case) writers() map[int][]string {
	w := map[int][]string{}
	add := func(id string, l Level) {
		ms := map[int]bool{}
		markersIn(l, ms)
		for n := range ms {
			w[n] = append(w[n], id)
		}
	}
	add("env", c.Env)
	add("root", c.Root)
	if c.FlagLog != "" {
		add("flag", Level{"log-level": c.FlagLog})
	}
	for _, p := range c.Pkgs {
		add("pkg:"+p.Path, p.Config)
		for _, i := range p.Ifaces {
			iid := p.Path + "." + i.Name
			add("if:"+iid, i.Config)
			for k, cf := range i.Configs {
				add(fmt.Sprintf("cfg:%s.%d", iid, k), cf)
			}
		}
	}
	return w
}

// ---- classes / non-triviality -------------------------------------------------------------------

func (c *Case) classify() (string, []string) {
	cl := []string{fmt.Sprintf("port=%d", c.Port), "config-via=" + c.ConfigVia, fmt.Sprintf("packages=%d", len(c.Pkgs))}
	nontrivial := false
	seen := map[string]bool{}
	mark := func(s string) {
		if !seen[s] {
			seen[s] = true
			cl = append(cl, s)
		}
	}
	if len(c.Env) > 0 {
		mark("env-source")
	}
	if c.FlagLog != "" {
		mark("flag-source")
	}
	differs := func(ch []node) {
		for _, p := range append(append([]string{}, allJudged...), topOnlyParams...) {
			var vals []string
			for _, n := range ch {
				if v, ok := n.L[p]; ok {
					mark(p + "@" + kindOf(n.ID))
					vals = append(vals, norm(v))
				}
			}
			for i := 1; i < len(vals); i++ {
				if vals[i] != vals[0] {
					nontrivial = true
					mark("multi-level:" + p)
					break
				}
			}
		}
	}
	tdDepth := func(l Level) {
		var d func(v any) int
		d = func(v any) int {
			m, ok := v.(map[string]any)
			if !ok {
				return 0
			}
			best := 0
			for _, e := range m {
				if x := d(e); x > best {
					best = x
				}
			}
			return best + 1
		}
		if td, ok := l["template-data"]; ok {
			mark(fmt.Sprintf("template-data-depth=%d", d(td)))
		}
	}
	top := c.topChain()
	tdDepth(c.Root)
	maxIf, maxCfg := 0, 0
	for pi := range c.Pkgs {
		p := &c.Pkgs[pi]
		if p.Null {
			mark("null-package")
		}
		if len(c.listedAncestors(p.Path)) > 0 {
			mark("listed-sub-package")
		}
		pch := append([]node{pkgNode(p)}, top...)
		differs(pch)
		tdDepth(p.Config)
		if b, _ := resolve(pch).V["recursive"].(bool); b {
			mark("recursive-package")
		}
		if len(p.Ifaces) > maxIf {
			maxIf = len(p.Ifaces)
		}
		for _, i := range p.Ifaces {
			if i.Null {
				mark("null-interface")
			}
			ich := append([]node{{"if:" + p.Path + "." + i.Name, i.Config}}, pch...)
			differs(ich)
			tdDepth(i.Config)
			if len(i.Configs) > maxCfg {
				maxCfg = len(i.Configs)
			}
			for k, cf := range i.Configs {
				differs(append([]node{{fmt.Sprintf("cfg:%s.%s.%d", p.Path, i.Name, k), cf}}, ich...))
				tdDepth(cf)
			}
		}
	}
	// nested recursive listed packages with unlisted packages below the inner one
	for _, dir := range layout {
		anc := c.listedAncestors(dir)
		if c.listed(dir) != nil || len(anc) < 2 || !c.certainDiscoverer(anc[0], dir) {
			continue
		}
		mark("nested-recursive:unlisted-package-below-inner-recursive-package")
		if len(anc) > 2 {
			mark("nested-recursive:three-listed-levels")
		}
		inner, outer := resolve(c.pkgChains(anc[0].Path)[0]), resolve(append([]node{pkgNode(anc[1])}, top...))
		for _, p := range allJudged {
			if _, sets := anc[0].Config[p]; sets && norm(inner.V[p]) != norm(outer.V[p]) {
				mark("nested-recursive:inner-sets-value-differing-from-outer")
			}
		}
	}
	cl = append(cl, fmt.Sprintf("max-sibling-interfaces=%d", maxIf), fmt.Sprintf("max-configs-entries=%d", maxCfg))
	if c.WantFail != "" {
		mark("expected-failure=" + c.WantFail)
	}
	if len(c.Preexist) > 0 {
		mark("preexisting-output")
	}
	if c.TypeCheck {
		mark("type-check-sample")
	}
	if nontrivial && len(c.Pkgs) >= 2 {
		return vh.Hash(vh.JSON(c)), cl
	}
	return "", cl
}

func run(c Case) *vh.Violation {
	fp, cl := c.classify()
	vh.Count(fp, cl...)
	if fp != "" && vh.NeedSample() {
		vh.Sample(c)
	}
	if c.Port == 2 {
		return runPort2(&c)
	}
	return runPort1(&c)
}

func TestProp(t *testing.T) {
	chk := vh.Check[Case]{Gen: func(t *rapid.T) Case { return genCase(t) }, Run: run}
	if os.Getenv("C08_MINIMISE") != "" && os.Getenv("VCHECK_REPLAY") != "" {
		chk.Run = minimiseAndRun // development aid, see minimise_test.go
	}
	vh.Main(t, chk)
}
