package c08

import (
	"fmt"
	"os"
	"sort"
	"strings"

	"pgregory.net/rapid"
	"verif/harness/vh"
)

type gen struct {
	t       *rapid.T
	n       int  // marker counter: every written value gets its own number
	tdDense bool // class: template-data at most levels, nested maps at most depths
	srcDir  bool // class (port 2): output next to the sources, package names around the source package's
}

func (g *gen) num() int { g.n++; return g.n }
// bits draws n fair bits. rapid's integer generators are deliberately biased towards small values,
// so probabilities are composed from fair coins; a coin shrinks to false, the number to 0.
func (g *gen) bits(label string, n int) int {
	v := 0
	for i := n - 1; i >= 0; i-- {
		if rapid.Bool().Draw(g.t, label) {
			v |= 1 << i
		}
	}
	return v
}

// pct is true with probability p % (granularity 1/64); shrinking turns it off.
func (g *gen) pct(label string, p int) bool {
	return g.bits(label, 6) >= 64-(p*64+50)/100
}

// uni draws uniformly from 0..n-1 (n <= 16), shrinking towards 0.
func (g *gen) uni(label string, n int) int { return g.bits(label, 8) * n / 256 }

func (g *gen) pick(label string, xs ...string) string { return xs[g.uni(label, len(xs))] }
func (g *gen) boolv(label string) bool { return rapid.Bool().Draw(g.t, label) }

func genCase(t *rapid.T) Case {
	g := &gen{t: t}
	// port 2 costs ~30x a port 1 case; 13 % of the cases gives the planned 2000 / 300 split
	p2 := g.pct("port-2", 13)
	switch os.Getenv("C08_PORT") { // development aid: concentrate a run on one port
	case "1":
		p2 = false
	case "2":
		p2 = true
	}
	if p2 {
		return g.case2()
	}
	return g.case1()
}

// known reports whether a trigger has been recorded as a known finding (the generator then steers
// away from it and counts the steered draws).
func known(keys ...string) bool {
	for _, k := range keys {
		if vh.Known(k) {
			vh.Excluded(k)
			return true
		}
	}
	return false
}

// ---- values -------------------------------------------------------------------------------------

func (g *gen) td(depth int) map[string]any {
	m := map[string]any{}
	for _, k := range []string{"k1", "k2", "k3"} {
		if g.pct("td-"+k, 35) {
			m[k] = fmt.Sprintf("zqv%d", g.num())
		}
	}
	if g.pct("td-list", 12) {
		m["l1"] = []any{fmt.Sprintf("zqv%d", g.num()), fmt.Sprintf("zqv%d", g.num())}
	}
	if g.pct("td-bool", 10) {
		m["b1"] = g.boolv("td-boolv")
	}
	if g.pct("td-int", 10) {
		m["i1"] = float64(1000 + g.num())
	}
	if depth < 3 {
		for _, k := range []string{"n1", "n2"} {
			if g.pct("td-"+k, map[bool]int{false: 40, true: 75}[g.tdDense]) {
				m[k] = g.td(depth + 1)
			}
		}
	}
	return m
}

func (g *gen) replaceType() map[string]any {
	tm := map[string]any{"T0": map[string]any{"pkg-path": modPath + "/tp", "type-name": fmt.Sprintf("Zqr%d", g.num())}}
	if g.pct("rt-second-key", 25) {
		tm["T1"] = map[string]any{"pkg-path": modPath + "/tp", "type-name": fmt.Sprintf("Zqr%d", g.num())}
	}
	return map[string]any{modPath + "/tp": tm}
}

func (g *gen) subpkgRegex() []any {
	n := 1 + g.uni("nregex", 2)
	var l []any
	for i := 0; i < n; i++ {
		l = append(l, g.pick("subpkg-regex", "/s1$|", "/s2$|", "", "/t$|", "/s1|")+fmt.Sprintf("zqx%d", g.num()))
	}
	return l
}

// scalar draws a marker value for a string parameter. lower: the level is an interface or configs
// level (its mocks belong to one interface), so the output directory needs no package part.
func (g *gen) scalar(p string, lower, templated bool) any {
	n := g.num()
	switch p {
	case "dir":
		switch {
		case g.srcDir && g.pct("dir-is-source-dir", 45):
			return "{{.InterfaceDir}}" // the documented default: next to the interface
		case !lower:
			return fmt.Sprintf("out/zqd%d/{{.SrcPackageName}}", n)
		case templated && g.pct("dir-templated", 30):
			return fmt.Sprintf("out/zqd%d/{{.InterfaceName}}", n)
		}
		return fmt.Sprintf("out/zqd%d", n)
	case "filename":
		if g.srcDir && g.pct("filename-test-file", 40) {
			return fmt.Sprintf("zqf%d_test.go", n)
		}
		if templated && g.pct("filename-templated", 35) {
			return fmt.Sprintf("zqf%d_{{.InterfaceName}}.go", n)
		}
		return fmt.Sprintf("zqf%d.go", n)
	case "pkgname":
		if g.srcDir {
			switch g.uni("pkgname-kind", 5) {
			case 0, 1:
				return "{{.SrcPackageName}}"
			case 2, 3:
				return "{{.SrcPackageName}}_test"
			}
		}
		return fmt.Sprintf("zqp%d", n)
	case "structname":
		if templated && g.pct("structname-templated", 35) {
			return fmt.Sprintf("Zqs%d{{.InterfaceName}}", n)
		}
		return fmt.Sprintf("Zqs%d", n)
	case "template":
		return fmt.Sprintf("file://tpl/zqt%d.templ", n)
	case "template-schema":
		return fmt.Sprintf("file://sch/zqc%d.json", n)
	case "formatter":
		return g.pick("formatter", "gofmt", "goimports", "noop")
	case "include-interface-regex":
		return g.pick("include-regex", "^A$|", "^[AB]$|", "^[BC]$|", ".|", "") + fmt.Sprintf("zqi%d", n)
	case "exclude-interface-regex":
		return g.pick("exclude-regex", "^B$|", "^[BC]$|", "^A$|", "") + fmt.Sprintf("zqe%d", n)
	case "build-tags":
		return fmt.Sprintf("zqb%d", n)
	}
	return fmt.Sprintf("zqm%d", n)
}

// ---- port 1: free level subsets -----------------------------------------------------------------

func (g *gen) level1(kind string, recClass bool, pkgPath string) Level {
	l := Level{}
	p := 30
	if kind == "env" {
		p = 22
	}
	for _, name := range scalarParams {
		if !g.pct(kind+":"+name, p) {
			continue
		}
		if boolParams[name] {
			v := g.boolv(name + "-value")
			if name == "recursive" && (kind == "env" || kind == "root" || kind == "package") {
				// sub-package discovery runs for real: only in the recursive class
				v = recClass && ((kind == "package" && strings.HasPrefix(pkgPath, "pc")) || g.pct("recursive-true", 25))
			}
			l[name] = v
			continue
		}
		l[name] = g.scalar(name, kind == "interface" || kind == "configs", false)
	}
	if kind == "env" {
		return l
	}
	if g.pct(kind+":exclude-subpkg-regex", 25) {
		l[listParam] = g.subpkgRegex()
	}
	if g.pct(kind+":template-data", map[bool]int{false: 38, true: 85}[g.tdDense]) {
		l["template-data"] = g.td(1)
	}
	if g.pct(kind+":replace-type", 25) && !known("showconfig/replace-type/at@package:missing-entry:want@root", "showconfig/replace-type/at@configs:missing-entry:want@interface") {
		l["replace-type"] = g.replaceType()
	}
	return l
}

func (g *gen) logLevels(c *Case) {
	pool := []string{"debug", "info", "warn", "error"}
	perm := rapid.Permutation(pool).Draw(g.t, "log-levels")
	if g.pct("log-level@flag", 22) {
		c.FlagLog = perm[0]
	}
	if g.pct("log-level@root", 22) {
		c.Root["log-level"] = perm[1]
	}
	if c.Env != nil && g.pct("log-level@env", 35) {
		c.Env["log-level"] = perm[2]
	}
}

func (g *gen) ifaces1(recClass bool, pkgPath string) []Iface {
	var out []Iface
	n := []int{0, 1, 2, 2, 3, 3}[g.uni("nifaces", 6)]
	names := rapid.Permutation(ifaceNames).Draw(g.t, "iface-names")[:n]
	sort.Strings(names)
	for _, nm := range names {
		i := Iface{Name: nm}
		if g.pct("null-iface", 12) {
			i.Null = true
			out = append(out, i)
			continue
		}
		if g.pct("iface-config", 72) {
			i.Config = g.level1("interface", recClass, pkgPath)
		}
		nc := []int{0, 0, 0, 1, 2, 2, 3}[g.uni("nconfigs", 7)]
		for k := 0; k < nc; k++ {
			i.Configs = append(i.Configs, g.level1("configs", recClass, pkgPath))
		}
		out = append(out, i)
	}
	return out
}

func (g *gen) case1() Case {
	c := Case{Port: 1, Root: Level{}}
	recClass := g.pct("recursive-class", 22)
	g.tdDense = g.pct("template-data-dense", 30)
	c.ConfigVia = g.pick("config-via", "search", "search", "search", "search", "flag", "flag", "env", "env", "flag+env")
	if c.ConfigVia == "flag+env" && known("showconfig/config/flag+env:file-from-env-loaded") {
		c.ConfigVia = "flag"
	}
	if g.pct("use-env", 45) {
		c.Env = g.level1("env", recClass, "")
		c.BoolStyle = g.uni("bool-style", 3)
	}
	c.Root = g.level1("root", recClass, "")
	g.logLevels(&c)
	if g.pct("build-tags@root", 12) {
		c.Root["build-tags"] = g.scalar("build-tags", false, false)
	}
	if c.Env != nil && g.pct("build-tags@env", 12) {
		c.Env["build-tags"] = g.scalar("build-tags", false, false)
	}
	// packages: 2-4 siblings; in the recursive class pc is among them and sub-packages of pc may be listed too
	np := 2 + g.uni("npkgs", 3)
	paths := rapid.Permutation([]string{"pa", "pb", "pc", "pd"}).Draw(g.t, "pkg-paths")[:np]
	nested := false
	if recClass {
		has := false
		for _, p := range paths {
			if p == "pc" {
				has = true
			}
		}
		if !has {
			paths[0] = "pc"
		}
		listSub := !known("showconfig/template-data/leak:from@package:into@root", "showconfig/template-data/leak:from@package:into@package")
		// nested class: pc and a listed descendant both write `recursive: true`, unlisted packages
		// lie below the inner one (pc/s1/t, pc/s1/t/u) and below the outer one only (pc/s2, pc/s2/w)
		nested = listSub && g.pct("nested-recursive-class", 45)
		if listSub && (nested || g.pct("list-s1", 40)) {
			paths = append(paths, "pc/s1")
		}
		if listSub && g.pct("list-s1-t", 12) {
			paths = append(paths, "pc/s1/t")
		}
		if listSub && g.pct("list-s2", 10) {
			paths = append(paths, "pc/s2")
		}
	}
	sort.Strings(paths)
	for _, pth := range paths {
		p := Pkg{Path: pth}
		inner := nested && strings.HasPrefix(pth, "pc/") && (pth == "pc/s1" || g.pct("deeper-recursive", 50))
		if g.pct("null-package", 10) && !(recClass && pth == "pc") && !inner {
			p.Null = true
			c.Pkgs = append(c.Pkgs, p)
			continue
		}
		if g.pct("package-config", 78) || (recClass && pth == "pc") || inner {
			p.Config = g.level1("package", recClass, pth)
			if (recClass && pth == "pc" && (nested || g.pct("pc-recursive", 75))) || inner {
				p.Config["recursive"] = true
			}
		}
		p.Ifaces = g.ifaces1(recClass, pth)
		c.Pkgs = append(c.Pkgs, p)
	}
	return c
}

// ---- port 2: a runnable configuration -----------------------------------------------------------

// lv returns the (created on demand) level with the given id.
func (c *Case) lv(id string) Level {
	switch {
	case id == "root":
		if c.Root == nil {
			c.Root = Level{}
		}
		return c.Root
	case id == "env":
		if c.Env == nil {
			c.Env = Level{}
		}
		return c.Env
	}
	for pi := range c.Pkgs {
		p := &c.Pkgs[pi]
		if id == "pkg:"+p.Path {
			p.Null = false
			if p.Config == nil {
				p.Config = Level{}
			}
			return p.Config
		}
		for ii := range p.Ifaces {
			i := &p.Ifaces[ii]
			iid := p.Path + "." + i.Name
			if id == "if:"+iid {
				p.Null, i.Null = false, false
				if i.Config == nil {
					i.Config = Level{}
				}
				return i.Config
			}
			for k := range i.Configs {
				if id == fmt.Sprintf("cfg:%s.%d", iid, k) {
					if i.Configs[k] == nil {
						i.Configs[k] = Level{}
					}
					return i.Configs[k]
				}
			}
		}
	}
	panic("no such level " + id)
}

func (g *gen) case2() Case {
	c := Case{Port: 2, Root: Level{}}
	c.ConfigVia = g.pick("config-via", "search", "search", "search", "flag", "env")
	recClass := g.pct("recursive-class", 15)
	g.tdDense = g.pct("template-data-dense", 25)
	// class: dir drawn from {source dir, elsewhere}, pkgname from {source package name, <name>_test, other}
	// at every level; a third of these cases also type-check what was written
	g.srcDir = g.pct("source-dir-class", 35)
	c.TypeCheck = g.srcDir && g.pct("type-check-sample", 35)
	useEnv := g.pct("use-env", 40)
	if useEnv {
		c.Env = Level{}
		c.BoolStyle = g.uni("bool-style", 3)
	}
	rtClass := !c.TypeCheck && g.pct("replace-type-class", 25) && !known("run/replace-type/at@mock:want@root:got@default", "run/replace-type/at@mock:want@package:got@default", "run/replace-type/at@mock:want@interface:got@default")
	top := []string{"root"}
	if useEnv {
		top = append(top, "env")
	}
	// per-mock parameters and template-data, freely per level
	perMock := func(id string, lower bool, p int) {
		l := c.lv(id)
		for _, name := range []string{"dir", "filename", "structname"} {
			if g.pct(id+":"+name, p) {
				l[name] = g.scalar(name, lower, true)
			}
		}
		if id == "env" {
			return
		}
		if g.pct(id+":template-data", map[bool]int{false: 38, true: 85}[g.tdDense]) {
			l["template-data"] = g.td(1)
		}
		if rtClass && g.pct(id+":replace-type", 35) {
			l["replace-type"] = g.replaceType()
		}
	}
	selection := func(id string, p int) {
		l := c.lv(id)
		if g.pct(id+":all", p) {
			l["all"] = g.boolv("all-value")
		}
		if g.pct(id+":include", p) {
			l["include-interface-regex"] = g.scalar("include-interface-regex", false, false)
		}
		if g.pct(id+":exclude", p) {
			l["exclude-interface-regex"] = g.scalar("exclude-interface-regex", false, false)
		}
	}
	for _, id := range top {
		perMock(id, false, 45)
		selection(id, 18)
	}
	if (!g.srcDir || g.pct("top-level-dir", 50)) && resolve(c.topChain()).From["dir"] == "default" {
		c.lv(top[g.uni("dir-source", len(top))])["dir"] = g.scalar("dir", false, true)
	}
	np := 2 + g.uni("npkgs", 3)
	paths := rapid.Permutation([]string{"pa", "pb", "pc", "pd"}).Draw(g.t, "pkg-paths")[:np]
	if recClass {
		has := false
		for _, p := range paths {
			if p == "pc" {
				has = true
			}
		}
		if !has {
			paths[0] = "pc"
		}
	}
	sort.Strings(paths)
	for pi, pth := range paths {
		c.Pkgs = append(c.Pkgs, Pkg{Path: pth})
		p := &c.Pkgs[pi]
		if g.pct("null-package", 8) && !(recClass && pth == "pc") && pi > 0 {
			p.Null = true
			continue
		}
		if g.pct("package-config", 75) || (recClass && pth == "pc") {
			perMock("pkg:"+pth, false, 35)
			selection("pkg:"+pth, 25)
		}
		n := []int{0, 1, 2, 2, 3}[g.uni("nifaces", 5)]
		if pi == 0 && n == 0 {
			n = 2
		}
		names := rapid.Permutation(ifaceNames).Draw(g.t, "iface-names")[:n]
		sort.Strings(names)
		for ii, nm := range names {
			p.Ifaces = append(p.Ifaces, Iface{Name: nm})
			i := &p.Ifaces[ii]
			if g.pct("null-iface", 12) {
				i.Null = true
				continue
			}
			iid := "if:" + pth + "." + nm
			if g.pct("iface-config", 65) {
				perMock(iid, true, 30)
			}
			nc := []int{0, 0, 0, 1, 2, 2, 3}[g.uni("nconfigs", 7)]
			for k := 0; k < nc; k++ {
				i.Configs = append(i.Configs, Level{})
				perMock(fmt.Sprintf("cfg:%s.%s.%d", pth, nm, k), true, 35)
			}
		}
	}
	if recClass {
		if g.pct("recursive@root", 25) {
			c.lv(top[g.uni("rec-source", len(top))])["recursive"] = true
			if g.pct("recursive-off@pc", 15) {
				c.lv("pkg:pc")["recursive"] = false
			}
		} else {
			c.lv("pkg:pc")["recursive"] = true
		}
		if g.pct("exclude-subpkg@root", 25) {
			c.Root[listParam] = g.subpkgRegex()
		}
		if g.pct("exclude-subpkg@pc", 40) {
			c.lv("pkg:pc")[listParam] = g.subpkgRegex()
		}
		if g.pct("pc-selects", 85) {
			if g.boolv("pc-all") {
				c.lv("pkg:pc")["all"] = true
			} else {
				c.lv("pkg:pc")["include-interface-regex"] = g.scalar("include-interface-regex", false, false)
			}
		}
	}
	g.logLevels(&c)

	// ---- per-output-file parameters: identical for all mocks that share a file --------------------
	groups := map[string][]*xmock{}
	ifaceLeaves := map[string]map[string]bool{} // interface node -> output paths of its leaves
	for _, m := range c.mocks() {
		groups[m.path] = append(groups[m.path], m)
		if m.ifaceNode != "" {
			if ifaceLeaves[m.ifaceNode] == nil {
				ifaceLeaves[m.ifaceNode] = map[string]bool{}
			}
			ifaceLeaves[m.ifaceNode][m.path] = true
		}
	}
	// where may the value of a group be written below the package level?
	targets := func(path string) (leaf, iface []string) {
		leafOK, ifaceOK := true, true
		seenL, seenI := map[string]bool{}, map[string]bool{}
		for _, m := range groups[path] {
			if m.leaf == "" {
				return nil, nil
			}
			if !seenL[m.leaf] {
				seenL[m.leaf] = true
				leaf = append(leaf, m.leaf)
			}
			if len(ifaceLeaves[m.ifaceNode]) != 1 {
				ifaceOK = false
			}
			if !seenI[m.ifaceNode] {
				seenI[m.ifaceNode] = true
				iface = append(iface, m.ifaceNode)
			}
		}
		if !leafOK {
			leaf = nil
		}
		if !ifaceOK {
			iface = nil
		}
		return
	}
	belowKeys := func(param string) bool {
		return known("run/"+param+"/at@file:want@interface:got@package", "run/"+param+"/at@file:want@configs:got@package",
			"run/"+param+"/at@file:want@interface:got@root", "run/"+param+"/at@file:want@configs:got@root",
			"run/"+param+"/at@file:want@interface:got@default", "run/"+param+"/at@file:want@configs:got@default")
	}
	// assign draws, per group, whether the parameter is written below the package level and where
	assign := func(param string, pTop, pPkg, pGroup int, forceTop bool, value func(id string, lower bool) Level) {
		set := func(id string, lower bool) {
			l := c.lv(id)
			for k, v := range value(id, lower) {
				l[k] = v
			}
		}
		any := false
		for _, id := range top {
			if g.pct(param+"@"+id, pTop) {
				set(id, false)
				any = true
			}
		}
		if forceTop && !any {
			set(top[g.uni(param+"-source", len(top))], false)
		}
		if param == "formatter" && known("run/formatter/at@file:want@package:got@root", "run/formatter/at@file:want@package:got@default") {
			return
		}
		for _, p := range c.Pkgs {
			if !p.Null && g.pct(param+"@pkg:"+p.Path, pPkg) {
				set("pkg:"+p.Path, false)
			}
		}
		if belowKeys(param) {
			return
		}
		for _, path := range sortedKeys(groups) {
			if !g.pct(param+"@group", pGroup) {
				continue
			}
			leaf, iface := targets(path)
			ids := leaf
			if len(iface) > 0 && (len(leaf) == 0 || g.boolv(param+"-at-interface")) {
				ids = iface
			}
			if len(ids) == 0 {
				continue
			}
			val := value(ids[0], true)
			for _, id := range ids {
				l := c.lv(id)
				for k, v := range val {
					l[k] = v
				}
			}
			// a more specific level of the group that already carries the parameter (written together
			// with another one) must not shadow the new value for part of the file
			for _, m := range groups[path] {
				if m.leaf == "" {
					continue
				}
				l := c.lv(m.leaf)
				for k, v := range val {
					if _, has := l[k]; has {
						l[k] = v
					}
				}
			}
		}
	}
	assign("pkgname", 35, 30, 40, false, func(id string, lower bool) Level {
		return Level{"pkgname": g.scalar("pkgname", lower, false)}
	})
	assign("template", 60, 35, 45, true, func(id string, lower bool) Level {
		l := Level{"template": g.scalar("template", lower, false)}
		if g.pct("template-schema", 35) {
			l["template-schema"] = g.scalar("template-schema", lower, false)
		}
		if g.pct("require-schema", 30) {
			l["require-template-schema-exists"] = g.pct("require-value", 60)
		}
		return l
	})
	// schema settings on their own (without a template at the same level), unless the remote-template
	// cache keyed by the template alone (DESIGN section 6 row 20) is listed as a known finding
	if !known("run/template-schema/remote-template-cache-keyed-by-template") {
		assign("template-schema", 15, 15, 20, false, func(id string, lower bool) Level {
			return Level{"template-schema": g.scalar("template-schema", lower, false)}
		})
		assign("require-template-schema-exists", 15, 15, 20, false, func(id string, lower bool) Level {
			return Level{"require-template-schema-exists": g.pct("require-value", 60)}
		})
	}
	if !c.TypeCheck { // only goimports output is meant to compile (the probe carries an unused import)
		assign("formatter", 45, 35, 45, false, func(id string, lower bool) Level {
			return Level{"formatter": g.scalar("formatter", lower, false)}
		})
	}
	assign("force-file-write", 45, 35, 45, false, func(id string, lower bool) Level {
		return Level{"force-file-write": g.pct("ffw-value", 65)}
	})

	// two configs entries of one interface must not produce the same mock twice
	seen := map[string]bool{}
	for _, m := range c.mocks() {
		k := m.path + "\x00" + m.pkg + "." + m.iface + "\x00" + m.structname
		if seen[k] && m.leaf != "" {
			c.lv(m.leaf)["structname"] = g.scalar("structname", true, true)
			continue
		}
		seen[k] = true
	}

	// ---- schemas, pre-existing files, expected outcome -------------------------------------------
	files := c.xfiles()
	paths2 := sortedKeys(files)
	fail := ""
	if g.pct("expected-failure", 14) && len(paths2) > 0 {
		fail = g.pick("failure-kind", "force-file-write", "schema")
	}
	victim := ""
	if fail != "" {
		var cands []string
		for _, p := range paths2 {
			f := files[p]
			if (fail == "force-file-write" && !f.ffw && !f.srcDir) || (fail == "schema" && f.require) {
				cands = append(cands, p)
			}
		}
		if len(cands) == 0 {
			fail = ""
		} else {
			victim = cands[g.uni("victim", len(cands))]
		}
	}
	c.WantFail = fail
	for _, p := range paths2 {
		f := files[p]
		if f.require && !(fail == "schema" && (p == victim || (files[victim].owner == f.owner && files[victim].schemaID == f.schemaID))) {
			l := c.lv(f.owner)
			td, _ := l["template-data"].(map[string]any)
			if td == nil {
				td = map[string]any{}
				l["template-data"] = td
			}
			td[reqKey(f.schemaID)] = float64(1)
		}
		switch {
		case fail == "force-file-write" && p == victim:
			c.Preexist = append(c.Preexist, p)
		case f.ffw && !f.srcDir && g.pct("preexisting", 50): // a stub next to the sources would break package loading
			c.Preexist = append(c.Preexist, p)
		}
	}
	return c
}
