package c08

import (
	"encoding/json"
	"os"
	"path/filepath"

	"verif/harness/vh"
)

// A structural minimiser for saved cases (development aid, not part of a campaign):
//
//	C08_MINIMISE=1 ./vcheck replay C08 <dir>
//
// greedily deletes packages, interfaces, configs entries, parameters and template-data keys from
// <dir>/case.json as long as the violation key stays the same, and writes <dir>/case.min.json.
// (rapid's own shrinking of port 2 cases is limited by the 0.5 s cost of every step.)

func cloneCase(c Case) Case {
	var out Case
	b, _ := json.Marshal(c)
	_ = json.Unmarshal(b, &out)
	return out
}

func keyOf(c Case) string {
	defer func() { _ = recover() }()
	if v := run(cloneCase(c)); v != nil {
		return v.Key
	}
	return ""
}

// deletions returns every case obtained from c by one deletion.
func deletions(c Case) []Case {
	var out []Case
	edit := func(f func(x *Case)) {
		x := cloneCase(c)
		f(&x)
		out = append(out, x)
	}
	levelDeletions := func(get func(x *Case) Level) {
		l := get(&c)
		for _, k := range sortedKeys(l) {
			k := k
			edit(func(x *Case) { delete(get(x), k) })
			if k == "template-data" {
				var walk func(path []string, m map[string]any)
				walk = func(path []string, m map[string]any) {
					for _, kk := range sortedKeys(m) {
						p := append(append([]string{}, path...), kk)
						edit(func(x *Case) {
							cur, _ := get(x)[k].(map[string]any)
							for _, s := range p[:len(p)-1] {
								cur, _ = cur[s].(map[string]any)
							}
							delete(cur, p[len(p)-1])
						})
						if sub, ok := m[kk].(map[string]any); ok {
							walk(p, sub)
						}
					}
				}
				if m, ok := l[k].(map[string]any); ok {
					walk(nil, m)
				}
			}
		}
	}
	for pi := len(c.Pkgs) - 1; pi >= 0 && len(c.Pkgs) > 1; pi-- {
		pi := pi
		edit(func(x *Case) { x.Pkgs = append(x.Pkgs[:pi], x.Pkgs[pi+1:]...) })
	}
	for pi := range c.Pkgs {
		pi := pi
		for ii := len(c.Pkgs[pi].Ifaces) - 1; ii >= 0; ii-- {
			ii := ii
			edit(func(x *Case) {
				x.Pkgs[pi].Ifaces = append(x.Pkgs[pi].Ifaces[:ii], x.Pkgs[pi].Ifaces[ii+1:]...)
			})
			for k := len(c.Pkgs[pi].Ifaces[ii].Configs) - 1; k >= 0; k-- {
				k := k
				edit(func(x *Case) {
					cf := x.Pkgs[pi].Ifaces[ii].Configs
					x.Pkgs[pi].Ifaces[ii].Configs = append(cf[:k], cf[k+1:]...)
				})
			}
		}
	}
	if c.Env != nil {
		edit(func(x *Case) { x.Env = nil })
	}
	if c.FlagLog != "" {
		edit(func(x *Case) { x.FlagLog = "" })
	}
	if c.ConfigVia != "search" {
		edit(func(x *Case) { x.ConfigVia = "search" })
	}
	for i := range c.Preexist {
		i := i
		edit(func(x *Case) { x.Preexist = append(x.Preexist[:i], x.Preexist[i+1:]...) })
	}
	levelDeletions(func(x *Case) Level { return x.Env })
	levelDeletions(func(x *Case) Level { return x.Root })
	for pi := range c.Pkgs {
		pi := pi
		if c.Pkgs[pi].Config != nil {
			edit(func(x *Case) { x.Pkgs[pi].Config = nil })
		}
		levelDeletions(func(x *Case) Level { return x.Pkgs[pi].Config })
		for ii := range c.Pkgs[pi].Ifaces {
			ii := ii
			if c.Pkgs[pi].Ifaces[ii].Config != nil {
				edit(func(x *Case) { x.Pkgs[pi].Ifaces[ii].Config = nil })
			}
			levelDeletions(func(x *Case) Level { return x.Pkgs[pi].Ifaces[ii].Config })
			for k := range c.Pkgs[pi].Ifaces[ii].Configs {
				k := k
				levelDeletions(func(x *Case) Level { return x.Pkgs[pi].Ifaces[ii].Configs[k] })
			}
		}
	}
	return out
}

func minimise(c Case) Case {
	key := keyOf(c)
	if key == "" {
		return c
	}
	for changed := true; changed; {
		changed = false
		for _, cand := range deletions(c) {
			if keyOf(cand) == key {
				c, changed = cand, true
				break
			}
		}
	}
	return c
}

func minimiseAndRun(c Case) *vh.Violation {
	m := minimise(c)
	if dir := os.Getenv("VCHECK_REPLAY"); dir != "" {
		b, _ := json.MarshalIndent(m, "", " ")
		_ = os.WriteFile(filepath.Join(dir, "case.min.json"), append(b, '\n'), 0o644)
	}
	return run(m)
}
