package c08

import (
	"fmt"
	"path"
	"sort"
	"strings"

	"gopkg.in/yaml.v3"
	"verif/harness/vh"
)

// ---- the scratch module and the rendered configuration ------------------------------------------

func moduleFiles(extraTypes []string) map[string]string {
	files := map[string]string{"go.mod": "module " + modPath + "\n\ngo 1.23\n"}
	for _, d := range layout {
		files[d+"/x.go"] = fmt.Sprintf("package %s\n\nimport \"%s/tp\"\n\n// Item is a local named type: a mock outside the package has to qualify it\ntype Item struct{ N int }\n\ntype A interface{ Fa(x tp.T0, y Item) Item }\ntype B interface{ Fb(x tp.T0, y Item) Item }\ntype C interface{ Fc(x tp.T0, y Item) Item }\n", path.Base(d), modPath)
	}
	tp := "package tp\n\ntype T0 struct{}\ntype T1 struct{}\n"
	for _, t := range extraTypes {
		tp += "type " + t + " struct{}\n"
	}
	files["tp/tp.go"] = tp
	return files
}

func (c *Case) yamlConfig() string {
	root := map[string]any{}
	for k, v := range c.Root {
		root[k] = deepCopy(v)
	}
	pk := map[string]any{}
	for _, p := range c.Pkgs {
		if p.Null {
			pk[modPath+"/"+p.Path] = nil
			continue
		}
		m := map[string]any{}
		if p.Config != nil {
			m["config"] = deepCopy(p.Config)
		}
		if len(p.Ifaces) > 0 {
			im := map[string]any{}
			for _, i := range p.Ifaces {
				if i.Null {
					im[i.Name] = nil
					continue
				}
				x := map[string]any{}
				if i.Config != nil {
					x["config"] = deepCopy(i.Config)
				}
				if i.Configs != nil {
					l := make([]any, len(i.Configs))
					for k, cf := range i.Configs {
						l[k] = deepCopy(cf)
					}
					x["configs"] = l
				}
				im[i.Name] = x
			}
			m["interfaces"] = im
		}
		pk[modPath+"/"+p.Path] = m
	}
	root["packages"] = pk
	b, err := yaml.Marshal(root)
	if err != nil {
		vh.Infra("yaml marshal: %v", err)
	}
	return string(b)
}

const decoyConfig = "dir: zqd999999\nstructname: Zqs999998\ntemplate-data:\n  k1: zqv999997\npackages:\n  " + modPath + "/pd:\n"

func envName(param string) string {
	return "MOCKERY_" + strings.ToUpper(strings.ReplaceAll(param, "-", "_"))
}

// invocation returns the files to add, the environment and the arguments that present the case's
// configuration to mockery through the drawn sources.
func (c *Case) invocation(sub string) (files map[string]string, env []string, args []string) {
	files = map[string]string{}
	if sub != "" {
		args = append(args, sub)
	}
	for _, k := range sortedKeys(c.Env) {
		v := c.Env[k]
		var s string
		switch x := v.(type) {
		case bool:
			s = [][]string{{"false", "False", "FALSE"}, {"true", "True", "TRUE"}}[map[bool]int{false: 0, true: 1}[x]][c.BoolStyle%3]
		default:
			s = fmt.Sprint(x)
		}
		env = append(env, envName(k)+"="+s)
	}
	switch c.ConfigVia {
	case "flag":
		files["cfg/real.yml"] = c.yamlConfig()
		args = append(args, "--config", "cfg/real.yml")
	case "env":
		files["cfg/real.yml"] = c.yamlConfig()
		env = append(env, "MOCKERY_CONFIG=cfg/real.yml")
	case "flag+env":
		files["cfg/real.yml"] = c.yamlConfig()
		files["cfg/decoy.yml"] = decoyConfig
		args = append(args, "--config", "cfg/real.yml")
		env = append(env, "MOCKERY_CONFIG=cfg/decoy.yml")
	default:
		files[".mockery.yml"] = c.yamlConfig()
	}
	if c.FlagLog != "" {
		args = append(args, "--log-level", c.FlagLog)
	}
	return
}

// ---- comparison of one printed level with the model ---------------------------------------------

type checker struct {
	c       *Case
	port    string
	writers map[int][]string
	files   map[string]string
	obs     string
}

func (ck *checker) fail(key, format string, a ...any) *vh.Violation {
	return vh.Violate(ck.port+"/"+key, format, a...).With(ck.files, ck.obs)
}

// kindOfValue names the kind of level whose marker the observed value carries.
func (ck *checker) kindOfValue(param string, v any) string {
	ms := map[int]bool{}
	markersIn(v, ms)
	var ns []int
	for n := range ms {
		ns = append(ns, n)
	}
	sort.Ints(ns)
	for _, n := range ns {
		if ws := ck.writers[n]; len(ws) > 0 {
			return kindOf(ws[0])
		}
		return "unknown-marker"
	}
	if d, ok := defaults[param]; ok && norm(d) == norm(v) {
		return "default"
	}
	if b, ok := v.(bool); ok {
		return fmt.Sprint(b)
	}
	return "other"
}

func flatten(prefix string, v any, out map[string]string) {
	if m, ok := v.(map[string]any); ok && len(m) > 0 {
		for k, e := range m {
			flatten(prefix+"/"+k, e, out)
		}
		return
	}
	out[prefix] = norm(v)
}

func lookupPath(v any, p string) any {
	for _, k := range strings.Split(strings.TrimPrefix(p, "/"), "/") {
		m, ok := v.(map[string]any)
		if !ok {
			return nil
		}
		v = m[k]
	}
	return v
}

func idsOf(alts [][]node) map[string]bool {
	ids := map[string]bool{}
	for _, ch := range alts {
		for _, n := range ch {
			ids[n.ID] = true
		}
	}
	return ids
}

// leak rule: a marker may appear only at or below the level where it was written.
func (ck *checker) leak(where, atKind string, params []string, got map[string]any, allowed map[string]bool) *vh.Violation {
	for _, p := range params {
		ms := map[int]bool{}
		markersIn(got[p], ms)
		var ns []int
		for n := range ms {
			ns = append(ns, n)
		}
		sort.Ints(ns)
		for _, n := range ns {
			ws := ck.writers[n]
			ok := false
			for _, w := range ws {
				if allowed[w] {
					ok = true
				}
			}
			if ok {
				continue
			}
			from := "nowhere"
			if len(ws) > 0 {
				from = kindOf(ws[0])
			}
			return ck.fail(fmt.Sprintf("%s/leak:from@%s:into@%s", p, from, atKind),
				"%s: parameter %s shows marker #%d, which was written at %v — not at or above this level (levels that may contribute here: %v)",
				where, p, n, ws, sortedKeys(allowed))
		}
	}
	return nil
}

// compare judges one printed (or consumed) level against the admitted resolution chains.
func (ck *checker) compare(where, atKind string, got map[string]any, alts [][]node, params []string) *vh.Violation {
	if v := ck.leak(where, atKind, params, got, idsOf(alts)); v != nil {
		return v
	}
	effs := make([]Eff, len(alts))
	for i, ch := range alts {
		effs[i] = resolve(ch)
	}
	sfx := ""
	if len(alts) > 1 {
		sfx = ":below-recursive-ancestor"
	}
	for _, p := range params {
		switch p {
		case "template-data":
			gtd, _ := got[p].(map[string]any)
			if gtd == nil {
				gtd = map[string]any{}
			}
			gf := map[string]string{}
			flatten("", gtd, gf)
			mfs := make([]map[string]string, len(effs))
			for i, e := range effs {
				mfs[i] = map[string]string{}
				flatten("", e.V[p], mfs[i])
			}
			for _, lp := range sortedKeys(gf) {
				if lp == "" {
					continue // empty map
				}
				ok, present := false, false
				for _, mf := range mfs {
					if mv, in := mf[lp]; in {
						present = true
						if mv == gf[lp] {
							ok = true
						}
					}
				}
				if ok {
					continue
				}
				depth := strings.Count(lp, "/")
				if !present {
					return ck.fail(fmt.Sprintf("template-data/at@%s:extra-key:depth=%d:got@%s%s", atKind, depth, ck.kindOfValue(p, lookupPath(gtd, lp)), sfx),
						"%s: template-data has %s = %s, which no level of its chain sets\nmodel: %s\nobserved: %s", where, lp, gf[lp], norm(effs[0].V[p]), norm(gtd))
				}
				return ck.fail(fmt.Sprintf("template-data/at@%s:wrong-value:depth=%d:want@%s:got@%s%s", atKind, depth, ck.kindOfValue(p, lookupPath(effs[0].V[p], lp)), ck.kindOfValue(p, lookupPath(gtd, lp)), sfx),
					"%s: template-data %s = %s, model says %s\nmodel: %s\nobserved: %s", where, lp, gf[lp], mfs[0][lp], norm(effs[0].V[p]), norm(gtd))
			}
			for _, lp := range sortedKeys(mfs[0]) {
				if lp == "" {
					continue
				}
				inAll := true
				for _, mf := range mfs {
					if _, in := mf[lp]; !in {
						inAll = false
					}
				}
				if _, in := gf[lp]; inAll && !in {
					// a map printed where the model has a leaf (or vice versa) also lands here
					return ck.fail(fmt.Sprintf("template-data/at@%s:missing-key:depth=%d:want@%s%s", atKind, strings.Count(lp, "/"), ck.kindOfValue(p, lookupPath(effs[0].V[p], lp)), sfx),
						"%s: template-data lacks %s = %s\nmodel: %s\nobserved: %s", where, lp, mfs[0][lp], norm(effs[0].V[p]), norm(gtd))
				}
			}
		case "replace-type":
			gents := rtEntries(Level{"replace-type": got[p]})
			type exp struct {
				must map[rtKey]string
				may  map[rtKey]map[string]bool
				from string
			}
			exps := make([]exp, len(alts))
			for i, ch := range alts {
				exps[i].must, exps[i].may, exps[i].from = rtExpect(ch)
			}
			var gks []rtKey
			for k := range gents {
				gks = append(gks, k)
			}
			sort.Slice(gks, func(i, j int) bool { return gks[i].pkg+gks[i].typ < gks[j].pkg+gks[j].typ })
			for _, k := range gks {
				ok := false
				for _, e := range exps {
					if e.must[k] == gents[k] || e.may[k][gents[k]] {
						ok = true
					}
				}
				if !ok {
					return ck.fail(fmt.Sprintf("replace-type/at@%s:wrong-or-extra-entry:got@%s%s", atKind, ck.kindOfValue(p, gents[k]), sfx),
						"%s: replace-type entry %s.%s = %s is not what the most specific level that sets it says (required %v, admitted %v)", where, k.pkg, k.typ, gents[k], exps[0].must, exps[0].may)
				}
			}
			var mks []rtKey
			for k := range exps[0].must {
				mks = append(mks, k)
			}
			sort.Slice(mks, func(i, j int) bool { return mks[i].pkg+mks[i].typ < mks[j].pkg+mks[j].typ })
			for _, k := range mks {
				inAll := true
				for _, e := range exps {
					if _, in := e.must[k]; !in {
						inAll = false
					}
				}
				if _, in := gents[k]; inAll && !in {
					return ck.fail(fmt.Sprintf("replace-type/at@%s:missing-entry:want@%s%s", atKind, kindOf(exps[0].from), sfx),
						"%s: replace-type lacks the entry %s.%s = %s written at %s (observed %s)", where, k.pkg, k.typ, exps[0].must[k], exps[0].from, norm(got[p]))
				}
			}
		default:
			gv, present := got[p]
			if !present {
				return ck.fail(fmt.Sprintf("%s/at@%s:not-printed", p, atKind), "%s: parameter %s is not in the output", where, p)
			}
			if p == listParam && gv == nil {
				gv = []any{}
			}
			ok := false
			for _, e := range effs {
				if norm(gv) == norm(e.V[p]) {
					ok = true
				}
				if e.From[p] == "default" {
					if alt, has := altDefaults[p]; has && norm(gv) == norm(alt) {
						ok = true
					}
				}
			}
			if !ok {
				return ck.fail(fmt.Sprintf("%s/at@%s:want@%s:got@%s%s", p, atKind, kindOf(effs[0].From[p]), ck.kindOfValue(p, gv), sfx),
					"%s: %s = %s, but the most specific level that sets it (%s) says %s", where, p, norm(gv), effs[0].From[p], norm(effs[0].V[p]))
			}
		}
	}
	return nil
}

// ---- port 1 -------------------------------------------------------------------------------------

func asMap(v any) map[string]any {
	m, _ := v.(map[string]any)
	return m
}

func normaliseErr(s string) string {
	s = markerRe.ReplaceAllString(s, "<m>")
	s = vh.Trunc(s, 160)
	return s
}

func lastError(stderr string) string {
	lines := strings.Split(strings.TrimSpace(stderr), "\n")
	for i := len(lines) - 1; i >= 0; i-- {
		l := lines[i]
		if strings.Contains(l, " ERR ") || strings.Contains(l, " FTL ") || strings.HasPrefix(l, "Error:") || strings.HasPrefix(l, "panic:") {
			if j := strings.Index(l, " ERR "); j >= 0 {
				l = l[j+5:]
			} else if j := strings.Index(l, " FTL "); j >= 0 {
				l = l[j+5:]
			}
			if j := strings.Index(l, " version="); j >= 0 {
				l = l[:j]
			}
			return l
		}
	}
	return ""
}

func (c *Case) topChainWithFlag() []node {
	ch := c.topChain()
	if c.FlagLog != "" {
		ch = append([]node{{"flag", Level{"log-level": c.FlagLog}}}, ch...)
	}
	return ch
}

func runPort1(c *Case) *vh.Violation {
	d := vh.NewScratch()
	defer vh.RemoveAll(d)
	files := moduleFiles(nil)
	cfgFiles, env, args := c.invocation("showconfig")
	for k, v := range cfgFiles {
		files[k] = v
	}
	vh.WriteFiles(d, files)
	res := vh.Mockery(d, env, args...)
	if res.TimedOut {
		vh.Infra("showconfig timed out")
	}
	shown := map[string]string{}
	for k, v := range cfgFiles {
		shown[k] = v
	}
	shown["cmd.txt"] = fmt.Sprintf("env: %v\nmockery %s\n", env, strings.Join(args, " "))
	ck := &checker{c: c, port: "showconfig", writers: c.writers(), files: shown}
	ck.writers[999999], ck.writers[999998], ck.writers[999997] = []string{"decoy-file"}, []string{"decoy-file"}, []string{"decoy-file"}
	ck.obs = fmt.Sprintf("exit %d\n--- stdout\n%s\n--- stderr (non-debug)\n%s", res.Exit, vh.Trunc(res.Stdout, 20000), vh.Trunc(nonDebug(res.Stderr), 3000))
	if res.Panicked() {
		return ck.fail("panic", "showconfig panicked on a valid configuration")
	}
	if res.Exit != 0 {
		return ck.fail("exit/"+normaliseErr(lastError(res.Stderr)), "showconfig exited %d on a valid configuration", res.Exit)
	}
	var out map[string]any
	if err := yaml.Unmarshal([]byte(res.Stdout), &out); err != nil {
		return ck.fail("output-not-yaml", "showconfig output does not parse as YAML: %v", err)
	}
	// top level
	rootGot := asMap(out["Config"])
	if rootGot == nil {
		return ck.fail("no-root", "no top-level Config block in the output")
	}
	if c.ConfigVia == "flag+env" {
		// which file was loaded: the flag must win over the environment
		if strings.Contains(res.Stdout, "zqd999999") || strings.Contains(res.Stdout, "Zqs999998") || strings.Contains(res.Stdout, "zqv999997") {
			return ck.fail("config/flag+env:file-from-env-loaded", "--config names cfg/real.yml and MOCKERY_CONFIG names cfg/decoy.yml: the values of the decoy file are in effect (flags must take precedence over environment variables)")
		}
	}
	if v := ck.compare("top level", "root", rootGot, [][]node{c.topChainWithFlag()}, append(append([]string{}, allJudged...), topOnlyParams...)); v != nil {
		return v
	}
	pkgsGot := asMap(out["packages"])
	// which packages are present
	for _, dir := range layout {
		full := modPath + "/" + dir
		_, printed := pkgsGot[full]
		want := "must"
		if c.listed(dir) == nil {
			want = c.discovered(dir)
		}
		switch {
		case want == "must" && !printed:
			return ck.fail("packages/missing:"+map[bool]string{true: "listed", false: "discovered-sub-package"}[c.listed(dir) != nil], "package %s is not in the merged tree", full)
		case want == "never" && printed:
			return ck.fail("packages/unexpected-sub-package", "package %s is in the merged tree although no recursive listed package includes it (or its exclude-subpkg-regex excludes it)", full)
		case want == "maybe":
			vh.DontCare("sub-package-below-nested-listed-packages")
		}
	}
	for _, full := range sortedKeys(pkgsGot) {
		if !strings.HasPrefix(full, modPath+"/") {
			return ck.fail("packages/unknown", "unknown package %s in the merged tree", full)
		}
		dir := strings.TrimPrefix(full, modPath+"/")
		known := false
		for _, l := range layout {
			if l == dir {
				known = true
			}
		}
		if !known {
			return ck.fail("packages/unknown", "unknown package %s in the merged tree", full)
		}
		pg := asMap(pkgsGot[full])
		alts := c.pkgChains(dir)
		if len(alts) == 0 {
			continue // reported above
		}
		kind := "package"
		p := c.listed(dir)
		if p == nil {
			kind = "sub-package"
		}
		if len(alts) > 1 {
			vh.DontCare("package-below-recursive-listed-ancestor")
		}
		if v := ck.compare("package "+dir, kind, asMap(pg["config"]), alts, allJudged); v != nil {
			return v
		}
		ig := asMap(pg["interfaces"])
		var wantIf []string
		if p != nil {
			for _, i := range p.Ifaces {
				wantIf = append(wantIf, i.Name)
			}
		}
		sort.Strings(wantIf)
		if norm(sortedKeys(ig)) != norm(wantIf) {
			return ck.fail("interfaces/set-differs:"+kind, "package %s: interfaces in the merged tree %v, configured %v", dir, sortedKeys(ig), wantIf)
		}
		if p == nil {
			continue
		}
		for _, i := range p.Ifaces {
			x := asMap(ig[i.Name])
			inode := node{"if:" + dir + "." + i.Name, i.Config}
			ialts := make([][]node, len(alts))
			for k, ch := range alts {
				ialts[k] = append([]node{inode}, ch...)
			}
			if v := ck.compare(fmt.Sprintf("interface %s.%s config", dir, i.Name), "interface", asMap(x["config"]), ialts, allJudged); v != nil {
				return v
			}
			cg, _ := x["configs"].([]any)
			n := len(i.Configs)
			if n == 0 {
				n = 1
			}
			if len(cg) != n {
				return ck.fail("configs/count", "interface %s.%s: %d configs entries in the merged tree, want %d", dir, i.Name, len(cg), n)
			}
			for k := 0; k < n; k++ {
				calts := ialts
				if len(i.Configs) > 0 {
					cnode := node{fmt.Sprintf("cfg:%s.%s.%d", dir, i.Name, k), i.Configs[k]}
					calts = make([][]node, len(ialts))
					for a, ch := range ialts {
						calts[a] = append([]node{cnode}, ch...)
					}
				}
				if v := ck.compare(fmt.Sprintf("interface %s.%s configs[%d]", dir, i.Name, k), "configs", asMap(cg[k]), calts, allJudged); v != nil {
					return v
				}
			}
		}
	}
	return nil
}

func nonDebug(stderr string) string {
	var out []string
	for _, l := range strings.Split(stderr, "\n") {
		if !strings.Contains(l, " DBG ") {
			out = append(out, l)
		}
	}
	return strings.Join(out, "\n")
}
