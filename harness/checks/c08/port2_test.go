package c08

import (
	"encoding/json"
	"fmt"
	"os"
	"path"
	"path/filepath"
	"regexp"
	"sort"
	"strings"

	"verif/harness/vh"
)

// ---- model of a run -----------------------------------------------------------------------------

type xmock struct {
	pkg, iface string // package directory, interface name
	leaf       string // id of the most specific level of the mock ("" = unlisted interface: package config)
	ifaceNode  string // id of the interface level ("" = unlisted)
	chain      []node
	pkgChain   []node
	eff        Eff
	dir, file  string
	path       string
	structname string
}

type xfile struct {
	path     string
	mocks    []*xmock
	owner    string // id of the package-level node whose template-data is the file-level template-data
	pkgname  string
	template string // marker id of the template (zqtN)
	schemaID string
	require  bool
	fmtr     string
	ffw      bool
	uniform  bool
	srcDir   bool // written into the directory of the source package
	inPkg    bool // part of the source package: srcDir and pkgname == the source package's name
}

func expand(s, pkgDir, iface, tmpl string) string {
	// {{.InterfaceDir}} is the (absolute) source directory; the model works with paths relative to the module root
	r := strings.NewReplacer("{{.SrcPackageName}}", path.Base(pkgDir), "{{.InterfaceName}}", iface, "{{.Mock}}", "Mock", "{{.Template}}", tmpl, "{{.InterfaceDir}}", pkgDir)
	return r.Replace(s)
}

func str(v any) string { s, _ := v.(string); return s }

func selected(e Eff, name string) bool {
	if b, _ := e.V["all"].(bool); b {
		return true
	}
	inc, exc := str(e.V["include-interface-regex"]), str(e.V["exclude-interface-regex"])
	if inc == "" {
		return false
	}
	if ok, _ := regexp.MatchString(inc, name); !ok {
		return false
	}
	if exc != "" {
		if ok, _ := regexp.MatchString(exc, name); ok {
			return false
		}
	}
	return true
}

// mocks lists every mock the configuration asks for, with its resolution chain.
func (c *Case) mocks() []*xmock {
	var out []*xmock
	add := func(m *xmock) {
		m.eff = resolve(m.chain)
		m.dir = expand(str(m.eff.V["dir"]), m.pkg, m.iface, "")
		m.file = expand(str(m.eff.V["filename"]), m.pkg, m.iface, "")
		m.path = path.Clean(m.dir + "/" + m.file)
		m.structname = expand(str(m.eff.V["structname"]), m.pkg, m.iface, "")
		out = append(out, m)
	}
	for _, dir := range layout {
		p := c.listed(dir)
		if p == nil && c.discovered(dir) != "must" {
			continue
		}
		pch := c.pkgChains(dir)[0]
		pe := resolve(pch)
		for _, name := range ifaceNames {
			var ic *Iface
			if p != nil {
				for ii := range p.Ifaces {
					if p.Ifaces[ii].Name == name {
						ic = &p.Ifaces[ii]
					}
				}
			}
			if ic == nil {
				if selected(pe, name) {
					add(&xmock{pkg: dir, iface: name, chain: pch, pkgChain: pch})
				}
				continue
			}
			inode := node{"if:" + dir + "." + name, ic.Config}
			ich := append([]node{inode}, pch...)
			if len(ic.Configs) == 0 {
				add(&xmock{pkg: dir, iface: name, leaf: inode.ID, ifaceNode: inode.ID, chain: ich, pkgChain: pch})
				continue
			}
			for k, cf := range ic.Configs {
				cn := node{fmt.Sprintf("cfg:%s.%s.%d", dir, name, k), cf}
				add(&xmock{pkg: dir, iface: name, leaf: cn.ID, ifaceNode: inode.ID, chain: append([]node{cn}, ich...), pkgChain: pch})
			}
		}
	}
	return out
}

var idRe = regexp.MustCompile(`zq[a-z]\d+`)

func (c *Case) xfiles() map[string]*xfile {
	files := map[string]*xfile{}
	for _, m := range c.mocks() {
		tmpl := str(m.eff.V["template"])
		schema := expand(str(m.eff.V["template-schema"]), m.pkg, m.iface, tmpl)
		req, _ := m.eff.V["require-template-schema-exists"].(bool)
		ffw, _ := m.eff.V["force-file-write"].(bool)
		f := &xfile{path: m.path, pkgname: expand(str(m.eff.V["pkgname"]), m.pkg, m.iface, ""), template: idRe.FindString(tmpl),
			schemaID: idRe.FindString(schema), require: req, fmtr: str(m.eff.V["formatter"]), ffw: ffw, uniform: true, owner: m.pkgChain[0].ID}
		f.srcDir = path.Clean(m.dir) == m.pkg
		f.inPkg = f.srcDir && f.pkgname == path.Base(m.pkg)
		if old, ok := files[m.path]; ok {
			if old.pkgname != f.pkgname || old.template != f.template || old.schemaID != f.schemaID || old.require != f.require || old.fmtr != f.fmtr || old.ffw != f.ffw || old.mocks[0].pkg != m.pkg {
				old.uniform = false
			}
			old.mocks = append(old.mocks, m)
			continue
		}
		f.mocks = []*xmock{m}
		files[m.path] = f
	}
	return files
}

// ---- probe templates ----------------------------------------------------------------------------

// The probe prints a banner naming itself, the package clause, deliberately unformatted Go with an
// unused import (tells the three formatters apart), the file-level template-data and, per mock, the
// interface name, struct name, interface-level template-data and the parameter types.
func probeTemplate(id string) string {
	return `{{- define "dump" -}}
{{- $t := printf "%T" . -}}
{{- if or (eq $t "map[string]interface {}") (eq $t "template.TemplateData") -}}
{ {{- range $k, $v := . }}{{ printf "%q" $k }}:{{ template "dump" $v }},{{ end -}} }
{{- else if eq $t "[]interface {}" -}}
[ {{- range . }}{{ template "dump" . }},{{ end -}} ]
{{- else -}}
{{- printf "%#v" . -}}
{{- end -}}
{{- end -}}
// PROBE ` + id + `
package {{.PkgName}}

import "os"
import   "fmt"

// FILETD {{ template "dump" .TemplateData }}
{{- range .Interfaces }}
// MOCK PKG={{ $.Registry.SrcPkgName }} SRC={{ $.SrcPkgQualifier }} NAME={{ .Name }} STRUCT={{ .StructName }} TD={{ template "dump" .TemplateData }} TYPES={{ range .Methods }}{{ range .Params }}{{ .TypeString }};{{ end }}{{ range .Returns }}{{ .TypeString }};{{ end }}{{ end }}
{{- end }}

import (
{{- range .Imports }}
	{{ .ImportStatement }}
{{- end }}
)
{{ range .Interfaces }}{{ $s := .StructName }}
type {{ $s }} struct{}
{{ range .Methods }}
func (m *{{ $s }}) {{ .Name }}({{ .ArgList }}) {{ .ReturnArgTypeList }} { panic("probe") }
{{ end }}{{ end }}
func   probeFmt{{ (index .Interfaces 0).StructName }}( )  {fmt.Println( "x" )}
`
}

func schemaFile(id string) string {
	return `{"$schema":"http://json-schema.org/draft-07/schema#","type":"object","required":["` + reqKey(id) + `"]}` + "\n"
}

// reqKey is the template-data key a schema requires (not marker-shaped: it is written at package level).
func reqKey(id string) string { return "rq_" + strings.TrimPrefix(id, "zq") }

const preexisting = "// PREEXISTING\npackage old\n"

var trailingComma = regexp.MustCompile(`,([}\]])`)

func parseDump(s string) (any, error) {
	var v any
	err := json.Unmarshal([]byte(trailingComma.ReplaceAllString(s, "$1")), &v)
	return v, err
}

type omock struct {
	src, qual, name, structname string // src: name of the source package; qual: the qualifier handed to the template
	td                    map[string]any
	types                 string
	file                  string
}

var mockLine = regexp.MustCompile(`(?m)^// MOCK PKG=(\S+) SRC=(\S*) NAME=(\S+) STRUCT=(\S*) TD=(.*) TYPES=(\S*)$`)

// ---- port 2 -------------------------------------------------------------------------------------

func (ck *checker) wantKind(e Eff, param string) string { return kindOf(e.From[param]) }

func runPort2(c *Case) *vh.Violation {
	files := c.xfiles()
	for _, f := range files {
		// outside the domain of this port: mocks sharing a file that disagree on a per-file parameter
		// (conflicts belong to C09), a built-in template, output inside the source package
		if !f.uniform || f.template == "" || !(strings.HasPrefix(f.path, "out/") || f.srcDir) {
			vh.Invalid()
			return nil
		}
	}
	// class labels of the consumption port
	{
		shared, unlisted, sub, lower := false, false, false, map[string]bool{}
		for _, f := range files {
			if len(f.mocks) > 1 {
				shared = true
			}
			for _, m := range f.mocks {
				if m.leaf == "" {
					unlisted = true
				}
				if c.listed(m.pkg) == nil {
					sub = true
				}
				for _, p := range []string{"pkgname", "template", "template-schema", "require-template-schema-exists", "formatter", "force-file-write", "dir", "filename", "structname"} {
					if k := kindOf(m.eff.From[p]); k == "interface" || k == "configs" || k == "package" || k == "env" {
						lower["run:"+p+"-from@"+k] = true
					}
				}
				if len(rtEntries(Level{"replace-type": nil})) == 0 {
					if must, _, from := rtExpect(m.chain); len(must) > 0 {
						lower["run:replace-type-from@"+kindOf(from)] = true
					}
				}
			}
		}
		cl := []string{fmt.Sprintf("run:files=%d", min(len(files), 6))}
		for _, f := range files {
			switch {
			case f.inPkg:
				lower["run:file-in-source-package"] = true
			case f.srcDir:
				lower["run:file-in-source-dir-other-package-name"] = true
			}
			if k := kindOf(f.mocks[0].eff.From["pkgname"]); f.srcDir && (k == "interface" || k == "configs") {
				pk := expand(str(resolve(f.mocks[0].pkgChain).V["pkgname"]), f.mocks[0].pkg, "", "")
				if (pk == path.Base(f.mocks[0].pkg)) != f.inPkg {
					lower["run:in-package-decision-differs-from-package-level-pkgname"] = true
				}
			}
		}
		if shared {
			cl = append(cl, "run:file-shared-by-mocks")
		}
		if unlisted {
			cl = append(cl, "run:unlisted-interface-mock")
		}
		if sub {
			cl = append(cl, "run:discovered-sub-package-mock")
		}
		cl = append(cl, sortedKeys(lower)...)
		vh.Class(cl...)
	}
	d := vh.NewScratch()
	defer vh.RemoveAll(d)

	// the scratch module, the probes and schemas named anywhere in the case, pre-existing outputs
	var rtypes []string
	templates, schemas := map[string]bool{}, map[string]bool{}
	scan := func(l Level) {
		if t := idRe.FindString(str(l["template"])); t != "" {
			templates[t] = true
		}
		if s := idRe.FindString(str(l["template-schema"])); s != "" {
			schemas[s] = true
		}
		for _, v := range rtEntries(l) {
			if m := regexp.MustCompile(`Zqr\d+`).FindString(v); m != "" {
				rtypes = append(rtypes, m)
			}
		}
	}
	scan(c.Env)
	scan(c.Root)
	for _, p := range c.Pkgs {
		scan(p.Config)
		for _, i := range p.Ifaces {
			scan(i.Config)
			for _, cf := range i.Configs {
				scan(cf)
			}
		}
	}
	sort.Strings(rtypes)
	tree := moduleFiles(rtypes)
	for t := range templates {
		tree["tpl/"+t+".templ"] = probeTemplate(t)
		tree["tpl/"+t+".templ.schema.json"] = schemaFile(t)
	}
	for s := range schemas {
		tree["sch/"+s+".json"] = schemaFile(s)
	}
	cfgFiles, env, args := c.invocation("")
	shown := map[string]string{}
	for k, v := range cfgFiles {
		tree[k], shown[k] = v, v
	}
	for _, p := range c.Preexist {
		tree[p] = preexisting
	}
	vh.WriteFiles(d, tree)
	res := vh.Mockery(d, env, args...)
	if res.TimedOut {
		vh.Infra("mockery timed out")
	}

	// observation
	produced := map[string]string{}
	_ = filepath.Walk(filepath.Join(d, "out"), func(p string, info os.FileInfo, err error) error {
		if err == nil && info.Mode().IsRegular() {
			rel, _ := filepath.Rel(d, p)
			b, _ := os.ReadFile(p)
			produced[filepath.ToSlash(rel)] = string(b)
		}
		return nil
	})
	for _, dir := range layout { // outputs written next to the sources
		ents, _ := os.ReadDir(filepath.Join(d, dir))
		for _, e := range ents {
			if e.Type().IsRegular() && e.Name() != "x.go" {
				b, _ := os.ReadFile(filepath.Join(d, dir, e.Name()))
				produced[dir+"/"+e.Name()] = string(b)
			}
		}
	}
	shown["cmd.txt"] = fmt.Sprintf("env: %v\nmockery %s\npre-existing: %v\n", env, strings.Join(args, " "), c.Preexist)
	ck := &checker{c: c, port: "run", writers: c.writers(), files: shown}
	var ob strings.Builder
	fmt.Fprintf(&ob, "exit %d\n--- expected output files (model)\n", res.Exit)
	for _, p := range sortedKeys(files) {
		f := files[p]
		fmt.Fprintf(&ob, "%s: pkgname=%s template=%s schema=%s require=%v formatter=%s force-file-write=%v\n", p, f.pkgname, f.template, f.schemaID, f.require, f.fmtr, f.ffw)
		for _, m := range f.mocks {
			fmt.Fprintf(&ob, "    %s.%s as %s template-data=%s\n", m.pkg, m.iface, m.structname, norm(m.eff.V["template-data"]))
		}
	}
	ob.WriteString("--- produced files\n")
	for _, p := range sortedKeys(produced) {
		fmt.Fprintf(&ob, "===== %s\n%s\n", p, vh.Trunc(produced[p], 3000))
	}
	ob.WriteString("--- stderr (non-debug)\n" + vh.Trunc(nonDebug(res.Stderr), 4000))
	ck.obs = ob.String()

	if res.Panicked() {
		return ck.fail("panic", "mockery panicked on a valid configuration")
	}
	isPre := map[string]bool{}
	for _, p := range c.Preexist {
		isPre[p] = true
	}

	// ---- expected failure (by the model): a protected pre-existing file, or template-data that
	// lacks the key required by the schema in force
	satisfied := func(f *xfile) bool {
		if _, has := asMap(resolve(f.mocks[0].pkgChain).V["template-data"])[reqKey(f.schemaID)]; !has {
			return false
		}
		for _, m := range f.mocks {
			if _, has := asMap(m.eff.V["template-data"])[reqKey(f.schemaID)]; !has {
				return false
			}
		}
		return true
	}
	wantFail := false
	for _, p := range sortedKeys(files) {
		f := files[p]
		if (isPre[p] && !f.ffw) || (f.require && !satisfied(f)) {
			wantFail = true
		}
	}
	if wantFail {
		if res.Exit == 0 {
			{
				for _, p := range c.Preexist {
					if f := files[p]; f != nil && !f.ffw {
						return ck.fail(fmt.Sprintf("force-file-write/at@file:want@%s:overwritten", ck.wantKind(f.mocks[0].eff, "force-file-write")),
							"%s existed before the run and force-file-write resolves to false (set at %s) for its mocks, yet the run succeeded and the file was replaced: %v",
							p, f.mocks[0].eff.From["force-file-write"], produced[p] != preexisting)
					}
				}
				for _, p := range sortedKeys(files) {
					f := files[p]
					if !f.require {
						continue
					}
					if !satisfied(f) {
						return ck.fail(fmt.Sprintf("schema/at@file:template-schema-want@%s:require-want@%s:not-applied", ck.wantKind(f.mocks[0].eff, "template-schema"), ck.wantKind(f.mocks[0].eff, "require-template-schema-exists")),
							"%s: the schema in force (%s, from %s; require-template-schema-exists from %s) requires the key %s, which the template-data lacks, yet the run succeeded",
							p, f.schemaID, f.mocks[0].eff.From["template-schema"], f.mocks[0].eff.From["require-template-schema-exists"], reqKey(f.schemaID))
					}
				}
			}
			return ck.fail("expected-failure/exit-0", "the run was expected to fail but exited 0")
		}
		for _, p := range c.Preexist {
			if f := files[p]; f != nil && !f.ffw && produced[p] != preexisting {
				return ck.fail("force-file-write/protected-file-changed", "%s was protected (force-file-write false) but its content changed", p)
			}
		}
		return nil
	}

	// ---- expected success -------------------------------------------------------------------------
	if res.Exit != 0 {
		msg := lastError(res.Stderr)
		errFile := ""
		if m := regexp.MustCompile(`file=(\S+)`).FindAllStringSubmatch(nonDebug(res.Stderr), -1); len(m) > 0 {
			errFile = m[len(m)-1][1]
			if rel, err := filepath.Rel(d, errFile); err == nil && !strings.HasPrefix(rel, "..") {
				errFile = filepath.ToSlash(rel)
			}
		}
		f := files[errFile]
		switch {
		case strings.Contains(res.Stderr, "output file exists") && f != nil:
			return ck.fail(fmt.Sprintf("force-file-write/at@file:want@%s:refused", ck.wantKind(f.mocks[0].eff, "force-file-write")),
				"%s: force-file-write resolves to true (set at %s) for the mocks of this file, but mockery refused to overwrite it", errFile, f.mocks[0].eff.From["force-file-write"])
		case (strings.Contains(res.Stderr, "validating schema") || strings.Contains(res.Stderr, "downloading schema") || strings.Contains(res.Stderr, "could not get JSON schema")) && f != nil:
			used := ""
			if m := regexp.MustCompile(`schema=(\S+)`).FindAllStringSubmatch(nonDebug(res.Stderr), -1); len(m) > 0 {
				used = m[len(m)-1][1]
			}
			if !f.require {
				return ck.fail(fmt.Sprintf("require-template-schema-exists/at@file:want@%s:schema-applied", ck.wantKind(f.mocks[0].eff, "require-template-schema-exists")),
					"%s: require-template-schema-exists resolves to false (set at %s) but a schema (%s) was applied and failed", errFile, f.mocks[0].eff.From["require-template-schema-exists"], used)
			}
			return ck.fail(fmt.Sprintf("template-schema/at@file:want@%s:got@%s", ck.wantKind(f.mocks[0].eff, "template-schema"), ck.kindOfValue("template-schema", used)),
				"%s: the schema in force is %s (from %s) and the template-data satisfies it, but validation failed using %s", errFile, f.schemaID, f.mocks[0].eff.From["template-schema"], used)
		}
		return ck.fail("exit/"+normaliseErr(msg), "mockery exited %d on a valid configuration (%s)", res.Exit, msg)
	}

	// every mock observed anywhere
	var observed []*omock
	for _, p := range sortedKeys(produced) {
		for _, m := range mockLine.FindAllStringSubmatch(produced[p], -1) {
			td, err := parseDump(m[5])
			if err != nil {
				vh.Infra("dump of %s does not parse: %v: %s", p, err, m[5])
			}
			observed = append(observed, &omock{src: m[1], qual: m[2], name: m[3], structname: m[4], td: asMap(td), types: m[6], file: p})
		}
	}

	// leak rule over everything a file shows
	for _, p := range sortedKeys(produced) {
		if produced[p] == preexisting {
			continue
		}
		allowed := map[string]bool{}
		for _, om := range observed {
			if om.file != p {
				continue
			}
			// the levels above any configured mock of that interface
			for _, f := range files {
				for _, m := range f.mocks {
					if path.Base(m.pkg) == om.src && m.iface == om.name {
						for _, n := range m.chain {
							allowed[n.ID] = true
						}
					}
				}
			}
		}
		if v := ck.leak("file "+p, "file", []string{"content"}, map[string]any{"content": p + "\n" + produced[p]}, allowed); v != nil {
			return v
		}
	}

	// selection: the set of (package, interface) pairs mocked
	wantSel, gotSel := map[string]int{}, map[string]int{}
	for _, f := range files {
		for _, m := range f.mocks {
			wantSel[path.Base(m.pkg)+"."+m.iface]++
		}
	}
	for _, om := range observed {
		gotSel[om.src+"."+om.name]++
	}
	for _, k := range sortedKeys(wantSel) {
		if gotSel[k] == 0 {
			return ck.fail("selection/interface-not-mocked", "%s is selected by the configuration but no mock was produced", k)
		}
		if gotSel[k] != wantSel[k] {
			return ck.fail("selection/mock-count", "%s: %d mocks produced, %d configured", k, gotSel[k], wantSel[k])
		}
	}
	for _, k := range sortedKeys(gotSel) {
		if wantSel[k] == 0 {
			return ck.fail("selection/unselected-interface-mocked", "%s was mocked although the configuration does not select it", k)
		}
	}

	// files
	for _, p := range sortedKeys(files) {
		f := files[p]
		content, ok := produced[p]
		m0 := f.mocks[0]
		if !ok {
			// where did the first mock of this file go?
			for _, om := range observed {
				if om.src == path.Base(m0.pkg) && om.name == m0.iface && files[om.file] == nil {
					if path.Dir(om.file) != path.Dir(p) {
						return ck.fail(fmt.Sprintf("dir/at@mock:want@%s:got@%s", ck.wantKind(m0.eff, "dir"), ck.kindOfValue("dir", path.Dir(om.file))),
							"mock of %s.%s: expected in %s (dir from %s), found in %s", m0.pkg, m0.iface, p, m0.eff.From["dir"], om.file)
					}
					return ck.fail(fmt.Sprintf("filename/at@mock:want@%s:got@%s", ck.wantKind(m0.eff, "filename"), ck.kindOfValue("filename", path.Base(om.file))),
						"mock of %s.%s: expected in %s (filename from %s), found in %s", m0.pkg, m0.iface, p, m0.eff.From["filename"], om.file)
				}
			}
			return ck.fail("files/missing", "expected output file %s was not produced", p)
		}
		if isPre[p] && content == preexisting {
			return ck.fail(fmt.Sprintf("force-file-write/at@file:want@%s:not-overwritten", ck.wantKind(m0.eff, "force-file-write")), "%s: force-file-write resolves to true but the pre-existing file is unchanged after a successful run", p)
		}
		// which template ran
		banner := ""
		if m := regexp.MustCompile(`(?m)^// PROBE (\S+)$`).FindStringSubmatch(content); m != nil {
			banner = m[1]
		}
		if banner != f.template {
			return ck.fail(fmt.Sprintf("template/at@file:want@%s:got@%s", ck.wantKind(m0.eff, "template"), ck.kindOfValue("template", banner)),
				"%s: rendered by template %q, but template resolves to %s (set at %s) for its mocks", p, banner, f.template, m0.eff.From["template"])
		}
		// package clause
		pk := ""
		if m := regexp.MustCompile(`(?m)^package (\S+)$`).FindStringSubmatch(content); m != nil {
			pk = m[1]
		}
		if pk != f.pkgname {
			return ck.fail(fmt.Sprintf("pkgname/at@file:want@%s:got@%s", ck.wantKind(m0.eff, "pkgname"), ck.kindOfValue("pkgname", pk)),
				"%s: package clause %q, but pkgname resolves to %q (set at %s)", p, pk, f.pkgname, m0.eff.From["pkgname"])
		}
		// which formatter ran
		ran := "goimports"
		switch {
		case strings.Contains(content, `import   "fmt"`):
			ran = "noop"
		case strings.Contains(content, `"os"`):
			ran = "gofmt"
		}
		if ran != f.fmtr {
			gotKind := "other"
			for _, n := range m0.chain {
				if str(n.L["formatter"]) == ran {
					gotKind = kindOf(n.ID)
				}
			}
			return ck.fail(fmt.Sprintf("formatter/at@file:want@%s:got@%s", ck.wantKind(m0.eff, "formatter"), gotKind),
				"%s: formatted by %s, but formatter resolves to %s (set at %s) for its mocks", p, ran, f.fmtr, m0.eff.From["formatter"])
		}
		// file-level template-data = the package level's
		ftd := map[string]any{}
		if m := regexp.MustCompile(`(?m)^// FILETD (.*)$`).FindStringSubmatch(content); m != nil {
			v, err := parseDump(m[1])
			if err != nil {
				vh.Infra("file-level dump of %s does not parse: %v", p, err)
			}
			ftd = asMap(v)
		}
		if v := ck.compare("file "+p+" (file-level template-data)", "file", map[string]any{"template-data": ftd}, [][]node{m0.pkgChain}, []string{"template-data"}); v != nil {
			return v
		}
		// the mocks in the file
		var here []*omock
		for _, om := range observed {
			if om.file == p {
				here = append(here, om)
			}
		}
		used := map[*omock]bool{}
		for _, m := range f.mocks {
			var hit *omock
			for _, om := range here {
				if !used[om] && om.src == path.Base(m.pkg) && om.name == m.iface && om.structname == m.structname {
					hit = om
					break
				}
			}
			if hit == nil {
				for _, om := range here {
					if !used[om] && om.src == path.Base(m.pkg) && om.name == m.iface {
						claimed := false
						for _, m2 := range f.mocks {
							if m2 != m && m2.iface == om.name && m2.structname == om.structname {
								claimed = true
							}
						}
						if !claimed {
							return ck.fail(fmt.Sprintf("structname/at@mock:want@%s:got@%s", ck.wantKind(m.eff, "structname"), ck.kindOfValue("structname", om.structname)),
								"%s: mock of %s.%s is named %q, but structname resolves to %q (set at %s)", p, m.pkg, m.iface, om.structname, m.structname, m.eff.From["structname"])
						}
					}
				}
				return ck.fail("mocks/missing-in-file", "%s: no mock of %s.%s named %s in this file", p, m.pkg, m.iface, m.structname)
			}
			used[hit] = true
			if v := ck.compare(fmt.Sprintf("mock %s of %s.%s in %s", m.structname, m.pkg, m.iface, p), "mock", map[string]any{"template-data": hit.td}, [][]node{m.chain}, []string{"template-data"}); v != nil {
				return v
			}
			// every consumer of pkgname/dir: the package clause (above), the in-package decision handed
			// to the template (qualifier of the source package) and the qualification of local types
			wantQual, wantItem := path.Base(m.pkg)+".", path.Base(m.pkg)+".Item"
			if f.inPkg {
				wantQual, wantItem = "", "Item"
			}
			rendered := map[bool]string{true: "in-package", false: "out-of-package"}
			if hit.qual != wantQual {
				return ck.fail(fmt.Sprintf("pkgname/at@file:source-package-qualifier:pkgname@%s:dir@%s:want-%s", ck.wantKind(m.eff, "pkgname"), ck.wantKind(m.eff, "dir"), rendered[f.inPkg]),
					"%s: pkgname resolves to %q (set at %s) and dir to %q (set at %s), so the file is %s of %s; but the template was handed the source package qualifier %q, want %q",
					p, f.pkgname, m.eff.From["pkgname"], m.dir, m.eff.From["dir"], rendered[f.inPkg], m.pkg, hit.qual, wantQual)
			}
			parts := strings.Split(strings.TrimSuffix(hit.types, ";"), ";")
			if len(parts) != 3 {
				vh.Infra("unexpected TYPES field %q in %s", hit.types, p)
			}
			if parts[1] != wantItem || parts[2] != wantItem {
				return ck.fail(fmt.Sprintf("pkgname/at@mock:local-type-qualification:pkgname@%s:dir@%s:want-%s", ck.wantKind(m.eff, "pkgname"), ck.wantKind(m.eff, "dir"), rendered[f.inPkg]),
					"%s: mock of %s.%s mentions the local type as %s / %s, but with pkgname %q (set at %s) and dir %q (set at %s) the file is %s and must say %s",
					p, m.pkg, m.iface, parts[1], parts[2], f.pkgname, m.eff.From["pkgname"], m.dir, m.eff.From["dir"], rendered[f.inPkg], wantItem)
			}
			// replaced types
			must, may, from := rtExpect(m.chain)
			k := rtKey{modPath + "/tp", "T0"}
			wantType, dontCare := "tp.T0", false
			if v, ok := must[k]; ok {
				wantType = "tp." + regexp.MustCompile(`Zqr\d+`).FindString(v)
			} else if len(may[k]) > 0 {
				dontCare = true
				vh.DontCare("replace-type-entry-only-at-a-less-specific-level")
			}
			if !dontCare && parts[0] != wantType {
				return ck.fail(fmt.Sprintf("replace-type/at@mock:want@%s:got@%s", kindOf(map[bool]string{true: from, false: "default"}[must[k] != ""]), ck.kindOfValue("replace-type", parts[0])),
					"%s: mock of %s.%s has parameter type %s, but replace-type (most specific level that sets it: %q) requires %s", p, m.pkg, m.iface, parts[0], from, wantType)
			}
		}
		if len(here) != len(f.mocks) {
			return ck.fail("mocks/extra-in-file", "%s holds %d mocks, %d configured", p, len(here), len(f.mocks))
		}
	}
	for _, p := range sortedKeys(produced) {
		if files[p] == nil && produced[p] != preexisting {
			return ck.fail("files/unexpected", "unexpected output file %s", p)
		}
	}

	// a sample of the cases: the rendered files type-check where they were written. A directory is
	// judged only if Go admits its content whatever mockery does: one package name per directory
	// (plus <name>_test in _test.go files), distinct struct names, goimports as the formatter.
	if c.TypeCheck {
		type dirInfo struct {
			ok      bool
			names   map[string]bool
			structs map[string]bool
			first   *xfile
		}
		dirs := map[string]*dirInfo{}
		for _, p := range sortedKeys(files) {
			f := files[p]
			dir := path.Dir(p)
			di := dirs[dir]
			if di == nil {
				di = &dirInfo{ok: true, names: map[string]bool{}, structs: map[string]bool{}, first: f}
				dirs[dir] = di
			}
			base := strings.TrimSuffix(f.pkgname, "_test")
			if f.srcDir {
				base = path.Base(f.mocks[0].pkg)
				if f.pkgname != base && f.pkgname != base+"_test" {
					di.ok = false
				}
			}
			di.names[base] = true
			if strings.HasSuffix(f.pkgname, "_test") && !strings.HasSuffix(p, "_test.go") {
				di.ok = false
			}
			if f.fmtr != "goimports" || strings.HasSuffix(base, "_test") || len(di.names) > 1 {
				di.ok = false
			}
			for _, m := range f.mocks {
				k := f.pkgname + "." + m.structname
				if di.structs[k] || m.structname == "Item" || len(m.structname) == 1 {
					di.ok = false
				}
				di.structs[k] = true
				if must, may, _ := rtExpect(m.chain); len(must)+len(may) > 0 {
					di.ok = false // a replaced parameter type is C13's compile question
				}
			}
		}
		// a source directory that Go rejects anyway (foreign package name written into it) also
		// breaks every file that imports that source package
		badSrc := map[string]bool{}
		for _, f := range files {
			if f.srcDir && !dirs[path.Dir(f.path)].ok {
				badSrc[f.mocks[0].pkg] = true
			}
		}
		for _, f := range files {
			if badSrc[f.mocks[0].pkg] {
				dirs[path.Dir(f.path)].ok = false
			}
		}
		var pats []string
		for _, dir := range sortedKeys(dirs) {
			if dirs[dir].ok {
				pats = append(pats, "./"+dir)
			}
		}
		vh.Class(fmt.Sprintf("run:type-checked-dirs=%d", min(len(pats), 4)))
		if len(pats) > 0 {
			if ok, diag := vh.GoVet(d, "", pats...); !ok {
				kind, blame := "other", dirs[strings.TrimPrefix(pats[0], "./")].first
				for _, k := range []string{"import cycle", "undefined", "redeclared", "imported and not used", "found packages", "does not implement"} {
					if strings.Contains(diag, k) {
						kind = strings.ReplaceAll(k, " ", "-")
						break
					}
				}
				for _, dir := range sortedKeys(dirs) {
					if dirs[dir].ok && strings.Contains(diag, dir+"/") {
						blame = dirs[dir].first
						break
					}
				}
				return ck.fail(fmt.Sprintf("typecheck/%s:pkgname@%s:dir@%s:%s", kind, ck.wantKind(blame.mocks[0].eff, "pkgname"), ck.wantKind(blame.mocks[0].eff, "dir"), map[bool]string{true: "in-package", false: "out-of-package"}[blame.inPkg]),
					"the rendered files do not type-check in %v:\n%s", pats, vh.Trunc(diag, 2000))
			}
		}
	}

	// log-level (top level by nature): flag > file > env > default
	lvl := str(resolve(c.topChainWithFlag()).V["log-level"])
	hasDBG, hasINF := strings.Contains(res.Stderr, " DBG "), strings.Contains(res.Stderr, " INF ")
	if (lvl == "debug") != hasDBG || (lvl == "debug" || lvl == "info") != hasINF {
		return ck.fail(fmt.Sprintf("log-level/want@%s", kindOf(resolve(c.topChainWithFlag()).From["log-level"])),
			"log-level resolves to %q (from %s) but stderr has debug lines: %v, info lines: %v", lvl, resolve(c.topChainWithFlag()).From["log-level"], hasDBG, hasINF)
	}
	return nil
}
