// C09 — invalid or unsatisfiable input fails loudly: non-zero exit, never a crash.
//
// FAULT ENUMERATION x RANDOM CONTEXT. The catalogue (gen_test.go) lists every fault class of the
// property at every configuration level where it applies, a set of "robustness" inputs for which the
// property fixes no exit status, and valid-but-unusual inputs. Every catalogue entry is run against
// N random valid multi-package contexts (N = -rapid.checks, i.e. quick 5 / thorough 40): the entries
// are partitioned over the shards and each entry gets its own rapid.Check, so the catalogue is
// enumerated completely in both tiers and one failing entry does not hide the others.
//
// Oracle, per case:
//   - the context without the fault must be accepted (exit 0, all expected mocks on disk); otherwise the
//     case is counted as an invalid generation and not judged (a panic is reported nevertheless);
//   - injected fault: exit status != 0, a diagnostic, no Go panic trace;
//   - every case: no panic, no timeout, and exit 0 => every mock that the valid part of the
//     configuration asks for exists on disk.
package c09

import (
	"encoding/json"
	"fmt"
	"os"
	"path/filepath"
	"regexp"
	"sort"
	"strconv"
	"strings"
	"sync"
	"testing"
	"time"

	"pgregory.net/rapid"
	"verif/harness/vh"
)

// ---- running one variant ---------------------------------------------------------------------------

type outcome struct {
	res     vh.Result
	missing []string
	tree    map[string]string
	root    string
}

func materialise(root string, common map[string]string, v Variant) map[string]string {
	all := map[string]string{}
	for k, s := range common {
		all[k] = s
	}
	for k, s := range v.Files {
		all[k] = s
	}
	vh.WriteFiles(root, all)
	for k := range all {
		if filepath.Base(k) == "go.mod" {
			vh.WriteFiles(root, map[string]string{filepath.Join(filepath.Dir(k), "go.sum"): vh.GoSum()})
		}
	}
	if err := os.MkdirAll(filepath.Join(root, v.Cwd), 0o755); err != nil {
		vh.Infra("mkdir cwd: %v", err)
	}
	return all
}

func runVariant(common map[string]string, v Variant, expect []string) outcome {
	d := vh.NewScratch()
	defer vh.RemoveAll(d)
	tree := materialise(d, common, v)
	cwd := filepath.Join(d, v.Cwd)
	res := vh.Mockery(cwd, v.Env, v.Args...)
	if res.TimedOut {
		// a hang is a violation only when it reproduces twice more in fresh directories
		for i := 0; i < 2; i++ {
			d2 := vh.NewScratch()
			materialise(d2, common, v)
			r2 := vh.Run(filepath.Join(d2, v.Cwd), vh.CleanEnv(v.Env...), 45*time.Second, vh.SUT(), v.Args...)
			if !r2.TimedOut {
				vh.Note("a timeout did not reproduce (load?)")
				res = r2
				d = d2
				defer vh.RemoveAll(d2)
				break
			}
			vh.RemoveAll(d2)
		}
	}
	o := outcome{res: res, tree: tree, root: d}
	if !res.TimedOut && res.Exit == 0 {
		for _, f := range expect {
			if st, err := os.Stat(filepath.Join(d, f)); err != nil || st.IsDir() || st.Size() == 0 {
				o.missing = append(o.missing, f)
			}
		}
	}
	return o
}

var (
	baseMu    sync.Mutex
	baseCache = map[string]outcome{}
)

var (
	panicLineRe = regexp.MustCompile(`(?m)^(panic: .*|fatal error: .*)$`)
	frameRe     = regexp.MustCompile(`(?m)^github\.com/vektra/mockery/v3/((?:[^\s(]|\(\*)+)\(`)
	quotedRe    = regexp.MustCompile("`[^`]*`|\"[^\"]*\"")
	digitsRe    = regexp.MustCompile(`\d+`)
	nonKeyRe    = regexp.MustCompile(`[^A-Za-z0-9_.:-]+`)
)

// panicKey normalises a Go panic trace: message without literals and numbers + first mockery frame.
func panicKey(out string) string {
	msg := "panic"
	if m := panicLineRe.FindString(out); m != "" {
		m = strings.TrimPrefix(m, "panic: ")
		// keep the kind of failure, drop the operands: first segment (two for runtime errors)
		if seg := strings.Split(m, ": "); len(seg) > 1 {
			if seg[0] == "runtime error" {
				m = seg[0] + ": " + seg[1]
			} else {
				m = seg[0]
			}
		}
		m = quotedRe.ReplaceAllString(m, "")
		m = digitsRe.ReplaceAllString(m, "N")
		if i := strings.Index(m, " ["); i > 0 && strings.Contains(m, "recovered") {
			m = m[:i]
		}
		m = strings.Trim(nonKeyRe.ReplaceAllString(m, "-"), "-")
		if len(m) > 60 {
			m = m[:60]
		}
		msg = "panic:" + m
	}
	if f := frameRe.FindStringSubmatch(out); f != nil {
		msg += "@" + strings.Trim(nonKeyRe.ReplaceAllString(f[1], "-"), "-")
	}
	return msg
}

func hasDiagnostic(r vh.Result) bool {
	for _, ln := range strings.Split(r.Both(), "\n") {
		ln = strings.TrimSpace(ln)
		if ln == "" || strings.Contains(ln, " INF ") || strings.Contains(ln, " DBG ") || strings.Contains(ln, " TRC ") {
			continue
		}
		return true
	}
	return false
}

var (
	tsRe   = regexp.MustCompile(`^\d{4}-\d\d-\d\dT[0-9:.]+Z `)
	hexRe  = regexp.MustCompile(`0x[0-9a-fA-F]+`)
	tmpRe  = regexp.MustCompile(`/tmp/go-build\d+|/tmp/[A-Za-z0-9._-]*\d{4,}[A-Za-z0-9._-]*`)
	gorRe  = regexp.MustCompile(`goroutine \d+`)
	callRe = regexp.MustCompile(`\((?:\{?0x\?|\.\.\.)[^)]*\)$`)
)

// describe renders the observation DETERMINISTICALLY (rapid only shrinks a failure whose message is
// identical when the same case is run twice): no timestamps, durations, addresses or scratch paths;
// log lines sorted (the tool iterates over Go maps), the panic trace kept in order.
func describe(c Case, v Variant, o outcome, root string) string {
	var sb strings.Builder
	fmt.Fprintf(&sb, "entry: %s", c.Entry)
	if c.Second != "" {
		fmt.Fprintf(&sb, " + %s", c.Second)
	}
	fmt.Fprintf(&sb, "\ninjected: %s\ncwd: %s  args: %v  env: %v\nexit: %d  timed-out: %v\n", strings.Join(c.Desc, "; "), v.Cwd, v.Args, v.Env, o.res.Exit, o.res.TimedOut)
	if len(o.missing) > 0 {
		fmt.Fprintf(&sb, "expected mocks missing on disk: %v\n", o.missing)
	}
	var logs, trace []string
	inTrace := false
	for _, ln := range strings.Split(o.res.Both(), "\n") {
		if strings.Contains(ln, " INF ") || strings.TrimSpace(ln) == "" {
			continue
		}
		if root != "" {
			ln = strings.ReplaceAll(ln, root, "$ROOT")
		}
		ln = tsRe.ReplaceAllString(ln, "")
		ln = hexRe.ReplaceAllString(ln, "0x?")
		ln = tmpRe.ReplaceAllString(ln, "$TMP")
		if strings.HasPrefix(ln, "panic: ") || strings.HasPrefix(ln, "fatal error: ") {
			inTrace = true
		}
		if inTrace {
			ln = gorRe.ReplaceAllString(ln, "goroutine N")
			ln = callRe.ReplaceAllString(ln, "(...)")
			if len(trace) < 40 {
				trace = append(trace, ln)
			}
			continue
		}
		logs = append(logs, ln)
	}
	sort.Strings(logs)
	sb.WriteString("--- diagnostics (INF lines dropped, sorted)\n" + vh.Trunc(strings.Join(logs, "\n"), 4000))
	if len(trace) > 0 {
		sb.WriteString("\n--- trace\n" + strings.Join(trace, "\n"))
	}
	return sb.String()
}

func treeForReplay(o outcome) map[string]string {
	out := map[string]string{}
	for k, v := range o.tree {
		if filepath.Base(k) != "go.sum" {
			out[k] = v
		}
	}
	return out
}

func run(c Case) *vh.Violation {
	fp := ""
	if c.NonTrivial {
		fp = vh.Hash(vh.JSON(c))
	}
	vh.Count(fp, c.Labels...)
	if c.NonTrivial && vh.NeedSample() {
		cfg := ""
		for k, v := range c.Fault.Files {
			if strings.Contains(k, "mockery") || strings.HasSuffix(k, ".yml") || strings.HasSuffix(k, ".yaml") {
				cfg = v
			}
		}
		vh.Sample(map[string]any{"entry": c.Entry, "second": c.Second, "must_fail": c.MustFail, "injected": c.Desc, "config": cfg, "env": c.Fault.Env, "cwd": c.Fault.Cwd, "args": c.Fault.Args, "expect_if_exit0": c.Expect})
	}

	// 1. the context itself must be valid
	bk := vh.Hash(vh.JSON(c.Common), vh.JSON(c.Base), vh.JSON(c.BaseExpect))
	baseMu.Lock()
	bo, ok := baseCache[bk]
	baseMu.Unlock()
	if !ok {
		bo = runVariant(c.Common, c.Base, c.BaseExpect)
		baseMu.Lock()
		if len(baseCache) > 2000 {
			baseCache = map[string]outcome{}
		}
		baseCache[bk] = bo
		baseMu.Unlock()
	}
	if bo.res.Panicked() {
		return vh.Violate("mockery/plain-valid-context/"+panicKey(bo.res.Both()), "mockery crashed on the context WITHOUT the injected fault").With(treeForReplay(bo), describe(c, c.Base, bo, bo.root))
	}
	if bo.res.TimedOut || bo.res.Exit != 0 || len(bo.missing) > 0 {
		vh.Invalid()
		vh.Note("context rejected without fault (entry %s): exit %d missing %v: %s", c.Entry, bo.res.Exit, bo.missing, vh.Trunc(lastLines(bo.res.Both(), 3), 400))
		return nil
	}

	// 2. the case proper (repeated when the outcome may depend on the tool's map iteration order:
	// the first violating run is the verdict)
	for i := 1; i < c.Repeat; i++ {
		if v := judge(c); v != nil {
			return v
		}
	}
	return judge(c)
}

func judge(c Case) *vh.Violation {
	o := runVariant(c.Common, c.Fault, c.Expect)
	feature := c.Entry
	if c.Second != "" {
		feature += "+" + c.Second
	}
	fail := func(diag, format string, a ...any) *vh.Violation {
		return vh.Violate("mockery/"+feature+"/"+diag, format, a...).With(treeForReplay(o), describe(c, c.Fault, o, o.root))
	}
	switch {
	case o.res.Panicked():
		vh.Class("outcome=panic")
		return fail(panicKey(o.res.Both()), "mockery terminated by an unrecovered panic (exit %d); injected: %s", o.res.Exit, strings.Join(c.Desc, "; "))
	case o.res.TimedOut:
		vh.Class("outcome=timeout")
		return fail("timeout", "mockery did not terminate within the time limit (reproduced three times); injected: %s", strings.Join(c.Desc, "; "))
	case o.res.Exit == 2 && strings.Contains(o.res.Both(), "goroutine "):
		vh.Class("outcome=panic")
		return fail("crash-exit2", "mockery crashed (exit 2 with goroutine dump)")
	case o.res.Exit < 0 || o.res.Exit > 125:
		vh.Class("outcome=signal")
		return fail(fmt.Sprintf("killed-exit%d", o.res.Exit), "mockery was terminated abnormally (exit %d)", o.res.Exit)
	}
	if o.res.Exit == 0 {
		vh.Class("outcome=exit0")
		if c.MustFail {
			return fail("exit0", "exit status 0 although the input is invalid; injected: %s", strings.Join(c.Desc, "; "))
		}
		if len(o.missing) > 0 {
			return fail("exit0-mock-missing", "exit status 0 but configured mocks were not written: %v", o.missing)
		}
		return nil
	}
	vh.Class("outcome=exit-nonzero")
	if c.Needle != "" {
		// counted only: the property asks for "a diagnostic", it does not fix its wording
		if strings.Contains(o.res.Both(), c.Needle) {
			vh.Class("diagnostic-names-the-missing-interface=yes")
		} else {
			vh.Class("diagnostic-names-the-missing-interface=no")
		}
	}
	if !hasDiagnostic(o.res) {
		return fail(fmt.Sprintf("exit%d-silent", o.res.Exit), "exit status %d without any diagnostic", o.res.Exit)
	}
	if !c.MustFail {
		vh.DontCare("clean-failure:" + c.Entry)
		if strings.HasPrefix(c.Entry, "u-plain") {
			// the same input was accepted a moment ago (baseline): worth a note
			vh.Note("plain valid configuration rejected on the second run: exit %d: %s", o.res.Exit, vh.Trunc(lastLines(describe(c, c.Fault, o, o.root), 4), 900))
		}
	}
	return nil
}

func lastLines(s string, n int) string {
	l := strings.Split(strings.TrimSpace(s), "\n")
	if len(l) > n {
		l = l[len(l)-n:]
	}
	return strings.Join(l, " | ")
}

// ---- driver ---------------------------------------------------------------------------------------

func shardCount() int {
	if v := os.Getenv("VCHECK_SHARDS"); v != "" {
		if n, err := strconv.Atoi(v); err == nil && n > 0 {
			return n
		}
	}
	b, err := os.ReadFile(filepath.Join(vh.VerifDir(), "harness", "checks", "c09", "meta.json"))
	if err == nil {
		var m struct {
			Shards map[string]int `json:"shards"`
		}
		if json.Unmarshal(b, &m) == nil && m.Shards[vh.Tier()] > 0 {
			return m.Shards[vh.Tier()]
		}
	}
	return 8
}

var lastFail struct {
	mu   sync.Mutex
	json string
}

// knownEntry reports whether KNOWN_FINDINGS.txt records an unrepaired finding whose key belongs to the
// catalogue entry (keys are mockery/<entry>/<diagnostic>; vh.Known only answers for complete keys).
func knownEntry(entryKey string) bool {
	b, err := os.ReadFile(filepath.Join(vh.VerifDir(), "KNOWN_FINDINGS.txt"))
	if err != nil {
		return false
	}
	for _, ln := range strings.Split(string(b), "\n") {
		f := strings.Fields(ln)
		if len(f) >= 3 && f[0] == "finding:" && f[1] == "property="+vh.PropID() && strings.HasPrefix(f[2], "key=mockery/"+entryKey+"/") {
			return true
		}
	}
	return false
}

func foundDirs() map[string]bool {
	out := map[string]bool{}
	ents, _ := os.ReadDir(filepath.Join(vh.VerifDir(), "replays", vh.PropID(), "found"))
	for _, e := range ents {
		out[e.Name()] = true
	}
	return out
}

func TestProp(t *testing.T) {
	runRec := func(c Case) *vh.Violation {
		v := run(c)
		if v != nil {
			b, _ := json.MarshalIndent(c, "", " ")
			lastFail.mu.Lock()
			lastFail.json = string(b)
			lastFail.mu.Unlock()
		}
		return v
	}
	if os.Getenv("VCHECK_REPLAY") != "" {
		vh.Main(t, vh.Check[Case]{Gen: func(rt *rapid.T) Case { return genFor(rt, 0) }, Run: run})
		return
	}
	if only := os.Getenv("C09_ENTRY"); only != "" {
		t.Logf("restricted to catalogue entries containing %q", only)
	}
	n := shardCount()
	var mine []int
	for i := range catalogue {
		if i%n == vh.Shard()%n {
			if only := os.Getenv("C09_ENTRY"); only != "" {
				hit := false
				for _, o := range strings.Split(only, ",") {
					hit = hit || strings.Contains(catalogue[i].key(), o)
				}
				if !hit {
					continue
				}
			}
			mine = append(mine, i)
		}
	}
	sort.Ints(mine)
	if len(mine) == 0 {
		// (only with the development filter or more shards than entries) keep the shard file well-formed
		mine = []int{len(catalogue) - 1}
	}
	for _, idx := range mine {
		idx := idx
		e := catalogue[idx]
		if knownEntry(e.key()) {
			// a recorded (unrepaired) finding for this whole entry: steer away, keep searching elsewhere
			vh.Excluded("mockery/" + e.key())
			continue
		}
		before := foundDirs()
		ok := t.Run(strings.NewReplacer("/", "_", "@", "_at_").Replace(e.key()), func(st *testing.T) {
			vh.Main(st, vh.Check[Case]{Gen: func(rt *rapid.T) Case { return genFor(rt, idx) }, Run: runRec})
		})
		if ok {
			// vh re-saves the previous failing case of this process after every later passing campaign:
			// drop those duplicates (same case.json as our last failure)
			lastFail.mu.Lock()
			lf := lastFail.json
			lastFail.mu.Unlock()
			if lf != "" {
				for d := range foundDirs() {
					if before[d] {
						continue
					}
					p := filepath.Join(vh.VerifDir(), "replays", vh.PropID(), "found", d)
					if b, err := os.ReadFile(filepath.Join(p, "case.json")); err == nil && string(b) == lf {
						_ = os.RemoveAll(p)
					}
				}
			}
		}
	}
}
