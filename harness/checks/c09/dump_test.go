package c09

import (
	"fmt"
	"os"
	"sort"
	"strconv"
	"strings"
	"testing"

	"pgregory.net/rapid"
)

// TestDump prints generated cases for inspection (development aid; skipped unless C09_DUMP is set):
//   C09_DUMP=<substring of entry key> [C09_DUMP_SEED=n] go test -run TestDump ./checks/c09/
func TestDump(t *testing.T) {
	sel := os.Getenv("C09_DUMP")
	if sel == "" {
		t.Skip("C09_DUMP not set")
	}
	seed, _ := strconv.Atoi(os.Getenv("C09_DUMP_SEED"))
	for idx, e := range catalogue {
		if sel == "list" {
			fmt.Printf("%3d %-55s mustfail=%v unusual=%v\n", idx, e.key(), e.MustFail, e.Unusual)
			continue
		}
		if !strings.Contains(e.key(), sel) {
			continue
		}
		idx := idx
		c := rapid.Custom(func(rt *rapid.T) Case { return genFor(rt, idx) }).Example(seed)
		fmt.Printf("===== %s (second %q) mustfail=%v nontrivial=%v\n%v\n", c.Entry, c.Second, c.MustFail, c.NonTrivial, c.Desc)
		var ks []string
		for k := range c.Fault.Files {
			ks = append(ks, k)
		}
		sort.Strings(ks)
		for _, k := range ks {
			fmt.Printf("--- fault file %s\n%s", k, c.Fault.Files[k])
		}
		for k, v := range c.Base.Files {
			fmt.Printf("--- base file %s\n%s", k, v)
		}
		fmt.Printf("--- env %v cwd %s args %v\n--- expect %v\n--- common files:", c.Fault.Env, c.Fault.Cwd, c.Fault.Args, c.Expect)
		for k := range c.Common {
			fmt.Printf(" %s", k)
		}
		fmt.Println()
		if os.Getenv("C09_DUMP_RUN") != "" {
			v := run(c)
			if v != nil {
				fmt.Printf("VIOLATION %s: %s\n%s\n", v.Key, v.Msg, v.Observed)
			} else {
				fmt.Println("property held")
			}
		}
	}
}
