package c09

// Generator: a random VALID multi-package context (scratch module + .mockery.yml) into which one
// catalogue entry (fault or valid-but-unusual feature) is injected at a drawn level / position.
// Everything the oracle needs is rendered into the Case (files, env, cwd, args, expectations), so a
// saved case.json is self-contained.

import (
	"fmt"
	"regexp"
	"sort"
	"strings"

	"gopkg.in/yaml.v3"
	"pgregory.net/rapid"
)

// ---- context spec ---------------------------------------------------------------------------------

type IfaceSpec struct {
	Name    string
	Generic bool
	Body    int
}

type PkgSpec struct {
	Dir        string
	Name       string
	Ifaces     []IfaceSpec
	Noise      int
	Mode       string // listed | all | regex
	Listed     []int
	ListedKind []string // parallel to Listed: null | config | configs1 | configs2
	RegexOn    []int
	Layout     int    // -1 inherit, 0..3
	Template   string // "" inherit
	TD         bool
	Recursive  bool
	Sub        *PkgSpec
}

type Ctx struct {
	Mod           string
	Pkgs          []PkgSpec
	RootLayout    int
	RootTemplate  string
	RootFormatter string
	RootTD        bool
	RootForce     bool
}

type need struct {
	unlisted  bool // target package has >=1 interface that is neither listed nor covered by `all`
	regexMode bool // target package selects by include-interface-regex and >=1 unlisted interface matches
	twoListed bool // target package lists >=2 interfaces and writes them to ONE file (layout 0 or 1)
	recursive bool // target package is `all: true`, `recursive: true` and has a sub-package
	layout    int  // 0 = no constraint, 1 = in-package (layout 0), 2 = sub-package (layout 1)
}

var (
	dirPool   = []string{"alpha", "beta", "gamma", "delta", "store", "svc", "api", "core"}
	ifacePool = []string{"Reader", "Store", "Service", "Cache", "Notifier", "Repo", "Clock", "Sender", "lowerSvc"}
	bodies    = []struct {
		src     string
		imports []string
	}{
		{"\tGet(key string) (int, error)\n", nil},
		{"\tOpen(name string) (io.Reader, error)\n", []string{"io"}},
		{"\tDo(ctx context.Context, args ...string) error\n", []string{"context"}},
		{"\tClose() error\n\tLen() int\n", nil},
		{"\tio.Closer\n\tExtra(n int) []byte\n", []string{"io"}},
	}
	genericBody = "\tPut(v T) bool\n\tAll() []T\n"
	noise       = []string{"", "type Settings struct{ N int }\n\n", "type Handler func(int) string\n\nconst Limit = 10\n\n", "var Default = map[string]int{}\n\ntype ID string\n\n"}
)

func drawSubset(t *rapid.T, n int, label string) []int {
	var s []int
	for i := 0; i < n; i++ {
		if rapid.Bool().Draw(t, fmt.Sprintf("%s%d", label, i)) {
			s = append(s, i)
		}
	}
	return s
}

func contains(s []int, x int) bool {
	for _, v := range s {
		if v == x {
			return true
		}
	}
	return false
}

func genPkg(t *rapid.T, i int, isTarget bool, nd need, usedDirs map[string]bool) PkgSpec {
	var p PkgSpec
	base := rapid.SampledFrom(dirPool).Draw(t, "dir")
	prefix := rapid.SampledFrom([]string{"", "", "", "lib/", "internal/"}).Draw(t, "dirprefix")
	if usedDirs[base] {
		for _, d := range dirPool {
			if !usedDirs[d] {
				base = d
				break
			}
		}
	}
	usedDirs[base] = true
	p.Dir, p.Name = prefix+base, base
	if rapid.IntRange(0, 7).Draw(t, "pkgname-differs") == 7 {
		p.Name += "pkg"
	}
	minIf := 1
	if isTarget && (nd.unlisted || nd.twoListed) {
		minIf = 2
	}
	nIf := rapid.IntRange(minIf, 3).Draw(t, "nifaces")
	used := map[string]bool{}
	for len(p.Ifaces) < nIf {
		name := rapid.SampledFrom(ifacePool).Draw(t, "iface")
		if used[name] {
			for _, c := range ifacePool {
				if !used[c] {
					name = c
					break
				}
			}
		}
		used[name] = true
		is := IfaceSpec{Name: name, Body: rapid.IntRange(0, len(bodies)-1).Draw(t, "body")}
		if name != "lowerSvc" && rapid.IntRange(0, 5).Draw(t, "generic") == 5 {
			is.Generic = true
		}
		p.Ifaces = append(p.Ifaces, is)
	}
	p.Noise = rapid.IntRange(0, len(noise)-1).Draw(t, "noise")

	modes := []string{"listed", "listed", "all", "regex"}
	if isTarget {
		switch {
		case nd.regexMode:
			modes = []string{"regex"}
		case nd.unlisted:
			modes = []string{"listed", "regex"}
		case nd.twoListed:
			modes = []string{"listed"}
		case nd.recursive:
			modes = []string{"all"}
		}
	}
	p.Mode = rapid.SampledFrom(modes).Draw(t, "mode")
	switch p.Mode {
	case "listed":
		p.Listed = drawSubset(t, nIf, "listed")
		if len(p.Listed) == 0 {
			p.Listed = []int{0}
		}
		if isTarget && nd.twoListed && len(p.Listed) < 2 {
			p.Listed = []int{0, 1}
		}
		if isTarget && nd.unlisted && len(p.Listed) == nIf {
			p.Listed = p.Listed[:nIf-1]
		}
	case "regex":
		p.RegexOn = drawSubset(t, nIf, "regexon")
		if len(p.RegexOn) == 0 {
			p.RegexOn = []int{0}
		}
		for k := 0; k < nIf; k++ {
			if !contains(p.RegexOn, k) && rapid.IntRange(0, 2).Draw(t, "alsolisted") == 2 {
				p.Listed = append(p.Listed, k)
			}
		}
	case "all":
		if rapid.IntRange(0, 3).Draw(t, "all+listed") == 3 {
			p.Listed = []int{rapid.IntRange(0, nIf-1).Draw(t, "all-listed-idx")}
		}
	}
	for range p.Listed {
		p.ListedKind = append(p.ListedKind, rapid.SampledFrom([]string{"null", "null", "config", "configs1", "configs2"}).Draw(t, "listedkind"))
	}
	p.Layout = rapid.SampledFrom([]int{-1, -1, -1, 0, 1, 2, 3}).Draw(t, "layout")
	if isTarget {
		switch {
		case nd.layout == 1:
			p.Layout = 0
		case nd.layout == 2:
			p.Layout = 1
		case nd.twoListed:
			p.Layout = rapid.IntRange(0, 1).Draw(t, "single-file-layout")
		}
	}
	p.Template = rapid.SampledFrom([]string{"", "", "", "testify", "matryer"}).Draw(t, "pkgtemplate")
	p.TD = rapid.IntRange(0, 4).Draw(t, "pkgtd") == 4
	if isTarget && nd.recursive {
		p.Recursive = true
		sub := PkgSpec{Dir: p.Dir + "/sub", Name: "sub", Mode: "all", Layout: -1}
		ns := rapid.IntRange(1, 2).Draw(t, "nsubifaces")
		for k := 0; k < ns; k++ {
			sub.Ifaces = append(sub.Ifaces, IfaceSpec{Name: []string{"Leaf", "Twig"}[k], Body: rapid.IntRange(0, len(bodies)-1).Draw(t, "subbody")})
		}
		p.Sub = &sub
	}
	return p
}

func genCtx(t *rapid.T, nd need) (*Ctx, int) {
	c := &Ctx{Mod: rapid.SampledFrom([]string{"example.com/m", "example.com/m", "github.com/acme/widget", "corp.example/team/proj/v2"}).Draw(t, "mod")}
	n := rapid.IntRange(2, 4).Draw(t, "npkgs")
	tgt := rapid.IntRange(0, n-1).Draw(t, "target")
	used := map[string]bool{}
	for i := 0; i < n; i++ {
		c.Pkgs = append(c.Pkgs, genPkg(t, i, i == tgt, nd, used))
	}
	c.RootLayout = rapid.SampledFrom([]int{-1, -1, 1, 2, 3}).Draw(t, "rootlayout")
	c.RootTemplate = rapid.SampledFrom([]string{"", "", "testify", "matryer"}).Draw(t, "roottemplate")
	c.RootFormatter = rapid.SampledFrom([]string{"", "", "goimports", "gofmt", "noop"}).Draw(t, "rootformatter")
	c.RootTD = rapid.IntRange(0, 4).Draw(t, "roottd") == 4
	c.RootForce = rapid.IntRange(0, 4).Draw(t, "rootforce") == 4
	return c, tgt
}

func (c *Ctx) effLayout(p *PkgSpec) int {
	if p.Layout >= 0 {
		return p.Layout
	}
	if c.RootLayout >= 0 {
		return c.RootLayout
	}
	return 0
}

func (c *Ctx) effTemplate(p *PkgSpec) string {
	if p.Template != "" {
		return p.Template
	}
	if c.RootTemplate != "" {
		return c.RootTemplate
	}
	return "testify"
}

func (p *PkgSpec) selected() []int {
	var s []int
	for i := range p.Ifaces {
		if p.Mode == "all" || contains(p.Listed, i) || (p.Mode == "regex" && contains(p.RegexOn, i)) {
			s = append(s, i)
		}
	}
	return s
}

func layoutKeys(l int) *M {
	switch l {
	case 0:
		return NewM("dir", "{{.InterfaceDir}}", "filename", "mocks_test.go", "pkgname", "{{.SrcPackageName}}")
	case 1:
		return NewM("dir", "{{.InterfaceDir}}/mocks", "filename", "mocks.go", "pkgname", "mocks")
	case 2:
		return NewM("dir", "{{.InterfaceDir}}/mocks", "filename", "mock_{{.InterfaceName}}.go", "pkgname", "mocks")
	}
	return NewM("dir", "{{.InterfaceDir}}", "filename", "mock_{{.InterfaceName}}_test.go", "pkgname", "{{.SrcPackageName}}")
}

func layoutFiles(l int, dir string, names []string) []string {
	if len(names) == 0 {
		return nil
	}
	switch l {
	case 0:
		return []string{dir + "/mocks_test.go"}
	case 1:
		return []string{dir + "/mocks/mocks.go"}
	}
	var out []string
	for _, n := range names {
		if l == 2 {
			out = append(out, dir+"/mocks/mock_"+n+".go")
		} else {
			out = append(out, dir+"/mock_"+n+"_test.go")
		}
	}
	return out
}

func renderPkgSource(p *PkgSpec) string {
	imps := map[string]bool{}
	var decls strings.Builder
	decls.WriteString(noise[p.Noise])
	for _, is := range p.Ifaces {
		if is.Generic {
			fmt.Fprintf(&decls, "type %s[T any] interface {\n%s}\n\n", is.Name, genericBody)
			continue
		}
		b := bodies[is.Body]
		for _, im := range b.imports {
			imps[im] = true
		}
		fmt.Fprintf(&decls, "type %s interface {\n%s}\n\n", is.Name, b.src)
	}
	var sb strings.Builder
	fmt.Fprintf(&sb, "package %s\n\n", p.Name)
	var il []string
	for im := range imps {
		il = append(il, im)
	}
	sort.Strings(il)
	if len(il) > 0 {
		sb.WriteString("import (\n")
		for _, im := range il {
			fmt.Fprintf(&sb, "\t%q\n", im)
		}
		sb.WriteString(")\n\n")
	}
	sb.WriteString(decls.String())
	return sb.String()
}

func tdFor(template string, variant int) *M {
	if template == "matryer" {
		if variant%2 == 0 {
			return NewM("skip-ensure", true)
		}
		return NewM("with-resets", true)
	}
	return NewM("unroll-variadic", variant%2 == 0)
}

// ---- builder --------------------------------------------------------------------------------------

type builder struct {
	ctx      *Ctx
	cfg      *M
	files    map[string]string
	env      []string
	cwd      string
	args     []string
	cfgPath  string // "" = no config file is written
	cfgText  *string // when set, written instead of Render(cfg)
	prefix   string // sub-directory that holds the module
	expect   map[string]bool
	tgt      int
	tgtIface int
	desc     []string
	labels   []string // extra class labels
	needle   string   // a name the diagnostic is expected to mention (counted, not judged)
	solo     []soloPkg
}

func gomodText(mod string) string {
	return "module " + mod + "\n\ngo 1.23\n\nrequire github.com/stretchr/testify v1.10.0\n"
}

func newBuilder(t *rapid.T, c *Ctx, tgt int) *builder {
	b := &builder{ctx: c, cfg: NewM(), files: map[string]string{}, expect: map[string]bool{}, cwd: ".", cfgPath: ".mockery.yml", tgt: tgt}
	b.files["go.mod"] = gomodText(c.Mod)
	if c.RootTemplate != "" {
		b.cfg.Set("template", c.RootTemplate)
	}
	if c.RootFormatter != "" {
		b.cfg.Set("formatter", c.RootFormatter)
	}
	if c.RootForce {
		b.cfg.Set("force-file-write", true)
	}
	if c.RootLayout >= 0 {
		for _, e := range layoutKeys(c.RootLayout).kvs {
			b.cfg.Set(e.K, e.V)
		}
	}
	if c.RootTD {
		b.cfg.Set("template-data", NewM("mock-build-tags", "!nevertag"))
	}
	pk := b.cfg.Map("packages")
	for i := range c.Pkgs {
		p := &c.Pkgs[i]
		b.files[p.Dir+"/"+baseName(p.Dir)+".go"] = renderPkgSource(p)
		cfg := NewM()
		switch p.Mode {
		case "all":
			cfg.Set("all", true)
		case "regex":
			var names []string
			for _, k := range p.RegexOn {
				names = append(names, p.Ifaces[k].Name)
			}
			cfg.Set("include-interface-regex", "^("+strings.Join(names, "|")+")$")
		}
		if p.Recursive {
			cfg.Set("recursive", true)
			cfg.Set("exclude-subpkg-regex", []any{"zzz$"})
		}
		if p.Layout >= 0 {
			for _, e := range layoutKeys(p.Layout).kvs {
				cfg.Set(e.K, e.V)
			}
		}
		if p.Template != "" {
			cfg.Set("template", p.Template)
		}
		if p.TD {
			cfg.Set("template-data", tdFor(c.effTemplate(p), i))
		}
		ifs := NewM()
		for li, k := range p.Listed {
			name := p.Ifaces[k].Name
			switch p.ListedKind[li] {
			case "null":
				ifs.Set(name, nil)
			case "config":
				ifs.Set(name, NewM("config", NewM("structname", "Fake"+title(name))))
			case "configs1":
				ifs.Set(name, NewM("configs", []any{NewM("structname", "Stub"+title(name))}))
			default:
				ifs.Set(name, NewM("configs", []any{NewM("structname", "First"+title(name)), NewM("structname", "Second"+title(name))}))
			}
		}
		node := NewM()
		if cfg.Len() > 0 {
			node.Set("config", cfg)
		}
		if ifs.Len() > 0 {
			node.Set("interfaces", ifs)
		}
		if node.Len() == 0 {
			pk.Set(c.Mod+"/"+p.Dir, nil)
		} else {
			pk.Set(c.Mod+"/"+p.Dir, node)
		}
		var names []string
		for _, k := range p.selected() {
			names = append(names, p.Ifaces[k].Name)
		}
		for _, f := range layoutFiles(c.effLayout(p), p.Dir, names) {
			b.expect[f] = true
		}
		if p.Sub != nil {
			b.files[p.Sub.Dir+"/sub.go"] = renderPkgSource(p.Sub)
			var sn []string
			for _, is := range p.Sub.Ifaces {
				sn = append(sn, is.Name)
			}
			for _, f := range layoutFiles(c.effLayout(p), p.Sub.Dir, sn) {
				b.expect[f] = true
			}
		}
	}
	sel := c.Pkgs[tgt].selected()
	b.tgtIface = sel[rapid.IntRange(0, len(sel)-1).Draw(t, "tgtiface")]
	return b
}

func title(s string) string {
	if s == "" {
		return s
	}
	return strings.ToUpper(s[:1]) + s[1:]
}

func baseName(dir string) string {
	if i := strings.LastIndex(dir, "/"); i >= 0 {
		return dir[i+1:]
	}
	return dir
}

func (b *builder) note(format string, a ...any) { b.desc = append(b.desc, fmt.Sprintf(format, a...)) }
func (b *builder) tp() *PkgSpec                   { return &b.ctx.Pkgs[b.tgt] }
func (b *builder) pkgPath(i int) string           { return b.ctx.Mod + "/" + b.ctx.Pkgs[i].Dir }
func (b *builder) pkgNode(i int) *M               { return b.cfg.Map("packages").Map(b.pkgPath(i)) }
func (b *builder) pkgCfg(i int) *M                { return b.pkgNode(i).Map("config") }
func (b *builder) tgtIfaceName() string           { return b.tp().Ifaces[b.tgtIface].Name }
func (b *builder) ifaceNode(i int, name string) *M { return b.pkgNode(i).Map("interfaces").Map(name) }

// ifaceConfigs makes sure the interface has a non-empty `configs` list of maps and returns it.
func (b *builder) ifaceConfigs(i int, name string) []any {
	n := b.ifaceNode(i, name)
	l, _ := n.Get("configs").([]any)
	if len(l) == 0 {
		l = []any{NewM("structname", "Only"+title(name))}
		n.Set("configs", l)
	}
	return l
}

// levelMap returns the configuration map of the target at the given level.
func (b *builder) levelMap(t *rapid.T, level string) *M {
	switch level {
	case "root":
		return b.cfg
	case "package":
		return b.pkgCfg(b.tgt)
	case "interface":
		return b.ifaceNode(b.tgt, b.tgtIfaceName()).Map("config")
	case "configs":
		l := b.ifaceConfigs(b.tgt, b.tgtIfaceName())
		return l[rapid.IntRange(0, len(l)-1).Draw(t, "configs-entry")].(*M)
	}
	panic("unknown level " + level)
}

func stripIface(n *M, key string, includeConfig bool) {
	if n == nil {
		return
	}
	if c, ok := n.Get("config").(*M); ok && c != nil && includeConfig {
		c.Del(key)
	}
	if l, ok := n.Get("configs").([]any); ok {
		for _, e := range l {
			if em, ok := e.(*M); ok && em != nil {
				em.Del(key)
			}
		}
	}
}

func stripPkg(n *M, key string, includeConfig bool) {
	if n == nil {
		return
	}
	if c, ok := n.Get("config").(*M); ok && c != nil && includeConfig {
		c.Del(key)
	}
	if ifs, ok := n.Get("interfaces").(*M); ok && ifs != nil {
		for _, e := range ifs.kvs {
			if im, ok := e.V.(*M); ok {
				stripIface(im, key, true)
			}
		}
	}
}

// stripBelow removes key from every level that is more specific than `level` (for the target chain;
// for the root level: everywhere), so that the injected value is the effective one.
func (b *builder) stripBelow(level, key string) {
	switch level {
	case "root":
		pk, _ := b.cfg.Get("packages").(*M)
		if pk == nil {
			return
		}
		for _, e := range pk.kvs {
			if pn, ok := e.V.(*M); ok {
				stripPkg(pn, key, true)
			}
		}
	case "package":
		stripPkg(b.pkgNode(b.tgt), key, false)
	case "interface":
		stripIface(b.ifaceNode(b.tgt, b.tgtIfaceName()), key, false)
	}
}

// stripTD removes a template-data key below the level.
func (b *builder) stripTDBelow(level, key string) {
	var walkIface func(n *M, inc bool)
	td := func(m *M) {
		if m == nil {
			return
		}
		if d, ok := m.Get("template-data").(*M); ok && d != nil {
			d.Del(key)
		}
	}
	walkIface = func(n *M, inc bool) {
		if n == nil {
			return
		}
		if c, ok := n.Get("config").(*M); ok && inc {
			td(c)
		}
		if l, ok := n.Get("configs").([]any); ok {
			for _, e := range l {
				if em, ok := e.(*M); ok {
					td(em)
				}
			}
		}
	}
	walkPkg := func(n *M, inc bool) {
		if n == nil {
			return
		}
		if c, ok := n.Get("config").(*M); ok && inc {
			td(c)
		}
		if ifs, ok := n.Get("interfaces").(*M); ok && ifs != nil {
			for _, e := range ifs.kvs {
				if im, ok := e.V.(*M); ok {
					walkIface(im, true)
				}
			}
		}
	}
	switch level {
	case "root":
		if pk, _ := b.cfg.Get("packages").(*M); pk != nil {
			for _, e := range pk.kvs {
				if pn, ok := e.V.(*M); ok {
					walkPkg(pn, true)
				}
			}
		}
	case "package":
		walkPkg(b.pkgNode(b.tgt), false)
	case "interface":
		walkIface(b.ifaceNode(b.tgt, b.tgtIfaceName()), false)
	}
}

func (b *builder) inject(t *rapid.T, level, key string, val any) {
	b.levelMap(t, level).Set(key, val)
	b.stripBelow(level, key)
	b.note("%s level: %s = %v", level, key, val)
}

// templatesAffected lists the effective templates of the mocks that see a value set at `level`.
func (b *builder) templatesAffected(level string) []string {
	seen := map[string]bool{}
	if level == "root" {
		for i := range b.ctx.Pkgs {
			seen[b.ctx.effTemplate(&b.ctx.Pkgs[i])] = true
		}
	} else {
		seen[b.ctx.effTemplate(b.tp())] = true
	}
	var out []string
	for k := range seen {
		out = append(out, k)
	}
	sort.Strings(out)
	return out
}

// ---- catalogue ------------------------------------------------------------------------------------

type entry struct {
	ID         string
	Level      string // root | package | interface | configs | env | file | source
	MustFail   bool
	Unusual    bool
	Need       need
	Combinable bool
	Repeat     int                          // run the faulty variant this many times (map-order dependent behaviour)
	Prepare    func(t *rapid.T, b *builder) // applied BEFORE the baseline snapshot (valid set-up the fault needs)
	Apply      func(t *rapid.T, b *builder)
}

var invalidRegexes = []string{"[a", "(", "a)", "*x", "a{2,1}", "(?P<n", `\`, "[z-a]", "(?<!x)y", "a**", `\8`, "x{1001}"}

func init() {
	for _, r := range invalidRegexes {
		if _, err := regexp.Compile(r); err == nil {
			panic("catalogue: regex " + r + " is valid")
		}
	}
}

var unknownKeys = []string{"bogus-key", "no-such-option", "xyzzy", "mock-name-typo"}

func drawUnknownValue(t *rapid.T) any {
	switch rapid.IntRange(0, 3).Draw(t, "unknown-value-kind") {
	case 0:
		return 1
	case 1:
		return "value"
	case 2:
		return NewM("nested", true)
	}
	return []any{"a", "b"}
}

var levels4 = []string{"root", "package", "interface", "configs"}

func gomodSpellings(mod string) map[string]string {
	rest := "\n\ngo 1.23\n\nrequire github.com/stretchr/testify v1.10.0\n"
	return map[string]string{
		"tab":             "module\t" + mod + rest,
		"spaces":          "module    " + mod + rest,
		"quoted":          "module \"" + mod + "\"" + rest,
		"comment":         "module " + mod + " // the module path" + rest,
		"block":           "module (\n\t" + mod + "\n)" + rest,
		"block-nospace":   "module(\n\t" + mod + "\n)" + rest,
		"crlf":            strings.ReplaceAll("module "+mod+rest, "\n", "\r\n"),
		"leading-comment": "// Copyright holder.\n// module fake.example/other is not the module\n\nmodule " + mod + rest,
		"go-first":        "go 1.23\n\nmodule " + mod + "\n\nrequire github.com/stretchr/testify v1.10.0\n",
		"replace-first":   "go 1.23\n\nreplace (\nmodulex.example/y => ./local\n)\n\nmodule " + mod + "\n\nrequire github.com/stretchr/testify v1.10.0\n",
		"trailing-space":  "module " + mod + "  \t" + rest,
		"tab-quoted":      "module\t\"" + mod + "\"" + rest,
		"indented":        "  module " + mod + rest,
	}
}

var gomodNames = []string{"tab", "spaces", "quoted", "comment", "block", "block-nospace", "crlf", "leading-comment", "go-first", "replace-first", "trailing-space", "tab-quoted", "indented"}

func brokenSource(t *rapid.T, pkgName, kind string) map[string]string {
	good := "package " + pkgName + "\n\ntype Thing interface {\n\tF() int\n}\n"
	switch kind {
	case "type":
		switch rapid.IntRange(0, 2).Draw(t, "type-error-kind") {
		case 0:
			return map[string]string{"thing.go": "package " + pkgName + "\n\ntype Thing interface {\n\tF() Undefined\n}\n"}
		case 1:
			return map[string]string{"thing.go": good, "zz_broken.go": "package " + pkgName + "\n\nvar broken int = \"not an int\"\n"}
		}
		return map[string]string{"thing.go": good, "zz_broken.go": "package " + pkgName + "\n\nimport \"os\"\n\nfunc unusedImport() {}\n"}
	}
	switch rapid.IntRange(0, 2).Draw(t, "syntax-error-kind") {
	case 0:
		return map[string]string{"thing.go": "package " + pkgName + "\n\ntype Thing interface {\n\tF( }\n"}
	case 1:
		return map[string]string{"thing.go": good, "zz_broken.go": "package " + pkgName + "\n\nfunc broken( {\n"}
	}
	return map[string]string{"thing.go": good, "zz_broken.go": "this is not go source\n"}
}

func selectionNode(sel string, iface string) any {
	switch sel {
	case "all":
		return NewM("config", NewM("all", true))
	case "listed":
		return NewM("interfaces", NewM(iface, nil))
	}
	return nil
}

// ---- stand-alone contexts for the missing-interface class ------------------------------------------
// The surrounding content is drawn independently of the usual context: 1-3 configured packages, each
// with no type declarations at all, only non-interface types, an interface only in a _test.go file or
// only behind a build tag, or one / several real interfaces (selected by list, by `all`, or not at all).

type soloPkg struct {
	path, dir, name, kind string
	types                 []string // non-interface type names declared in the package
}

var soloFree = []string{"funcs-consts", "non-interface-types", "iface-in-test-file", "iface-behind-tag"}
var soloWith = []string{"one-iface", "several-ifaces"}

func prepareStandalone(t *rapid.T, b *builder, surround string) {
	for k := range b.files {
		if k != "go.mod" {
			delete(b.files, k)
		}
	}
	b.expect = map[string]bool{}
	pk := NewM()
	b.cfg.Set("packages", pk)
	rootLayout := 0
	if b.ctx.RootLayout >= 0 {
		rootLayout = b.ctx.RootLayout
	}
	n := rapid.IntRange(1, 3).Draw(t, "solo-npkgs")
	forced := rapid.IntRange(0, n-1).Draw(t, "solo-forced")
	withIface := 0
	for i := 0; i < n; i++ {
		pool := soloFree
		switch {
		case surround == "mixed" && i == forced:
			pool = soloWith
		case surround == "mixed":
			pool = append(append([]string{}, soloFree...), soloWith...)
		}
		kind := rapid.SampledFrom(pool).Draw(t, "solo-kind")
		name := fmt.Sprintf("%s%d", rapid.SampledFrom([]string{"util", "model", "wire"}).Draw(t, "solo-name"), i)
		dir := rapid.SampledFrom([]string{"", "", "internal/"}).Draw(t, "solo-prefix") + name
		sp := soloPkg{path: b.ctx.Mod + "/" + dir, dir: dir, name: name, kind: kind}
		head := "package " + name + "\n\n"
		base := "const Limit = 10\n\nvar Default = map[string]int{}\n\nfunc Helper(n int) int { return n + Limit }\n"
		var node any
		switch kind {
		case "funcs-consts":
			b.files[dir+"/"+name+".go"] = head + base
		case "non-interface-types":
			b.files[dir+"/"+name+".go"] = head + base + "\ntype Settings struct{ N int }\n\ntype Handler func(int) string\n\ntype ID string\n\ntype Table map[string][]int\n"
			sp.types = []string{"Settings", "Handler", "ID", "Table"}
		case "iface-in-test-file":
			b.files[dir+"/"+name+".go"] = head + base
			b.files[dir+"/"+name+"_test.go"] = head + "type OnlyInTest interface{ T() }\n"
		case "iface-behind-tag":
			b.files[dir+"/"+name+".go"] = head + base
			b.files[dir+"/"+name+"_tagged.go"] = "//go:build verifcustomtag\n\n" + head + "type TaggedOnly interface{ T() }\n"
		default:
			withIface++
			names := []string{"Reader"}
			if kind == "several-ifaces" {
				names = []string{"Reader", "Store", "Clock"}[:rapid.IntRange(2, 3).Draw(t, "solo-nifaces")]
			}
			src := head + base
			for _, in := range names {
				src += "\ntype " + in + " interface {\n\tGet(key string) (int, error)\n}\n"
			}
			b.files[dir+"/"+name+".go"] = src
			var sel []string
			switch rapid.SampledFrom([]string{"listed", "all", "none"}).Draw(t, "solo-selection") {
			case "listed":
				ifs := NewM()
				for _, in := range names {
					ifs.Set(in, nil)
				}
				node, sel = NewM("interfaces", ifs), names
			case "all":
				node, sel = NewM("config", NewM("all", true)), names
			}
			for _, f := range layoutFiles(rootLayout, dir, sel) {
				b.expect[f] = true
			}
		}
		if kind != "one-iface" && kind != "several-ifaces" && rapid.IntRange(0, 3).Draw(t, "solo-all-on-free") == 3 {
			node = NewM("config", NewM("all", true))
		}
		pk.Set(sp.path, node)
		b.solo = append(b.solo, sp)
	}
	b.labels = append(b.labels, "solo-surround="+surround, fmt.Sprintf("solo-packages=%d", n), fmt.Sprintf("solo-packages-with-interfaces=%d", withIface))
}

func applyStandaloneMissing(t *rapid.T, b *builder, listing string) {
	sp := b.solo[rapid.IntRange(0, len(b.solo)-1).Draw(t, "solo-listing-pkg")]
	names := []string{"DoesNotExist", "UserStore", "Readr", "reader"}
	name := rapid.SampledFrom(names).Draw(t, "solo-missing-name")
	if len(sp.types) > 0 && rapid.IntRange(0, 2).Draw(t, "solo-non-interface-name") == 2 {
		// a declared type that is not an interface: the listed INTERFACE does not exist either
		name = rapid.SampledFrom(sp.types).Draw(t, "solo-type-name")
		b.labels = append(b.labels, "solo-listed-name=non-interface-type")
	}
	var v any
	switch listing {
	case "config":
		v = NewM("config", NewM("structname", "Fake"+title(name)))
	case "configs":
		v = NewM("configs", []any{NewM("structname", "One"+title(name)), NewM("structname", "Two"+title(name))})
	}
	b.cfg.Map("packages").Map(sp.path).Map("interfaces").Set(name, v)
	b.needle = name
	b.labels = append(b.labels, "solo-listing-pkg-kind="+sp.kind, "solo-listing="+listing)
	b.note("package %s (%s) lists interface %s (%s form) which is not declared", sp.path, sp.kind, name, listing)
}

func buildCatalogue() []*entry {
	var cat []*entry
	add := func(e *entry) { cat = append(cat, e) }

	// -- listed interface that does not exist
	for _, variant := range []string{"plain", "with-config", "with-configs"} {
		variant := variant
		add(&entry{ID: "iface-missing/" + variant, Level: "package", MustFail: true, Combinable: variant == "plain", Apply: func(t *rapid.T, b *builder) {
			i := rapid.IntRange(0, len(b.ctx.Pkgs)-1).Draw(t, "missing-in-pkg")
			name := rapid.SampledFrom([]string{"DoesNotExist", "Readr", "reader", "Settings2"}).Draw(t, "missing-name")
			var v any
			switch variant {
			case "with-config":
				v = NewM("config", NewM("structname", "X"+name))
			case "with-configs":
				v = NewM("configs", []any{NewM("structname", "Y"+name)})
			}
			b.pkgNode(i).Map("interfaces").Set(name, v)
			b.note("package %s lists interface %s which is not declared", b.pkgPath(i), name)
		}})
	}

	// -- the same with independently drawn surroundings (packages without any interface declaration,
	// with interfaces only in test / tagged files, mixed with packages that do generate mocks)
	for _, surround := range []string{"all-interface-free", "mixed"} {
		for _, listing := range []string{"bare", "config", "configs"} {
			surround, listing := surround, listing
			add(&entry{ID: "iface-missing-standalone/" + surround + "/" + listing, Level: "package", MustFail: true,
				Prepare: func(t *rapid.T, b *builder) { prepareStandalone(t, b, surround) },
				Apply:   func(t *rapid.T, b *builder) { applyStandaloneMissing(t, b, listing) }})
		}
	}

	// -- packages that fail to load
	for _, sel := range []string{"none", "all", "listed"} {
		sel := sel
		add(&entry{ID: "pkg-nonexistent/" + sel, Level: "package", MustFail: true, Apply: func(t *rapid.T, b *builder) {
			// the last-but-one spelling is a proper textual prefix of an existing package's path
			// (api next to apiv2): it must not be mistaken for a parent of that package
			existing := b.pkgPath(b.tgt)
			path := rapid.SampledFrom([]string{b.ctx.Mod + "/nosuchdir", existing[:len(existing)-1], existing + "/missing", existing[:len(existing)-1], "example.org/elsewhere/pkg", "nosuchstdpkg"}).Draw(t, "nonexistent-path")
			pk := b.cfg.Map("packages")
			if rapid.Bool().Draw(t, "first") {
				pk.SetFirst(path, selectionNode(sel, "Thing"))
			} else {
				pk.Set(path, selectionNode(sel, "Thing"))
			}
			b.note("package %s does not exist (selection %s)", path, sel)
		}})
	}
	for _, kind := range []string{"type", "syntax"} {
		for _, sel := range []string{"all", "listed"} {
			kind, sel := kind, sel
			add(&entry{ID: "pkg-" + kind + "-error/" + sel, Level: "package", MustFail: true, Apply: func(t *rapid.T, b *builder) {
				for name, src := range brokenSource(t, "broken", kind) {
					b.files["broken/"+name] = src
				}
				b.cfg.Map("packages").Set(b.ctx.Mod+"/broken", selectionNode(sel, "Thing"))
				b.note("package %s/broken has a %s error (selection %s)", b.ctx.Mod, kind, sel)
			}})
		}
		kind := kind
		add(&entry{ID: "pkg-" + kind + "-error/existing", Level: "source", MustFail: true, Apply: func(t *rapid.T, b *builder) {
			p := b.tp()
			src := "package " + p.Name + "\n\nvar brokenValue int = \"text\"\n"
			if kind == "syntax" {
				src = "package " + p.Name + "\n\nfunc brokenFunc( {\n"
			}
			b.files[p.Dir+"/zz_broken.go"] = src
			b.note("a %s error is added to the otherwise valid package %s", kind, b.pkgPath(b.tgt))
		}})
	}

	// -- unknown template / formatter
	for _, lv := range levels4 {
		lv := lv
		add(&entry{ID: "template-unknown", Level: lv, MustFail: true, Combinable: lv == "root", Apply: func(t *rapid.T, b *builder) {
			b.inject(t, lv, "template", rapid.SampledFrom([]string{"bogus", "mockery", "moq", "testify2"}).Draw(t, "template-name"))
		}})
		add(&entry{ID: "formatter-unknown", Level: lv, MustFail: true, Apply: func(t *rapid.T, b *builder) {
			b.inject(t, lv, "formatter", rapid.SampledFrom([]string{"bogus", "gofumpt", "go-imports"}).Draw(t, "formatter-name"))
		}})
	}

	// -- unknown keys
	for _, where := range []string{"root", "package", "package-node", "interface", "interface-node", "configs"} {
		where := where
		lv := strings.TrimSuffix(where, "-node")
		add(&entry{ID: "key-unknown/" + where, Level: lv, MustFail: true, Combinable: where == "package", Apply: func(t *rapid.T, b *builder) {
			key := rapid.SampledFrom(unknownKeys).Draw(t, "unknown-key")
			val := drawUnknownValue(t)
			switch where {
			case "package-node":
				b.pkgNode(b.tgt).Set(key, val)
			case "interface-node":
				b.ifaceNode(b.tgt, b.tgtIfaceName()).Set(key, val)
			default:
				b.levelMap(t, lv).Set(key, val)
			}
			b.note("unknown key %s at %s", key, where)
		}})
	}
	for _, lv := range levels4 {
		lv := lv
		add(&entry{ID: "key-unknown/replace-type", Level: lv, MustFail: true, Apply: func(t *rapid.T, b *builder) {
			rt := NewM(b.pkgPath(b.tgt), NewM("Settings", NewM("pkg-path", "io", "type-name", "Reader", rapid.SampledFrom(unknownKeys).Draw(t, "unknown-key"), "x")))
			b.levelMap(t, lv).Set("replace-type", rt)
			b.note("unknown key inside a replace-type entry at %s level", lv)
		}})
	}

	// -- invalid regular expressions at a place where they are consulted
	for _, lv := range []string{"root", "package"} {
		lv := lv
		add(&entry{ID: "regex-include", Level: lv, MustFail: true, Need: need{unlisted: true}, Apply: func(t *rapid.T, b *builder) {
			b.inject(t, lv, "include-interface-regex", rapid.SampledFrom(invalidRegexes).Draw(t, "regex"))
		}})
		add(&entry{ID: "regex-exclude", Level: lv, MustFail: true, Need: need{regexMode: true}, Apply: func(t *rapid.T, b *builder) {
			b.inject(t, lv, "exclude-interface-regex", rapid.SampledFrom(invalidRegexes).Draw(t, "regex"))
		}})
		add(&entry{ID: "regex-subpkg", Level: lv, MustFail: true, Need: need{recursive: true}, Apply: func(t *rapid.T, b *builder) {
			bad := rapid.SampledFrom(invalidRegexes).Draw(t, "regex")
			var l []any
			switch rapid.IntRange(0, 2).Draw(t, "regex-list-shape") {
			case 0:
				l = []any{bad}
			case 1:
				l = []any{"zzz$", bad}
			default:
				l = []any{bad, "^never-matches$"}
			}
			b.inject(t, lv, "exclude-subpkg-regex", l)
		}})
	}

	// -- cyclic templated value
	for _, lv := range levels4 {
		lv := lv
		add(&entry{ID: "cyclic-structname", Level: lv, MustFail: true, Apply: func(t *rapid.T, b *builder) {
			b.inject(t, lv, "structname", rapid.SampledFrom([]string{"x{{.StructName}}", "{{.StructName}}x", "Mock{{.StructName}}Mock", "{{ .StructName | firstUpper }}_"}).Draw(t, "cycle"))
		}})
	}

	// -- template-data rejected by the built-in schema
	for _, lv := range levels4 {
		lv := lv
		add(&entry{ID: "td-unknown-key", Level: lv, MustFail: true, Combinable: lv == "package", Apply: func(t *rapid.T, b *builder) {
			key := rapid.SampledFrom([]string{"bogus", "unroll_variadic", "mock-build-tag", "other-template-key"}).Draw(t, "td-key")
			var val any = true
			if key == "other-template-key" {
				// a key of the OTHER built-in template
				if ts := b.templatesAffected(lv); len(ts) == 1 && ts[0] == "testify" {
					key = "skip-ensure"
				} else if len(ts) == 1 {
					key = "unroll-variadic"
				} else {
					key = "bogus"
				}
			}
			b.levelMap(t, lv).Map("template-data").Set(key, val)
			b.note("template-data key %s (not in the schema) at %s level", key, lv)
		}})
		add(&entry{ID: "td-wrong-type", Level: lv, MustFail: true, Apply: func(t *rapid.T, b *builder) {
			type kvp struct {
				k string
				v any
			}
			opts := []kvp{{"mock-build-tags", 3}, {"mock-build-tags", []any{"a"}}, {"boilerplate-file", true}, {"mock-build-tags", NewM("a", "b")}}
			if ts := b.templatesAffected(lv); len(ts) == 1 {
				if ts[0] == "testify" {
					opts = append(opts, kvp{"unroll-variadic", "yes"}, kvp{"unroll-variadic", 1})
				} else {
					opts = append(opts, kvp{"skip-ensure", "no"}, kvp{"stub-impl", 0}, kvp{"with-resets", "true"})
				}
			}
			o := opts[rapid.IntRange(0, len(opts)-1).Draw(t, "td-wrong")]
			b.levelMap(t, lv).Map("template-data").Set(o.k, o.v)
			b.stripTDBelow(lv, o.k)
			b.note("template-data %s = %v (wrong type) at %s level", o.k, o.v, lv)
		}})
	}

	// -- conflicting requirements for one output file
	for _, lv := range []string{"root", "package"} {
		lv := lv
		add(&entry{ID: "conflict-srcpkg", Level: lv, MustFail: true, Apply: func(t *rapid.T, b *builder) {
			keys := NewM("dir", "shared_mocks", "filename", "mocks.go", "pkgname", "shared")
			if lv == "root" {
				for _, e := range keys.kvs {
					b.cfg.Set(e.K, e.V)
					b.stripBelow("root", e.K)
				}
			} else {
				other := (b.tgt + 1 + rapid.IntRange(0, len(b.ctx.Pkgs)-2).Draw(t, "other-pkg")) % len(b.ctx.Pkgs)
				for _, i := range []int{b.tgt, other} {
					for _, e := range keys.kvs {
						b.pkgCfg(i).Set(e.K, e.V)
						stripPkg(b.pkgNode(i), e.K, false)
					}
				}
			}
			b.note("mocks of different source packages are sent to shared_mocks/mocks.go (%s level)", lv)
		}})
	}
	for _, what := range []string{"pkgname", "template"} {
		what := what
		vals := map[string][2]string{"pkgname": {"pkgone", "pkgtwo"}, "template": {"testify", "matryer"}}[what]
		add(&entry{ID: "conflict-" + what, Level: "interface", MustFail: true, Need: need{twoListed: true}, Apply: func(t *rapid.T, b *builder) {
			p := b.tp()
			a, c := p.Ifaces[p.Listed[0]].Name, p.Ifaces[p.Listed[1]].Name
			if rapid.Bool().Draw(t, "swap") {
				a, c = c, a
			}
			for k, n := range []string{a, c} {
				b.ifaceNode(b.tgt, n).Map("config").Set(what, vals[k])
				stripIface(b.ifaceNode(b.tgt, n), what, false)
			}
			b.note("interfaces %s and %s share one output file but differ in %s", a, c, what)
		}})
		add(&entry{ID: "conflict-" + what, Level: "configs", MustFail: true, Need: need{twoListed: true}, Apply: func(t *rapid.T, b *builder) {
			n := b.tgtIfaceName()
			node := b.ifaceNode(b.tgt, n)
			node.Set("configs", []any{NewM("structname", "One"+title(n), what, vals[0]), NewM("structname", "Two"+title(n), what, vals[1])})
			if c, ok := node.Get("config").(*M); ok && c != nil {
				c.Del(what)
				c.Del("structname")
			}
			b.note("two configs entries of %s share one output file but differ in %s", n, what)
		}})
	}

	// -- malformed YAML
	add(&entry{ID: "yaml-malformed", Level: "file", MustFail: true, Apply: func(t *rapid.T, b *builder) {
		text := Render(b.cfg)
		lines := strings.Split(strings.TrimRight(text, "\n"), "\n")
		at := rapid.IntRange(0, len(lines)-1).Draw(t, "yaml-line")
		var out string
		switch rapid.IntRange(0, 4).Draw(t, "yaml-mutation") {
		case 0:
			lines = append(lines[:at+1:at+1], append([]string{"\tbad: indentation"}, lines[at+1:]...)...)
			out = strings.Join(lines, "\n") + "\n"
		case 1:
			out = text + "trailer: [unclosed\n"
		case 2:
			lines[at] = lines[at] + " \"unterminated"
			out = strings.Join(lines, "\n") + "\n"
		case 3:
			lines = append(lines[:at+1:at+1], append([]string{"  }{ stray"}, lines[at+1:]...)...)
			out = strings.Join(lines, "\n") + "\n"
		default:
			out = text + "  orphan: value\n - x\n"
		}
		var probe map[string]any
		if yaml.Unmarshal([]byte(out), &probe) == nil {
			out = text + "broken: [\n"
		}
		b.cfgText = &out
		b.note("the configuration file is not well-formed YAML")
	}})
	add(&entry{ID: "yaml-toplevel-not-a-map", Level: "file", MustFail: true, Apply: func(t *rapid.T, b *builder) {
		doc := rapid.SampledFrom([]string{"just a string\n", "- a\n- b\n", "42\n"}).Draw(t, "toplevel")
		b.cfgText = &doc
		b.note("the configuration document is not a mapping")
	}})

	// -- wrong value kinds
	for _, lv := range levels4 {
		lv := lv
		add(&entry{ID: "kind-string-for-bool", Level: lv, MustFail: true, Combinable: lv == "package", Apply: func(t *rapid.T, b *builder) {
			b.inject(t, lv, rapid.SampledFrom([]string{"all", "recursive", "force-file-write", "require-template-schema-exists"}).Draw(t, "bool-key"),
				rapid.SampledFrom([]string{"maybe", "yes please", "sometimes"}).Draw(t, "non-bool"))
		}})
		add(&entry{ID: "kind-map-for-string", Level: lv, MustFail: true, Apply: func(t *rapid.T, b *builder) {
			b.inject(t, lv, rapid.SampledFrom([]string{"dir", "filename", "structname", "pkgname", "template", "formatter"}).Draw(t, "string-key"), NewM("a", "b"))
		}})
		add(&entry{ID: "kind-list-for-map", Level: lv, MustFail: true, Apply: func(t *rapid.T, b *builder) {
			b.inject(t, lv, rapid.SampledFrom([]string{"template-data", "replace-type"}).Draw(t, "map-key"), []any{"a", "b"})
		}})
	}
	add(&entry{ID: "kind-list-for-map/packages", Level: "root", MustFail: true, Apply: func(t *rapid.T, b *builder) {
		var l []any
		for i := range b.ctx.Pkgs {
			l = append(l, b.pkgPath(i))
		}
		b.cfg.Set("packages", l)
		b.note("packages is a list")
	}})
	add(&entry{ID: "kind-list-for-map/interfaces", Level: "package", MustFail: true, Apply: func(t *rapid.T, b *builder) {
		b.pkgNode(b.tgt).Set("interfaces", []any{b.tgtIfaceName()})
		b.note("interfaces of %s is a list", b.pkgPath(b.tgt))
	}})
	add(&entry{ID: "kind-list-for-map/config", Level: "package", MustFail: true, Apply: func(t *rapid.T, b *builder) {
		b.pkgNode(b.tgt).Set("config", []any{"all"})
		b.note("config of %s is a list", b.pkgPath(b.tgt))
	}})
	add(&entry{ID: "kind-list-for-map/config", Level: "interface", MustFail: true, Apply: func(t *rapid.T, b *builder) {
		b.ifaceNode(b.tgt, b.tgtIfaceName()).Set("config", []any{"x"})
		b.note("config of interface %s is a list", b.tgtIfaceName())
	}})
	add(&entry{ID: "kind-map-for-list/configs", Level: "interface", MustFail: true, Apply: func(t *rapid.T, b *builder) {
		b.ifaceNode(b.tgt, b.tgtIfaceName()).Set("configs", NewM("a", "b"))
		b.note("configs of interface %s is a map", b.tgtIfaceName())
	}})
	add(&entry{ID: "kind-map-for-list/exclude-subpkg-regex", Level: "package", MustFail: true, Apply: func(t *rapid.T, b *builder) {
		b.pkgCfg(b.tgt).Set("exclude-subpkg-regex", NewM("a", "b"))
		b.note("exclude-subpkg-regex is a map")
	}})

	// -- environment
	add(&entry{ID: "env-unknown-key", Level: "env", MustFail: true, Combinable: true, Apply: func(t *rapid.T, b *builder) {
		v := rapid.SampledFrom([]string{"MOCKERY_FOO=1", "MOCKERY_NO_SUCH_OPTION=x", "MOCKERY_BOGUS_KEY=true"}).Draw(t, "envvar")
		b.env = append(b.env, v)
		b.note("environment %s", v)
	}})
	add(&entry{ID: "env-string-for-bool", Level: "env", MustFail: true, Apply: func(t *rapid.T, b *builder) {
		v := rapid.SampledFrom([]string{"MOCKERY_ALL=maybe", "MOCKERY_RECURSIVE=sometimes", "MOCKERY_FORCE_FILE_WRITE=perhaps"}).Draw(t, "envvar")
		// the file has priority over the environment: the root key must not be set in the file
		b.cfg.Del(strings.ReplaceAll(strings.ToLower(strings.TrimPrefix(strings.SplitN(v, "=", 2)[0], "MOCKERY_")), "_", "-"))
		b.env = append(b.env, v)
		b.note("environment %s", v)
	}})
	for _, key := range []string{"template", "formatter"} {
		key := key
		add(&entry{ID: "env-" + key + "-unknown", Level: "env", MustFail: true, Apply: func(t *rapid.T, b *builder) {
			b.cfg.Del(key)
			b.stripBelow("root", key)
			b.env = append(b.env, "MOCKERY_"+strings.ToUpper(key)+"=bogus")
			b.note("environment MOCKERY_%s=bogus, %s not set in the file", strings.ToUpper(key), key)
		}})
	}

	// ---- robustness entries: the property does not fix the exit status, but there must be no crash
	for _, lv := range []string{"root", "package"} {
		lv := lv
		add(&entry{ID: "regex-unconsulted/include+all", Level: lv, Apply: func(t *rapid.T, b *builder) {
			// every package of the scope has `all: true`: the include regex is documented as ignored
			if lv == "root" {
				b.cfg.Set("all", true)
				b.stripBelow("root", "include-interface-regex")
			} else {
				b.pkgCfg(b.tgt).Set("all", true)
			}
			b.inject(t, lv, "include-interface-regex", rapid.SampledFrom(invalidRegexes).Draw(t, "regex"))
			b.expect = map[string]bool{} // selection changed; only the no-crash clause is judged
		}})
		add(&entry{ID: "regex-unconsulted/exclude-without-include", Level: lv, Apply: func(t *rapid.T, b *builder) {
			if b.tp().Mode == "regex" || lv == "root" {
				// make sure no include regex is in force in the scope
				for i := range b.ctx.Pkgs {
					if b.ctx.Pkgs[i].Mode == "regex" && (lv == "root" || i == b.tgt) {
						b.pkgCfg(i).Del("include-interface-regex")
					}
				}
				b.expect = map[string]bool{}
			}
			b.inject(t, lv, "exclude-interface-regex", rapid.SampledFrom(invalidRegexes).Draw(t, "regex"))
		}})
		add(&entry{ID: "regex-unconsulted/subpkg-not-recursive", Level: lv, Apply: func(t *rapid.T, b *builder) {
			b.inject(t, lv, "exclude-subpkg-regex", []any{rapid.SampledFrom(invalidRegexes).Draw(t, "regex")})
		}})
	}
	for _, lv := range []string{"interface", "configs"} {
		lv := lv
		add(&entry{ID: "regex-unconsulted/interface-level", Level: lv, Apply: func(t *rapid.T, b *builder) {
			b.inject(t, lv, rapid.SampledFrom([]string{"include-interface-regex", "exclude-interface-regex"}).Draw(t, "regex-key"), rapid.SampledFrom(invalidRegexes).Draw(t, "regex"))
		}})
	}
	for _, lv := range levels4 {
		lv := lv
		add(&entry{ID: "tmpl-unparsable", Level: lv, Apply: func(t *rapid.T, b *builder) {
			b.inject(t, lv, rapid.SampledFrom([]string{"dir", "filename", "pkgname", "structname"}).Draw(t, "tmpl-key"),
				rapid.SampledFrom([]string{"{{.InterfaceName", "{{.NoSuchField}}", "{{ nosuchfunc .InterfaceName }}", "{{ index .InterfaceName 99 }}", "{{ template \"x\" }}"}).Draw(t, "tmpl"))
			b.expect = map[string]bool{}
		}})
		add(&entry{ID: "kind-weak", Level: lv, Apply: func(t *rapid.T, b *builder) {
			switch rapid.IntRange(0, 2).Draw(t, "weak") {
			case 0:
				b.inject(t, lv, "all", "true")
			case 1:
				b.inject(t, lv, "structname", 5)
			default:
				b.inject(t, lv, "force-file-write", 1)
			}
		}})
	}
	for _, key := range []string{"ALL", "RECURSIVE", "FORCE_FILE_WRITE", "REQUIRE_TEMPLATE_SCHEMA_EXISTS", "STRUCTNAME"} {
		key := key
		add(&entry{ID: "env-odd-case-bool/" + key, Level: "env", Apply: func(t *rapid.T, b *builder) {
			v := rapid.SampledFrom([]string{"tRuE", "TRue", "truE", "fAlSe", "FALSe", "falsE", "True", "FALSE"}).Draw(t, "odd-bool")
			b.env = append(b.env, "MOCKERY_"+key+"="+v)
			if key == "STRUCTNAME" || key == "REQUIRE_TEMPLATE_SCHEMA_EXISTS" {
				b.expect = map[string]bool{}
			}
			b.note("environment MOCKERY_%s=%s", key, v)
		}})
	}
	add(&entry{ID: "env-weak-bool", Level: "env", Apply: func(t *rapid.T, b *builder) {
		v := rapid.SampledFrom([]string{"MOCKERY_ALL=1", "MOCKERY_ALL=yes", "MOCKERY_ALL=t", "MOCKERY_RECURSIVE=0"}).Draw(t, "envvar")
		b.env = append(b.env, v)
		b.note("environment %s", v)
	}})
	add(&entry{ID: "env-log-level-unknown", Level: "env", Apply: func(t *rapid.T, b *builder) {
		b.env = append(b.env, "MOCKERY_LOG_LEVEL=chatty")
		b.note("environment MOCKERY_LOG_LEVEL=chatty")
	}})
	add(&entry{ID: "config-missing", Level: "file", Apply: func(t *rapid.T, b *builder) {
		if rapid.Bool().Draw(t, "flag") {
			b.args = []string{"--config", "no-such-config.yml"}
		}
		b.cfgPath = ""
		b.expect = map[string]bool{}
		b.note("no configuration file exists")
	}})
	add(&entry{ID: "config-without-packages", Level: "file", Apply: func(t *rapid.T, b *builder) {
		switch rapid.IntRange(0, 2).Draw(t, "empty-kind") {
		case 0:
			empty := ""
			b.cfgText = &empty
		case 1:
			b.cfg.Del("packages")
		default:
			b.cfg.Set("packages", NewM())
		}
		b.expect = map[string]bool{}
		b.note("the configuration names no packages")
	}})

	// ---- valid-but-unusual inputs: succeed or fail cleanly, never crash
	for _, kind := range []string{"distinct", "same-name", "func-literal", "method-body", "instantiation", "init-and-nested", "blank-identifier"} {
		kind := kind
		add(&entry{ID: "u-local-type/" + kind, Level: "source", Unusual: true, Apply: func(t *rapid.T, b *builder) {
			p := b.tp()
			var body string
			switch kind {
			case "distinct":
				body = "func helperWithLocal() {\n\ttype LocalOnly interface{ L() }\n\tvar _ LocalOnly\n}\n"
			case "same-name":
				body = fmt.Sprintf("func helperShadow() {\n\ttype %s interface{ Shadowed() }\n\tvar v %s\n\t_ = v\n}\n", p.Ifaces[0].Name, p.Ifaces[0].Name)
				if p.Ifaces[0].Generic {
					body = "func helperShadow() {\n\ttype Settings2 interface{ Shadowed() }\n\tvar _ Settings2\n}\n"
				}
			case "func-literal":
				body = "var computed = func() int {\n\ttype InLiteral interface{ Z() }\n\tvar _ InLiteral\n\treturn 0\n}()\n"
			case "blank-identifier":
				// declarations under the blank identifier are legal Go and declare nothing
				body = "type _ interface{ Blank() }\n\ntype _ boxB[int]\n\ntype boxB[T any] interface{ Get() T }\n"
			case "method-body":
				body = "type holder struct{}\n\nfunc (holder) Method() {\n\ttype InMethod interface{ Q() }\n\tvar _ InMethod\n}\n"
			case "instantiation":
				body = "type boxT[T any] interface{ Get() T }\n\nfunc helperInst() {\n\ttype LocalInst boxT[int]\n\ttype LocalPair[K comparable, V any] interface{ KV() (K, V) }\n\ttype LocalPairInst LocalPair[string, int]\n\tvar _ LocalInst\n\tvar _ LocalPairInst\n}\n"
			default:
				body = "func init() {\n\ttype InInit interface{ I() }\n\tvar _ InInit\n\tfunc() {\n\t\ttype Nested interface{ N() }\n\t\tvar _ Nested\n\t}()\n}\n"
			}
			b.files[p.Dir+"/zz_locals.go"] = "package " + p.Name + "\n\n" + body
			b.note("package %s declares function-local types (%s)", b.pkgPath(b.tgt), kind)
		}})
	}
	for _, kind := range []string{"tag-unset", "tag-set", "pair"} {
		kind := kind
		add(&entry{ID: "u-build-tag/" + kind, Level: "source", Unusual: true, Apply: func(t *rapid.T, b *builder) {
			p := b.tp()
			b.files[p.Dir+"/zz_tagged.go"] = "//go:build verifcustomtag\n\npackage " + p.Name + "\n\ntype TaggedOnly interface{ T() }\n"
			if kind == "pair" {
				b.files[p.Dir+"/zz_untagged.go"] = "//go:build !verifcustomtag\n\npackage " + p.Name + "\n\ntype TaggedOnly interface{ U() int }\n"
			}
			if kind == "tag-set" {
				b.cfg.Set("build-tags", "verifcustomtag")
				b.pkgNode(b.tgt).Map("interfaces").Set("TaggedOnly", nil)
				for _, f := range layoutFiles(b.ctx.effLayout(p), p.Dir, []string{"TaggedOnly"}) {
					b.expect[f] = true
				}
			}
			b.note("package %s has a build-tagged file (%s)", b.pkgPath(b.tgt), kind)
		}})
	}
	for _, kind := range []string{"empty-dir", "only-test-files", "only-excluded-files"} {
		for _, sel := range []string{"none", "all"} {
			kind, sel := kind, sel
			add(&entry{ID: "u-" + kind + "/" + sel, Level: "package", Unusual: true, Apply: func(t *rapid.T, b *builder) {
				switch kind {
				case "empty-dir":
					b.files["hollow/README.md"] = "no Go files here\n"
				case "only-test-files":
					b.files["hollow/hollow_test.go"] = "package hollow\n\ntype OnlyInTest interface{ F() }\n"
				default:
					b.files["hollow/hollow.go"] = "//go:build neverenabledtag\n\npackage hollow\n\ntype Hidden interface{ F() }\n"
				}
				b.cfg.Map("packages").Set(b.ctx.Mod+"/hollow", selectionNode(sel, ""))
				b.note("package %s/hollow is listed but has %s (selection %s)", b.ctx.Mod, kind, sel)
			}})
		}
	}
	add(&entry{ID: "u-recursive-root-without-go-files", Level: "package", Unusual: true, Apply: func(t *rapid.T, b *builder) {
		b.files["tree/one/one.go"] = "package one\n\ntype First interface{ A() }\n"
		b.files["tree/two/deep/deep.go"] = "package deep\n\ntype Second interface{ B() error }\n"
		b.cfg.Map("packages").Set(b.ctx.Mod+"/tree", NewM("config", NewM("all", true, "recursive", true)))
		l := 0
		if b.ctx.RootLayout >= 0 {
			l = b.ctx.RootLayout
		}
		for _, f := range append(layoutFiles(l, "tree/one", []string{"First"}), layoutFiles(l, "tree/two/deep", []string{"Second"})...) {
			b.expect[f] = true
		}
		b.note("recursive package %s/tree has no Go files itself", b.ctx.Mod)
	}})
	for _, sp := range gomodNames {
		for li, place := range []string{"in-package", "sub-package"} {
			sp, place := sp, place
			add(&entry{ID: "u-gomod/" + sp + "/" + place, Level: "file", Unusual: true, Need: need{layout: li + 1}, Apply: func(t *rapid.T, b *builder) {
				b.files["go.mod"] = gomodSpellings(b.ctx.Mod)[sp]
				b.note("go.mod module line spelled %q; target package output %s", sp, place)
			}})
		}
	}
	for _, kind := range []string{"cwd-package-dir", "module-in-subdir", "yaml-extension", "flag", "env"} {
		kind := kind
		add(&entry{ID: "u-config-location/" + kind, Level: "file", Unusual: true, Apply: func(t *rapid.T, b *builder) {
			switch kind {
			case "cwd-package-dir":
				b.cwd = b.tp().Dir
			case "module-in-subdir":
				b.prefix = "mod"
			case "yaml-extension":
				b.cfgPath = ".mockery.yaml"
			case "flag":
				b.cfgPath = "conf/custom-name.yml"
				b.args = []string{"--config", "conf/custom-name.yml"}
			default:
				b.cfgPath = "conf/from-env.yaml"
				b.env = append(b.env, "MOCKERY_CONFIG=conf/from-env.yaml")
			}
			b.note("configuration file location: %s", kind)
		}})
	}
	for _, kind := range []string{"alias", "merge-key", "unreferenced", "empty"} {
		kind := kind
		add(&entry{ID: "u-anchors/" + kind, Level: "root", Unusual: true, Apply: func(t *rapid.T, b *builder) {
			switch kind {
			case "empty":
				b.cfg.SetFirst("_anchors", NewM())
			case "unreferenced":
				b.cfg.SetFirst("_anchors", NewM("spare", Anchor{"spare", NewM("all", false, "template-data", NewM("mock-build-tags", "x"))}, "names", []any{"a", "b"}))
			default:
				pc := b.pkgCfg(b.tgt)
				shared := cloneY(pc).(*M)
				b.cfg.SetFirst("_anchors", NewM("shared", Anchor{"shared", shared}))
				if kind == "alias" {
					b.pkgNode(b.tgt).Set("config", Alias{"shared"})
				} else {
					b.pkgNode(b.tgt).Set("config", NewM("<<", Alias{"shared"}))
				}
			}
			b.note("root _anchors map (%s)", kind)
		}})
	}
	// -- go.mod without a module directive (syntactically valid): as a NESTED go.mod in the output
	// directory of the target (mocks/ sub-package) and as the module's own go.mod. Never a crash.
	for _, kind := range []string{"empty", "comment-only", "go-only"} {
		for _, place := range []string{"nested-in-output-dir", "module-root"} {
			kind, place := kind, place
			nd := need{}
			if place == "nested-in-output-dir" {
				nd.layout = 2
			}
			add(&entry{ID: "u-gomod/no-module-directive/" + kind + "/" + place, Level: "file", Unusual: true, Need: nd, Apply: func(t *rapid.T, b *builder) {
				text := map[string]string{"empty": "", "comment-only": "// placeholder so that tools treat this directory as a separate module\n", "go-only": "go 1.23\n"}[kind]
				if place == "module-root" {
					b.files["go.mod"] = text
				} else {
					b.files[b.tp().Dir+"/mocks/go.mod"] = text
				}
				b.note("go.mod without a module directive (%s) at %s", kind, place)
			}})
		}
	}

	// -- custom (file://) template whose schema cannot be retrieved for a strict output file, while a
	// sibling output file sharing template + schema URL is lenient (require-template-schema-exists: false)
	customTemplate := func(t *rapid.T, b *builder) int {
		other := (b.tgt + 1 + rapid.IntRange(0, len(b.ctx.Pkgs)-2).Draw(t, "lenient-pkg")) % len(b.ctx.Pkgs)
		b.files["tmpl/custom.templ"] = "// Code generated for tests. DO NOT EDIT.\n\npackage {{.PkgName}}\n{{range .Interfaces}}\ntype {{.StructName}} struct{}\n{{end}}"
		b.files["tmpl/custom.templ.schema.json"] = "{\"$schema\": \"http://json-schema.org/draft-07/schema#\", \"type\": \"object\"}\n"
		for _, i := range []int{b.tgt, other} {
			b.pkgCfg(i).Set("template", "file://./tmpl/custom.templ")
			stripPkg(b.pkgNode(i), "template", false)
		}
		return other
	}
	{
		var other int
		add(&entry{ID: "custom-template-schema-missing/strict+lenient-sibling", Level: "package", MustFail: true, Repeat: 5,
			Prepare: func(t *rapid.T, b *builder) { other = customTemplate(t, b) },
			Apply: func(t *rapid.T, b *builder) {
				delete(b.files, "tmpl/custom.templ.schema.json")
				b.pkgCfg(other).Set("require-template-schema-exists", false)
				stripPkg(b.pkgNode(other), "require-template-schema-exists", false)
				b.note("file:// template shared by %s (strict) and %s (require-template-schema-exists: false); the schema file does not exist", b.pkgPath(b.tgt), b.pkgPath(other))
			}})
	}

	add(&entry{ID: "u-plain", Level: "root", Unusual: false, Apply: func(t *rapid.T, b *builder) {
		b.note("no fault (plain valid configuration)")
	}})
	return cat
}

var catalogue = buildCatalogue()

func (e *entry) key() string { return e.ID + "@" + e.Level }

// ---- case -----------------------------------------------------------------------------------------

type Variant struct {
	Files map[string]string `json:"files"`
	Env   []string          `json:"env,omitempty"`
	Cwd   string            `json:"cwd"`
	Args  []string          `json:"args,omitempty"`
}

type Case struct {
	Entry      string            `json:"entry"`
	Second     string            `json:"second,omitempty"`
	MustFail   bool              `json:"must_fail"`
	Unusual    bool              `json:"unusual"`
	NonTrivial bool              `json:"non_trivial"`
	Labels     []string          `json:"labels"`
	Desc       []string          `json:"desc"`
	Common     map[string]string `json:"common"`
	Base       Variant           `json:"base"`
	BaseExpect []string          `json:"base_expect"`
	Fault      Variant           `json:"fault"`
	Expect     []string          `json:"expect"`
	Repeat     int               `json:"repeat,omitempty"`
	Needle     string            `json:"needle,omitempty"`
}

func (b *builder) snapshot() (Variant, []string) {
	v := Variant{Files: map[string]string{}, Env: append([]string(nil), b.env...), Cwd: b.cwd, Args: append([]string(nil), b.args...)}
	pre := ""
	if b.prefix != "" {
		pre = b.prefix + "/"
		if v.Cwd == "." {
			v.Cwd = b.prefix
		} else {
			v.Cwd = pre + v.Cwd
		}
	}
	for k, s := range b.files {
		v.Files[pre+k] = s
	}
	if b.cfgPath != "" {
		text := Render(b.cfg)
		if b.cfgText != nil {
			text = *b.cfgText
		}
		v.Files[b.cfgPath] = text
	}
	var exp []string
	for f := range b.expect {
		exp = append(exp, pre+f)
	}
	sort.Strings(exp)
	return v, exp
}

func genFor(t *rapid.T, idx int) Case {
	e := catalogue[idx]
	// decorrelate the contexts of different catalogue entries that share a rapid seed
	for i := 0; i < idx%11; i++ {
		rapid.Bool().Draw(t, "salt")
	}
	ctx, tgt := genCtx(t, e.Need)
	b := newBuilder(t, ctx, tgt)
	if e.Prepare != nil {
		e.Prepare(t, b)
	}
	base, baseExpect := b.snapshot()

	e.Apply(t, b)
	c := Case{Entry: e.key(), MustFail: e.MustFail, Unusual: e.Unusual, Repeat: e.Repeat}
	// A second fault is only added when the first one left the structure of the tree intact: the
	// combinable faults address packages.<p>.config / .interfaces and would silently REBUILD a node
	// that the first fault had replaced by a list (undoing the first fault).
	structural := strings.HasPrefix(e.ID, "kind-list-for-map/") || strings.HasPrefix(e.ID, "kind-map-for-list/") || e.Level == "file" || strings.HasPrefix(e.ID, "iface-missing-standalone/")
	if e.MustFail && !structural && rapid.IntRange(0, 4).Draw(t, "second-fault") == 4 {
		var comb []*entry
		for _, x := range catalogue {
			if x.Combinable && x != e {
				comb = append(comb, x)
			}
		}
		s := comb[rapid.IntRange(0, len(comb)-1).Draw(t, "second-entry")]
		if b.cfgText == nil { // a second fault in the tree is pointless once the text was replaced
			s.Apply(t, b)
			c.Second = s.key()
		}
	}
	fault, expect := b.snapshot()

	// common = files identical in both variants
	c.Common = map[string]string{}
	for k, v := range base.Files {
		if fv, ok := fault.Files[k]; ok && fv == v {
			c.Common[k] = v
		}
	}
	for k := range c.Common {
		delete(base.Files, k)
		delete(fault.Files, k)
	}
	c.Base, c.BaseExpect, c.Fault, c.Expect, c.Desc = base, baseExpect, fault, expect, b.desc
	c.NonTrivial = e.Unusual || len(ctx.Pkgs) >= 3 || (e.Level != "root" && e.Level != "env" && e.Level != "file")

	// class labels
	lab := []string{"entry=" + e.key(), "level=" + e.Level, fmt.Sprintf("packages=%d", len(ctx.Pkgs))}
	switch {
	case e.MustFail:
		lab = append(lab, "kind=fault")
	case e.Unusual:
		lab = append(lab, "kind=valid-unusual")
	default:
		lab = append(lab, "kind=robustness")
	}
	if c.Second != "" {
		lab = append(lab, "two-faults")
	}
	tp := &ctx.Pkgs[tgt]
	lab = append(lab, "target-mode="+tp.Mode, fmt.Sprintf("target-layout=%d", ctx.effLayout(tp)), "target-template="+ctx.effTemplate(tp))
	if ctx.RootFormatter != "" {
		lab = append(lab, "formatter="+ctx.RootFormatter)
	}
	c.Labels = append(lab, b.labels...)
	c.Needle = b.needle
	return c
}
