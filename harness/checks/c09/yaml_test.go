package c09

// A tiny ordered YAML document model and emitter. Generated configurations are built as a
// tree of *M (ordered map), []any, scalars, Anchor and Alias values so that the rendering is
// deterministic (no dependence on Go map order) and so that faults can be injected at an exact
// position of the tree.

import (
	"fmt"
	"regexp"
	"strconv"
	"strings"
)

type kv struct {
	K string
	V any
}

// M is an ordered map.
type M struct{ kvs []kv }

func NewM(pairs ...any) *M {
	m := &M{}
	for i := 0; i+1 < len(pairs); i += 2 {
		m.Set(pairs[i].(string), pairs[i+1])
	}
	return m
}

func (m *M) idx(k string) int {
	for i := range m.kvs {
		if m.kvs[i].K == k {
			return i
		}
	}
	return -1
}

func (m *M) Has(k string) bool { return m.idx(k) >= 0 }

func (m *M) Get(k string) any {
	if i := m.idx(k); i >= 0 {
		return m.kvs[i].V
	}
	return nil
}

func (m *M) Set(k string, v any) {
	if i := m.idx(k); i >= 0 {
		m.kvs[i].V = v
		return
	}
	m.kvs = append(m.kvs, kv{k, v})
}

// SetFirst puts k in front of every other key.
func (m *M) SetFirst(k string, v any) {
	m.Del(k)
	m.kvs = append([]kv{{k, v}}, m.kvs...)
}

func (m *M) Del(k string) {
	if i := m.idx(k); i >= 0 {
		m.kvs = append(m.kvs[:i:i], m.kvs[i+1:]...)
	}
}

func (m *M) Len() int { return len(m.kvs) }

func (m *M) Keys() []string {
	out := make([]string, len(m.kvs))
	for i := range m.kvs {
		out[i] = m.kvs[i].K
	}
	return out
}

// Map returns the child map at k, creating it (also when the present value is nil / not a map).
func (m *M) Map(k string) *M {
	if c, ok := m.Get(k).(*M); ok && c != nil {
		return c
	}
	c := &M{}
	m.Set(k, c)
	return c
}

// Anchor emits "&name" in front of its value, Alias emits "*name".
type Anchor struct {
	Name string
	V    any
}
type Alias struct{ Name string }

var plainKeyRe = regexp.MustCompile(`^[A-Za-z0-9_./<-]+$`)

func yamlKey(k string) string {
	if plainKeyRe.MatchString(k) && k != "null" && k != "true" && k != "false" && k != "~" {
		return k
	}
	return strconv.Quote(k)
}

func yamlScalar(v any) string {
	switch x := v.(type) {
	case nil:
		return ""
	case string:
		return strconv.Quote(x)
	case bool:
		return strconv.FormatBool(x)
	case int:
		return strconv.Itoa(x)
	case float64:
		return strconv.FormatFloat(x, 'g', -1, 64)
	case Alias:
		return "*" + x.Name
	}
	panic(fmt.Sprintf("yamlScalar: unsupported %T", v))
}

func isScalar(v any) bool {
	switch x := v.(type) {
	case nil, string, bool, int, float64, Alias:
		return true
	case *M:
		return x == nil
	}
	return false
}

func emitValue(sb *strings.Builder, v any, indent int, prefix string) {
	// prefix is what has already been written on the current line ("key:" or "-"); the value
	// is appended either on the same line (scalars, empty collections) or as a nested block.
	if a, ok := v.(Anchor); ok {
		sb.WriteString(" &" + a.Name)
		emitValue(sb, a.V, indent, prefix)
		return
	}
	switch x := v.(type) {
	case *M:
		if x == nil {
			sb.WriteString("\n")
			return
		}
		if x.Len() == 0 {
			sb.WriteString(" {}\n")
			return
		}
		sb.WriteString("\n")
		emitMap(sb, x, indent+2)
	case []any:
		if len(x) == 0 {
			sb.WriteString(" []\n")
			return
		}
		sb.WriteString("\n")
		emitList(sb, x, indent+2)
	default:
		s := yamlScalar(v)
		if s != "" {
			sb.WriteString(" " + s)
		}
		sb.WriteString("\n")
	}
}

func emitMap(sb *strings.Builder, m *M, indent int) {
	pad := strings.Repeat(" ", indent)
	for _, e := range m.kvs {
		sb.WriteString(pad + yamlKey(e.K) + ":")
		emitValue(sb, e.V, indent, "")
	}
}

func emitList(sb *strings.Builder, l []any, indent int) {
	pad := strings.Repeat(" ", indent)
	for _, v := range l {
		sb.WriteString(pad + "-")
		switch x := v.(type) {
		case *M:
			if x == nil || x.Len() == 0 {
				sb.WriteString(" {}\n")
				continue
			}
			// first key on the dash line, remaining keys aligned below it
			var inner strings.Builder
			emitMap(&inner, x, indent+2)
			s := inner.String()
			sb.WriteString(" " + strings.TrimPrefix(s, strings.Repeat(" ", indent+2)))
		default:
			emitValue(sb, v, indent, "-")
		}
	}
}

// Render renders the document rooted at m.
func Render(m *M) string {
	var sb strings.Builder
	emitMap(&sb, m, 0)
	return sb.String()
}

// cloneY deep-copies a document value.
func cloneY(v any) any {
	switch x := v.(type) {
	case *M:
		if x == nil {
			return (*M)(nil)
		}
		c := &M{}
		for _, e := range x.kvs {
			c.kvs = append(c.kvs, kv{e.K, cloneY(e.V)})
		}
		return c
	case []any:
		c := make([]any, len(x))
		for i := range x {
			c[i] = cloneY(x[i])
		}
		return c
	case Anchor:
		return Anchor{x.Name, cloneY(x.V)}
	}
	return v
}
