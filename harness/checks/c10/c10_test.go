// C10 — output files are written safely: no stray writes, no clobbering, all-or-nothing.
//
// A case is a scratch Go module (1-4 packages with simple interfaces), a .mockery.yml that
// designates 1-5 output files (testify/matryer mocks in separate mocks packages, in-package
// _test.go files, non-.go outputs of a probe template), an initial state for every output
// path (absent / previously generated, identical or stale / user content / a directory),
// bystander files, force-file-write at root (yaml or environment), package and interface
// (config or configs) level, optionally one injected single-stage failure for one of the
// files, and a history of 1-3 runs (config edits, source bumps, repair of the fault between
// runs). The oracle is a history invariant over full tree snapshots before/after every run;
// the "new" content of every output is what a clean reference run (all outputs absent,
// force-file-write true, no fault) produced at the same absolute path.
package c10

import (
	"fmt"
	"os"
	"path/filepath"
	"sort"
	"strings"
	"testing"

	"pgregory.net/rapid"
	"verif/harness/vh"
)

// ---- case ---------------------------------------------------------------------------------------

type Out struct {
	FFW        string `json:"ffw"`         // interface-level force-file-write: "", "true", "false" (same on every interface of the file)
	ViaConfigs bool   `json:"via_configs"` // interface-level settings are written as `configs: [ {...} ]` instead of `config: {...}`
	Init       string `json:"init"`        // absent | gen-same | gen-stale | user | user-long | user-empty | dir | dir-nonempty
}

type Pkg struct {
	Name        string `json:"name"`
	NIf         int    `json:"nif"`          // 1 or 2 interfaces
	Kind        string `json:"kind"`         // mocks | inpkg | probe
	Tmpl        string `json:"tmpl"`         // testify | matryer (mocks, inpkg)
	Split       bool   `json:"split"`        // one file per interface instead of one file for the package
	SplitHow    string `json:"split_how"`    // templated | lower | iface (interface-level filename)
	DirSp       int    `json:"dir_sp"`       // spelling of the dir value
	FFW         string `json:"ffw"`          // package-level force-file-write
	All         bool   `json:"all"`          // `all: true` instead of listing interfaces (only when nothing is needed below package level)
	DefaultName bool   `json:"default_name"` // inpkg, unsplit: leave filename at its default (mocks_test.go)
	ProbeSchema bool   `json:"probe_schema"` // probe: ship a schema file (else require-template-schema-exists: false)
	ProbeWhere  string `json:"probe_where"`  // gen | src | root
	MixedDir    int    `json:"mixed_dir"`    // unsplit file with two interfaces: 0 dir at package level; 1 each interface spells the same dir differently (both relative); 2 one relative, one absolute
	FileSp      int    `json:"file_sp"`      // spelling of the filename value: 0 plain name, else with a directory component (see fileSpellings)
	Outs        []Out  `json:"outs"`
}

// fileSpellings: how a filename value is written and which path below (or next to) dir it
// designates. The docs define the output as dir joined with filename; the designated file is
// Clean(dir/filename) whatever the spelling (verified on the unchanged tree for all of these).
var fileSpellings = []struct{ name, value, resolved string }{
	{"plain", "", ""},
	{"nest/", "nest/", "nest/"},
	{"./", "./", ""},
	{"../", "../", "../"},
	{"nest/../", "nest/../", ""},
	{"nest/deep/", "nest/deep/", "nest/deep/"},
	{"templated/", "{{.SrcPackageName}}/", "%PKG%/"},
	{"nest//", "nest//", "nest/"},
	{"../nest/", "../nest/", "../nest/"},
}

type Fault struct {
	Stage   string `json:"stage"`   // "" | template | schema | exec-readfile | exec-index | format | mkdir | write
	Pkg     int    `json:"pkg"`     // target package
	Out     int    `json:"out"`     // target output of that package
	Variant int    `json:"variant"` // schema: 0 unknown key, 1 wrong type; mkdir: 0 parent dir, 1 its parent
}

type Step struct {
	RootFFW string `json:"root_ffw"` // "", "true", "false"
	RootVia string `json:"root_via"` // yaml | env
	FaultOn bool   `json:"fault_on"`
	Bump    bool   `json:"bump"` // the sources gain a method before this run (new content differs)
}

type Case struct {
	Formatter   string `json:"formatter"` // root: "", goimports, gofmt, noop
	SharedMocks bool   `json:"shared_mocks"`
	Pkgs        []Pkg  `json:"pkgs"`
	Fault       Fault  `json:"fault"`
	Steps       []Step `json:"steps"`
	Bystanders  []bool `json:"bystanders"`
}

const modPath = "example.com/m"

var pkgNames = []string{"alpha", "beta", "gamma", "delta"}

var ifaceNames = map[string][]string{
	"alpha": {"Reader", "Closer"},
	"beta":  {"Store", "Cache"},
	"gamma": {"Notifier", "Sender"},
	"delta": {"Clock", "Timer"},
}

var ifaceBody = map[string]string{
	"Reader":   "\tRead(p []byte) (int, error)\n",
	"Closer":   "\tClose() error\n",
	"Store":    "\tGet(ctx context.Context, key string) (string, bool)\n\tPut(ctx context.Context, key, value string) error\n",
	"Cache":    "\tLookup(key string) ([]byte, bool)\n",
	"Notifier": "\tNotify(subject string, args ...any) error\n",
	"Sender":   "\tSend(to []string, body io.Reader) (n int, err error)\n",
	"Clock":    "\tNow() time.Time\n",
	"Timer":    "\tAfter(d time.Duration) <-chan time.Time\n",
}

var pkgImports = map[string]string{"alpha": "", "beta": "import \"context\"\n\n", "gamma": "import \"io\"\n\n", "delta": "import \"time\"\n\n"}

const nBystanders = 15

var initStates = []string{"absent", "absent", "absent", "gen-same", "gen-same", "gen-stale", "gen-stale", "gen-stale", "user", "user", "user", "user-long", "user-empty", "dir", "dir-nonempty"}
var stages = []string{"", "", "", "template", "schema", "exec-readfile", "exec-index", "format", "mkdir", "write"}
var tri = []string{"", "", "true", "false"}

// key of the known behaviour (DESIGN section 6 row 10): a force-file-write: false written at
// interface level is ignored, the package-level value decides.
const keyIfaceFalse = "run/ffw=interface:false/existing-output-not-protected"
const keyConfigsFalse = "run/ffw=configs:false/existing-output-not-protected"

// key of the second behaviour met on the unchanged tree: two interfaces that designate the same
// file, one through a relative and one through an absolute dir, are not recognised as sharing it.
const keyMixedDir = "run/dir=abs+rel-same-file/output-neither-old-nor-new"

func gen(t *rapid.T) Case {
	c := Case{
		Formatter:   rapid.SampledFrom([]string{"", "goimports", "gofmt", "noop"}).Draw(t, "formatter"),
		SharedMocks: rapid.Bool().Draw(t, "shared_mocks"),
	}
	npk := rapid.IntRange(1, 4).Draw(t, "npkgs")
	budget := 5
	for i := 0; i < npk; i++ {
		p := Pkg{Name: pkgNames[i]}
		p.NIf = rapid.IntRange(1, 2).Draw(t, "nif")
		p.Kind = rapid.SampledFrom([]string{"mocks", "mocks", "inpkg", "probe"}).Draw(t, "kind")
		p.Tmpl = rapid.SampledFrom([]string{"testify", "testify", "matryer"}).Draw(t, "tmpl")
		p.Split = rapid.Bool().Draw(t, "split") && p.NIf == 2 && budget-2 >= npk-i-1
		p.SplitHow = rapid.SampledFrom([]string{"templated", "lower", "iface"}).Draw(t, "split_how")
		p.DirSp = rapid.IntRange(0, 7).Draw(t, "dir_sp")
		p.FFW = rapid.SampledFrom(tri).Draw(t, "pkg_ffw")
		p.All = rapid.IntRange(0, 3).Draw(t, "all") == 3
		p.DefaultName = rapid.Bool().Draw(t, "default_name")
		p.ProbeSchema = rapid.Bool().Draw(t, "probe_schema")
		p.ProbeWhere = rapid.SampledFrom([]string{"gen", "gen", "src", "root"}).Draw(t, "probe_where")
		p.MixedDir = rapid.SampledFrom([]int{0, 0, 0, 1, 2}).Draw(t, "mixed_dir")
		if rapid.Bool().Draw(t, "file_sp_set") {
			p.FileSp = rapid.IntRange(1, len(fileSpellings)-1).Draw(t, "file_sp")
		}
		n := 1
		if p.Split {
			n = 2
		}
		budget -= n
		for j := 0; j < n; j++ {
			o := Out{
				Init:       rapid.SampledFrom(initStates).Draw(t, "init"),
				ViaConfigs: rapid.Bool().Draw(t, "via_configs"),
			}
			if rapid.IntRange(0, 2).Draw(t, "iface_ffw_set") == 2 {
				o.FFW = rapid.SampledFrom([]string{"true", "false"}).Draw(t, "iface_ffw")
			}
			p.Outs = append(p.Outs, o)
		}
		c.Pkgs = append(c.Pkgs, p)
	}
	c.Fault.Stage = rapid.SampledFrom(stages).Draw(t, "fault_stage")
	if c.Fault.Stage != "" {
		c.Fault.Pkg = rapid.IntRange(0, npk-1).Draw(t, "fault_pkg")
		c.Fault.Out = rapid.IntRange(0, 1).Draw(t, "fault_out")
		c.Fault.Variant = rapid.IntRange(0, 1).Draw(t, "fault_variant")
	}
	ns := rapid.IntRange(1, 3).Draw(t, "nsteps")
	for i := 0; i < ns; i++ {
		c.Steps = append(c.Steps, Step{
			RootFFW: rapid.SampledFrom([]string{"", "true", "true", "false"}).Draw(t, "root_ffw"),
			RootVia: rapid.SampledFrom([]string{"yaml", "yaml", "env"}).Draw(t, "root_via"),
			FaultOn: rapid.IntRange(0, 3).Draw(t, "fault_on") > 0,
			Bump:    rapid.IntRange(0, 3).Draw(t, "bump") == 0,
		})
	}
	for i := 0; i < nBystanders; i++ {
		c.Bystanders = append(c.Bystanders, rapid.Bool().Draw(t, "bystander"))
	}
	if rapid.IntRange(0, 2).Draw(t, "permissive") == 0 {
		// a third of the cases: every level that speaks says true and no directory squats on an
		// output path, so that runs are stopped by the injected fault only (or not at all)
		for i := range c.Pkgs {
			if c.Pkgs[i].FFW == "false" {
				c.Pkgs[i].FFW = "true"
			}
			for j := range c.Pkgs[i].Outs {
				o := &c.Pkgs[i].Outs[j]
				if o.FFW == "false" {
					o.FFW = "true"
				}
				if strings.HasPrefix(o.Init, "dir") {
					o.Init = "user"
				}
			}
		}
		for i := range c.Steps {
			c.Steps[i].RootFFW = "true"
		}
	}
	return normalise(c)
}

// normalise makes a drawn (or replayed) case consistent by construction: the fault gets a
// target that can carry it, interface-level settings exclude `all: true`, and so on. It is
// idempotent, so replayed cases pass through unchanged.
func normalise(c Case) Case {
	for i := range c.Pkgs {
		p := &c.Pkgs[i]
		if p.NIf < 1 {
			p.NIf = 1
		}
		if p.NIf > 2 {
			p.NIf = 2
		}
		if p.NIf == 1 {
			p.Split = false
		}
		want := 1
		if p.Split {
			want = 2
		}
		for len(p.Outs) < want {
			p.Outs = append(p.Outs, Out{Init: "absent"})
		}
		p.Outs = p.Outs[:want]
	}
	f := &c.Fault
	if f.Stage != "" && len(c.Pkgs) > 0 {
		f.Pkg %= len(c.Pkgs)
		p := &c.Pkgs[f.Pkg]
		f.Out %= len(p.Outs)
		switch f.Stage {
		case "exec-readfile", "exec-index", "format":
			p.Kind = "probe"
			if c.Formatter == "noop" && f.Stage == "format" {
				c.Formatter = "gofmt"
			}
		case "schema":
			if p.Kind == "probe" {
				p.ProbeSchema = true
			}
		case "mkdir":
			if p.Kind == "inpkg" {
				p.Kind = "mocks"
			}
			if p.Kind == "probe" {
				p.ProbeWhere = "gen"
			}
			if strings.HasPrefix(fileSpellings[clampSp(p.FileSp)].resolved, "../") {
				p.FileSp = 1 // the directory to block must lie below the module root
			}
		case "write":
			if !strings.HasPrefix(p.Outs[f.Out].Init, "dir") {
				p.Outs[f.Out].Init = "dir"
			}
		}
	}
	for i := range c.Pkgs {
		p := &c.Pkgs[i]
		p.FileSp = clampSp(p.FileSp)
		if strings.HasPrefix(fileSpellings[p.FileSp].resolved, "../") && (p.Kind == "inpkg" || (p.Kind == "probe" && p.ProbeWhere == "root")) {
			// in-package file names are not package specific (two packages would meet one level up),
			// and a root-level probe output would leave the module
			p.FileSp = 1
		}
		if p.Kind == "inpkg" && !p.Split && p.DefaultName {
			p.FileSp = 0 // no filename value is written at all
		}
		needBelow := p.Split && p.SplitHow == "iface"
		if p.Split || p.NIf != 2 || p.MixedDir < 0 || p.MixedDir > 2 {
			p.MixedDir = 0
		}
		if p.MixedDir == 2 && mixedDirKnown() {
			vh.Excluded(keyMixedDir)
			p.MixedDir = 1
		}
		if p.MixedDir != 0 {
			needBelow = true
		}
		for j := range p.Outs {
			o := &p.Outs[j]
			if o.FFW == "false" && ((o.ViaConfigs && vh.Known(keyConfigsFalse)) || (!o.ViaConfigs && vh.Known(keyIfaceFalse))) {
				// recorded finding: steer away from the trigger so that the campaign keeps searching behind it
				if o.ViaConfigs {
					vh.Excluded(keyConfigsFalse)
				} else {
					vh.Excluded(keyIfaceFalse)
				}
				o.FFW = ""
			}
			if o.FFW != "" {
				needBelow = true
			}
			if o.Init == "user-empty" && isGoOutput(*p) {
				o.Init = "user" // an empty .go file is not a valid Go file
			}
		}
		if f.Stage != "" && f.Pkg == i && (f.Stage == "schema" || f.Stage == "exec-readfile" || f.Stage == "exec-index" || f.Stage == "format") {
			needBelow = true
		}
		if needBelow {
			p.All = false
		}
	}
	return c
}

// mixedDirKnown reports whether the abs+rel finding is listed under any of the diagnostics it
// can show up with.
func mixedDirKnown() bool {
	for _, diag := range []string{"output-neither-old-nor-new", "protected-output-changed", "existing-output-not-protected", "exit0", "exit0-output-not-new"} {
		if vh.Known("run/dir=abs+rel-same-file/" + diag) {
			return true
		}
	}
	return false
}

func clampSp(sp int) int {
	if sp < 0 || sp >= len(fileSpellings) {
		return 0
	}
	return sp
}

func isGoOutput(p Pkg) bool { return p.Kind != "probe" }

// ---- model: designated outputs, config rendering ------------------------------------------------

type outM struct {
	pkg, idx int
	rel      string   // designated path relative to the module root (cleaned)
	ifaces   []string // interfaces whose mocks land in this file
	goPkg    string   // package clause of a valid user file at this path ("" for non-.go outputs)
	filename string   // interface-level filename value ("" if not written at interface level)
}

type pkgM struct {
	dirValue  string   // value written for `dir` ("" = not written)
	fileValue string   // value written for `filename` at package level ("" = not written)
	pkgname   string   // value written for `pkgname` ("" = not written)
	target    string   // cleaned target directory relative to the root
	ifaceDirs []string // MixedDir: dir value written at interface level for interface 0 and 1
	outs      []*outM
}

type model struct {
	c    Case
	pkgs []pkgM
	outs []*outM
}

func spellDir(target string, src string, sp int) string {
	first, rest, _ := strings.Cut(target, "/")
	switch sp {
	case 1:
		return "./" + target
	case 2:
		if rest == "" {
			return first + "/zz/.."
		}
		return first + "/zz/../" + rest
	case 3:
		return target + "/"
	case 4:
		return "{{.InterfaceDir}}/../" + target
	case 5:
		return "{{.ConfigDir}}/" + target
	case 6:
		return "{{.InterfaceDirRelative}}/../" + target
	case 7:
		return "zz/../" + target
	}
	return target
}

func build(c Case) *model {
	m := &model{c: c}
	for pi, p := range c.Pkgs {
		var pm pkgM
		names := ifaceNames[p.Name][:p.NIf]
		if p.All {
			names = ifaceNames[p.Name] // `all: true` mocks every interface the package declares
		}
		switch p.Kind {
		case "mocks":
			pm.target = "mocks/" + p.Name
			pm.pkgname = "mocks" + p.Name
			if c.SharedMocks {
				pm.target, pm.pkgname = "mocks", "mocks"
			}
			pm.dirValue = spellDir(pm.target, p.Name, p.DirSp)
		case "inpkg":
			pm.target = p.Name
			switch p.DirSp {
			case 0, 1:
				pm.dirValue = "" // default {{.InterfaceDir}}
			case 2:
				pm.dirValue = "{{.InterfaceDir}}"
			case 3:
				pm.dirValue = "{{.InterfaceDirRelative}}"
			case 4:
				pm.dirValue = p.Name
			case 5:
				pm.dirValue = "./" + p.Name
			case 6:
				pm.dirValue = p.Name + "/../" + p.Name
			default:
				pm.dirValue = "zz/../" + p.Name
			}
		case "probe":
			switch p.ProbeWhere {
			case "src":
				pm.target = p.Name
				pm.dirValue = []string{"", "{{.InterfaceDir}}", "{{.InterfaceDirRelative}}", p.Name, "./" + p.Name, p.Name + "/../" + p.Name, "zz/../" + p.Name, p.Name + "/"}[p.DirSp%8]
			case "root":
				pm.target = "."
				pm.dirValue = []string{".", "./", "{{.ConfigDir}}", p.Name + "/..", "{{.InterfaceDir}}/..", ".", "./", "{{.ConfigDir}}"}[p.DirSp%8]
			default:
				pm.target = "gen/" + p.Name
				pm.dirValue = spellDir(pm.target, p.Name, p.DirSp)
			}
		}
		fsp := fileSpellings[clampSp(p.FileSp)]
		mk := func(idx int, file string, ifs []string, ifaceLevel bool) {
			resolved := strings.ReplaceAll(fsp.resolved, "%PKG%", p.Name) + file
			o := &outM{pkg: pi, idx: idx, rel: filepath.Clean(filepath.Join(pm.target, resolved)), ifaces: ifs}
			if ifaceLevel {
				o.filename = fsp.value + file
			}
			if p.Kind == "mocks" {
				o.goPkg = pm.pkgname
			} else if p.Kind == "inpkg" {
				o.goPkg = p.Name
			}
			pm.outs = append(pm.outs, o)
			m.outs = append(m.outs, o)
		}
		switch {
		case p.MixedDir == 0:
		case pm.target == ".":
			pm.ifaceDirs = []string{".", "./"}
			if p.MixedDir == 2 {
				pm.ifaceDirs[1] = "{{.InterfaceDir}}/.."
			}
		case pm.target == p.Name:
			pm.ifaceDirs = []string{p.Name, "./" + p.Name}
			if p.MixedDir == 2 {
				pm.ifaceDirs[1] = "{{.InterfaceDir}}"
			}
		default:
			pm.ifaceDirs = []string{pm.target, "./" + pm.target + "/"}
			if p.MixedDir == 2 {
				pm.ifaceDirs[1] = "{{.InterfaceDir}}/../" + pm.target
			}
		}
		var stem, ext string
		switch p.Kind {
		case "mocks":
			stem, ext = "mock_"+p.Name, ".go"
		case "inpkg":
			stem, ext = "mock", "_test.go"
		default:
			stem, ext = "probe_"+p.Name, ".gen.txt"
		}
		if !p.Split {
			file := stem + ext
			if p.Kind == "inpkg" {
				file = "mocks_test.go"
				if !p.DefaultName {
					pm.fileValue = fsp.value + file
				}
			} else {
				pm.fileValue = fsp.value + file
			}
			mk(0, file, names, false)
		} else {
			for j, n := range names {
				switch p.SplitHow {
				case "templated":
					pm.fileValue = fsp.value + stem + "_{{.InterfaceName}}" + ext
					mk(j, stem+"_"+n+ext, []string{n}, false)
				case "lower":
					pm.fileValue = fsp.value + "{{.InterfaceName | lower}}_" + stem + ext
					mk(j, strings.ToLower(n)+"_"+stem+ext, []string{n}, false)
				default:
					mk(j, fmt.Sprintf("%s_%d%s", stem, j, ext), []string{n}, true)
				}
			}
		}
		m.pkgs = append(m.pkgs, pm)
	}
	return m
}

// failing reports the outputs hit by the injected fault (when it is switched on).
func (m *model) failing() map[*outM]bool {
	res := map[*outM]bool{}
	f := m.c.Fault
	if f.Stage == "" {
		return res
	}
	switch f.Stage {
	case "template":
		for _, o := range m.pkgs[f.Pkg].outs {
			res[o] = true
		}
	case "mkdir":
		b := m.blocker()
		for _, o := range m.outs {
			if strings.HasPrefix(o.rel, b+"/") {
				res[o] = true
			}
		}
	default:
		res[m.pkgs[f.Pkg].outs[f.Out]] = true
	}
	return res
}

// blocker is the path of the regular file that stands where a directory is needed (mkdir fault).
func (m *model) blocker() string {
	f := m.c.Fault
	t := filepath.Dir(m.pkgs[f.Pkg].outs[f.Out].rel) // the directory the output file goes into
	if f.Variant == 1 && strings.Contains(t, "/") {
		return filepath.Dir(t)
	}
	return t
}

type cfgOpts struct {
	rootFFW  string
	faultOn  bool
	lowerFFW bool // write package / interface level force-file-write
	mixedDir bool // write the per-interface dir spellings of MixedDir packages (the reference run uses the package-level dir)
}

func yq(s string) string { return "'" + strings.ReplaceAll(s, "'", "''") + "'" }

func (m *model) config(o cfgOpts) string {
	c := m.c
	var b strings.Builder
	if c.Formatter != "" {
		fmt.Fprintf(&b, "formatter: %s\n", c.Formatter)
	}
	if o.rootFFW != "" {
		fmt.Fprintf(&b, "force-file-write: %s\n", o.rootFFW)
	}
	b.WriteString("packages:\n")
	f := c.Fault
	for pi, p := range c.Pkgs {
		pm := m.pkgs[pi]
		fmt.Fprintf(&b, "  %s/%s:\n", modPath, p.Name)
		var pb strings.Builder
		if p.All {
			pb.WriteString("      all: true\n")
		}
		if pm.dirValue != "" {
			fmt.Fprintf(&pb, "      dir: %s\n", yq(pm.dirValue))
		}
		if pm.fileValue != "" {
			fmt.Fprintf(&pb, "      filename: %s\n", yq(pm.fileValue))
		}
		if pm.pkgname != "" {
			fmt.Fprintf(&pb, "      pkgname: %s\n", pm.pkgname)
		}
		tmpl := ""
		switch {
		case o.faultOn && f.Stage == "template" && f.Pkg == pi:
			tmpl = "file://tmpl/missing_" + p.Name + ".templ"
		case p.Kind == "probe":
			tmpl = "file://tmpl/probe.templ"
			if !p.ProbeSchema {
				tmpl = "file://tmpl/probe_noschema.templ"
			}
		case p.Tmpl == "matryer":
			tmpl = "matryer"
		}
		if tmpl != "" {
			fmt.Fprintf(&pb, "      template: %s\n", yq(tmpl))
		}
		if p.Kind == "probe" && !p.ProbeSchema {
			pb.WriteString("      require-template-schema-exists: false\n")
		}
		if o.lowerFFW && p.FFW != "" {
			fmt.Fprintf(&pb, "      force-file-write: %s\n", p.FFW)
		}
		if p.Kind == "probe" {
			fmt.Fprintf(&pb, "      template-data:\n        note: %s\n", yq("package "+p.Name))
		}
		if pb.Len() > 0 {
			b.WriteString("    config:\n" + pb.String())
		}
		if p.All {
			continue
		}
		b.WriteString("    interfaces:\n")
		for _, om := range pm.outs {
			out := p.Outs[om.idx]
			for ni, name := range om.ifaces {
				var lines []string
				if o.mixedDir && pm.ifaceDirs != nil && ni < 2 {
					lines = append(lines, "dir: "+yq(pm.ifaceDirs[ni]))
				}
				if om.filename != "" {
					lines = append(lines, "filename: "+yq(om.filename))
				}
				if o.lowerFFW && out.FFW != "" {
					lines = append(lines, "force-file-write: "+out.FFW)
				}
				if p.Kind == "probe" {
					lines = append(lines, "template-data:", "  note: "+yq("interface "+name))
				}
				if o.faultOn && f.Pkg == pi && f.Out == om.idx && name == om.ifaces[0] {
					var poison string
					switch f.Stage {
					case "schema":
						poison = "  bogus-key: 1"
						if f.Variant == 1 {
							if p.Kind == "probe" {
								poison = "  idx: 'not-an-integer'"
							} else {
								poison = "  mock-build-tags: 7"
							}
						}
					case "exec-readfile":
						poison = "  include: 'no/such/file.txt'"
					case "exec-index":
						poison = "  idx: 9"
					case "format":
						poison = "  raw: 'func ('"
					}
					if poison != "" {
						if p.Kind != "probe" {
							lines = append(lines, "template-data:")
						}
						lines = append(lines, poison)
					}
				}
				fmt.Fprintf(&b, "      %s:\n", name)
				if len(lines) == 0 {
					continue
				}
				if out.ViaConfigs {
					b.WriteString("        configs:\n")
					for i, ln := range lines {
						lead := "            "
						if i == 0 {
							lead = "          - "
						}
						b.WriteString(lead + ln + "\n")
					}
				} else {
					b.WriteString("        config:\n")
					for _, ln := range lines {
						b.WriteString("          " + ln + "\n")
					}
				}
			}
		}
	}
	return b.String()
}

const probeTemplate = `// Code generated by the C10 probe template. DO NOT EDIT.
package {{.PkgName}}

// file note: {{ index .TemplateData "note" }}
{{- range .Interfaces }}

// interface {{ .Name }} -> {{ .StructName }} ({{ len .Methods }} methods), note: {{ index .TemplateData "note" }}
{{- if index .TemplateData "include" }}
// include: {{ readFile (index .TemplateData "include") }}
{{- end }}
{{- if index .TemplateData "idx" }}
// pick: {{ (index $.Interfaces (index .TemplateData "idx")).Name }}
{{- end }}
type {{ .StructName }} struct {
{{- range .Methods }}
	{{ .Name }}Calls int
{{- end }}
}
{{- if index .TemplateData "raw" }}
{{ index .TemplateData "raw" }}
{{- end }}
{{- end }}
`

const probeSchema = `{
  "$schema": "http://json-schema.org/draft-07/schema#",
  "title": "C10 probe",
  "type": "object",
  "additionalProperties": false,
  "properties": {
    "note": {"type": "string"},
    "include": {"type": "string"},
    "idx": {"type": "integer"},
    "raw": {"type": "string"}
  }
}
`

func (m *model) sources(version int) map[string]string {
	files := map[string]string{}
	for _, p := range m.c.Pkgs {
		var b strings.Builder
		fmt.Fprintf(&b, "package %s\n\n%s", p.Name, pkgImports[p.Name])
		for _, n := range ifaceNames[p.Name] { // both interfaces are always declared; NIf selects how many are mocked
			fmt.Fprintf(&b, "type %s interface {\n%s", n, ifaceBody[n])
			if version == 1 {
				b.WriteString("\tExtra() int\n")
			}
			b.WriteString("}\n\n")
		}
		// keep every import used even when an interface body does not mention it
		switch p.Name {
		case "beta":
			b.WriteString("var _ context.Context\n")
		case "gamma":
			b.WriteString("var _ io.Reader\n")
		case "delta":
			b.WriteString("var _ time.Time\n")
		}
		files[p.Name+"/"+p.Name+".go"] = b.String()
	}
	return files
}

// ---- tree helpers -------------------------------------------------------------------------------

func must(err error, what string) {
	if err != nil {
		vh.Infra("%s: %v", what, err)
	}
}

func putFile(root, rel, content string, mode os.FileMode) {
	p := filepath.Join(root, rel)
	must(os.MkdirAll(filepath.Dir(p), 0o755), "mkdir")
	must(os.WriteFile(p, []byte(content), 0o644), "write")
	must(os.Chmod(p, mode), "chmod")
}

// occupied reports whether rel cannot be created without disturbing what is there: it exists,
// or one of its ancestors is not a directory.
func occupied(root, rel string) bool {
	if _, err := os.Lstat(filepath.Join(root, rel)); err == nil {
		return true
	}
	for d := filepath.Dir(rel); d != "." && d != "/"; d = filepath.Dir(d) {
		if fi, err := os.Lstat(filepath.Join(root, d)); err == nil && !fi.IsDir() {
			return true
		}
	}
	return false
}

func kindOf(desc string) string {
	switch {
	case desc == "":
		return "absent"
	case desc == "d":
		return "dir"
	case strings.HasPrefix(desc, "f:"):
		return "file"
	}
	return "other"
}

func hashOf(desc string) string {
	if !strings.HasPrefix(desc, "f:") {
		return ""
	}
	parts := strings.SplitN(desc, ":", 3)
	if len(parts) != 3 {
		return ""
	}
	return parts[2]
}

func ancestors(rel string) []string {
	var a []string
	for d := filepath.Dir(rel); d != "." && d != "/"; d = filepath.Dir(d) {
		a = append(a, d)
	}
	return a
}

func userContent(o *outM, variant string, n int) string {
	var b strings.Builder
	if o.goPkg != "" {
		fmt.Fprintf(&b, "package %s\n\n// maintained by hand, not generated (%d)\nvar UserKeep%d = \"keep me\"\n", o.goPkg, n, n)
		if variant == "user-long" {
			for i := 0; i < 400; i++ {
				fmt.Fprintf(&b, "// hand-written line %04d of a long user file that is longer than any generated mock\n", i)
			}
		}
		return b.String()
	}
	switch variant {
	case "user-empty":
		return ""
	case "user-long":
		for i := 0; i < 400; i++ {
			fmt.Fprintf(&b, "user notes line %04d \x01\xff not Go at all {{ }} \n", i)
		}
		return b.String()
	}
	return fmt.Sprintf("user notes %d\nnot generated, not Go: {{ .Nope }} func (\n", n)
}

// ---- judging one run ----------------------------------------------------------------------------

type expect struct {
	newHash map[*outM]string // content hash a successful run leaves at the path ("" = unknown)
	blocked map[*outM]string // reason why the path must keep its old state ("" = may be written)
	label   string           // feature part of the violation key for this run
	fresh   bool             // reference run: the new content is whatever complete file the run writes
	labelOf map[*outM]string // per-output override of label
}

// keyPart is the feature part of the key for a verdict about a protected output.
func (ex expect) keyPart(o *outM, why string) string {
	if l := ex.labelOf[o]; l != "" {
		return l
	}
	return why
}

func (ex expect) lab(o *outM) string {
	if l := ex.labelOf[o]; l != "" {
		return l
	}
	return ex.label
}

type verdict struct {
	key, msg string
}

func (m *model) judge(before, after map[string]string, res vh.Result, ex expect) *verdict {
	if res.TimedOut {
		vh.Infra("mockery timed out")
	}
	if res.Panicked() {
		return &verdict{"run/" + ex.label + "/panic", "mockery panicked"}
	}
	outByRel := map[string]*outM{}
	anc := map[string]bool{}
	for _, o := range m.outs {
		outByRel[o.rel] = o
		for _, a := range ancestors(o.rel) {
			anc[a] = true
		}
	}
	// 1. everything that is not a designated output (or a parent directory of one)
	var paths []string
	seen := map[string]bool{}
	for p := range before {
		if !seen[p] {
			seen[p] = true
			paths = append(paths, p)
		}
	}
	for p := range after {
		if !seen[p] {
			seen[p] = true
			paths = append(paths, p)
		}
	}
	sort.Strings(paths)
	for _, p := range paths {
		if outByRel[p] != nil {
			continue
		}
		b, okb := before[p]
		a, oka := after[p]
		switch {
		case okb && oka && a == b:
		case !okb && oka && a == "d" && anc[p]:
			// parent directory of a designated output: creation is allowed, also when the run fails
		case !okb && oka:
			what := "file"
			if a == "d" {
				what = "directory"
			}
			return &verdict{"run/" + ex.label + "/stray-" + what + "-created", fmt.Sprintf("%s %q appeared; it is neither a designated output nor a parent directory of one", what, p)}
		case okb && !oka:
			return &verdict{"run/" + ex.label + "/bystander-removed", fmt.Sprintf("%q (%s) disappeared", p, kindOf(b))}
		default:
			return &verdict{"run/" + ex.label + "/bystander-modified", fmt.Sprintf("%q is not a designated output but changed: %s -> %s", p, b, a)}
		}
	}
	// 2. designated outputs: old or new, never anything else; blocked ones keep the old state
	anyBlocked := ""
	for _, o := range m.outs {
		b, a := before[o.rel], after[o.rel]
		oldEq := a == b
		newEq := kindOf(a) == "file" && ((ex.newHash[o] != "" && hashOf(a) == ex.newHash[o]) || ex.fresh)
		if !oldEq && !newEq {
			if why := ex.blocked[o]; why != "" {
				return &verdict{"run/" + ex.keyPart(o, why) + "/protected-output-changed", fmt.Sprintf("output %q had to keep its previous state (%s) but changed: %s -> %s (a clean run would write %s)", o.rel, why, descOr(b), descOr(a), ex.newHash[o])}
			}
			return &verdict{"run/" + ex.lab(o) + "/output-neither-old-nor-new", fmt.Sprintf("output %q holds neither its previous state nor the complete new content: before %s, after %s, a clean run writes %s", o.rel, descOr(b), descOr(a), ex.newHash[o])}
		}
		if why := ex.blocked[o]; why != "" {
			if anyBlocked == "" {
				anyBlocked = why
			}
			if !oldEq {
				return &verdict{"run/" + ex.keyPart(o, why) + "/existing-output-not-protected", fmt.Sprintf("output %q had to keep its previous state (%s) but was replaced: %s -> %s", o.rel, why, descOr(b), descOr(a))}
			}
		}
		if res.Exit == 0 && !newEq {
			if why := ex.blocked[o]; why != "" {
				return &verdict{"run/" + ex.keyPart(o, why) + "/exit0", fmt.Sprintf("exit status 0 although output %q could not be produced (%s); it holds %s", o.rel, why, descOr(a))}
			}
			return &verdict{"run/" + ex.lab(o) + "/exit0-output-not-new", fmt.Sprintf("exit status 0 but output %q does not hold the new content: %s, want %s", o.rel, descOr(a), ex.newHash[o])}
		}
	}
	if anyBlocked != "" && res.Exit == 0 {
		// every blocked output happens to hold the new content already (identical regeneration)
		if strings.HasPrefix(anyBlocked, "fault=") || strings.HasPrefix(anyBlocked, "output-is-directory") {
			return &verdict{"run/" + anyBlocked + "/exit0", "exit status 0 although producing one of the files failed"}
		}
		return &verdict{"run/" + anyBlocked + "/existing-output-not-protected", "exit status 0 although an existing output file may not be replaced (force-file-write is false for it)"}
	}
	return nil
}

func descOr(d string) string {
	if d == "" {
		return "absent"
	}
	return d
}

// ---- the property body --------------------------------------------------------------------------

func effFFW(p Pkg, o Out, st Step) (bool, string) {
	switch {
	case o.FFW != "" && o.ViaConfigs:
		return o.FFW == "true", "configs"
	case o.FFW != "":
		return o.FFW == "true", "interface"
	case p.FFW != "":
		return p.FFW == "true", "package"
	case st.RootFFW != "":
		return st.RootFFW == "true", "root-" + st.RootVia
	}
	return false, "default"
}

func lowerFFW(p Pkg, st Step) bool {
	if p.FFW != "" {
		return p.FFW == "true"
	}
	return st.RootFFW == "true"
}

func treeFault(stage string) bool { return stage == "mkdir" || stage == "write" }

func run(c Case) *vh.Violation {
	c = normalise(c)
	if len(c.Pkgs) == 0 || len(c.Steps) == 0 {
		vh.Invalid()
		return nil
	}
	m := build(c)
	seenRel := map[string]bool{}
	for _, o := range m.outs {
		if seenRel[o.rel] {
			vh.Invalid()
			return nil
		}
		seenRel[o.rel] = true
	}

	d := vh.NewScratch()
	defer vh.RemoveAll(d)
	vh.NewModule(d, modPath)
	vh.WriteFiles(d, m.sources(0))
	vh.WriteFiles(d, map[string]string{
		"tmpl/probe.templ":             probeTemplate,
		"tmpl/probe.templ.schema.json": probeSchema,
		"tmpl/probe_noschema.templ":    probeTemplate,
	})

	var history []string
	var lastBefore map[string]string
	fail := func(v *verdict, res vh.Result, before, after map[string]string, cfg string) *vh.Violation {
		files := lastBefore
		if files == nil {
			files = map[string]string{}
		}
		files["cmd.sh"] = "#!/bin/sh\n# tree/ holds the module as it was before the failing run (go.sum omitted: copy /verif/harness/go.sum)\ncd tree && env -i PATH=\"$PATH\" HOME=\"$HOME\" GOFLAGS=-mod=mod GOPROXY=off GOWORK=off " + strings.Join(envOfLast, " ") + " mockery\n"
		obs := strings.Join(history, "\n") + "\n--- config of the failing run\n" + cfg + "\n--- tree diff of the failing run\n" + strings.Join(vh.DiffSnap(before, after), "\n") +
			fmt.Sprintf("\n--- exit %d\n--- stderr (tail)\n%s\n", res.Exit, tail(res.Stderr, 2500))
		return vh.Violate(v.key, "%s", v.msg).With(files, obs)
	}

	placeEarly(d, c, m)

	// -- reference runs: all outputs absent, force-file-write true, no fault ----------------------
	pristine := vh.Snapshot(d)
	refs := map[int]map[*outM]string{}    // version -> output -> content hash
	refBody := map[int]map[*outM]string{} // version -> output -> content
	reference := func(version int) *vh.Violation {
		vh.WriteFiles(d, m.sources(version))
		cfg := m.config(cfgOpts{rootFFW: "true"})
		vh.WriteFiles(d, map[string]string{".mockery.yml": cfg})
		before := vh.Snapshot(d)
		lastBefore = vh.ReadTree(d)
		envOfLast = nil
		res := vh.Mockery(d, nil)
		after := vh.Snapshot(d)
		history = append(history, fmt.Sprintf("reference run (sources v%d, nothing exists, force-file-write true): exit %d, %v", version, res.Exit, vh.DiffSnap(before, after)))
		if v := m.judge(before, after, res, expect{newHash: map[*outM]string{}, blocked: map[*outM]string{}, label: "fresh", fresh: true}); v != nil {
			return fail(v, res, before, after, cfg)
		}
		if res.Exit != 0 {
			vh.Infra("reference run failed (generator bug?): exit %d\n%s\n%s", res.Exit, cfg, tail(res.Stderr, 1500))
		}
		refs[version], refBody[version] = map[*outM]string{}, map[*outM]string{}
		for _, o := range m.outs {
			if kindOf(after[o.rel]) != "file" {
				return fail(&verdict{"run/fresh/exit0-output-missing", fmt.Sprintf("exit status 0 on a fresh tree but the designated output %q was not written (%s)", o.rel, descOr(after[o.rel]))}, res, before, after, cfg)
			}
			body, err := os.ReadFile(filepath.Join(d, o.rel))
			must(err, "read reference output")
			refs[version][o], refBody[version][o] = hashOf(after[o.rel]), string(body)
		}
		// back to the pristine tree
		added := vh.DiffSnap(before, after)
		sort.Sort(sort.Reverse(sort.StringSlice(added)))
		for _, a := range added {
			if strings.HasPrefix(a, "+") {
				must(os.Remove(filepath.Join(d, a[1:])), "restore pristine tree")
			}
		}
		return nil
	}
	needV1 := false
	for _, p := range c.Pkgs {
		for _, o := range p.Outs {
			if o.Init == "gen-stale" {
				needV1 = true
			}
		}
	}
	for _, st := range c.Steps {
		if st.Bump {
			needV1 = true
		}
	}
	if v := reference(0); v != nil {
		countCase(c, m, nil, false)
		return v
	}
	if needV1 {
		if v := reference(1); v != nil {
			countCase(c, m, nil, false)
			return v
		}
		vh.WriteFiles(d, m.sources(0))
	}
	_ = os.Remove(filepath.Join(d, ".mockery.yml"))
	if diff := vh.DiffSnap(pristine, vh.Snapshot(d)); len(diff) != 0 {
		vh.Infra("could not restore the pristine tree after the reference runs: %v", diff)
	}

	// -- initial state ----------------------------------------------------------------------------
	failing := m.failing()
	if c.Fault.Stage == "mkdir" {
		putFile(d, m.blocker(), "this regular file stands where mockery needs a directory\n", 0o644)
	}
	for i, o := range m.outs {
		init := c.Pkgs[o.pkg].Outs[o.idx].Init
		if occupied(d, o.rel) {
			continue // below the blocker of a mkdir fault: the path cannot exist
		}
		switch init {
		case "gen-same":
			putFile(d, o.rel, refBody[0][o], 0o644)
		case "gen-stale":
			putFile(d, o.rel, refBody[1][o], 0o644)
		case "user", "user-long", "user-empty":
			putFile(d, o.rel, userContent(o, init, i), 0o644)
		case "dir":
			must(os.MkdirAll(filepath.Join(d, o.rel), 0o755), "mkdir output dir")
		case "dir-nonempty":
			putFile(d, o.rel+"/inner/kept.txt", "a file inside the directory that occupies the output path\n", 0o644)
		}
	}
	placeBystanders(d, c, m)

	// -- the history ------------------------------------------------------------------------------
	version := 0
	treeFaultOn := treeFault(c.Fault.Stage)
	var stepInfo []stepObs
	for si, st := range c.Steps {
		if st.Bump && version == 0 {
			version = 1
			vh.WriteFiles(d, m.sources(1))
		}
		faultOn := c.Fault.Stage != "" && st.FaultOn
		if treeFault(c.Fault.Stage) {
			// faults that live in the tree can only be repaired, not re-introduced
			if treeFaultOn && !st.FaultOn {
				treeFaultOn = false
				if c.Fault.Stage == "mkdir" {
					must(os.Remove(filepath.Join(d, m.blocker())), "remove blocker")
				} else {
					o := m.pkgs[c.Fault.Pkg].outs[c.Fault.Out]
					must(os.RemoveAll(filepath.Join(d, o.rel)), "remove directory at output path")
				}
			}
			faultOn = treeFaultOn
		}
		cfg := m.config(cfgOpts{rootFFW: pick(st.RootVia == "yaml", st.RootFFW, ""), faultOn: faultOn && !treeFault(c.Fault.Stage), lowerFFW: true, mixedDir: true})
		vh.WriteFiles(d, map[string]string{".mockery.yml": cfg})
		var env []string
		if st.RootVia == "env" && st.RootFFW != "" {
			env = []string{"MOCKERY_FORCE_FILE_WRITE=" + st.RootFFW}
		}
		envOfLast = env
		before := vh.Snapshot(d)
		lastBefore = vh.ReadTree(d)

		ex := expect{newHash: map[*outM]string{}, blocked: map[*outM]string{}, label: "nofault"}
		so := stepObs{faultOn: faultOn}
		ignoredTrue := false
		for _, o := range m.outs {
			p, out := c.Pkgs[o.pkg], c.Pkgs[o.pkg].Outs[o.idx]
			ex.newHash[o] = refs[version][o]
			state := kindOf(before[o.rel])
			if state == "file" {
				switch h := hashOf(before[o.rel]); {
				case h == refs[version][o]:
					state = "gen-same"
				case refs[1-version] != nil && h == refs[1-version][o]:
					state = "gen-stale"
				default:
					state = "user"
				}
			}
			eff, level := effFFW(p, out, st)
			so.outs = append(so.outs, outObs{state: state, eff: eff, level: level, failing: faultOn && failing[o]})
			switch {
			case faultOn && failing[o]:
				ex.blocked[o] = "fault=" + c.Fault.Stage
				if c.Fault.Stage == "write" && !eff {
					ex.blocked[o] = "output-is-directory"
				}
				if c.Fault.Stage != "mkdir" && c.Fault.Stage != "write" {
					ex.newHash[o] = "" // with the poisoned input there is no new content for this file
				}
			case state == "dir":
				ex.blocked[o] = "output-is-directory"
			case state != "absent" && !eff:
				ex.blocked[o] = fmt.Sprintf("ffw=%s:false", strings.TrimSuffix(strings.TrimSuffix(level, "-yaml"), "-env"))
			case state != "absent" && eff && (level == "interface" || level == "configs") && !lowerFFW(p, st):
				ignoredTrue = true
			}
		}
		if faultOn {
			ex.label = "fault=" + c.Fault.Stage
		}
		ex.labelOf = map[*outM]string{}
		for _, o := range m.outs {
			if c.Pkgs[o.pkg].MixedDir == 2 {
				ex.labelOf[o] = "dir=abs+rel-same-file"
			}
		}
		res := vh.Mockery(d, env)
		after := vh.Snapshot(d)
		so.exit = res.Exit
		stepInfo = append(stepInfo, so)
		history = append(history, fmt.Sprintf("run %d (sources v%d, root force-file-write=%q via %s, fault %q on=%v): exit %d, %v", si, version, st.RootFFW, st.RootVia, c.Fault.Stage, faultOn, res.Exit, vh.DiffSnap(before, after)))
		if v := m.judge(before, after, res, ex); v != nil {
			countCase(c, m, stepInfo, true)
			return fail(v, res, before, after, cfg)
		}
		if len(ex.blocked) == 0 && res.Exit != 0 {
			if ignoredTrue {
				// force-file-write: true at interface level is not honoured (the package-level value decides):
				// the run refuses to replace the file. The property only forbids replacing without permission,
				// so this refusal is not demanded otherwise here (it belongs to the configuration hierarchy, C08).
				vh.DontCare("ffw=interface:true/refused-existing-output")
				continue
			}
			vh.Infra("run %d failed although nothing stood in its way (generator bug?): exit %d\n%s\n%s", si, res.Exit, cfg, tail(res.Stderr, 1500))
		}
	}
	countCase(c, m, stepInfo, true)
	return nil
}

var envOfLast []string

func pick(cond bool, a, b string) string {
	if cond {
		return a
	}
	return b
}

func tail(s string, n int) string {
	if len(s) <= n {
		return s
	}
	return "…" + s[len(s)-n:]
}

// ---- bystanders ---------------------------------------------------------------------------------

func placeBystanders(d string, c Case, m *model) {
	on := func(i int) bool { return i < len(c.Bystanders) && c.Bystanders[i] }
	file := func(rel, content string, mode os.FileMode) {
		if !occupied(d, rel) {
			putFile(d, rel, content, mode)
		}
	}
	first := m.outs[0]
	last := m.outs[len(m.outs)-1]
	goFile := func(o *outM, ident string) string {
		pkg := o.goPkg
		if pkg == "" {
			pkg = "misc"
		}
		return fmt.Sprintf("package %s\n\nvar %s = 1\n", pkg, ident)
	}
	if on(0) {
		file("README.md", "# scratch module\nnothing to see\n", 0o644)
	}
	if on(1) {
		file(c.Pkgs[0].Name+"/helper.go", "package "+c.Pkgs[0].Name+"\n\nfunc helper() int { return 1 }\n", 0o644)
	}
	if on(2) {
		file(first.rel+".bak", "backup of an older mock\n", 0o644)
		file(last.rel+"~", "editor backup\n", 0o644)
	}
	if on(3) && filepath.Dir(first.rel) != "." {
		file(filepath.Dir(first.rel)+"2/"+filepath.Base(first.rel), goFile(first, "SiblingDir"), 0o644)
		dd := filepath.Dir(first.rel)
		file(dd[:len(dd)-1]+"/"+filepath.Base(first.rel), goFile(first, "PrefixDir"), 0o644)
	}
	if on(4) && filepath.Dir(last.rel) != "." {
		file(filepath.Base(last.rel), "same file name at the module root\n", 0o644)
	}
	if on(5) {
		file("docs/readonly.txt", "read-only bystander\n", 0o444)
		if first.goPkg != "" {
			file(filepath.Join(filepath.Dir(first.rel), "zz_readonly_keep.go"), goFile(first, "ReadOnlyKeep"), 0o444)
		} else {
			file(filepath.Join(filepath.Dir(first.rel), "zz_readonly_keep.txt"), "read-only neighbour\n", 0o444)
		}
	}
	if on(6) {
		file("scripts/gen.sh", "#!/bin/sh\nexec mockery\n", 0o755)
	}
	if on(7) && !occupied(d, "link-to-gomod") {
		must(os.Symlink("go.mod", filepath.Join(d, "link-to-gomod")), "symlink")
	}
	if on(8) {
		b := filepath.Base(last.rel)
		file(filepath.Join(filepath.Dir(last.rel), strings.ToUpper(b[:1])+b[1:]+".orig"), "case variant neighbour\n", 0o644)
		if last.goPkg == "" {
			file(filepath.Join(filepath.Dir(last.rel), strings.ToUpper(b)), "upper-case twin of a non-Go output\n", 0o644)
		}
	}
	if on(9) && last.goPkg != "" {
		file(filepath.Join(filepath.Dir(last.rel), "zz_keep_test.go"), goFile(last, "KeepInTest"), 0o644)
	}
	if on(10) {
		file(filepath.Join(filepath.Dir(first.rel), "sub", filepath.Base(first.rel)), goFile(first, "Nested"), 0o644)
	}
	if on(11) && !occupied(d, "mocks/empty-dir") {
		must(os.MkdirAll(filepath.Join(d, "mocks/empty-dir"), 0o755), "mkdir")
	}
	if on(13) {
		file(".mockery.yml.bak", "# backup of the config; not a name mockery searches for\n", 0o644)
		file("mockery.yml.txt", "notes\n", 0o644)
	}
}

// placeEarly puts the bystanders that must already be there during the reference runs: the zz
// decoys and zz symlinks that only matter to a dir value that is not cleaned lexically.
func placeEarly(d string, c Case, m *model) {
	on := func(i int) bool { return i < len(c.Bystanders) && c.Bystanders[i] }
	blocked := func(rel string) bool {
		if c.Fault.Stage != "mkdir" {
			return false
		}
		b := m.blocker()
		return rel == b || strings.HasPrefix(rel, b+"/")
	}
	file := func(rel, content string, mode os.FileMode) {
		if !occupied(d, rel) && !blocked(rel) {
			putFile(d, rel, content, mode)
		}
	}
	first := m.outs[0]
	last := m.outs[len(m.outs)-1]
	if on(12) {
		// the intermediate directory of `x/zz/../y` style dir values exists and holds same-named files
		file("zz/"+filepath.Base(first.rel), "decoy in zz\n", 0o644)
		file("mocks/zz/"+filepath.Base(first.rel), "decoy in mocks/zz\n", 0o644)
		file("gen/zz/"+filepath.Base(last.rel), "decoy in gen/zz\n", 0o644)
	}
	if on(14) && !occupied(d, "other") {
		for _, p := range c.Pkgs {
			for _, sub := range []string{"other/" + p.Name, "other/mocks/" + p.Name, "other/gen/" + p.Name} {
				must(os.MkdirAll(filepath.Join(d, sub), 0o755), "mkdir")
			}
		}
		// zz is a symlink whose `..` is not the directory it is written in: a path that is not cleaned
		// lexically before use would resolve to other/ instead
		file("other/deep/keep.txt", "target of the zz symlinks\n", 0o644)
		for _, l := range [][2]string{{"zz", "other/deep"}, {"mocks/zz", "../other/deep"}, {"gen/zz", "../other/deep"}} {
			if !occupied(d, l[0]) && !blocked(l[0]) {
				must(os.MkdirAll(filepath.Dir(filepath.Join(d, l[0])), 0o755), "mkdir")
				must(os.Symlink(l[1], filepath.Join(d, l[0])), "symlink")
			}
		}
	}
}

// ---- evidence -----------------------------------------------------------------------------------

type outObs struct {
	state   string
	eff     bool
	level   string
	failing bool
}

type stepObs struct {
	faultOn bool
	exit    int
	outs    []outObs
}

func countCase(c Case, m *model, steps []stepObs, finished bool) {
	cl := []string{
		fmt.Sprintf("packages=%d", len(c.Pkgs)),
		fmt.Sprintf("outputs=%d", len(m.outs)),
		fmt.Sprintf("runs=%d", len(c.Steps)),
		"formatter=" + pick(c.Formatter == "", "unset", c.Formatter),
		"fault=" + pick(c.Fault.Stage == "", "none", c.Fault.Stage),
	}
	nontrivial := false
	for _, p := range c.Pkgs {
		k := p.Kind
		if k != "probe" {
			k += "-" + p.Tmpl
		}
		cl = append(cl, "kind="+k, "pkg-ffw="+pick(p.FFW == "", "unset", p.FFW))
		if p.Split {
			cl = append(cl, "split="+p.SplitHow)
		}
		if p.All {
			cl = append(cl, "all=true")
		}
		cl = append(cl, "filename-sp="+fileSpellings[clampSp(p.FileSp)].name)
		if p.FileSp != 0 {
			cl = append(cl, "filename-with-dir-component")
		}
		if p.MixedDir != 0 {
			cl = append(cl, pick(p.MixedDir == 2, "same-file-dirs=rel+abs", "same-file-dirs=rel+rel"))
		}
		for _, o := range p.Outs {
			cl = append(cl, "init="+o.Init)
			if o.FFW != "" {
				cl = append(cl, "iface-ffw="+o.FFW+pick(o.ViaConfigs, "(configs)", "(config)"))
			}
		}
	}
	nby := 0
	for _, b := range c.Bystanders {
		if b {
			nby++
		}
	}
	cl = append(cl, fmt.Sprintf("bystander-groups=%d", nby/4*4))
	for si, so := range steps {
		st := c.Steps[si]
		cl = append(cl, "root-ffw="+pick(st.RootFFW == "", "unset", st.RootFFW+"("+st.RootVia+")"), fmt.Sprintf("exit=%d", so.exit))
		if st.Bump {
			cl = append(cl, "bump")
		}
		existing, below := false, false
		for oi, oo := range so.outs {
			o := m.outs[oi]
			if oo.state != "absent" {
				existing = true
			}
			if c.Pkgs[o.pkg].FFW != "" || c.Pkgs[o.pkg].Outs[o.idx].FFW != "" {
				below = true
			}
			if oo.failing {
				// the coverage matrix: stage failure x state of the failing file's path
				cl = append(cl, "matrix/fault="+c.Fault.Stage+"/state="+oo.state)
			} else if oo.state != "absent" {
				cl = append(cl, fmt.Sprintf("matrix/existing=%s/ffw=%v@%s", oo.state, oo.eff, oo.level))
			}
		}
		if existing && (so.faultOn || below) {
			nontrivial = true
		}
	}
	if !finished {
		cl = append(cl, "stopped-in-reference-run")
	}
	fp := ""
	if nontrivial {
		fp = vh.Hash(vh.JSON(c))
		if vh.NeedSample() {
			vh.Sample(c)
		}
	}
	vh.Count(fp, cl...)
}

func TestProp(t *testing.T) {
	if _, err := os.Stat(vh.SUT()); err != nil {
		t.Skipf("mockery binary missing: %v", err)
	}
	vh.Main(t, vh.Check[Case]{Gen: gen, Run: run})
}
