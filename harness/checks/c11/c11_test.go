// C11 — templated config values resolve correctly, to a fixpoint, and always terminate.
//
// A case is a scratch Go module (one package with 1-3 files and 1-4 exported/unexported
// interfaces, in the module root or a nested directory), a working directory, a config file
// location together with the way mockery is told about it (search in cwd or a parent,
// --config relative/absolute, MOCKERY_CONFIG relative/absolute) and one template expression
// for each of the templated parameters dir, filename, pkgname, structname, template-schema.
//
// Expressions come from a grammar with a PAIRED reference evaluation: every node of the
// (JSON-serialisable) tree has text() — the template source written into the config — and
// eval() — its value under a set of bindings, computed in plain Go. The oracle never calls
// text/template. "emit" nodes render to the template source of their body, so that the value
// is only reached after >= 2 rendering passes.
//
// The real binary is run twice in the same scratch tree:
//
//	phase 1 (bindings)  structname dumps the raw variables; each is compared with its
//	                    DOCUMENTED meaning (comments on config.TemplateData), paths semantically;
//	phase 2 (values)    the generated expressions; pkgname/structname are read back through a
//	                    probe template that prints them %q-quoted, dir/filename through the
//	                    location of the written file, template-schema by placing a permissive
//	                    schema only at the expected location with require-template-schema-exists.
//
// The four path-valued variables (ConfigDir, InterfaceDir, InterfaceDirRelative, InterfaceFile)
// have no documented spelling (relative or absolute), so phase 2 evaluates the reference with
// the spelling observed in phase 1 after phase 1 has checked that it denotes the documented
// location; all other variables are bound to their documented values.
package c11

import (
	"fmt"
	"os"
	"path/filepath"
	"sort"
	"strconv"
	"strings"
	"testing"

	"pgregory.net/rapid"
	"verif/harness/vh"
)

// ---------------------------------------------------------------------------------------------
// expression trees

// Node is a pipeline operand: a variable, a string literal or a function applied to a subject.
type Node struct {
	K    string   `json:"k"`              // var | str | call
	V    string   `json:"v,omitempty"`    // variable name / literal
	F    string   `json:"f,omitempty"`    // function name
	A    []string `json:"a,omitempty"`    // leading string arguments (subject comes last)
	X    *Node    `json:"x,omitempty"`    // subject
	Pipe bool     `json:"pipe,omitempty"` // written as `subject | f args` instead of `f args subject`
}

// Part is a piece of a templated value.
type Part struct {
	K   string `json:"k"`             // lit | act | emit | raw
	S   string `json:"s,omitempty"`   // lit: text; raw: template source that cannot be rendered
	Err string `json:"err,omitempty"` // raw: kind of failure
	N   *Node  `json:"n,omitempty"`   // act
	Sp  bool   `json:"sp,omitempty"`  // act: {{ x }} instead of {{x}}
	E   []Part `json:"e,omitempty"`   // emit: body
	Q   string `json:"q,omitempty"`   // emit: dq | bq | delim
}

type Param struct {
	Level string `json:"level"` // root | package | interface
	Expr  []Part `json:"expr"`
}

type Iface struct {
	Name string `json:"name"`
	File int    `json:"file"`
}

// Entry is one element of an interface's `configs:` list: its own literal structname and,
// optionally, its own probe template (Templ > 0).
type Entry struct {
	Structname string `json:"structname"`
	Templ      int    `json:"templ,omitempty"`
}

// Decoy is an extra config file that must not be the one in use.
type Decoy struct {
	Dir  string `json:"dir"` // relative to the module root ("..", "../.." = above the module)
	Name string `json:"name"`
}

type Case struct {
	ModPath   string   `json:"modpath"`
	PkgDir    string   `json:"pkgdir"`  // relative to the module root, "." = root
	PkgName   string   `json:"pkgname"` // package clause
	Files     []string `json:"files"`
	Ifaces    []Iface  `json:"ifaces"`
	Listed    []int    `json:"listed"`     // indices into Ifaces named in the config; empty = all: true
	Cwd       string   `json:"cwd"`        // relative to the module root
	CfgMethod string   `json:"cfg_method"` // search | flag-rel | flag-abs | env-rel | env-abs
	CfgDir    string   `json:"cfg_dir"`    // relative to the module root; ".." = the directory above the module
	CfgName   string   `json:"cfg_name"`
	TemplDir  string   `json:"templ_dir"` // where the probe template lives (relative to the module root)
	TemplAbs  bool     `json:"templ_abs"` // template: file://<absolute> or file://<relative to cwd>

	Dir        *Param `json:"dir,omitempty"` // nil = parameter not written (documented default applies)
	Filename   *Param `json:"filename,omitempty"`
	Pkgname    *Param `json:"pkgname_expr,omitempty"`
	Structname *Param `json:"structname,omitempty"`
	Schema     *Param `json:"schema,omitempty"` // non-nil => require-template-schema-exists: true

	// CfgKey: a `config:` parameter written INSIDE the config file (migrate copies it from v2
	// files): "" none, self-name, self-abs, other-rel, other-abs (an existing, different file),
	// missing-rel, missing-abs. The file actually loaded stays the one ConfigDir is about.
	CfgKey string `json:"cfg_key,omitempty"`
	// LineAt[i]: //line directives in Files[i] (goyacc-style generated sources): 0 none, 1 above
	// the package clause, 2 in the middle of the file (before the interfaces), 3 both.
	LineAt  []int  `json:"line_at,omitempty"`
	LineRef string `json:"line_ref,omitempty"` // e.g. grammar/greeter.y

	// Decoys: byte-identical copies of the config file under the accepted search names in other
	// directories (ancestors of the config directory, the same directory under the other name, or
	// - when the file is named explicitly - anywhere on the way up from cwd). The search goes from
	// cwd upwards, so the nearest directory holding a config stays the one in use.
	Decoys []Decoy `json:"decoys,omitempty"`
	// SchemaVictim > 0: the schema at the location template-schema resolves to for mock number
	// (SchemaVictim-1) mod #mocks rejects the (empty) template-data, all other schemas accept:
	// mockery must fail, which shows that this mock's own rendering of template-schema was used.
	SchemaVictim int `json:"schema_victim,omitempty"`

	// Entries, when non-empty, is written as the `configs:` list of every listed interface: one
	// mock per (interface, entry). StructName and Template then belong to the entry.
	Entries []Entry `json:"entries,omitempty"`
}

// ---- text ------------------------------------------------------------------------------------

func goQuote(s string) string {
	return `"` + strings.NewReplacer(`\`, `\\`, `"`, `\"`).Replace(s) + `"`
}

func (n *Node) operand() string {
	if n.K == "call" {
		return "(" + n.text() + ")"
	}
	return n.text()
}

func (n *Node) text() string {
	switch n.K {
	case "var":
		return "." + n.V
	case "str":
		return goQuote(n.V)
	}
	args := ""
	for _, a := range n.A {
		args += " " + goQuote(a)
	}
	if n.Pipe {
		return n.X.text() + " | " + n.F + args
	}
	return n.F + args + " " + n.X.operand()
}

func textOf(ps []Part) string {
	var sb strings.Builder
	for _, p := range ps {
		switch p.K {
		case "lit", "raw":
			sb.WriteString(p.S)
		case "act":
			sp := ""
			if p.Sp {
				sp = " "
			}
			sb.WriteString("{{" + sp + p.N.text() + sp + "}}")
		case "emit":
			inner := textOf(p.E)
			switch {
			case p.Q == "bq" && !strings.Contains(inner, "`"):
				sb.WriteString("{{`" + inner + "`}}")
			case p.Q == "delim":
				// every delimiter of the body is produced by its own action
				var o strings.Builder
				for i := 0; i < len(inner); {
					switch {
					case strings.HasPrefix(inner[i:], "{{"):
						o.WriteString(`{{"{{"}}`)
						i += 2
					case strings.HasPrefix(inner[i:], "}}"):
						o.WriteString(`{{"}}"}}`)
						i += 2
					default:
						o.WriteByte(inner[i])
						i++
					}
				}
				sb.WriteString(o.String())
			default:
				sb.WriteString("{{" + goQuote(inner) + "}}")
			}
		}
	}
	return sb.String()
}

// ---- reference evaluation --------------------------------------------------------------------

type Bind map[string]string

func asciiFirst(s string, up bool) string {
	if s == "" {
		return s
	}
	c := s[0]
	if up && c >= 'a' && c <= 'z' {
		c -= 32
	} else if !up && c >= 'A' && c <= 'Z' {
		c += 32
	}
	return string(c) + s[1:]
}

// funcs: documented as the namesake of the standard library function with the subject last.
var funcArity = map[string]int{"lower": 0, "upper": 0, "firstUpper": 0, "firstLower": 0, "base": 0, "dir": 0, "clean": 0, "trimPrefix": 1, "trimSuffix": 1, "replaceAll": 2}

func (n *Node) eval(b Bind) string {
	switch n.K {
	case "var":
		return b[n.V]
	case "str":
		return n.V
	}
	x := n.X.eval(b)
	switch n.F {
	case "lower":
		return strings.ToLower(x)
	case "upper":
		return strings.ToUpper(x)
	case "firstUpper":
		return asciiFirst(x, true)
	case "firstLower":
		return asciiFirst(x, false)
	case "base":
		return filepath.Base(x)
	case "dir":
		return filepath.Dir(x)
	case "clean":
		return filepath.Clean(x)
	case "trimPrefix":
		return strings.TrimPrefix(x, n.A[0])
	case "trimSuffix":
		return strings.TrimSuffix(x, n.A[0])
	case "replaceAll":
		return strings.ReplaceAll(x, n.A[0], n.A[1])
	}
	panic("unknown function " + n.F)
}

// evalOf returns the fixpoint value of an expression and, if it cannot be rendered, why.
func evalOf(ps []Part, b Bind) (string, string) {
	var sb strings.Builder
	for _, p := range ps {
		switch p.K {
		case "lit":
			sb.WriteString(p.S)
		case "raw":
			return "", p.Err
		case "act":
			sb.WriteString(p.N.eval(b))
		case "emit":
			v, e := evalOf(p.E, b)
			if e != "" {
				return "", e
			}
			sb.WriteString(v)
		}
	}
	return sb.String(), ""
}

// ---- analysis --------------------------------------------------------------------------------

type stats struct {
	vars, funcs map[string]bool
	emits       int
	passes      int  // rendering passes until the text stops changing
	structRefs  int  // occurrences of .StructName
	structInFn  bool // .StructName as the subject of a function
	nonASCIIFst bool
	raw         string
	onlyLit     bool
}

func (n *Node) walk(st *stats, underFn bool) {
	switch n.K {
	case "var":
		st.vars[n.V] = true
		if n.V == "StructName" {
			st.structRefs++
			if underFn {
				st.structInFn = true
			}
		}
	case "call":
		st.funcs[n.F] = true
		n.X.walk(st, true)
	}
}

func analyse(ps []Part) stats {
	st := stats{vars: map[string]bool{}, funcs: map[string]bool{}, onlyLit: true}
	var rec func(ps []Part) int
	rec = func(ps []Part) int {
		m := 0
		for _, p := range ps {
			d := 0
			switch p.K {
			case "raw":
				st.raw = p.Err
				st.onlyLit = false
				d = 1
			case "act":
				st.onlyLit = false
				p.N.walk(&st, false)
				d = 1
			case "emit":
				st.onlyLit = false
				st.emits++
				d = 1 + rec(p.E)
			}
			if d > m {
				m = d
			}
		}
		return m
	}
	st.passes = rec(ps)
	return st
}

// ---------------------------------------------------------------------------------------------
// layout

type layout struct {
	root, mod, cwd, cfgDir, cfgFile, ifaceDir, templFile string
	template                                           string // value of the `template` parameter
	args                                               []string
	env                                                []string
}

func under(p, dir string) bool { return p == dir || strings.HasPrefix(p, dir+"/") }

func (c Case) layout(root string) layout {
	l := layout{root: root, mod: filepath.Join(root, "ws", "mod")}
	l.cwd = filepath.Join(l.mod, c.Cwd)
	l.cfgDir = filepath.Join(l.mod, c.CfgDir)
	l.cfgFile = filepath.Join(l.cfgDir, c.CfgName)
	l.ifaceDir = filepath.Join(l.mod, c.PkgDir)
	l.templFile = filepath.Join(l.mod, c.TemplDir, "probe.templ")
	rel := func(p string) string {
		r, err := filepath.Rel(l.cwd, p)
		if err != nil {
			vh.Infra("rel %s %s: %v", l.cwd, p, err)
		}
		return r
	}
	if c.TemplAbs {
		l.template = "file://" + l.templFile
	} else {
		l.template = "file://" + rel(l.templFile)
	}
	switch c.CfgMethod {
	case "flag-rel":
		l.args = []string{"--config", rel(l.cfgFile)}
	case "flag-abs":
		l.args = []string{"--config", l.cfgFile}
	case "env-rel":
		l.env = []string{"MOCKERY_CONFIG=" + rel(l.cfgFile)}
	case "env-abs":
		l.env = []string{"MOCKERY_CONFIG=" + l.cfgFile}
	}
	return l
}

// templateOf: the probe template of variant k (0 = the root-level one) and the value written
// for the `template` parameter, spelled like the root-level one.
func (l layout) templateOf(k int) (file, value string) {
	if k == 0 {
		return l.templFile, l.template
	}
	file = filepath.Join(filepath.Dir(l.templFile), fmt.Sprintf("probe%d.templ", k))
	return file, strings.TrimSuffix(l.template, "probe.templ") + filepath.Base(file)
}

// cfgKey: the value of the in-file `config:` parameter and the other file it may name.
func (c Case) cfgKey(l layout) (value, otherFile string) {
	other := filepath.Join(l.mod, "alt", "other-config.yml")
	missing := filepath.Join(l.mod, "nowhere", "absent.yml")
	rel := func(p string) string { r, _ := filepath.Rel(l.cwd, p); return r }
	switch c.CfgKey {
	case "self-name":
		return c.CfgName, ""
	case "self-abs":
		return l.cfgFile, ""
	case "other-rel":
		return rel(other), other
	case "other-abs":
		return other, other
	case "missing-rel":
		return rel(missing), ""
	case "missing-abs":
		return missing, ""
	}
	return "", ""
}

func (c Case) entries() []Entry {
	if len(c.Listed) == 0 {
		return nil
	}
	return c.Entries
}

func (c Case) pkgPath() string {
	if c.PkgDir == "." {
		return c.ModPath
	}
	return c.ModPath + "/" + c.PkgDir
}

func (c Case) targets() []Iface {
	if len(c.Listed) == 0 {
		return c.Ifaces
	}
	var out []Iface
	for _, i := range c.Listed {
		if i >= 0 && i < len(c.Ifaces) {
			out = append(out, c.Ifaces[i])
		}
	}
	return out
}

func isExportedASCII(name string) bool { return name != "" && name[0] >= 'A' && name[0] <= 'Z' }

// the two behaviours of design section 6 row 17, as canonical keys
const (
	keyConfigDir = "mockery/binding=ConfigDir/config-found-by-search-above-cwd/not-the-config-file-directory"
	keyIDR       = "mockery/binding=InterfaceDirRelative/not-relative-to-ConfigDir"
)

func (c Case) trigConfigDir() bool {
	return c.CfgMethod == "search" && filepath.Clean(c.CfgDir) != filepath.Clean(c.Cwd)
}

// idrDefined: "InterfaceDir made relative to the ConfigDir" is only demanded when the interface
// lives in or below the config directory (otherwise the code documents a fallback and the docs
// say nothing).
func (c Case) idrDefined() bool {
	l := c.layout("/R")
	return under(l.ifaceDir, l.cfgDir)
}

// trigIDR: layouts in which InterfaceDirRelative was seen to be computed against the working
// directory instead of the config directory.
func (c Case) trigIDR() bool {
	l := c.layout("/R")
	return c.idrDefined() && l.cfgDir != l.cwd
}

func (c Case) idrUsable() bool {
	if !c.idrDefined() {
		return false
	}
	if vh.Known(keyIDR) && c.trigIDR() {
		vh.Excluded(keyIDR)
		return false
	}
	return true
}

// ---------------------------------------------------------------------------------------------
// generator

var (
	modPaths   = []string{"example.com/m", "example.com/m", "github.com/acme/widget-kit", "corp.example/team/proj.v2"}
	pkgDirs    = []string{".", "sub", "sub/deep", "other/pkg"}
	pkgNames   = []string{"widgets", "deeppkg", "v2api", "Store", "pkg", "deep"}
	fileNames  = []string{"a_first.go", "iface.go", "z_last.go"}
	exported   = []string{"Reader", "Foo", "HTTPClient", "Zeta9", "Mocker"}
	unexported = []string{"bar", "reader2", "xClient", "_hidden", "mockable"}
	cwds       = []string{".", ".", "sub", "sub/deep", "other"}
	safeLits   = []string{"m", "mock", "gen_", "x-", "Fake", "out", "v1", "T_", "zz"}
	safeArgs   = []string{"a", "e", "r", "Mock", "mock", "er", "s", "_", "Re", "o"}
	freeArgs   = []string{"a", "e", "/", ".", "file://", ".go", "Mock", "mock", "er", "", "sub", "com", "/tmp", "-", "ee", ".templ", "m/"}
	freeChars  = []rune("abcXYZ019 _-./:[]()|=+,@#%&*!?'\"\\<>~^;$")
	allVars    = []string{"ConfigDir", "InterfaceDir", "InterfaceDirRelative", "InterfaceFile", "InterfaceName", "Mock", "SrcPackageName", "SrcPackagePath", "StructName", "Template"}
	strFuncs   = []string{"lower", "upper", "firstUpper", "firstLower", "trimPrefix", "trimSuffix", "replaceAll"}
	allFuncs   = []string{"lower", "upper", "firstUpper", "firstLower", "trimPrefix", "trimSuffix", "replaceAll", "base", "dir", "clean"}
	rawErrors  = []Part{
		{K: "raw", S: "{{.Nope}}", Err: "undefined-field"},
		{K: "raw", S: "{{.InterfaceNameCamel}}", Err: "undefined-field"},
		{K: "raw", S: "{{.interfaceName}}", Err: "undefined-field"},
		{K: "raw", S: "{{.PackageName | lower}}", Err: "undefined-field"},
		{K: "raw", S: "{{.InterfaceName.Field}}", Err: "undefined-field"},
		{K: "raw", S: "{{.InterfaceName | titlecase}}", Err: "undefined-function"},
		{K: "raw", S: "{{.InterfaceName | replaceAll \"a\"}}", Err: "wrong-arguments"},
		{K: "raw", S: "{{lower}}", Err: "wrong-arguments"},
		{K: "raw", S: "{{end}}", Err: "parse"},
		{K: "raw", S: "{{.InterfaceName | | lower}}", Err: "parse"},
		{K: "raw", S: "{{(.InterfaceName}}", Err: "parse"},
		{K: "raw", S: "{{if .InterfaceName}}x", Err: "parse"},
		{K: "raw", S: "{{.InterfaceName lower}}", Err: "wrong-arguments"},
		{K: "raw", S: "{{.Interface Name}}", Err: "parse"},
		{K: "raw", S: "{{.InterfaceName", Err: "parse"},
	}
)

type G struct {
	t             *rapid.T
	c             *Case
	structSafe    bool // value of structname is usable as a file name
	structLiteral bool // structname is written without template syntax
	allowStruct   bool
	emitBudget    int
}

func (g *G) pick(label string, xs []string) string { return rapid.SampledFrom(xs).Draw(g.t, label) }
func (g *G) n(label string, lo, hi int) int        { return rapid.IntRange(lo, hi).Draw(g.t, label) }

// chance: rapid's integer ranges are heavily biased towards small values (IntRange(1,100) <= 7 in
// 38 % of the draws), so percentages are drawn from a ten-element list, "no" first.
func (g *G) chance(label string, pct int) bool {
	k := (pct + 5) / 10
	if k < 1 {
		k = 1
	}
	xs := make([]bool, 10)
	for i := 10 - k; i < 10; i++ {
		xs[i] = true
	}
	return rapid.SampledFrom(xs).Draw(g.t, label)
}

func (g *G) call(f string, x *Node, args []string) *Node {
	return &Node{K: "call", F: f, A: args, X: x, Pipe: g.chance("pipeform", 60)}
}

func (g *G) wrapStr(x *Node, pool []string) *Node {
	f := g.pick("strfunc", strFuncs)
	var args []string
	for i := 0; i < funcArity[f]; i++ {
		args = append(args, g.pick("arg", pool))
	}
	return g.call(f, x, args)
}

// safeAtom: a pipeline whose value is a non-path string of file-name-safe characters.
func (g *G) safeAtom() *Node {
	var n *Node
	k := g.n("safeatom", 0, 8)
	switch {
	case k == 0 && g.allowStruct && g.structSafe:
		n = &Node{K: "var", V: "StructName"}
		if !g.structLiteral {
			return n // functions over an unresolved .StructName are not demanded
		}
	case k <= 2:
		n = &Node{K: "var", V: "InterfaceName"}
	case k == 3:
		n = &Node{K: "var", V: "Mock"}
	case k == 4:
		n = &Node{K: "var", V: "SrcPackageName"}
	case k == 5:
		n = g.call("base", &Node{K: "var", V: "SrcPackagePath"}, nil)
	case k == 6:
		n = g.call("replaceAll", &Node{K: "var", V: "SrcPackagePath"}, []string{"/", "_"})
	case k == 7:
		n = g.call("trimSuffix", g.call("base", &Node{K: "var", V: "InterfaceFile"}, nil), []string{".go"})
	default:
		n = g.call("trimSuffix", g.call("base", &Node{K: "var", V: "Template"}, nil), []string{".templ"})
	}
	for i := g.n("nwrap", 0, 2); i > 0; i-- {
		n = g.wrapStr(n, safeArgs)
	}
	return n
}

func (g *G) act(n *Node) Part { return Part{K: "act", N: n, Sp: g.chance("sp", 30)} }

func (g *G) maybeEmit(ps []Part) []Part {
	if g.emitBudget <= 0 || !g.chance("emit", 22) {
		return ps
	}
	g.emitBudget--
	p := Part{K: "emit", E: ps, Q: g.pick("emitstyle", []string{"dq", "bq", "delim"})}
	return g.maybeEmit([]Part{p})
}

// safeSeg: a non-empty literal followed by safe atoms; the value is a valid single path element.
func (g *G) safeSeg(ifaceDependent bool) []Part {
	ps := []Part{{K: "lit", S: g.pick("seglit", safeLits)}}
	if ifaceDependent {
		ps = append(ps, g.maybeEmit([]Part{g.act(&Node{K: "var", V: "InterfaceName"})})...)
	}
	for i := g.n("natoms", 0, 2); i > 0; i-- {
		ps = append(ps, g.maybeEmit([]Part{g.act(g.safeAtom())})...)
		if g.chance("midlit", 30) {
			ps = append(ps, Part{K: "lit", S: g.pick("seglit", []string{"_", "-", ".", "x"})})
		}
	}
	return ps
}

func v(name string) *Node { return &Node{K: "var", V: name} }

// dirExpr: a directory inside the module, spelled through the variables.
func (g *G) dirExpr() []Part {
	c := g.c
	type opt func() []Part
	opts := []opt{
		func() []Part { return []Part{{K: "lit", S: g.pick("dirlit", []string{"out", "gen/mocks", "./o", "."})}} },
		func() []Part { return []Part{g.act(v("InterfaceDir"))} },
		func() []Part { return []Part{g.act(g.call("clean", v("InterfaceDir"), nil))} },
		func() []Part { return []Part{g.act(g.call("dir", v("InterfaceFile"), nil))} },
		func() []Part {
			return []Part{g.act(g.call("dir", g.call("trimPrefix", v("Template"), []string{"file://"}), nil))}
		},
		func() []Part { return []Part{{K: "lit", S: "mocks/"}, g.act(v("SrcPackagePath"))} },
	}
	if c.Cwd != "." {
		opts = append(opts, func() []Part { return []Part{{K: "lit", S: "../up"}} })
	}
	if c.PkgDir != "." {
		opts = append(opts, func() []Part { return []Part{g.act(g.call("dir", v("InterfaceDir"), nil))} })
	}
	if c.CfgDir != ".." {
		opts = append(opts, func() []Part { return []Part{g.act(v("ConfigDir"))} }, func() []Part { return []Part{g.act(v("ConfigDir"))} })
		if c.idrUsable() {
			opts = append(opts, func() []Part {
				return []Part{g.act(v("ConfigDir")), {K: "lit", S: "/"}, g.act(v("InterfaceDirRelative"))}
			})
		}
	}
	ps := g.maybeEmit(opts[g.n("dirprefix", 0, len(opts)-1)]())
	for i := g.n("ndirseg", 0, 2); i > 0; i-- {
		ps = append(ps, Part{K: "lit", S: "/"})
		ps = append(ps, g.safeSeg(false)...)
	}
	return ps
}

func (g *G) fileExpr(many bool) []Part {
	ps := g.safeSeg(many)
	if len(g.c.Entries) > 0 {
		// one file per configs: entry: the entry's own name (and sometimes its template) is part of it
		ps = append(ps, g.maybeEmit([]Part{g.act(v("StructName"))})...)
		if g.chance("entrytemplate", 40) {
			ps = append(ps, Part{K: "lit", S: "-"}, g.act(g.call("trimSuffix", g.call("base", v("Template"), nil), []string{".templ"})))
		}
	}
	ps = append(ps, Part{K: "lit", S: g.pick("filesuffix", []string{".gen.txt", "_mock.out", ".mockery"})})
	return ps
}

// schemaExpr: file:// + a path that may lie anywhere in the scratch tree. Interface-specific
// variables may occur: every mock gets its own rendering (mocks sharing one output file with
// different schemas are don't-care).
func (g *G) schemaExpr() []Part {
	atom := func() *Node {
		switch g.n("schemaatom", 0, 6) {
		case 4:
			return v("InterfaceName")
		case 5:
			return v("Mock")
		case 6:
			return g.call("trimSuffix", g.call("base", v("InterfaceFile"), nil), []string{".go"})
		case 0:
			return v("SrcPackageName")
		case 1:
			return g.call("base", v("SrcPackagePath"), nil)
		case 2:
			return g.call("replaceAll", v("SrcPackagePath"), []string{"/", "."})
		}
		return g.call("base", v("Template"), nil)
	}
	var ps []Part
	seps := []string{".", "_", "-", "/k"}
	k := g.n("schemaprefix", 0, 5)
	if k <= 1 {
		seps = seps[:3] // the prefix is a file name, nothing may be placed below it
	}
	switch k {
	case 0:
		ps = []Part{g.act(v("Template"))}
	case 1:
		ps = []Part{g.act(g.call("trimSuffix", v("Template"), []string{".templ"}))}
	case 2:
		ps = []Part{{K: "lit", S: "file://"}, g.act(v("ConfigDir")), {K: "lit", S: "/schemas/s"}}
	case 3:
		ps = []Part{{K: "lit", S: "file://"}, g.act(g.call("clean", v("ConfigDir"), nil)), {K: "lit", S: "/s"}}
	case 4:
		ps = []Part{{K: "lit", S: "file://"}, g.act(g.call("dir", g.call("trimPrefix", v("Template"), []string{"file://"}), nil)), {K: "lit", S: "/s-"}}
	default:
		ps = []Part{{K: "lit", S: "file://" + g.pick("schemalit", []string{"schemas/t", "./s", "sch/ema/x"})}}
	}
	ps = g.maybeEmit(ps)
	for i := g.n("nschemaatoms", 0, 2); i > 0; i-- {
		ps = append(ps, Part{K: "lit", S: g.pick("schemasep", seps)})
		ps = append(ps, g.maybeEmit([]Part{g.act(atom())})...)
	}
	ps = append(ps, Part{K: "lit", S: g.pick("schemasuffix", []string{".schema.json", ".json"})})
	return ps
}

func (g *G) freeLit() string {
	n := g.n("litlen", 1, 6)
	r := make([]rune, n)
	for i := range r {
		r[i] = rapid.SampledFrom(freeChars).Draw(g.t, "litchar")
	}
	return string(r)
}

func (g *G) freeNode() *Node {
	var n *Node
	if g.chance("strbase", 8) {
		n = &Node{K: "str", V: g.freeLit()}
	} else {
		pool := allVars
		name := g.pick("var", pool)
		if name == "StructName" && !g.allowStruct {
			name = "InterfaceName"
		}
		if name == "InterfaceDirRelative" && !g.c.idrUsable() {
			name = "InterfaceDir"
		}
		n = v(name)
		if name == "StructName" && !g.structLiteral {
			return n
		}
	}
	for i := g.n("nfuncs", 0, 3); i > 0; i-- {
		f := g.pick("func", allFuncs)
		var args []string
		for j := 0; j < funcArity[f]; j++ {
			args = append(args, g.pick("farg", freeArgs))
		}
		n = g.call(f, n, args)
	}
	return n
}

func (g *G) freeExpr() []Part {
	ps := []Part{{K: "lit", S: g.pick("freelead", []string{"p", "N", "q1", "v"})}}
	for i := g.n("nfree", 1, 4); i > 0; i-- {
		if g.chance("freelit", 35) {
			ps = append(ps, Part{K: "lit", S: g.freeLit()})
		} else {
			ps = append(ps, g.maybeEmit([]Part{g.act(g.freeNode())})...)
		}
	}
	return ps
}

func (g *G) level(listed bool) string {
	if listed {
		return g.pick("level", []string{"root", "package", "interface"})
	}
	return g.pick("level", []string{"root", "package"})
}

func subset(t *rapid.T, n int) []int {
	var out []int
	for i := 0; i < n; i++ {
		if rapid.Bool().Draw(t, "listed") {
			out = append(out, i)
		}
	}
	if len(out) == 0 {
		out = []int{rapid.IntRange(0, n-1).Draw(t, "listed1")}
	}
	return out
}

func gen(t *rapid.T) Case {
	c := Case{}
	g := &G{t: t, c: &c}
	c.ModPath = g.pick("modpath", modPaths)
	c.PkgDir = g.pick("pkgdir", pkgDirs)
	c.PkgName = g.pick("pkgname", pkgNames)
	c.Files = append(c.Files, fileNames[:g.n("nfiles", 1, 3)]...)
	ni := g.n("nifaces", 1, 3)
	seen := map[string]bool{}
	for i := 0; i < ni; i++ {
		pool := exported
		if g.chance("unexported", 45) {
			pool = unexported
		}
		name := g.pick("iname", pool)
		if seen[strings.ToLower(name)] {
			continue
		}
		seen[strings.ToLower(name)] = true
		c.Ifaces = append(c.Ifaces, Iface{Name: name, File: g.n("ifile", 0, len(c.Files)-1)})
	}
	if g.chance("listed", 55) {
		c.Listed = subset(t, len(c.Ifaces))
	}
	listed := len(c.Listed) > 0
	many := len(c.targets()) > 1

	// layout
	c.Cwd = g.pick("cwd", append(append([]string{}, cwds...), c.PkgDir))
	c.CfgMethod = g.pick("cfgmethod", []string{"search", "search", "flag-rel", "flag-abs", "env-rel", "env-abs"})
	if c.CfgMethod == "search" {
		anc := []string{c.Cwd}
		for d := c.Cwd; d != "."; {
			d = filepath.Dir(d)
			anc = append(anc, d)
		}
		anc = append(anc, "..")
		c.CfgDir = anc[g.n("cfgancestor", 0, len(anc)-1)]
		c.CfgName = g.pick("cfgname", []string{".mockery.yml", ".mockery.yaml"})
		if vh.Known(keyConfigDir) && c.trigConfigDir() {
			vh.Excluded(keyConfigDir)
			c.CfgMethod = "flag-rel"
		}
	} else {
		c.CfgDir = g.pick("cfgdir", []string{".", c.Cwd, "conf", "..", "sub", c.PkgDir})
		c.CfgName = g.pick("cfgname", []string{".mockery.yml", ".mockery.yaml", "mockery.custom.yml", "cfg.yaml"})
	}
	c.TemplDir = g.pick("templdir", []string{".", "tmpl"})
	c.TemplAbs = g.chance("templabs", 50)
	if g.chance("decoy", 30) {
		up := func(d string) string {
			switch d {
			case ".":
				return ".."
			case "..":
				return "../.."
			case "../..":
				return ""
			}
			return filepath.Dir(d)
		}
		accepted := []string{".mockery.yaml", ".mockery.yml"}
		type cand struct{ dir, name string }
		var cands []cand
		start := c.Cwd
		if c.CfgMethod == "search" {
			// the other accepted name beside the config file, and any accepted name above it
			for _, n := range accepted {
				if n != c.CfgName {
					cands = append(cands, cand{c.CfgDir, n})
				}
			}
			start = up(filepath.Clean(c.CfgDir))
		}
		for d := filepath.Clean(start); d != ""; d = up(d) {
			for _, n := range accepted {
				if !(filepath.Clean(d) == filepath.Clean(c.CfgDir) && n == c.CfgName) {
					cands = append(cands, cand{d, n})
				}
			}
		}
		seenD := map[cand]bool{}
		for i, n := 0, g.n("ndecoys", 1, 2); i < n && len(cands) > 0; i++ {
			k := cands[g.n("decoyidx", 0, len(cands)-1)]
			if !seenD[k] {
				seenD[k] = true
				c.Decoys = append(c.Decoys, Decoy{Dir: k.dir, Name: k.name})
			}
		}
	}
	if g.chance("cfgkey", 30) {
		c.CfgKey = g.pick("cfgkeykind", []string{"self-name", "self-abs", "other-rel", "other-abs", "missing-rel", "missing-abs"})
	}
	if g.chance("linedirective", 30) {
		c.LineRef = g.pick("lineref", []string{"grammar/greeter.y", "parser.y", "../gen/lang.y", "gen/tmpl/iface.go.tmpl"})
		for range c.Files {
			c.LineAt = append(c.LineAt, g.n("lineat", 0, 3))
		}
	}

	// what kind of case
	flavour := g.pick("flavour", []string{"ok", "ok", "ok", "ok", "ok", "ok", "ok", "ok", "error", "error", "growth", "identity"})

	g.emitBudget = g.n("emitbudget", 0, 3)
	// structname first: the other parameters may refer to it
	if listed && (flavour == "ok" || flavour == "error") && g.chance("configslist", 40) {
		pool := []string{"GreeterStub", "GreeterSpy", "fakeImpl", "M2", "Stub_v3", "mockB"}
		seenSN := map[string]bool{}
		distinctTempl := g.chance("entrytemplates", 50)
		for i, n := 0, g.n("nentries", 2, 3); i < n; i++ {
			sn := g.pick("entrystruct", pool)
			if seenSN[sn] {
				continue
			}
			seenSN[sn] = true
			en := Entry{Structname: sn}
			if distinctTempl {
				en.Templ = g.n("entrytempl", 0, 2)
			}
			c.Entries = append(c.Entries, en)
		}
	}
	switch mode := g.n("structmode", 0, 9); {
	case len(c.Entries) > 0:
		g.structSafe = true // literal names, but not visible at package level: no functions over them
	case flavour == "growth":
		self := []Part{g.act(v("StructName"))}
		if g.chance("emitself", 25) {
			self = []Part{{K: "emit", E: self, Q: g.pick("emitstyle", []string{"dq", "bq", "delim"})}}
		}
		grow := Part{K: "lit", S: g.pick("growlit", []string{"x", "Mock", "_", "a.b"})}
		var ps []Part
		if g.chance("growleft", 50) {
			ps = append([]Part{grow}, self...)
		} else {
			ps = append(self, grow)
		}
		if g.chance("growextra", 30) {
			ps = append(ps, g.act(v("InterfaceName")))
		}
		c.Structname = &Param{Level: g.level(listed), Expr: ps}
	case flavour == "identity":
		c.Structname = &Param{Level: g.level(listed), Expr: []Part{g.act(v("StructName"))}}
	case mode <= 1: // default
		g.structSafe = true
	case mode <= 3:
		c.Structname = &Param{Level: g.level(listed), Expr: []Part{{K: "lit", S: g.pick("structlit", []string{"FakeThing", "theMock", "M", "mock_impl", "Stub.v2"})}}}
		// the file-level rendering of the package config must see the literal too
		g.structSafe, g.structLiteral = true, c.Structname.Level == "root"
	case mode <= 6:
		c.Structname = &Param{Level: g.level(listed), Expr: g.safeSeg(false)}
		g.structSafe = true
	default:
		c.Structname = &Param{Level: g.level(listed), Expr: g.freeExpr()}
	}
	g.allowStruct = flavour == "ok" || flavour == "error"

	if g.chance("setdir", 85) {
		c.Dir = &Param{Level: g.level(listed), Expr: g.dirExpr()}
	}
	c.Filename = &Param{Level: g.level(listed), Expr: g.fileExpr(many)}
	if g.chance("setpkgname", 85) {
		c.Pkgname = &Param{Level: g.level(listed), Expr: g.freeExpr()}
	}
	g.allowStruct = false
	if g.chance("schema", 35) {
		lv := g.pick("schemalevel", []string{"root", "package", "default"})
		if lv == "default" {
			// the documented default, written out so that it is part of the case
			c.Schema = &Param{Level: "default", Expr: []Part{{K: "act", N: v("Template")}, {K: "lit", S: ".schema.json"}}}
		} else {
			c.Schema = &Param{Level: lv, Expr: g.schemaExpr()}
			if many && g.chance("schemaperiface", 50) {
				// one schema per interface: every mock must get its own rendering
				e := c.Schema.Expr
				suffix := e[len(e)-1]
				c.Schema.Expr = append(append(append([]Part{}, e[:len(e)-1]...), Part{K: "lit", S: "-"}, g.act(v("InterfaceName"))), suffix)
			}
		}
		if g.chance("schemavictim", 50) {
			c.SchemaVictim = g.n("victim", 1, 4)
		}
	}
	if flavour == "error" {
		bad := rawErrors[g.n("rawerr", 0, len(rawErrors)-1)]
		ps := []Part{bad}
		if !strings.HasSuffix(bad.S, "}}") {
			// unclosed action: keep it last
		} else if g.chance("emiterr", 35) {
			ps = []Part{{K: "emit", E: ps, Q: g.pick("emitstyle", []string{"dq", "bq", "delim"})}}
		}
		var tgt **Param
		switch g.n("errparam", 0, 4) {
		case 0:
			tgt = &c.Dir
		case 1:
			tgt = &c.Filename
		case 2:
			tgt = &c.Pkgname
		case 3:
			tgt = &c.Structname
			if len(c.Entries) > 0 {
				tgt = &c.Filename // the entries own structname
			}
		default:
			tgt = &c.Schema
		}
		if *tgt == nil || (*tgt).Level == "default" {
			lv := g.level(listed)
			if tgt == &c.Schema {
				lv = g.pick("schemalevel2", []string{"root", "package"})
			}
			*tgt = &Param{Level: lv, Expr: []Part{{K: "lit", S: "e"}}}
		}
		(*tgt).Expr = append(append([]Part{}, (*tgt).Expr...), ps...)
	}
	return c
}

// ---------------------------------------------------------------------------------------------
// scratch tree

const probeTemplate = `TPL "@@"
PKG {{printf "%q" .PkgName}}
{{range .Interfaces}}IF {{printf "%q" .Name}} {{printf "%q" .StructName}}
{{end}}`

func yq(s string) string { // YAML double-quoted scalar (printable ASCII only)
	return `"` + strings.NewReplacer(`\`, `\\`, `"`, `\"`).Replace(s) + `"`
}

type kv struct{ k, v string }

func (c Case) configYAML(l layout, requireSchema bool, params map[string]*Param, entries []Entry) string {
	var sb strings.Builder
	w := func(indent int, k, v string) { sb.WriteString(strings.Repeat("  ", indent) + k + ": " + v + "\n") }
	at := func(level string) []kv {
		var out []kv
		for _, name := range []string{"dir", "filename", "pkgname", "structname", "template-schema"} {
			if p := params[name]; p != nil && p.Level == level {
				out = append(out, kv{name, yq(textOf(p.Expr))})
			}
		}
		return out
	}
	if kv, _ := c.cfgKey(l); kv != "" {
		w(0, "config", yq(kv))
	}
	w(0, "template", yq(l.template))
	w(0, "formatter", "noop")
	w(0, "force-file-write", "true")
	w(0, "require-template-schema-exists", strconv.FormatBool(requireSchema))
	for _, e := range at("root") {
		w(0, e.k, e.v)
	}
	w(0, "packages", "")
	w(1, yq(c.pkgPath()), "")
	w(2, "config", "")
	w(3, "all", strconv.FormatBool(len(c.Listed) == 0))
	for _, e := range at("package") {
		w(3, e.k, e.v)
	}
	if len(c.Listed) > 0 {
		w(2, "interfaces", "")
		for _, it := range c.targets() {
			ifc := at("interface")
			if len(ifc) == 0 && len(entries) == 0 {
				w(3, yq(it.Name), "{}")
				continue
			}
			w(3, yq(it.Name), "")
			if len(ifc) > 0 {
				w(4, "config", "")
				for _, e := range ifc {
					w(5, e.k, e.v)
				}
			}
			if len(entries) > 0 {
				w(4, "configs", "")
				for _, en := range entries {
					sb.WriteString(strings.Repeat("  ", 5) + "- structname: " + yq(en.Structname) + "\n")
					if en.Templ > 0 {
						_, tv := l.templateOf(en.Templ)
						w(6, "template", yq(tv))
					}
				}
			}
		}
	}
	return sb.String()
}

func (c Case) sources() map[string]string {
	files := map[string]string{}
	for fi, fn := range c.Files {
		at := 0
		if fi < len(c.LineAt) && c.LineRef != "" {
			at = c.LineAt[fi]
		}
		src := ""
		if at&1 != 0 {
			src += "//line " + c.LineRef + ":1\n"
		}
		src += "package " + c.PkgName + "\n\n// T" + strconv.Itoa(fi) + " keeps every file non-empty.\ntype T" + strconv.Itoa(fi) + " struct{ N int }\n"
		if at&2 != 0 {
			src += "\n//line " + c.LineRef + ":" + strconv.Itoa(40+fi) + "\n"
		}
		for _, it := range c.Ifaces {
			if it.File == fi {
				src += "\ntype " + it.Name + " interface {\n\tDo(n int) (string, error)\n}\n"
			}
		}
		files[filepath.Join("ws", "mod", c.PkgDir, fn)] = src
	}
	return files
}

const sep = "|#|"

var bindOrder = []string{"ConfigDir", "InterfaceDir", "InterfaceDirRelative", "InterfaceFile", "InterfaceName", "Mock", "SrcPackageName", "SrcPackagePath", "Template"}

type probeOut struct {
	tpl    string
	pairs  [][2]string // every (interface, struct name) line
	pkg    string
	ifaces map[string]string // interface name -> struct name
	order  []string
}

func parseProbe(content string) (probeOut, error) {
	po := probeOut{ifaces: map[string]string{}}
	unq := func(s string) (string, string, error) {
		s = strings.TrimLeft(s, " ")
		q, err := strconv.QuotedPrefix(s)
		if err != nil {
			return "", "", fmt.Errorf("no quoted string at %q", vh.Trunc(s, 80))
		}
		u, err := strconv.Unquote(q)
		return u, s[len(q):], err
	}
	for _, ln := range strings.Split(content, "\n") {
		switch {
		case strings.HasPrefix(ln, "TPL "):
			p, _, err := unq(ln[4:])
			if err != nil {
				return po, err
			}
			po.tpl = p
		case strings.HasPrefix(ln, "PKG "):
			p, _, err := unq(ln[4:])
			if err != nil {
				return po, err
			}
			po.pkg = p
		case strings.HasPrefix(ln, "IF "):
			name, rest, err := unq(ln[3:])
			if err != nil {
				return po, err
			}
			sn, _, err := unq(rest)
			if err != nil {
				return po, err
			}
			po.ifaces[name] = sn
			po.order = append(po.order, name)
			po.pairs = append(po.pairs, [2]string{name, sn})
		case strings.TrimSpace(ln) == "":
		default:
			return po, fmt.Errorf("unexpected line %q", vh.Trunc(ln, 120))
		}
	}
	return po, nil
}

func regularFiles(root string) map[string]bool {
	out := map[string]bool{}
	_ = filepath.Walk(root, func(p string, info os.FileInfo, err error) error {
		if err == nil && info.Mode().IsRegular() {
			out[p] = true
		}
		return nil
	})
	return out
}

func resolve(cwd, p string) string {
	if filepath.IsAbs(p) {
		return filepath.Clean(p)
	}
	return filepath.Join(cwd, p)
}

// runMockery runs the SUT; a timeout is only believed when it reproduces on a second run.
func runMockery(l layout, reset func()) (vh.Result, bool) {
	r := vh.Mockery(l.cwd, l.env, l.args...)
	if !r.TimedOut {
		return r, false
	}
	reset()
	r2 := vh.Mockery(l.cwd, l.env, l.args...)
	if r2.TimedOut {
		return r2, true
	}
	vh.Note("a 120 s timeout did not reproduce")
	return r2, false
}

// ---------------------------------------------------------------------------------------------
// classification

func (c Case) params() map[string]*Param {
	return map[string]*Param{"dir": c.Dir, "filename": c.Filename, "pkgname": c.Pkgname, "structname": c.Structname, "template-schema": c.Schema}
}

type verdictKind int

const (
	kOK verdictKind = iota
	kGrowth
	kIdentity
	kError
	kDontCare
)

func (c Case) classify() (fp string, classes []string, kind verdictKind, why string) {
	l := c.layout("/R")
	defLayout := c.CfgMethod == "search" && l.cfgDir == l.cwd && c.Cwd == "."
	classes = append(classes, "cfg="+c.CfgMethod)
	switch {
	case l.cfgDir == l.cwd:
		classes = append(classes, "cfgdir=cwd")
	case under(l.cwd, l.cfgDir):
		classes = append(classes, "cfgdir=above-cwd")
	default:
		classes = append(classes, "cfgdir=elsewhere")
	}
	if c.CfgDir == ".." {
		classes = append(classes, "cfgdir=outside-module")
	}
	if c.Cwd == "." {
		classes = append(classes, "cwd=module-root")
	} else {
		classes = append(classes, "cwd=subdir")
	}
	switch {
	case l.ifaceDir == l.cwd:
		classes = append(classes, "iface=in-cwd")
	case under(l.ifaceDir, l.cwd):
		classes = append(classes, "iface=below-cwd")
	default:
		classes = append(classes, "iface=outside-cwd")
	}
	if c.PkgDir == "." {
		classes = append(classes, "ifacedir=module-root")
	} else {
		classes = append(classes, "ifacedir=nested")
	}
	for _, d := range c.Decoys {
		dd := filepath.Join(l.mod, d.Dir)
		switch {
		case dd == l.cfgDir:
			classes = append(classes, "decoy-config=same-dir-other-name")
		case under(l.cfgDir, dd):
			classes = append(classes, "decoy-config=ancestor/"+c.CfgName+"<-"+d.Name)
			if c.CfgMethod == "search" {
				classes = append(classes, fmt.Sprintf("decoy-config=ancestor/search/start-depth=%d", strings.Count(strings.TrimPrefix(l.cwd, l.cfgDir), "/")))
			}
		default:
			classes = append(classes, "decoy-config=nearer-than-explicit")
		}
	}
	if c.Schema != nil && c.SchemaVictim > 0 {
		classes = append(classes, "schema-victim")
	}
	if c.CfgKey != "" {
		classes = append(classes, "config-key-in-file="+c.CfgKey, "config-key-in-file/"+c.CfgMethod)
		if c.trigConfigDir() {
			classes = append(classes, "config-key-in-file/found-by-search-above-cwd")
		}
	}
	for fi, at := range c.LineAt {
		if c.LineRef == "" || at == 0 {
			continue
		}
		for _, it := range c.targets() {
			if it.File == fi {
				classes = append(classes, fmt.Sprintf("line-directive=%d", at))
			}
		}
	}
	if filepath.Base(c.pkgPath()) != c.PkgName {
		classes = append(classes, "pkgname!=dirname")
	}
	if len(c.Listed) == 0 {
		classes = append(classes, "select=all")
	} else {
		classes = append(classes, "select=listed")
	}
	for _, it := range c.targets() {
		if isExportedASCII(it.Name) {
			classes = append(classes, "iface=exported")
		} else {
			classes = append(classes, "iface=unexported")
		}
		if it.File > 0 {
			classes = append(classes, "iface-not-in-first-file")
		}
	}
	if !defLayout {
		classes = append(classes, "layout=non-default")
	} else {
		classes = append(classes, "layout=default")
	}

	nt := false
	maxPasses := 0
	structSt := stats{onlyLit: false}
	if c.Structname != nil {
		structSt = analyse(c.Structname.Expr)
	}
	for _, name := range []string{"dir", "filename", "pkgname", "structname", "template-schema"} {
		p := c.params()[name]
		if p == nil {
			classes = append(classes, name+"=default")
			continue
		}
		st := analyse(p.Expr)
		classes = append(classes, name+"@"+p.Level)
		for vn := range st.vars {
			classes = append(classes, "var="+vn)
			if vn == "StructName" || vn == "Template" {
				classes = append(classes, "ref="+name+"->"+vn)
				nt = true
			}
		}
		for fn := range st.funcs {
			classes = append(classes, "func="+fn)
		}
		if st.emits > 0 {
			classes = append(classes, "emit")
		}
		passes := st.passes
		if name != "structname" && st.structRefs > 0 {
			passes += structSt.passes
			if c.Structname == nil && len(c.entries()) == 0 {
				passes++
			}
		}
		if passes > maxPasses {
			maxPasses = passes
		}
		if len(st.funcs) > 0 && len(st.vars) > 0 && !defLayout {
			nt = true
		}
		if st.raw != "" {
			kind, why = kError, name+"/"+st.raw
		}
		if name != "structname" && st.structInFn && !(c.Structname != nil && structSt.onlyLit && c.Structname.Level == "root") {
			if kind == kOK {
				kind, why = kDontCare, "function-over-unresolved-StructName"
			}
		}
		if st.vars["InterfaceDirRelative"] && !c.idrDefined() && kind == kOK {
			kind, why = kDontCare, "InterfaceDirRelative-with-interface-outside-ConfigDir"
		}
		if len(c.Listed) == 0 && len(c.targets()) >= 2 {
			for _, vn := range []string{"InterfaceFile", "InterfaceName", "Mock", "StructName"} {
				if st.vars[vn] {
					classes = append(classes, "unlisted>=2/"+name+"-interface-specific")
					break
				}
			}
		}
	}
	if kind != kError && c.Structname != nil && structSt.structRefs > 0 {
		if len(c.Structname.Expr) == 1 && c.Structname.Expr[0].K == "act" && c.Structname.Expr[0].N.K == "var" {
			kind, why = kIdentity, "structname={{.StructName}}"
		} else if isGrowth(c.Structname.Expr) {
			kind, why = kGrowth, "structname-grows"
			nt = true
		} else {
			kind, why = kDontCare, "unclassified-self-reference"
		}
	}
	if n := len(c.entries()); n > 0 {
		if c.Structname != nil && kind == kOK {
			kind, why = kDontCare, "structname-set-above-a-configs-list"
		}
		classes = append(classes, fmt.Sprintf("configs-list=%d", n))
		nt = true
		for _, en := range c.entries() {
			if en.Templ > 0 {
				classes = append(classes, "configs-list/entry-template")
				break
			}
		}
		for _, name := range []string{"dir", "filename", "pkgname"} {
			if p := c.params()[name]; p != nil {
				st := analyse(p.Expr)
				if st.vars["StructName"] {
					classes = append(classes, "configs-list/ref="+name+"->StructName@"+p.Level)
				}
				if st.vars["Template"] {
					classes = append(classes, "configs-list/ref="+name+"->Template@"+p.Level)
				}
			}
		}
	}
	classes = append(classes, fmt.Sprintf("passes=%d", maxPasses))
	if maxPasses >= 2 {
		nt = true
	}
	switch kind {
	case kOK:
		classes = append(classes, "expect=values")
	case kGrowth:
		classes = append(classes, "expect=error/never-stabilises")
	case kIdentity:
		classes = append(classes, "expect=terminates/self-identity")
	case kError:
		classes = append(classes, "expect=error/"+why[strings.Index(why, "/")+1:])
	case kDontCare:
		classes = append(classes, "expect=terminates/dont-care")
	}
	if nt {
		fp = vh.Hash(vh.JSON(c))
	}
	return
}

// isGrowth: a non-empty literal next to a (possibly emitted) bare {{.StructName}}, every other
// part a literal or a plain action — each round trip strictly lengthens the value.
func isGrowth(ps []Part) bool {
	lit, self := false, false
	for _, p := range ps {
		switch p.K {
		case "lit":
			if p.S != "" {
				lit = true
			}
		case "act":
			if p.N.K == "var" && p.N.V == "StructName" {
				self = true
			} else if st := analyse([]Part{p}); st.structRefs > 0 {
				return false
			}
		case "emit":
			if len(p.E) == 1 && p.E[0].K == "act" && p.E[0].N.K == "var" && p.E[0].N.V == "StructName" {
				self = true
			} else {
				return false
			}
		default:
			return false
		}
	}
	return lit && self
}

// ---------------------------------------------------------------------------------------------
// the property body

func featureKey(ps []Part) string {
	st := analyse(ps)
	var f []string
	for k := range st.vars {
		f = append(f, "var="+k)
	}
	if len(st.funcs) > 0 {
		f = append(f, "func")
	}
	if st.emits > 0 {
		f = append(f, "emit")
	}
	sort.Strings(f)
	if len(f) == 0 {
		return "literal"
	}
	return strings.Join(f, "+")
}

func run(c Case) *vh.Violation {
	fp, classes, kind, why := c.classify()
	vh.Count(fp, classes...)
	if fp != "" && vh.NeedSample() {
		vh.Sample(c)
	}
	if len(c.Ifaces) == 0 || len(c.Files) == 0 {
		vh.Invalid()
		return nil
	}

	root := vh.NewScratch()
	defer vh.RemoveAll(root)
	l := c.layout(root)
	targets := c.targets()

	base := c.sources()
	base[filepath.Join("ws", "mod", c.TemplDir, "probe.templ")] = strings.Replace(probeTemplate, "@@", "0", 1)
	if _, other := c.cfgKey(l); other != "" {
		r, _ := filepath.Rel(root, other)
		base[r] = "# never loaded: only named by the config: key of the file in use\nall: false\n"
	}
	for _, en := range c.entries() {
		if en.Templ > 0 {
			base[filepath.Join("ws", "mod", c.TemplDir, fmt.Sprintf("probe%d.templ", en.Templ))] = strings.Replace(probeTemplate, "@@", strconv.Itoa(en.Templ), 1)
		}
	}
	relTo := func(abs string) string { r, _ := filepath.Rel(root, abs); return r }

	// ---- phase 1: raw bindings --------------------------------------------------------------
	var dump []string
	for _, n := range bindOrder {
		dump = append(dump, "{{."+n+"}}")
	}
	bindOut := filepath.Join(l.mod, "zz_bindout")
	p1 := map[string]*Param{
		"dir":        {Level: "root", Expr: []Part{{K: "lit", S: bindOut}}},
		"filename":   {Level: "root", Expr: []Part{{K: "lit", S: "bind.txt"}}},
		"pkgname":    {Level: "root", Expr: []Part{{K: "lit", S: "bindprobe"}}},
		"structname": {Level: "root", Expr: []Part{{K: "raw", S: strings.Join(dump, sep)}}},
	}
	setup := func(cfg string, extra map[string]string) {
		// wipe and rewrite so that a rerun starts from the same tree
		ents, _ := os.ReadDir(root)
		for _, e := range ents {
			vh.RemoveAll(filepath.Join(root, e.Name()))
		}
		vh.WriteFiles(root, base)
		vh.NewModule(l.mod, c.ModPath)
		vh.WriteFiles(root, map[string]string{relTo(l.cfgFile): cfg})
		for _, d := range c.Decoys {
			vh.WriteFiles(root, map[string]string{relTo(filepath.Join(l.mod, d.Dir, d.Name)): cfg})
		}
		vh.WriteFiles(root, extra)
		for _, d := range []string{l.cwd, l.cfgDir} {
			if err := os.MkdirAll(d, 0o755); err != nil {
				vh.Infra("mkdir %s: %v", d, err)
			}
		}
	}
	for _, d := range c.Decoys {
		dd := filepath.Join(l.mod, d.Dir)
		if !under(dd, root) || filepath.Join(dd, d.Name) == l.cfgFile ||
			(d.Name != ".mockery.yaml" && d.Name != ".mockery.yml") ||
			(c.CfgMethod == "search" && dd != l.cfgDir && under(dd, l.cfgDir) && under(l.cwd, dd)) {
			// a decoy nearer to cwd than the config file would itself be the nearest config
			vh.Invalid()
			return nil
		}
	}
	cfg1 := c.configYAML(l, false, p1, nil)
	setup(cfg1, nil)
	files := func(cfg string) map[string]string {
		m := map[string]string{}
		for k, v := range base {
			m[k] = v
		}
		m[relTo(l.cfgFile)] = cfg
		for _, d := range c.Decoys {
			m[relTo(filepath.Join(l.mod, d.Dir, d.Name))] = cfg
		}
		m["cmd.txt"] = fmt.Sprintf("cd %s && %s mockery %s\n", relTo(l.cwd), strings.Join(l.env, " "), strings.Join(l.args, " "))
		return m
	}
	stripRoot := func(s string) string { return strings.ReplaceAll(s, root, "<ROOT>") }
	describe := func(r vh.Result) string {
		return stripRoot(fmt.Sprintf("cwd=%s config=%s method=%s\nexit=%d timedout=%v\n--- stderr (tail)\n%s", relTo(l.cwd), relTo(l.cfgFile), c.CfgMethod, r.Exit, r.TimedOut, tail(r.Stderr, 2500)))
	}
	layoutKey := "cfg=" + c.CfgMethod

	r1, hang := runMockery(l, func() { setup(cfg1, nil) })
	if hang {
		return vh.Violate("mockery/"+layoutKey+"/plain-variables/hang", "mockery did not terminate within 120 s (twice) on a config that only prints the variables").With(files(cfg1), describe(r1))
	}
	if r1.Panicked() {
		return vh.Violate("mockery/"+layoutKey+"/plain-variables/panic", "mockery panicked").With(files(cfg1), describe(r1))
	}
	if r1.Exit != 0 {
		return vh.Violate("mockery/"+layoutKey+"/plain-variables/exit", "a config whose structname only prints the documented variables was rejected (exit %d)", r1.Exit).With(files(cfg1), describe(r1))
	}
	b1, err := os.ReadFile(filepath.Join(bindOut, "bind.txt"))
	if err != nil {
		return vh.Violate("mockery/"+layoutKey+"/literal-dir-filename/output-missing", "dir and filename were literals, but the file is not there: %v", err).With(files(cfg1), describe(r1))
	}
	po1, err := parseProbe(string(b1))
	if err != nil {
		vh.Infra("probe output of phase 1 unreadable: %v\n%s", err, vh.Trunc(string(b1), 500))
	}
	binds := map[string]Bind{}
	for _, it := range targets {
		raw, ok := po1.ifaces[it.Name]
		if !ok {
			return vh.Violate("mockery/"+layoutKey+"/interface-missing", "interface %s was selected but the probe did not receive it (got %v)", it.Name, po1.order).With(files(cfg1), describe(r1))
		}
		f := strings.Split(raw, sep)
		if len(f) != len(bindOrder) {
			vh.Infra("phase 1 dump has %d fields: %q", len(f), raw)
		}
		b := Bind{}
		for i, n := range bindOrder {
			b[n] = f[i]
		}
		ifaceFile := filepath.Join(l.ifaceDir, c.Files[it.File])
		mock := "mock"
		if isExportedASCII(it.Name) {
			mock = "Mock"
		}
		bad := func(key, format string, a ...any) *vh.Violation {
			obs := describe(r1) + "\n--- variables seen for " + it.Name + "\n"
			for _, n := range bindOrder {
				obs += fmt.Sprintf("%-22s %q\n", n, stripRoot(b[n]))
			}
			return vh.Violate(key, format, a...).With(files(cfg1), obs)
		}
		exact := map[string]string{"InterfaceName": it.Name, "Mock": mock, "SrcPackageName": c.PkgName, "SrcPackagePath": c.pkgPath(), "Template": l.template}
		for _, n := range []string{"InterfaceName", "Mock", "SrcPackageName", "SrcPackagePath", "Template"} {
			if b[n] != exact[n] {
				return bad("mockery/binding="+n+"/wrong-value", "%s = %q for interface %s, documented meaning gives %q", n, stripRoot(b[n]), it.Name, stripRoot(exact[n]))
			}
		}
		if b["ConfigDir"] == "" || resolve(l.cwd, b["ConfigDir"]) != l.cfgDir {
			if len(c.Decoys) > 0 {
				return bad("mockery/binding=ConfigDir/other-config-files-on-the-search-path/"+layoutKey+"/not-the-config-file-directory", "ConfigDir = %q (resolved against cwd: %s) but the nearest config file going up from cwd %s - the one in use - is %s (byte-identical copies: %v)", stripRoot(b["ConfigDir"]), stripRoot(resolve(l.cwd, b["ConfigDir"])), stripRoot(l.cwd), stripRoot(l.cfgFile), c.Decoys)
			}
			if c.CfgKey != "" {
				return bad("mockery/binding=ConfigDir/config-key-in-file/"+layoutKey+"/not-the-config-file-directory", "the file in use contains config: %s; ConfigDir = %q (resolved against cwd: %s) but the config file used is %s", c.CfgKey, stripRoot(b["ConfigDir"]), stripRoot(resolve(l.cwd, b["ConfigDir"])), stripRoot(l.cfgFile))
			}
			if c.trigConfigDir() {
				return bad(keyConfigDir, "ConfigDir = %q (resolved against cwd: %s) but the config file used is %s", stripRoot(b["ConfigDir"]), stripRoot(resolve(l.cwd, b["ConfigDir"])), stripRoot(l.cfgFile))
			}
			return bad("mockery/binding=ConfigDir/"+layoutKey+"/not-the-config-file-directory", "ConfigDir = %q (resolved against cwd: %s) but the config file used is %s", stripRoot(b["ConfigDir"]), stripRoot(resolve(l.cwd, b["ConfigDir"])), stripRoot(l.cfgFile))
		}
		if b["InterfaceDir"] == "" || resolve(l.cwd, b["InterfaceDir"]) != l.ifaceDir {
			return bad("mockery/binding=InterfaceDir/not-the-declaring-directory", "InterfaceDir = %q, interface %s is declared in %s", stripRoot(b["InterfaceDir"]), it.Name, stripRoot(l.ifaceDir))
		}
		if b["InterfaceFile"] == "" || resolve(l.cwd, b["InterfaceFile"]) != ifaceFile {
			return bad("mockery/binding=InterfaceFile/not-the-declaring-file", "InterfaceFile = %q, interface %s is declared in %s", stripRoot(b["InterfaceFile"]), it.Name, stripRoot(ifaceFile))
		}
		if !c.idrDefined() {
			vh.DontCare("InterfaceDirRelative/interface-outside-ConfigDir")
		} else if vh.Known(keyIDR) && c.trigIDR() {
			vh.Excluded(keyIDR)
		} else if idr := b["InterfaceDirRelative"]; filepath.IsAbs(idr) || filepath.Join(l.cfgDir, idr) != l.ifaceDir {
			return bad(keyIDR, "InterfaceDirRelative = %q: joined to the config directory %s it gives %s, but InterfaceDir is %s (cwd %s)", stripRoot(idr), stripRoot(l.cfgDir), stripRoot(filepath.Join(l.cfgDir, idr)), stripRoot(l.ifaceDir), stripRoot(l.cwd))
		}
		binds[it.Name] = b
	}
	vh.RemoveAll(bindOut)

	// ---- phase 2: the generated expressions -------------------------------------------------
	params := map[string]*Param{}
	for k, p := range c.params() {
		if p != nil && p.Level != "default" {
			params[k] = p
		}
	}
	cfg2 := c.configYAML(l, c.Schema != nil, params, c.entries())

	// reference evaluation
	exprOf := func(name string, def []Part) []Part {
		if p := c.params()[name]; p != nil {
			return p.Expr
		}
		return def
	}
	defStruct := []Part{{K: "act", N: v("Mock")}, {K: "act", N: v("InterfaceName")}}
	defDir := []Part{{K: "act", N: v("InterfaceDir")}}
	defPkg := []Part{{K: "act", N: v("SrcPackageName")}}
	// one unit = one mock: (interface) or, with a configs: list, (interface, entry)
	type want struct{ iface, path, pkg, sname, tpl, schema string }
	wants := map[string]want{}
	var units []string
	extra := map[string]string{}
	schemaPath := ""
	entries := c.entries()
	if kind == kOK {
		for _, it := range targets {
			n := len(entries)
			if n == 0 {
				n = 1
			}
			for ei := 0; ei < n; ei++ {
				b := Bind{}
				for k, v := range binds[it.Name] {
					b[k] = v
				}
				id, tpl := it.Name, "0"
				if len(entries) > 0 {
					// StructName and Template are those of the entry
					id = fmt.Sprintf("%s#%d", it.Name, ei)
					b["StructName"] = entries[ei].Structname
					_, b["Template"] = l.templateOf(entries[ei].Templ)
					tpl = strconv.Itoa(entries[ei].Templ)
				} else {
					sn, _ := evalOf(exprOf("structname", defStruct), b)
					b["StructName"] = sn
				}
				d, _ := evalOf(exprOf("dir", defDir), b)
				f, _ := evalOf(exprOf("filename", nil), b)
				p, _ := evalOf(exprOf("pkgname", defPkg), b)
				path := resolve(l.cwd, filepath.Join(d, f))
				if d == "" || f == "" || !under(path, l.mod) || path == l.mod {
					vh.Invalid()
					vh.Note("generated output path outside the module: dir=%q filename=%q", stripRoot(d), f)
					return nil
				}
				wants[id] = want{iface: it.Name, path: path, pkg: p, sname: b["StructName"], tpl: tpl}
				units = append(units, id)
				if c.Schema == nil {
					continue
				}
				// template-schema is rendered for this mock like every other templated value
				sv, _ := evalOf(c.Schema.Expr, b)
				if !strings.HasPrefix(sv, "file://") || !strings.HasSuffix(sv, ".json") {
					vh.Invalid()
					vh.Note("generated template-schema value is not a file URL: %q", stripRoot(sv))
					return nil
				}
				schemaPath = resolve(l.cwd, strings.TrimPrefix(sv, "file://"))
				if !under(schemaPath, root) {
					vh.Invalid()
					return nil
				}
				for p := filepath.Dir(schemaPath); under(p, root) && p != root; p = filepath.Dir(p) {
					if fi, err := os.Stat(p); err == nil && !fi.IsDir() {
						vh.Invalid()
						vh.Note("generated schema path lies below a file")
						return nil
					}
				}
				extra[relTo(schemaPath)] = "{}\n"
				w := wants[id]
				w.schema = schemaPath
				wants[id] = w
			}
		}
	}
	victim := ""
	if kind == kOK && c.Schema != nil && c.SchemaVictim > 0 && len(units) > 0 {
		victim = units[(c.SchemaVictim-1)%len(units)]
		extra[relTo(wants[victim].schema)] = `{"type": "object", "required": ["c11-marker"]}` + "\n"
	}
	setup(cfg2, extra)
	// nothing the expected outputs need may be occupied by an input
	before := regularFiles(root)
	for _, w := range wants {
		for p := w.path; under(p, root) && p != root; p = filepath.Dir(p) {
			if before[p] {
				vh.Invalid()
				vh.Note("generated output path collides with an input file")
				return nil
			}
		}
	}

	r2, hang := runMockery(l, func() { setup(cfg2, extra) })
	tree2 := files(cfg2)
	for k, v := range extra {
		tree2[k] = v
	}
	after := regularFiles(root)
	var newFiles []string
	for p := range after {
		if !before[p] {
			newFiles = append(newFiles, p)
		}
	}
	sort.Strings(newFiles)
	obs := func() string {
		s := describe(r2) + "\n--- templated parameters\n"
		for _, name := range []string{"dir", "filename", "pkgname", "structname", "template-schema"} {
			if p := c.params()[name]; p != nil {
				s += fmt.Sprintf("%-16s @%-9s %s\n", name, p.Level, textOf(p.Expr))
			}
		}
		for i, en := range entries {
			_, tv := l.templateOf(en.Templ)
			s += fmt.Sprintf("configs[%d]       structname=%q template=%s\n", i, en.Structname, stripRoot(tv))
		}
		s += "--- new files\n"
		for _, p := range newFiles {
			b, _ := os.ReadFile(p)
			s += stripRoot(p) + "\n    " + strings.ReplaceAll(strings.TrimSpace(vh.Trunc(string(b), 600)), "\n", "\n    ") + "\n"
		}
		return s
	}
	feature := func(name string) string {
		if p := c.params()[name]; p != nil {
			return name + "/" + featureKey(p.Expr)
		}
		return name + "/default"
	}
	if hang {
		return vh.Violate("mockery/"+why+"/hang", "mockery did not terminate within 120 s (reproduced twice)").With(tree2, obs())
	}
	if r2.Panicked() {
		return vh.Violate("mockery/"+why+"/panic", "mockery panicked while resolving templated values").With(tree2, obs())
	}

	mentions := func() string {
		for _, p := range newFiles {
			b, _ := os.ReadFile(p)
			if po, err := parseProbe(string(b)); err == nil {
				for _, it := range targets {
					if _, ok := po.ifaces[it.Name]; ok {
						return fmt.Sprintf("%s contains a mock for %s named %q", stripRoot(p), it.Name, po.ifaces[it.Name])
					}
				}
			}
		}
		return ""
	}
	switch kind {
	case kGrowth:
		if r2.Exit == 0 {
			return vh.Violate("mockery/structname-grows/exit-0", "structname refers to itself and grows on every pass, so it never stabilises; mockery exited 0").With(tree2, obs())
		}
		if m := mentions(); m != "" {
			return vh.Violate("mockery/structname-grows/output-written", "never-stabilising structname, yet %s", m).With(tree2, obs())
		}
		return nil
	case kError:
		if r2.Exit == 0 {
			return vh.Violate("mockery/"+why+"/exit-0", "a templated value that cannot be rendered (%s) was accepted with exit 0", why).With(tree2, obs())
		}
		if m := mentions(); m != "" {
			return vh.Violate("mockery/"+why+"/output-written", "a templated value cannot be rendered (%s), yet %s", why, m).With(tree2, obs())
		}
		return nil
	case kIdentity, kDontCare:
		vh.DontCare(why)
		return nil
	}

	// ---- values --------------------------------------------------------------------------
	byPath := map[string][]string{}
	for _, id := range units {
		byPath[wants[id].path] = append(byPath[wants[id].path], id)
	}
	for _, names := range byPath {
		seen := map[string]bool{}
		for _, n := range names {
			if wants[n].pkg != wants[names[0]].pkg || wants[n].tpl != wants[names[0]].tpl || wants[n].schema != wants[names[0]].schema {
				vh.DontCare("two-mocks-one-file-different-pkgname-template-or-schema")
				return nil
			}
			if seen[wants[n].iface] {
				vh.DontCare("two-mocks-of-one-interface-in-one-file")
				return nil
			}
			seen[wants[n].iface] = true
		}
	}
	if victim != "" {
		// the schema this mock's template-schema points to rejects the template-data
		if r2.Exit == 0 {
			return vh.Violate("mockery/"+feature("template-schema")+"/own-schema-not-applied", "the schema at %s, where template-schema resolves for mock %s, rejects the template-data (required key missing); mockery exited 0, so that mock was validated against some other schema", stripRoot(wants[victim].schema), victim).With(tree2, obs())
		}
		if !strings.Contains(r2.Stderr, "c11-marker") {
			return vh.Violate("mockery/"+feature("template-schema")+"/failed-for-another-reason", "expected the rejecting schema of mock %s to be reported; mockery exited %d without mentioning it", victim, r2.Exit).With(tree2, obs())
		}
		return nil
	}
	if r2.Exit != 0 {
		if c.Schema != nil && strings.Contains(r2.Stderr, "schema") {
			return vh.Violate("mockery/"+feature("template-schema")+"/schema-not-found-where-the-value-points", "a permissive schema was placed at %s, where template-schema resolves by the documented bindings; mockery failed on the schema", stripRoot(schemaPath)).With(tree2, obs())
		}
		return vh.Violate("mockery/"+layoutKey+"/valid-expressions/exit", "all templated values are well-formed and stabilise, but mockery exited %d", r2.Exit).With(tree2, obs())
	}
	entryKey := ""
	if len(entries) > 0 {
		entryKey = "configs-list/"
	}
	var unexpected []string
	for _, p := range newFiles {
		if _, ok := byPath[p]; !ok {
			unexpected = append(unexpected, stripRoot(p))
		}
	}
	paths := make([]string, 0, len(byPath))
	for p := range byPath {
		paths = append(paths, p)
	}
	sort.Strings(paths)
	for _, p := range paths {
		names := byPath[p]
		content, err := os.ReadFile(p)
		if err != nil {
			// attribute the difference to dir or filename when exactly one stray file shows which
			which := feature("dir") + "/" + feature("filename")
			if len(unexpected) == 1 {
				u := strings.Replace(unexpected[0], "<ROOT>", root, 1)
				switch {
				case filepath.Base(u) == filepath.Base(p):
					which = feature("dir")
				case filepath.Dir(u) == filepath.Dir(p):
					which = feature("filename")
				}
			}
			return vh.Violate("mockery/"+entryKey+which+"/file-not-at-expected-location", "mock for %v expected at %s (dir and filename evaluated by the reference, resolved against cwd); files written instead: %v", names, stripRoot(p), unexpected).With(tree2, obs())
		}
		po, err := parseProbe(string(content))
		if err != nil {
			vh.Infra("probe output unreadable at %s: %v", p, err)
		}
		if po.tpl != wants[names[0]].tpl {
			return vh.Violate("mockery/"+entryKey+"template/wrong-template-used", "%s was rendered by probe template %q, the entry names template %q", stripRoot(p), po.tpl, wants[names[0]].tpl).With(tree2, obs())
		}
		if po.pkg != wants[names[0]].pkg {
			return vh.Violate("mockery/"+entryKey+feature("pkgname")+"/value-mismatch", "pkgname for %s: observed %q, reference evaluation %q", names[0], stripRoot(po.pkg), stripRoot(wants[names[0]].pkg)).With(tree2, obs())
		}
		if len(po.pairs) != len(names) {
			return vh.Violate("mockery/"+entryKey+feature("filename")+"/foreign-interface-in-file", "%s holds %v, expected exactly %v", stripRoot(p), po.pairs, names).With(tree2, obs())
		}
		for _, n := range names {
			got, ok := po.ifaces[wants[n].iface]
			if !ok {
				return vh.Violate("mockery/"+entryKey+feature("filename")+"/interface-not-in-its-file", "interface %s is missing from %s", n, stripRoot(p)).With(tree2, obs())
			}
			if got != wants[n].sname {
				return vh.Violate("mockery/"+entryKey+feature("structname")+"/value-mismatch", "structname for %s: observed %q, reference evaluation %q", n, stripRoot(got), stripRoot(wants[n].sname)).With(tree2, obs())
			}
		}
	}
	if len(unexpected) > 0 {
		return vh.Violate("mockery/"+entryKey+feature("dir")+"/"+feature("filename")+"/extra-file", "files written that no templated value points to: %v", unexpected).With(tree2, obs())
	}
	return nil
}

func tail(s string, n int) string {
	if len(s) <= n {
		return s
	}
	return "…" + s[len(s)-n:]
}

func TestProp(t *testing.T) {
	if _, err := os.Stat(vh.SUT()); err != nil {
		t.Skipf("mockery binary missing: %v", err)
	}
	vh.Main(t, vh.Check[Case]{Gen: gen, Run: run})
}
