// C12 — template-data is validated against the template's JSON schema at every level.
//
// A case is a scratch module with 1-3 source packages, a .mockery.yml whose template-data is
// spread over root / package config / interface config / configs entries, probe templates
// (file://) with schema files at the default location, at a custom (possibly templated)
// template-schema, or missing, the two built-in templates, and require-template-schema-exists
// unset/true/false. The real binary is run in the module; exit status and the presence/content of
// every output file are compared with a reference model (model_test.go: level resolution, schema
// location, own validator for the generated schema subset).
package c12

import (
	"encoding/json"
	"fmt"
	"net/http"
	"net/http/httptest"
	"os"
	"path/filepath"
	"regexp"
	"sort"
	"strings"
	"testing"

	"verif/harness/vh"
)

// ---- classification ---------------------------------------------------------------------------

func schemaLoc(fv FileVerdict) string {
	m := fv.Mocks[0]
	if !isCustom(m.Template) {
		if m.SchemaExpr != "" {
			return "builtin+template-schema"
		}
		return "builtin"
	}
	missing := fv.Schema == nil
	switch {
	case m.SchemaExpr == "" && missing:
		return "default-missing"
	case m.SchemaExpr == "":
		return "default"
	case missing:
		return "custom-missing"
	case strings.Contains(m.SchemaExpr, "{{"):
		return "custom-templated"
	case strings.Contains(m.SchemaExpr, "$ROOT"):
		return "custom-absolute"
	}
	return "custom-literal"
}

func tmplKind(t string) string {
	if isCustom(t) {
		return "custom"
	}
	return t
}

func reqName(r string) string {
	if r == "" {
		return "unset"
	}
	return r
}

// settingsAtIface lists the per-file settings that some mock takes from its interface config or
// configs entry.
func settingsAtIface(vs []FileVerdict) []string {
	set := map[string]bool{}
	for _, fv := range vs {
		for _, m := range fv.Mocks {
			low := func(l string) bool { return l == "iface" || l == "entry" }
			if low(m.TmplLevel) {
				set["template"] = true
			}
			if low(m.SchemaLvl) {
				set["template-schema"] = true
			}
			if low(m.ReqLevel) {
				set["require"] = true
			}
		}
	}
	var out []string
	for _, k := range []string{"template", "template-schema", "require"} {
		if set[k] {
			out = append(out, k)
		}
	}
	return out
}

// sharedDiff: two output files use the same custom template string but their schemas live at
// different locations.
func sharedDiff(vs []FileVerdict) bool {
	for i := range vs {
		for j := i + 1; j < len(vs); j++ {
			a, b := vs[i], vs[j]
			if isCustom(a.Template) && a.TmplKey == b.TmplKey && a.SchemaRel != b.SchemaRel {
				return true
			}
		}
	}
	return false
}

func classify(c Case, vs []FileVerdict) (fp string, classes []string) {
	cl := map[string]bool{}
	add := func(s string) { cl[s] = true }
	add(fmt.Sprintf("pkgs=%d", len(c.Pkgs)))
	nf := len(vs)
	if nf > 4 {
		nf = 4
	}
	add(fmt.Sprintf("files=%d", nf))
	nontrivial := false
	schemaIDs := map[string]bool{}
	allOK, anyDC := true, false
	for _, fv := range vs {
		m0 := fv.Mocks[0]
		add("tmpl=" + tmplKind(fv.Template))
		add("schema=" + schemaLoc(fv))
		add("require=" + reqName(fv.Require))
		if fv.Require != "" {
			add("require@" + m0.ReqLevel)
		}
		if m0.SchemaExpr != "" && isCustom(fv.Template) {
			nontrivial = true
			add("template-schema@" + m0.SchemaLvl)
		}
		if len(fv.Mocks) > 1 {
			add("mocks-per-file>1")
		}
		if fv.Validated {
			id := fv.SchemaRel
			if id == "" {
				id = "builtin:" + fv.Template
			}
			schemaIDs[id] = true
		}
		switch {
		case fv.DontCare != "":
			anyDC = true
			add("file:dont-care")
		case fv.Acceptable && fv.Validated:
			add("file:accept(validated)")
		case fv.Acceptable:
			add("file:accept(require=false)")
			// is there a schema that would have rejected?
			if fv.Schema != nil {
				bad := len(validate(fv.Schema, c.pkgData(fv.Pkg), "")) > 0
				for _, m := range fv.Mocks {
					bad = bad || len(validate(fv.Schema, m.Data, "")) > 0
				}
				if bad {
					add("file:accept(require=false,schema-would-reject)")
				}
			} else {
				add("file:accept(require=false,no-schema)")
			}
		default:
			allOK = false
			fileLevel := map[string]bool{}
			mockLevel := map[string]bool{}
			for _, is := range fv.Issues {
				if is.Kind == "no-schema" {
					add("issue=no-schema")
					continue
				}
				where := is.Level
				if is.Kind == "missing-required" {
					where = "mock"
					if strings.HasPrefix(is.Path, "file:") {
						where = "file"
					}
				}
				if strings.Contains(strings.SplitN(is.Path, ":", 2)[1], ".") {
					add("issue=nested")
				}
				add("issue=" + is.Kind + "@" + where)
				if !isCustom(fv.Template) {
					add("builtin-issue=" + is.Kind + ":" + strings.SplitN(is.Path, ":", 2)[1])
				}
				if is.Level == "iface" || is.Level == "entry" {
					nontrivial = true
				}
				if strings.HasPrefix(is.Path, "file:") {
					fileLevel[is.Kind] = true
				} else {
					mockLevel[is.Kind] = true
				}
			}
			if len(fileLevel) > 0 && len(mockLevel) == 0 {
				add("reject:file-level-data-only")
				nontrivial = true
			}
			if len(fileLevel) == 0 && len(mockLevel) > 0 {
				add("reject:interface-data-only")
			}
			kinds := map[string]bool{}
			for _, is := range fv.Issues {
				kinds[is.Kind] = true
			}
			if len(kinds) == 1 {
				add("reject:one-rule")
			} else {
				add("reject:several-rules")
			}
		}
		// data spread
		for _, m := range fv.Mocks {
			lv := map[string]bool{}
			var walk func(d []EKV)
			walk = func(d []EKV) {
				for _, kv := range d {
					lv[kv.E.Level] = true
					if kv.E.V.T == "o" {
						sub := map[string]bool{}
						for _, k := range kv.E.Kids {
							sub[k.E.Level] = true
						}
						if len(sub) > 1 {
							add("data:nested-object-merged-from-2-levels")
						}
						walk(kv.E.Kids)
					}
				}
			}
			walk(m.Data)
			if len(lv) >= 2 {
				add("data:split-over>=2-levels")
			}
			if len(lv) >= 3 {
				add("data:split-over>=3-levels")
			}
			if len(m.Data) == 0 {
				add("data:empty")
			}
		}
	}
	// overrides: the same key written at two levels of one chain
	for _, p := range c.Pkgs {
		for _, i := range p.Ifaces {
			chains := [][]KV{i.Cfg.Data}
			for _, e := range i.Entries {
				chains = append(chains, e.Data)
			}
			for _, low := range chains {
				for _, kv := range low {
					if _, ok := get(p.Cfg.Data, kv.K); ok {
						add("data:override")
					}
					if _, ok := get(c.Root.Data, kv.K); ok {
						add("data:override")
					}
				}
			}
		}
		for _, kv := range p.Cfg.Data {
			if _, ok := get(c.Root.Data, kv.K); ok {
				add("data:override")
			}
		}
	}
	if len(schemaIDs) >= 2 {
		nontrivial = true
		add("schemas>=2")
	}
	if sharedDiff(vs) {
		add("shared-template+different-schemas")
	} else {
		seen := map[string]int{}
		for _, fv := range vs {
			if isCustom(fv.Template) {
				seen[fv.TmplKey]++
			}
		}
		for _, n := range seen {
			if n > 1 {
				add("shared-template+same-schema")
			}
		}
	}
	if s := settingsAtIface(vs); len(s) > 0 {
		add("file-settings@interface(" + strings.Join(s, "+") + ")")
	}
	if len(c.Sentinels) > 0 {
		add("pre-existing-output")
	}
	if c.HTTP {
		for _, fv := range vs {
			if isCustom(fv.Template) {
				add("locations-over-http")
			}
		}
	}
	switch {
	case anyDC:
		add("case:dont-care")
	case allOK:
		add("case:all-accept")
	default:
		add("case:reject")
		ok := 0
		for _, fv := range vs {
			if fv.Acceptable {
				ok++
			}
		}
		if ok > 0 {
			add("case:reject+other-files-acceptable")
		}
	}
	for k := range cl {
		classes = append(classes, k)
	}
	sort.Strings(classes)
	if nontrivial {
		fp = vh.Hash(vh.JSON(c))
	}
	return fp, classes
}

// ---- running and judging ----------------------------------------------------------------------

var (
	ftlRe  = regexp.MustCompile(`(?m)^\S+ FTL (.*)$`)
	errRe  = regexp.MustCompile(`error="((?:[^"\\]|\\.)*)"`)
	nameRe = regexp.MustCompile(`\b(Alpha|Beta|Gamma)\b`)
	pathRe = regexp.MustCompile(`(/[^\s":]+)+`)
)

func lastError(stderr string) string {
	m := ftlRe.FindAllStringSubmatch(stderr, -1)
	if len(m) == 0 {
		return "no-FTL-line"
	}
	line := m[len(m)-1][1]
	if e := errRe.FindStringSubmatch(line); e != nil {
		line = e[1]
	}
	line = nameRe.ReplaceAllString(line, "<iface>")
	line = pathRe.ReplaceAllString(line, "<path>")
	line = regexp.MustCompile(`(p[0-9]|s[0-9]|probe\.templ|p2\.templ)`).ReplaceAllString(line, "<n>")
	return vh.Trunc(strings.TrimSpace(line), 120)
}

// featureOf names the input shape for the canonical key. only: the file the failure is about (nil
// when the failure concerns the run as a whole).
func featureOf(vs []FileVerdict, only *FileVerdict) (string, bool) {
	if s := settingsAtIface(vs); len(s) > 0 {
		return "file-settings@interface(" + strings.Join(s, "+") + ")", true
	}
	if sharedDiff(vs) {
		return "shared-template+different-schemas", true
	}
	set := map[string]bool{}
	for _, fv := range vs {
		if only != nil && fv.File != only.File {
			continue
		}
		set[fmt.Sprintf("tmpl=%s,schema=%s,require=%s", tmplKind(fv.Template), schemaLoc(fv), reqName(fv.Require))] = true
	}
	var parts []string
	for k := range set {
		parts = append(parts, k)
	}
	sort.Strings(parts)
	return strings.Join(parts, "|"), false
}

func issueTag(is Issue) string {
	switch {
	case is.Level != "":
		return is.Kind + "@" + is.Level
	case strings.HasPrefix(is.Path, "file:"):
		return is.Kind + "@file-level-data"
	case is.Kind == "no-schema":
		return is.Kind
	}
	return is.Kind + "@mock-data"
}

func describe(c Case, vs []FileVerdict) string {
	var b strings.Builder
	for _, fv := range vs {
		fmt.Fprintf(&b, "model: file %s  template=%s schema-at=%q (present=%v) require=%s -> ", fv.File, fv.Template, fv.SchemaRel, fv.Schema != nil, reqName(fv.Require))
		switch {
		case fv.DontCare != "":
			fmt.Fprintf(&b, "DON'T CARE (%s)\n", fv.DontCare)
		case fv.Acceptable && fv.Validated:
			b.WriteString("ACCEPT (all data valid)\n")
		case fv.Acceptable:
			b.WriteString("ACCEPT (no validation: require-template-schema-exists false)\n")
		default:
			b.WriteString("REJECT:")
			for _, is := range fv.Issues {
				fmt.Fprintf(&b, " [%s %s written at %q]", is.Kind, is.Path, is.Level)
			}
			b.WriteString("\n")
		}
		fmt.Fprintf(&b, "       file-level data %s\n", showData(c.pkgData(fv.Pkg)))
		for _, m := range fv.Mocks {
			fmt.Fprintf(&b, "       mock %s[%d] data %s\n", m.Iface, m.Entry, showData(m.Data))
		}
	}
	return b.String()
}

func onlyErrLines(stderr string) string {
	var keep []string
	for _, ln := range strings.Split(stderr, "\n") {
		if strings.Contains(ln, " INF ") || strings.TrimSpace(ln) == "" {
			continue
		}
		keep = append(keep, ln)
	}
	return vh.Trunc(strings.Join(keep, "\n"), 4000)
}

// once runs mockery one time in a fresh scratch module and judges the result.
func once(c Case, vs []FileVerdict, run int) *vh.Violation {
	dir := vh.NewScratch()
	defer vh.RemoveAll(dir)
	vh.NewModule(dir, modPath)
	base := ""
	if c.HTTP {
		srv := httptest.NewServer(http.FileServer(http.Dir(dir)))
		defer srv.Close()
		base = srv.URL
	}
	files := c.files(dir, base)
	vh.WriteFiles(dir, files)
	res := vh.Mockery(dir, nil)
	if res.TimedOut {
		vh.Infra("mockery timed out")
	}
	shown := map[string]string{}
	httpBase := ""
	if c.HTTP {
		httpBase = "http://127.0.0.1:PORT"
	}
	for k, v := range c.files("$ROOT", httpBase) {
		shown[k] = v
	}
	observed := func() string {
		var b strings.Builder
		fmt.Fprintf(&b, "run %d: exit %d\n%s--- output files after the run\n", run, res.Exit, describe(c, vs))
		for _, fv := range vs {
			st := "absent"
			if bs, err := os.ReadFile(filepath.Join(dir, fv.File)); err == nil {
				st = "written"
				if string(bs) == sentinelText(fv.File) {
					st = "unchanged (pre-existing content)"
				}
			}
			fmt.Fprintf(&b, "  %s: %s\n", fv.File, st)
		}
		b.WriteString("--- stderr (without INF lines)\n" + strings.ReplaceAll(onlyErrLines(res.Stderr), dir, "$ROOT"))
		return b.String()
	}
	fail := func(about *FileVerdict, what, detail, format string, a ...any) *vh.Violation {
		feature, coarse := featureOf(vs, about)
		key := "generate/" + feature + "/" + what
		if !coarse && detail != "" {
			key += ":" + detail
		}
		return vh.Violate(key, format, a...).With(shown, observed())
	}
	if res.Panicked() {
		return fail(nil, "panic", "", "mockery ended with a Go panic")
	}
	hasSentinel := map[string]bool{}
	for _, s := range c.Sentinels {
		hasSentinel[s] = true
	}
	written := func(f string) bool {
		bs, err := os.ReadFile(filepath.Join(dir, f))
		if err != nil {
			return false
		}
		return !(hasSentinel[f] && string(bs) == sentinelText(f))
	}
	allOK, anyDC := true, false
	var firstBad *FileVerdict
	for i := range vs {
		fv := &vs[i]
		if fv.DontCare != "" {
			anyDC = true
			continue
		}
		if !fv.Acceptable {
			allOK = false
			if firstBad == nil {
				firstBad = fv
			}
			if written(fv.File) {
				is := fv.Issues[0]
				return fail(fv, "wrote-rejected-file", issueTag(is), "output file %s was written although its template-data must be rejected (%s %s)", fv.File, is.Kind, is.Path)
			}
		}
	}
	if anyDC {
		for _, fv := range vs {
			if fv.DontCare != "" {
				vh.DontCare(fv.DontCare)
			}
		}
		return nil
	}
	switch {
	case allOK && res.Exit != 0:
		return fail(nil, "rejected-valid", lastError(res.Stderr), "every output file is acceptable by the property (schema retrievable or validation switched off, all template-data valid) but mockery exited %d: %s", res.Exit, lastError(res.Stderr))
	case allOK:
		for _, fv := range vs {
			if !written(fv.File) {
				return fail(&fv, "exit0-file-not-written", "", "exit status 0 but output file %s was not written", fv.File)
			}
		}
	case res.Exit == 0:
		is := firstBad.Issues[0]
		return fail(firstBad, "accepted-invalid", issueTag(is), "output file %s must be rejected (%s %s) but mockery exited 0", firstBad.File, is.Kind, is.Path)
	default:
		// rejected as required; make sure it was rejected for a schema reason and not because the
		// harness produced something mockery cannot load
		if !strings.Contains(res.Stderr, "schema") {
			vh.Infra("run failed as required but not for a schema reason: %s", lastError(res.Stderr))
		}
	}
	return nil
}

func run(c Case) *vh.Violation {
	// unlisted interfaces cannot carry configuration
	for pi := range c.Pkgs {
		for ii := range c.Pkgs[pi].Ifaces {
			if it := &c.Pkgs[pi].Ifaces[ii]; !it.Listed {
				if !c.Pkgs[pi].All || !it.Cfg.isZero() || len(it.Entries) > 0 {
					vh.Invalid()
					return nil
				}
			}
		}
	}
	vs := c.verdicts()
	for _, fv := range vs {
		if !fv.Uniform {
			// mocks sharing a file disagree on a per-file setting: C09's conflict clause, not this property
			vh.DontCare("mocks-of-one-file-disagree-on-a-per-file-setting")
			return nil
		}
	}
	// recorded findings: the generator steers away from their triggers, but pruning can re-create
	// them. (Never in the replay tier: a saved finding must be re-run to be reported as known.)
	if os.Getenv("VCHECK_REPLAY") == "" {
		for _, st := range settingsAtIface(vs) {
			if known10(st) {
				vh.Excluded(keyRow10Prefix + "(" + st + ")")
				return nil
			}
		}
		if sharedDiff(vs) && known20() {
			vh.Excluded(keyRow20)
			return nil
		}
	}
	fp, classes := classify(c, vs)
	vh.Count(fp, classes...)
	if fp != "" && vh.NeedSample() {
		vh.Sample(map[string]any{"config": c.configYAML("$ROOT", map[bool]string{true: "http://127.0.0.1:PORT"}[c.HTTP]), "schemas": c.SchemaFiles, "model": describe(c, vs)})
	}
	// A run stops at the first failing file and files are processed in map order; when two files
	// share a template but not a schema the outcome can depend on that order, so such cases are
	// run several times and fail if any run fails.
	runs := 1
	if sharedDiff(vs) {
		runs = 6
	}
	for r := 0; r < runs; r++ {
		if v := once(c, vs, r); v != nil {
			return v
		}
	}
	return nil
}

func TestProp(t *testing.T) {
	if _, err := os.Stat(vh.SUT()); err != nil {
		t.Skipf("mockery binary missing: %v", err)
	}
	vh.Main(t, vh.Check[Case]{Gen: gen, Run: run})
}

// TestRender is a development aid, not part of the check: with C12_RENDER=<replay dir> it writes
// the scratch tree of <dir>/case.json to <dir>/tree and the model's verdict to <dir>/model.txt, so
// that hand-written replay cases can be read without running anything.
func TestRender(t *testing.T) {
	dir := os.Getenv("C12_RENDER")
	if dir == "" {
		t.Skip("C12_RENDER not set")
	}
	b, err := os.ReadFile(filepath.Join(dir, "case.json"))
	if err != nil {
		t.Fatal(err)
	}
	var c Case
	if err := json.Unmarshal(b, &c); err != nil {
		t.Fatal(err)
	}
	base := ""
	if c.HTTP {
		base = "http://127.0.0.1:PORT"
	}
	_ = os.RemoveAll(filepath.Join(dir, "tree"))
	vh.WriteFiles(filepath.Join(dir, "tree"), c.files("$ROOT", base))
	vh.WriteFiles(dir, map[string]string{"model.txt": describe(c, c.verdicts())})
}
