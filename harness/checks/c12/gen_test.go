package c12

// Generator for C12 cases. The generator only steers towards interesting shapes; the verdict of a
// case is always computed afterwards by the model from the finished case (model_test.go).

import (
	"fmt"
	"os"
	"path"
	"strings"

	"pgregory.net/rapid"
	"verif/harness/vh"
)

// canonical keys of the two behaviours listed in DESIGN.md section 6 (rows 10 and 20); when one is
// recorded in KNOWN_FINDINGS.txt (or named in C12_ASSUME_KNOWN, a development aid) the generator
// steers away from its trigger and counts the steered draws.
const (
	keyRow10Prefix = "generate/file-settings@interface"
	keyRow20       = "generate/shared-template+different-schemas"
)

func assumed(tag string) bool {
	for _, s := range strings.Split(os.Getenv("C12_ASSUME_KNOWN"), ",") {
		if strings.TrimSpace(s) == tag {
			return true
		}
	}
	return false
}

func known10(setting string) bool {
	if assumed("row10") {
		return true
	}
	for _, v := range []string{"accepted-invalid", "rejected-valid", "wrote-rejected-file"} {
		if vh.Known(keyRow10Prefix + "(" + setting + ")/" + v) {
			return true
		}
	}
	return false
}

func known20() bool {
	if assumed("row20") {
		return true
	}
	for _, v := range []string{"accepted-invalid", "rejected-valid", "wrote-rejected-file"} {
		if vh.Known(keyRow20 + "/" + v) {
			return true
		}
	}
	return false
}

// ---- small helpers ----------------------------------------------------------------------------

// rapid's integer generators are deliberately biased towards small values: IntRange(0,127) picks a
// bit length N = 1+Geom(1/9) and then a uniform value below 2^min(N,7) (and the maximum when
// N >= 32). Drawing every decision as several fair rapid.Bool bits would be exact but multiplies the
// number of draws, and rapid's shrinker pays one execution per draw and pass. So each decision is
// ONE biased draw, de-biased with the exactly known distribution: massBelow[v] = P(V < v).
// V = 0 (what shrinking tends to) always means "feature off" / "first alternative".
var massBelow [129]float64

func init() {
	var pv [128]float64
	pN := 1.0 / 9
	rest := 1.0
	for k := 1; k <= 6; k++ {
		for v := 0; v < 1<<k; v++ {
			pv[v] += pN / float64(int(1)<<k)
		}
		rest -= pN
		pN *= 8.0 / 9
	}
	// N in 7..31: uniform over all 128 values; N >= 32: the maximum
	pHi := 1.0
	for k := 1; k < 32; k++ {
		pHi *= 8.0 / 9
	}
	for v := 0; v < 128; v++ {
		pv[v] += (rest - pHi) / 128
	}
	pv[127] += pHi
	for v := 0; v < 128; v++ {
		massBelow[v+1] = massBelow[v] + pv[v]
	}
}

func draw128(t *rapid.T, label string) int { return rapid.IntRange(0, 127).Draw(t, label) }

// pct is true with probability of about p percent (p between ~1 and ~89).
func pct(t *rapid.T, p int, label string) bool {
	// threshold T >= 1 whose tail mass P(V >= T) is closest to p%
	best, bestD := 1, 2.0
	for T := 1; T <= 127; T++ {
		d := (1 - massBelow[T]) - float64(p)/100
		if d < 0 {
			d = -d
		}
		if d < bestD {
			best, bestD = T, d
		}
	}
	return draw128(t, label) >= best
}

// weighted draws an index with (approximately) the given weights; the first alternative with a
// non-zero weight absorbs the atom at V = 0 (about 10%).
func weighted(t *rapid.T, label string, w ...int) int {
	sum := 0
	for _, x := range w {
		sum += x
	}
	v := draw128(t, label)
	q := (massBelow[v] + massBelow[v+1]) / 2 // mid-quantile of the drawn value
	if v == 0 {
		q = 0
	}
	acc := 0.0
	for i, x := range w {
		acc += float64(x) / float64(sum)
		if x > 0 && q < acc {
			return i
		}
	}
	for i := len(w) - 1; i >= 0; i-- {
		if w[i] > 0 {
			return i
		}
	}
	return 0
}

type poolEntry struct{ name, typ string }

var propPool = []poolEntry{
	{"name", "string"}, {"label", "string"}, {"enabled", "boolean"}, {"strict", "boolean"},
	{"count", "integer"}, {"level", "integer"}, {"ratio", "number"}, {"weight", "number"},
	{"items", "array"}, {"tags", "array"}, {"opts", "object"}, {"meta", "object"}, {"limits", "object"},
}
var allTypes = []string{"string", "boolean", "integer", "number", "array", "object"}

var strPool = []string{"x", "hello world", "", "true", "12", "1.5", "null", "é", "a: b", "# c", "{{x}}", "no"}
var fltPool = []string{"0.5", "2.5", "-1.25", "3.75", "100.125", "1e-3"}
var intPool = []int{0, 1, -3, 7, 40, 1000000, -2147483648}

func genScalar(t *rapid.T, typ string, label string) Val {
	switch typ {
	case "string":
		return Val{T: "s", S: rapid.SampledFrom(strPool).Draw(t, label+"str")}
	case "boolean":
		return Val{T: "b", B: rapid.Bool().Draw(t, label+"bool")}
	case "integer":
		return Val{T: "i", I: rapid.SampledFrom(intPool).Draw(t, label+"int")}
	case "float":
		return Val{T: "f", F: rapid.SampledFrom(fltPool).Draw(t, label+"flt")}
	case "number":
		if rapid.Bool().Draw(t, label+"numint") {
			return Val{T: "i", I: rapid.SampledFrom(intPool).Draw(t, label+"int")}
		}
		return Val{T: "f", F: rapid.SampledFrom(fltPool).Draw(t, label+"flt")}
	case "null":
		return Val{T: "z"}
	}
	panic("genScalar " + typ)
}

var scalarKinds = []string{"string", "boolean", "integer", "float"}

func genOfType(t *rapid.T, typ string, sub *Schema, label string) Val {
	switch typ {
	case "array":
		n := rapid.IntRange(0, 3).Draw(t, label+"alen")
		v := Val{T: "a"}
		for i := 0; i < n; i++ {
			v.A = append(v.A, genScalar(t, rapid.SampledFrom(scalarKinds).Draw(t, label+"ael"), label+"ae"))
		}
		return v
	case "object":
		if sub != nil {
			return Val{T: "o", O: genValidMap(t, sub, label+"sub")}
		}
		n := rapid.IntRange(0, 2).Draw(t, label+"olen")
		v := Val{T: "o"}
		for i := 0; i < n; i++ {
			v.O = set(v.O, rapid.SampledFrom([]string{"k", "x", "name"}).Draw(t, label+"okey"), genScalar(t, rapid.SampledFrom(scalarKinds).Draw(t, label+"oel"), label+"oe"))
		}
		return v
	}
	return genScalar(t, typ, label)
}

// genValid draws a value accepted for property p. For the built-in templates the values are also
// harmless for the template itself (an existing boilerplate file, a well-formed build constraint).
func genValid(t *rapid.T, s *Schema, p Prop, label string) Val {
	if s.Builtin != "" {
		switch p.Name {
		case "boilerplate-file":
			return Val{T: "s", S: rapid.SampledFrom([]string{"boilerplate.txt", "", "./boilerplate.txt"}).Draw(t, label+"bp")}
		case "mock-build-tags":
			return Val{T: "s", S: rapid.SampledFrom([]string{"verif", "", "a && b", "!windows"}).Draw(t, label+"tags")}
		}
	}
	return genOfType(t, p.Type, p.Sub, label)
}

// genWrong draws a value whose JSON type is not accepted by typ.
func genWrong(t *rapid.T, typ string, label string) Val {
	var cands []string
	for _, c := range []string{"string", "boolean", "integer", "float", "array", "object", "null"} {
		switch {
		case c == typ:
		case typ == "number" && (c == "integer" || c == "float"):
		case c == "null" && !pct(t, 30, label+"allownull"):
		default:
			cands = append(cands, c)
		}
	}
	c := rapid.SampledFrom(cands).Draw(t, label+"wrongkind")
	return genOfType(t, c, nil, label+"w")
}

func genValidMap(t *rapid.T, s *Schema, label string) []KV {
	var out []KV
	for _, p := range s.Props {
		if s.isRequired(p.Name) || pct(t, 50, label+"opt") {
			out = append(out, KV{p.Name, genValid(t, s, p, label+p.Name)})
		}
	}
	for _, r := range s.Required {
		if s.prop(r) == nil {
			out = set(out, r, genScalar(t, rapid.SampledFrom(scalarKinds).Draw(t, label+"freekind"), label+"free"))
		}
	}
	return out
}

func genSubSchema(t *rapid.T, label string) *Schema {
	s := &Schema{Closed: pct(t, 60, label+"closed")}
	names := rapid.SliceOfNDistinct(rapid.IntRange(0, 9), 1, 3, func(i int) int { return i }).Draw(t, label+"props")
	for _, i := range names {
		pe := propPool[i]
		s.Props = append(s.Props, Prop{Name: pe.name, Type: pe.typ})
		if pct(t, 40, label+"req") {
			s.Required = append(s.Required, pe.name)
		}
	}
	return s
}

func genSchema(t *rapid.T, label string) Schema {
	s := Schema{Closed: pct(t, 65, label+"closed"), Draft07: pct(t, 70, label+"draft")}
	idx := rapid.SliceOfNDistinct(rapid.IntRange(0, len(propPool)-1), 1, 5, func(i int) int { return i }).Draw(t, label+"props")
	if pct(t, 30, label+"force-object") {
		have := false
		for _, i := range idx {
			have = have || propPool[i].typ == "object"
		}
		if !have {
			idx = append(idx, 10+weighted(t, label+"which-object", 1, 1, 1))
		}
	}
	for _, i := range idx {
		pe := propPool[i]
		p := Prop{Name: pe.name, Type: pe.typ}
		if pct(t, 12, label+"offtype") {
			p.Type = rapid.SampledFrom(allTypes).Draw(t, label+"type")
		}
		if p.Type == "object" && pct(t, 70, label+"nested") {
			p.Sub = genSubSchema(t, label+"sub")
		}
		s.Props = append(s.Props, p)
		if pct(t, 40, label+"req") {
			s.Required = append(s.Required, p.Name)
		}
	}
	if !s.Closed && pct(t, 10, label+"freereq") {
		s.Required = append(s.Required, "extra")
	}
	return s
}

func rejectAllSchema() Schema {
	return Schema{Props: []Prop{{Name: "decoy", Type: "string"}}, Required: []string{"decoy"}, Closed: true, Draft07: true}
}
func acceptAllSchema() Schema { return Schema{} }

// ---- plans ------------------------------------------------------------------------------------

// plan is the per-file triple the generator aims for.
type plan struct {
	tmpl    string
	expr    string
	require string
}

var probeFiles = []string{"probe.templ", "tmpl/p2.templ"}

type builder struct {
	t *rapid.T
	c *Case
}

func (b *builder) hasTmpl(rel string) bool {
	for _, x := range b.c.Tmpls {
		if x == rel {
			return true
		}
	}
	return false
}

func (b *builder) ensureSchema(rel string, mk func() Schema) {
	rel = path.Clean(rel)
	if b.c.schemaAt(rel) != nil {
		return
	}
	b.c.SchemaFiles = append(b.c.SchemaFiles, SchemaFile{Path: rel, Schema: mk()})
}

func spell(t *rapid.T, rel string, label string) string {
	switch weighted(t, label, 60, 20, 20) {
	case 0:
		return "file://" + rel
	case 1:
		return "file://./" + rel
	}
	return "file://$ROOT/" + rel
}

// genPlan draws the triple for one package (or file) and creates the schema files it refers to.
// forceExplicit: the schema expression and the require switch must be written out (needed when
// they are to be placed at interface level).
func (b *builder) genPlan(pkg string, prev *plan, forceExplicit bool, label string) plan {
	t := b.t
	var pl plan
	kind := weighted(t, label+"tmplkind", 76, 12, 12)
	if prev != nil && isCustom(prev.tmpl) && pct(t, 55, label+"sametmpl") {
		pl.tmpl = prev.tmpl
		if pct(t, 50, label+"sameexpr") {
			pl.expr = prev.expr
		} else {
			pl.expr = b.genExpr(pkg, pl.tmpl, forceExplicit, label)
		}
	} else {
		switch kind {
		case 0:
			rel := rapid.SampledFrom(probeFiles).Draw(t, label+"probe")
			if !b.hasTmpl(rel) {
				b.c.Tmpls = append(b.c.Tmpls, rel)
			}
			pl.tmpl = spell(t, rel, label+"spell")
			pl.expr = b.genExpr(pkg, pl.tmpl, forceExplicit, label)
		case 1:
			pl.tmpl = "testify"
		default:
			pl.tmpl = "matryer"
		}
	}
	if !isCustom(pl.tmpl) && (forceExplicit || pct(t, 10, label+"builtin-with-schema")) {
		// template-schema next to a built-in template: the built-in schema still applies
		pl.expr = "file://schemas/for-builtin.json"
		b.ensureSchema("schemas/for-builtin.json", rejectAllSchema)
	}
	switch {
	case forceExplicit:
		pl.require = rapid.SampledFrom([]string{"true", "false", "false"}).Draw(t, label+"require")
	default:
		pl.require = []string{"", "true", "false"}[weighted(t, label+"require", 50, 25, 25)]
	}
	// make sure the schema the plan points to exists unless the plan is a "missing" one
	m := Mock{Pkg: pkg, Template: pl.tmpl, SchemaExpr: pl.expr}
	if isCustom(pl.tmpl) && !strings.Contains(pl.expr, "missing") && !strings.Contains(pl.expr, "nowhere") {
		rel := relPath(schemaURL(m))
		if pl.expr == "" && pct(t, 22, label+"default-missing") {
			// default location, nothing there (unless another plan has put a schema there)
		} else {
			b.ensureSchema(rel, func() Schema { return genSchema(t, label+"schema") })
		}
	}
	return pl
}

func (b *builder) genExpr(pkg, tmpl string, forceExplicit bool, label string) string {
	t := b.t
	defRel := relPath(tmpl) + ".schema.json"
	decoy := func(p int) {
		if pct(t, p, label+"decoy") {
			if rapid.Bool().Draw(t, label+"decoykind") {
				b.ensureSchema(defRel, rejectAllSchema)
			} else {
				b.ensureSchema(defRel, acceptAllSchema)
			}
		}
	}
	w := []int{38, 18, 10, 24, 10}
	if forceExplicit {
		w[0] = 0
	}
	switch weighted(t, label+"schemamode", w...) {
	case 0:
		return ""
	case 1:
		decoy(50)
		return fmt.Sprintf("file://schemas/s%d.json", rapid.IntRange(1, 3).Draw(t, label+"sn"))
	case 2:
		decoy(50)
		return fmt.Sprintf("file://$ROOT/schemas/s%d.json", rapid.IntRange(1, 3).Draw(t, label+"sn"))
	case 3:
		decoy(50)
		return rapid.SampledFrom([]string{
			"file://schemas/{{.SrcPackageName}}.json",
			"{{.Template}}.alt.json",
			"file://{{.ConfigDir}}/schemas/{{.SrcPackageName}}.json",
			"file://schemas/{{.SrcPackagePath}}/s.json",
		}).Draw(t, label+"templated")
	default:
		decoy(60)
		return rapid.SampledFrom([]string{"file://schemas/missing.json", "file://nowhere/{{.SrcPackageName}}.json", "{{.Template}}.missing.json"}).Draw(t, label+"missing")
	}
}

// ---- the generator ----------------------------------------------------------------------------

var ifaceNames = []string{"Alpha", "Beta", "Gamma"}

type mockRef struct {
	pi, ii, ei int // package, interface, entry (-1 none)
	file       int // file index within the package
}

func (b *builder) slot(r mockRef) *Settings {
	if r.ei >= 0 {
		return &b.c.Pkgs[r.pi].Ifaces[r.ii].Entries[r.ei]
	}
	return &b.c.Pkgs[r.pi].Ifaces[r.ii].Cfg
}

func gen(t *rapid.T) Case {
	c := Case{}
	b := &builder{t: t, c: &c}
	c.Root.Filename = "out.txt"
	// "keep" decisions for prune(), drawn first so that the shrinker reaches them early
	keepFlags := make([]bool, 72)
	for i := range keepFlags {
		keepFlags[i] = draw128(t, "keep") > 0 || rapid.Bool().Draw(t, "keep2")
	}

	npk := 1 + weighted(t, "npkgs", 45, 40, 15)

	// class: per-file settings written at interface level (DESIGN section 6 row 10)
	var atIface []string
	if pct(t, 14, "settings-at-iface") {
		pick := weighted(t, "which-at-iface", 30, 30, 25, 15)
		cand := [][]string{{"template"}, {"template-schema"}, {"require"}, {"template", "template-schema", "require"}}[pick]
		for _, s := range cand {
			if known10(s) {
				vh.Excluded(keyRow10Prefix + "(" + s + ")")
				continue
			}
			atIface = append(atIface, s)
		}
	}
	has := func(s string) bool {
		for _, x := range atIface {
			if x == s {
				return true
			}
		}
		return false
	}
	forceExplicit := len(atIface) > 0

	// ---- structure: packages, interfaces, entries, files
	var refs [][]mockRef // per package
	for pi := 0; pi < npk; pi++ {
		p := Pkg{Name: fmt.Sprintf("p%d", pi+1)}
		p.All = !forceExplicit && pct(t, 15, "all")
		ni := 1 + weighted(t, "nifaces", 40, 40, 20)
		nf := 1 + weighted(t, "nfiles", 55, 38, 7)
		if pct(t, 25, "pkg-filename") {
			p.Cfg.Filename = "pk.txt"
		}
		var rs []mockRef
		for ii := 0; ii < ni; ii++ {
			it := Iface{Name: ifaceNames[ii], Listed: true}
			if p.All && ii > 0 && pct(t, 50, "unlisted") {
				it.Listed = false
			}
			if it.Listed && pct(t, 20, "entries") {
				it.Entries = make([]Settings, 2)
			}
			p.Ifaces = append(p.Ifaces, it)
			if len(it.Entries) == 0 {
				f := 0
				if it.Listed {
					f = rapid.IntRange(0, nf-1).Draw(t, "file")
				}
				rs = append(rs, mockRef{pi, ii, -1, f})
			} else {
				for ei := range it.Entries {
					rs = append(rs, mockRef{pi, ii, ei, rapid.IntRange(0, nf-1).Draw(t, "file")})
				}
			}
		}
		c.Pkgs = append(c.Pkgs, p)
		for _, r := range rs {
			if r.file > 0 {
				b.slot(r).Filename = fmt.Sprintf("f%d.txt", r.file)
			}
		}
		refs = append(refs, rs)
	}

	// ---- plans
	plans := make([]map[int]plan, npk) // package -> file index -> plan
	var prev *plan
	usedTmpl := map[string]string{} // template string -> schema location (only consulted when steering)
	for pi := range c.Pkgs {
		plans[pi] = map[int]plan{}
		pl := b.genPlan(c.Pkgs[pi].Name, prev, forceExplicit, fmt.Sprintf("p%d.", pi))
		if isCustom(pl.tmpl) && known20() {
			// steer away: a template string already used with a schema at another location
			rel := func(pl plan) string {
				return relPath(schemaURL(Mock{Pkg: c.Pkgs[pi].Name, Template: pl.tmpl, SchemaExpr: pl.expr}))
			}
			if at, used := usedTmpl[pl.tmpl]; used && at != rel(pl) {
				vh.Excluded(keyRow20)
				found := false
				for _, f := range probeFiles {
					for _, sp := range []string{"file://", "file://./", "file://$ROOT/"} {
						if _, u := usedTmpl[sp+f]; !u && !found {
							found = true
							if !b.hasTmpl(f) {
								c.Tmpls = append(c.Tmpls, f)
							}
							pl.tmpl = sp + f
						}
					}
				}
				if !found {
					pl.tmpl, pl.expr = "testify", ""
				} else if !strings.Contains(pl.expr, "missing") && !strings.Contains(pl.expr, "nowhere") {
					b.ensureSchema(rel(pl), func() Schema { return genSchema(t, "steer.schema") })
				}
			}
			if isCustom(pl.tmpl) {
				usedTmpl[pl.tmpl] = rel(pl)
			}
		}
		for _, r := range refs[pi] {
			plans[pi][r.file] = pl
		}
		// in the interface-level class a second file of the package may get its own triple
		if forceExplicit && !known20() && pct(t, 30, "per-file-plan") {
			for _, r := range refs[pi] {
				if r.file > 0 {
					plans[pi][r.file] = b.genPlan(c.Pkgs[pi].Name, &pl, true, fmt.Sprintf("p%d.f%d.", pi, r.file))
					break
				}
			}
		}
		p0 := plans[pi][refs[pi][0].file]
		prev = &p0
	}

	// ---- placement of the triple
	type fieldAcc struct {
		name string
		get  func(pl plan) string
		put  func(s *Settings, v string)
		alt  func(v string) string // a conflicting value for the upper levels
	}
	fields := []fieldAcc{
		{"template", func(pl plan) string { return pl.tmpl }, func(s *Settings, v string) { s.Template = v }, func(v string) string {
			if v == "matryer" {
				return "testify"
			}
			return "matryer"
		}},
		{"template-schema", func(pl plan) string { return pl.expr }, func(s *Settings, v string) { s.Schema = v }, func(v string) string {
			if v == "file://schemas/missing.json" {
				return "file://schemas/s1.json"
			}
			return "file://schemas/missing.json"
		}},
		{"require", func(pl plan) string { return pl.require }, func(s *Settings, v string) { s.Require = v }, func(v string) string {
			if v == "true" {
				return "false"
			}
			return "true"
		}},
	}
	for _, f := range fields {
		if has(f.name) {
			// written on every mock of the file, identically
			for pi := range c.Pkgs {
				for _, r := range refs[pi] {
					f.put(b.slot(r), f.get(plans[pi][r.file]))
				}
				if pct(t, 50, f.name+"-conflicting-above") {
					v := f.alt(f.get(plans[pi][refs[pi][0].file]))
					if pct(t, 50, f.name+"-conflict-at-root") {
						f.put(&c.Root, v)
					} else {
						f.put(&c.Pkgs[pi].Cfg, v)
					}
				}
			}
			continue
		}
		// default: root or package level. A package that wants the setting unset rules out a root value.
		want := make([]string, npk)
		anyUnset := false
		for pi := range c.Pkgs {
			want[pi] = f.get(plans[pi][refs[pi][0].file])
			if f.name == "template" && want[pi] == "testify" && pct(t, 30, "testify-by-default") {
				want[pi] = ""
			}
			if want[pi] == "" {
				anyUnset = true
			}
		}
		rootVal := ""
		if !anyUnset && pct(t, 60, f.name+"-at-root") {
			rootVal = want[rapid.IntRange(0, npk-1).Draw(t, f.name+"-root-from")]
			f.put(&c.Root, rootVal)
		}
		for pi := range c.Pkgs {
			if want[pi] == "" {
				continue
			}
			if want[pi] != rootVal || pct(t, 20, f.name+"-restated") {
				f.put(&c.Pkgs[pi].Cfg, want[pi])
			}
		}
	}

	// ---- data
	verd := func() []FileVerdict { return c.verdicts() }
	// schema that validation will use for the file, nil when nothing is validated
	schemaOf := func(pi int, file int) *Schema {
		for _, r := range refs[pi] {
			if r.file != file {
				continue
			}
			for _, m := range c.mocks() {
				if m.Pkg == c.Pkgs[r.pi].Name && m.Iface == c.Pkgs[r.pi].Ifaces[r.ii].Name && m.Entry == r.ei {
					for _, fv := range verd() {
						if fv.File == m.File {
							return fv.Schema
						}
					}
				}
			}
		}
		return nil
	}
	var allSchemas []*Schema
	for pi := range c.Pkgs {
		seen := map[int]bool{}
		for _, r := range refs[pi] {
			if !seen[r.file] {
				seen[r.file] = true
				if s := schemaOf(pi, r.file); s != nil {
					allSchemas = append(allSchemas, s)
				}
			}
		}
	}
	safeAtRoot := func(k string, v Val) bool {
		if ex, ok := get(c.Root.Data, k); ok {
			return vh.JSON(ex) == vh.JSON(v)
		}
		for _, s := range allSchemas {
			if len(validate(s, liftMap([]KV{{k, v}}, "root"), "")) > len(validate(s, nil, "")) {
				return false
			}
			if s.Builtin != "" && s.prop(k) == nil {
				return false
			}
		}
		return true
	}

	for pi := range c.Pkgs {
		p := &c.Pkgs[pi]
		lbl := fmt.Sprintf("d%d.", pi)
		s0 := schemaOf(pi, refs[pi][0].file)
		var listed []mockRef
		for _, r := range refs[pi] {
			if p.Ifaces[r.ii].Listed {
				listed = append(listed, r)
			}
		}
		lower := func(label string) *Settings {
			r := rapid.SampledFrom(listed).Draw(t, label+"mock")
			if r.ei >= 0 && pct(t, 40, label+"iface-not-entry") {
				return &p.Ifaces[r.ii].Cfg
			}
			return b.slot(r)
		}
		if s0 == nil {
			// nothing will be validated (or the schema is missing): arbitrary data
			n := rapid.IntRange(0, 3).Draw(t, lbl+"nfree")
			for i := 0; i < n; i++ {
				pe := rapid.SampledFrom(propPool).Draw(t, lbl+"freeprop")
				v := genOfType(t, rapid.SampledFrom([]string{"string", "boolean", "integer", "float", "array", "object"}).Draw(t, lbl+"freetype"), nil, lbl+"free")
				switch weighted(t, lbl+"freelevel", 30, 35, 35) {
				case 0:
					if _, ok := get(c.Root.Data, pe.name); !ok && safeAtRoot(pe.name, v) {
						c.Root.Data = set(c.Root.Data, pe.name, v)
					} else {
						p.Cfg.Data = set(p.Cfg.Data, pe.name, v)
					}
				case 1:
					p.Cfg.Data = set(p.Cfg.Data, pe.name, v)
				default:
					sl := lower(lbl + "free")
					sl.Data = set(sl.Data, pe.name, v)
				}
			}
			continue
		}

		// a valid assignment for the schema of the package's first file, spread over the levels
		base := genValidMap(t, s0, lbl+"base")
		for _, kv := range base {
			req := s0.isRequired(kv.K)
			w := []int{30, 40, 30}
			if req {
				w[2] = 0
			}
			pr := s0.prop(kv.K)
			switch weighted(t, lbl+"level", w...) {
			case 0:
				if safeAtRoot(kv.K, kv.V) {
					c.Root.Data = set(c.Root.Data, kv.K, kv.V)
				} else {
					p.Cfg.Data = set(p.Cfg.Data, kv.K, kv.V)
				}
			case 1:
				p.Cfg.Data = set(p.Cfg.Data, kv.K, kv.V)
				// nested object split over two levels: optional nested keys go further down
				if pr != nil && pr.Sub != nil && kv.V.T == "o" && len(listed) > 0 && pct(t, 40, lbl+"nested-split") {
					for _, sp := range pr.Sub.Props {
						if !pr.Sub.isRequired(sp.Name) {
							sl := lower(lbl + "nsplit")
							cur, _ := get(sl.Data, kv.K)
							if cur.T != "o" {
								cur = Val{T: "o"}
							}
							cur.O = set(cur.O, sp.Name, genValid(t, pr.Sub, sp, lbl+"nsplitv"))
							sl.Data = set(sl.Data, kv.K, cur)
						}
					}
				}
			default:
				if len(listed) == 0 {
					p.Cfg.Data = set(p.Cfg.Data, kv.K, kv.V)
					break
				}
				for _, r := range listed {
					if pct(t, 65, lbl+"carry") && pr != nil {
						sl := b.slot(r)
						if r.ei >= 0 && pct(t, 40, lbl+"carry-at-iface") {
							sl = &p.Ifaces[r.ii].Cfg
						}
						sl.Data = set(sl.Data, kv.K, genValid(t, s0, *pr, lbl+"carryv"))
					}
				}
			}
		}
		// override of an upper-level key further down by another valid value
		if len(listed) > 0 && len(s0.Props) > 0 && pct(t, 35, lbl+"override") {
			pr := rapid.SampledFrom(s0.Props).Draw(t, lbl+"ovprop")
			sl := lower(lbl + "ov")
			sl.Data = set(sl.Data, pr.Name, genValid(t, s0, pr, lbl+"ovv"))
		}
		// an explicitly empty map somewhere
		if pct(t, 8, lbl+"emptymap") {
			if len(p.Cfg.Data) == 0 {
				p.Cfg.EmptyMap = true
			} else if len(listed) > 0 {
				if sl := lower(lbl + "em"); len(sl.Data) == 0 {
					sl.EmptyMap = true
				}
			}
		}

		// ---- mutations: break exactly one rule (sometimes two, sometimes none)
		nm := weighted(t, lbl+"nmut", 38, 52, 10)
		for k := 0; k < nm; k++ {
			ml := fmt.Sprintf("%sm%d.", lbl, k)
			// where
			var target *Settings
			level := weighted(t, ml+"level", 15, 25, 60)
			switch {
			case level == 0:
				target = &c.Root
			case level == 1 || len(listed) == 0:
				target = &p.Cfg
			default:
				target = lower(ml)
			}
			kind := weighted(t, ml+"kind", 22, 30, 23, 25)
			switch kind {
			case 0: // missing required
				if len(s0.Required) == 0 {
					kind = 1
					break
				}
				rk := rapid.SampledFrom(s0.Required).Draw(t, ml+"reqkey")
				rv, ok := get(p.Cfg.Data, rk)
				if !ok {
					rv, ok = get(c.Root.Data, rk)
				}
				if !ok {
					if pr := s0.prop(rk); pr != nil {
						rv = genValid(t, s0, *pr, ml+"rv")
					} else {
						rv = Val{T: "s", S: "x"}
					}
				}
				c.Root.Data = del(c.Root.Data, rk)
				p.Cfg.Data = del(p.Cfg.Data, rk)
				if len(listed) > 0 && pct(t, 55, ml+"only-file-level") {
					// every mock still gets the key: only the file-level data lacks it
					for _, r := range listed {
						sl := b.slot(r)
						sl.Data = set(sl.Data, rk, rv)
					}
				}
				continue
			}
			if kind == 2 { // extra key
				name := rapid.SampledFrom([]string{"extra", "unknown-key", "zz"}).Draw(t, ml+"extraname")
				target.Data = set(target.Data, name, genOfType(t, rapid.SampledFrom(scalarKinds).Draw(t, ml+"extratype"), nil, ml+"extra"))
				continue
			}
			if kind == 3 { // inside a nested object
				var nested []Prop
				for _, pr := range s0.Props {
					if pr.Type == "object" && pr.Sub != nil {
						nested = append(nested, pr)
					}
				}
				if len(nested) == 0 {
					kind = 1
				} else {
					pr := rapid.SampledFrom(nested).Draw(t, ml+"nprop")
					obj := Val{T: "o", O: genValidMap(t, pr.Sub, ml+"nbase")}
					sp := rapid.SampledFrom(pr.Sub.Props).Draw(t, ml+"nsub")
					switch weighted(t, ml+"nkind", 50, 25, 25) {
					case 0:
						obj.O = set(obj.O, sp.Name, genWrong(t, sp.Type, ml+"nwrong"))
					case 1:
						obj.O = set(obj.O, "extra", Val{T: "i", I: 1})
					default:
						if len(pr.Sub.Required) > 0 {
							obj.O = del(obj.O, pr.Sub.Required[0])
						} else {
							obj.O = set(obj.O, sp.Name, genWrong(t, sp.Type, ml+"nwrong2"))
						}
					}
					target.Data = set(target.Data, pr.Name, obj)
					continue
				}
			}
			if kind == 1 { // wrong type
				if len(s0.Props) == 0 {
					target.Data = set(target.Data, "extra", Val{T: "i", I: 1})
					continue
				}
				pr := rapid.SampledFrom(s0.Props).Draw(t, ml+"wprop")
				target.Data = set(target.Data, pr.Name, genWrong(t, pr.Type, ml+"wrong"))
			}
		}
	}

	prune(keepFlags, &c)

	// locations over HTTP instead of file:// (not with {{.ConfigDir}}, which is a file-system notion)
	if pct(t, 12, "http") {
		ok := true
		for _, m := range c.mocks() {
			if strings.Contains(m.SchemaExpr, "ConfigDir") {
				ok = false
			}
		}
		c.HTTP = ok
	}

	// ---- files that exist before the run
	if pct(t, 40, "sentinels") {
		for _, fv := range c.verdicts() {
			if pct(t, 60, "sentinel") {
				c.Sentinels = append(c.Sentinels, fv.File)
			}
		}
	}
	return c
}

// prune applies one "keep" decision to every element of the finished case (package, interface,
// configs entry, every setting and every template-data key at every level, schema files). About
// 95% are kept; the point is shrinking: rapid minimises each decision to "drop" independently of
// the draws that built the case, so a failing case loses everything that is not needed to fail.
func prune(flags []bool, c *Case) {
	next := 0
	keep := func(string) bool {
		if next >= len(flags) {
			return true
		}
		next++
		return flags[next-1]
	}
	var pruneData func(kvs []KV, label string) []KV
	pruneData = func(kvs []KV, label string) []KV {
		var out []KV
		for _, kv := range kvs {
			if !keep(label + "key") {
				continue
			}
			if kv.V.T == "o" {
				kv.V.O = pruneData(kv.V.O, label+"nested-")
			}
			out = append(out, kv)
		}
		return out
	}
	pruneSettings := func(s *Settings, label string, filenameToo bool) {
		if s.Template != "" && !keep(label+"template") {
			s.Template = ""
		}
		if s.Schema != "" && !keep(label+"schema") {
			s.Schema = ""
		}
		if s.Require != "" && !keep(label+"require") {
			s.Require = ""
		}
		if filenameToo && s.Filename != "" && !keep(label+"filename") {
			s.Filename = ""
		}
		if s.EmptyMap && !keep(label+"emptymap") {
			s.EmptyMap = false
		}
		s.Data = pruneData(s.Data, label)
	}
	pruneSettings(&c.Root, "root-", false)
	var pkgs []Pkg
	for pi, p := range c.Pkgs {
		if !keep("pkg") && (len(pkgs) > 0 || pi < len(c.Pkgs)-1) {
			continue
		}
		pruneSettings(&p.Cfg, "pkg-", true)
		var ifs []Iface
		for ii, it := range p.Ifaces {
			if !keep("iface") && (len(ifs) > 0 || ii < len(p.Ifaces)-1) {
				continue
			}
			if it.Listed {
				pruneSettings(&it.Cfg, "iface-", true)
				var es []Settings
				for _, e := range it.Entries {
					if !keep("entry") {
						continue
					}
					pruneSettings(&e, "entry-", true)
					es = append(es, e)
				}
				it.Entries = es
			}
			ifs = append(ifs, it)
		}
		p.Ifaces = ifs
		pkgs = append(pkgs, p)
	}
	c.Pkgs = pkgs
	var sfs []SchemaFile
	for _, sf := range c.SchemaFiles {
		if keep("schemafile") {
			sfs = append(sfs, sf)
		}
	}
	c.SchemaFiles = sfs
	// probe templates: exactly the referenced ones (a missing template is another property's fault class)
	used := map[string]bool{}
	for _, m := range c.mocks() {
		if isCustom(m.Template) {
			used[relPath(m.Template)] = true
		}
	}
	c.Tmpls = nil
	for _, f := range probeFiles {
		if used[f] {
			c.Tmpls = append(c.Tmpls, f)
		}
	}
}
