package c12

// Reference model for C12: the case data structures, the rendering of a case into a scratch
// module (.mockery.yml, templates, schema files, Go sources), the resolution of configuration
// levels (first level that sets it; template-data merged key by key, most specific wins), the
// resolution of the schema location, and an own validator for the JSON-schema subset that is
// generated. Nothing in this file calls gojsonschema or the mockery config package.

import (
	"encoding/json"
	"fmt"
	"path"
	"sort"
	"strings"
)

// ---- values -----------------------------------------------------------------------------------

// Val is one template-data value. T: "s" string, "b" boolean, "i" integer, "f" non-integral
// number (decimal literal kept as text), "a" array, "o" object, "z" null.
type Val struct {
	T string `json:"t"`
	S string `json:"s,omitempty"`
	B bool   `json:"b,omitempty"`
	I int    `json:"i,omitempty"`
	F string `json:"f,omitempty"`
	A []Val  `json:"a,omitempty"`
	O []KV   `json:"o,omitempty"`
}

type KV struct {
	K string `json:"k"`
	V Val    `json:"v"`
}

// flow renders v as JSON, which is also YAML flow syntax; every string is double-quoted so that
// YAML never re-types it ("true", "12", "null" stay strings).
func (v Val) flow() string {
	switch v.T {
	case "s":
		b, _ := json.Marshal(v.S)
		return string(b)
	case "b":
		if v.B {
			return "true"
		}
		return "false"
	case "i":
		return fmt.Sprint(v.I)
	case "f":
		return v.F
	case "a":
		parts := make([]string, len(v.A))
		for i, e := range v.A {
			parts[i] = e.flow()
		}
		return "[" + strings.Join(parts, ", ") + "]"
	case "o":
		return flowMap(v.O)
	case "z":
		return "null"
	}
	panic("bad Val.T " + v.T)
}

func flowMap(kvs []KV) string {
	parts := make([]string, len(kvs))
	for i, kv := range kvs {
		k, _ := json.Marshal(kv.K)
		parts[i] = string(k) + ": " + kv.V.flow()
	}
	return "{" + strings.Join(parts, ", ") + "}"
}

func get(kvs []KV, k string) (Val, bool) {
	for _, kv := range kvs {
		if kv.K == k {
			return kv.V, true
		}
	}
	return Val{}, false
}

func set(kvs []KV, k string, v Val) []KV {
	for i := range kvs {
		if kvs[i].K == k {
			kvs[i].V = v
			return kvs
		}
	}
	return append(kvs, KV{k, v})
}

func del(kvs []KV, k string) []KV {
	var out []KV
	for _, kv := range kvs {
		if kv.K != k {
			out = append(out, kv)
		}
	}
	return out
}

// ---- schemas ----------------------------------------------------------------------------------

type Prop struct {
	Name string  `json:"name"`
	Type string  `json:"type"` // string boolean integer number array object
	Sub  *Schema `json:"sub,omitempty"`
}

// Schema is the generated subset: an object schema with typed properties, required keys and
// additionalProperties false/absent; object-typed properties may carry one nested level.
type Schema struct {
	Props    []Prop   `json:"props"`
	Required []string `json:"required,omitempty"`
	Closed   bool     `json:"closed,omitempty"` // additionalProperties: false
	Draft07  bool     `json:"draft07,omitempty"`
	Builtin  string   `json:"builtin,omitempty"` // "testify"/"matryer": the documented built-in schema (never written to disk)
}

func (s *Schema) prop(name string) *Prop {
	for i := range s.Props {
		if s.Props[i].Name == name {
			return &s.Props[i]
		}
	}
	return nil
}

func (s *Schema) isRequired(name string) bool {
	for _, r := range s.Required {
		if r == name {
			return true
		}
	}
	return false
}

func (s *Schema) jsonObj(top bool) map[string]any {
	o := map[string]any{"type": "object"}
	if top && s.Draft07 {
		o["$schema"] = "http://json-schema.org/draft-07/schema#"
	}
	props := map[string]any{}
	for _, p := range s.Props {
		if p.Type == "object" && p.Sub != nil {
			props[p.Name] = p.Sub.jsonObj(false)
		} else {
			props[p.Name] = map[string]any{"type": p.Type}
		}
	}
	o["properties"] = props
	if len(s.Required) > 0 {
		o["required"] = s.Required
	}
	if s.Closed {
		o["additionalProperties"] = false
	}
	return o
}

func (s *Schema) JSON() string {
	b, _ := json.MarshalIndent(s.jsonObj(true), "", "  ")
	return string(b) + "\n"
}

// The built-in schemas as documented in docs/template/testify.md and docs/template/matryer.md
// ("template-data" tables): no other key is accepted, nothing is required.
func builtinSchema(name string) *Schema {
	s := &Schema{Closed: true, Builtin: name}
	s.Props = []Prop{{Name: "boilerplate-file", Type: "string"}, {Name: "mock-build-tags", Type: "string"}}
	switch name {
	case "testify":
		s.Props = append(s.Props, Prop{Name: "unroll-variadic", Type: "boolean"})
	case "matryer":
		s.Props = append(s.Props, Prop{Name: "skip-ensure", Type: "boolean"}, Prop{Name: "stub-impl", Type: "boolean"}, Prop{Name: "with-resets", Type: "boolean"})
	}
	return s
}

// ---- own validator ----------------------------------------------------------------------------

// Issue is one rule broken by a data map. Level is the configuration level the offending value
// was written at ("root","pkg","iface","entry"), or "" for a missing key.
type Issue struct {
	Kind  string // missing-required | wrong-type | extra-key
	Path  string
	Level string
}

func typeOK(typ string, v Val) bool {
	switch typ {
	case "string":
		return v.T == "s"
	case "boolean":
		return v.T == "b"
	case "integer":
		return v.T == "i"
	case "number":
		return v.T == "i" || v.T == "f"
	case "array":
		return v.T == "a"
	case "object":
		return v.T == "o"
	}
	return false
}

// EV is an effective (merged) value with the level it came from; for merged objects the
// children carry their own levels.
type EV struct {
	V     Val
	Level string
	Kids  []EKV // only when V.T == "o"
}
type EKV struct {
	K string
	E EV
}

func lift(v Val, level string) EV {
	e := EV{V: v, Level: level}
	if v.T == "o" {
		for _, kv := range v.O {
			e.Kids = append(e.Kids, EKV{kv.K, lift(kv.V, level)})
		}
	}
	return e
}

func eget(kvs []EKV, k string) (int, bool) {
	for i := range kvs {
		if kvs[i].K == k {
			return i, true
		}
	}
	return -1, false
}

// mergeInto merges the less specific map src into dest: a key already present in dest wins;
// when both sides hold objects they are merged key by key in the same way.
func mergeInto(dest []EKV, src []EKV) []EKV {
	for _, s := range src {
		if i, ok := eget(dest, s.K); ok {
			if dest[i].E.V.T == "o" && s.E.V.T == "o" {
				dest[i].E.Kids = mergeInto(dest[i].E.Kids, s.E.Kids)
			}
			continue
		}
		dest = append(dest, EKV{s.K, copyEV(s.E)})
	}
	return dest
}

func copyEV(e EV) EV {
	c := EV{V: e.V, Level: e.Level}
	for _, k := range e.Kids {
		c.Kids = append(c.Kids, EKV{k.K, copyEV(k.E)})
	}
	return c
}

func liftMap(kvs []KV, level string) []EKV {
	var out []EKV
	for _, kv := range kvs {
		out = append(out, EKV{kv.K, lift(kv.V, level)})
	}
	return out
}

// effective merges levels given from most specific to least specific.
func effective(levels ...[]EKV) []EKV {
	var out []EKV
	for _, l := range levels {
		out = mergeInto(out, l)
	}
	return out
}

func validate(s *Schema, data []EKV, prefix string) []Issue {
	var out []Issue
	for _, r := range s.Required {
		if _, ok := eget(data, r); !ok {
			out = append(out, Issue{"missing-required", prefix + r, ""})
		}
	}
	for _, kv := range data {
		p := s.prop(kv.K)
		if p == nil {
			if s.Closed {
				out = append(out, Issue{"extra-key", prefix + kv.K, kv.E.Level})
			}
			continue
		}
		if !typeOK(p.Type, kv.E.V) {
			out = append(out, Issue{"wrong-type", prefix + kv.K, kv.E.Level})
			continue
		}
		if p.Type == "object" && p.Sub != nil {
			out = append(out, validate(p.Sub, kv.E.Kids, prefix+kv.K+".")...)
		}
	}
	return out
}

func showData(data []EKV) string {
	parts := make([]string, len(data))
	for i, kv := range data {
		if kv.E.V.T == "o" {
			parts[i] = fmt.Sprintf("%s@%s:%s", kv.K, kv.E.Level, showData(kv.E.Kids))
		} else {
			parts[i] = fmt.Sprintf("%s@%s=%s", kv.K, kv.E.Level, kv.E.V.flow())
		}
	}
	return "{" + strings.Join(parts, ", ") + "}"
}

// ---- the case ---------------------------------------------------------------------------------

// Settings is what one configuration level writes. Empty string = not written at this level.
// "$ROOT" in Template/Schema stands for the absolute path of the scratch module.
type Settings struct {
	Template string `json:"template,omitempty"`
	Schema   string `json:"template_schema,omitempty"`
	Require  string `json:"require,omitempty"` // "", "true", "false"
	Filename string `json:"filename,omitempty"`
	Data     []KV   `json:"data,omitempty"`
	EmptyMap bool   `json:"empty_map,omitempty"` // write "template-data: {}" although Data is empty
}

func (s Settings) isZero() bool {
	return s.Template == "" && s.Schema == "" && s.Require == "" && s.Filename == "" && len(s.Data) == 0 && !s.EmptyMap
}

type Iface struct {
	Name    string     `json:"name"`
	Listed  bool       `json:"listed"` // appears under interfaces: (always true unless the package has all: true)
	Cfg     Settings   `json:"cfg"`    // interface "config:"
	Entries []Settings `json:"entries,omitempty"`
}

type Pkg struct {
	Name   string   `json:"name"`
	All    bool     `json:"all,omitempty"`
	Cfg    Settings `json:"cfg"`
	Ifaces []Iface  `json:"ifaces"`
}

type SchemaFile struct {
	Path   string `json:"path"` // relative to the module root
	Schema Schema `json:"schema"`
}

type Case struct {
	Tmpls       []string     `json:"tmpls"` // probe template files present (relative paths)
	SchemaFiles []SchemaFile `json:"schema_files"`
	Root        Settings     `json:"root"`
	Pkgs        []Pkg        `json:"pkgs"`
	Sentinels   []string     `json:"sentinels,omitempty"` // output paths that exist before the run (root sets force-file-write: true)
	// HTTP: the module root is served by a local HTTP server and every file:// location in the
	// configuration is written as http://127.0.0.1:<port>/<path> instead (same files, same rules)
	HTTP bool `json:"http,omitempty"`
}

const modPath = "example.com/m"

func sentinelText(rel string) string { return "SENTINEL " + rel + " (must survive a rejected run)\n" }

func probeText(rel string) string {
	return "probe " + rel + " pkg={{.PkgName}}\nfile-data: {{ .TemplateData }}\n{{- range .Interfaces }}\nmock {{ .Name }} as {{ .StructName }}: {{ .TemplateData }}\n{{- end }}\n"
}

// ---- rendering --------------------------------------------------------------------------------

func yq(s string) string { b, _ := json.Marshal(s); return string(b) }

// loc renders a location as it is written into the config: $ROOT is the scratch module; with a
// non-empty base URL the file:// forms become URLs below base.
func loc(s, root, base string) string {
	if base != "" {
		for _, pre := range []string{"file://$ROOT/", "file://./", "file://"} {
			if strings.HasPrefix(s, pre) {
				return base + "/" + strings.TrimPrefix(s, pre)
			}
		}
	}
	return strings.ReplaceAll(s, "$ROOT", root)
}

func (s Settings) yaml(ind string, root, base string) string {
	var b strings.Builder
	if s.Filename != "" {
		fmt.Fprintf(&b, "%sfilename: %s\n", ind, yq(s.Filename))
	}
	if s.Template != "" {
		fmt.Fprintf(&b, "%stemplate: %s\n", ind, yq(loc(s.Template, root, base)))
	}
	if s.Schema != "" {
		fmt.Fprintf(&b, "%stemplate-schema: %s\n", ind, yq(loc(s.Schema, root, base)))
	}
	if s.Require != "" {
		fmt.Fprintf(&b, "%srequire-template-schema-exists: %s\n", ind, s.Require)
	}
	if len(s.Data) > 0 || s.EmptyMap {
		fmt.Fprintf(&b, "%stemplate-data: %s\n", ind, flowMap(s.Data))
	}
	return b.String()
}

func (c Case) configYAML(root, base string) string {
	var b strings.Builder
	b.WriteString("formatter: noop\n")
	if len(c.Sentinels) > 0 {
		b.WriteString("force-file-write: true\n")
	}
	b.WriteString(c.Root.yaml("", root, base))
	b.WriteString("packages:\n")
	for _, p := range c.Pkgs {
		fmt.Fprintf(&b, "  %s/%s:\n", modPath, p.Name)
		pc := p.Cfg.yaml("      ", root, base)
		if p.All {
			pc = "      all: true\n" + pc
		}
		if pc != "" {
			b.WriteString("    config:\n" + pc)
		}
		listed := 0
		for _, i := range p.Ifaces {
			if i.Listed {
				listed++
			}
		}
		if listed == 0 {
			continue
		}
		b.WriteString("    interfaces:\n")
		for _, i := range p.Ifaces {
			if !i.Listed {
				continue
			}
			fmt.Fprintf(&b, "      %s:\n", i.Name)
			if ic := i.Cfg.yaml("          ", root, base); ic != "" {
				b.WriteString("        config:\n" + ic)
			}
			if len(i.Entries) > 0 {
				b.WriteString("        configs:\n")
				for _, e := range i.Entries {
					ey := e.yaml("            ", root, base)
					if ey == "" {
						ey = "            template-data: {}\n"
					}
					// first line of the entry carries the list dash
					b.WriteString("          - " + strings.TrimPrefix(ey, "            "))
				}
			}
		}
	}
	return b.String()
}

// files renders the whole scratch module (without go.mod/go.sum).
func (c Case) files(root, base string) map[string]string {
	f := map[string]string{".mockery.yml": c.configYAML(root, base), "boilerplate.txt": "// boilerplate header\n"}
	for _, t := range c.Tmpls {
		f[t] = probeText(t)
	}
	for _, s := range c.SchemaFiles {
		sc := s.Schema
		f[s.Path] = sc.JSON()
	}
	for _, p := range c.Pkgs {
		var b strings.Builder
		fmt.Fprintf(&b, "package %s\n\n", p.Name)
		for n, i := range p.Ifaces {
			fmt.Fprintf(&b, "type %s interface {\n\tDo%d(x int, s string) (string, error)\n}\n\n", i.Name, n)
		}
		f[p.Name+"/"+p.Name+".go"] = b.String()
	}
	for _, s := range c.Sentinels {
		f[s] = sentinelText(s)
	}
	return f
}

// ---- resolution -------------------------------------------------------------------------------

// Mock is one (interface, config entry) pair with its resolved settings.
type Mock struct {
	Pkg, Iface string
	Entry      int // -1 = the interface's config itself
	File       string
	Template   string // as written (with $ROOT)
	TmplLevel  string
	SchemaExpr string // "" = default location
	SchemaLvl  string
	Require    string // "", "true", "false"
	ReqLevel   string
	Data       []EKV
}

func first(levels []string, vals ...string) (string, string) {
	for i, v := range vals {
		if v != "" {
			return v, levels[i]
		}
	}
	return "", ""
}

var lvlNames = []string{"entry", "iface", "pkg", "root"}

func (c Case) mocks() []Mock {
	var out []Mock
	for _, p := range c.Pkgs {
		for _, i := range p.Ifaces {
			n := len(i.Entries)
			for e := -1; e < n; e++ {
				if (e == -1) != (n == 0) {
					continue
				}
				var es Settings
				if e >= 0 {
					es = i.Entries[e]
				}
				m := Mock{Pkg: p.Name, Iface: i.Name, Entry: e}
				fn, _ := first(lvlNames, es.Filename, i.Cfg.Filename, p.Cfg.Filename, c.Root.Filename)
				if fn == "" {
					fn = "mocks_test.go"
				}
				m.File = p.Name + "/" + fn
				m.Template, m.TmplLevel = first(lvlNames, es.Template, i.Cfg.Template, p.Cfg.Template, c.Root.Template)
				if m.Template == "" {
					m.Template, m.TmplLevel = "testify", "default"
				}
				m.SchemaExpr, m.SchemaLvl = first(lvlNames, es.Schema, i.Cfg.Schema, p.Cfg.Schema, c.Root.Schema)
				m.Require, m.ReqLevel = first(lvlNames, es.Require, i.Cfg.Require, p.Cfg.Require, c.Root.Require)
				m.Data = effective(liftMap(es.Data, "entry"), liftMap(i.Cfg.Data, "iface"), liftMap(p.Cfg.Data, "pkg"), liftMap(c.Root.Data, "root"))
				out = append(out, m)
			}
		}
	}
	return out
}

func (c Case) pkgData(name string) []EKV {
	for _, p := range c.Pkgs {
		if p.Name == name {
			return effective(liftMap(p.Cfg.Data, "pkg"), liftMap(c.Root.Data, "root"))
		}
	}
	return nil
}

func isCustom(tmpl string) bool { return strings.HasPrefix(tmpl, "file://") }

// relPath turns the part after file:// into a path relative to the module root (mockery runs
// with the module root as working directory and the config file lives there).
func relPath(u string) string {
	p := strings.TrimPrefix(u, "file://")
	p = strings.TrimPrefix(p, "$ROOT/")
	return path.Clean(p)
}

// schemaURL is the schema location of a mock's file: the effective template-schema with the
// documented variables bound, by default the template location plus ".schema.json".
func schemaURL(m Mock) string {
	e := m.SchemaExpr
	if e == "" {
		e = "{{.Template}}.schema.json"
	}
	e = strings.ReplaceAll(e, "{{.Template}}", m.Template)
	e = strings.ReplaceAll(e, "{{.SrcPackageName}}", m.Pkg)
	e = strings.ReplaceAll(e, "{{.SrcPackagePath}}", modPath+"/"+m.Pkg)
	e = strings.ReplaceAll(e, "{{.ConfigDir}}", ".")
	return e
}

func (c Case) schemaAt(rel string) *Schema {
	for i := range c.SchemaFiles {
		if path.Clean(c.SchemaFiles[i].Path) == rel {
			return &c.SchemaFiles[i].Schema
		}
	}
	return nil
}

// FileVerdict is the model's judgement of one output file.
type FileVerdict struct {
	File       string
	Pkg        string
	Mocks      []Mock
	Template   string
	TmplKey    string // the template location as mockery sees it (over HTTP all file:// spellings coincide)
	SchemaRel  string // "" for built-ins
	Schema     *Schema
	Require    string
	Uniform    bool // the per-file settings agree for all mocks in the file
	Acceptable bool
	DontCare   string  // non-empty: the property does not fix the answer
	Issues     []Issue // why not acceptable (Kind "no-schema" when the schema is not retrievable)
	Validated  bool    // a schema applies and validation is required
}

func (c Case) verdicts() []FileVerdict {
	byFile := map[string]*FileVerdict{}
	var order []string
	for _, m := range c.mocks() {
		fv, ok := byFile[m.File]
		if !ok {
			fv = &FileVerdict{File: m.File, Pkg: m.Pkg, Template: m.Template, Require: m.Require, Uniform: true}
			byFile[m.File] = fv
			order = append(order, m.File)
		}
		if len(fv.Mocks) > 0 {
			f0 := fv.Mocks[0]
			if f0.Template != m.Template || schemaURL(f0) != schemaURL(m) || f0.Require != m.Require || f0.Pkg != m.Pkg {
				fv.Uniform = false
			}
		}
		fv.Mocks = append(fv.Mocks, m)
	}
	sort.Strings(order)
	var out []FileVerdict
	for _, f := range order {
		fv := byFile[f]
		m0 := fv.Mocks[0]
		switch {
		case isCustom(m0.Template):
			fv.SchemaRel = relPath(schemaURL(m0))
			fv.Schema = c.schemaAt(fv.SchemaRel)
		default:
			fv.Schema = builtinSchema(m0.Template)
		}
		fv.TmplKey = m0.Template
		if c.HTTP && isCustom(m0.Template) {
			fv.TmplKey = "http:" + relPath(m0.Template)
		}
		fv.Acceptable = true
		if isCustom(m0.Template) && fv.Require == "false" {
			// "in which case no validation is performed"
			out = append(out, *fv)
			continue
		}
		if fv.Schema == nil {
			fv.Acceptable = false
			fv.Issues = []Issue{{Kind: "no-schema", Path: fv.SchemaRel, Level: m0.SchemaLvl}}
			out = append(out, *fv)
			continue
		}
		fv.Validated = true
		for _, is := range validate(fv.Schema, c.pkgData(fv.Pkg), "") {
			is.Path = "file:" + is.Path
			fv.Issues = append(fv.Issues, is)
		}
		for _, m := range fv.Mocks {
			for _, is := range validate(fv.Schema, m.Data, "") {
				is.Path = m.Iface + ":" + is.Path
				fv.Issues = append(fv.Issues, is)
			}
		}
		if len(fv.Issues) > 0 {
			fv.Acceptable = false
			if !isCustom(m0.Template) && fv.Require == "false" {
				// built-in template, switch off, data invalid: the documentation of the switch
				// ("will not ... do any schema validation") and the property's first sentence
				// pull in different directions
				fv.DontCare = "builtin+require=false+invalid-data"
			}
		}
		out = append(out, *fv)
	}
	return out
}
