// C13 — replace-type substitutes exactly the configured types.
//
// Differential + model: the same module is rendered through a dump probe without any
// replace-type rule (run A) and with the drawn rules written at drawn configuration levels
// (run B). Every parameter/result whose type is exactly a mapped named type, for a mock for
// which the rule is effective, must show the replacement type under the replacement
// package's qualifier; every other string must be unchanged modulo qualifier renaming; the
// import list must be exactly the set of referenced packages. A third run renders B through
// a built-in template under gofmt (no import repair) and the toolchain must accept it.
//
// Two case shapes: a single package with the levels root / package / interface config /
// configs entry (this file), and a package tree with a recursive listed package, listed and
// unlisted sub-packages and an unrelated package (tree_test.go).
package c13

import (
	_ "embed"
	"fmt"
	"os"
	"path/filepath"
	"regexp"
	"sort"
	"strings"
	"testing"

	"gopkg.in/yaml.v3"
	"pgregory.net/rapid"
	"verif/harness/progen"
	"verif/harness/vh"
)

//go:embed probe.templ
var probe string

type Rule struct {
	FromPkg  string `json:"from_pkg"` // package key ("" = the source package)
	FromName string `json:"from_name"`
	ToPkg    string `json:"to_pkg"`
	ToName   string `json:"to_name"`
}

type Case struct {
	Svc       []progen.Meth `json:"svc"`   // methods of interface Svc
	Other     []progen.Meth `json:"other"` // methods of the sibling interface Other
	Root      []Rule        `json:"root,omitempty"`
	Package   []Rule        `json:"package,omitempty"`
	Iface     []Rule        `json:"iface,omitempty"`   // Svc's `config`
	Entry     []Rule        `json:"entry,omitempty"`   // Svc's configs[0]
	Listed    bool          `json:"listed"`            // Svc (and Other) listed explicitly vs all: true
	Entries   int           `json:"entries"`           // number of configs entries of Svc (0 = none)
	InPackage bool          `json:"in_package"`        // mocks rendered into the source package
	Template  string        `json:"template"`          // built-in template of the compile run
	// Tree, when set, replaces the single package by a package tree (see TPkg); Svc, Other,
	// Package, Iface, Entry, Listed and Entries are unused then and the mocks are in-package.
	Tree *Tree `json:"tree,omitempty"`
}

// TPkg is one source package of a tree case. Every package declares the interfaces Svc and
// Other; the root config selects both by include-interface-regex, so that packages which are
// only reached through a recursive ancestor are mocked too.
type TPkg struct {
	Dir       string        `json:"dir"`                     // par, par/sa, par/sb (sub-packages of par), oth
	Listed    bool          `json:"listed"`                  // has its own entry under packages:
	Recursive bool          `json:"recursive,omitempty"`     // recursive: true in its config (par only)
	Rules     []Rule        `json:"rules,omitempty"`         // replace-type of the package config (listed only)
	// SvcMode / OtherMode (listed packages only): how the interface is selected. "" = by the
	// root's include-interface-regex only; "null" = named under interfaces: with an empty
	// entry; "config" = named with a config: that has no replace-type; "rules" = named with
	// a config: holding SvcRules / OtherRules.
	SvcMode    string `json:"svc_mode,omitempty"`
	OtherMode  string `json:"other_mode,omitempty"`
	SvcRules   []Rule `json:"svc_rules,omitempty"`
	OtherRules []Rule `json:"other_rules,omitempty"`
	Svc       []progen.Meth `json:"svc"`
	Other     []progen.Meth `json:"other"`
}

type Tree struct {
	Pkgs []TPkg `json:"pkgs"`
	// Compile: also render through the built-in template and type-check (the import
	// bookkeeping per file is the single-package shape's subject; a third of the tree cases
	// repeat it over several packages).
	Compile bool `json:"compile,omitempty"`
}

const modPath = "example.com/m"
const srcPath = modPath + "/svc"

type cand struct{ pkg, name string }

var fromCands = []cand{{"alpha", "T"}, {"alpha", "MyInt"}, {"alpha", "Cmp"}, {"alpha", "I"}, {"alphb", "T"}, {"std:time", "Duration"}, {"", "Local"}, {"alpha", "A"}}
var toCands = []cand{{"alphb", "T"}, {"httpx", "T"}, {"httpx", "MyInt"}, {"alphb", "E"}, {"alpha", "Cmp"}, {"alphb", "A"}, {"", "Local"}, {"", "LStr"}, {"std:time", "Duration"}}

func importPath(key string) string {
	if key == "" {
		return srcPath
	}
	m := progen.Module{ModPath: modPath}
	return m.ImportPath(key)
}

func genType(t *rapid.T, pool []cand, label string) progen.Ty {
	base := func() progen.Ty {
		if rapid.IntRange(0, 3).Draw(t, label+"basic") == 0 {
			return progen.B(rapid.SampledFrom([]string{"int", "string", "error", "bool"}).Draw(t, label+"b"))
		}
		c := rapid.SampledFrom(pool).Draw(t, label+"named")
		return progen.N(c.pkg, c.name)
	}
	b := base()
	switch rapid.IntRange(0, 9).Draw(t, label+"wrap") {
	case 0:
		return progen.Ty{K: "ptr", Elem: &b}
	case 1:
		return progen.Ty{K: "slice", Elem: &b}
	case 2:
		k := progen.B("string")
		return progen.Ty{K: "map", Key: &k, Elem: &b}
	case 3:
		if b.K == "named" {
			return progen.Ty{K: "named", Pkg: "alpha", Name: "G", Args: []progen.Ty{b}}
		}
	case 4:
		return progen.Ty{K: "func", Fn: &progen.Sig{Params: []progen.Var{{T: b}}, Results: []progen.Var{{T: b}}}}
	}
	return b
}

var mnames = []string{"Do", "Get", "Put", "Fetch", "Close", "Run"}

func genMethods(t *rapid.T, pool []cand, label string) []progen.Meth {
	n := rapid.IntRange(1, 3).Draw(t, label+"n")
	var out []progen.Meth
	for i := 0; i < n; i++ {
		var s progen.Sig
		np := rapid.IntRange(0, 3).Draw(t, label+"np")
		for j := 0; j < np; j++ {
			name := fmt.Sprintf("p%d", j)
			if rapid.IntRange(0, 3).Draw(t, label+"qualname") == 0 {
				// a parameter named like a package that a replacement may bring in
				name = []string{"alpha", "http", "time", "svc"}[j%4]
			}
			s.Params = append(s.Params, progen.Var{Name: name, T: genType(t, pool, label+"pt")})
		}
		if np > 0 && rapid.IntRange(0, 4).Draw(t, label+"var") == 0 {
			s.Variadic = true
		}
		nr := rapid.IntRange(0, 2).Draw(t, label+"nr")
		for j := 0; j < nr; j++ {
			s.Results = append(s.Results, progen.Var{T: genType(t, pool, label+"rt")})
		}
		out = append(out, progen.Meth{Name: mnames[i] + label, Sig: s})
	}
	return out
}

func gen(t *rapid.T) Case {
	// a small pool of "from" types so that rules and uses meet
	var pool []cand
	usesAlias := rapid.IntRange(0, 4).Draw(t, "usealias") == 0
	for _, c := range fromCands {
		if (c.name == "A") != usesAlias && (c.name == "A" || c.name == "T" && c.pkg == "alpha") {
			continue // never mix alpha.T and its alias alpha.A in one case
		}
		if rapid.IntRange(0, 1).Draw(t, "inpool") == 0 {
			pool = append(pool, c)
		}
	}
	if len(pool) == 0 {
		pool = []cand{{"alpha", "MyInt"}}
	}
	if rapid.IntRange(0, 2).Draw(t, "shape") == 2 {
		return genTree(t, pool)
	}
	c := Case{
		Svc:       genMethods(t, pool, "S"),
		Other:     genMethods(t, pool, "O"),
		Listed:    rapid.Bool().Draw(t, "listed"),
		InPackage: rapid.Bool().Draw(t, "inpkg"),
		Template:  rapid.SampledFrom([]string{"testify", "matryer"}).Draw(t, "template"),
	}
	if c.Listed {
		c.Entries = rapid.IntRange(0, 2).Draw(t, "entries")
	}
	genRules := func(label string, must []Rule) []Rule {
		var rs []Rule
		seen := map[string]bool{}
		add := func(fp, fn string) {
			if seen[fp+"|"+fn] {
				return
			}
			seen[fp+"|"+fn] = true
			for try := 0; try < 4; try++ {
				to := rapid.SampledFrom(toCands).Draw(t, label+"to")
				if to.pkg == fp && to.name == fn {
					continue
				}
				rs = append(rs, Rule{FromPkg: fp, FromName: fn, ToPkg: to.pkg, ToName: to.name})
				return
			}
		}
		// a more specific level re-defines every entry of the less specific ones, so that
		// "most specific level wins" and "merged entry by entry" agree about the outcome
		for _, r := range must {
			add(r.FromPkg, r.FromName)
		}
		n := rapid.IntRange(0, 2).Draw(t, label+"n")
		for i := 0; i < n; i++ {
			f := rapid.SampledFrom(pool).Draw(t, label+"from")
			add(f.pkg, f.name)
		}
		return rs
	}
	// In a third of the cases a more specific level does NOT repeat the entries of the levels
	// above it: a rule keeps its effect at whichever level it is written unless the same
	// (package, type) entry is overridden further down (entry-wise inheritance).
	partial := rapid.IntRange(0, 2).Draw(t, "partial-override") == 0
	cover := func(acc []Rule) []Rule {
		if partial {
			return nil
		}
		return acc
	}
	lv := rapid.SampledFrom([]int{1, 2, 3, 5, 4, 6, 7, 8, 9, 10, 12, 11, 13, 14, 15, 0}).Draw(t, "levels")
	var acc []Rule
	if lv&1 != 0 {
		c.Root = genRules("root", nil)
		acc = append(acc, c.Root...)
	}
	if lv&2 != 0 {
		c.Package = genRules("pkg", cover(acc))
		acc = append(acc, c.Package...)
	}
	if c.Listed && lv&4 != 0 {
		c.Iface = genRules("iface", cover(acc))
		acc = append(acc, c.Iface...)
	}
	if c.Listed && c.Entries > 0 && lv&8 != 0 {
		c.Entry = genRules("entry", cover(acc))
	}
	return c
}

func ruleMap(rs []Rule) map[string]any {
	if len(rs) == 0 {
		return nil
	}
	out := map[string]any{}
	for _, r := range rs {
		fp := importPath(r.FromPkg)
		if out[fp] == nil {
			out[fp] = map[string]any{}
		}
		out[fp].(map[string]any)[r.FromName] = map[string]any{"pkg-path": importPath(r.ToPkg), "type-name": r.ToName}
	}
	return out
}

// config renders .mockery.yml. withRules=false drops every replace-type (run A).
func (c Case) config(template, formatter string, withRules bool, probeOut bool, extraData map[string]any) string {
	root := map[string]any{"template": template, "formatter": formatter}
	if strings.HasPrefix(template, "file://") {
		root["require-template-schema-exists"] = false
	}
	if extraData != nil {
		root["template-data"] = extraData
	}
	pc := map[string]any{}
	if probeOut {
		pc["filename"] = "zz_dump.txt"
	}
	if c.InPackage {
		if !probeOut {
			pc["filename"] = "mocks_test.go"
		}
	} else {
		pc["dir"] = "mocks"
		pc["pkgname"] = "mocks"
		if !probeOut {
			pc["filename"] = "mocks.go"
		}
	}
	rm := func(rs []Rule) map[string]any {
		if !withRules {
			return nil
		}
		return ruleMap(rs)
	}
	if m := rm(c.Root); m != nil {
		root["replace-type"] = m
	}
	if m := rm(c.Package); m != nil {
		pc["replace-type"] = m
	}
	entry := map[string]any{}
	if c.Listed {
		svc := map[string]any{}
		if m := rm(c.Iface); m != nil {
			svc["config"] = map[string]any{"replace-type": m}
		}
		if c.Entries > 0 {
			var es []any
			for i := 0; i < c.Entries; i++ {
				e := map[string]any{"structname": fmt.Sprintf("MockSvc%d", i)}
				if i == 0 {
					if m := rm(c.Entry); m != nil {
						e["replace-type"] = m
					}
				}
				es = append(es, e)
			}
			svc["configs"] = es
		}
		var svcAny any = svc
		if len(svc) == 0 {
			svcAny = nil
		}
		entry["interfaces"] = map[string]any{"Svc": svcAny, "Other": nil}
	} else {
		pc["include-interface-regex"] = "^(Svc|Other)$"
	}
	if len(pc) > 0 {
		entry["config"] = pc
	}
	root["packages"] = map[string]any{srcPath: entry}
	b, err := yaml.Marshal(root)
	if err != nil {
		panic(err)
	}
	return string(b)
}

// effective rules per struct name, most specific level first (entry by entry).
func (c Case) effective() map[string]map[string]Rule {
	merge := func(levels ...[]Rule) map[string]Rule {
		out := map[string]Rule{}
		for _, lv := range levels { // most specific first
			for _, r := range lv {
				k := importPath(r.FromPkg) + "|" + r.FromName
				if _, ok := out[k]; !ok {
					out[k] = r
				}
			}
		}
		return out
	}
	eff := map[string]map[string]Rule{"MockOther": merge(c.Package, c.Root)}
	if c.Entries == 0 {
		eff["MockSvc"] = merge(c.Iface, c.Package, c.Root)
	}
	for i := 0; i < c.Entries; i++ {
		if i == 0 {
			eff["MockSvc0"] = merge(c.Entry, c.Iface, c.Package, c.Root)
		} else {
			eff[fmt.Sprintf("MockSvc%d", i)] = merge(c.Iface, c.Package, c.Root)
		}
	}
	return eff
}

type dump struct {
	imports map[string]string            // qualifier -> path
	paths   map[string]bool              // imported paths
	sigs    map[string]map[string]string // struct -> "Method/P0" -> canonical type string
}

var qualRe = regexp.MustCompile(`\b([A-Za-z_][A-Za-z0-9_]*)\.([A-Z])`)

func parseDump(s string) dump {
	d := dump{imports: map[string]string{}, paths: map[string]bool{}, sigs: map[string]map[string]string{}}
	type rec struct{ strct, key, typ string }
	var recs []rec
	var strct, meth string
	np, nr := 0, 0
	for _, ln := range strings.Split(s, "\n") {
		f := strings.SplitN(ln, " ", 2)
		if len(f) < 2 {
			continue
		}
		switch f[0] {
		case "IFACE":
			strct = strings.Fields(f[1])[1]
		case "METHOD":
			meth, np, nr = f[1], 0, 0
		case "PARAM":
			recs = append(recs, rec{strct, fmt.Sprintf("%s/P%d", meth, np), strings.SplitN(f[1], "|", 2)[1]})
			np++
		case "RET":
			recs = append(recs, rec{strct, fmt.Sprintf("%s/R%d", meth, nr), strings.SplitN(f[1], "|", 2)[1]})
			nr++
		case "IMPORT":
			p := strings.SplitN(f[1], "|", 2)
			d.imports[p[1]] = p[0]
			d.paths[p[0]] = true
		}
	}
	for _, r := range recs {
		if d.sigs[r.strct] == nil {
			d.sigs[r.strct] = map[string]string{}
		}
		d.sigs[r.strct][r.key] = qualRe.ReplaceAllStringFunc(r.typ, func(m string) string {
			sm := qualRe.FindStringSubmatch(m)
			if p, ok := d.imports[sm[1]]; ok {
				return "<" + p + ">." + sm[2]
			}
			return "<?" + sm[1] + ">." + sm[2]
		})
	}
	return d
}

var refRe = regexp.MustCompile(`<([^<>]*)>\.`)

func run(c Case) *vh.Violation {
	if c.Tree != nil {
		return runTree(c)
	}
	levels := 0
	for _, l := range [][]Rule{c.Root, c.Package, c.Iface, c.Entry} {
		if len(l) > 0 {
			levels++
		}
	}
	cl := []string{"shape=single-package", fmt.Sprintf("levels=%d", levels), fmt.Sprintf("entries=%d", c.Entries), fmt.Sprintf("listed=%v", c.Listed), fmt.Sprintf("inpkg=%v", c.InPackage), "template=" + c.Template}
	if len(c.Root) > 0 {
		cl = append(cl, "level:root")
	}
	if len(c.Package) > 0 {
		cl = append(cl, "level:package")
	}
	if len(c.Iface) > 0 {
		cl = append(cl, "level:iface-config")
	}
	if len(c.Entry) > 0 {
		cl = append(cl, "level:configs-entry")
	}

	mod := progen.Module{ModPath: modPath, GoMod: "plain", Pkgs: []progen.Pkg{{Dir: "svc", Name: "svc", Files: 1,
		Ifaces: []progen.Iface{{Name: "Svc", Methods: c.Svc}, {Name: "Other", Methods: c.Other}}}}}
	files := mod.Files()
	for _, k := range []string{"alpha", "alphb", "httpx"} {
		f, src := progen.HelperFile(k)
		files[f] = src
	}
	files["probe.templ"] = probe
	files["go.sum"] = vh.GoSum()

	eff := c.effective()
	// model: which (struct, position) are replaced, and is the case non-trivial
	type pos struct{ strct, key string }
	expectRepl := map[pos]Rule{}
	mixed, inherited := false, false
	for strct, rules := range eff {
		meths := c.Svc
		if strct == "MockOther" {
			meths = c.Other
		}
		for _, m := range meths {
			replPkgs, otherPkgs := map[string]bool{}, map[string]bool{}
			visit := func(v progen.Var, key string, variadicLast bool) {
				if v.T.K == "named" && len(v.T.Args) == 0 && !variadicLast {
					if r, ok := rules[importPath(v.T.Pkg)+"|"+v.T.Name]; ok {
						expectRepl[pos{strct, key}] = r
						replPkgs[v.T.Pkg] = true
						return
					}
				}
				progen.Walk(v.T, func(t progen.Ty) {
					if t.K == "named" {
						otherPkgs[t.Pkg] = true
					}
				})
			}
			for i, p := range m.Sig.Params {
				visit(p, fmt.Sprintf("%s/P%d", m.Name, i), m.Sig.Variadic && i == len(m.Sig.Params)-1)
			}
			for i, p := range m.Sig.Results {
				visit(p, fmt.Sprintf("%s/R%d", m.Name, i), false)
			}
			for k := range replPkgs {
				if otherPkgs[k] {
					mixed = true
				}
			}
		}
	}
	if len(expectRepl) > 0 && (len(c.Root) > 0 || len(c.Package) > 0) {
		inherited = true
	}
	fp := ""
	if len(expectRepl) > 0 && (mixed || inherited) {
		fp = vh.Hash(vh.JSON(c))
	}
	if len(expectRepl) > 0 {
		cl = append(cl, "some-replacement")
	}
	if mixed {
		cl = append(cl, "mixed-use-of-replaced-package")
	}
	vh.Count(fp, cl...)
	if fp != "" && vh.NeedSample() {
		vh.Sample(map[string]any{"case": c, "config": c.config("file://probe.templ", "noop", true, true, nil)})
	}

	dumpFile := "svc/zz_dump.txt"
	if !c.InPackage {
		dumpFile = "mocks/zz_dump.txt"
	}
	runProbe := func(withRules bool) (dump, vh.Result, string) {
		dir := vh.NewScratch()
		files[".mockery.yml"] = c.config("file://probe.templ", "noop", withRules, true, nil)
		vh.WriteFiles(dir, files)
		res := vh.Mockery(dir, nil)
		if res.TimedOut {
			vh.Infra("mockery timed out")
		}
		b, _ := os.ReadFile(filepath.Join(dir, dumpFile))
		vh.RemoveAll(dir)
		return parseDump(string(b)), res, string(b)
	}
	fail := func(key string, res vh.Result, obs string, format string, a ...any) *vh.Violation {
		delete(files, "go.sum")
		return vh.Violate(key, format, a...).With(files, fmt.Sprintf("mockery exit %d\n--- stderr\n%s\n--- observed\n%s", res.Exit, vh.Trunc(res.Stderr, 2500), obs))
	}
	a, resA, rawA := runProbe(false)
	if resA.Exit != 0 {
		vh.Infra("run A (no rules) failed: %s", vh.Trunc(resA.Stderr, 1500))
	}
	b, resB, rawB := runProbe(true)
	if resB.Panicked() {
		return fail("panic", resB, "", "mockery panicked")
	}
	if resB.Exit != 0 {
		return fail("exit/"+progen.NormDiag(progen.LastError(resB.Stderr)), resB, "", "mockery failed with valid replace-type rules: %s", progen.LastError(resB.Stderr))
	}
	obs := "--- run A\n" + rawA + "\n--- run B\n" + rawB
	var structs []string
	for s := range eff {
		structs = append(structs, s)
	}
	sort.Strings(structs)
	for _, strct := range structs {
		sa, sb := a.sigs[strct], b.sigs[strct]
		if sa == nil && len(eff) > 0 {
			meths := c.Svc
			if strct == "MockOther" {
				meths = c.Other
			}
			n := 0
			for _, m := range meths {
				n += len(m.Sig.Params) + len(m.Sig.Results)
			}
			if n == 0 {
				continue
			}
			vh.Infra("run A has no mock %s:\n%s", strct, rawA)
		}
		var keys []string
		for k := range sa {
			keys = append(keys, k)
		}
		sort.Strings(keys)
		for _, k := range keys {
			got, ok := sb[k]
			if !ok {
				return fail("missing-position", resB, obs, "%s %s is missing in the run with rules", strct, k)
			}
			if r, repl := expectRepl[pos{strct, k}]; repl {
				want := "<" + importPath(r.ToPkg) + ">." + r.ToName
				alt := want
				if r.ToName == "A" { // replacement by an alias: either spelling of the same type is fine
					alt = "<" + importPath(r.ToPkg) + ">.T"
				}
				if importPath(r.ToPkg) == srcPath && c.InPackage {
					want, alt = r.ToName, r.ToName
				}
				if got != want && got != alt {
					level := "?"
					for _, lv := range []struct {
						n  string
						rs []Rule
					}{{"configs-entry", c.Entry}, {"interface-config", c.Iface}, {"package", c.Package}, {"root", c.Root}} {
						for _, x := range lv.rs {
							if x == r && level == "?" {
								level = lv.n
							}
						}
					}
					if got == sa[k] {
						return fail("not-replaced/rule-at="+level+"/mock="+strings.TrimRight(strct, "0123456789"), resB, obs, "%s %s: type %s is mapped (rule written at %s level) but was rendered unchanged as %s, want %s", strct, k, sa[k], level, got, want)
					}
					return fail("wrong-replacement", resB, obs, "%s %s: got %s, want %s", strct, k, got, want)
				}
			} else if got != sa[k] {
				return fail("unmapped-type-changed/mock="+strings.TrimRight(strct, "0123456789"), resB, obs, "%s %s: no effective rule maps this type, but it changed from %s to %s", strct, k, sa[k], got)
			}
		}
	}
	// imports of B = packages referenced by B's strings
	ref := map[string]bool{}
	for _, m := range b.sigs {
		for _, s := range m {
			for _, x := range refRe.FindAllStringSubmatch(s, -1) {
				ref[x[1]] = true
			}
		}
	}
	for p := range b.paths {
		if !ref[p] {
			return fail("import-kept-but-unreferenced", resB, obs, "package %s is imported but no signature refers to it any more", p)
		}
	}
	for p := range ref {
		if !b.paths[p] {
			return fail("import-missing", resB, obs, "signatures refer to %s but it is not in the import list", p)
		}
	}
	// compile run with a built-in template, no import repair
	dir := vh.NewScratch()
	defer vh.RemoveAll(dir)
	var data map[string]any
	if c.Template == "matryer" {
		data = map[string]any{"skip-ensure": true} // the mock no longer implements the interface by design
	}
	files[".mockery.yml"] = c.config(c.Template, "gofmt", true, false, data)
	vh.WriteFiles(dir, files)
	res := vh.Mockery(dir, nil)
	out := "svc/mocks_test.go"
	if !c.InPackage {
		out = "mocks/mocks.go"
	}
	if res.Exit != 0 {
		return fail("builtin-exit/"+progen.NormDiag(progen.LastError(res.Stderr)), res, "", "built-in template run failed: %s", progen.LastError(res.Stderr))
	}
	ok, first, vet := progen.TypeCheck(dir, "", []string{out})
	if !ok {
		gen, _ := os.ReadFile(filepath.Join(dir, out))
		return fail(c.Template+"/compile/"+progen.NormDiag(first), res, vet+"\n--- generated\n"+vh.Trunc(string(gen), 3000), "output with replace-type does not compile: %s", first)
	}
	return nil
}

func TestProp(t *testing.T) {
	vh.Main(t, vh.Check[Case]{Gen: gen, Run: run, Reduce: reduce})
}
