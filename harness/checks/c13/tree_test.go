// C13, package-tree shape: replace-type rules across configuration levels when a
// `recursive: true` package and its sub-packages are configured side by side.
//
// A tree case has the packages par, par/sa, par/sb and oth. par and oth are always listed
// under packages:, par is usually recursive, each sub-package is listed or only reached
// through the recursion. In a listed package Svc and Other are, independently, selected by
// the root's regex only, named under interfaces: with an empty entry, named with a config:
// without replace-type, or named with rules of their own. Rules are written at a drawn
// subset of root / package config of any listed package / interface config. The generator
// always plants one rule at a non-root level together with a "bystander" mock that mentions
// the mapped type but is not below that level, and a witness mock at that level; in three of
// four cases with a recursive package that has rules, an interface named under interfaces:
// of a listed sub-package mentions a type that package maps.
//
// Model (entry by entry, most specific level first): the interface's config > the package's
// own config > root, and for a sub-package that is reached only through its recursive
// ancestor: the ancestor's config > root. A sub-package that is listed itself AND lies below
// a recursive ancestor takes the ancestor's entries as well (RootConfig.Initialize merges the
// parent into an existing entry explicitly, and a rule acts at the level where it is written
// and below, however the interface below is selected); only the order of precedence between
// the root and the ancestor for the same (package, type) entry is left open by the
// documentation ("inject those packages into the config map"): ancestor before root or
// ancestor behind root, one of the two for all such mocks of a run. Everything else is
// strict; in particular a rule never acts on a mock that is not at or below the level where
// it is written.
package c13

import (
	"encoding/json"
	"fmt"
	"os"
	"path"
	"path/filepath"
	"sort"
	"strings"

	"gopkg.in/yaml.v3"
	"pgregory.net/rapid"
	"verif/harness/progen"
	"verif/harness/vh"
)

var treeDirs = []string{"par", "par/sa", "par/sb", "oth"}

func (tr *Tree) pkg(dir string) *TPkg {
	for i := range tr.Pkgs {
		if tr.Pkgs[i].Dir == dir {
			return &tr.Pkgs[i]
		}
	}
	return nil
}

// recursiveAncestor returns the listed recursive package above p, if any.
func (tr *Tree) recursiveAncestor(p *TPkg) *TPkg {
	for i := range tr.Pkgs {
		a := &tr.Pkgs[i]
		if a.Listed && a.Recursive && strings.HasPrefix(p.Dir, a.Dir+"/") {
			return a
		}
	}
	return nil
}

// mocked: the package produces mocks (listed, or below a listed recursive package).
func (tr *Tree) mocked(p *TPkg) bool { return p.Listed || tr.recursiveAncestor(p) != nil }

func ruleKey(r Rule) string { return importPath(r.FromPkg) + "|" + r.FromName }

func dropKey(rs []Rule, key string) []Rule {
	var out []Rule
	for _, r := range rs {
		if ruleKey(r) != key {
			out = append(out, r)
		}
	}
	return out
}

// mode and rules of one interface's entry under interfaces: (see TPkg).
func (p *TPkg) mode(iface string) *string {
	if iface == "Other" {
		return &p.OtherMode
	}
	return &p.SvcMode
}

func (p *TPkg) irules(iface string) *[]Rule {
	if iface == "Other" {
		return &p.OtherRules
	}
	return &p.SvcRules
}

func (p *TPkg) meths(iface string) []progen.Meth {
	if iface == "Other" {
		return p.Other
	}
	return p.Svc
}

var ifaceNames = []string{"Svc", "Other"}

type mockRef struct {
	dir   string
	iface string // Svc | Other
}

func genTree(t *rapid.T, pool []cand) Case {
	// the source package differs from mock to mock here: no rules from or to its local types
	var from, to []cand
	for _, c := range pool {
		if c.pkg != "" {
			from = append(from, c)
		}
	}
	if len(from) == 0 {
		from = []cand{{"alpha", "MyInt"}}
	}
	for _, c := range toCands {
		if c.pkg != "" {
			to = append(to, c)
		}
	}
	target := func(label string, f cand) cand {
		for {
			x := rapid.SampledFrom(to).Draw(t, label+"to")
			if x != f {
				return x
			}
		}
	}
	genRules := func(label string) []Rule {
		var rs []Rule
		seen := map[cand]bool{}
		n := rapid.IntRange(1, 2).Draw(t, label+"n")
		for i := 0; i < n; i++ {
			f := rapid.SampledFrom(from).Draw(t, label+"from")
			if seen[f] {
				continue
			}
			seen[f] = true
			x := target(label, f)
			rs = append(rs, Rule{FromPkg: f.pkg, FromName: f.name, ToPkg: x.pkg, ToName: x.name})
		}
		return rs
	}
	c := Case{InPackage: true, Template: rapid.SampledFrom([]string{"testify", "matryer"}).Draw(t, "template"), Tree: &Tree{}}
	tr := c.Tree
	for _, d := range treeDirs {
		p := TPkg{Dir: d, Svc: genMethods(t, from, "S"), Other: genMethods(t, from, "O")}
		switch d {
		case "par":
			p.Listed = true
			p.Recursive = rapid.IntRange(0, 3).Draw(t, "recursive") != 0
		case "oth":
			p.Listed = true
		default:
			p.Listed = rapid.Bool().Draw(t, "sub-listed")
		}
		if p.Listed {
			if rapid.Bool().Draw(t, "pkg-rules") {
				p.Rules = genRules("pkg")
			}
			for _, in := range ifaceNames {
				md := rapid.SampledFrom([]string{"", "null", "config", "rules"}).Draw(t, "iface-mode")
				*p.mode(in) = md
				if md == "rules" {
					*p.irules(in) = genRules("iface")
				}
			}
		}
		tr.Pkgs = append(tr.Pkgs, p)
	}
	if rapid.IntRange(0, 3).Draw(t, "root-rules") != 0 {
		c.Root = genRules("root")
	}
	tr.Compile = rapid.IntRange(0, 2).Draw(t, "compile-run") == 0

	// the planted rule: type k mapped at one non-root level
	type level struct {
		dir   string
		iface string // "" = the package's config
	}
	var levels []level
	for i := range tr.Pkgs {
		p := &tr.Pkgs[i]
		if p.Listed {
			levels = append(levels, level{p.Dir, ""})
			for _, in := range ifaceNames {
				if *p.mode(in) != "" {
					levels = append(levels, level{p.Dir, in})
				}
			}
		}
	}
	lv := rapid.SampledFrom(levels).Draw(t, "planted-level")
	k := rapid.SampledFrom(from).Draw(t, "planted-from")
	kt := target("planted", k)
	planted := Rule{FromPkg: k.pkg, FromName: k.name, ToPkg: kt.pkg, ToName: kt.name}
	lp := tr.pkg(lv.dir)
	if lv.iface != "" {
		*lp.mode(lv.iface) = "rules"
		*lp.irules(lv.iface) = append(dropKey(*lp.irules(lv.iface), ruleKey(planted)), planted)
	} else {
		lp.Rules = append(dropKey(lp.Rules, ruleKey(planted)), planted)
	}
	// the bystander: an existing mock that is not at or below the planted level
	var bystanders []mockRef
	for i := range tr.Pkgs {
		p := &tr.Pkgs[i]
		if !tr.mocked(p) {
			continue
		}
		for _, in := range ifaceNames {
			below := p.Dir == lv.dir && (lv.iface == "" || in == lv.iface)
			if lv.iface == "" && lp.Recursive && strings.HasPrefix(p.Dir, lp.Dir+"/") {
				below = true
			}
			if !below {
				bystanders = append(bystanders, mockRef{p.Dir, in})
			}
		}
	}
	by := rapid.SampledFrom(bystanders).Draw(t, "bystander")
	bp := tr.pkg(by.dir)
	// no level above the bystander maps k
	c.Root = dropKey(c.Root, ruleKey(planted))
	bp.Rules = dropKey(bp.Rules, ruleKey(planted))
	*bp.irules(by.iface) = dropKey(*bp.irules(by.iface), ruleKey(planted))
	if a := tr.recursiveAncestor(bp); a != nil {
		a.Rules = dropKey(a.Rules, ruleKey(planted))
	}
	// both the bystander and a witness at the planted level mention k exactly
	mention := func(p *TPkg, iface string, name string, f cand) {
		ms := p.meths(iface)
		v := progen.Var{Name: name, T: progen.N(f.pkg, f.name)}
		ms[0].Sig.Params = append([]progen.Var{v}, ms[0].Sig.Params...)
	}
	mention(bp, by.iface, "pk", k)
	wi := lv.iface
	if wi == "" {
		wi = "Svc"
	}
	mention(lp, wi, "pk", k)
	// a rule of a recursive package is also looked at from below: an interface that is named
	// under interfaces: of a listed sub-package mentions a type the recursive package maps
	type slot struct {
		p     *TPkg
		iface string
	}
	for i := range tr.Pkgs {
		a := &tr.Pkgs[i]
		if !a.Listed || !a.Recursive || len(a.Rules) == 0 {
			continue
		}
		var slots []slot
		for j := range tr.Pkgs {
			q := &tr.Pkgs[j]
			if q.Listed && tr.recursiveAncestor(q) == a {
				for _, in := range ifaceNames {
					if *q.mode(in) != "" {
						slots = append(slots, slot{q, in})
					}
				}
			}
		}
		if len(slots) == 0 || rapid.IntRange(0, 3).Draw(t, "ancestor-witness") == 0 {
			continue
		}
		sl := rapid.SampledFrom(slots).Draw(t, "ancestor-witness-slot")
		r := rapid.SampledFrom(a.Rules).Draw(t, "ancestor-witness-rule")
		mention(sl.p, sl.iface, "pa", cand{r.FromPkg, r.FromName})
	}
	return c
}

func (c Case) treeModule() progen.Module {
	m := progen.Module{ModPath: modPath, GoMod: "plain"}
	for _, p := range c.Tree.Pkgs {
		m.Pkgs = append(m.Pkgs, progen.Pkg{Dir: p.Dir, Name: path.Base(p.Dir), Files: 1,
			Ifaces: []progen.Iface{{Name: "Svc", Methods: p.Svc}, {Name: "Other", Methods: p.Other}}})
	}
	return m
}

// treeConfig renders .mockery.yml of a tree case; every mock goes next to its interface.
func (c Case) treeConfig(template, formatter, filename string, withRules bool, data map[string]any) string {
	root := map[string]any{"template": template, "formatter": formatter, "filename": filename,
		"include-interface-regex": "^(Svc|Other)$"}
	if strings.HasPrefix(template, "file://") {
		root["require-template-schema-exists"] = false
	}
	if data != nil {
		root["template-data"] = data
	}
	rm := func(rs []Rule) map[string]any {
		if !withRules {
			return nil
		}
		return ruleMap(rs)
	}
	if m := rm(c.Root); m != nil {
		root["replace-type"] = m
	}
	pkgs := map[string]any{}
	for _, p := range c.Tree.Pkgs {
		if !p.Listed {
			continue
		}
		entry := map[string]any{}
		pc := map[string]any{}
		if p.Recursive {
			pc["recursive"] = true
		}
		if m := rm(p.Rules); m != nil {
			pc["replace-type"] = m
		}
		if len(pc) > 0 {
			entry["config"] = pc
		}
		ifs := map[string]any{}
		for _, in := range ifaceNames {
			switch *p.mode(in) {
			case "null":
				ifs[in] = nil
			case "config":
				ifs[in] = map[string]any{"config": map[string]any{"structname": "Mock" + in}}
			case "rules":
				ifs[in] = nil
				if m := rm(*p.irules(in)); m != nil {
					ifs[in] = map[string]any{"config": map[string]any{"replace-type": m}}
				}
			}
		}
		if len(ifs) > 0 {
			entry["interfaces"] = ifs
		}
		var e any = entry
		if len(entry) == 0 {
			e = nil
		}
		pkgs[modPath+"/"+p.Dir] = e
	}
	root["packages"] = pkgs
	b, err := yaml.Marshal(root)
	if err != nil {
		panic(err)
	}
	return string(b)
}

type namedLevel struct {
	name  string // interface-config | package | recursive-ancestor | root
	rules []Rule
}

type reading struct {
	name  string
	rules map[string]Rule   // effective rule per "path|Name"
	level map[string]string // level at which the effective rule is written
}

func mergeLevels(name string, levels []namedLevel) reading {
	r := reading{name: name, rules: map[string]Rule{}, level: map[string]string{}}
	for _, lv := range levels { // most specific first
		for _, x := range lv.rules {
			if _, ok := r.rules[ruleKey(x)]; !ok {
				r.rules[ruleKey(x)] = x
				r.level[ruleKey(x)] = lv.name
			}
		}
	}
	return r
}

// role of a package in the tree (part of violation keys and class labels).
func (c Case) role(p *TPkg) string {
	tr := c.Tree
	switch {
	case p.Dir == "par" && p.Recursive:
		return "recursive-parent"
	case p.Dir == "par":
		return "plain-parent"
	case strings.HasPrefix(p.Dir, "par/") && p.Listed && tr.recursiveAncestor(p) != nil:
		return "listed-sub-of-recursive"
	case strings.HasPrefix(p.Dir, "par/") && p.Listed:
		return "listed-sub-of-plain"
	case strings.HasPrefix(p.Dir, "par/"):
		return "unlisted-sub"
	}
	return "outside"
}

// readings lists the admissible effective rule tables of one mock.
func (c Case) readings(p *TPkg, iface string) []reading {
	tr := c.Tree
	var own []namedLevel
	if p.Listed && *p.mode(iface) == "rules" {
		own = append(own, namedLevel{"interface-config", *p.irules(iface)})
	}
	if p.Listed {
		own = append(own, namedLevel{"package", p.Rules})
	}
	rootLv := namedLevel{"root", c.Root}
	with := func(ls ...namedLevel) []namedLevel { return append(append([]namedLevel{}, own...), ls...) }
	a := tr.recursiveAncestor(p)
	if a == nil {
		return []reading{mergeLevels("own+root", with(rootLv))}
	}
	anc := namedLevel{"recursive-ancestor", a.Rules}
	if !p.Listed {
		return []reading{mergeLevels("ancestor+root", with(anc, rootLv))}
	}
	if len(a.Rules) == 0 {
		return []reading{mergeLevels("own+root", with(rootLv))}
	}
	return []reading{
		mergeLevels("ancestor-before-root", with(anc, rootLv)),
		mergeLevels("ancestor-after-root", with(rootLv, anc)),
	}
}

// exactKey: the rule key a parameter/result is looked up under, if its type is exactly a
// named type (the last parameter of a variadic method is a slice for the generator).
func exactKey(v progen.Var, variadicLast bool) (string, bool) {
	if v.T.K == "named" && len(v.T.Args) == 0 && !variadicLast {
		return importPath(v.T.Pkg) + "|" + v.T.Name, true
	}
	return "", false
}

// positions maps "Method/P0" of an interface to the rule key of that position ("" = not an
// exact named type).
func positions(meths []progen.Meth) map[string]string {
	out := map[string]string{}
	for _, m := range meths {
		for i, p := range m.Sig.Params {
			k, _ := exactKey(p, m.Sig.Variadic && i == len(m.Sig.Params)-1)
			out[fmt.Sprintf("%s/P%d", m.Name, i)] = k
		}
		for i, p := range m.Sig.Results {
			k, _ := exactKey(p, false)
			out[fmt.Sprintf("%s/R%d", m.Name, i)] = k
		}
	}
	return out
}

func wantStrings(r Rule) (string, string) {
	want := "<" + importPath(r.ToPkg) + ">." + r.ToName
	alt := want
	if r.ToName == "A" { // replacement by an alias: either spelling of the same type is fine
		alt = "<" + importPath(r.ToPkg) + ">.T"
	}
	return want, alt
}

func runTree(c Case) *vh.Violation {
	tr := c.Tree
	mod := c.treeModule()
	files := mod.Files()
	for _, k := range []string{"alpha", "alphb", "httpx"} {
		f, src := progen.HelperFile(k)
		files[f] = src
	}
	files["probe.templ"] = probe
	files["go.sum"] = vh.GoSum()

	// ---- model and classes
	type mock struct {
		p     *TPkg
		iface string
		role  string
		pos   map[string]string
		rds   []reading
	}
	var mocks []mock
	allLevels := map[string][]string{} // rule key -> "dir" / "dir#Svc" of the non-root levels that map it
	cl := []string{"shape=tree", "template=" + c.Template}
	nListedSub, nUnlistedSub := 0, 0
	lvClasses := map[string]bool{}
	if len(c.Root) > 0 {
		lvClasses["tree:rules-at:root"] = true
	}
	for i := range tr.Pkgs {
		p := &tr.Pkgs[i]
		role := c.role(p)
		if strings.HasPrefix(p.Dir, "par/") {
			if p.Listed {
				nListedSub++
			} else {
				nUnlistedSub++
			}
		}
		if p.Listed && len(p.Rules) > 0 {
			lvClasses["tree:rules-at:package/"+role] = true
			for _, r := range p.Rules {
				allLevels[ruleKey(r)] = append(allLevels[ruleKey(r)], role)
			}
		}
		for _, in := range ifaceNames {
			if !p.Listed {
				break
			}
			md := *p.mode(in)
			if md == "" {
				md = "regex"
			}
			lvClasses["tree:interface-selected-by="+md+"/"+role] = true
			if md == "rules" && len(*p.irules(in)) > 0 {
				lvClasses["tree:rules-at:interface/"+role] = true
				for _, r := range *p.irules(in) {
					allLevels[ruleKey(r)] = append(allLevels[ruleKey(r)], "interface-of-"+role)
				}
			}
		}
		if !tr.mocked(p) {
			continue
		}
		for _, in := range ifaceNames {
			mocks = append(mocks, mock{p, in, role, positions(p.meths(in)), c.readings(p, in)})
		}
	}
	par := tr.pkg("par")
	cl = append(cl, fmt.Sprintf("tree:parent-recursive=%v", par != nil && par.Recursive),
		fmt.Sprintf("tree:listed-subs=%d", nListedSub), fmt.Sprintf("tree:unlisted-subs=%d", nUnlistedSub))
	for k := range lvClasses {
		cl = append(cl, k)
	}
	// bystander positions: an exact named type that some non-root level maps although no
	// admissible reading of this mock has a rule for it
	strictRepl, bystander := false, false
	seenCl := map[string]bool{}
	tablelessSub := false
	for i := range tr.Pkgs {
		p := &tr.Pkgs[i]
		if p.Listed && len(p.Rules) == 0 && tr.recursiveAncestor(p) != nil {
			tablelessSub = true
		}
	}
	for _, m := range mocks {
		if len(m.rds) > 1 && !seenCl["ambig"] {
			seenCl["ambig"] = true
			cl = append(cl, "tree:listed-sub-below-recursive-parent-with-rules")
		}
		for _, k := range m.pos {
			if k == "" {
				continue
			}
			n := 0
			for _, r := range m.rds {
				if _, ok := r.rules[k]; ok {
					n++
				}
			}
			if n == len(m.rds) {
				strictRepl = true
				// a recursive package's rule that every reading demands in a mock of a
				// sub-package that is listed itself, by the way the interface is selected
				if m.role == "listed-sub-of-recursive" {
					fromAnc := true
					for _, r := range m.rds {
						fromAnc = fromAnc && r.level[k] == "recursive-ancestor"
					}
					md := *m.p.mode(m.iface)
					if md == "" {
						md = "regex"
					}
					if lab := "tree:recursive-parent-rule-demanded-in-listed-sub/interface-selected-by=" + md; fromAnc && !seenCl[lab] {
						seenCl[lab] = true
						cl = append(cl, lab)
					}
				}
			}
			if n > 0 || len(allLevels[k]) == 0 {
				continue
			}
			bystander = true
			for _, from := range allLevels[k] {
				lab := "tree:bystander=" + m.role + "/rule-at=" + from
				if !seenCl[lab] {
					seenCl[lab] = true
					cl = append(cl, lab)
				}
			}
			// the rule the bystander must not see is written on a recursive parent that has a
			// listed sub-package without a table of its own, below a root that has a table:
			// parent and root are both merged into that sub-package (counted once more when
			// the bystander has no table at any of its own levels either)
			own := len(m.p.Rules) > 0 || len(*m.p.irules(m.iface)) > 0
			if len(c.Root) > 0 && tablelessSub {
				for _, from := range allLevels[k] {
					if from != "recursive-parent" {
						continue
					}
					if !seenCl["tl"] {
						seenCl["tl"] = true
						cl = append(cl, "tree:bystander-of-recursive-parent-rule+root-table+tableless-listed-sub")
					}
					if !own && !seenCl["tl2"] {
						seenCl["tl2"] = true
						cl = append(cl, "tree:bystander-of-recursive-parent-rule+root-table+tableless-listed-sub+tableless-bystander")
					}
				}
			}
		}
	}
	if bystander {
		cl = append(cl, "tree:has-bystander")
	}
	if tr.Compile {
		cl = append(cl, "tree:compile-run")
	}
	if strictRepl {
		cl = append(cl, "some-replacement")
	}
	fp := ""
	if strictRepl && bystander {
		fp = vh.Hash(vh.JSON(c))
	}
	vh.Count(fp, cl...)
	if fp != "" && vh.NeedSample() {
		vh.Sample(map[string]any{"case": c, "config": c.treeConfig("file://probe.templ", "noop", "zz_dump.txt", true, nil)})
	}

	// ---- runs A (no rules) and B (rules) through the dump probe
	runProbe := func(withRules bool) (map[string]dump, vh.Result, string) {
		dir := vh.NewScratch()
		files[".mockery.yml"] = c.treeConfig("file://probe.templ", "noop", "zz_dump.txt", withRules, nil)
		vh.WriteFiles(dir, files)
		res := vh.Mockery(dir, nil)
		if res.TimedOut {
			vh.Infra("mockery timed out")
		}
		out := map[string]dump{}
		raw := ""
		for _, p := range tr.Pkgs {
			b, err := os.ReadFile(filepath.Join(dir, p.Dir, "zz_dump.txt"))
			if err != nil {
				continue
			}
			out[p.Dir] = parseDump(string(b))
			raw += "### " + p.Dir + "\n" + string(b) + "\n"
		}
		vh.RemoveAll(dir)
		return out, res, raw
	}
	fail := func(key string, res vh.Result, obs string, format string, a ...any) *vh.Violation {
		delete(files, "go.sum")
		files[".mockery.yml"] = c.treeConfig("file://probe.templ", "noop", "zz_dump.txt", true, nil)
		return vh.Violate("tree/"+key, format, a...).With(files, fmt.Sprintf("mockery exit %d\n--- stderr\n%s\n--- observed\n%s", res.Exit, vh.Trunc(res.Stderr, 2500), obs))
	}
	a, resA, rawA := runProbe(false)
	if resA.Exit != 0 {
		vh.Infra("run A (no rules) failed: %s", vh.Trunc(resA.Stderr, 1500))
	}
	b, resB, rawB := runProbe(true)
	if resB.Panicked() {
		return fail("panic", resB, "", "mockery panicked")
	}
	if resB.Exit != 0 {
		return fail("exit/"+progen.NormDiag(progen.LastError(resB.Stderr)), resB, "", "mockery failed with valid replace-type rules: %s", progen.LastError(resB.Stderr))
	}
	obs := "--- run A\n" + rawA + "\n--- run B\n" + rawB
	// what a listed sub-package takes from its recursive ancestor is one decision of the
	// tool: one reading has to explain every mock of every such package of the run
	runFits := map[string]bool{}
	ambiguous := false
	for _, m := range mocks {
		strct := "Mock" + m.iface
		who := m.p.Dir + "." + strct
		sa, sb := a[m.p.Dir].sigs[strct], b[m.p.Dir].sigs[strct]
		if len(m.pos) == 0 {
			continue
		}
		if sa == nil {
			vh.Infra("run A has no mock %s:\n%s", who, rawA)
		}
		var keys []string
		for k := range m.pos {
			keys = append(keys, k)
		}
		sort.Strings(keys)
		fits := make([]bool, len(m.rds))
		for i := range fits {
			fits[i] = true
		}
		for _, k := range keys {
			base, okA := sa[k]
			if !okA {
				vh.Infra("run A has no position %s of %s:\n%s", k, who, rawA)
			}
			got, ok := sb[k]
			if !ok {
				return fail("missing-position/mock="+m.role, resB, obs, "%s %s is missing in the run with rules", who, k)
			}
			admissible := false
			nRule := 0
			for i, r := range m.rds {
				want, alt := base, base
				if x, has := r.rules[m.pos[k]]; has && m.pos[k] != "" {
					want, alt = wantStrings(x)
					nRule++
				}
				if got == want || got == alt {
					admissible = true
				} else {
					fits[i] = false
				}
			}
			if admissible {
				continue
			}
			r0 := m.rds[0]
			switch {
			case nRule == 0:
				return fail("unmapped-type-changed/mock="+m.role, resB, obs, "%s %s: no rule written at the root, at the package (or its recursive ancestor) or at the interface maps this type, but it changed from %s to %s", who, k, base, got)
			case got == base && nRule == len(m.rds):
				want, _ := wantStrings(r0.rules[m.pos[k]])
				return fail("not-replaced/rule-at="+r0.level[m.pos[k]]+"/mock="+m.role, resB, obs, "%s %s: type %s is mapped (rule written at %s level) but was rendered unchanged, want %s", who, k, base, r0.level[m.pos[k]], want)
			default:
				var wants []string
				for _, r := range m.rds {
					w := base
					if x, has := r.rules[m.pos[k]]; has {
						w, _ = wantStrings(x)
					}
					wants = append(wants, w)
				}
				return fail("wrong-replacement/mock="+m.role, resB, obs, "%s %s: got %s, admissible: %s", who, k, got, strings.Join(wants, " | "))
			}
		}
		if len(m.rds) > 1 {
			for i, f := range fits {
				if _, seen := runFits[m.rds[i].name]; !seen {
					runFits[m.rds[i].name] = true
				}
				if !f {
					runFits[m.rds[i].name] = false
				}
			}
			ambiguous = true
		}
	}
	if ambiguous {
		var names []string
		for n, f := range runFits {
			if f {
				names = append(names, n)
			}
		}
		sort.Strings(names)
		if len(names) == 0 {
			return fail("inconsistent-inheritance/mock=listed-sub-of-recursive", resB, obs, "every position is admissible by itself, but no single order of precedence between the root and the recursive ancestor explains all mocks of the listed sub-packages")
		}
		if len(names) < len(runFits) {
			vh.DontCare("listed-sub-below-recursive-parent:" + strings.Join(names, "+"))
		}
	}
	// imports of each file of B = packages referenced by its strings
	for _, p := range tr.Pkgs {
		d, ok := b[p.Dir]
		if !ok {
			continue
		}
		ref := map[string]bool{}
		for _, m := range d.sigs {
			for _, s := range m {
				for _, x := range refRe.FindAllStringSubmatch(s, -1) {
					ref[x[1]] = true
				}
			}
		}
		var paths []string
		for q := range d.paths {
			paths = append(paths, q)
		}
		for q := range ref {
			paths = append(paths, q)
		}
		sort.Strings(paths)
		for _, q := range paths {
			if d.paths[q] && !ref[q] {
				return fail("import-kept-but-unreferenced", resB, obs, "mocks of %s: package %s is imported but no signature refers to it any more", p.Dir, q)
			}
			if ref[q] && !d.paths[q] {
				return fail("import-missing", resB, obs, "mocks of %s: signatures refer to %s but it is not in the import list", p.Dir, q)
			}
		}
	}
	// ---- compile run with a built-in template, no import repair
	if !tr.Compile {
		return nil
	}
	dir := vh.NewScratch()
	defer vh.RemoveAll(dir)
	var data map[string]any
	if c.Template == "matryer" {
		data = map[string]any{"skip-ensure": true}
	}
	files[".mockery.yml"] = c.treeConfig(c.Template, "gofmt", "mocks_test.go", true, data)
	vh.WriteFiles(dir, files)
	res := vh.Mockery(dir, nil)
	if res.Exit != 0 {
		return fail("builtin-exit/"+progen.NormDiag(progen.LastError(res.Stderr)), res, "", "built-in template run failed: %s", progen.LastError(res.Stderr))
	}
	var outs []string
	for _, m := range mocks {
		if m.iface == "Svc" {
			outs = append(outs, m.p.Dir+"/mocks_test.go")
		}
	}
	ok, first, vet := progen.TypeCheck(dir, "", outs)
	if !ok {
		return fail(c.Template+"/compile/"+progen.NormDiag(first), res, vet, "output with replace-type does not compile: %s", first)
	}
	return nil
}

// reduce lists tree cases one step simpler than c (structural minimisation of a found
// violation; the single-package shape relies on rapid's own shrinking).
func reduce(c Case) []Case {
	if c.Tree == nil {
		return nil
	}
	var out []Case
	edit := func(f func(x *Case)) {
		var x Case
		if err := json.Unmarshal([]byte(vh.JSON(c)), &x); err != nil {
			return
		}
		f(&x)
		out = append(out, x)
	}
	cut := func(rs []Rule, i int) []Rule { return append(append([]Rule{}, rs[:i]...), rs[i+1:]...) }
	if c.Tree.Compile {
		edit(func(x *Case) { x.Tree.Compile = false })
	}
	// large cuts first: whole tables, whole listings
	for pi, p := range c.Tree.Pkgs {
		pi := pi
		if len(p.Rules) > 0 {
			edit(func(x *Case) { x.Tree.Pkgs[pi].Rules = nil })
		}
		for _, in := range ifaceNames {
			in := in
			// rules -> config -> null -> selected by the regex only
			switch *p.mode(in) {
			case "rules":
				edit(func(x *Case) { q := &x.Tree.Pkgs[pi]; *q.mode(in), *q.irules(in) = "", nil })
				edit(func(x *Case) { q := &x.Tree.Pkgs[pi]; *q.mode(in), *q.irules(in) = "null", nil })
			case "config":
				edit(func(x *Case) { *x.Tree.Pkgs[pi].mode(in) = "" })
				edit(func(x *Case) { *x.Tree.Pkgs[pi].mode(in) = "null" })
			case "null":
				edit(func(x *Case) { *x.Tree.Pkgs[pi].mode(in) = "" })
			}
		}
		if p.Listed && strings.HasPrefix(p.Dir, "par/") {
			edit(func(x *Case) {
				q := &x.Tree.Pkgs[pi]
				q.Listed, q.Rules, q.SvcMode, q.OtherMode, q.SvcRules, q.OtherRules = false, nil, "", "", nil, nil
			})
		}
		if p.Recursive {
			edit(func(x *Case) { x.Tree.Pkgs[pi].Recursive = false })
		}
	}
	if len(c.Root) > 0 {
		edit(func(x *Case) { x.Root = nil })
	}
	for pi, p := range c.Tree.Pkgs {
		pi := pi
		for which, ms := range [][]progen.Meth{p.Svc, p.Other} {
			which := which
			sel := func(x *Case) *[]progen.Meth {
				if which == 0 {
					return &x.Tree.Pkgs[pi].Svc
				}
				return &x.Tree.Pkgs[pi].Other
			}
			for k := range ms {
				k := k
				edit(func(x *Case) { m := sel(x); *m = append((*m)[:k:k], (*m)[k+1:]...) })
			}
			for k, m := range ms {
				k := k
				for j := range m.Sig.Params {
					j := j
					edit(func(x *Case) {
						s := &(*sel(x))[k].Sig
						s.Params = append(s.Params[:j:j], s.Params[j+1:]...)
						if len(s.Params) == 0 || j == len(s.Params) {
							s.Variadic = false
						}
					})
				}
				for j := range m.Sig.Results {
					j := j
					edit(func(x *Case) {
						s := &(*sel(x))[k].Sig
						s.Results = append(s.Results[:j:j], s.Results[j+1:]...)
					})
				}
				if m.Sig.Variadic {
					edit(func(x *Case) { (*sel(x))[k].Sig.Variadic = false })
				}
			}
		}
	}
	// single rules
	for i := range c.Root {
		i := i
		if len(c.Root) > 1 {
			edit(func(x *Case) { x.Root = cut(x.Root, i) })
		}
	}
	for pi, p := range c.Tree.Pkgs {
		pi := pi
		if len(p.Rules) > 1 {
			for i := range p.Rules {
				i := i
				edit(func(x *Case) { x.Tree.Pkgs[pi].Rules = cut(x.Tree.Pkgs[pi].Rules, i) })
			}
		}
		for _, in := range ifaceNames {
			in := in
			if rs := *p.irules(in); len(rs) > 1 {
				for i := range rs {
					i := i
					edit(func(x *Case) { q := x.Tree.Pkgs[pi].irules(in); *q = cut(*q, i) })
				}
			}
		}
	}
	if c.Template != "testify" {
		edit(func(x *Case) { x.Template = "testify" })
	}
	return out
}
