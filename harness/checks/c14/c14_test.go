// C14 — data handed to custom templates describes the interfaces faithfully.
//
// Every interface of a generated module is rendered through a re-emit probe (a file://
// template) that turns the documented data model back into Go: the interface re-declared
// from Declaration/TypeConstraint, a mutual-assignability check against the original, a
// forwarding wrapper built from ArgList/ReturnArgTypeList/Call, and per-parameter
// `var _ <TypeString> = <Name>` lines. The Go type checker judges the result; a companion
// file written by the harness instantiates the re-emitted interface with admissible type
// arguments of the ORIGINAL constraints.
package c14

import (
	_ "embed"
	"fmt"
	"path"
	"regexp"
	"sort"
	"strings"
	"testing"

	"pgregory.net/rapid"
	"verif/harness/progen"
	"verif/harness/vh"
)

//go:embed probe.templ
var probe string

type Case struct {
	Mod progen.Module    `json:"mod"`
	R   progen.Rendering `json:"r"`
}

func gen(t *rapid.T) Case {
	r := progen.Rendering{
		Template:  "probe",
		Formatter: rapid.SampledFrom([]string{"noop", "gofmt", "goimports"}).Draw(t, "formatter"),
		Placement: rapid.SampledFrom(progen.Placements).Draw(t, "placement"),
		All:       rapid.IntRange(0, 3).Draw(t, "all") == 0,
	}
	// a type parameter named like the source package would shadow the qualifier the probe itself needs
	o := progen.Opts{Avoid: map[string]bool{"tparamname:mock": true}, CrossEmbed: true}
	if r.InPackage() && rapid.IntRange(0, 2).Draw(t, "unexported") == 0 {
		o.AllowUnexported = true
	}
	return Case{Mod: progen.Gen(t, o), R: r}
}

var aliasRe = regexp.MustCompile(`[^A-Za-z0-9]`)


func run(c Case) *vh.Violation {
	feats := c.Mod.Features()
	nt := false
	for _, f := range feats {
		if f == "generic" || f == "variadic" || (strings.HasPrefix(f, "ident:") && f != "ident:blank" && f != "ident:unnamed") {
			nt = true
		}
	}
	cl := append([]string{"formatter=" + c.R.Formatter, "placement=" + c.R.Placement}, feats...)
	if c.R.All {
		cl = append(cl, "all=true")
	}
	fp := ""
	if nt {
		fp = vh.Hash(vh.JSON(c))
	}
	vh.Count(fp, cl...)

	extra := map[string]string{"probe.templ": probe}
	companions := map[string]string{}
	for pi := range c.Mod.Pkgs {
		p := &c.Mod.Pkgs[pi]
		outFile, pkgname := c.R.OutputFile(p)
		imports := map[string]string{}
		q := func(k string) string {
			if k == "" {
				if c.R.InPackage() {
					return ""
				}
				imports[c.Mod.PkgPath(p)] = "src"
				return "src."
			}
			a := "q_" + aliasRe.ReplaceAllString(k, "_")
			imports[c.Mod.ImportPath(k)] = a
			if !progen.LookupPkg(k).Std {
				f, src := progen.HelperFile(k)
				extra[f] = src
			}
			return a + "."
		}
		var body strings.Builder
		for ii := range p.Ifaces {
			it := &p.Ifaces[ii]
			for _, tuple := range genericArgs(it) {
				parts := make([]string, len(tuple))
				for i, a := range tuple {
					parts[i] = progen.Render(a, q)
				}
				fmt.Fprintf(&body, "var _ ReI_%s[%s]\n", it.Name, strings.Join(parts, ", "))
			}
		}
		if body.Len() == 0 {
			continue
		}
		var sb strings.Builder
		sb.WriteString("package " + pkgname + "\n\n")
		var paths []string
		for ip := range imports {
			paths = append(paths, ip)
		}
		sort.Strings(paths)
		if len(paths) > 0 {
			sb.WriteString("import (\n")
			for _, ip := range paths {
				fmt.Fprintf(&sb, "\t%s %q\n", imports[ip], ip)
			}
			sb.WriteString(")\n\n")
		}
		sb.WriteString(body.String())
		companions[path.Join(path.Dir(outFile), "zz_verif_c14_test.go")] = sb.String()
	}
	for k, v := range companions {
		extra[k] = v
	}
	r := c.R
	r.Template = "file://probe.templ"
	dir, _ := progen.Materialize(&c.Mod, r, map[string]any{"require-template-schema-exists": false}, extra)
	defer vh.RemoveAll(dir)
	outs := r.Outputs(&c.Mod)
	var gen []string
	gen = append(gen, outs...)
	for k := range companions {
		gen = append(gen, k)
	}
	res := vh.Mockery(dir, nil)
	if res.TimedOut {
		vh.Infra("mockery timed out")
	}
	fail := func(key, format string, a ...any) *vh.Violation {
		obs := fmt.Sprintf("mockery exit %d\n--- stderr\n%s", res.Exit, vh.Trunc(res.Stderr, 3000))
		return vh.Violate(key, format, a...).With(vh.ReadTree(dir), obs)
	}
	if res.Exit != 0 {
		progen.AssertSourceCompiles(dir, "", gen)
		if res.Panicked() {
			return fail("panic", "mockery panicked")
		}
		msg := progen.LastError(res.Stderr)
		if strings.Contains(msg, "formatting mock file") {
			return fail("format/"+progen.NormDiag(msg), "the re-emitted Go does not parse: %s", msg)
		}
		return fail("exit/"+progen.NormDiag(msg), "mockery exited %d: %s", res.Exit, msg)
	}
	ok, first, out := progen.TypeCheck(dir, "", gen)
	if fp != "" && vh.NeedSample() {
		tree := vh.ReadTree(dir)
		if len(outs) > 0 {
			vh.Sample(map[string]any{"rendering": c.R, "features": feats, "re-emitted": vh.Trunc(tree[outs[0]], 1500)})
		}
	}
	if ok {
		return nil
	}
	v := fail("compile/"+progen.NormDiag(shape(first)), "Go re-emitted from the data model does not type-check against the source interface: %s", first)
	v.Observed += "\n--- go vet\n" + vh.Trunc(out, 4000)
	return v
}

var parenRe = regexp.MustCompile(`\([^()]*\)`)

func shape(s string) string {
	switch {
	case strings.Contains(s, "cannot use b ") || strings.Contains(s, "cannot use a "):
		if strings.Contains(s, "missing method") {
			return "mutual assignability: missing method"
		}
		if strings.Contains(s, "wrong type for method") {
			return "mutual assignability: wrong type for method"
		}
		return "mutual assignability"
	case strings.Contains(s, "does not satisfy"):
		return "re-emitted constraint rejects an admissible type argument"
	}
	return parenRe.ReplaceAllString(s, "()")
}

func reduce(c Case) []Case {
	var out []Case
	if c.R.Placement != "inpkg-test" {
		d := c
		d.R.Placement = "inpkg-test"
		out = append(out, d)
	}
	if c.R.Formatter != "noop" {
		d := c
		d.R.Formatter = "noop"
		out = append(out, d)
	}
	if c.R.All {
		d := c
		d.R.All = false
		out = append(out, d)
	}
	for _, m := range progen.Reductions(c.Mod) {
		out = append(out, Case{Mod: m, R: c.R})
	}
	return out
}

func TestProp(t *testing.T) {
	vh.Main(t, vh.Check[Case]{Gen: gen, Run: run, Reduce: reduce})
}

func genericArgs(it *progen.Iface) [][]progen.Ty {
	if len(it.TParams) == 0 {
		return nil
	}
	return progen.TypeArgs(it, 3)
}
