// C15 — name and import allocators offered to templates never produce collisions.
//
// A case is plain data: how the file registry is set up (in-package, external test package in the
// same directory, separate package), the signature of an earlier, the target and a later method
// (the generator builds one scope per method on the shared registry: AddVar for every parameter
// and result, then ResolveVariableNameCollisions for every method), and a drawn history of
// AllocateName / SuggestName / AddName / NameExists calls on the target method's scope and
// AddImport / Imports / PkgQualifier calls on the registry.
//
// Port "api": the history is executed in-process on template.Registry / template.MethodScope.
// Port "tmpl": the same history is rendered into a file:// template and executed by the real
// mockery binary on a scratch module whose source declares the same three methods; the template
// prints one line per call.
//
// Oracle: a set-based model that demands only what the property says (see judge).
package c15

import (
	"context"
	"fmt"
	"go/token"
	"go/types"
	"os"
	"path/filepath"
	"sort"
	"strconv"
	"strings"
	"testing"

	"github.com/vektra/mockery/v3/template"
	"golang.org/x/tools/go/packages"
	"pgregory.net/rapid"
	"verif/harness/vh"
)

// ---- case ---------------------------------------------------------------------------------------

type TypeSpec struct {
	K   string    `json:"k"`             // basic | named | ptr | slice | map
	N   string    `json:"n,omitempty"`   // basic: string int bool error unsafe.Pointer; named: type name
	P   string    `json:"p,omitempty"`   // named: package path
	E   *TypeSpec `json:"e,omitempty"`   // element
	Key *TypeSpec `json:"key,omitempty"` // map key
}

type VarSpec struct {
	Name string   `json:"name"` // "" = unnamed
	T    TypeSpec `json:"t"`
}

type MethodSpec struct {
	Params  []VarSpec `json:"params"`
	Results []VarSpec `json:"results"`
}

type Op struct {
	K   string `json:"k"`             // alloc suggest addname exists addimport imports pkgq
	A   string `json:"a,omitempty"`   // name / prefix / package name
	P   string `json:"p,omitempty"`   // import path
	Ref *int   `json:"ref,omitempty"` // name = string result of that earlier alloc/suggest op
}

type Case struct {
	Port   string      `json:"port"` // api | tmpl
	Mode   string      `json:"mode"` // in (in-package) | ext (same dir, other package name) | out (separate package)
	Prior  *MethodSpec `json:"prior,omitempty"`
	Target MethodSpec  `json:"target"`
	Later  *MethodSpec `json:"later,omitempty"`
	Ops    []Op        `json:"ops"`
}

const (
	modPath   = "example.com/m"
	srcPath   = "example.com/m/src"
	mocksPath = "example.com/m/mocks"
)

func (c Case) dstPath() string {
	if c.Mode == "out" {
		return mocksPath
	}
	return srcPath
}

// ownIn: AddImport of the file's own package while in-package. The registry documents that such
// imports are ignored; what the call returns is not fixed by the property (don't-care), only
// that it is the same every time.
func (c Case) ownIn(path string) bool { return c.Mode == "in" && path == srcPath }

// own: the file's own package in any mode. Besides ownIn this is the destination path of a
// separate mock package (mode out): a self-import no template has a reason to make. What AddImport
// returns for it is not demanded either (today: an ordinary import), only its consistency.
func (c Case) own(path string) bool { return c.ownIn(path) || (c.Mode == "out" && path == mocksPath) }

// ---- fixed tables ---------------------------------------------------------------------------------

type pkgInfo struct {
	Path, Name string
	Std        bool
	Types      []string
}

// packages whose types appear in method signatures. Same package name under different paths, a
// package name that differs from the last path element, names that look like allocator output
// (a1, http0) and names equal to prefixes the built-in templates allocate (ret).
var typePkgs = []pkgInfo{
	{"net/http", "http", true, []string{"Client", "Request"}},
	{"io", "io", true, []string{"Reader", "Writer"}},
	{"context", "context", true, []string{"Context"}},
	{"example.com/m/x/http", "http", false, []string{"Client", "T"}},
	{"example.com/m/y/http", "http", false, []string{"Client", "T"}},
	{"example.com/m/x/io", "io", false, []string{"Client", "T"}},
	{"example.com/m/y/ret", "ret", false, []string{"Client", "T"}},
	{"example.com/m/x/a", "a", false, []string{"Client", "T"}},
	{"example.com/m/x/a1", "a1", false, []string{"Client", "T"}},
	{"example.com/m/y/http0", "http0", false, []string{"Client", "T"}},
	{"example.com/m/z/nm", "othername", false, []string{"Client", "T"}},
	{srcPath, "src", false, []string{"Client", "T"}},
}

func typePkg(path string) *pkgInfo {
	for i := range typePkgs {
		if typePkgs[i].Path == path {
			return &typePkgs[i]
		}
	}
	return nil
}

// import paths a template may add, each with its one true (unaliased) package name: AddImport
// documents that pkgName must be the unaliased package name, so a path is always offered with
// the same name.
var importPool = []struct{ Path, Name string }{
	{"net/http", "http"}, {"example.com/m/x/http", "http"}, {"example.com/m/y/http", "http"}, {"example.com/q/http", "http"},
	{"example.com/m/y/http0", "http0"}, {"example.com/q/http0", "http0"}, {"example.com/q/http1", "http1"}, {"example.com/q/http00", "http00"},
	{"io", "io"}, {"example.com/m/x/io", "io"}, {"example.com/q/io0", "io0"},
	{"sync", "sync"}, {"example.com/q/sync", "sync"}, {"example.com/r/sync", "sync"}, {"example.com/q/sync0", "sync0"}, {"example.com/q/sync1", "sync1"},
	{"example.com/q/x", "x"}, {"example.com/r/x", "x"}, {"example.com/s/x", "x"}, {"example.com/q/x0", "x0"}, {"example.com/r/x0", "x0"},
	{"example.com/q/x1", "x1"}, {"example.com/q/x00", "x00"}, {"example.com/q/x01", "x01"},
	{"example.com/m/y/ret", "ret"}, {"example.com/m/x/a", "a"}, {"example.com/m/x/a1", "a1"}, {"example.com/m/z/nm", "othername"},
	{srcPath, "src"}, {mocksPath, "mocks"}, {"fmt", "fmt"}, {"context", "context"},
}

func importName(path string) string {
	for _, e := range importPool {
		if e.Path == path {
			return e.Name
		}
	}
	return ""
}

var importBases = []string{"http", "io", "sync", "x", "ret", "a", "src", "mocks", "fmt", "othername", "context"}

// identifiers for parameters and for scope operations
var nameBases = []string{"a", "ret", "http", "io", "x", "s", "n", "err", "src", "string", "error", "client", "t", "sync", "_m", "A"}

// prefixes of the drawn histories: a template may pass any string, also a Go keyword
var focusBases = append(append([]string{}, nameBases...), "type", "func", "range")
var nameSuffixes = []string{"", "", "", "1", "1", "2", "3", "0", "10", "11", "12", "01"}

// strings that are not identifiers but are made visible by AddVar (type strings); queried only
var typeStrings = []string{"[]string", "*http.Client", "http.Client", "http0.Client", "map[string]int", "io.Reader", "*T", "T", "unsafe.Pointer"}

// ---- generator ------------------------------------------------------------------------------------

func genType(t *rapid.T, depth int, label string) TypeSpec {
	k := rapid.IntRange(0, 9).Draw(t, label+"kind")
	if depth <= 0 && k >= 7 {
		k = k % 7
	}
	switch {
	case k <= 2:
		return TypeSpec{K: "basic", N: rapid.SampledFrom([]string{"string", "string", "int", "bool", "error", "error", "unsafe.Pointer"}).Draw(t, label+"basic")}
	case k <= 6:
		p := rapid.SampledFrom(typePkgs).Draw(t, label+"pkg")
		return TypeSpec{K: "named", P: p.Path, N: rapid.SampledFrom(p.Types).Draw(t, label+"tn")}
	case k == 7:
		e := genType(t, depth-1, label+"e")
		return TypeSpec{K: "ptr", E: &e}
	case k == 8:
		e := genType(t, depth-1, label+"e")
		return TypeSpec{K: "slice", E: &e}
	default:
		var key TypeSpec
		if rapid.Bool().Draw(t, label+"keynamed") {
			p := rapid.SampledFrom(typePkgs[3:]).Draw(t, label+"kpkg") // struct types: comparable
			key = TypeSpec{K: "named", P: p.Path, N: rapid.SampledFrom(p.Types).Draw(t, label+"ktn")}
		} else {
			key = TypeSpec{K: "basic", N: rapid.SampledFrom([]string{"string", "int"}).Draw(t, label+"kb")}
		}
		e := genType(t, depth-1, label+"e")
		return TypeSpec{K: "map", Key: &key, E: &e}
	}
}

func genIdent(t *rapid.T, label string) string {
	return rapid.SampledFrom(nameBases).Draw(t, label+"base") + rapid.SampledFrom(nameSuffixes).Draw(t, label+"suf")
}

// genMethod draws a legal Go signature: parameters all named or all unnamed, results likewise,
// named ones pairwise distinct (blank allowed repeatedly).
func genMethod(t *rapid.T, label string, maxP, maxR int) MethodSpec {
	var m MethodSpec
	used := map[string]bool{}
	group := func(n int, lab string) []VarSpec {
		named := rapid.IntRange(0, 3).Draw(t, lab+"named") > 0
		out := make([]VarSpec, 0, n)
		for i := 0; i < n; i++ {
			v := VarSpec{T: genType(t, 2, fmt.Sprintf("%s%d", lab, i))}
			if named {
				if rapid.IntRange(0, 7).Draw(t, lab+"blank") == 0 {
					v.Name = "_"
				} else {
					for try := 0; ; try++ {
						v.Name = genIdent(t, fmt.Sprintf("%s%dname", lab, i))
						if !used[v.Name] {
							break
						}
						if try > 8 {
							v.Name = fmt.Sprintf("p%d%s", len(used), lab[len(lab)-1:])
							break
						}
					}
					used[v.Name] = true
				}
			}
			out = append(out, v)
		}
		return out
	}
	m.Params = group(rapid.IntRange(0, maxP).Draw(t, label+"np"), label+"p")
	m.Results = group(rapid.IntRange(0, maxR).Draw(t, label+"nr"), label+"r")
	return m
}

func (m *MethodSpec) vars() []VarSpec {
	if m == nil {
		return nil
	}
	return append(append([]VarSpec{}, m.Params...), m.Results...)
}

func pkgNamesOf(ts TypeSpec, out map[string]bool) {
	if ts.K == "named" {
		if p := typePkg(ts.P); p != nil {
			out[p.Name] = true
		}
	}
	if ts.E != nil {
		pkgNamesOf(*ts.E, out)
	}
	if ts.Key != nil {
		pkgNamesOf(*ts.Key, out)
	}
}

func gen(t *rapid.T) Case {
	c := Case{Port: "api"}
	// about 1% (quick) / 0.7% (thorough) of the cases go through the real binary; rapid's integers
	// are biased towards the ends of a range, so interior values are used (measured, see classes)
	if v := rapid.IntRange(0, vh.Pick(100, 150)).Draw(t, "port"); v == 57 || v == 41 {
		c.Port = "tmpl"
	}
	if p := os.Getenv("C15_ONLY_PORT"); p == "api" || p == "tmpl" { // development aid (sensitivity runs of one port)
		c.Port = p
	}
	c.Mode = rapid.SampledFrom([]string{"in", "in", "ext", "out", "out"}).Draw(t, "mode")
	if rapid.IntRange(0, 2).Draw(t, "hasPrior") > 0 {
		m := genMethod(t, "prior", 3, 1)
		c.Prior = &m
	}
	c.Target = genMethod(t, "target", 4, 3)
	if rapid.IntRange(0, 2).Draw(t, "hasLater") == 0 {
		m := genMethod(t, "later", 2, 1)
		c.Later = &m
	}

	// the names this history concentrates on: a few bases with their digit-suffixed variants, the
	// target's own variable names and the package names its types use (all are identifiers)
	pool := map[string]bool{}
	for _, b := range rapid.SliceOfNDistinct(rapid.SampledFrom(focusBases), 1, 3, rapid.ID[string]).Draw(t, "focus") {
		for _, s := range []string{"", "1", "2", "3", "10", "11"} {
			pool[b+s] = true
		}
	}
	quals := map[string]bool{}
	for _, v := range c.Target.vars() {
		if v.Name != "" && v.Name != "_" {
			pool[v.Name] = true
			pool[v.Name+"1"] = true
		}
		pkgNamesOf(v.T, quals)
	}
	for _, v := range c.Prior.vars() {
		pkgNamesOf(v.T, quals)
	}
	for q := range quals {
		pool[q], pool[q+"0"], pool[q+"1"] = true, true, true
	}
	var names []string
	for n := range pool {
		names = append(names, n)
	}
	sort.Strings(names)

	ibases := rapid.SliceOfNDistinct(rapid.SampledFrom(importBases), 1, 3, rapid.ID[string]).Draw(t, "ifocus")
	var ipaths []string
	for _, e := range importPool {
		for _, b := range ibases {
			if strings.HasPrefix(e.Name, b) {
				ipaths = append(ipaths, e.Path)
				break
			}
		}
	}

	drawName := func(label string, idents bool) string {
		switch k := rapid.IntRange(0, 11).Draw(t, label+"src"); {
		case k == 0:
			return genIdent(t, label)
		case k == 1 && !idents:
			return rapid.SampledFrom(typeStrings).Draw(t, label+"ts")
		default:
			return rapid.SampledFrom(names).Draw(t, label)
		}
	}
	drawPath := func(label string) string {
		switch k := rapid.IntRange(0, 9).Draw(t, label+"src"); {
		case k == 0:
			return rapid.SampledFrom(importPool).Draw(t, label+"any").Path
		case k == 1:
			return c.dstPath()
		case k == 2:
			return srcPath
		default:
			return rapid.SampledFrom(ipaths).Draw(t, label)
		}
	}

	n := rapid.IntRange(1, 24).Draw(t, "nops")
	var stringOps []int        // indices of alloc/suggest ops
	imported := []string{}     // paths added by AddImport so far (not the ignored own package)
	seenImported := map[string]bool{}
	for i := 0; i < n; i++ {
		var op Op
		k := rapid.IntRange(0, 99).Draw(t, "opkind")
		switch {
		case k < 30:
			op.K = "alloc"
		case k < 42:
			op.K = "suggest"
		case k < 54:
			op.K = "addname"
		case k < 70:
			op.K = "exists"
		case k < 88:
			op.K = "addimport"
		case k < 94:
			op.K = "imports"
		default:
			op.K = "pkgq"
		}
		if c.Port == "tmpl" {
			// text/template cannot call a method without a return value, so AddName is not
			// reachable from a template; PkgQualifier on a path that is not imported aborts the
			// template run with the documented error, so it is only asked for added paths.
			if op.K == "addname" {
				op.K = "alloc"
			}
			if op.K == "pkgq" && len(imported) == 0 {
				op.K = "imports"
			}
		}
		switch op.K {
		case "alloc", "suggest", "addname", "exists":
			if len(stringOps) > 0 && rapid.IntRange(0, 6).Draw(t, "useref") == 0 {
				r := rapid.SampledFrom(stringOps).Draw(t, "ref")
				op.Ref = &r
			} else {
				op.A = drawName("name", op.K != "exists")
			}
			if op.K == "alloc" || op.K == "suggest" {
				stringOps = append(stringOps, i)
			}
		case "addimport":
			op.P = drawPath("path")
			op.A = importName(op.P)
			if !c.own(op.P) && !seenImported[op.P] {
				seenImported[op.P] = true
				imported = append(imported, op.P)
			}
		case "pkgq":
			if c.Port == "tmpl" || (len(imported) > 0 && rapid.IntRange(0, 3).Draw(t, "pkgqknown") > 0) {
				op.P = rapid.SampledFrom(imported).Draw(t, "qpath")
			} else {
				op.P = drawPath("qpath")
			}
		}
		c.Ops = append(c.Ops, op)
	}
	return c
}

// ---- expansion: the drawn history followed by a closing audit (ordinary calls) -------------------------

// expand appends, after the drawn history, queries that re-ask everything the history was told:
// every allocated and added name must still exist, every name once reported existing is asked
// again, every added import is added again and looked up, and the import list is taken once more.
func expand(c Case) []Op {
	e := append([]Op{}, c.Ops...)
	for i, op := range c.Ops {
		i := i
		switch op.K {
		case "alloc":
			e = append(e, Op{K: "exists", Ref: &i})
		case "addname", "exists":
			e = append(e, Op{K: "exists", A: op.A, Ref: op.Ref})
		}
	}
	seen := map[string]bool{}
	for _, op := range c.Ops {
		if op.K == "addimport" && !seen[op.P] {
			seen[op.P] = true
			e = append(e, Op{K: "addimport", A: op.A, P: op.P})
			if !c.own(op.P) {
				e = append(e, Op{K: "pkgq", P: op.P})
			}
		}
	}
	e = append(e, Op{K: "imports"})
	return e
}

// withoutSuggest removes every SuggestName call; names that referred to a suggestion are replaced
// by the string the suggestion had returned. idx maps positions of the result to positions of e.
func withoutSuggest(e []Op, r []Res) (out []Op, idx []int) {
	newIdx := map[int]int{}
	for i, op := range e {
		if op.K == "suggest" {
			continue
		}
		if op.Ref != nil {
			if e[*op.Ref].K == "suggest" {
				op.A, op.Ref = r[*op.Ref].S, nil
			} else {
				n := newIdx[*op.Ref]
				op.Ref = &n
			}
		}
		newIdx[i] = len(out)
		out = append(out, op)
		idx = append(idx, i)
	}
	return out, idx
}

// ---- results --------------------------------------------------------------------------------------

type Imp struct{ Path, Q string }

type Res struct {
	S      string // alloc/suggest: returned name; addimport/pkgq: qualifier
	B      bool   // exists
	Nil    bool   // addimport returned a nil *Package
	Path   string // addimport: Path() of the returned package
	Err    string // pkgq
	L      []Imp  // imports
	Before *bool  // alloc: NameExists(returned name) immediately before the call (nil = not observed)
	After  *bool  // alloc: NameExists(returned name) immediately after the call
}

func (r Res) String(k string) string {
	switch k {
	case "alloc":
		s := fmt.Sprintf("%q", r.S)
		if r.Before != nil {
			s += fmt.Sprintf(" existed-before=%v", *r.Before)
		}
		if r.After != nil {
			s += fmt.Sprintf(" exists-after=%v", *r.After)
		}
		return s
	case "suggest":
		return fmt.Sprintf("%q", r.S)
	case "exists":
		return fmt.Sprint(r.B)
	case "addimport":
		if r.Nil {
			return "nil"
		}
		return fmt.Sprintf("{path %q qualifier %q}", r.Path, r.S)
	case "pkgq":
		if r.Err != "" {
			return "error " + r.Err
		}
		return fmt.Sprintf("%q", r.S)
	case "imports":
		var p []string
		for _, i := range r.L {
			p = append(p, i.Q+"="+i.Path)
		}
		return "[" + strings.Join(p, " ") + "]"
	}
	return ""
}

func sameRes(k string, a, b Res) bool {
	pb := func(x, y *bool) bool { return (x == nil) == (y == nil) && (x == nil || *x == *y) }
	switch k {
	case "alloc":
		return a.S == b.S && pb(a.Before, b.Before) && pb(a.After, b.After)
	case "suggest", "pkgq":
		return a.S == b.S && (a.Err == "") == (b.Err == "")
	case "exists":
		return a.B == b.B
	case "addimport":
		return a.S == b.S && a.Nil == b.Nil && a.Path == b.Path
	case "imports":
		if len(a.L) != len(b.L) {
			return false
		}
		for i := range a.L {
			if a.L[i] != b.L[i] {
				return false
			}
		}
	}
	return true
}

func opName(e []Op, r []Res, i int) string {
	if e[i].Ref != nil {
		return r[*e[i].Ref].S
	}
	return e[i].A
}

func renderHistory(c Case, init []string, e []Op, r []Res) string {
	var b strings.Builder
	fmt.Fprintf(&b, "port=%s mode=%s dst=%s\ntarget variables after collision resolution: %v\n", c.Port, c.Mode, c.dstPath(), init)
	for i, op := range e {
		if i == len(c.Ops) {
			b.WriteString("-- closing audit\n")
		}
		if i >= len(r) {
			break
		}
		switch op.K {
		case "alloc":
			fmt.Fprintf(&b, "%3d AllocateName(%q) = %s\n", i, opName(e, r, i), r[i].String(op.K))
		case "suggest":
			fmt.Fprintf(&b, "%3d SuggestName(%q) = %s\n", i, opName(e, r, i), r[i].String(op.K))
		case "addname":
			fmt.Fprintf(&b, "%3d AddName(%q)\n", i, opName(e, r, i))
		case "exists":
			fmt.Fprintf(&b, "%3d NameExists(%q) = %s\n", i, opName(e, r, i), r[i].String(op.K))
		case "addimport":
			fmt.Fprintf(&b, "%3d AddImport(%q, %q) = %s\n", i, op.A, op.P, r[i].String(op.K))
		case "imports":
			fmt.Fprintf(&b, "%3d Imports() = %s\n", i, r[i].String(op.K))
		case "pkgq":
			fmt.Fprintf(&b, "%3d Imports().PkgQualifier(%q) = %s\n", i, op.P, r[i].String(op.K))
		}
	}
	return b.String()
}

// ---- port api: in-process ----------------------------------------------------------------------------

type world struct {
	reg   *template.Registry
	scope *template.MethodScope
	init  []string
}

type typeEnv struct {
	pkgs  map[string]*types.Package
	named map[string]*types.Named
}

func (te *typeEnv) pkg(path string) *types.Package {
	if p, ok := te.pkgs[path]; ok {
		return p
	}
	name := path[strings.LastIndex(path, "/")+1:]
	if pi := typePkg(path); pi != nil {
		name = pi.Name
	}
	p := types.NewPackage(path, name)
	te.pkgs[path] = p
	return p
}

func (te *typeEnv) typ(ts TypeSpec) types.Type {
	switch ts.K {
	case "basic":
		switch ts.N {
		case "string":
			return types.Typ[types.String]
		case "int":
			return types.Typ[types.Int]
		case "bool":
			return types.Typ[types.Bool]
		case "error":
			return types.Universe.Lookup("error").Type()
		case "unsafe.Pointer":
			return types.Typ[types.UnsafePointer]
		}
	case "named":
		key := ts.P + "." + ts.N
		if n, ok := te.named[key]; ok {
			return n
		}
		p := te.pkg(ts.P)
		tn := types.NewTypeName(token.NoPos, p, ts.N, nil)
		n := types.NewNamed(tn, types.NewStruct(nil, nil), nil)
		p.Scope().Insert(tn)
		te.named[key] = n
		return n
	case "ptr":
		return types.NewPointer(te.typ(*ts.E))
	case "slice":
		return types.NewSlice(te.typ(*ts.E))
	case "map":
		return types.NewMap(te.typ(*ts.Key), te.typ(*ts.E))
	}
	vh.Infra("bad type spec %+v", ts)
	return nil
}

// buildAPI sets the registry and the scopes up the way internal/template_generator.go does.
func buildAPI(c Case) *world {
	te := &typeEnv{pkgs: map[string]*types.Package{}, named: map[string]*types.Named{}}
	src := te.pkg(srcPath)
	srcPkg := &packages.Package{ID: srcPath, Name: "src", PkgPath: srcPath, Types: src}
	reg, err := template.NewRegistry(srcPkg, c.dstPath(), c.Mode == "in")
	if err != nil {
		vh.Infra("NewRegistry: %v", err)
	}
	ctx := context.Background()
	type built struct {
		sc   *template.MethodScope
		vars []*template.Var
	}
	var all []built
	var target built
	for i, ms := range []*MethodSpec{c.Prior, &c.Target, c.Later} {
		if ms == nil {
			continue
		}
		b := built{sc: reg.MethodScope()}
		for _, vs := range ms.vars() {
			v, err := b.sc.AddVar(ctx, types.NewParam(token.NoPos, src, vs.Name, te.typ(vs.T)), "", nil)
			if err != nil {
				vh.Infra("AddVar: %v", err)
			}
			b.vars = append(b.vars, v)
		}
		all = append(all, b)
		if i == 1 {
			target = b
		}
	}
	for _, b := range all {
		b.sc.ResolveVariableNameCollisions(ctx)
	}
	w := &world{reg: reg, scope: target.sc}
	for _, v := range target.vars {
		w.init = append(w.init, v.Name)
	}
	return w
}

func (w *world) apply(e []Op, r []Res, i int) Res {
	op := e[i]
	switch op.K {
	case "alloc":
		return Res{S: w.scope.AllocateName(opName(e, r, i))}
	case "suggest":
		return Res{S: w.scope.SuggestName(opName(e, r, i))}
	case "addname":
		w.scope.AddName(opName(e, r, i))
		return Res{}
	case "exists":
		return Res{B: w.scope.NameExists(opName(e, r, i))}
	case "addimport":
		p := w.reg.AddImport(op.A, op.P)
		if p == nil {
			return Res{Nil: true}
		}
		return Res{S: p.Qualifier(), Path: p.Path()}
	case "imports":
		var res Res
		for _, p := range w.reg.Imports() {
			res.L = append(res.L, Imp{Path: p.Path(), Q: p.Qualifier()})
		}
		return res
	case "pkgq":
		// the template-facing spelling is $.Imports.PkgQualifier, i.e. Data.Imports() = Registry.Imports()
		q, err := template.Data{Registry: w.reg}.Imports().PkgQualifier(op.P)
		if err != nil {
			return Res{Err: err.Error()}
		}
		return Res{S: q}
	}
	vh.Infra("bad op %+v", op)
	return Res{}
}

// execAPI runs the history. With twins, the visibility of every allocated name immediately before
// and after its allocation is observed on a second world that replays the same prefix, so that the
// primary run contains exactly the calls of the history.
func execAPI(c Case, e []Op, twins bool) (init []string, r []Res, diverged int) {
	w := buildAPI(c)
	r = make([]Res, len(e))
	for i := range e {
		r[i] = w.apply(e, r, i)
	}
	diverged = -1
	if twins {
		for i, op := range e {
			if op.K != "alloc" {
				continue
			}
			w2 := buildAPI(c)
			r2 := make([]Res, len(e))
			for j := 0; j < i; j++ {
				r2[j] = w2.apply(e, r2, j)
				a := r[j]
				a.Before, a.After = nil, nil // observed by other twins, not part of the call's result
				if !sameRes(e[j].K, a, r2[j]) && diverged < 0 {
					diverged = j
				}
			}
			before := w2.scope.NameExists(r[i].S)
			r2[i] = w2.apply(e, r2, i)
			if r2[i].S != r[i].S && diverged < 0 {
				diverged = i
			}
			after := w2.scope.NameExists(r[i].S)
			r[i].Before, r[i].After = &before, &after
		}
	}
	return w.init, r, diverged
}

// ---- port tmpl: the history inside a real template run -------------------------------------------------

const probeK = 12 // candidates probed before an allocation: prefix, prefix1 .. prefix12

func q(s string) string { return strconv.Quote(s) }

func genTemplate(e []Op) string {
	var b strings.Builder
	b.WriteString(`{{- range $i, $iface := .Interfaces }}{{ range $j, $m := $iface.Methods }}{{ if eq $m.Name "M1" }}{{ $s := $m.Scope -}}` + "\n")
	b.WriteString("#init{{ range $m.Params }}\t{{ .Var.Name }}{{ end }}{{ range $m.Returns }}\t{{ .Var.Name }}{{ end }}\n")
	for i, op := range e {
		name := q(op.A)
		if op.Ref != nil {
			name = fmt.Sprintf("$r%d", *op.Ref)
		}
		switch op.K {
		case "alloc":
			fmt.Fprintf(&b, "{{ $n%d := %s }}{{ $b%d := $s.NameExists $n%d }}", i, name, i, i)
			pre := fmt.Sprintf("{{ $b%d }}", i)
			for k := 1; k <= probeK; k++ {
				pre += fmt.Sprintf(",{{ $s.NameExists (printf \"%%s%d\" $n%d) }}", k, i)
			}
			fmt.Fprintf(&b, "#%d\tpre\t%s\n", i, pre)
			fmt.Fprintf(&b, "{{ $r%d := $s.AllocateName $n%d }}#%d\talloc\t{{ $n%d }}\t{{ $r%d }}\t{{ $s.NameExists $r%d }}\n", i, i, i, i, i, i)
		case "suggest":
			fmt.Fprintf(&b, "{{ $r%d := $s.SuggestName %s }}#%d\tsuggest\t{{ $r%d }}\n", i, name, i, i)
		case "exists":
			fmt.Fprintf(&b, "#%d\texists\t{{ $s.NameExists %s }}\n", i, name)
		case "addimport":
			fmt.Fprintf(&b, "{{ $p%d := $.Registry.AddImport %s %s }}#%d\taddimport\t{{ if $p%d }}pkg\t{{ $p%d.Path }}\t{{ $p%d.Qualifier }}{{ else }}nil{{ end }}\n", i, q(op.A), q(op.P), i, i, i, i)
		case "imports":
			fmt.Fprintf(&b, "#%d\timports{{ range $.Imports }}\t{{ .Path }}|{{ .Qualifier }}{{ end }}\n", i)
		case "pkgq":
			fmt.Fprintf(&b, "#%d\tpkgq\t{{ $.Imports.PkgQualifier %s }}\n", i, q(op.P))
		default:
			vh.Infra("op %q cannot be rendered into a template", op.K)
		}
	}
	b.WriteString("#end\n{{ end }}{{ end }}{{ end }}\n")
	return b.String()
}

func renderType(ts TypeSpec, alias map[string]string) string {
	switch ts.K {
	case "basic":
		return ts.N
	case "named":
		if ts.P == srcPath {
			return ts.N
		}
		return alias[ts.P] + "." + ts.N
	case "ptr":
		return "*" + renderType(*ts.E, alias)
	case "slice":
		return "[]" + renderType(*ts.E, alias)
	case "map":
		return "map[" + renderType(*ts.Key, alias) + "]" + renderType(*ts.E, alias)
	}
	return "?"
}

func collectPaths(ts TypeSpec, out map[string]bool) {
	if ts.K == "named" && ts.P != srcPath {
		out[ts.P] = true
	}
	if ts.K == "basic" && ts.N == "unsafe.Pointer" {
		out["unsafe"] = true
	}
	if ts.E != nil {
		collectPaths(*ts.E, out)
	}
	if ts.Key != nil {
		collectPaths(*ts.Key, out)
	}
}

func genModule(c Case) map[string]string {
	files := map[string]string{}
	for _, p := range typePkgs {
		if p.Std || p.Path == srcPath {
			continue
		}
		var b strings.Builder
		fmt.Fprintf(&b, "package %s\n\n", p.Name)
		for _, tn := range p.Types {
			fmt.Fprintf(&b, "type %s struct{}\n", tn)
		}
		files[strings.TrimPrefix(p.Path, modPath+"/")+"/p.go"] = b.String()
	}
	used := map[string]bool{}
	for _, ms := range []*MethodSpec{c.Prior, &c.Target, c.Later} {
		for _, v := range ms.vars() {
			collectPaths(v.T, used)
		}
	}
	var paths []string
	for p := range used {
		paths = append(paths, p)
	}
	sort.Strings(paths)
	alias := map[string]string{"unsafe": "unsafe"}
	var b strings.Builder
	b.WriteString("package src\n\n")
	if len(paths) > 0 {
		b.WriteString("import (\n")
		for i, p := range paths {
			if p == "unsafe" {
				b.WriteString("\t\"unsafe\"\n")
				continue
			}
			alias[p] = fmt.Sprintf("imp%d", i) // source-file aliases must not matter to mockery
			fmt.Fprintf(&b, "\t%s %q\n", alias[p], p)
		}
		b.WriteString(")\n\n")
	}
	b.WriteString("type T struct{}\n\ntype Client struct{}\n\ntype I interface {\n")
	for i, ms := range []*MethodSpec{c.Prior, &c.Target, c.Later} {
		if ms == nil {
			continue
		}
		group := func(vs []VarSpec) string {
			var parts []string
			for _, v := range vs {
				s := renderType(v.T, alias)
				if v.Name != "" {
					s = v.Name + " " + s
				}
				parts = append(parts, s)
			}
			return "(" + strings.Join(parts, ", ") + ")"
		}
		fmt.Fprintf(&b, "\tM%d%s %s\n", i, group(ms.Params), group(ms.Results))
	}
	b.WriteString("}\n")
	files["src/src.go"] = b.String()
	return files
}

func mockeryConfig(c Case, root, templ, outName string) string {
	dir, pkgname := "{{.InterfaceDir}}", "src"
	switch c.Mode {
	case "ext":
		pkgname = "src_test"
	case "out":
		dir, pkgname = "mocks", "mocks"
	}
	return fmt.Sprintf(`dir: %q
filename: %s
pkgname: %s
template: "file://%s"
require-template-schema-exists: false
formatter: noop
force-file-write: true
log-level: error
packages:
  %s:
    interfaces:
      I:
`, dir, outName, pkgname, filepath.Join(root, templ), srcPath)
}

type tmplRun struct {
	init  []string
	r     []Res
	fail  string // "" | panic | unknown-import | other
	res   vh.Result
	files map[string]string
}

func runTemplate(c Case, root string, e []Op, tag string) tmplRun {
	templ, cfg, outName := "probe"+tag+".templ", "mockery"+tag+".yml", "out"+tag+".txt"
	files := map[string]string{templ: genTemplate(e), cfg: mockeryConfig(c, root, templ, outName)}
	vh.WriteFiles(root, files)
	res := vh.Mockery(root, nil, "--config", filepath.Join(root, cfg))
	tr := tmplRun{res: res, files: files}
	if res.TimedOut {
		vh.Infra("mockery timed out")
	}
	if res.Exit != 0 {
		switch {
		case res.Panicked():
			tr.fail = "panic"
		case strings.Contains(res.Both(), "unknown import"):
			tr.fail = "unknown-import"
		default:
			vh.Infra("mockery failed on the history probe (exit %d): %s", res.Exit, vh.Trunc(res.Both(), 1500))
		}
		return tr
	}
	outDir := "src"
	if c.Mode == "out" {
		outDir = "mocks"
	}
	b, err := os.ReadFile(filepath.Join(root, outDir, outName))
	if err != nil {
		vh.Infra("probe output missing: %v; %s", err, vh.Trunc(res.Both(), 800))
	}
	tr.r = make([]Res, len(e))
	got := make([]bool, len(e))
	pre := map[int][]bool{}
	ended := false
	for _, ln := range strings.Split(string(b), "\n") {
		if !strings.HasPrefix(ln, "#") {
			continue
		}
		f := strings.Split(ln[1:], "\t")
		if f[0] == "init" {
			tr.init = append([]string{}, f[1:]...)
			continue
		}
		if f[0] == "end" {
			ended = true
			continue
		}
		i, err := strconv.Atoi(f[0])
		if err != nil || i < 0 || i >= len(e) || len(f) < 2 {
			vh.Infra("unparsable probe line %q", ln)
		}
		pb := func(s string) bool {
			if s != "true" && s != "false" {
				vh.Infra("unparsable bool %q in probe line %q", s, ln)
			}
			return s == "true"
		}
		need := func(n int) {
			if len(f) < n {
				vh.Infra("short probe line %q", ln)
			}
		}
		switch f[1] {
		case "pre":
			need(3)
			for _, s := range strings.Split(f[2], ",") {
				pre[i] = append(pre[i], pb(s))
			}
			continue
		case "alloc":
			need(5)
			prefix, r := f[2], f[3]
			after := pb(f[4])
			tr.r[i] = Res{S: r, After: &after}
			for k := 0; k <= probeK && k < len(pre[i]); k++ {
				cand := prefix
				if k > 0 {
					cand = prefix + strconv.Itoa(k)
				}
				if cand == r {
					before := pre[i][k]
					tr.r[i].Before = &before
					break
				}
			}
		case "suggest":
			need(3)
			tr.r[i] = Res{S: f[2]}
		case "exists":
			need(3)
			tr.r[i] = Res{B: pb(f[2])}
		case "addimport":
			need(3)
			if f[2] == "nil" {
				tr.r[i] = Res{Nil: true}
			} else {
				need(5)
				tr.r[i] = Res{Path: f[3], S: f[4]}
			}
		case "imports":
			for _, it := range f[2:] {
				k := strings.LastIndex(it, "|")
				if k < 0 {
					vh.Infra("unparsable import item %q", it)
				}
				tr.r[i].L = append(tr.r[i].L, Imp{Path: it[:k], Q: it[k+1:]})
			}
		case "pkgq":
			need(3)
			tr.r[i] = Res{S: f[2]}
		default:
			vh.Infra("unknown probe line %q", ln)
		}
		got[i] = true
	}
	if !ended {
		vh.Infra("probe output has no #end marker (method M1 not rendered?):\n%s", vh.Trunc(string(b), 800))
	}
	for i := range e {
		if !got[i] {
			vh.Infra("probe output lacks a line for call %d (%s)", i, e[i].K)
		}
	}
	return tr
}

// ---- oracle ----------------------------------------------------------------------------------------

type verdict struct{ key, msg string }

// judge demands exactly what the property states:
//   - a name returned by AllocateName differs from every name visible before in the scope: the
//     method's own (resolved) parameter and result names, every name passed to AddName, every name
//     NameExists has reported as existing, every earlier allocation; NameExists(name) was false
//     immediately before the call and is true immediately after;
//   - a name reported as existing (or added, or allocated) is never afterwards reported missing;
//   - AddImport gives the same qualifier for the same path every time, a qualifier different from
//     that of every other imported path, and Imports()/PkgQualifier agree with it;
//   - Imports() is strictly ascending by path (sorted, each path once) and has no duplicate qualifier.
//
// It does not demand any particular spelling of allocated names or aliases, nor that AddName'd
// names are distinct, nor that import qualifiers avoid names of some method scope. (That
// SuggestName has no effect is checked separately by re-running the history without it.)
func judge(c Case, e []Op, r []Res, init []string) *verdict {
	params := map[string]bool{}
	for _, n := range init {
		params[n] = true
	}
	known := map[string]string{} // name -> how it became visible
	qual := map[string]string{}  // path -> qualifier, as first returned or listed
	var ownNil *bool
	otherWith := func(path, qlf string) string {
		var ps []string
		for p, q2 := range qual {
			if p != path && q2 == qlf {
				ps = append(ps, p)
			}
		}
		sort.Strings(ps)
		if len(ps) > 0 {
			return ps[0]
		}
		return ""
	}
	for i, op := range e {
		switch op.K {
		case "alloc":
			name := r[i].S
			if how, ok := known[name]; ok {
				return &verdict{"alloc-returned-visible-name", fmt.Sprintf("call %d: AllocateName(%q) returned %q, which was already visible in the scope (%s)", i, opName(e, r, i), name, how)}
			}
			if params[name] {
				return &verdict{"alloc-returned-param-name", fmt.Sprintf("call %d: AllocateName(%q) returned %q, the name of one of the method's own variables %v", i, opName(e, r, i), name, init)}
			}
			if r[i].Before != nil && *r[i].Before {
				return &verdict{"alloc-name-existed-before", fmt.Sprintf("call %d: AllocateName(%q) returned %q although NameExists(%q) was true immediately before the call", i, opName(e, r, i), name, name)}
			}
			if r[i].After != nil && !*r[i].After {
				return &verdict{"alloc-name-not-visible-after", fmt.Sprintf("call %d: AllocateName(%q) returned %q but NameExists(%q) is false immediately after the call", i, opName(e, r, i), name, name)}
			}
			if r[i].Before == nil {
				vh.DontCare(c.Port + "/alloc-result-outside-probed-candidates")
			}
			known[name] = fmt.Sprintf("allocated by call %d", i)
		case "addname":
			if n := opName(e, r, i); known[n] == "" {
				known[n] = fmt.Sprintf("added by call %d", i)
			}
		case "exists":
			n := opName(e, r, i)
			if how, ok := known[n]; ok && !r[i].B {
				return &verdict{"exists-went-false", fmt.Sprintf("call %d: NameExists(%q) = false although the name was visible before (%s)", i, n, how)}
			}
			if r[i].B && known[n] == "" {
				known[n] = fmt.Sprintf("reported existing by call %d", i)
			}
		case "addimport":
			own := c.own(op.P)
			if r[i].Nil {
				if !own {
					return &verdict{"addimport-returned-nil", fmt.Sprintf("call %d: AddImport(%q, %q) returned nil", i, op.A, op.P)}
				}
				vh.DontCare(c.Port + "/addimport-own-package=nil")
			}
			if own {
				if ownNil != nil && *ownNil != r[i].Nil {
					return &verdict{"addimport-own-package-inconsistent", fmt.Sprintf("call %d: AddImport of the file's own package returned nil=%v, earlier nil=%v", i, r[i].Nil, *ownNil)}
				}
				isNil := r[i].Nil
				ownNil = &isNil
				if isNil {
					continue
				}
			}
			if r[i].Path != op.P {
				return &verdict{"addimport-returned-other-path", fmt.Sprintf("call %d: AddImport(%q, %q) returned a package with path %q", i, op.A, op.P, r[i].Path)}
			}
			if prev, ok := qual[op.P]; ok {
				if prev != r[i].S {
					return &verdict{"addimport-qualifier-changed-for-same-path", fmt.Sprintf("call %d: AddImport(%q, %q) returned qualifier %q, the same path had qualifier %q before", i, op.A, op.P, r[i].S, prev)}
				}
			} else {
				if o := otherWith(op.P, r[i].S); o != "" {
					return &verdict{"addimport-duplicate-qualifier", fmt.Sprintf("call %d: AddImport(%q, %q) returned qualifier %q, which is already the qualifier of %q", i, op.A, op.P, r[i].S, o)}
				}
				qual[op.P] = r[i].S
			}
		case "imports":
			l := r[i].L
			byQ := map[string]string{}
			listed := map[string]bool{}
			for k, it := range l {
				if k > 0 && l[k-1].Path == it.Path {
					return &verdict{"imports-duplicate-path", fmt.Sprintf("call %d: Imports() lists %q twice: %s", i, it.Path, r[i].String("imports"))}
				}
				if k > 0 && l[k-1].Path > it.Path {
					return &verdict{"imports-not-sorted-by-path", fmt.Sprintf("call %d: Imports() is not ascending by path (%q before %q): %s", i, l[k-1].Path, it.Path, r[i].String("imports"))}
				}
				if o, dup := byQ[it.Q]; dup {
					return &verdict{"imports-duplicate-qualifier", fmt.Sprintf("call %d: Imports() lists qualifier %q for both %q and %q", i, it.Q, o, it.Path)}
				}
				byQ[it.Q] = it.Path
				listed[it.Path] = true
				if c.ownIn(it.Path) {
					continue
				}
				if prev, ok := qual[it.Path]; ok {
					if prev != it.Q {
						return &verdict{"imports-qualifier-changed-for-same-path", fmt.Sprintf("call %d: Imports() lists %q with qualifier %q, it had qualifier %q before", i, it.Path, it.Q, prev)}
					}
				} else {
					qual[it.Path] = it.Q // imported on behalf of the methods' types
				}
			}
			var missing []string
			for p := range qual {
				if !listed[p] {
					missing = append(missing, p)
				}
			}
			sort.Strings(missing)
			if len(missing) > 0 {
				return &verdict{"imports-missing-path", fmt.Sprintf("call %d: Imports() lacks %q, which was imported before: %s", i, missing[0], r[i].String("imports"))}
			}
		case "pkgq":
			if c.ownIn(op.P) {
				vh.DontCare(c.Port + "/pkgqualifier-own-package-in-package")
				continue
			}
			if prev, ok := qual[op.P]; ok {
				if r[i].Err != "" {
					return &verdict{"pkgqualifier-unknown-for-imported-path", fmt.Sprintf("call %d: PkgQualifier(%q) failed (%s) although the path is imported with qualifier %q", i, op.P, r[i].Err, prev)}
				}
				if r[i].S != prev {
					return &verdict{"pkgqualifier-disagrees", fmt.Sprintf("call %d: PkgQualifier(%q) = %q, but the import has qualifier %q", i, op.P, r[i].S, prev)}
				}
			} else if r[i].Err == "" {
				if o := otherWith(op.P, r[i].S); o != "" {
					return &verdict{"pkgqualifier-duplicate-qualifier", fmt.Sprintf("call %d: PkgQualifier(%q) = %q, which is the qualifier of %q", i, op.P, r[i].S, o)}
				}
				qual[op.P] = r[i].S
			}
		}
	}
	return nil
}

// ---- classification ----------------------------------------------------------------------------------

func classify(c Case, e []Op, r []Res, init []string) (fp string, cl []string) {
	set := map[string]bool{}
	add := func(s string) { set[s] = true }
	add("port=" + c.Port)
	add("mode=" + c.Mode)
	add(c.Port + "/mode=" + c.Mode)
	if c.Prior != nil {
		add("scope=earlier-method-on-registry")
	}
	if c.Later != nil {
		add("scope=later-method-on-registry")
	}
	quals := map[string]bool{}
	for _, ms := range []*MethodSpec{c.Prior, &c.Target, c.Later} {
		for _, v := range ms.vars() {
			pkgNamesOf(v.T, quals)
		}
	}
	tv := c.Target.vars()
	for k, v := range tv {
		switch {
		case v.Name == "":
			add("var=unnamed")
		case v.Name == "_":
			add("var=blank")
		case k < len(init) && init[k] != v.Name:
			add("var=renamed-by-collision-resolution")
			if quals[v.Name] {
				add("var=named-like-package-qualifier")
			}
		}
		switch v.T.K {
		case "named":
			add("vartype=named")
			if v.T.P == srcPath {
				add("vartype=own-package")
			}
		case "basic":
			add("vartype=basic")
		default:
			add("vartype=" + v.T.K)
		}
	}
	if len(tv) == 0 {
		add("var=none")
	}
	firstName := map[string]string{} // package name -> first path
	pathSeen := map[string]bool{}
	collisionAt := -1
	for i, op := range c.Ops {
		add("op=" + op.K)
		if op.Ref != nil {
			add("op=" + op.K + "(earlier result)")
		}
		switch op.K {
		case "alloc":
			pfx := opName(e, r, i)
			switch {
			case r[i].S == pfx:
				add("alloc=prefix-free")
			case r[i].S == pfx+"1":
				add("alloc=suffix-1")
				if collisionAt < 0 {
					collisionAt = i
				}
			default:
				add("alloc=suffix>=2")
				if collisionAt < 0 {
					collisionAt = i
				}
			}
			for _, n := range init {
				if n == pfx {
					add("alloc=prefix-is-own-variable")
				}
			}
			if quals[pfx] {
				add("alloc=prefix-is-package-name")
			}
		case "suggest":
			if r[i].S != opName(e, r, i) {
				add("suggest=suffixed")
			}
		case "exists":
			add(fmt.Sprintf("exists=%v", r[i].B))
		case "addimport":
			switch {
			case c.ownIn(op.P):
				add("import=own-package-in-package")
			case op.P == c.dstPath():
				add("import=destination-path-not-in-package")
			}
			if pathSeen[op.P] {
				add("import=same-path-again")
			} else if !r[i].Nil {
				if r[i].S != op.A {
					add("import=aliased")
					if collisionAt < 0 {
						collisionAt = i
					}
				}
				if fpth, ok := firstName[op.A]; ok && fpth != op.P {
					add("import=same-name-other-path")
				}
				if n := len(op.A); n > 1 && op.A[n-1] >= '0' && op.A[n-1] <= '9' {
					add("import=name-looks-like-alias")
				}
			}
			pathSeen[op.P] = true
			if _, ok := firstName[op.A]; !ok {
				firstName[op.A] = op.P
			}
		case "pkgq":
			if r[i].Err != "" {
				add("pkgq=unknown-path")
			} else {
				add("pkgq=known-path")
			}
		case "imports":
			if len(r[i].L) >= 3 {
				add("imports=3+entries")
			}
		}
	}
	nt := false
	if collisionAt >= 0 {
		for j := collisionAt + 1; j < len(c.Ops); j++ {
			if c.Ops[j].K != "addname" {
				nt = true
			}
		}
	}
	if nt {
		add("nontrivial")
		fp = vh.Hash(vh.JSON(c))
	}
	for k := range set {
		cl = append(cl, k)
	}
	sort.Strings(cl)
	return fp, cl
}

// ---- property body -----------------------------------------------------------------------------------

func validate(c Case) {
	if c.Port != "api" && c.Port != "tmpl" {
		vh.Infra("bad port %q", c.Port)
	}
	if c.Mode != "in" && c.Mode != "ext" && c.Mode != "out" {
		vh.Infra("bad mode %q", c.Mode)
	}
	for i, op := range c.Ops {
		if op.Ref != nil && (*op.Ref < 0 || *op.Ref >= i || (c.Ops[*op.Ref].K != "alloc" && c.Ops[*op.Ref].K != "suggest")) {
			vh.Infra("bad ref in op %d", i)
		}
		if c.Port == "tmpl" && op.K == "addname" {
			vh.Infra("AddName cannot be called from a template")
		}
	}
}

func run(c Case) *vh.Violation {
	validate(c)
	e := expand(c)
	var (
		init    []string
		r       []Res
		files   map[string]string
		root    string
		extra   string
		hasSugg bool
	)
	for _, op := range e {
		hasSugg = hasSugg || op.K == "suggest"
	}
	fail := func(key, msg string) *vh.Violation {
		return vh.Violate(c.Port+"/"+key, "%s", msg).With(files, renderHistory(c, init, e, r)+extra)
	}

	if c.Port == "api" {
		var div int
		init, r, div = execAPI(c, e, true)
		fp, cl := classify(c, e, r, init)
		vh.Count(fp, cl...)
		if fp != "" && vh.NeedSample() {
			vh.Sample(map[string]any{"case": c, "history": strings.Split(strings.TrimSpace(renderHistory(c, init, e, r)), "\n")})
		}
		if div >= 0 {
			return fail("replay-diverged", fmt.Sprintf("re-running the same history on a fresh registry gave a different result at call %d (%s)", div, e[div].K))
		}
	} else {
		root = vh.NewScratch()
		defer vh.RemoveAll(root)
		vh.NewModule(root, modPath)
		files = genModule(c)
		vh.WriteFiles(root, files)
		tr := runTemplate(c, root, e, "")
		for k, v := range tr.files {
			files[k] = v
		}
		init, r = tr.init, tr.r
		if tr.fail != "" {
			fp, cl := "", []string{"port=tmpl", "tmpl=run-failed"}
			vh.Count(fp, cl...)
			extra = "\n--- mockery exit " + strconv.Itoa(tr.res.Exit) + "\n" + vh.Trunc(tr.res.Both(), 3000)
			if tr.fail == "panic" {
				return fail("panic", "mockery panicked while executing the history template")
			}
			return fail("pkgqualifier-unknown-for-imported-path", "the template run failed with 'unknown import' although PkgQualifier was only asked for paths added by AddImport before")
		}
		fp, cl := classify(c, e, r, init)
		vh.Count(fp, cl...)
		if fp != "" && vh.NeedSample() {
			vh.Sample(map[string]any{"case": c, "history": strings.Split(strings.TrimSpace(renderHistory(c, init, e, r)), "\n")})
		}
		if want := len(c.Target.vars()); len(init) != want {
			vh.Infra("probe printed %d variable names for %d variables", len(init), want)
		}
	}

	if v := judge(c, e, r, init); v != nil {
		return fail(v.key, v.msg)
	}

	// SuggestName must not change any later result: same history without the suggestions
	if hasSugg {
		e2, idx := withoutSuggest(e, r)
		var r2 []Res
		if c.Port == "api" {
			_, r2, _ = execAPI(c, e2, true)
		} else {
			tr := runTemplate(c, root, e2, "2")
			for k, v := range tr.files {
				files[k] = v
			}
			if tr.fail != "" {
				extra = "\n--- second run (SuggestName calls removed): mockery exit " + strconv.Itoa(tr.res.Exit) + "\n" + vh.Trunc(tr.res.Both(), 3000)
				return fail("suggest-changed-later-result/run-failed", "the history without its SuggestName calls fails ("+tr.fail+") while the history with them succeeded")
			}
			r2 = tr.r
		}
		for j, i := range idx {
			if !sameRes(e[i].K, r[i], r2[j]) {
				extra = "\n--- the same history with the SuggestName calls removed\n" + renderHistory(Case{Port: c.Port, Mode: c.Mode, Ops: e2}, init, e2, r2)
				return fail("suggest-changed-later-result/"+e[i].K, fmt.Sprintf("call %d (%s) returns %s in the history with SuggestName calls and %s in the same history without them", i, e[i].K, r[i].String(e[i].K), r2[j].String(e[i].K)))
			}
		}
		vh.Class("metamorphic=suggest-removed")
	}
	return nil
}

func TestProp(t *testing.T) {
	vh.Main(t, vh.Check[Case]{Gen: gen, Run: run})
}

// FuzzProp: the same generator and oracle under Go's native coverage-guided fuzzer (thorough tier).
func FuzzProp(f *testing.F) {
	vh.FuzzMain(f, vh.Check[Case]{Gen: gen, Run: run})
}
