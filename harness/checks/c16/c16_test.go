// C16 — the template function library matches its documented semantics on all inputs.
//
// Every entry of template_funcs.FuncMap is applied, through text/template (so the
// documented pipeline argument order is what is exercised), to generated argument
// tuples and compared with a reference written from the documentation: the stdlib
// namesake with the subject last, folded Go integer arithmetic, and checkable laws for
// the case functions.
package c16

import (
	"bytes"
	"fmt"
	"math"
	"os"
	"path/filepath"
	"reflect"
	"regexp"
	"sort"
	"strings"
	"testing"
	"text/template"
	"unicode"
	"unicode/utf8"

	"github.com/vektra/mockery/v3/template_funcs"
	"pgregory.net/rapid"
	"verif/harness/vh"
)

type Arg struct {
	K string   `json:"k"` // s string, i int, f float, l []string
	S []byte   `json:"s,omitempty"`
	I int      `json:"i,omitempty"`
	F float64  `json:"f,omitempty"`
	L [][]byte `json:"l,omitempty"`
}

func (a Arg) val() any {
	switch a.K {
	case "s":
		return string(a.S)
	case "i":
		return a.I
	case "f":
		return a.F
	case "l":
		l := make([]string, len(a.L))
		for i, b := range a.L {
			l[i] = string(b)
		}
		return l
	}
	return nil
}

type Case struct {
	Fn   string `json:"fn"`
	Args []Arg  `json:"args"`
	Pipe bool   `json:"pipe"` // pass the last argument through a pipeline: {{ .last | fn .a0 .a1 }}
}

// signature table, written from the documented function list (docs/template/index.md links to
// the FuncMap godoc); the check also fails if FuncMap has an entry this table does not know.
var sigs = map[string]string{
	"contains": "ss", "hasPrefix": "ss", "hasSuffix": "ss", "join": "sl", "replace": "ssis", "replaceAll": "sss",
	"split": "ss", "splitAfter": "ss", "splitAfterN": "sis", "trim": "ss", "trimLeft": "ss", "trimPrefix": "ss",
	"trimRight": "ss", "trimSpace": "s", "trimSuffix": "ss", "lower": "s", "upper": "s", "camelcase": "s",
	"snakecase": "s", "kebabcase": "s", "firstIsLower": "s", "firstLower": "s", "firstUpper": "s", "exported": "s",
	"matchString": "ss", "quoteMeta": "s", "base": "s", "clean": "s", "dir": "s", "readFile": "s",
	"expandEnv": "s", "getenv": "s",
	"add": "i+", "sub": "i+", "mul": "i+", "div": "i+", "mod": "i+", "min": "i*", "incr": "i", "decr": "i",
	"ceil": "f", "floor": "f", "round": "f", "randInt": "",
}

var fnNames = func() []string {
	var n []string
	for k := range sigs {
		n = append(n, k)
	}
	sort.Strings(n)
	return n
}()

var pieces = []string{
	"", "a", "b", "A", "Z", "foo", "Bar", "fooBar", "HTTP", "id", "Id", "url", "x1", "9", " ", "  ", "\t", "\n",
	"/", "//", "\\", ".", "..", "-", "_", "__", ",", ":", "$", "${", "}", "$VCHECK_C16", "${VCHECK_C16}", "*", "+", "(", ")", "[", "]", "^", "|", "?",
	"é", "É", "ß", "世", "界", "ǆ", "ǅ", "Ǆ", "e\u0301", "\u0301", "ı", "İ", "ａ", "Ａ", "𝒜", "😀", "\u00a0", "\u2003", "\ufeff",
	"\xff", "\xc3", "\xe4\xb8", "\x00", "\x80",
}

var readable, unreadable string

func init() {
	os.Setenv("VCHECK_C16", "envval")
	d := vh.ScratchRoot()
	readable = filepath.Join(d, "c16-readable.txt")
	_ = os.WriteFile(readable, []byte("file content\nline 2\n"), 0o644)
	unreadable = filepath.Join(d, "c16-missing.txt")
}

func genString(t *rapid.T, label string) []byte {
	switch rapid.IntRange(0, 9).Draw(t, label+"kind") {
	case 0:
		return []byte(rapid.String().Draw(t, label))
	case 1:
		return rapid.SliceOfN(rapid.Byte(), 0, 6).Draw(t, label)
	case 2:
		ws := rapid.SliceOfN(rapid.StringMatching(`[a-z]{1,4}`), 1, 4).Draw(t, label+"w")
		return []byte(strings.Join(ws, rapid.SampledFrom([]string{"_", "-", " "}).Draw(t, label+"sep")))
	default:
		ps := rapid.SliceOfN(rapid.SampledFrom(pieces), 0, 5).Draw(t, label)
		return []byte(strings.Join(ps, ""))
	}
}

var ints = []int{0, 1, -1, 2, -2, 3, 7, 10, 100, -100, math.MaxInt, math.MinInt, math.MaxInt - 1, math.MinInt + 1, math.MaxInt32, math.MinInt32}

func genInt(t *rapid.T, label string) int {
	if rapid.Bool().Draw(t, label+"pool") {
		return rapid.SampledFrom(ints).Draw(t, label)
	}
	return rapid.IntRange(-20, 20).Draw(t, label)
}

var floats = []float64{0, math.Copysign(0, -1), 0.5, -0.5, 1.4, 1.5, 1.6, 2.5, -2.5, 1e300, -1e300, math.MaxFloat64, math.SmallestNonzeroFloat64, math.Inf(1), math.Inf(-1)}

func gen(t *rapid.T) Case {
	c := Case{Fn: rapid.SampledFrom(fnNames).Draw(t, "fn")}
	sig := sigs[c.Fn]
	switch sig {
	case "i+", "i*":
		lo := 1
		if sig == "i*" {
			lo = 0
		}
		n := rapid.IntRange(lo, 5).Draw(t, "n")
		for i := 0; i < n; i++ {
			c.Args = append(c.Args, Arg{K: "i", I: genInt(t, fmt.Sprintf("i%d", i))})
		}
	default:
		for i, k := range sig {
			switch k {
			case 's':
				s := genString(t, fmt.Sprintf("s%d", i))
				if c.Fn == "readFile" {
					s = []byte(rapid.SampledFrom([]string{"", readable, unreadable, string(s)}).Draw(t, "path"))
				}
				c.Args = append(c.Args, Arg{K: "s", S: s})
			case 'i':
				c.Args = append(c.Args, Arg{K: "i", I: genInt(t, fmt.Sprintf("i%d", i))})
			case 'f':
				f := rapid.SampledFrom(floats).Draw(t, "fpool")
				if rapid.Bool().Draw(t, "frand") {
					f = rapid.Float64Range(-1e6, 1e6).Draw(t, "f")
				}
				c.Args = append(c.Args, Arg{K: "f", F: f})
			case 'l':
				n := rapid.IntRange(0, 4).Draw(t, "ln")
				a := Arg{K: "l", L: [][]byte{}}
				for j := 0; j < n; j++ {
					a.L = append(a.L, genString(t, fmt.Sprintf("l%d", j)))
				}
				c.Args = append(c.Args, a)
			}
		}
	}
	c.Pipe = len(c.Args) > 0 && rapid.Bool().Draw(t, "pipe")
	return c
}

// apply evaluates the application through text/template with the real FuncMap.
func apply(c Case) (got any, err error, crashed any) {
	defer func() {
		if r := recover(); r != nil {
			crashed = r
		}
	}()
	fm := template.FuncMap{}
	for k, v := range template_funcs.FuncMap {
		fm[k] = v
	}
	var captured any
	fm["vcapture"] = func(v any) string { captured = v; return "" }
	data := map[string]any{}
	var names []string
	for i, a := range c.Args {
		n := fmt.Sprintf("A%d", i)
		data[n] = a.val()
		names = append(names, "."+n)
	}
	var text string
	if c.Pipe {
		text = fmt.Sprintf("{{ vcapture (%s | %s %s) }}", names[len(names)-1], c.Fn, strings.Join(names[:len(names)-1], " "))
	} else {
		text = fmt.Sprintf("{{ vcapture (%s %s) }}", c.Fn, strings.Join(names, " "))
	}
	tm, perr := template.New("t").Funcs(fm).Parse(text)
	if perr != nil {
		return nil, fmt.Errorf("parse: %w", perr), nil
	}
	var buf bytes.Buffer
	if eerr := tm.Execute(&buf, data); eerr != nil {
		return nil, eerr, nil
	}
	return captured, nil, nil
}

func firstRune(s string) (rune, int, bool) {
	if s == "" {
		return 0, 0, false
	}
	r, n := utf8.DecodeRuneInString(s)
	if r == utf8.RuneError && n <= 1 {
		return r, n, false
	}
	return r, n, true
}

var initialisms = map[string]bool{}

func init() {
	// the documented golint initialism list
	for _, s := range strings.Fields("ACL API ASCII CPU CSS DNS EOF GUID HTML HTTP HTTPS ID IP JSON LHS QPS RAM RHS RPC SLA SMTP SQL SSH TCP TLS TTL UDP UI UID UUID URI URL UTF8 VM XML XMPP XSRF XSS") {
		initialisms[s] = true
	}
}

func alnumFold(s string) string {
	var b strings.Builder
	for _, r := range s {
		if unicode.IsLetter(r) || unicode.IsDigit(r) {
			b.WriteRune(unicode.ToLower(r))
		}
	}
	return b.String()
}

var asciiWordRe = regexp.MustCompile(`^[A-Za-z0-9_\- .]*$`)

// expect computes the reference. kind: "eq" (got must equal want), "err" (a template error is
// required), "any" (only totality is judged), "law" (judged by lawCheck).
func expect(c Case) (kind string, want any) {
	a := c.Args
	s := func(i int) string { return string(a[i].S) }
	ints := func() []int {
		v := make([]int, len(a))
		for i := range a {
			v[i] = a[i].I
		}
		return v
	}
	last := len(a) - 1
	switch c.Fn {
	case "contains":
		return "eq", strings.Contains(s(1), s(0))
	case "hasPrefix":
		return "eq", strings.HasPrefix(s(1), s(0))
	case "hasSuffix":
		return "eq", strings.HasSuffix(s(1), s(0))
	case "join":
		return "eq", strings.Join(a[1].val().([]string), s(0))
	case "replace":
		return "eq", strings.Replace(s(3), s(0), s(1), a[2].I)
	case "replaceAll":
		return "eq", strings.ReplaceAll(s(2), s(0), s(1))
	case "split":
		return "eq", strings.Split(s(1), s(0))
	case "splitAfter":
		return "eq", strings.SplitAfter(s(1), s(0))
	case "splitAfterN":
		return "eq", strings.SplitAfterN(s(2), s(0), a[1].I)
	case "trim":
		return "eq", strings.Trim(s(1), s(0))
	case "trimLeft":
		return "eq", strings.TrimLeft(s(1), s(0))
	case "trimRight":
		return "eq", strings.TrimRight(s(1), s(0))
	case "trimPrefix":
		return "eq", strings.TrimPrefix(s(1), s(0))
	case "trimSuffix":
		return "eq", strings.TrimSuffix(s(1), s(0))
	case "trimSpace":
		return "eq", strings.TrimSpace(s(0))
	case "lower":
		return "eq", strings.ToLower(s(0))
	case "upper":
		return "eq", strings.ToUpper(s(0))
	case "matchString":
		re, err := regexp.Compile(s(0))
		if err != nil {
			return "err", nil
		}
		return "eq", re.MatchString(s(1))
	case "quoteMeta":
		return "eq", regexp.QuoteMeta(s(0))
	case "base":
		return "eq", filepath.Base(s(0))
	case "clean":
		return "eq", filepath.Clean(s(0))
	case "dir":
		return "eq", filepath.Dir(s(0))
	case "readFile":
		switch s(0) {
		case "":
			return "eq", ""
		case readable:
			return "eq", "file content\nline 2\n"
		case unreadable:
			return "err", nil
		}
		return "any", nil
	case "expandEnv":
		return "eq", os.ExpandEnv(s(0))
	case "getenv":
		return "eq", os.Getenv(s(0))
	case "add":
		v := ints()
		r := v[0]
		for _, x := range v[1:] {
			r += x
		}
		return "eq", r
	case "sub":
		v := ints()
		r := v[0]
		for _, x := range v[1:] {
			r -= x
		}
		return "eq", r
	case "mul":
		v := ints()
		r := v[0]
		for _, x := range v[1:] {
			r *= x
		}
		return "eq", r
	case "div", "mod":
		v := ints()
		r := v[0]
		for _, x := range v[1:] {
			if x == 0 {
				return "any", nil // undefined: template error or anything but a crash
			}
			if c.Fn == "div" {
				r /= x
			} else {
				r %= x
			}
		}
		return "eq", r
	case "min":
		v := ints()
		if len(v) == 0 {
			return "any", nil
		}
		r := v[0]
		for _, x := range v {
			if x < r {
				r = x
			}
		}
		return "eq", r
	case "incr":
		return "eq", a[0].I + 1
	case "decr":
		return "eq", a[0].I - 1
	case "ceil":
		return "eq", math.Ceil(a[0].F)
	case "floor":
		return "eq", math.Floor(a[0].F)
	case "round":
		return "eq", math.Round(a[0].F)
	case "randInt", "camelcase", "snakecase", "kebabcase", "firstLower", "firstUpper", "firstIsLower", "exported":
		return "law", nil
	}
	_ = last
	return "unknown", nil
}

func lawCheck(c Case, got any) string {
	if c.Fn == "randInt" {
		n, ok := got.(int)
		if !ok || n < 0 {
			return fmt.Sprintf("randInt returned %#v, want a non-negative int", got)
		}
		return ""
	}
	in := string(c.Args[0].S)
	switch c.Fn {
	case "firstIsLower":
		g, ok := got.(bool)
		if !ok {
			return fmt.Sprintf("firstIsLower returned %T", got)
		}
		r, _, valid := firstRune(in)
		switch {
		case in == "":
			if g {
				return "firstIsLower(\"\") = true, want false"
			}
		case !valid:
			vh.DontCare("firstIsLower/invalid-utf8-first")
		case unicode.IsLetter(r) && unicode.IsLower(r):
			if !g {
				return fmt.Sprintf("firstIsLower(%q) = false, but first character %q is a lower-case letter", in, r)
			}
		case !unicode.IsLetter(r) || unicode.IsUpper(r):
			if g {
				return fmt.Sprintf("firstIsLower(%q) = true, but first character %q is not a lower-case letter", in, r)
			}
		default:
			vh.DontCare("firstIsLower/caseless-letter")
		}
		return ""
	case "exported":
		g, ok := got.(string)
		if !ok {
			return fmt.Sprintf("exported returned %T", got)
		}
		if in == "" {
			if g != "" {
				return fmt.Sprintf("exported(\"\") = %q", g)
			}
			return ""
		}
		if up := strings.ToUpper(in); initialisms[up] {
			if g != up {
				return fmt.Sprintf("exported(%q) = %q, want initialism %q", in, g, up)
			}
			return ""
		}
		r, n, valid := firstRune(in)
		if !valid {
			vh.DontCare("exported/invalid-utf8-first")
			return ""
		}
		if unicode.ToUpper(r) != unicode.ToTitle(r) {
			vh.DontCare("exported/upper!=title")
			return ""
		}
		want := string(unicode.ToUpper(r)) + in[n:]
		if g != want {
			return fmt.Sprintf("exported(%q) = %q, want %q (first letter upper-cased, rest unchanged)", in, g, want)
		}
		return ""
	case "firstLower", "firstUpper":
		g, ok := got.(string)
		if !ok {
			return fmt.Sprintf("%s returned %T", c.Fn, got)
		}
		r, n, valid := firstRune(in)
		if in == "" {
			if g != "" {
				return fmt.Sprintf("%s(\"\") = %q", c.Fn, g)
			}
			return ""
		}
		if !valid {
			vh.DontCare(c.Fn + "/invalid-utf8-first")
			return ""
		}
		if !strings.HasSuffix(g, in[n:]) || utf8.RuneCountInString(g) != utf8.RuneCountInString(in) {
			return fmt.Sprintf("%s(%q) = %q changes more than the first character", c.Fn, in, g)
		}
		simple := unicode.IsLetter(r) && (unicode.IsUpper(r) || unicode.IsLower(r)) && unicode.ToUpper(r) == unicode.ToTitle(r) &&
			unicode.ToLower(unicode.ToUpper(r)) == unicode.ToLower(r) && unicode.ToUpper(unicode.ToLower(r)) == unicode.ToUpper(r)
		if !simple {
			vh.DontCare(c.Fn + "/not-a-simply-cased-letter")
			return ""
		}
		wr := unicode.ToLower(r)
		if c.Fn == "firstUpper" {
			wr = unicode.ToUpper(r)
		}
		want := string(wr) + in[n:]
		if g != want {
			return fmt.Sprintf("%s(%q) = %q, want %q", c.Fn, in, g, want)
		}
		return ""
	case "camelcase", "snakecase", "kebabcase":
		g, ok := got.(string)
		if !ok {
			return fmt.Sprintf("%s returned %T", c.Fn, got)
		}
		if !asciiWordRe.MatchString(in) {
			vh.DontCare(c.Fn + "/non-ascii-word")
			return ""
		}
		if alnumFold(g) != alnumFold(in) {
			return fmt.Sprintf("%s(%q) = %q does not preserve the letter/digit sequence", c.Fn, in, g)
		}
		if ws, sep := wellFormedWords(in); ws != nil {
			var want string
			switch c.Fn {
			case "snakecase":
				want = strings.Join(ws, "_")
			case "kebabcase":
				want = strings.Join(ws, "-")
			default:
				want = ws[0]
				for _, w := range ws[1:] {
					want += strings.ToUpper(w[:1]) + w[1:]
				}
			}
			vh.Class("case-fn=well-formed-words/" + sep)
			if g != want {
				return fmt.Sprintf("%s(%q) = %q, want %q", c.Fn, in, g, want)
			}
		}
		if c.Fn == "camelcase" {
			return ""
		}
		// idempotence, evaluated through the same port
		again, err, crashed := apply(Case{Fn: c.Fn, Args: []Arg{{K: "s", S: []byte(g)}}})
		if err != nil || crashed != nil || again != any(g) {
			return fmt.Sprintf("%s is not idempotent on %q: %q then %v (err %v)", c.Fn, in, g, again, err)
		}
		return ""
	}
	return ""
}

var lowerWordRe = regexp.MustCompile(`^[a-z]+([_\- ][a-z]+)*$`)

// wellFormedWords splits inputs of the shape word(sep word)* with lower-case ASCII words and
// single separators, for which the three case functions have an unambiguous expected result.
func wellFormedWords(in string) ([]string, string) {
	if !lowerWordRe.MatchString(in) {
		return nil, ""
	}
	ws := strings.FieldsFunc(in, func(r rune) bool { return r == '_' || r == '-' || r == ' ' })
	sep := "none"
	if len(ws) > 1 {
		sep = "multi"
	}
	return ws, sep
}

func classify(c Case) (fp string, classes []string) {
	classes = append(classes, "fn="+c.Fn)
	nt := false
	for _, a := range c.Args {
		switch a.K {
		case "s":
			s := string(a.S)
			switch {
			case s == "":
				classes = append(classes, "arg=empty")
				nt = true
			case !utf8.ValidString(s):
				classes = append(classes, "arg=invalid-utf8")
				nt = true
			case len(s) != utf8.RuneCountInString(s):
				classes = append(classes, "arg=multibyte")
				nt = true
			default:
				classes = append(classes, "arg=ascii")
			}
		case "i":
			if a.I <= 1 || a.I > 1<<31 {
				classes = append(classes, "int=boundary")
				nt = true
			}
		case "f":
			if a.F != math.Trunc(a.F) || math.IsInf(a.F, 0) {
				nt = true
			}
		case "l":
			if len(a.L) < 2 {
				nt = true
			}
		}
	}
	if c.Pipe {
		classes = append(classes, "pipeline")
	}
	if nt {
		fp = vh.Hash(vh.JSON(c))
	}
	return
}

func run(c Case) *vh.Violation {
	fp, classes := classify(c)
	vh.Count(fp, classes...)
	if fp != "" && vh.NeedSample() {
		vh.Sample(map[string]any{"fn": c.Fn, "args": renderArgs(c), "pipe": c.Pipe})
	}
	if _, ok := template_funcs.FuncMap[c.Fn]; !ok {
		return vh.Violate("missing/"+c.Fn, "documented function %q is not in FuncMap", c.Fn)
	}
	got, err, crashed := apply(c)
	if crashed != nil {
		return vh.Violate("crash/"+c.Fn, "%s%v escaped text/template with a panic: %v", c.Fn, renderArgs(c), crashed)
	}
	kind, want := expect(c)
	switch kind {
	case "any":
		return nil
	case "err":
		if err == nil {
			return vh.Violate("noerr/"+c.Fn, "%s%v returned %#v, want a template error", c.Fn, renderArgs(c), got)
		}
		return nil
	case "eq":
		if err != nil {
			return vh.Violate("err/"+c.Fn, "%s%v failed: %v; want %#v", c.Fn, renderArgs(c), err, want)
		}
		if !same(got, want) {
			return vh.Violate("neq/"+c.Fn, "%s%v = %#v, want %#v", c.Fn, renderArgs(c), got, want)
		}
		return nil
	case "law":
		if err != nil {
			return vh.Violate("err/"+c.Fn, "%s%v failed: %v", c.Fn, renderArgs(c), err)
		}
		if msg := lawCheck(c, got); msg != "" {
			return vh.Violate("law/"+c.Fn, "%s", msg)
		}
		return nil
	}
	return vh.Violate("unknown/"+c.Fn, "no reference for %s", c.Fn)
}

func same(got, want any) bool {
	if gf, ok := got.(float64); ok {
		wf, ok2 := want.(float64)
		return ok2 && (gf == wf || (math.IsNaN(gf) && math.IsNaN(wf))) && math.Signbit(gf) == math.Signbit(wf)
	}
	if gl, ok := got.([]string); ok {
		wl, ok2 := want.([]string)
		if !ok2 || len(gl) != len(wl) {
			return false
		}
		for i := range gl {
			if gl[i] != wl[i] {
				return false
			}
		}
		return true
	}
	return reflect.DeepEqual(got, want)
}

func renderArgs(c Case) string {
	var p []string
	for _, a := range c.Args {
		p = append(p, fmt.Sprintf("%#v", a.val()))
	}
	return "(" + strings.Join(p, ", ") + ")"
}

func TestProp(t *testing.T) {
	// the table must cover the whole function map: a new, undocumented-to-this-check entry is
	// reported as infrastructure trouble rather than silently ignored
	for k := range template_funcs.FuncMap {
		if _, ok := sigs[k]; !ok {
			vh.Note("FuncMap entry %q has no reference in the check (totality not exercised)", k)
		}
	}
	vh.Main(t, vh.Check[Case]{Gen: gen, Run: run})
}

// FuzzProp: the same generator and oracle under Go's native coverage-guided fuzzer (thorough tier).
func FuzzProp(f *testing.F) {
	vh.FuzzMain(f, vh.Check[Case]{Gen: gen, Run: run})
}
