// C17 — generated-file marker, boilerplate and build constraints are effective.
//
// A case is a small scratch module (one package, 1–2 interfaces) and a .mockery.yml choosing
// template × formatter × output layout × template-data {mock-build-tags, boilerplate-file}.
// The real mockery binary is run once; every written file is then inspected:
//
//	(i)   a line matching ^// Code generated .* DO NOT EDIT\.$ lies before the first non-comment
//	      token (go/scanner) and go/ast.IsGenerated agrees;
//	(ii)  the boilerplate content occurs byte-for-byte before the package clause (surrounding
//	      newlines are don't-care; under gofmt/goimports a text that go/format itself does not
//	      leave alone in a neutral header is don't-care);
//	(iii) for all 2^n assignments of the mentioned tags, `go list -tags` includes the file
//	      exactly when an independent evaluation of the expression is true.
//
// The mock is never compiled (that is C01).
package c17

import (
	"bytes"
	"encoding/json"
	"fmt"
	"go/ast"
	"go/build/constraint"
	"go/format"
	"go/parser"
	"go/scanner"
	"go/token"
	"os"
	"path/filepath"
	"regexp"
	"sort"
	"strings"
	"sync"
	"testing"
	"time"

	"pgregory.net/rapid"
	"verif/harness/vh"
)

type Case struct {
	Template  string `json:"template"`  // testify | matryer
	Formatter string `json:"formatter"` // goimports | gofmt | noop
	Layout    string `json:"layout"`    // test (mocks_test.go in the source package) | nontest (mocks.go, same package) | separate (mocks/mocks.go, package mocks)
	PerIface  bool   `json:"per_iface"` // one output file per interface instead of one shared file
	Ifaces    int    `json:"ifaces"`    // 1 or 2
	Level     string `json:"level"`     // where template-data is written: root | package
	HasTags   bool   `json:"has_tags"`
	Expr      string `json:"expr"` // value of mock-build-tags
	HasBP     bool   `json:"has_bp"`
	BP        string `json:"bp"`      // content of the boilerplate file
	BPPath    string `json:"bp_path"` // rel | dotrel | subdir | abs
}

// ---- independent build-constraint evaluator ----------------------------------------------------
//
//	or  := and { "||" and }
//	and := not { "&&" not }
//	not := "!" atom | atom            (no double negation, as in the Go grammar)
//	atom := tag | "(" or ")"

type exprParser struct {
	s    string
	pos  int
	tags map[string]bool // mentioned tags
	ops  int
	err  error
}

func (p *exprParser) ws() {
	for p.pos < len(p.s) && (p.s[p.pos] == ' ' || p.s[p.pos] == '\t') {
		p.pos++
	}
}

func (p *exprParser) lit(l string) bool {
	p.ws()
	if strings.HasPrefix(p.s[p.pos:], l) {
		p.pos += len(l)
		return true
	}
	return false
}

func isTagByte(b byte) bool {
	return b == '_' || b == '.' || (b >= '0' && b <= '9') || (b >= 'a' && b <= 'z') || (b >= 'A' && b <= 'Z')
}

type evalFn func(set map[string]bool) bool

func (p *exprParser) or() evalFn {
	l := p.and()
	for p.err == nil && p.lit("||") {
		p.ops++
		a, b := l, p.and()
		l = func(s map[string]bool) bool { x, y := a(s), b(s); return x || y }
	}
	return l
}

func (p *exprParser) and() evalFn {
	l := p.not()
	for p.err == nil && p.lit("&&") {
		p.ops++
		a, b := l, p.not()
		l = func(s map[string]bool) bool { x, y := a(s), b(s); return x && y }
	}
	return l
}

func (p *exprParser) not() evalFn {
	if p.lit("!") {
		p.ops++
		p.ws()
		if p.pos < len(p.s) && p.s[p.pos] == '!' {
			p.err = fmt.Errorf("double negation at %d", p.pos)
			return func(map[string]bool) bool { return false }
		}
		a := p.atom()
		return func(s map[string]bool) bool { return !a(s) }
	}
	return p.atom()
}

func (p *exprParser) atom() evalFn {
	bad := func(map[string]bool) bool { return false }
	if p.err != nil {
		return bad
	}
	if p.lit("(") {
		e := p.or()
		if p.err == nil && !p.lit(")") {
			p.err = fmt.Errorf("missing ) at %d", p.pos)
		}
		return e
	}
	p.ws()
	st := p.pos
	for p.pos < len(p.s) && isTagByte(p.s[p.pos]) {
		p.pos++
	}
	if p.pos == st {
		p.err = fmt.Errorf("tag expected at %d", p.pos)
		return bad
	}
	name := p.s[st:p.pos]
	p.tags[name] = true
	return func(s map[string]bool) bool { return s[name] }
}

// parseExpr returns the evaluator, the sorted list of mentioned tags and the operator count.
func parseExpr(s string) (evalFn, []string, int, error) {
	p := &exprParser{s: s, tags: map[string]bool{}}
	f := p.or()
	if p.err == nil {
		p.ws()
		if p.pos != len(p.s) {
			p.err = fmt.Errorf("trailing text at %d", p.pos)
		}
	}
	if p.err != nil {
		return nil, nil, 0, p.err
	}
	var tags []string
	for t := range p.tags {
		tags = append(tags, t)
	}
	sort.Strings(tags)
	return f, tags, p.ops, nil
}

// ---- generators --------------------------------------------------------------------------------

// custom tags only: nothing the toolchain sets by itself (GOOS, GOARCH, cgo, unix, go1.x, gc, race ...)
var tagPool = []string{"foo", "bar", "baz", "qux", "integ", "e2e", "mock_gen"}

type node struct {
	op   string // "tag", "!", "&&", "||"
	tag  string
	l, r *node
}

// genNode draws an expression tree. Leaves walk through the chosen tags (so that all of them tend to be
// mentioned) with an occasional repeat; the root of a non-single expression is always an operator.
func genNode(t *rapid.T, tags []string, depth int, root bool, leaf *int) *node {
	k := rapid.IntRange(0, 9).Draw(t, "nodekind")
	if depth <= 0 || (k <= 2 && !root) {
		i := *leaf % len(tags)
		*leaf++
		if rapid.IntRange(0, 3).Draw(t, "repeat") == 0 {
			i = rapid.IntRange(0, len(tags)-1).Draw(t, "tag")
		}
		return &node{op: "tag", tag: tags[i]}
	}
	switch {
	case k == 3 || k == 4 || (root && k == 0):
		return &node{op: "!", l: genNode(t, tags, depth-1, false, leaf)}
	case k <= 7 && k >= 5 || (root && k == 1):
		return &node{op: "&&", l: genNode(t, tags, depth-1, false, leaf), r: genNode(t, tags, depth-1, false, leaf)}
	default:
		return &node{op: "||", l: genNode(t, tags, depth-1, false, leaf), r: genNode(t, tags, depth-1, false, leaf)}
	}
}

func render(t *rapid.T, n *node, sp func() string) string {
	paren := func(s string) string { return "(" + sp() + s + sp() + ")" }
	extra := func(s string) string {
		if rapid.IntRange(0, 7).Draw(t, "extraparen") == 0 {
			return paren(s)
		}
		return s
	}
	switch n.op {
	case "tag":
		return extra(n.tag)
	case "!":
		in := render(t, n.l, sp)
		if n.l.op != "tag" { // "!" binds to a tag or a parenthesised group; "!!" is not Go syntax
			in = paren(in)
		}
		return "!" + in
	case "&&":
		l, r := render(t, n.l, sp), render(t, n.r, sp)
		if n.l.op == "||" {
			l = paren(l)
		}
		if n.r.op == "||" {
			r = paren(r)
		}
		return extra(l + sp() + "&&" + sp() + r)
	default:
		return extra(render(t, n.l, sp) + sp() + "||" + sp() + render(t, n.r, sp))
	}
}

func genExpr(t *rapid.T) string {
	ntags := rapid.SampledFrom([]int{3, 2, 4, 2, 1, 3, 4}).Draw(t, "ntags") // rapid favours low indices: the interesting sizes come first
	perm := rapid.Permutation(tagPool).Draw(t, "tagperm")
	tags := perm[:ntags]
	var n *node
	if rapid.IntRange(0, 7).Draw(t, "single") == 0 {
		n = &node{op: "tag", tag: tags[0]}
	} else {
		leaf := 0
		n = genNode(t, tags, rapid.SampledFrom([]int{2, 3, 2, 1, 4, 3}).Draw(t, "depth"), true, &leaf)
	}
	style := rapid.IntRange(0, 5).Draw(t, "spacing") // 0: none, 1..4: single spaces, 5: irregular
	sp := func() string {
		switch style {
		case 0:
			return ""
		case 5:
			return rapid.SampledFrom([]string{"", " ", "  ", "\t"}).Draw(t, "sp")
		}
		return " "
	}
	s := render(t, n, sp)
	// keep at most 4 distinct tags (2^4 go list calls)
	if _, tg, _, err := parseExpr(s); err != nil || len(tg) > 4 {
		return tags[0]
	}
	return s
}

var words = []string{
	"Copyright", "©", "(c)", "2024", "ACME", "Inc.", "All", "rights", "reserved.", "Licensed", "under", "the",
	"Apache", "License,", "Version", "2.0", "SPDX-License-Identifier:", "MIT", "BSD-3-Clause",
	"http://www.apache.org/licenses/LICENSE-2.0", "日本語", "Ünïcödé", "naïve", "—", "🎉", "Ελληνικά",
	"`code`", "{{.NotATemplate}}", "{{", "}}", `"quoted"`, "'", `\n`, "%s", "%!d", "$HOME", "*", "**", "/", "#",
	"package", "import", "func", "build", "go", "DO", "NOT", "EDIT", "a\tb", "x",
}

func genText(t *rapid.T, inBlock bool) string {
	n := rapid.IntRange(0, 6).Draw(t, "nwords")
	var ws []string
	for i := 0; i < n; i++ {
		w := rapid.SampledFrom(words).Draw(t, "word")
		if !inBlock && rapid.IntRange(0, 99).Draw(t, "slashstar") == 0 {
			w = "/*" // a block-comment opener inside a line comment is plain text
		}
		ws = append(ws, w)
	}
	s := strings.Join(ws, " ")
	if inBlock {
		s = strings.ReplaceAll(s, "*/", "*-/") // cannot happen with the word pool; keeps a block comment closed only by its own terminator
	}
	return s
}

// genBoilerplate draws a comment-only text of 1–20 lines: groups of line comments, blank
// comment lines, one-line and multi-line block comments, separated by 0–2 blank lines.
func genBoilerplate(t *rapid.T) string {
	var lines []string
	nseg := rapid.IntRange(1, 6).Draw(t, "nseg")
	quirk := rapid.IntRange(0, 19).Draw(t, "quirk") // 0: trailing blanks on a line, 1: double blank line, 2: indented block interior, 3: CRLF, 4: first line indented; 5..19: none
	for i := 0; i < nseg && len(lines) < 20; i++ {
		if i > 0 {
			switch g := rapid.IntRange(0, 9).Draw(t, "gap"); {
			case g <= 4:
			case g <= 8 || quirk != 1:
				lines = append(lines, "")
			default:
				lines = append(lines, "", "")
			}
		}
		switch k := rapid.IntRange(0, 9).Draw(t, "segkind"); {
		case k <= 4: // group of line comments
			n := rapid.IntRange(1, 6).Draw(t, "nline")
			for j := 0; j < n; j++ {
				txt := genText(t, false)
				switch {
				case txt == "" || rapid.IntRange(0, 6).Draw(t, "blankcomment") == 0:
					lines = append(lines, "//")
				case rapid.IntRange(0, 7).Draw(t, "nospace") == 0 && !strings.HasPrefix(txt, "go") && !strings.HasPrefix(txt, "+") && !strings.HasPrefix(txt, "line") && !strings.HasPrefix(txt, "export"):
					lines = append(lines, "//"+txt)
				default:
					lines = append(lines, "// "+txt)
				}
			}
		case k <= 6: // one-line block comment
			lines = append(lines, "/* "+genText(t, true)+" */")
		default: // multi-line block comment
			n := rapid.IntRange(1, 6).Draw(t, "nblock")
			switch st := rapid.IntRange(0, 3).Draw(t, "blockstyle"); {
			case st == 0: // star-aligned
				lines = append(lines, "/*")
				for j := 0; j < n; j++ {
					lines = append(lines, strings.TrimRight(" * "+genText(t, true), " "))
				}
				lines = append(lines, " */")
			case st == 1: // text starts on the opening line
				lines = append(lines, strings.TrimRight("/* "+genText(t, true), " "))
				for j := 0; j < n; j++ {
					lines = append(lines, genText(t, true))
				}
				lines = append(lines, "*/")
			case st == 2 && quirk == 2: // interior indented (go/printer may re-indent)
				ind := rapid.SampledFrom([]string{"  ", "\t", "    "}).Draw(t, "indent")
				lines = append(lines, "/*")
				for j := 0; j < n; j++ {
					lines = append(lines, strings.TrimRight(ind+genText(t, true), " \t"))
				}
				lines = append(lines, "*/")
			default: // plain
				lines = append(lines, "/*")
				for j := 0; j < n; j++ {
					lines = append(lines, genText(t, true))
				}
				lines = append(lines, "*/")
			}
		}
	}
	if len(lines) > 20 {
		lines = closeBlocks(lines[:20]) // never cut a block comment open
	}
	switch quirk {
	case 4: // first line indented (still comment-only; a formatter removes the indentation, noop must keep it)
		lines[0] = rapid.SampledFrom([]string{" ", "\t", "  "}).Draw(t, "lead") + lines[0]
	case 0:
		i := len(lines) - 1 // the last line half of the time: whitespace at the very end of the text
		if rapid.Bool().Draw(t, "twslast") {
			i = rapid.IntRange(0, len(lines)-1).Draw(t, "trailingws")
		}
		if lines[i] != "" {
			lines[i] += rapid.SampledFrom([]string{" ", "  ", "\t"}).Draw(t, "tws")
		}
	}
	nl := "\n"
	if quirk == 3 {
		nl = "\r\n"
	}
	s := strings.Join(lines, nl)
	switch e := rapid.IntRange(0, 9).Draw(t, "ending"); {
	case e <= 4:
		s += nl
	case e <= 7: // no final newline
	case e == 8:
		s += nl + nl
	default:
		s = nl + s + nl
	}
	return s
}

// closeBlocks repairs a line list that was truncated inside a block comment: it is cut
// back to the last line before the unterminated "/*".
func closeBlocks(lines []string) []string {
	depthOpen := -1
	in := false
	for i, ln := range lines {
		rest := ln
		for {
			if in {
				j := strings.Index(rest, "*/")
				if j < 0 {
					break
				}
				in, rest = false, rest[j+2:]
				continue
			}
			if strings.HasPrefix(strings.TrimSpace(rest), "//") {
				break
			}
			j := strings.Index(rest, "/*")
			if j < 0 {
				break
			}
			in, depthOpen, rest = true, i, rest[j+2:]
		}
	}
	if in {
		lines = lines[:depthOpen]
		for len(lines) > 0 && lines[len(lines)-1] == "" {
			lines = lines[:len(lines)-1]
		}
		if len(lines) == 0 {
			lines = []string{"// truncated"}
		}
	}
	return lines
}

func gen(t *rapid.T) Case {
	c := Case{
		Template:  rapid.SampledFrom([]string{"testify", "matryer"}).Draw(t, "template"),
		Formatter: rapid.SampledFrom([]string{"goimports", "gofmt", "noop"}).Draw(t, "formatter"),
		Layout:    rapid.SampledFrom([]string{"test", "nontest", "separate"}).Draw(t, "layout"),
		Ifaces:    rapid.IntRange(1, 2).Draw(t, "ifaces"),
		Level:     rapid.SampledFrom([]string{"root", "root", "package"}).Draw(t, "level"),
		BPPath:    "rel",
	}
	c.PerIface = c.Ifaces == 2 && rapid.IntRange(0, 2).Draw(t, "periface") == 0
	c.HasTags = rapid.IntRange(0, 7).Draw(t, "hastags") > 0
	if c.HasTags {
		c.Expr = genExpr(t)
	}
	c.HasBP = rapid.IntRange(0, 7).Draw(t, "hasbp") > 0
	if c.HasBP {
		c.BP = genBoilerplate(t)
		c.BPPath = rapid.SampledFrom([]string{"rel", "rel", "dotrel", "subdir", "abs"}).Draw(t, "bppath")
	}
	return c
}

// ---- boilerplate analysis ----------------------------------------------------------------------

// commentOnly verifies with go/scanner that text consists of comments only, that no comment is
// a directive the harness promised not to generate, and reports whether a block comment occurs.
func commentOnly(text string) (ok bool, hasBlock bool, why string) {
	src := strings.ReplaceAll(text, "\r\n", "\n") + "\npackage p\n"
	fset := token.NewFileSet()
	f := fset.AddFile("bp", -1, len(src))
	var s scanner.Scanner
	nerr := 0
	s.Init(f, []byte(src), func(token.Position, string) { nerr++ }, scanner.ScanComments)
	n := 0
	for {
		_, tok, lit := s.Scan()
		if tok == token.COMMENT {
			n++
			if strings.HasPrefix(lit, "/*") {
				hasBlock = true
			}
			if strings.HasPrefix(lit, "//go:") || strings.HasPrefix(lit, "//line ") || strings.HasPrefix(lit, "//export ") ||
				regexp.MustCompile(`^//\s*\+build`).MatchString(lit) || strings.Contains(lit, "// Code generated") {
				return false, hasBlock, "directive-like comment " + lit
			}
			continue
		}
		if tok != token.PACKAGE {
			return false, hasBlock, "non-comment token " + tok.String()
		}
		break
	}
	if nerr > 0 || n == 0 {
		return false, hasBlock, "scanner errors or empty"
	}
	return true, hasBlock, ""
}

// core is the part of the boilerplate that must appear byte-for-byte: the text without
// leading/trailing newline characters.
func core(bp string) string { return strings.Trim(bp, "\r\n") }

// chunks splits the core at runs of blank lines: the comment groups of the boilerplate.
func chunks(cr string) []string {
	var out []string
	for _, ch := range regexp.MustCompile(`(\r?\n){2,}`).Split(cr, -1) {
		if ch != "" {
			out = append(out, ch)
		}
	}
	return out
}

// containsInOrder reports whether every part occurs in hay, one after the other without overlap.
func containsInOrder(hay []byte, parts []string) bool {
	for _, p := range parts {
		i := bytes.Index(hay, []byte(p))
		if i < 0 {
			return false
		}
		hay = hay[i+len(p):]
	}
	return true
}

// gofmtStable reports what go/format itself leaves alone when the boilerplate stands in a neutral
// generated-file header (alone; after another line comment; followed by the //go:build line):
// 2 = the whole core survives byte-for-byte, 1 = every comment group of it survives, in order (go/printer
// hoists a //go:build line to the last blank line before the first block comment, which may be inside the
// boilerplate, and collapses runs of blank lines), 0 = go/format rewrites comment text (trailing blanks,
// CR, block-comment interiors). A formatted output is only required to preserve what go/format preserves.
func gofmtStable(bp, expr string) int {
	cr := core(bp)
	ctx := []string{
		bp + "\n\npackage p\n",
		"// Header line.\n" + bp + "\n\npackage p\n",
	}
	if expr != "" {
		ctx = append(ctx, "// Header line.\n"+bp+"\n\n//go:build "+expr+"\n\npackage p\n")
	}
	level := 2
	for _, src := range ctx {
		out, err := format.Source([]byte(src))
		if err != nil {
			return 0
		}
		i := bytes.Index(out, []byte("package p"))
		if i < 0 {
			return 0
		}
		switch {
		case bytes.Contains(out[:i], []byte(cr)):
		case containsInOrder(out[:i], chunks(cr)):
			level = min(level, 1)
		default:
			return 0
		}
	}
	return level
}

// ---- scratch module ----------------------------------------------------------------------------

const modPath = "example.com/m"

func yq(s string) string { b, _ := json.Marshal(s); return string(b) } // a JSON string is a YAML double-quoted scalar (ASCII input)

func build(c Case, root string) (files map[string]string, outFiles []string, listPkg string) {
	src := "package p\n\ntype Doer interface{ Do(x int) error }\n"
	names := []string{"Doer"}
	if c.Ifaces > 1 {
		src += "\ntype Namer interface {\n\tName() string\n\tSetName(name string, opts ...string)\n}\n"
		names = append(names, "Namer")
	}
	files = map[string]string{"p/p.go": src}
	dir, pkg, base := "{{.InterfaceDir}}", "p", "mocks_test.go"
	outDir := "p"
	listPkg = "./p"
	switch c.Layout {
	case "nontest":
		base = "mocks.go"
	case "separate":
		dir, pkg, base, outDir, listPkg = "mocks", "mocks", "mocks.go", "mocks", "./mocks"
	}
	filename := base
	if c.PerIface {
		filename = "mock_{{.InterfaceName}}_" + base
		for _, n := range names {
			outFiles = append(outFiles, outDir+"/mock_"+n+"_"+base)
		}
	} else {
		outFiles = []string{outDir + "/" + base}
	}
	var td []string
	if c.HasBP {
		rel := "boilerplate.txt"
		val := rel
		switch c.BPPath {
		case "dotrel":
			val = "./" + rel
		case "subdir":
			rel = "hack/license header.txt"
			val = rel
		case "abs":
			val = filepath.Join(root, rel)
		}
		files[rel] = c.BP
		td = append(td, "boilerplate-file: "+yq(val))
	}
	if c.HasTags {
		td = append(td, "mock-build-tags: "+yq(c.Expr))
	}
	tdBlock := func(indent string) string {
		if len(td) == 0 {
			return ""
		}
		s := indent + "template-data:\n"
		for _, l := range td {
			s += indent + "  " + l + "\n"
		}
		return s
	}
	y := "template: " + c.Template + "\nformatter: " + c.Formatter + "\ndir: " + yq(dir) + "\nfilename: " + yq(filename) + "\npkgname: " + pkg + "\n"
	if c.Level == "root" {
		y += tdBlock("")
	}
	y += "packages:\n  " + modPath + "/p:\n    config:\n      all: true\n"
	if c.Level != "root" {
		y += tdBlock("      ")
	}
	files[".mockery.yml"] = y
	return files, outFiles, listPkg
}

// ---- oracle ------------------------------------------------------------------------------------

var markerRe = regexp.MustCompile(`^// Code generated .* DO NOT EDIT\.$`)

// header returns the byte offset of the first non-comment token and whether it is `package`.
func header(src []byte) (off int, isPackage bool, scanErrs int) {
	fset := token.NewFileSet()
	f := fset.AddFile("out.go", -1, len(src))
	var s scanner.Scanner
	s.Init(f, src, func(token.Position, string) { scanErrs++ }, scanner.ScanComments)
	for {
		pos, tok, _ := s.Scan()
		if tok == token.COMMENT {
			continue
		}
		if tok == token.EOF {
			return len(src), false, scanErrs
		}
		return f.Offset(pos), tok == token.PACKAGE, scanErrs
	}
}

type listOut struct {
	GoFiles, TestGoFiles, XTestGoFiles, IgnoredGoFiles, InvalidGoFiles []string
	Error                                                              *struct{ Err string }
}

func goList(root, pkg string, tags []string) (listOut, string) {
	args := []string{"list", "-e"}
	if len(tags) > 0 {
		args = append(args, "-tags", strings.Join(tags, ","))
	}
	args = append(args, "-json=GoFiles,TestGoFiles,XTestGoFiles,IgnoredGoFiles,InvalidGoFiles,Error", pkg)
	r := vh.GoRun(root, 120*time.Second, args...)
	if r.TimedOut {
		vh.Infra("go list timed out")
	}
	var lo listOut
	if err := json.Unmarshal([]byte(r.Stdout), &lo); err != nil {
		vh.Infra("go list %v in %s: exit %d, undecodable output: %v\n%s", args, root, r.Exit, err, vh.Trunc(r.Both(), 1500))
	}
	return lo, "go " + strings.Join(args, " ")
}

func has(l []string, s string) bool {
	for _, x := range l {
		if x == s {
			return true
		}
	}
	return false
}

var (
	tmpRe = regexp.MustCompile(`/[^\s"':]*vscratch[^\s"':]*`)
	tsRe  = regexp.MustCompile(`\d{4}-\d\d-\d\dT[\d:.]+Z? ?`)
	numRe = regexp.MustCompile(`\d+`)
)

func normDiag(s string) string {
	s = tmpRe.ReplaceAllString(s, "<tmp>")
	s = tsRe.ReplaceAllString(s, "")
	for _, ln := range strings.Split(s, "\n") {
		if strings.Contains(ln, " ERR ") || strings.Contains(ln, " FTL ") || strings.HasPrefix(ln, "panic") {
			s = ln
			break
		}
	}
	s = numRe.ReplaceAllString(s, "N")
	s = strings.Join(strings.Fields(s), "_")
	return vh.Trunc(s, 90)
}

func bpShape(c Case) (labels []string, hasBlock, noFinalNL bool) {
	if !c.HasBP {
		return []string{"bp=absent"}, false, false
	}
	_, hasBlock, _ = commentOnly(c.BP)
	noFinalNL = !strings.HasSuffix(c.BP, "\n")
	hasLine := regexp.MustCompile(`(?m)^//`).MatchString(c.BP)
	switch {
	case hasBlock && hasLine:
		labels = append(labels, "bp=mixed")
	case hasBlock:
		labels = append(labels, "bp=block-only")
	default:
		labels = append(labels, "bp=line-only")
	}
	if noFinalNL {
		labels = append(labels, "bp:no-final-newline")
	}
	if strings.HasSuffix(c.BP, "\n\n") || strings.HasSuffix(c.BP, "\n\r\n") {
		labels = append(labels, "bp:trailing-blank-lines")
	}
	if strings.HasPrefix(c.BP, "\n") || strings.HasPrefix(c.BP, "\r\n") {
		labels = append(labels, "bp:leading-blank-line")
	}
	if strings.Contains(c.BP, "\r") {
		labels = append(labels, "bp:crlf")
	}
	if regexp.MustCompile(`(?m)^//\r?$`).MatchString(c.BP) {
		labels = append(labels, "bp:blank-comment-line")
	}
	if regexp.MustCompile(`\n\r?\n[^\r\n]`).MatchString(core(c.BP)) {
		labels = append(labels, "bp:inner-blank-line")
	}
	if regexp.MustCompile(`[^\x00-\x7f]`).MatchString(c.BP) {
		labels = append(labels, "bp:unicode")
	}
	if strings.Contains(c.BP, "{{") {
		labels = append(labels, "bp:template-braces")
	}
	if regexp.MustCompile(`(?m)[ \t]+\r?$`).MatchString(c.BP) {
		labels = append(labels, "bp:trailing-whitespace")
	}
	if cr := core(c.BP); strings.TrimSpace(cr) != cr {
		labels = append(labels, "bp:whitespace-at-either-end")
	}
	n := strings.Count(core(c.BP), "\n") + 1
	switch {
	case n == 1:
		labels = append(labels, "bp:lines=1")
	case n <= 5:
		labels = append(labels, "bp:lines=2-5")
	case n <= 12:
		labels = append(labels, "bp:lines=6-12")
	default:
		labels = append(labels, "bp:lines=13-20")
	}
	labels = append(labels, "bp:path="+c.BPPath)
	return labels, hasBlock, noFinalNL
}

func run(c Case) *vh.Violation {
	// ---- validate the case (generator soundness) and classify
	var eval evalFn
	var tags []string
	ops := 0
	if c.HasTags {
		var err error
		eval, tags, ops, err = parseExpr(c.Expr)
		if err != nil || len(tags) == 0 || len(tags) > 4 {
			vh.Invalid()
			vh.Infra("generator produced an expression outside the domain: %q (%v)", c.Expr, err)
		}
		// cross-check the harness's evaluator with go/build/constraint on the full truth table
		x, err := constraint.Parse("//go:build " + c.Expr)
		if err != nil {
			vh.Invalid()
			vh.Infra("go/build/constraint rejects generated expression %q: %v", c.Expr, err)
		}
		for m := 0; m < 1<<len(tags); m++ {
			set := assignment(tags, m)
			if eval(set) != x.Eval(func(t string) bool { return set[t] }) {
				vh.Invalid()
				vh.Infra("harness evaluator disagrees with go/build/constraint on %q under %v", c.Expr, set)
			}
		}
	}
	// go/printer (gofmt, goimports) rewrites a //go:build line to constraint.Expr.String(), which prints
	// !(!x) as "!!x" — not Go syntax. Such an expression survives only the noop formatter; with the other
	// two the damage is done by the Go formatter, not by mockery: don't-care for clause (iii).
	printerBreaksExpr := false
	if c.HasTags && c.Formatter != "noop" {
		x, _ := constraint.Parse("//go:build " + c.Expr)
		if _, err := constraint.Parse("//go:build " + x.String()); err != nil {
			printerBreaksExpr = true
		}
	}
	cl := []string{"template=" + c.Template, "formatter=" + c.Formatter, "layout=" + c.Layout, "combo=" + c.Template + "+" + c.Formatter + "+" + c.Layout,
		fmt.Sprintf("ifaces=%d", c.Ifaces), "level=" + c.Level}
	if c.PerIface {
		cl = append(cl, "file-per-interface")
	}
	if !c.HasTags {
		cl = append(cl, "tags=absent")
	} else {
		cl = append(cl, fmt.Sprintf("tags:n=%d", len(tags)), fmt.Sprintf("tags:ops=%s", bucket(ops)))
		if ops == 0 {
			cl = append(cl, "tags=single")
		}
		for _, f := range []struct{ sub, label string }{{"!", "tags:not"}, {"&&", "tags:and"}, {"||", "tags:or"}, {"(", "tags:paren"}, {"!(", "tags:not-group"}} {
			if strings.Contains(c.Expr, f.sub) {
				cl = append(cl, f.label)
			}
		}
		if !strings.Contains(c.Expr, " ") && ops > 0 && !strings.Contains(c.Expr, "\t") {
			cl = append(cl, "tags:no-spaces")
		}
		nTrue := 0
		for m := 0; m < 1<<len(tags); m++ {
			if eval(assignment(tags, m)) {
				nTrue++
			}
		}
		switch nTrue {
		case 0:
			cl = append(cl, "tags:unsatisfiable")
		case 1 << len(tags):
			cl = append(cl, "tags:tautology")
		}
	}
	if printerBreaksExpr {
		cl = append(cl, "tags:double-negation-unprintable-by-go/printer")
	}
	bpLabels, hasBlock, noFinalNL := bpShape(c)
	cl = append(cl, bpLabels...)
	stable := 2
	if c.HasBP {
		ok, _, why := commentOnly(c.BP)
		if !ok {
			vh.Invalid()
			vh.Infra("generator produced a boilerplate that is not comment-only: %s\n%q", why, c.BP)
		}
		if n := strings.Count(core(c.BP), "\n") + 1; n > 20 {
			vh.Invalid()
			vh.Infra("boilerplate has %d lines", n)
		}
		expr := ""
		if c.HasTags {
			expr = c.Expr
		}
		stable = gofmtStable(c.BP, expr)
		switch stable {
		case 1:
			cl = append(cl, "bp:gofmt-keeps-comment-groups-only")
		case 0:
			cl = append(cl, "bp:gofmt-rewrites-comment-text")
		}
	}
	fp := ""
	if ops >= 2 || (c.HasBP && (hasBlock || noFinalNL)) {
		fp = vh.Hash(vh.JSON(c))
	}
	vh.Count(fp, cl...)
	if fp != "" && vh.NeedSample() {
		vh.Sample(c)
	}

	// ---- build the module and run mockery
	root := vh.NewScratch()
	defer vh.RemoveAll(root)
	vh.NewModule(root, modPath)
	files, outFiles, listPkg := build(c, root)
	vh.WriteFiles(root, files)
	before := vh.Snapshot(root)
	res := vh.Mockery(root, nil)
	if res.TimedOut {
		vh.Infra("mockery timed out")
	}
	combo := "mockery/" + c.Template + "+" + c.Formatter
	feat := func() string {
		var f []string
		if c.HasTags {
			f = append(f, "tags")
		}
		if c.HasBP {
			s := "boilerplate"
			if hasBlock {
				s += "+block"
			}
			if noFinalNL {
				s += "+no-final-newline"
			}
			f = append(f, s)
		}
		if len(f) == 0 {
			return "plain"
		}
		return strings.Join(f, ",")
	}()
	tree := func() map[string]string {
		t := vh.ReadTree(root)
		delete(t, "go.sum")
		return t
	}
	fail := func(diag, format string, a ...any) *vh.Violation {
		obs := fmt.Sprintf("mockery exit %d\n--- .mockery.yml\n%s", res.Exit, files[".mockery.yml"])
		if c.HasBP {
			obs += fmt.Sprintf("--- boilerplate (Go-quoted)\n%q\n", c.BP)
		}
		for _, of := range outFiles {
			if b, err := os.ReadFile(filepath.Join(root, of)); err == nil {
				hd := string(b)
				if i := strings.Index(hd, "\nimport"); i > 0 {
					hd = hd[:i]
				}
				obs += "--- head of " + of + "\n" + vh.Trunc(hd, 3000) + "\n"
			}
		}
		if res.Exit != 0 {
			obs += "--- mockery output\n" + vh.Trunc(res.Both(), 3000)
		}
		return vh.Violate(combo+"/"+feat+"/"+diag, format, a...).With(tree(), obs)
	}
	if res.Panicked() {
		return fail("panic", "mockery panicked on a documented configuration")
	}
	if res.Exit != 0 {
		return fail("exit-nonzero:"+normDiag(res.Stderr+"\n"+res.Stdout), "mockery exited %d on a documented configuration", res.Exit)
	}
	after := vh.Snapshot(root)
	var written []string
	for _, d := range vh.DiffSnap(before, after) {
		if strings.HasSuffix(d, ".go") {
			written = append(written, d[1:])
		}
	}
	sort.Strings(written)
	want := append([]string(nil), outFiles...)
	sort.Strings(want)
	if strings.Join(written, " ") != strings.Join(want, " ") {
		// which files get written is C07/C10's subject; here it means the harness misjudged the layout
		vh.Infra("expected output files %v, mockery wrote %v\n%s", want, written, vh.Trunc(res.Both(), 1500))
	}

	// ---- (i) marker and (ii) boilerplate, per written file
	for _, of := range outFiles {
		src, err := os.ReadFile(filepath.Join(root, of))
		if err != nil {
			vh.Infra("read %s: %v", of, err)
		}
		off, isPkg, _ := header(src)
		if !isPkg {
			return fail("header/first-token-not-package", "%s: the first non-comment token is not the package clause", of)
		}
		markerAt := -1
		pos := 0
		for _, ln := range strings.SplitAfter(string(src[:off]), "\n") {
			if markerRe.MatchString(strings.TrimSuffix(ln, "\n")) {
				markerAt = pos
				break
			}
			pos += len(ln)
		}
		if markerAt < 0 {
			return fail("marker/missing-before-package", "%s: no line matching %s before the package clause", of, markerRe)
		}
		fset := token.NewFileSet()
		pf, perr := parser.ParseFile(fset, of, src, parser.ParseComments|parser.PackageClauseOnly)
		if perr != nil {
			return fail("header/unparsable", "%s: header does not parse: %v", of, perr)
		}
		if !ast.IsGenerated(pf) {
			return fail("marker/not-recognised-by-go/ast.IsGenerated", "%s: go/ast.IsGenerated reports false", of)
		}
		if c.HasBP {
			cr := core(c.BP)
			demand := 2 // whole core, byte-for-byte
			if c.Formatter != "noop" {
				demand = stable
			}
			found := bytes.Contains(src[:off], []byte(cr))
			switch {
			case found:
			case demand == 1 && containsInOrder(src[:off], chunks(cr)):
				vh.DontCare("boilerplate-split-or-blank-lines-collapsed-by-" + c.Formatter + "(comment-groups-verbatim)")
			case demand == 0:
				vh.DontCare("boilerplate-comment-text-normalised-by-" + c.Formatter)
			default:
				what := "boilerplate/not-verbatim"
				if bytes.Contains(src, []byte(cr)) {
					what = "boilerplate/after-package-clause"
				} else if t := strings.TrimSpace(cr); t != cr && bytes.Contains(src[:off], []byte(t)) {
					what = "boilerplate/whitespace-trimmed"
				}
				return fail(what, "%s: the boilerplate content does not occur verbatim before the package clause", of)
			}
		}
	}

	// ---- (iii) build-constraint effectiveness: all 2^n assignments
	if printerBreaksExpr {
		vh.DontCare("constraint-after-" + c.Formatter + "-printed-double-negation")
		return nil
	}
	type verdict struct {
		set       []string
		want      bool
		lo        listOut
		cmd       string
		infraText string
	}
	n := len(tags)
	verdicts := make([]verdict, 1<<n)
	if !c.HasTags {
		// no constraint: always included, also when unrelated tags are set
		verdicts = []verdict{{want: true}, {set: []string{"foo", "integ"}, want: true}}
	} else {
		for m := range verdicts {
			set := assignment(tags, m)
			var on []string
			for _, t := range tags {
				if set[t] {
					on = append(on, t)
				}
			}
			verdicts[m] = verdict{set: on, want: eval(set)}
		}
	}
	var wg sync.WaitGroup
	sem := make(chan struct{}, 4)
	for i := range verdicts {
		wg.Add(1)
		go func(v *verdict) {
			defer wg.Done()
			sem <- struct{}{}
			defer func() { <-sem }()
			defer func() {
				if r := recover(); r != nil {
					if ie, ok := r.(vh.InfraError); ok {
						v.infraText = ie.Msg
						return
					}
					panic(r)
				}
			}()
			v.lo, v.cmd = goList(root, listPkg, v.set)
		}(&verdicts[i])
	}
	wg.Wait()
	for _, v := range verdicts {
		if v.infraText != "" {
			vh.Infra("%s", v.infraText)
		}
		for _, of := range outFiles {
			base := filepath.Base(of)
			included := has(v.lo.GoFiles, base) || has(v.lo.TestGoFiles, base) || has(v.lo.XTestGoFiles, base)
			ignored := has(v.lo.IgnoredGoFiles, base)
			detail := fmt.Sprintf("%s\n  -> GoFiles=%v TestGoFiles=%v XTestGoFiles=%v IgnoredGoFiles=%v InvalidGoFiles=%v", v.cmd, v.lo.GoFiles, v.lo.TestGoFiles, v.lo.XTestGoFiles, v.lo.IgnoredGoFiles, v.lo.InvalidGoFiles)
			if included == ignored {
				vl := fail("constraint/file-not-classified-by-go-list", "%s: go list neither includes nor ignores the file under tags %v", of, v.set)
				vl.Observed += "\n--- " + detail
				return vl
			}
			if included != v.want {
				diag := "constraint/included-although-expression-false"
				if !included {
					diag = "constraint/excluded-although-expression-true"
				}
				if !c.HasTags {
					diag = "constraint/excluded-without-mock-build-tags"
				}
				vl := fail(diag, "%s: with tags %v the expression %q evaluates to %v but the toolchain included=%v", of, v.set, c.Expr, v.want, included)
				vl.Observed += "\n--- " + detail
				return vl
			}
		}
	}
	return nil
}

func assignment(tags []string, m int) map[string]bool {
	set := map[string]bool{}
	for i, t := range tags {
		set[t] = m&(1<<i) != 0
	}
	return set
}

func bucket(n int) string {
	switch {
	case n <= 2:
		return fmt.Sprint(n)
	case n <= 4:
		return "3-4"
	case n <= 8:
		return "5-8"
	}
	return "9+"
}

func TestProp(t *testing.T) {
	if _, err := os.Stat(vh.SUT()); err != nil {
		t.Skipf("mockery binary missing: %v", err)
	}
	vh.Main(t, vh.Check[Case]{Gen: gen, Run: run})
}
