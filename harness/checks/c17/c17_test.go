// C17 — generated-file marker, boilerplate and build constraints are effective.
//
// A case is a small scratch module (one package, 1–2 interfaces) and a .mockery.yml choosing
// template × formatter × output layout × template-data {mock-build-tags, boilerplate-file}.
// The real mockery binary is run once; every written file is then inspected:
//
//	(i)   a line matching ^// Code generated .* DO NOT EDIT\.$ lies before the first non-comment
//	      token (go/scanner) and go/ast.IsGenerated agrees;
//	(ii)  the boilerplate content occurs byte-for-byte before the package clause (surrounding
//	      newlines are don't-care; under gofmt/goimports a text that go/format itself does not
//	      leave alone in a neutral header is don't-care);
//	(iii) for all 2^n assignments of the mentioned tags, `go list -tags` includes the file
//	      exactly when an independent evaluation of the expression is true.
//
// The mock is never compiled (that is C01).
package c17

import (
	"bytes"
	"encoding/json"
	"fmt"
	"go/ast"
	"go/build/constraint"
	"go/format"
	"go/parser"
	"go/scanner"
	"go/token"
	"os"
	"path/filepath"
	"regexp"
	"sort"
	"strings"
	"sync"
	"testing"
	"time"

	"pgregory.net/rapid"
	"verif/harness/vh"
)

// Header is one setting of the two header-related template-data keys.
type Header struct {
	HasTags bool   `json:"has_tags"`
	Expr    string `json:"expr"` // value of mock-build-tags
	HasBP   bool   `json:"has_bp"`
	BP      string `json:"bp"`      // content of the boilerplate file
	BPPath  string `json:"bp_path"` // rel | dotrel | subdir | abs
}

type Case struct {
	Template  string `json:"template"`  // testify | matryer
	Formatter string `json:"formatter"` // goimports | gofmt | noop
	Layout    string `json:"layout"`    // test (mocks_test.go in the source package) | nontest (mocks.go, same package) | separate (mocks/mocks.go, package mocks)
	PerIface  bool   `json:"per_iface"` // one output file per interface instead of one shared file
	Ifaces    int    `json:"ifaces"`    // 1..3
	Level     string `json:"level"`     // where the file-level template-data is written: root | package
	// the file-level header settings (of the last run)
	HasTags bool   `json:"has_tags"`
	Expr    string `json:"expr"`
	HasBP   bool   `json:"has_bp"`
	BP      string `json:"bp"`
	BPPath  string `json:"bp_path"`

	// Mode "" = one run. "tworun" = a first run with the header settings Prev, then a second run over the
	// same output files with the settings above (force-file-write: true); the file after the last run is
	// judged with the last run's settings. "ifacelevel" = one file per interface, some interfaces carry
	// mock-build-tags / boilerplate-file in their own config.template-data; mockery is run Runs times
	// (map iteration order) and every run is judged.
	Mode          string   `json:"mode,omitempty"`
	Prev          *Header  `json:"prev,omitempty"`
	IfaceTD       []Header `json:"iface_td,omitempty"`       // per interface (Doer, Namer, Closer); zero value = nothing at interface level
	IfaceFilename bool     `json:"iface_filename,omitempty"` // filename written into each interface's config instead of a package-level filename template
	Runs          int      `json:"runs,omitempty"`

	// Mode "tree": several packages (a recursive parent, listed and merely discovered sub-packages, an
	// unrelated package), header keys at any of root / package / interface level, boilerplate files from a
	// pool; one run, one output file per package, each judged against its own effective configuration.
	Tree *Tree `json:"tree,omitempty"`
}

func (c Case) hdr() Header {
	return Header{HasTags: c.HasTags, Expr: c.Expr, HasBP: c.HasBP, BP: c.BP, BPPath: c.BPPath}
}

// ---- independent build-constraint evaluator ----------------------------------------------------
//
//	or  := and { "||" and }
//	and := not { "&&" not }
//	not := "!" atom | atom            (no double negation, as in the Go grammar)
//	atom := tag | "(" or ")"

type exprParser struct {
	s    string
	pos  int
	tags map[string]bool // mentioned tags
	ops  int
	err  error
}

func (p *exprParser) ws() {
	for p.pos < len(p.s) && (p.s[p.pos] == ' ' || p.s[p.pos] == '\t') {
		p.pos++
	}
}

func (p *exprParser) lit(l string) bool {
	p.ws()
	if strings.HasPrefix(p.s[p.pos:], l) {
		p.pos += len(l)
		return true
	}
	return false
}

func isTagByte(b byte) bool {
	return b == '_' || b == '.' || (b >= '0' && b <= '9') || (b >= 'a' && b <= 'z') || (b >= 'A' && b <= 'Z')
}

type evalFn func(set map[string]bool) bool

func (p *exprParser) or() evalFn {
	l := p.and()
	for p.err == nil && p.lit("||") {
		p.ops++
		a, b := l, p.and()
		l = func(s map[string]bool) bool { x, y := a(s), b(s); return x || y }
	}
	return l
}

func (p *exprParser) and() evalFn {
	l := p.not()
	for p.err == nil && p.lit("&&") {
		p.ops++
		a, b := l, p.not()
		l = func(s map[string]bool) bool { x, y := a(s), b(s); return x && y }
	}
	return l
}

func (p *exprParser) not() evalFn {
	if p.lit("!") {
		p.ops++
		p.ws()
		if p.pos < len(p.s) && p.s[p.pos] == '!' {
			p.err = fmt.Errorf("double negation at %d", p.pos)
			return func(map[string]bool) bool { return false }
		}
		a := p.atom()
		return func(s map[string]bool) bool { return !a(s) }
	}
	return p.atom()
}

func (p *exprParser) atom() evalFn {
	bad := func(map[string]bool) bool { return false }
	if p.err != nil {
		return bad
	}
	if p.lit("(") {
		e := p.or()
		if p.err == nil && !p.lit(")") {
			p.err = fmt.Errorf("missing ) at %d", p.pos)
		}
		return e
	}
	p.ws()
	st := p.pos
	for p.pos < len(p.s) && isTagByte(p.s[p.pos]) {
		p.pos++
	}
	if p.pos == st {
		p.err = fmt.Errorf("tag expected at %d", p.pos)
		return bad
	}
	name := p.s[st:p.pos]
	p.tags[name] = true
	return func(s map[string]bool) bool { return s[name] }
}

// parseExpr returns the evaluator, the sorted list of mentioned tags and the operator count.
func parseExpr(s string) (evalFn, []string, int, error) {
	p := &exprParser{s: s, tags: map[string]bool{}}
	f := p.or()
	if p.err == nil {
		p.ws()
		if p.pos != len(p.s) {
			p.err = fmt.Errorf("trailing text at %d", p.pos)
		}
	}
	if p.err != nil {
		return nil, nil, 0, p.err
	}
	var tags []string
	for t := range p.tags {
		tags = append(tags, t)
	}
	sort.Strings(tags)
	return f, tags, p.ops, nil
}

// ---- generators --------------------------------------------------------------------------------

// custom tags only: nothing the toolchain sets by itself (GOOS, GOARCH, cgo, unix, go1.x, gc, race ...)
var tagPool = []string{"foo", "bar", "baz", "qux", "integ", "e2e", "mock_gen"}

type node struct {
	op   string // "tag", "!", "&&", "||"
	tag  string
	l, r *node
}

// genNode draws an expression tree. Leaves walk through the chosen tags (so that all of them tend to be
// mentioned) with an occasional repeat; the root of a non-single expression is always an operator.
func genNode(t *rapid.T, tags []string, depth int, root bool, leaf *int) *node {
	k := rapid.IntRange(0, 9).Draw(t, "nodekind")
	if depth <= 0 || (k <= 2 && !root) {
		i := *leaf % len(tags)
		*leaf++
		if rapid.IntRange(0, 3).Draw(t, "repeat") == 0 {
			i = rapid.IntRange(0, len(tags)-1).Draw(t, "tag")
		}
		return &node{op: "tag", tag: tags[i]}
	}
	switch {
	case k == 3 || k == 4 || (root && k == 0):
		return &node{op: "!", l: genNode(t, tags, depth-1, false, leaf)}
	case k <= 7 && k >= 5 || (root && k == 1):
		return &node{op: "&&", l: genNode(t, tags, depth-1, false, leaf), r: genNode(t, tags, depth-1, false, leaf)}
	default:
		return &node{op: "||", l: genNode(t, tags, depth-1, false, leaf), r: genNode(t, tags, depth-1, false, leaf)}
	}
}

func render(t *rapid.T, n *node, sp func() string) string {
	paren := func(s string) string { return "(" + sp() + s + sp() + ")" }
	extra := func(s string) string {
		if rapid.IntRange(0, 7).Draw(t, "extraparen") == 0 {
			return paren(s)
		}
		return s
	}
	switch n.op {
	case "tag":
		return extra(n.tag)
	case "!":
		in := render(t, n.l, sp)
		if n.l.op != "tag" { // "!" binds to a tag or a parenthesised group; "!!" is not Go syntax
			in = paren(in)
		}
		return "!" + in
	case "&&":
		l, r := render(t, n.l, sp), render(t, n.r, sp)
		if n.l.op == "||" {
			l = paren(l)
		}
		if n.r.op == "||" {
			r = paren(r)
		}
		return extra(l + sp() + "&&" + sp() + r)
	default:
		return extra(render(t, n.l, sp) + sp() + "||" + sp() + render(t, n.r, sp))
	}
}

// genExpr draws an expression over at most maxTags of the tags in pool.
func genExpr(t *rapid.T, pool []string, maxTags int) string {
	sizes := []int{3, 2, 4, 2, 1, 3, 4} // rapid favours low indices: the interesting sizes come first
	if maxTags < 4 {
		sizes = []int{2, 1, 2}
	}
	ntags := min(rapid.SampledFrom(sizes).Draw(t, "ntags"), maxTags, len(pool))
	perm := rapid.Permutation(pool).Draw(t, "tagperm")
	tags := perm[:ntags]
	var n *node
	if rapid.IntRange(0, 7).Draw(t, "single") == 0 {
		n = &node{op: "tag", tag: tags[0]}
	} else {
		depths := []int{2, 3, 2, 1, 4, 3}
		if maxTags < 4 {
			depths = []int{1, 2, 2}
		}
		leaf := 0
		n = genNode(t, tags, rapid.SampledFrom(depths).Draw(t, "depth"), true, &leaf)
	}
	style := rapid.IntRange(0, 5).Draw(t, "spacing") // 0: none, 1..4: single spaces, 5: irregular
	sp := func() string {
		switch style {
		case 0:
			return ""
		case 5:
			return rapid.SampledFrom([]string{"", " ", "  ", "\t"}).Draw(t, "sp")
		}
		return " "
	}
	s := render(t, n, sp)
	if _, tg, _, err := parseExpr(s); err != nil || len(tg) > maxTags {
		return tags[0]
	}
	return s
}

// printable reports whether go/printer's rewriting of the //go:build line keeps the expression valid
// (it prints !(!x) as "!!x", which is not Go syntax).
func printable(expr string) bool {
	x, err := constraint.Parse("//go:build " + expr)
	if err != nil {
		return false
	}
	_, err = constraint.Parse("//go:build " + x.String())
	return err == nil
}

func genHeader(t *rapid.T, pool []string, maxTags int, onlyPrintable bool) Header {
	h := Header{BPPath: "rel"}
	h.HasTags = rapid.IntRange(0, 7).Draw(t, "hastags") > 0
	if h.HasTags {
		h.Expr = genExpr(t, pool, maxTags)
		if onlyPrintable && !printable(h.Expr) {
			h.Expr = pool[0]
		}
	}
	h.HasBP = rapid.IntRange(0, 7).Draw(t, "hasbp") > 0
	if h.HasBP {
		h.BP = genBoilerplate(t)
		h.BPPath = rapid.SampledFrom([]string{"rel", "rel", "dotrel", "subdir", "abs"}).Draw(t, "bppath")
	}
	return h
}

var words = []string{
	"Copyright", "©", "(c)", "2024", "ACME", "Inc.", "All", "rights", "reserved.", "Licensed", "under", "the",
	"Apache", "License,", "Version", "2.0", "SPDX-License-Identifier:", "MIT", "BSD-3-Clause",
	"http://www.apache.org/licenses/LICENSE-2.0", "日本語", "Ünïcödé", "naïve", "—", "🎉", "Ελληνικά",
	"`code`", "{{.NotATemplate}}", "{{", "}}", `"quoted"`, "'", `\n`, "%s", "%!d", "$HOME", "*", "**", "/", "#",
	"package", "import", "func", "build", "go", "DO", "NOT", "EDIT", "a\tb", "x",
}

func genText(t *rapid.T, inBlock bool) string {
	n := rapid.IntRange(0, 6).Draw(t, "nwords")
	var ws []string
	for i := 0; i < n; i++ {
		w := rapid.SampledFrom(words).Draw(t, "word")
		if !inBlock && rapid.IntRange(0, 99).Draw(t, "slashstar") == 0 {
			w = "/*" // a block-comment opener inside a line comment is plain text
		}
		ws = append(ws, w)
	}
	s := strings.Join(ws, " ")
	if inBlock {
		s = strings.ReplaceAll(s, "*/", "*-/") // cannot happen with the word pool; keeps a block comment closed only by its own terminator
	}
	return s
}

// genBoilerplate draws a comment-only text of 1–20 lines: groups of line comments, blank
// comment lines, one-line and multi-line block comments, separated by 0–2 blank lines.
func genBoilerplate(t *rapid.T) string {
	var lines []string
	nseg := rapid.IntRange(1, 6).Draw(t, "nseg")
	quirk := rapid.IntRange(0, 19).Draw(t, "quirk") // 0: trailing blanks on a line, 1: double blank line, 2: indented block interior, 3: CRLF, 4: first line indented; 5..19: none
	for i := 0; i < nseg && len(lines) < 20; i++ {
		if i > 0 {
			switch g := rapid.IntRange(0, 9).Draw(t, "gap"); {
			case g <= 4:
			case g <= 8 || quirk != 1:
				lines = append(lines, "")
			default:
				lines = append(lines, "", "")
			}
		}
		switch k := rapid.IntRange(0, 9).Draw(t, "segkind"); {
		case k <= 4: // group of line comments
			n := rapid.IntRange(1, 6).Draw(t, "nline")
			for j := 0; j < n; j++ {
				txt := genText(t, false)
				switch {
				case txt == "" || rapid.IntRange(0, 6).Draw(t, "blankcomment") == 0:
					lines = append(lines, "//")
				case rapid.IntRange(0, 7).Draw(t, "nospace") == 0 && !strings.HasPrefix(txt, "go") && !strings.HasPrefix(txt, "+") && !strings.HasPrefix(txt, "line") && !strings.HasPrefix(txt, "export"):
					lines = append(lines, "//"+txt)
				default:
					lines = append(lines, "// "+txt)
				}
			}
		case k <= 6: // one-line block comment
			lines = append(lines, "/* "+genText(t, true)+" */")
		default: // multi-line block comment
			n := rapid.IntRange(1, 6).Draw(t, "nblock")
			switch st := rapid.IntRange(0, 3).Draw(t, "blockstyle"); {
			case st == 0: // star-aligned
				lines = append(lines, "/*")
				for j := 0; j < n; j++ {
					lines = append(lines, strings.TrimRight(" * "+genText(t, true), " "))
				}
				lines = append(lines, " */")
			case st == 1: // text starts on the opening line
				lines = append(lines, strings.TrimRight("/* "+genText(t, true), " "))
				for j := 0; j < n; j++ {
					lines = append(lines, genText(t, true))
				}
				lines = append(lines, "*/")
			case st == 2 && quirk == 2: // interior indented (go/printer may re-indent)
				ind := rapid.SampledFrom([]string{"  ", "\t", "    "}).Draw(t, "indent")
				lines = append(lines, "/*")
				for j := 0; j < n; j++ {
					lines = append(lines, strings.TrimRight(ind+genText(t, true), " \t"))
				}
				lines = append(lines, "*/")
			default: // plain
				lines = append(lines, "/*")
				for j := 0; j < n; j++ {
					lines = append(lines, genText(t, true))
				}
				lines = append(lines, "*/")
			}
		}
	}
	if len(lines) > 20 {
		lines = closeBlocks(lines[:20]) // never cut a block comment open
	}
	switch quirk {
	case 4: // first line indented (still comment-only; a formatter removes the indentation, noop must keep it)
		lines[0] = rapid.SampledFrom([]string{" ", "\t", "  "}).Draw(t, "lead") + lines[0]
	case 0:
		i := len(lines) - 1 // the last line half of the time: whitespace at the very end of the text
		if rapid.Bool().Draw(t, "twslast") {
			i = rapid.IntRange(0, len(lines)-1).Draw(t, "trailingws")
		}
		if lines[i] != "" {
			lines[i] += rapid.SampledFrom([]string{" ", "  ", "\t"}).Draw(t, "tws")
		}
	}
	nl := "\n"
	if quirk == 3 {
		nl = "\r\n"
	}
	s := strings.Join(lines, nl)
	switch e := rapid.IntRange(0, 9).Draw(t, "ending"); {
	case e <= 4:
		s += nl
	case e <= 7: // no final newline
	case e == 8:
		s += nl + nl
	default:
		s = nl + s + nl
	}
	return s
}

// closeBlocks repairs a line list that was truncated inside a block comment: it is cut
// back to the last line before the unterminated "/*".
func closeBlocks(lines []string) []string {
	depthOpen := -1
	in := false
	for i, ln := range lines {
		rest := ln
		for {
			if in {
				j := strings.Index(rest, "*/")
				if j < 0 {
					break
				}
				in, rest = false, rest[j+2:]
				continue
			}
			if strings.HasPrefix(strings.TrimSpace(rest), "//") {
				break
			}
			j := strings.Index(rest, "/*")
			if j < 0 {
				break
			}
			in, depthOpen, rest = true, i, rest[j+2:]
		}
	}
	if in {
		lines = lines[:depthOpen]
		for len(lines) > 0 && lines[len(lines)-1] == "" {
			lines = lines[:len(lines)-1]
		}
		if len(lines) == 0 {
			lines = []string{"// truncated"}
		}
	}
	return lines
}

func gen(t *rapid.T) Case {
	c := Case{
		Template:  rapid.SampledFrom([]string{"testify", "matryer"}).Draw(t, "template"),
		Formatter: rapid.SampledFrom([]string{"goimports", "gofmt", "noop"}).Draw(t, "formatter"),
		Layout:    rapid.SampledFrom([]string{"test", "nontest", "separate"}).Draw(t, "layout"),
		Ifaces:    rapid.IntRange(1, 2).Draw(t, "ifaces"),
		Level:     rapid.SampledFrom([]string{"root", "root", "package"}).Draw(t, "level"),
		Mode:      rapid.SampledFrom([]string{"tree", "tworun", "ifacelevel", "", "", "tree", "", "tworun", "", "ifacelevel", "", ""}).Draw(t, "mode"),
	}
	set := func(h Header) {
		c.HasTags, c.Expr, c.HasBP, c.BP, c.BPPath = h.HasTags, h.Expr, h.HasBP, h.BP, h.BPPath
	}
	switch c.Mode {
	case "":
		c.PerIface = c.Ifaces == 2 && rapid.IntRange(0, 2).Draw(t, "periface") == 0
		set(genHeader(t, tagPool, 4, false))

	case "tworun":
		// two tag pools of two tags each: the union of mentioned tags stays <= 4
		c.PerIface = c.Ifaces == 2 && rapid.IntRange(0, 2).Draw(t, "periface") == 0
		perm := rapid.Permutation(tagPool).Draw(t, "pools")
		last := genHeader(t, perm[:2], 2, false)
		prev := genHeader(t, perm[1:3], 2, true) // overlaps with the last run's pool in one tag
		// per key, how the second run differs from the first: changed (as drawn), added, removed, same
		switch rapid.SampledFrom([]string{"changed", "removed", "added", "changed", "same"}).Draw(t, "tagstrans") {
		case "removed":
			if !prev.HasTags {
				prev.HasTags, prev.Expr = true, perm[1]
			}
			last.HasTags, last.Expr = false, ""
		case "added":
			prev.HasTags, prev.Expr = false, ""
			if !last.HasTags {
				last.HasTags, last.Expr = true, perm[0]
			}
		case "same":
			prev.HasTags, prev.Expr = last.HasTags, last.Expr
			if !printable(prev.Expr) && prev.HasTags {
				prev.Expr, last.Expr = perm[0], perm[0]
			}
		}
		switch rapid.SampledFrom([]string{"changed", "same", "removed", "added", "path-only", "same"}).Draw(t, "bptrans") {
		case "removed":
			if !prev.HasBP {
				prev.HasBP, prev.BP = true, "// Copyright ACME (previous run)\n"
			}
			last.HasBP, last.BP, last.BPPath = false, "", "rel"
		case "added":
			prev.HasBP, prev.BP, prev.BPPath = false, "", "rel"
			if !last.HasBP {
				last.HasBP, last.BP = true, "/* Licensed under MIT (second run) */"
			}
		case "same":
			prev.HasBP, prev.BP, prev.BPPath = last.HasBP, last.BP, last.BPPath
		case "path-only":
			prev.HasBP, prev.BP = last.HasBP, last.BP
			if last.HasBP {
				prev.BPPath = map[string]string{"rel": "subdir", "dotrel": "subdir", "subdir": "rel", "abs": "subdir"}[last.BPPath]
			}
		}
		set(last)
		c.Prev = &prev

	case "tree":
		c.Layout = rapid.SampledFrom([]string{"test", "nontest"}).Draw(t, "treelayout")
		c.Ifaces, c.Level, c.BPPath = 1, "root", "rel"
		c.Tree = genTree(t)

	case "ifacelevel":
		c.Ifaces = rapid.SampledFrom([]int{2, 3, 3}).Draw(t, "nifaces")
		c.PerIface = true
		c.IfaceFilename = rapid.Bool().Draw(t, "ifacefilename")
		c.Runs = rapid.IntRange(4, 8).Draw(t, "runs")
		perm := rapid.Permutation(tagPool).Draw(t, "pools")
		// file level: usually nothing (the question is then whether a file stays unconstrained)
		if rapid.IntRange(0, 3).Draw(t, "filelevel") == 0 {
			set(genHeader(t, perm[:2], 2, true)) // printable: the files are loaded again by the following runs
		} else {
			c.BPPath = "rel"
		}
		c.IfaceTD = make([]Header, c.Ifaces)
		some := false
		for i := range c.IfaceTD {
			if i == c.Ifaces-1 && some {
				break // at least one interface stays without interface-level keys
			}
			if rapid.IntRange(0, 2).Draw(t, "ifacetd") > 0 || (!some && i == c.Ifaces-2) {
				h := genHeader(t, perm[2:4], 2, true)
				if !h.HasTags && !h.HasBP {
					h.HasTags, h.Expr = true, perm[2]
				}
				c.IfaceTD[i] = h
				some = true
			}
		}
	}
	return c
}

// ---- boilerplate analysis ----------------------------------------------------------------------

// commentOnly verifies with go/scanner that text consists of comments only, that no comment is
// a directive the harness promised not to generate, and reports whether a block comment occurs.
func commentOnly(text string) (ok bool, hasBlock bool, why string) {
	src := strings.ReplaceAll(text, "\r\n", "\n") + "\npackage p\n"
	fset := token.NewFileSet()
	f := fset.AddFile("bp", -1, len(src))
	var s scanner.Scanner
	nerr := 0
	s.Init(f, []byte(src), func(token.Position, string) { nerr++ }, scanner.ScanComments)
	n := 0
	for {
		_, tok, lit := s.Scan()
		if tok == token.COMMENT {
			n++
			if strings.HasPrefix(lit, "/*") {
				hasBlock = true
			}
			if strings.HasPrefix(lit, "//go:") || strings.HasPrefix(lit, "//line ") || strings.HasPrefix(lit, "//export ") ||
				regexp.MustCompile(`^//\s*\+build`).MatchString(lit) || strings.Contains(lit, "// Code generated") {
				return false, hasBlock, "directive-like comment " + lit
			}
			continue
		}
		if tok != token.PACKAGE {
			return false, hasBlock, "non-comment token " + tok.String()
		}
		break
	}
	if nerr > 0 || n == 0 {
		return false, hasBlock, "scanner errors or empty"
	}
	return true, hasBlock, ""
}

// core is the part of the boilerplate that must appear byte-for-byte: the text without
// leading/trailing newline characters.
func core(bp string) string { return strings.Trim(bp, "\r\n") }

// chunks splits the core at runs of blank lines: the comment groups of the boilerplate.
func chunks(cr string) []string {
	var out []string
	for _, ch := range regexp.MustCompile(`(\r?\n){2,}`).Split(cr, -1) {
		if ch != "" {
			out = append(out, ch)
		}
	}
	return out
}

// containsInOrder reports whether every part occurs in hay, one after the other without overlap.
func containsInOrder(hay []byte, parts []string) bool {
	for _, p := range parts {
		i := bytes.Index(hay, []byte(p))
		if i < 0 {
			return false
		}
		hay = hay[i+len(p):]
	}
	return true
}

// gofmtStable reports what go/format itself leaves alone when the boilerplate stands in a neutral
// generated-file header (alone; after another line comment; followed by the //go:build line):
// 2 = the whole core survives byte-for-byte, 1 = every comment group of it survives, in order (go/printer
// hoists a //go:build line to the last blank line before the first block comment, which may be inside the
// boilerplate, and collapses runs of blank lines), 0 = go/format rewrites comment text (trailing blanks,
// CR, block-comment interiors). A formatted output is only required to preserve what go/format preserves.
func gofmtStable(bp, expr string) int {
	cr := core(bp)
	ctx := []string{
		bp + "\n\npackage p\n",
		"// Header line.\n" + bp + "\n\npackage p\n",
	}
	if expr != "" {
		ctx = append(ctx, "// Header line.\n"+bp+"\n\n//go:build "+expr+"\n\npackage p\n")
	}
	level := 2
	for _, src := range ctx {
		out, err := format.Source([]byte(src))
		if err != nil {
			return 0
		}
		i := bytes.Index(out, []byte("package p"))
		if i < 0 {
			return 0
		}
		switch {
		case bytes.Contains(out[:i], []byte(cr)):
		case containsInOrder(out[:i], chunks(cr)):
			level = min(level, 1)
		default:
			return 0
		}
	}
	return level
}

// ---- scratch module ----------------------------------------------------------------------------

const modPath = "example.com/m"

func yq(s string) string { b, _ := json.Marshal(s); return string(b) } // a JSON string is a YAML double-quoted scalar (ASCII input)

var ifaceNames = []string{"Doer", "Namer", "Closer"}

type outFile struct {
	path  string
	iface int // index of the single interface in the file, -1 for a shared file
}

// tdLines renders one header setting as template-data lines and returns the boilerplate file to write.
func tdLines(h Header, root, stem string) (lines []string, rel, content string) {
	if h.HasBP {
		rel = stem + ".txt"
		val := rel
		switch h.BPPath {
		case "dotrel":
			val = "./" + rel
		case "subdir":
			rel = "hack/" + stem + " header.txt"
			val = rel
		case "abs":
			val = filepath.Join(root, rel)
		}
		content = h.BP
		lines = append(lines, "boilerplate-file: "+yq(val))
	}
	if h.HasTags {
		lines = append(lines, "mock-build-tags: "+yq(h.Expr))
	}
	return lines, rel, content
}

func tdBlock(td []string, indent string) string {
	if len(td) == 0 {
		return ""
	}
	s := indent + "template-data:\n"
	for _, l := range td {
		s += indent + "  " + l + "\n"
	}
	return s
}

// build renders the module for one run with file-level header settings h.
func build(c Case, h Header, root string) (files map[string]string, outFiles []outFile, listPkg string) {
	src := "package p\n\ntype Doer interface{ Do(x int) error }\n"
	if c.Ifaces > 1 {
		src += "\ntype Namer interface {\n\tName() string\n\tSetName(name string, opts ...string)\n}\n"
	}
	if c.Ifaces > 2 {
		src += "\ntype Closer interface{ Close() error }\n"
	}
	names := ifaceNames[:c.Ifaces]
	files = map[string]string{"p/p.go": src}
	dir, pkg, base := "{{.InterfaceDir}}", "p", "mocks_test.go"
	outDir := "p"
	listPkg = "./p"
	switch c.Layout {
	case "nontest":
		base = "mocks.go"
	case "separate":
		dir, pkg, base, outDir, listPkg = "mocks", "mocks", "mocks.go", "mocks", "./mocks"
	}
	filename := base
	if c.PerIface {
		if !c.IfaceFilename {
			filename = "mock_{{.InterfaceName}}_" + base
		}
		for i, n := range names {
			outFiles = append(outFiles, outFile{outDir + "/mock_" + n + "_" + base, i})
		}
	} else {
		outFiles = []outFile{{outDir + "/" + base, -1}}
	}
	td, rel, content := tdLines(h, root, "boilerplate")
	if rel != "" {
		files[rel] = content
	}
	y := "template: " + c.Template + "\nformatter: " + c.Formatter + "\n"
	if c.Mode != "" {
		y += "force-file-write: true\n"
	}
	y += "dir: " + yq(dir) + "\nfilename: " + yq(filename) + "\npkgname: " + pkg + "\n"
	if c.Level == "root" {
		y += tdBlock(td, "")
	}
	y += "packages:\n  " + modPath + "/p:\n    config:\n      all: true\n"
	if c.Level != "root" {
		y += tdBlock(td, "      ")
	}
	if c.Mode == "ifacelevel" {
		entries := ""
		for i, n := range names {
			e := ""
			if c.IfaceFilename {
				e += "          filename: " + yq("mock_"+n+"_"+base) + "\n"
			}
			if i < len(c.IfaceTD) {
				itd, irel, icontent := tdLines(c.IfaceTD[i], root, "iface_"+n)
				if irel != "" {
					files[irel] = icontent
				}
				e += tdBlock(itd, "          ")
			}
			if e != "" {
				entries += "      " + n + ":\n        config:\n" + e
			}
		}
		if entries != "" {
			y += "    interfaces:\n" + entries
		}
	}
	files[".mockery.yml"] = y
	return files, outFiles, listPkg
}

// ---- oracle ------------------------------------------------------------------------------------

var markerRe = regexp.MustCompile(`^// Code generated .* DO NOT EDIT\.$`)

// header returns the byte offset of the first non-comment token and whether it is `package`.
func header(src []byte) (off int, isPackage bool, scanErrs int) {
	fset := token.NewFileSet()
	f := fset.AddFile("out.go", -1, len(src))
	var s scanner.Scanner
	s.Init(f, src, func(token.Position, string) { scanErrs++ }, scanner.ScanComments)
	for {
		pos, tok, _ := s.Scan()
		if tok == token.COMMENT {
			continue
		}
		if tok == token.EOF {
			return len(src), false, scanErrs
		}
		return f.Offset(pos), tok == token.PACKAGE, scanErrs
	}
}

type listOut struct {
	ImportPath                                                         string
	GoFiles, TestGoFiles, XTestGoFiles, IgnoredGoFiles, InvalidGoFiles []string
	Error                                                              *struct{ Err string }
}

// goList asks the toolchain which files of the given packages take part in a build under tags.
func goList(root string, pkgs []string, tags []string) (map[string]listOut, string) {
	args := []string{"list", "-e"}
	if len(tags) > 0 {
		args = append(args, "-tags", strings.Join(tags, ","))
	}
	args = append(args, "-json=ImportPath,GoFiles,TestGoFiles,XTestGoFiles,IgnoredGoFiles,InvalidGoFiles,Error")
	args = append(args, pkgs...)
	r := vh.GoRun(root, 120*time.Second, args...)
	if r.TimedOut {
		vh.Infra("go list timed out")
	}
	out := map[string]listOut{}
	dec := json.NewDecoder(strings.NewReader(r.Stdout))
	for dec.More() {
		var lo listOut
		if err := dec.Decode(&lo); err != nil {
			vh.Infra("go list %v in %s: exit %d, undecodable output: %v\n%s", args, root, r.Exit, err, vh.Trunc(r.Both(), 1500))
		}
		out[lo.ImportPath] = lo
	}
	if len(out) != len(pkgs) {
		vh.Infra("go list %v in %s: exit %d, %d packages reported\n%s", args, root, r.Exit, len(out), vh.Trunc(r.Both(), 1500))
	}
	return out, "go " + strings.Join(args, " ")
}

func has(l []string, s string) bool {
	for _, x := range l {
		if x == s {
			return true
		}
	}
	return false
}

var (
	tmpRe = regexp.MustCompile(`/[^\s"':]*vscratch[^\s"':]*`)
	tsRe  = regexp.MustCompile(`\d{4}-\d\d-\d\dT[\d:.]+Z? ?`)
	numRe = regexp.MustCompile(`\d+`)
)

func normDiag(s string) string {
	s = tmpRe.ReplaceAllString(s, "<tmp>")
	s = tsRe.ReplaceAllString(s, "")
	for _, ln := range strings.Split(s, "\n") {
		if strings.Contains(ln, " ERR ") || strings.Contains(ln, " FTL ") || strings.HasPrefix(ln, "panic") {
			s = ln
			break
		}
	}
	s = numRe.ReplaceAllString(s, "N")
	s = strings.Join(strings.Fields(s), "_")
	return vh.Trunc(s, 90)
}

func bpShape(c Header) (labels []string, hasBlock, noFinalNL bool) {
	if !c.HasBP {
		return []string{"bp=absent"}, false, false
	}
	_, hasBlock, _ = commentOnly(c.BP)
	noFinalNL = !strings.HasSuffix(c.BP, "\n")
	hasLine := regexp.MustCompile(`(?m)^//`).MatchString(c.BP)
	switch {
	case hasBlock && hasLine:
		labels = append(labels, "bp=mixed")
	case hasBlock:
		labels = append(labels, "bp=block-only")
	default:
		labels = append(labels, "bp=line-only")
	}
	if noFinalNL {
		labels = append(labels, "bp:no-final-newline")
	}
	if strings.HasSuffix(c.BP, "\n\n") || strings.HasSuffix(c.BP, "\n\r\n") {
		labels = append(labels, "bp:trailing-blank-lines")
	}
	if strings.HasPrefix(c.BP, "\n") || strings.HasPrefix(c.BP, "\r\n") {
		labels = append(labels, "bp:leading-blank-line")
	}
	if strings.Contains(c.BP, "\r") {
		labels = append(labels, "bp:crlf")
	}
	if regexp.MustCompile(`(?m)^//\r?$`).MatchString(c.BP) {
		labels = append(labels, "bp:blank-comment-line")
	}
	if regexp.MustCompile(`\n\r?\n[^\r\n]`).MatchString(core(c.BP)) {
		labels = append(labels, "bp:inner-blank-line")
	}
	if regexp.MustCompile(`[^\x00-\x7f]`).MatchString(c.BP) {
		labels = append(labels, "bp:unicode")
	}
	if strings.Contains(c.BP, "{{") {
		labels = append(labels, "bp:template-braces")
	}
	if regexp.MustCompile(`(?m)[ \t]+\r?$`).MatchString(c.BP) {
		labels = append(labels, "bp:trailing-whitespace")
	}
	if cr := core(c.BP); strings.TrimSpace(cr) != cr {
		labels = append(labels, "bp:whitespace-at-either-end")
	}
	n := strings.Count(core(c.BP), "\n") + 1
	switch {
	case n == 1:
		labels = append(labels, "bp:lines=1")
	case n <= 5:
		labels = append(labels, "bp:lines=2-5")
	case n <= 12:
		labels = append(labels, "bp:lines=6-12")
	default:
		labels = append(labels, "bp:lines=13-20")
	}
	labels = append(labels, "bp:path="+c.BPPath)
	return labels, hasBlock, noFinalNL
}

// headerInfo is the harness's analysis of one header setting.
type headerInfo struct {
	eval          evalFn
	tags          []string
	ops           int
	printerBreaks bool // formatter != noop and go/printer prints the expression back as invalid syntax (!!x)
	hasBlock      bool
	noFinalNL     bool
	stable        int // gofmtStable level of the boilerplate
	bpLabels      []string
}

// analyse validates a header setting (generator soundness; trouble is INFRA, never a violation).
func analyse(h Header, formatter string) headerInfo {
	hi := headerInfo{stable: 2}
	if h.HasTags {
		var err error
		hi.eval, hi.tags, hi.ops, err = parseExpr(h.Expr)
		if err != nil || len(hi.tags) == 0 || len(hi.tags) > 4 {
			vh.Invalid()
			vh.Infra("generator produced an expression outside the domain: %q (%v)", h.Expr, err)
		}
		// cross-check the harness's evaluator with go/build/constraint on the full truth table
		x, err := constraint.Parse("//go:build " + h.Expr)
		if err != nil {
			vh.Invalid()
			vh.Infra("go/build/constraint rejects generated expression %q: %v", h.Expr, err)
		}
		for m := 0; m < 1<<len(hi.tags); m++ {
			set := assignment(hi.tags, m)
			if hi.eval(set) != x.Eval(func(t string) bool { return set[t] }) {
				vh.Invalid()
				vh.Infra("harness evaluator disagrees with go/build/constraint on %q under %v", h.Expr, set)
			}
		}
		// go/printer (gofmt, goimports) rewrites a //go:build line to constraint.Expr.String(), which prints
		// !(!x) as "!!x" — not Go syntax. Such an expression survives only the noop formatter; with the other
		// two the damage is done by the Go formatter, not by mockery: don't-care for clause (iii).
		hi.printerBreaks = formatter != "noop" && !printable(h.Expr)
	}
	hi.bpLabels, hi.hasBlock, hi.noFinalNL = bpShape(h)
	if h.HasBP {
		ok, _, why := commentOnly(h.BP)
		if !ok {
			vh.Invalid()
			vh.Infra("generator produced a boilerplate that is not comment-only: %s\n%q", why, h.BP)
		}
		if n := strings.Count(core(h.BP), "\n") + 1; n > 20 {
			vh.Invalid()
			vh.Infra("boilerplate has %d lines", n)
		}
		expr := ""
		if h.HasTags {
			expr = h.Expr
		}
		hi.stable = gofmtStable(h.BP, expr)
	}
	return hi
}

func trans(prevHas, lastHas, same bool) string {
	switch {
	case !prevHas && !lastHas:
		return "none"
	case !prevHas:
		return "added"
	case !lastHas:
		return "removed"
	case same:
		return "same"
	}
	return "changed"
}

func run(c Case) *vh.Violation {
	root := vh.NewScratch()
	defer vh.RemoveAll(root)
	vh.NewModule(root, modPath)

	// ---- validate the case (generator soundness) and classify
	h := c.hdr()
	hi := analyse(h, c.Formatter)
	eval, tags, ops := hi.eval, hi.tags, hi.ops
	uni := map[string]bool{}
	for _, t := range tags {
		uni[t] = true
	}
	cl := []string{"template=" + c.Template, "formatter=" + c.Formatter, "layout=" + c.Layout, "combo=" + c.Template + "+" + c.Formatter + "+" + c.Layout,
		fmt.Sprintf("ifaces=%d", c.Ifaces), "level=" + c.Level, "mode=" + map[string]string{"": "single-run", "tworun": "two-runs", "ifacelevel": "interface-level-keys", "tree": "package-tree"}[c.Mode]}
	if c.PerIface {
		cl = append(cl, "file-per-interface")
	}
	if !c.HasTags {
		cl = append(cl, "tags=absent")
	} else {
		cl = append(cl, fmt.Sprintf("tags:n=%d", len(tags)), fmt.Sprintf("tags:ops=%s", bucket(ops)))
		if ops == 0 {
			cl = append(cl, "tags=single")
		}
		for _, f := range []struct{ sub, label string }{{"!", "tags:not"}, {"&&", "tags:and"}, {"||", "tags:or"}, {"(", "tags:paren"}, {"!(", "tags:not-group"}} {
			if strings.Contains(c.Expr, f.sub) {
				cl = append(cl, f.label)
			}
		}
		if !strings.Contains(c.Expr, " ") && ops > 0 && !strings.Contains(c.Expr, "\t") {
			cl = append(cl, "tags:no-spaces")
		}
		nTrue := 0
		for m := 0; m < 1<<len(tags); m++ {
			if eval(assignment(tags, m)) {
				nTrue++
			}
		}
		switch nTrue {
		case 0:
			cl = append(cl, "tags:unsatisfiable")
		case 1 << len(tags):
			cl = append(cl, "tags:tautology")
		}
	}
	if hi.printerBreaks {
		cl = append(cl, "tags:double-negation-unprintable-by-go/printer")
	}
	cl = append(cl, hi.bpLabels...)
	switch hi.stable {
	case 1:
		cl = append(cl, "bp:gofmt-keeps-comment-groups-only")
	case 0:
		cl = append(cl, "bp:gofmt-rewrites-comment-text")
	}
	modeFeat := ""
	modeNT := false
	var treeFiles map[string]string
	var treeExps []expect
	type runSpec struct {
		h  Header
		hi headerInfo
	}
	runs := []runSpec{{h, hi}}
	switch c.Mode {
	case "":
		if c.Prev != nil || len(c.IfaceTD) > 0 {
			vh.Invalid()
			vh.Infra("single-run case with two-run / interface-level fields")
		}
	case "tworun":
		if c.Prev == nil {
			vh.Invalid()
			vh.Infra("two-run case without prev")
		}
		phi := analyse(*c.Prev, c.Formatter)
		if phi.printerBreaks {
			vh.Invalid()
			vh.Infra("first run's expression %q would leave an invalid //go:build line in the package", c.Prev.Expr)
		}
		for _, t := range phi.tags {
			uni[t] = true
		}
		tt := trans(c.Prev.HasTags, h.HasTags, c.Prev.Expr == h.Expr)
		bt := trans(c.Prev.HasBP, h.HasBP, c.Prev.BP == h.BP)
		if bt == "same" && c.Prev.BPPath != h.BPPath {
			bt = "path-only"
		}
		cl = append(cl, "rerun:tags="+tt, "rerun:bp="+bt)
		modeFeat = ",rerun[tags:" + tt + ";boilerplate:" + bt + "]"
		modeNT = (tt != "same" && tt != "none") || (bt != "same" && bt != "none")
		if !modeNT {
			cl = append(cl, "rerun:header-unchanged")
		}
		runs = []runSpec{{*c.Prev, phi}, {h, hi}}
	case "ifacelevel":
		if len(c.IfaceTD) != c.Ifaces || !c.PerIface || c.Runs < 1 || c.Runs > 8 {
			vh.Invalid()
			vh.Infra("malformed interface-level case")
		}
		if hi.printerBreaks {
			vh.Invalid()
			vh.Infra("file-level expression %q of a repeated run would leave an invalid //go:build line in the package", h.Expr)
		}
		nt, nb, clean := 0, 0, 0
		for _, ih := range c.IfaceTD {
			ihi := analyse(ih, c.Formatter)
			if ihi.printerBreaks {
				vh.Invalid()
				vh.Infra("interface-level expression %q is not printable by go/printer", ih.Expr)
			}
			for _, t := range ihi.tags {
				uni[t] = true
			}
			if ih.HasTags {
				nt++
			}
			if ih.HasBP {
				nb++
			}
			if !ih.HasTags && !ih.HasBP {
				clean++
			}
		}
		if clean == 0 || nt+nb == 0 {
			vh.Invalid()
			vh.Infra("interface-level case needs one interface with and one without interface-level keys")
		}
		var f []string
		if nt > 0 {
			f = append(f, "tags")
			cl = append(cl, fmt.Sprintf("iface-level:tags-on-%d-of-%d", nt, c.Ifaces))
		}
		if nb > 0 {
			f = append(f, "boilerplate")
			cl = append(cl, fmt.Sprintf("iface-level:boilerplate-on-%d-of-%d", nb, c.Ifaces))
		}
		if c.HasTags || c.HasBP {
			cl = append(cl, "iface-level:file-level-keys-too")
		} else {
			cl = append(cl, "iface-level:nothing-at-file-level")
		}
		if c.IfaceFilename {
			cl = append(cl, "iface-level:filename-in-interface-config")
		} else {
			cl = append(cl, "iface-level:filename-template-at-package-level")
		}
		modeFeat = ",interface-level[" + strings.Join(f, "+") + "]"
		modeNT = true
		runs = nil
		for i := 0; i < c.Runs; i++ {
			runs = append(runs, runSpec{h, hi})
		}
	case "tree":
		if c.Tree == nil {
			vh.Invalid()
			vh.Infra("tree case without tree")
		}
		var tcl, ttags []string
		treeFiles, treeExps, tcl, ttags = buildTree(c, root)
		cl = append(cl, tcl...)
		for _, t := range ttags {
			uni[t] = true
		}
		modeNT = true
	default:
		vh.Invalid()
		vh.Infra("unknown mode %q", c.Mode)
	}
	var universe []string
	for t := range uni {
		universe = append(universe, t)
	}
	sort.Strings(universe)
	if len(universe) > 4 {
		vh.Invalid()
		vh.Infra("case mentions %d tags", len(universe))
	}
	fp := ""
	if ops >= 2 || (c.HasBP && (hi.hasBlock || hi.noFinalNL)) || modeNT {
		fp = vh.Hash(vh.JSON(c))
	}
	vh.Count(fp, cl...)
	if fp != "" && vh.NeedSample() {
		vh.Sample(c)
	}

	// ---- build the module and run mockery (once, twice, or Runs times)
	combo := "mockery/" + c.Template + "+" + c.Formatter
	var history string
	for ri, rs := range runs {
		var files map[string]string
		var exps []expect
		rh, rhi := rs.h, rs.hi
		if c.Mode == "tree" {
			files, exps = treeFiles, treeExps
		} else {
			var outFiles []outFile
			var listPkg string
			files, outFiles, listPkg = build(c, rs.h, root)
			feat := func() string {
				var f []string
				if rh.HasTags {
					f = append(f, "tags")
				}
				if rh.HasBP {
					s := "boilerplate"
					if rhi.hasBlock {
						s += "+block"
					}
					if rhi.noFinalNL {
						s += "+no-final-newline"
					}
					f = append(f, s)
				}
				s := strings.Join(f, ",")
				if len(f) == 0 {
					s = "plain"
				}
				if c.Mode == "ifacelevel" || (c.Mode == "tworun" && ri == 1) {
					s += modeFeat
				}
				return s
			}()
			for _, of := range outFiles {
				e := expect{path: of.path, pkg: modPath + "/" + strings.TrimPrefix(listPkg, "./"), feat: feat,
					hasTags: rh.HasTags, expr: rh.Expr, eval: rhi.eval, printerBreaks: rhi.printerBreaks,
					hasBP: rh.HasBP, bp: rh.BP, stable: rhi.stable}
				// interface-level keys: whether they take effect for the interface's own file is a template design
				// decision the property does not fix (don't-care); files without them follow the file-level settings.
				if c.Mode == "ifacelevel" && of.iface >= 0 && of.iface < len(c.IfaceTD) {
					if c.IfaceTD[of.iface].HasTags {
						e.tagsDC = "interface-level-mock-build-tags(own-file)"
						if rh.HasBP { // with or without a //go:build line: demand what go/format keeps either way
							e.stable = min(gofmtStable(rh.BP, ""), gofmtStable(rh.BP, "anytag"))
						}
					}
					if c.IfaceTD[of.iface].HasBP {
						e.bpDC = "interface-level-boilerplate-file(own-file)"
					}
				}
				exps = append(exps, e)
			}
		}
		vh.WriteFiles(root, files)
		before := vh.Snapshot(root)
		res := vh.Mockery(root, nil)
		if res.TimedOut {
			vh.Infra("mockery timed out")
		}
		if ri == 0 || c.Mode == "tworun" {
			history += fmt.Sprintf("=== run %d of %d: .mockery.yml\n%s", ri+1, len(runs), files[".mockery.yml"])
		} else {
			history += fmt.Sprintf("=== run %d of %d: same configuration\n", ri+1, len(runs))
		}
		fail := func(e *expect, diag, format string, a ...any) *vh.Violation {
			obs := history + fmt.Sprintf("mockery exit %d\n", res.Exit)
			feat := "tree"
			if e != nil {
				feat = e.feat
				if e.hasBP && e.bpDC == "" {
					obs += fmt.Sprintf("--- boilerplate demanded in %s (Go-quoted)\n%q\n", e.path, e.bp)
				}
			} else if len(exps) > 0 && c.Mode != "tree" {
				feat = exps[0].feat
			}
			for _, of := range exps {
				if b, err := os.ReadFile(filepath.Join(root, of.path)); err == nil {
					hd := string(b)
					if i := strings.Index(hd, "\nimport"); i > 0 {
						hd = hd[:i]
					}
					obs += "--- head of " + of.path + "\n" + vh.Trunc(hd, 3000) + "\n"
				}
			}
			if res.Exit != 0 {
				obs += "--- mockery output\n" + vh.Trunc(res.Both(), 3000)
			}
			t := vh.ReadTree(root)
			delete(t, "go.sum")
			return vh.Violate(combo+"/"+feat+"/"+diag, format, a...).With(t, obs)
		}
		if res.Panicked() {
			return fail(nil, "panic", "mockery panicked on a documented configuration")
		}
		if res.Exit != 0 {
			return fail(nil, "exit-nonzero:"+normDiag(res.Stderr+"\n"+res.Stdout), "mockery exited %d on a documented configuration (run %d)", res.Exit, ri+1)
		}
		// which files get written is C07/C10's subject; a mismatch here means the harness misjudged the layout
		isOut := map[string]bool{}
		for _, of := range exps {
			isOut[of.path] = true
			if _, err := os.Stat(filepath.Join(root, of.path)); err != nil {
				vh.Infra("expected output file %s is missing after run %d\n%s", of.path, ri+1, vh.Trunc(res.Both(), 1500))
			}
		}
		for _, d := range vh.DiffSnap(before, vh.Snapshot(root)) {
			if strings.HasSuffix(d, ".go") && !isOut[d[1:]] {
				vh.Infra("mockery touched an unexpected Go file %s in run %d", d, ri+1)
			}
		}
		if v := judge(c.Formatter, root, exps, universe, fail); v != nil {
			return v
		}
	}
	return nil
}

// expect is what the oracle demands of one output file.
type expect struct {
	path string // relative to the module root
	pkg  string // import path of the package the file belongs to
	feat string // feature part of the violation key

	tagsDC        string // non-empty: clause (iii) is don't-care for this file, with the reason
	hasTags       bool
	expr          string
	eval          evalFn
	printerBreaks bool

	bpDC   string // non-empty: clause (ii) is don't-care for this file, with the reason
	hasBP  bool
	bp     string
	stable int
}

// judge applies the oracle to the output files as they are after one run.
func judge(formatter, root string, exps []expect, universe []string,
	fail func(e *expect, diag, format string, a ...any) *vh.Violation) *vh.Violation {
	// ---- (i) marker and (ii) boilerplate, per written file
	for i := range exps {
		of := &exps[i]
		src, err := os.ReadFile(filepath.Join(root, of.path))
		if err != nil {
			vh.Infra("read %s: %v", of.path, err)
		}
		off, isPkg, _ := header(src)
		if !isPkg {
			return fail(of, "header/first-token-not-package", "%s: the first non-comment token is not the package clause", of.path)
		}
		marker := false
		for _, ln := range strings.Split(string(src[:off]), "\n") {
			if markerRe.MatchString(ln) {
				marker = true
				break
			}
		}
		if !marker {
			return fail(of, "marker/missing-before-package", "%s: no line matching %s before the package clause", of.path, markerRe)
		}
		fset := token.NewFileSet()
		pf, perr := parser.ParseFile(fset, of.path, src, parser.ParseComments|parser.PackageClauseOnly)
		if perr != nil {
			return fail(of, "header/unparsable", "%s: header does not parse: %v", of.path, perr)
		}
		if !ast.IsGenerated(pf) {
			return fail(of, "marker/not-recognised-by-go/ast.IsGenerated", "%s: go/ast.IsGenerated reports false", of.path)
		}
		if of.bpDC != "" {
			vh.DontCare(of.bpDC)
			continue
		}
		if of.hasBP {
			cr := core(of.bp)
			demand := 2 // whole core, byte-for-byte
			if formatter != "noop" {
				demand = of.stable
			}
			found := bytes.Contains(src[:off], []byte(cr))
			switch {
			case found:
			case demand == 1 && containsInOrder(src[:off], chunks(cr)):
				vh.DontCare("boilerplate-split-or-blank-lines-collapsed-by-" + formatter + "(comment-groups-verbatim)")
			case demand == 0:
				vh.DontCare("boilerplate-comment-text-normalised-by-" + formatter)
			default:
				what := "boilerplate/not-verbatim"
				if bytes.Contains(src, []byte(cr)) {
					what = "boilerplate/after-package-clause"
				} else if t := strings.TrimSpace(cr); t != cr && bytes.Contains(src[:off], []byte(t)) {
					what = "boilerplate/whitespace-trimmed"
				}
				return fail(of, what, "%s: the boilerplate content does not occur verbatim before the package clause", of.path)
			}
		}
	}

	// ---- (iii) build-constraint effectiveness: all 2^n assignments of every tag the case mentions
	type verdict struct {
		set       []string
		asg       map[string]bool
		lo        map[string]listOut
		cmd       string
		infraText string
	}
	var verdicts []verdict
	if len(universe) == 0 {
		// no constraint anywhere: always included, also when unrelated tags are set
		verdicts = []verdict{{asg: map[string]bool{}}, {set: []string{"foo", "integ"}, asg: map[string]bool{"foo": true, "integ": true}}}
	} else {
		for m := 0; m < 1<<len(universe); m++ {
			set := assignment(universe, m)
			var on []string
			for _, t := range universe {
				if set[t] {
					on = append(on, t)
				}
			}
			verdicts = append(verdicts, verdict{set: on, asg: set})
		}
	}
	var pkgs []string
	seenPkg := map[string]bool{}
	for _, of := range exps {
		if !seenPkg[of.pkg] {
			seenPkg[of.pkg] = true
			pkgs = append(pkgs, of.pkg)
		}
	}
	var wg sync.WaitGroup
	sem := make(chan struct{}, 4)
	for i := range verdicts {
		wg.Add(1)
		go func(v *verdict) {
			defer wg.Done()
			sem <- struct{}{}
			defer func() { <-sem }()
			defer func() {
				if r := recover(); r != nil {
					if ie, ok := r.(vh.InfraError); ok {
						v.infraText = ie.Msg
						return
					}
					panic(r)
				}
			}()
			v.lo, v.cmd = goList(root, pkgs, v.set)
		}(&verdicts[i])
	}
	wg.Wait()
	for _, v := range verdicts {
		if v.infraText != "" {
			vh.Infra("%s", v.infraText)
		}
	}
	for i := range exps {
		of := &exps[i]
		if of.tagsDC != "" {
			vh.DontCare(of.tagsDC)
			continue
		}
		if of.hasTags && of.printerBreaks {
			vh.DontCare("constraint-after-" + formatter + "-printed-double-negation")
			continue
		}
		for _, v := range verdicts {
			lo, ok := v.lo[of.pkg]
			if !ok {
				vh.Infra("go list did not report package %s", of.pkg)
			}
			want := !of.hasTags || of.eval(v.asg)
			base := filepath.Base(of.path)
			included := has(lo.GoFiles, base) || has(lo.TestGoFiles, base) || has(lo.XTestGoFiles, base)
			ignored := has(lo.IgnoredGoFiles, base)
			detail := fmt.Sprintf("%s\n  -> %s: GoFiles=%v TestGoFiles=%v XTestGoFiles=%v IgnoredGoFiles=%v InvalidGoFiles=%v", v.cmd, of.pkg, lo.GoFiles, lo.TestGoFiles, lo.XTestGoFiles, lo.IgnoredGoFiles, lo.InvalidGoFiles)
			if included == ignored {
				vl := fail(of, "constraint/file-not-classified-by-go-list", "%s: go list neither includes nor ignores the file under tags %v", of.path, v.set)
				vl.Observed += "\n--- " + detail
				return vl
			}
			if included != want {
				diag := "constraint/included-although-expression-false"
				if !included {
					diag = "constraint/excluded-although-expression-true"
				}
				if !of.hasTags {
					diag = "constraint/excluded-without-mock-build-tags"
				}
				vl := fail(of, diag, "%s: with tags %v the effective expression %q evaluates to %v but the toolchain included=%v", of.path, v.set, of.expr, want, included)
				vl.Observed += "\n--- " + detail
				return vl
			}
		}
	}
	return nil
}

func assignment(tags []string, m int) map[string]bool {
	set := map[string]bool{}
	for i, t := range tags {
		set[t] = m&(1<<i) != 0
	}
	return set
}

func bucket(n int) string {
	switch {
	case n <= 2:
		return fmt.Sprint(n)
	case n <= 4:
		return "3-4"
	case n <= 8:
		return "5-8"
	}
	return "9+"
}

func TestProp(t *testing.T) {
	if _, err := os.Stat(vh.SUT()); err != nil {
		t.Skipf("mockery binary missing: %v", err)
	}
	vh.Main(t, vh.Check[Case]{Gen: gen, Run: run})
}
