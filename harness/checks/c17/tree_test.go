package c17

// Mode "tree": header keys at every configuration level of a small package tree.
//
// The effective value of a header key (mock-build-tags, boilerplate-file) for the output file of a
// package is, as docs/configuration.md ("the parameters are merged hierarchically", `recursive`: "inject
// those packages into the config map") and the comment in config.RootConfig.Initialize ("Sub-packages
// inherit the config of their nearest recursive ancestor", applied to discovered and to already listed
// sub-packages alike) state it:
//
//	1. the package's own template-data entry, else
//	2. the entry of the nearest ancestor package that is listed with `recursive: true` and sets the key, else
//	3. the root-level entry, else nothing.
//
// When 2 and 3 both exist and differ the sources do not say which is "more specific" for a package that is
// itself listed (the root is merged into every listed package before recursion): don't-care. Keys in an
// interface's own config are don't-care for that interface's file (see mode "ifacelevel").

import (
	"fmt"
	"path"
	"path/filepath"
	"sort"
	"strings"

	"pgregory.net/rapid"
	"verif/harness/vh"
)

type BPFile struct {
	Rel     string `json:"rel"` // path relative to the module root
	Content string `json:"content"`
}

// Level is the header part of one configuration level.
type Level struct {
	HasTags bool   `json:"has_tags,omitempty"`
	Expr    string `json:"expr,omitempty"`
	BPFile  int    `json:"bp_file"`            // index into Tree.Files, -1 = not set
	BPSpell string `json:"bp_spell,omitempty"` // rel | dotrel | abs
}

func (l Level) any() bool { return l.HasTags || l.BPFile >= 0 }

type TreePkg struct {
	Path      string `json:"path"`                // directory relative to the module root: p, p/a, p/b, p/a/x, q
	Listed    bool   `json:"listed"`              // has its own entry under packages:
	Entry     string `json:"entry,omitempty"`     // shape of a listed entry without keys: null | config | interfaces
	Recursive bool   `json:"recursive,omitempty"` // listed with recursive: true
	Own       Level  `json:"own"`
	Iface     *Level `json:"iface,omitempty"` // keys in the config of the package's interface
}

type Tree struct {
	Root  Level     `json:"root"`
	Pkgs  []TreePkg `json:"pkgs"`
	Files []BPFile  `json:"files"`
}

var treeIface = map[string]string{"p": "Doer", "p/a": "Alpha", "p/b": "Beta", "p/a/x": "Xray", "q": "Quux"}

// same file names in different directories on purpose
var bpNamePool = []string{"HEADER.txt", "p/HEADER.txt", "p/a/HEADER.txt", "licenses/HEADER.txt", "licenses/mit.txt", "LICENSE.txt", "p/b/LICENSE.txt", "hack/boilerplate.go.txt"}

func genLevel(t *rapid.T, tags []string, nfiles int, pTags, pBP int) Level {
	l := Level{BPFile: -1}
	if rapid.IntRange(0, 9).Draw(t, "lvltags") < pTags {
		l.HasTags = true
		l.Expr = genExpr(t, tags, 2)
	}
	if rapid.IntRange(0, 9).Draw(t, "lvlbp") < pBP {
		l.BPFile = rapid.IntRange(0, nfiles-1).Draw(t, "bpfile")
		l.BPSpell = rapid.SampledFrom([]string{"rel", "abs", "dotrel", "rel"}).Draw(t, "bpspell")
	}
	return l
}

func genTree(t *rapid.T) *Tree {
	tr := &Tree{}
	// boilerplate pool: 2-4 files; names repeat across directories, contents are sometimes identical
	names := rapid.Permutation(bpNamePool[:rapid.SampledFrom([]int{3, 4, 8, 6}).Draw(t, "namepool")]).Draw(t, "bpnames")
	nf := rapid.SampledFrom([]int{2, 3, 4, 2}).Draw(t, "nbpfiles")
	for i := 0; i < nf && i < len(names); i++ {
		f := BPFile{Rel: names[i]}
		if i > 0 && rapid.IntRange(0, 5).Draw(t, "samecontent") == 0 {
			f.Content = tr.Files[rapid.IntRange(0, i-1).Draw(t, "contentof")].Content
		} else {
			f.Content = genBoilerplate(t)
		}
		tr.Files = append(tr.Files, f)
	}
	nf = len(tr.Files)
	tags := rapid.Permutation(tagPool).Draw(t, "treetags")[:3]
	tr.Root = genLevel(t, tags, nf, 3, 3)
	paths := []string{"p", "p/a", "p/b"}
	if rapid.IntRange(0, 2).Draw(t, "deep") > 0 {
		paths = append(paths, "p/a/x")
	}
	if rapid.IntRange(0, 2).Draw(t, "other") == 0 {
		paths = append(paths, "q")
	}
	for _, pth := range paths {
		pk := TreePkg{Path: pth, Own: Level{BPFile: -1}}
		switch pth {
		case "p":
			pk.Listed = true
			pk.Recursive = rapid.IntRange(0, 5).Draw(t, "precursive") > 0
			pk.Own = genLevel(t, tags, nf, 6, 6)
		case "q":
			pk.Listed = true
			pk.Own = genLevel(t, tags, nf, 5, 5)
		default:
			pk.Listed = rapid.IntRange(0, 9).Draw(t, "listed") < 6
			if pk.Listed {
				pk.Own = genLevel(t, tags, nf, 3, 3)
				pk.Recursive = pth == "p/a" && rapid.IntRange(0, 3).Draw(t, "subrecursive") == 0
			}
		}
		if pk.Listed {
			pk.Entry = rapid.SampledFrom([]string{"null", "config", "interfaces", "config"}).Draw(t, "entry")
			if rapid.IntRange(0, 5).Draw(t, "ifacekeys") == 0 {
				l := genLevel(t, tags, nf, 6, 5)
				if !l.any() {
					l.HasTags, l.Expr = true, tags[0]
				}
				pk.Iface = &l
			}
		}
		tr.Pkgs = append(tr.Pkgs, pk)
	}
	return tr
}

func bpValue(tr *Tree, l Level, root string) string {
	rel := tr.Files[l.BPFile].Rel
	switch l.BPSpell {
	case "dotrel":
		return "./" + rel
	case "abs":
		return filepath.Join(root, rel)
	}
	return rel
}

func levelLines(tr *Tree, l Level, root string) []string {
	var td []string
	if l.BPFile >= 0 {
		td = append(td, "boilerplate-file: "+yq(bpValue(tr, l, root)))
	}
	if l.HasTags {
		td = append(td, "mock-build-tags: "+yq(l.Expr))
	}
	return td
}

// source of an effective value, for classes and keys
type eff struct {
	level  Level  // only the requested key of it is meaningful
	source string // own | recursive-ancestor | root | none
	dc     string // don't-care reason
}

func isAncestor(a, p string) bool { return strings.HasPrefix(p, a+"/") }

// effective implements the three rules at the top of this file for one key.
func effective(tr *Tree, pk TreePkg, has func(Level) bool, same func(a, b Level) bool) eff {
	if pk.Listed && has(pk.Own) {
		return eff{level: pk.Own, source: "own"}
	}
	var anc *TreePkg
	for i := range tr.Pkgs {
		a := &tr.Pkgs[i]
		if a.Listed && a.Recursive && isAncestor(a.Path, pk.Path) && has(a.Own) && (anc == nil || len(a.Path) > len(anc.Path)) {
			anc = a
		}
	}
	switch {
	case anc != nil && has(tr.Root) && !same(anc.Own, tr.Root):
		return eff{source: "root-or-recursive-ancestor", dc: "key-set-at-root-and-at-a-recursive-ancestor"}
	case anc != nil:
		return eff{level: anc.Own, source: "recursive-ancestor"}
	case has(tr.Root):
		return eff{level: tr.Root, source: "root"}
	}
	return eff{level: Level{BPFile: -1}, source: "none"}
}

// buildTree renders the module and the configuration and derives, per output file, what the oracle demands.
func buildTree(c Case, root string) (files map[string]string, exps []expect, classes []string, tags []string) {
	tr := c.Tree
	files = map[string]string{}
	if len(tr.Files) == 0 || len(tr.Pkgs) == 0 {
		vh.Invalid()
		vh.Infra("empty tree")
	}
	seenRel := map[string]bool{}
	for _, f := range tr.Files {
		if seenRel[f.Rel] {
			vh.Invalid()
			vh.Infra("boilerplate pool names %s twice", f.Rel)
		}
		seenRel[f.Rel] = true
		if ok, _, why := commentOnly(f.Content); !ok {
			vh.Invalid()
			vh.Infra("pool file %s is not comment-only: %s", f.Rel, why)
		}
		files[f.Rel] = f.Content
	}
	checkLevel := func(l Level) {
		if l.BPFile >= len(tr.Files) {
			vh.Invalid()
			vh.Infra("boilerplate index %d out of range", l.BPFile)
		}
	}
	checkLevel(tr.Root)
	tagSet := map[string]bool{}
	noteTags := func(l Level) {
		if l.HasTags {
			if _, tg, _, err := parseExpr(l.Expr); err == nil {
				for _, t := range tg {
					tagSet[t] = true
				}
			}
		}
	}
	noteTags(tr.Root)

	base := "mocks_test.go"
	if c.Layout == "nontest" {
		base = "mocks.go"
	}
	y := "template: " + c.Template + "\nformatter: " + c.Formatter + "\nall: true\ndir: \"{{.InterfaceDir}}\"\nfilename: " + yq(base) + "\npkgname: \"{{.SrcPackageName}}\"\n"
	y += tdBlock(levelLines(tr, tr.Root, root), "")
	y += "packages:\n"
	byPath := map[string]*TreePkg{}
	for i := range tr.Pkgs {
		pk := &tr.Pkgs[i]
		if treeIface[pk.Path] == "" || byPath[pk.Path] != nil {
			vh.Invalid()
			vh.Infra("unknown or repeated package %q", pk.Path)
		}
		byPath[pk.Path] = pk
		checkLevel(pk.Own)
		noteTags(pk.Own)
		if pk.Iface != nil {
			checkLevel(*pk.Iface)
			noteTags(*pk.Iface)
		}
		name := path.Base(pk.Path)
		in := treeIface[pk.Path]
		files[pk.Path+"/"+name+".go"] = "package " + name + "\n\ntype " + in + " interface{ " + in + "It(n int) error }\n"
		if !pk.Listed {
			continue
		}
		y += "  " + modPath + "/" + pk.Path + ":\n"
		cfg := ""
		if pk.Recursive {
			cfg += "      recursive: true\n"
		}
		cfg += tdBlock(levelLines(tr, pk.Own, root), "      ")
		if cfg == "" && pk.Entry == "config" {
			cfg = "      all: true\n"
		}
		if cfg != "" {
			y += "    config:\n" + cfg
		}
		switch {
		case pk.Iface != nil:
			y += "    interfaces:\n      " + in + ":\n        config:\n" + tdBlock(levelLines(tr, *pk.Iface, root), "          ")
		case pk.Entry == "interfaces":
			y += "    interfaces:\n      " + in + ":\n"
		}
	}
	files[".mockery.yml"] = y
	for t := range tagSet {
		tags = append(tags, t)
	}
	sort.Strings(tags)

	// which packages produce a file: listed ones and everything below a listed recursive package
	type used struct{ file, pkg string }
	var bpUses []used
	for _, pk := range tr.Pkgs {
		generated := pk.Listed
		kind := "listed"
		if pk.Listed && pk.Recursive {
			kind = "listed-recursive"
		}
		under := false
		for _, a := range tr.Pkgs {
			if a.Listed && a.Recursive && isAncestor(a.Path, pk.Path) {
				under = true
			}
		}
		switch {
		case under && pk.Listed:
			kind += "-sub-of-recursive"
		case under:
			generated, kind = true, "discovered-sub"
		}
		if !generated {
			classes = append(classes, "tree:pkg=not-generated")
			continue
		}
		et := effective(tr, pk, func(l Level) bool { return l.HasTags }, func(a, b Level) bool { return a.Expr == b.Expr })
		eb := effective(tr, pk, func(l Level) bool { return l.BPFile >= 0 }, func(a, b Level) bool {
			return tr.Files[a.BPFile].Content == tr.Files[b.BPFile].Content
		})
		e := expect{path: pk.Path + "/" + base, pkg: modPath + "/" + pk.Path, tagsDC: et.dc, bpDC: eb.dc, stable: 2}
		tsrc, bsrc := et.source, eb.source
		if pk.Iface != nil && pk.Iface.HasTags {
			e.tagsDC, tsrc = "interface-level-mock-build-tags(own-file)", "interface"
		}
		if pk.Iface != nil && pk.Iface.BPFile >= 0 {
			e.bpDC, bsrc = "interface-level-boilerplate-file(own-file)", "interface"
		}
		h := Header{}
		if e.tagsDC == "" && et.level.HasTags {
			h.HasTags, h.Expr = true, et.level.Expr
		}
		if e.bpDC == "" && eb.level.BPFile >= 0 {
			h.HasBP, h.BP = true, tr.Files[eb.level.BPFile].Content
			bpUses = append(bpUses, used{tr.Files[eb.level.BPFile].Rel, pk.Path})
			if eb.level.BPSpell == "abs" {
				classes = append(classes, "tree:bp-absolute-path")
			}
		}
		hi := analyse(h, c.Formatter)
		e.hasTags, e.expr, e.eval, e.printerBreaks = h.HasTags, h.Expr, hi.eval, hi.printerBreaks
		e.hasBP, e.bp, e.stable = h.HasBP, h.BP, hi.stable
		if e.tagsDC != "" && h.HasBP {
			// the file may or may not carry a //go:build line: demand only what go/format keeps either way
			e.stable = min(gofmtStable(h.BP, ""), gofmtStable(h.BP, "anytag"))
		}
		e.feat = fmt.Sprintf("tree[pkg=%s;tags-from=%s;boilerplate-from=%s]", kind, tsrc, bsrc)
		exps = append(exps, e)
		classes = append(classes, "tree:pkg="+kind, "tree:tags-from="+tsrc, "tree:bp-from="+bsrc)
		if strings.Contains(kind, "listed") && strings.Contains(kind, "sub-of-recursive") && (tsrc == "recursive-ancestor" || bsrc == "recursive-ancestor") {
			classes = append(classes, "tree:listed-sub-inherits-header-from-recursive-ancestor:entry="+pk.Entry)
		}
	}
	if len(exps) == 0 {
		vh.Invalid()
		vh.Infra("tree generates no file")
	}
	classes = append(classes, fmt.Sprintf("tree:files=%d", len(exps)))
	// relations between the boilerplate files that different output files demand
	sameBase, sameContent, spellings := false, false, false
	content := map[string]string{}
	for _, f := range tr.Files {
		content[f.Rel] = f.Content
	}
	for i := range bpUses {
		for j := i + 1; j < len(bpUses); j++ {
			a, b := bpUses[i].file, bpUses[j].file
			if a != b && path.Base(a) == path.Base(b) && content[a] != content[b] {
				sameBase = true
			}
			if a != b && content[a] == content[b] {
				sameContent = true
			}
			if a == b {
				spellings = true
			}
		}
	}
	if sameBase {
		classes = append(classes, "tree:two-outputs-demand-same-named-files-with-different-content")
	}
	if sameContent {
		classes = append(classes, "tree:two-outputs-demand-differently-named-files-with-identical-content")
	}
	if spellings {
		classes = append(classes, "tree:two-outputs-demand-one-file")
	}
	return files, exps, classes, tags
}
