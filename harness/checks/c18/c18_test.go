// C18 — `mockery init` bootstraps safely and its output round-trips.
//
// A case is a scratch Go module (root package + nested packages with a few interfaces), an
// initial state of the --config target path (absent, present with drawn content, read-only,
// a directory, a symlink, inside a missing sub-directory ...) and a history of 1-3
// `mockery init` invocations on that path (package argument: a real package of the module or
// a Go-valid import-path string chosen to be YAML-significant; --config default / relative /
// absolute; several flag placements; optional removal of the file between invocations).
//
// Oracle (from the property text and docs/configuration.md):
//   - target exists  => exit != 0 and the whole scratch tree is byte-identical;
//   - target absent  => exit 0, exactly the target is created, it parses as YAML (yaml.v3),
//     `mockery showconfig --config f` accepts it and shows exactly one package whose key
//     is the argument byte for byte with `all: true`;
//   - defaults round trip: deleting any single top-level key (or all of them) from the
//     written file does not change what showconfig reports, and the values written agree
//     with the defaults documented in docs/configuration.md (init example and parameter table;
//     where those two disagree with each other either is accepted);
//   - for a real package a plain `mockery` run afterwards exits 0, a mock exists for every
//     package-level interface of the named package and the module still type-checks together
//     with compile-time assertions `var _ I = (*MockI)(nil)`;
//   - never a Go panic.
//
// What the property does not fix is counted as don't-care: target below a missing directory,
// below a regular file, or a dangling symlink (refusing cleanly and creating are both fine).
package c18

import (
	"bytes"
	"fmt"
	"go/ast"
	"go/parser"
	"go/token"
	"os"
	"path/filepath"
	"reflect"
	"regexp"
	"sort"
	"strings"
	"sync"
	"testing"

	"gopkg.in/yaml.v3"
	"pgregory.net/rapid"
	"verif/harness/vh"
)

// ---- case -------------------------------------------------------------------------------------

type IfaceSpec struct {
	Name  string `json:"name"`
	Shape int    `json:"shape"`
	File  int    `json:"file"`
}

type PkgSpec struct {
	Dir    string      `json:"dir"` // "" = module root
	Name   string      `json:"name"`
	Ifaces []IfaceSpec `json:"ifaces"`
}

type ModSpec struct {
	Path string    `json:"path"`
	Pkgs []PkgSpec `json:"pkgs"`
}

type Step struct {
	Remove   bool   `json:"remove,omitempty"` // the user deletes the target before this invocation
	Pkg      string `json:"pkg"`
	Kind     string `json:"kind"`     // real-root real-nested yaml random long unicode plain
	Real     int    `json:"real"`     // index into Mod.Pkgs, -1 for a string that names no package of the module
	Mode     string `json:"mode"`     // default rel reldot abs
	FlagPos  string `json:"flag_pos"` // root sub after ("" when Mode=default)
	Eq       bool   `json:"eq"`       // --config=f instead of --config f
	DashDash bool   `json:"dashdash"` // package argument passed after `--`
}

type Case struct {
	Mod        ModSpec `json:"mod"`
	Target     string  `json:"target"` // relative to the module root (= cwd of every invocation)
	State      string  `json:"state"`
	Content    []byte  `json:"content,omitempty"`
	Steps      []Step  `json:"steps"`
	Full       bool    `json:"full"`        // finish with a plain `mockery` run + go vet
	FullByFlag bool    `json:"full_byflag"` // pass --config to that run even when the search would find the file
	// Decoy: "yaml" / "yml" = a valid .mockery.yaml / .mockery.yml in the PARENT directory of the module root
	// (monorepo layout) that configures other names; a nearer file written by init must win the search.
	Decoy string `json:"decoy,omitempty"`
}

// ---- generators -------------------------------------------------------------------------------

// Go spec: import paths are non-empty strings of Unicode L, M, N, P, S characters; the gc
// implementation additionally excludes !"#$%&'()*,:;<=>?[\]^`{|} and U+FFFD. Everything below stays
// inside that set.
var yamlSig = []string{
	"~", "true", "null", "123", "1e3", "0x1f", "y", "no", "on", "off", "yes", "n", "Y", "N", "True", "FALSE", "Null", "NULL",
	"~a", "@foo", "@", "-foo", "-", "--", "---", "...", ".", "..", ".inf", "-.inf", ".nan", ".NaN", "-1", "+1", "1_000", "0o17",
	"0b101", "1.5", ".5", "1.", "2001-12-14", "a.b/c", "_", "+", "0", "00", "0x", "1e", "-0", "true/false", "null/x", "123/456",
	"~/x", "@v1.2.3", "x@v2", "a/-/b", "a/~", "a/true", "-/-", "--config", "-h", "--help", "--/x", "+.inf", "0.0", "1e-3",
	"0777", "1__0", "685_230.15", "6.8523015e+5", "-true", "@true", "~~", "_/_",
}

var unicodeSig = []string{
	"пакет/данные", "例え/パッケージ", "é", "e\u0301", "\u0301", "ñandú/größe", "λ", "٣", "²", "١٢٣", "a·b", "«x»", "x—y", "€/→", "©", "±1",
	"😀", "пакет.example/x-y_z", "ＴＲＵＥ", "ｎｕｌｌ", "𝟏𝟐𝟑",
}

var plainFake = []string{"github.com/org/repo", "io", "net/http", "example.org/a/b/c", "gopkg.in/yaml.v3", "k8s.io/api/core/v1"}

var segAlphabet = []rune("abcxyzABZ0123456789-._~@+_éßжλあ語·—€→٣\u0301😀")

var longLens = []int{129, 130, 200, 1023, 1024, 1025, 1500, 4000}

var targets = []string{".mockery.yml", ".mockery.yml", ".mockery.yml", ".mockery.yaml", "cfg.yml", "conf/mockery.yml", "../outer.yml",
	"../.mockery.yml", "my config.yml", "конфиг.yaml", "noext", "conf/deep/er/.mockery.yml", "sub/cfg.yaml"}
var missingTargets = []string{"nodir/cfg.yml", "a/b/c/.mockery.yml", "../gone/x.yml", "conf/missing/.mockery.yml"}
var parentFileTargets = []string{"go.mod/cfg.yml", "go.sum/x/.mockery.yml"}

var validConfigs = []string{
	"packages:\n  example.com/other:\n    config:\n      all: true\n",
	"all: true\npackages: {}\n",
	"# precious hand-written configuration\ntemplate: matryer\nformatter: gofmt\npackages:\n  io:\n    interfaces:\n      Reader:\n",
	"# just a comment\n",
	"all: false\ndir: '{{.InterfaceDir}}'\nfilename: mocks_test.go\npackages:\n  github.com/org/repo:\n    config:\n      all: true\n",
}

var garbageTexts = []string{"{{{", "\t- :\n  x", "packages: [", "package main\n\nfunc main() {}\n", "\x00\x01\x02", "\xff\xfe\xfd", ": : :", "- a\n- b\n", "\n", " "}

var modPaths = []string{"example.com/m", "github.com/acme/my-proj", "go.example.org/x_y/z", "on"}
var nestedDirs = [][2]string{{"sub", "sub"}, {"internal/deep", "deep"}, {"internal/data-store", "datastore"}, {"pkg/v2", "svc"}}
var ifaceNames = []string{"Reader", "Store", "Service", "Doer", "Handler", "Cache", "reader", "store", "worker", "helper", "T", "x"}

// uniform draws an integer in [0,n) from single fair bits: rapid's integer generators are heavily
// biased towards small values, which would turn the weights below into something else.
func uniform(t *rapid.T, n int, label string) int {
	bits := 3
	for 1<<(bits-3) < n {
		bits++
	}
	v := 0
	for i := 0; i < bits; i++ {
		v <<= 1
		if rapid.Bool().Draw(t, label) {
			v |= 1
		}
	}
	return v % n
}

func pick[T any](t *rapid.T, label string, l []T) T { return l[uniform(t, len(l), label)] }

const nShapes = 8

func genPkg(t *rapid.T, dir, name string, min int) PkgSpec {
	p := PkgSpec{Dir: dir, Name: name}
	n := min + uniform(t, 6-min+1, "nifaces")
	used := map[string]bool{}
	for i := 0; i < n; i++ {
		nm := pick(t, "iname", ifaceNames)
		if used[nm] {
			continue
		}
		used[nm] = true
		p.Ifaces = append(p.Ifaces, IfaceSpec{Name: nm, Shape: uniform(t, nShapes, "shape"), File: rapid.IntRange(0, 1).Draw(t, "file")})
	}
	return p
}

func genMod(t *rapid.T) ModSpec {
	m := ModSpec{Path: pick(t, "modpath", modPaths)}
	m.Pkgs = append(m.Pkgs, genPkg(t, "", pick(t, "rootname", []string{"m", "root", "main_pkg"}), 1))
	nn := rapid.IntRange(1, 2).Draw(t, "nnested")
	seen := map[string]bool{}
	for i := 0; i < nn; i++ {
		d := pick(t, "nested", nestedDirs)
		if seen[d[0]] {
			continue
		}
		seen[d[0]] = true
		m.Pkgs = append(m.Pkgs, genPkg(t, d[0], d[1], 1))
	}
	return m
}

func (m ModSpec) importPath(i int) string {
	if m.Pkgs[i].Dir == "" {
		return m.Path
	}
	return m.Path + "/" + m.Pkgs[i].Dir
}

func genRandomPath(t *rapid.T) string {
	nseg := rapid.IntRange(1, 3).Draw(t, "nseg")
	var segs []string
	for i := 0; i < nseg; i++ {
		n := rapid.IntRange(1, 8).Draw(t, "seglen")
		var sb strings.Builder
		for j := 0; j < n; j++ {
			sb.WriteRune(pick(t, "r", segAlphabet))
		}
		segs = append(segs, sb.String())
	}
	return strings.Join(segs, "/")
}

func genLong(t *rapid.T) string {
	n := pick(t, "longlen", longLens)
	unit := pick(t, "longunit", []string{"a", "ab/", "x.y/", "é", "0"})
	var sb strings.Builder
	for sb.Len() < n {
		sb.WriteString(unit)
	}
	s := strings.TrimSuffix(sb.String(), "/")
	return s
}

func genStep(t *rapid.T, c *Case, first bool) Step {
	s := Step{Real: -1}
	// every alternative is drawn whatever the kind, so that shrinking the kind keeps the rest aligned
	k := uniform(t, 100, "pkgkind")
	realIdx := uniform(t, len(c.Mod.Pkgs), "realpkg")
	ys, rnd, lng := pick(t, "yamlsig", yamlSig), genRandomPath(t), genLong(t)
	us, pf := pick(t, "unicode", unicodeSig), pick(t, "plain", plainFake)
	if c.Full && first {
		k = 0
	}
	switch {
	case k < 25:
		s.Real = realIdx
		s.Pkg = c.Mod.importPath(s.Real)
		s.Kind = "real-nested"
		if s.Real == 0 {
			s.Kind = "real-root"
		}
	case k < 60:
		s.Pkg, s.Kind = ys, "yaml"
	case k < 80:
		s.Pkg, s.Kind = rnd, "random"
	case k < 88:
		s.Pkg, s.Kind = lng, "long"
	case k < 95:
		s.Pkg, s.Kind = us, "unicode"
	default:
		s.Pkg, s.Kind = pf, "plain"
	}
	modes := []string{"rel", "reldot", "abs", "abs"}
	if c.Target == ".mockery.yml" {
		modes = []string{"default", "default", "default", "rel", "reldot", "abs"}
	}
	s.Mode = pick(t, "mode", modes)
	s.DashDash = uniform(t, 10, "dashdash") < 3 || strings.HasPrefix(s.Pkg, "-")
	pos := pick(t, "flagpos", []string{"root", "sub", "after"})
	eq := rapid.Bool().Draw(t, "eq")
	if s.Mode != "default" {
		if s.DashDash && pos == "after" {
			pos = "sub"
		}
		s.FlagPos, s.Eq = pos, eq
	}
	return s
}

func gen(t *rapid.T) Case {
	c := Case{Mod: genMod(t)}
	c.Full = uniform(t, 100, "full") < 15
	st := uniform(t, 100, "state")
	if c.Full {
		st = 0
	}
	switch {
	case st < 35:
		c.State = "absent"
	case st < 43:
		c.State = "empty"
	case st < 55:
		c.State = "valid"
	case st < 67:
		c.State = "garbage"
	case st < 75:
		c.State = "readonly"
	case st < 82:
		c.State = "dir"
	case st < 87:
		c.State = "symlink"
	case st < 94:
		c.State = "missingdir"
	case st < 97:
		c.State = "parentfile"
	default:
		c.State = "dangling"
	}
	tNormal, tMissing, tParent := pick(t, "target", targets), pick(t, "mtarget", missingTargets), pick(t, "ptarget", parentFileTargets)
	switch c.State {
	case "missingdir":
		c.Target = tMissing
	case "parentfile":
		c.Target = tParent
	default:
		c.Target = tNormal
		if c.Full && uniform(t, 2, "fulldefault") == 0 {
			c.Target = ".mockery.yml"
		}
	}
	valid, raw := pick(t, "valid", validConfigs), rapid.Bool().Draw(t, "rawbytes")
	rawBytes, garbage := rapid.SliceOfN(rapid.Byte(), 1, 120).Draw(t, "bytes"), pick(t, "garbage", garbageTexts)
	ro := pick(t, "rocontent", append(append([]string{""}, validConfigs...), garbageTexts...))
	switch c.State {
	case "valid", "symlink":
		c.Content = []byte(valid)
	case "garbage":
		c.Content = []byte(garbage)
		if raw {
			c.Content = rawBytes
		}
	case "readonly":
		c.Content = []byte(ro)
	}
	n := rapid.IntRange(1, 3).Draw(t, "nsteps")
	for i := 0; i < n; i++ {
		s := genStep(t, &c, i == 0)
		if uniform(t, 100, "remove") < 15 && i > 0 && !c.Full {
			s.Remove = true
		}
		c.Steps = append(c.Steps, s)
	}
	c.FullByFlag = rapid.Bool().Draw(t, "fullbyflag") && c.Full
	c.Decoy = pick(t, "decoy", []string{"", "", "", "yaml", "yml"})
	if strings.HasPrefix(c.Target, "../") && !strings.Contains(strings.TrimPrefix(c.Target, "../"), "/") {
		// the target itself lives in that parent directory: a second config next to it legitimately
		// shadows it (or is it) - outside the property
		c.Decoy = ""
	}
	if c.Decoy != "" {
		c.FullByFlag = false
	}
	return c
}

// ---- scratch module ---------------------------------------------------------------------------

// shape returns the interface declaration, the imports it needs and the compile-time assertion.
func shape(sh int, name string) (decl string, imports []string, generic bool) {
	switch sh {
	case 0:
		return fmt.Sprintf("type %s interface {\n\tGet(key string) (string, error)\n}\n", name), nil, false
	case 1:
		return fmt.Sprintf("type %s interface {\n\tio.Reader\n\tClose() error\n}\n", name), []string{"io"}, false
	case 2:
		return fmt.Sprintf("type %s interface {\n\tDo(ctx context.Context, n int, opts ...string) error\n}\n", name), []string{"context"}, false
	case 3:
		return fmt.Sprintf("type %s interface{}\n", name), nil, false
	case 4:
		return fmt.Sprintf("type %s[V any] interface {\n\tPut(v V) bool\n}\n", name), nil, true
	case 5:
		return fmt.Sprintf("type %s interface {\n\tNames() []string\n\tCount() int\n\tReset()\n}\n", name), nil, false
	case 6:
		return fmt.Sprintf("type %s interface {\n\tFn(f func(int) string) map[string][]byte\n}\n", name), nil, false
	default:
		return fmt.Sprintf("type %s interface {\n\tHandle(s *Thing) (Thing, error)\n}\n", name), nil, false
	}
}

func mockName(iface string) string {
	// docs/configuration.md: structname defaults to {{.Mock}}{{.InterfaceName}}; Mock is "Mock" for an
	// exported interface and "mock" otherwise.
	if ast.IsExported(iface) {
		return "Mock" + iface
	}
	return "mock" + iface
}

func renderModule(m ModSpec) map[string]string {
	files := map[string]string{}
	for _, p := range m.Pkgs {
		for f := 0; f < 2; f++ {
			var body strings.Builder
			imps := map[string]bool{}
			for _, it := range p.Ifaces {
				if it.File != f {
					continue
				}
				d, im, _ := shape(it.Shape, it.Name)
				for _, i := range im {
					imps[i] = true
				}
				body.WriteString("\n" + d)
			}
			if f == 0 {
				body.WriteString("\n// Thing is not an interface.\ntype Thing struct{ A int }\n\n// NewThing is a function, not an interface.\nfunc NewThing() *Thing { return &Thing{A: Answer} }\n\nconst Answer = 42\n\ntype fnType func(int) error\n\nvar _ fnType\n")
			} else if body.Len() == 0 {
				continue
			}
			var src strings.Builder
			fmt.Fprintf(&src, "package %s\n", p.Name)
			var il []string
			for i := range imps {
				il = append(il, i)
			}
			sort.Strings(il)
			if len(il) > 0 {
				src.WriteString("\nimport (\n")
				for _, i := range il {
					fmt.Fprintf(&src, "\t%q\n", i)
				}
				src.WriteString(")\n")
			}
			src.WriteString(body.String())
			files[filepath.Join("m", p.Dir, fmt.Sprintf("f%d.go", f))] = src.String()
		}
	}
	return files
}

func assertFile(p PkgSpec) string {
	var sb strings.Builder
	needTesting := false
	fmt.Fprintf(&sb, "package %s\n\n", p.Name)
	for _, it := range p.Ifaces {
		_, _, g := shape(it.Shape, it.Name)
		inst := ""
		if g {
			inst = "[int]"
		}
		fmt.Fprintf(&sb, "var _ %s%s = (*%s%s)(nil)\n", it.Name, inst, mockName(it.Name), inst)
		if ast.IsExported(it.Name) {
			// docs/template/testify.md "Mock Constructors": every mock object has a constructor, used as
			// `m := NewMockRequester(t)`; type-checked only, never executed
			needTesting = true
			fmt.Fprintf(&sb, "func _(t *testing.T) { var m *%s%s = New%s%s(t); _ = m }\n", mockName(it.Name), inst, mockName(it.Name), inst)
		}
	}
	if needTesting {
		return strings.Replace(sb.String(), "\n\n", "\n\nimport \"testing\"\n\n", 1)
	}
	return sb.String()
}

// ---- documented defaults ----------------------------------------------------------------------

type docTables struct {
	table   map[string]any // "Parameter Descriptions" table, default column
	example map[string]any // the .mockery.yml shown in the `mockery init` section
	err     string
}

var (
	docsOnce sync.Once
	docs     docTables
)

var tableRowRe = regexp.MustCompile("^\\|\\s*\\[?`([A-Za-z_-]+)`[^|]*\\|[^|]*\\|\\s*`#!yaml ([^`]*)`\\s*\\|")
var exampleLineRe = regexp.MustCompile(`^([a-z_-]+): (.*)$`)

func parseScalar(s string) any {
	var v any
	if err := yaml.Unmarshal([]byte(s), &v); err != nil {
		return strings.Trim(s, `'"`)
	}
	return v
}

func loadDocs() docTables {
	docsOnce.Do(func() {
		docs = docTables{table: map[string]any{}, example: map[string]any{}}
		b, err := os.ReadFile(filepath.Join(vh.RepoDir(), "docs", "configuration.md"))
		if err != nil {
			docs.err = err.Error()
			return
		}
		inExample := false
		for _, ln := range strings.Split(string(b), "\n") {
			if m := tableRowRe.FindStringSubmatch(ln); m != nil {
				docs.table[m[1]] = parseScalar(m[2])
				continue
			}
			if strings.HasPrefix(ln, "```yaml title=\".mockery.yml\"") {
				inExample = len(docs.example) == 0
				continue
			}
			if inExample {
				if strings.HasPrefix(ln, "```") || strings.HasPrefix(ln, "packages:") {
					inExample = false
					continue
				}
				if m := exampleLineRe.FindStringSubmatch(ln); m != nil {
					docs.example[m[1]] = parseScalar(m[2])
				}
			}
		}
	})
	return docs
}

// ---- yaml helpers -----------------------------------------------------------------------------

func parseDoc(b []byte) (*yaml.Node, *yaml.Node, error) {
	var doc yaml.Node
	dec := yaml.NewDecoder(bytes.NewReader(b))
	if err := dec.Decode(&doc); err != nil {
		return nil, nil, err
	}
	var second yaml.Node
	if err := dec.Decode(&second); err == nil {
		return nil, nil, fmt.Errorf("more than one YAML document")
	}
	if doc.Kind != yaml.DocumentNode || len(doc.Content) != 1 || doc.Content[0].Kind != yaml.MappingNode {
		return nil, nil, fmt.Errorf("top level is not a mapping")
	}
	return &doc, doc.Content[0], nil
}

func mapGet(m *yaml.Node, key string) *yaml.Node {
	if m == nil || m.Kind != yaml.MappingNode {
		return nil
	}
	for i := 0; i+1 < len(m.Content); i += 2 {
		if m.Content[i].Value == key && m.Content[i].Kind == yaml.ScalarNode {
			return m.Content[i+1]
		}
	}
	return nil
}

// without re-encodes the document with the given top-level keys removed.
func without(b []byte, drop func(key string) bool) ([]byte, error) {
	doc, top, err := parseDoc(b)
	if err != nil {
		return nil, err
	}
	var kept []*yaml.Node
	for i := 0; i+1 < len(top.Content); i += 2 {
		if drop(top.Content[i].Value) {
			continue
		}
		kept = append(kept, top.Content[i], top.Content[i+1])
	}
	top.Content = kept
	var buf bytes.Buffer
	enc := yaml.NewEncoder(&buf)
	enc.SetIndent(2)
	if err := enc.Encode(doc); err != nil {
		return nil, err
	}
	_ = enc.Close()
	return buf.Bytes(), nil
}

// onePackage decodes a YAML document the way mockery's loader does (yaml.v3 into map[string]any)
// and checks that `packages` has exactly one key, equal to want, whose config.all is the boolean
// true. It returns a diagnostic or "".
func onePackage(doc []byte, want string) (diag, detail string) {
	var m map[string]any
	if err := yaml.Unmarshal(doc, &m); err != nil {
		return "not-a-yaml-mapping", "does not decode as a YAML mapping: " + err.Error()
	}
	pk, ok := m["packages"].(map[string]any)
	if !ok {
		return "no-packages-mapping", fmt.Sprintf("`packages` is %T, not a mapping", m["packages"])
	}
	if len(pk) != 1 {
		var keys []string
		for k := range pk {
			keys = append(keys, fmt.Sprintf("%q", k))
		}
		sort.Strings(keys)
		return "package-count", fmt.Sprintf("%d packages instead of one: %s", len(pk), vh.Trunc(strings.Join(keys, ","), 300))
	}
	for k, v := range pk {
		if k != want {
			return "package-key-changed", fmt.Sprintf("package key loads back as %q, the argument was %q", vh.Trunc(k, 200), vh.Trunc(want, 200))
		}
		pc, _ := v.(map[string]any)
		cfg, _ := pc["config"].(map[string]any)
		if all, ok := cfg["all"].(bool); !ok || !all {
			return "all-not-true", fmt.Sprintf("package config `all` is %#v, want boolean true", cfg["all"])
		}
	}
	return "", ""
}

// ---- execution --------------------------------------------------------------------------------

func (s Step) configArg(c Case, mod string) string {
	switch s.Mode {
	case "abs":
		return filepath.Join(mod, c.Target)
	case "reldot":
		if strings.HasPrefix(c.Target, "../") {
			return "./" + c.Target
		}
		return "./" + c.Target
	default:
		return c.Target
	}
}

func (s Step) argv(c Case, mod string) []string {
	var flag []string
	if s.Mode != "default" {
		if s.Eq {
			flag = []string{"--config=" + s.configArg(c, mod)}
		} else {
			flag = []string{"--config", s.configArg(c, mod)}
		}
	}
	var a []string
	if s.FlagPos == "root" {
		a = append(a, flag...)
	}
	a = append(a, "init")
	if s.FlagPos == "sub" {
		a = append(a, flag...)
	}
	if s.DashDash {
		a = append(a, "--")
	}
	a = append(a, s.Pkg)
	if s.FlagPos == "after" {
		a = append(a, flag...)
	}
	return a
}

var yaml11Word = regexp.MustCompile(`^(?i:y|n|yes|no|on|off)$`)

// pkgClass says, as a function of the argument alone, why it is (not) YAML-significant: written as
// a plain scalar it would not load back as the same string (yaml.v3 is the judge: "resolves-<tag>" or
// "syntax"), it is a YAML 1.1 boolean word, longer than a simple key may be (128), or not ASCII.
func pkgClass(s Step) string {
	if s.Real >= 0 {
		return "real"
	}
	var n yaml.Node
	if err := yaml.Unmarshal([]byte(s.Pkg), &n); err != nil || n.Kind != yaml.DocumentNode || len(n.Content) != 1 {
		return "yaml-syntax"
	}
	if sc := n.Content[0]; sc.Kind != yaml.ScalarNode || sc.ShortTag() != "!!str" {
		if sc.Kind != yaml.ScalarNode {
			return "yaml-syntax"
		}
		return "yaml-resolves-" + strings.TrimPrefix(sc.ShortTag(), "!!")
	} else if sc.Value != s.Pkg {
		return "yaml-syntax"
	}
	if yaml11Word.MatchString(s.Pkg) {
		return "yaml11-word"
	}
	if len(s.Pkg) > 128 {
		return "long-key"
	}
	for _, r := range s.Pkg {
		if r > 126 {
			return "non-ascii"
		}
	}
	return "plain"
}

func yamlSignificant(s Step) bool {
	c := pkgClass(s)
	return c != "real" && c != "plain"
}

// fullRunShape labels the package a full run mocks: how many interfaces, whether exported and
// unexported ones share the single output file, which kind is declared first, generics, several files.
func fullRunShape(p PkgSpec) []string {
	order := declOrder(p)
	cl := []string{fmt.Sprintf("full-run:ifaces=%d", len(order))}
	exp, unexp, files, generic := 0, 0, map[int]bool{}, false
	for _, it := range p.Ifaces {
		if ast.IsExported(it.Name) {
			exp++
		} else {
			unexp++
		}
		files[it.File] = true
		if _, _, g := shape(it.Shape, it.Name); g {
			generic = true
		}
	}
	if exp > 0 && unexp > 0 {
		cl = append(cl, "full-run:mixed-exported-unexported")
		if ast.IsExported(order[0]) {
			cl = append(cl, "full-run:mixed/exported-declared-first")
		} else {
			cl = append(cl, "full-run:mixed/unexported-declared-first")
		}
		if sort.StringsAreSorted(order) {
			cl = append(cl, "full-run:mixed/declared-in-name-order")
		}
	}
	if generic {
		cl = append(cl, "full-run:generic")
	}
	if len(files) > 1 {
		cl = append(cl, "full-run:multi-file")
	}
	return cl
}

func classify(c Case) (string, []string) {
	cl := []string{"state=" + c.State, fmt.Sprintf("steps=%d", len(c.Steps))}
	nt := false
	// does some invocation see an object at the target path? (statically unknown after a don't-care state)
	there, unknown := false, false
	switch c.State {
	case "empty", "valid", "garbage", "readonly", "dir", "symlink":
		there = true
	case "missingdir", "parentfile", "dangling":
		unknown = true
	}
	for _, s := range c.Steps {
		if s.Remove {
			there = false
			if c.State == "dangling" {
				unknown = false
			}
		}
		if there {
			nt = true
			cl = append(cl, "sees-existing-target")
		}
		if !unknown {
			there = true
		}
		cl = append(cl, "pkg="+s.Kind, "cfg="+s.Mode)
		if s.FlagPos != "" {
			cl = append(cl, "flagpos="+s.FlagPos)
		}
		if s.DashDash {
			cl = append(cl, "dashdash")
		}
		if s.Remove {
			cl = append(cl, "remove-between")
		}
		if strings.HasPrefix(s.Pkg, "-") {
			cl = append(cl, "pkg-leading-dash")
		}
		if strings.HasPrefix(s.Pkg, "@") {
			cl = append(cl, "pkg-leading-at")
		}
		cl = append(cl, "pkgclass="+pkgClass(s))
		if yamlSignificant(s) {
			nt = true
			cl = append(cl, "pkg-yaml-significant")
		}
	}
	switch {
	case c.Target == ".mockery.yml":
		cl = append(cl, "target=default-name")
	case strings.HasPrefix(c.Target, "../"):
		cl = append(cl, "target=outside-module")
	case strings.Contains(c.Target, "/"):
		cl = append(cl, "target=in-subdir")
	default:
		cl = append(cl, "target=other-name")
	}
	if c.Full {
		cl = append(cl, "full-run")
		if r := c.Steps[0].Real; r >= 0 && r < len(c.Mod.Pkgs) {
			cl = append(cl, fullRunShape(c.Mod.Pkgs[r])...)
		}
	}
	if c.Decoy != "" {
		cl = append(cl, "decoy-in-parent=."+c.Decoy)
		if c.Full {
			cl = append(cl, "full-run+decoy=."+c.Decoy+"+target="+c.Target)
		}
	}
	if nt {
		return vh.Hash(vh.JSON(c)), cl
	}
	return "", cl
}

type world struct {
	c      Case
	root   string // scratch root
	mod    string // module root = cwd
	target string // absolute target path
	hist   []string
}

func (w *world) fail(key, format string, a ...any) *vh.Violation {
	files := vh.ReadTree(w.root)
	delete(files, "m/go.sum")
	// the text must be a function of the case alone (rapid only shrinks failures whose message repeats)
	return vh.Violate(key, "%s", w.scrub(fmt.Sprintf(format, a...))).With(files, w.scrub(strings.Join(w.hist, "\n")))
}

var tsRe = regexp.MustCompile(`\d{4}-\d\d-\d\dT\d\d:\d\d:\d\d(\.\d+)?(Z|[+-]\d\d:\d\d)`)

func (w *world) scrub(s string) string {
	return tsRe.ReplaceAllString(strings.ReplaceAll(s, w.root, "<scratch>"), "<time>")
}

func (w *world) showconfig(cfgArg string) vh.Result {
	return vh.Mockery(w.mod, nil, "showconfig", "--config", cfgArg)
}

func exists(p string) bool {
	_, err := os.Lstat(p)
	return err == nil
}

func run(c Case) *vh.Violation {
	fp, cl := classify(c)
	vh.Count(fp, cl...)
	if fp != "" && vh.NeedSample() {
		vh.Sample(c)
	}
	root := vh.NewScratch()
	defer vh.RemoveAll(root)
	w := &world{c: c, root: root, mod: filepath.Join(root, "m")}
	w.target = filepath.Join(w.mod, c.Target)

	// the module and the directories every target may live in
	vh.WriteFiles(root, renderModule(c.Mod))
	vh.NewModule(w.mod, c.Mod.Path)
	for _, d := range []string{"conf/deep/er", "sub"} {
		if err := os.MkdirAll(filepath.Join(w.mod, d), 0o755); err != nil {
			vh.Infra("mkdir: %v", err)
		}
	}

	// a decoy configuration in the parent directory of the module (never next to the target)
	decoy := c.Decoy
	if decoy != "" && filepath.Dir(w.target) == root {
		vh.DontCare("second-config-next-to-target")
		decoy = ""
	}
	if decoy != "" {
		vh.WriteFiles(root, map[string]string{".mockery." + decoy: decoyConfig(c.Mod)})
	}

	// initial state of the target
	present := false // a file system object exists at the target path
	dontcare := ""   // the property does not say what init has to do
	switch c.State {
	case "absent":
	case "empty", "valid", "garbage":
		if err := os.WriteFile(w.target, c.Content, 0o644); err != nil {
			vh.Infra("write target: %v", err)
		}
		present = true
	case "readonly":
		if err := os.WriteFile(w.target, c.Content, 0o444); err != nil {
			vh.Infra("write target: %v", err)
		}
		present = true
	case "dir":
		if err := os.MkdirAll(w.target, 0o755); err != nil {
			vh.Infra("mkdir target: %v", err)
		}
		vh.WriteFiles(w.target, map[string]string{"keep.txt": "inside the directory\n"})
		present = true
	case "symlink":
		real := filepath.Join(root, "elsewhere.yml")
		if err := os.WriteFile(real, c.Content, 0o644); err != nil {
			vh.Infra("write link destination: %v", err)
		}
		if err := os.Symlink(real, w.target); err != nil {
			vh.Infra("symlink: %v", err)
		}
		present = true
	case "dangling":
		if err := os.Symlink(filepath.Join(root, "does-not-exist.yml"), w.target); err != nil {
			vh.Infra("symlink: %v", err)
		}
		dontcare = "dangling-symlink"
	case "missingdir":
		dontcare = "missing-parent-dir"
	case "parentfile":
		dontcare = "parent-is-a-file"
	default:
		vh.Infra("unknown state %q", c.State)
	}
	if (present || c.State == "dangling") != exists(w.target) {
		vh.Infra("harness failed to establish state %q", c.State)
	}
	stateLabel := c.State
	var creator *Step // the invocation that wrote the file now at the target

	for si := range c.Steps {
		s := c.Steps[si]
		if s.Remove {
			if exists(w.target) {
				_ = os.Chmod(w.target, 0o755)
				if err := os.RemoveAll(w.target); err != nil {
					vh.Infra("remove target: %v", err)
				}
			}
			w.hist = append(w.hist, fmt.Sprintf("step %d: user removes %s", si, c.Target))
			if present || c.State == "dangling" {
				present, dontcare, stateLabel, creator = false, "", "absent-after-remove", nil
			}
		}
		before := vh.Snapshot(root)
		args := s.argv(c, w.mod)
		res := vh.Mockery(w.mod, nil, args...)
		if res.TimedOut {
			vh.Infra("mockery init timed out")
		}
		after := vh.Snapshot(root)
		diff := vh.DiffSnap(before, after)
		w.hist = append(w.hist, fmt.Sprintf("step %d: [state %s] mockery %s -> exit %d, tree changes %v\n%s", si, stateLabel,
			vh.Trunc(strings.Join(args, " "), 400), res.Exit, diff, indent(vh.Trunc(res.Both(), 1500))))
		// canonical key: the target state is the feature for everything about create-or-refuse, the kind
		// of package argument for everything about the written file
		feature := "state=" + stateLabel
		pkgFeature := "pkg=" + pkgClass(s)
		if res.Panicked() {
			return w.fail("init/"+feature+"/"+pkgFeature+"/panic", "mockery init panicked")
		}
		switch {
		case present:
			// "an existing file is never modified and the command reports failure"
			if len(diff) != 0 {
				return w.fail("init/"+feature+"/existing-target-modified", "the target existed (%s) but the tree changed: %v (exit %d)", stateLabel, diff, res.Exit)
			}
			if res.Exit == 0 {
				return w.fail("init/"+feature+"/existing-target-exit0", "the target existed (%s) but init exited 0", stateLabel)
			}
			vh.Class("outcome=refused-existing")
		case dontcare != "":
			if res.Exit != 0 {
				if len(diff) != 0 {
					return w.fail("init/"+feature+"/failed-but-tree-changed", "init exited %d and changed the tree: %v", res.Exit, diff)
				}
				vh.DontCare(dontcare + ":refused")
				break
			}
			vh.DontCare(dontcare + ":created")
			for _, d := range diff {
				p := strings.TrimPrefix(d, "+")
				tgtRel, _ := filepath.Rel(root, w.target)
				destRel := "does-not-exist.yml"
				if !strings.HasPrefix(d, "+") || !(p == tgtRel || strings.HasPrefix(tgtRel, p+"/") || (c.State == "dangling" && p == destRel)) {
					return w.fail("init/"+feature+"/unrelated-tree-change", "init exited 0 but changed something other than the target: %v", diff)
				}
			}
			if v := w.checkCreated(s, pkgFeature); v != nil {
				return v
			}
			present, dontcare, stateLabel, creator = true, "", "created-by-init", &c.Steps[si]
		default:
			// absent: "writes a configuration file only if none exists at the target path"
			if res.Exit != 0 {
				return w.fail("init/"+feature+"/absent-target-refused", "no file existed at the target but init exited %d", res.Exit)
			}
			tgtRel, _ := filepath.Rel(root, w.target)
			if len(diff) != 1 || diff[0] != "+"+tgtRel {
				return w.fail("init/"+feature+"/wrong-tree-change", "expected exactly the target to be created, tree changes: %v", diff)
			}
			if v := w.checkCreated(s, pkgFeature); v != nil {
				return v
			}
			vh.Class("outcome=created")
			present, stateLabel, creator = true, "created-by-init", &c.Steps[si]
		}
	}

	if c.Full && creator != nil && creator.Real >= 0 {
		return w.fullRun(*creator)
	}
	return nil
}

// decoyConfig is valid and would generate Decoy<Name> mocks into decoy_mocks_test.go for the last
// package of the module, so that it is visible which file a plain run used.
func decoyConfig(m ModSpec) string {
	return "all: true\nstructname: 'Decoy{{.InterfaceName}}'\nfilename: decoy_mocks_test.go\npackages:\n  " +
		m.importPath(len(m.Pkgs)-1) + ":\n    config:\n      all: true\n"
}

func sortedVals(m map[string]string) []string {
	var l []string
	for _, v := range m {
		l = append(l, v)
	}
	sort.Strings(l)
	return l
}

// declOrder lists the interfaces file by file in source order.
func declOrder(p PkgSpec) []string {
	var l []string
	for f := 0; f < 2; f++ {
		for _, it := range p.Ifaces {
			if it.File == f {
				l = append(l, it.Name)
			}
		}
	}
	return l
}

func indent(s string) string {
	return "    " + strings.ReplaceAll(strings.TrimRight(s, "\n"), "\n", "\n    ")
}

// checkCreated judges the file a successful init has just written.
func (w *world) checkCreated(s Step, feature string) *vh.Violation {
	fi, err := os.Lstat(w.target)
	if err != nil || !(fi.Mode().IsRegular() || (w.c.State == "dangling" && fi.Mode()&os.ModeSymlink != 0)) {
		return w.fail("init/"+feature+"/no-file-created", "init exited 0 but there is no regular file at the target (%v)", err)
	}
	orig, err := os.ReadFile(w.target)
	if err != nil {
		return w.fail("init/"+feature+"/unreadable", "cannot read the written file: %v", err)
	}
	w.hist = append(w.hist, "written file:\n"+indent(vh.Trunc(string(orig), 2500)))

	// 1. parses as YAML
	_, top, err := parseDoc(orig)
	if err != nil {
		return w.fail("init/"+feature+"/written-file-not-yaml", "the written file does not parse as a YAML mapping: %v", err)
	}
	// (which package the file names is judged by mockery itself below: how a non-string key such as
	// `true:` or `123:` loads back is the loader's business, not YAML's)

	// 2. accepted by mockery itself; showconfig reports the same package
	cfgArg := s.configArg(w.c, w.mod)
	base := w.showconfig(cfgArg)
	if base.Panicked() {
		return w.fail("init/"+feature+"/showconfig-panic", "showconfig panicked on the file init wrote")
	}
	if base.Exit != 0 {
		return w.fail("init/"+feature+"/showconfig-rejects", "showconfig --config %s exited %d on the file init wrote:\n%s", cfgArg, base.Exit, vh.Trunc(lastLines(base.Stderr, 6), 1500))
	}
	if d, detail := onePackage([]byte(base.Stdout), s.Pkg); d != "" {
		return w.fail("init/"+feature+"/showconfig/"+d, "showconfig: %s", detail)
	}

	// 3. defaults round trip
	var keys []string
	for i := 0; i+1 < len(top.Content); i += 2 {
		if k := top.Content[i].Value; k != "packages" {
			keys = append(keys, k)
		}
	}
	variant := func(label string, drop func(string) bool) (string, *vh.Violation) {
		b, err := without(orig, drop)
		if err != nil {
			vh.Infra("re-encoding the written file: %v", err)
		}
		if err := os.WriteFile(w.target, b, 0o644); err != nil {
			vh.Infra("write variant: %v", err)
		}
		r := w.showconfig(cfgArg)
		if r.Panicked() {
			return "", w.fail("init/"+feature+"/showconfig-panic/"+label, "showconfig panicked on the written file with %s", label)
		}
		if r.Exit != 0 {
			return "", w.fail("init/"+feature+"/roundtrip/"+label+"/showconfig-rejects", "showconfig exits %d on the written file with %s:\n%s", r.Exit, label, vh.Trunc(lastLines(r.Stderr, 6), 1500))
		}
		return r.Stdout, nil
	}
	defer func() {
		if err := os.WriteFile(w.target, orig, 0o644); err != nil {
			vh.Infra("restore target: %v", err)
		}
	}()
	same, v := variant("nothing removed", func(string) bool { return false })
	if v != nil {
		return v
	}
	if same != base.Stdout {
		vh.Infra("re-encoding the written file with yaml.v3 changes what showconfig reports:\n%s", lineDiff(base.Stdout, same))
	}
	for _, k := range keys {
		k := k
		out, v := variant("top-level key "+k+" removed", func(x string) bool { return x == k })
		if v != nil {
			return v
		}
		if out != base.Stdout {
			return w.fail("init/default-roundtrip/key="+k, "the file states `%s` but it is not the loader's default: removing the key changes the effective configuration:\n%s", k, lineDiff(base.Stdout, out))
		}
	}
	out, v := variant("all top-level settings removed", func(x string) bool { return x != "packages" })
	if v != nil {
		return v
	}
	if out != base.Stdout {
		return w.fail("init/default-roundtrip/all-keys", "removing every top-level setting changes the effective configuration:\n%s", lineDiff(base.Stdout, out))
	}

	// 4. documented defaults
	d := loadDocs()
	if d.err != "" || len(d.table) < 10 {
		vh.DontCare("docs-table-unreadable")
	} else {
		for i := 0; i+1 < len(top.Content); i += 2 {
			k := top.Content[i].Value
			if k == "packages" {
				continue
			}
			var got any
			if err := top.Content[i+1].Decode(&got); err != nil {
				return w.fail("init/undecodable-value/key="+k, "value of %s cannot be decoded: %v", k, err)
			}
			tv, inTable := d.table[k]
			ev, inExample := d.example[k]
			switch {
			case !inTable && !inExample:
				vh.DontCare("undocumented-key:" + k)
			case inTable && inExample && !reflect.DeepEqual(tv, ev):
				vh.DontCare("docs-disagree-with-themselves:" + k)
				if !reflect.DeepEqual(got, tv) && !reflect.DeepEqual(got, ev) {
					return w.fail("init/documented-default/key="+k, "the file states %s: %#v; documented are %#v (parameter table) and %#v (init example)", k, got, tv, ev)
				}
			case inTable && !reflect.DeepEqual(got, tv):
				return w.fail("init/documented-default/key="+k, "the file states %s: %#v; the documented default is %#v", k, got, tv)
			case !inTable && !reflect.DeepEqual(got, ev):
				return w.fail("init/documented-default/key="+k, "the file states %s: %#v; the documented init output has %#v", k, got, ev)
			}
		}
	}
	return nil
}

func lastLines(s string, n int) string {
	l := strings.Split(strings.TrimRight(s, "\n"), "\n")
	if len(l) > n {
		l = l[len(l)-n:]
	}
	return strings.Join(l, "\n")
}

func lineDiff(a, b string) string {
	al, bl := strings.Split(a, "\n"), strings.Split(b, "\n")
	in := func(l []string) map[string]int {
		m := map[string]int{}
		for _, x := range l {
			m[x]++
		}
		return m
	}
	am, bm := in(al), in(bl)
	var out []string
	for _, x := range al {
		if bm[x] == 0 {
			out = append(out, "  with key   : "+x)
		}
	}
	for _, x := range bl {
		if am[x] == 0 {
			out = append(out, "  without key: "+x)
		}
	}
	if len(out) > 20 {
		out = out[:20]
	}
	return strings.Join(out, "\n")
}

// fullRun: a plain `mockery` run with the written file mocks every interface of the named package.
func (w *world) fullRun(s Step) *vh.Violation {
	c := w.c
	pkg := c.Mod.Pkgs[s.Real]
	feature := "pkg=" + pkgClass(s)
	var args []string
	bySearch := c.Target == ".mockery.yml" || c.Target == ".mockery.yaml" || c.Target == "../.mockery.yml"
	if !bySearch || c.FullByFlag {
		args = []string{"--config", c.Target}
		vh.Class("run=by-flag")
	} else {
		vh.Class("run=by-search")
	}
	before := vh.Snapshot(w.root)
	res := vh.Mockery(w.mod, nil, args...)
	if res.TimedOut {
		vh.Infra("mockery run timed out")
	}
	after := vh.Snapshot(w.root)
	diff := vh.DiffSnap(before, after)
	w.hist = append(w.hist, fmt.Sprintf("plain run: mockery %s -> exit %d, tree changes %v\n%s", strings.Join(args, " "), res.Exit, diff, indent(vh.Trunc(res.Both(), 3000))))
	if res.Panicked() {
		return w.fail("run/"+feature+"/panic", "mockery panicked when run with the file init wrote")
	}
	if res.Exit != 0 {
		return w.fail("run/"+feature+"/exit", "a plain mockery run with the file init wrote exited %d:\n%s", res.Exit, vh.Trunc(lastLines(res.Stderr, 5), 1500))
	}
	// every package-level interface of the named package has a mock type in some new Go file
	found := map[string]bool{}
	ctor := map[string]string{} // name of the mock type -> a package-level function returning a pointer to it
	var newGo []string
	for _, d := range diff {
		if !strings.HasSuffix(d, ".go") {
			continue
		}
		p := filepath.Join(w.root, d[1:])
		newGo = append(newGo, d[1:])
		f, err := parser.ParseFile(token.NewFileSet(), p, nil, parser.SkipObjectResolution)
		if err != nil {
			return w.fail("run/"+feature+"/mock-file-unparsable", "generated file %s does not parse: %v", d[1:], err)
		}
		for _, decl := range f.Decls {
			if gd, ok := decl.(*ast.GenDecl); ok && gd.Tok == token.TYPE {
				for _, sp := range gd.Specs {
					found[sp.(*ast.TypeSpec).Name.Name] = true
				}
			}
			if fd, ok := decl.(*ast.FuncDecl); ok && fd.Recv == nil && fd.Type.Results != nil && len(fd.Type.Results.List) == 1 {
				if st, ok := fd.Type.Results.List[0].Type.(*ast.StarExpr); ok {
					x := st.X
					switch ix := x.(type) { // generic instantiation
					case *ast.IndexExpr:
						x = ix.X
					case *ast.IndexListExpr:
						x = ix.X
					}
					if id, ok := x.(*ast.Ident); ok && strings.EqualFold(fd.Name.Name, "new"+id.Name) {
						ctor[id.Name] = fd.Name.Name
					}
				}
			}
		}
	}
	var missing []string
	for _, it := range pkg.Ifaces {
		if !found[mockName(it.Name)] {
			missing = append(missing, it.Name)
		}
	}
	if len(missing) > 0 {
		exported := "exported"
		if !ast.IsExported(missing[0]) {
			exported = "unexported"
		}
		if c.Decoy != "" && bySearch && !c.FullByFlag {
			for name := range found {
				if strings.HasPrefix(name, "Decoy") {
					return w.fail("run/by-search/decoy-in-parent=.mockery."+c.Decoy+"/target="+c.Target+"/ancestor-config-used",
						"init wrote %s in the working directory, but the plain run used the .mockery.%s of the parent directory: it generated %v and no mock for %v of %s", c.Target, c.Decoy, newGo, missing, s.Pkg)
				}
			}
		}
		return w.fail("run/"+feature+"/missing-mock/"+exported, "no mock type generated for interface(s) %v of %s (new Go files: %v)", missing, s.Pkg, newGo)
	}
	// "All mock objects have constructor functions" (docs/template/testify.md, the template the written
	// file selects): New<Mock type> for an exported interface as in every documented use; for an
	// unexported one the docs fix no spelling, any new<mock type> (either case of the n) is accepted.
	for _, it := range pkg.Ifaces {
		mn := mockName(it.Name)
		switch got, ok := ctor[mn]; {
		case !ok:
			exported := "exported"
			if !ast.IsExported(it.Name) {
				exported = "unexported"
			}
			return w.fail("run/"+feature+"/missing-constructor/"+exported, "the mock %s of interface %s has no constructor function (package has %d interfaces; constructors found: %v)", mn, it.Name, len(pkg.Ifaces), sortedVals(ctor))
		case ast.IsExported(it.Name) && got != "New"+mn:
			return w.fail("run/"+feature+"/constructor-name/exported-interface", "the constructor of %s (exported interface %s) is %s, documented use is New%s(t) (interfaces of the package in declaration order: %v)", mn, it.Name, got, mn, declOrder(pkg))
		}
	}
	// compile oracle
	wantFile := filepath.Join("m", pkg.Dir, "mocks_test.go")
	assert := ""
	if _, ok := after[wantFile]; ok {
		assert = filepath.Join("m", pkg.Dir, "zz_c18_assert_test.go")
		vh.WriteFiles(w.root, map[string]string{assert: assertFile(pkg)})
	} else {
		vh.DontCare("mocks-not-at-documented-default-location")
	}
	ok, out := vh.GoVet(w.mod, "")
	if !ok {
		// is the module alone fine? (generator self-check, only on the failure path)
		if assert != "" {
			_ = os.Remove(filepath.Join(w.root, assert))
		}
		for _, g := range newGo {
			_ = os.Remove(filepath.Join(w.root, g))
		}
		if ok2, out2 := vh.GoVet(w.mod, ""); !ok2 {
			vh.Invalid()
			vh.Infra("generated module does not type-check by itself:\n%s", vh.Trunc(out2, 2000))
		}
		return w.fail("run/"+feature+"/does-not-compile/"+normDiag(out), "after the mockery run the module no longer type-checks (with assertions that every mock implements its interface):\n%s", vh.Trunc(out, 3000))
	}
	vh.Class("outcome=full-run-ok")
	return nil
}

var posRe = regexp.MustCompile(`^[^ ]*\.go:\d+:\d+: `)

func normDiag(out string) string {
	for _, ln := range strings.Split(out, "\n") {
		if posRe.MatchString(ln) {
			d := posRe.ReplaceAllString(ln, "")
			d = regexp.MustCompile(`[A-Za-z_]*[Mm]ock[A-Za-z_]*`).ReplaceAllString(d, "MOCK")
			return vh.Trunc(d, 60)
		}
	}
	return "vet"
}

// ---- structural reduction of a failing case (vh keeps a candidate when the key stays the same) ---

func clone(c Case) Case {
	var d Case
	d = c
	d.Content = append([]byte(nil), c.Content...)
	d.Steps = append([]Step(nil), c.Steps...)
	d.Mod.Pkgs = nil
	for _, p := range c.Mod.Pkgs {
		p.Ifaces = append([]IfaceSpec(nil), p.Ifaces...)
		d.Mod.Pkgs = append(d.Mod.Pkgs, p)
	}
	return d
}

func fixReal(c *Case) {
	for i := range c.Steps {
		if c.Steps[i].Real >= 0 {
			c.Steps[i].Pkg = c.Mod.importPath(c.Steps[i].Real)
		}
	}
}

func reduce(c Case) []Case {
	var out []Case
	add := func(f func(d *Case) bool) {
		d := clone(c)
		if f(&d) {
			fixReal(&d)
			out = append(out, d)
		}
	}
	add(func(d *Case) bool { ok := d.Full; d.Full, d.FullByFlag = false, false; return ok })
	add(func(d *Case) bool { ok := d.FullByFlag; d.FullByFlag = false; return ok })
	add(func(d *Case) bool { ok := d.Decoy != ""; d.Decoy = ""; return ok })
	for i := range c.Steps {
		i := i
		if len(c.Steps) > 1 {
			add(func(d *Case) bool {
				d.Steps = append(d.Steps[:i:i], d.Steps[i+1:]...)
				d.Steps[0].Remove = false
				return true
			})
		}
		add(func(d *Case) bool { ok := d.Steps[i].Remove; d.Steps[i].Remove = false; return ok })
		add(func(d *Case) bool {
			s := &d.Steps[i]
			ok := s.DashDash && !strings.HasPrefix(s.Pkg, "-")
			s.DashDash = false
			return ok
		})
		add(func(d *Case) bool {
			s := &d.Steps[i]
			if d.Target != ".mockery.yml" || s.Mode == "default" {
				return false
			}
			s.Mode, s.FlagPos, s.Eq = "default", "", false
			return true
		})
		add(func(d *Case) bool {
			s := &d.Steps[i]
			if s.Mode == "default" || s.Mode == "rel" {
				return false
			}
			s.Mode = "rel"
			return true
		})
		add(func(d *Case) bool {
			s := &d.Steps[i]
			if s.Mode == "default" || (s.FlagPos == "sub" && !s.Eq) {
				return false
			}
			s.FlagPos, s.Eq = "sub", false
			return true
		})
		if c.Steps[i].Real < 0 {
			// shorter argument of the same kind
			for _, shorter := range []string{firstSegment(c.Steps[i].Pkg), dropLastRune(c.Steps[i].Pkg)} {
				shorter := shorter
				add(func(d *Case) bool {
					if shorter == "" || shorter == d.Steps[i].Pkg {
						return false
					}
					d.Steps[i].Pkg = shorter
					return true
				})
			}
		}
	}
	// module: drop unreferenced packages, then interfaces, then plain names
	for pi := len(c.Mod.Pkgs) - 1; pi >= 1; pi-- {
		pi := pi
		add(func(d *Case) bool {
			for _, s := range d.Steps {
				if s.Real == pi {
					return false
				}
			}
			d.Mod.Pkgs = append(d.Mod.Pkgs[:pi:pi], d.Mod.Pkgs[pi+1:]...)
			for k := range d.Steps {
				if d.Steps[k].Real > pi {
					d.Steps[k].Real--
				}
			}
			return true
		})
	}
	for pi := range c.Mod.Pkgs {
		for ii := range c.Mod.Pkgs[pi].Ifaces {
			pi, ii := pi, ii
			if len(c.Mod.Pkgs[pi].Ifaces) > 1 {
				add(func(d *Case) bool {
					l := d.Mod.Pkgs[pi].Ifaces
					d.Mod.Pkgs[pi].Ifaces = append(l[:ii:ii], l[ii+1:]...)
					return true
				})
			}
			add(func(d *Case) bool {
				it := &d.Mod.Pkgs[pi].Ifaces[ii]
				if it.Shape == 0 && it.File == 0 {
					return false
				}
				it.Shape, it.File = 0, 0
				return true
			})
		}
	}
	add(func(d *Case) bool { ok := d.Mod.Path != modPaths[0]; d.Mod.Path = modPaths[0]; return ok })
	switch c.State {
	case "missingdir", "parentfile":
	default:
		add(func(d *Case) bool {
			if d.Target == ".mockery.yml" {
				return false
			}
			d.Target = ".mockery.yml"
			for k := range d.Steps {
				if d.Steps[k].Mode == "reldot" {
					d.Steps[k].Mode = "rel"
				}
			}
			return true
		})
	}
	if len(c.Content) > 1 {
		add(func(d *Case) bool { d.Content = d.Content[:len(d.Content)/2]; return true })
	}
	return out
}

func firstSegment(s string) string {
	if i := strings.Index(s, "/"); i > 0 {
		return s[:i]
	}
	return s
}

func dropLastRune(s string) string {
	r := []rune(s)
	if len(r) <= 1 {
		return s
	}
	return string(r[:len(r)-1])
}

func TestProp(t *testing.T) {
	if _, err := os.Stat(vh.SUT()); err != nil {
		t.Skipf("mockery binary missing: %v", err)
	}
	vh.Main(t, vh.Check[Case]{Gen: gen, Run: run, Reduce: reduce})
}
