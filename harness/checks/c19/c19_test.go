// C19 — `mockery migrate` carries every supported v2 setting to its v3 place unchanged.
//
// A case is a v2 configuration tree over the full key set of the strict v2 decoder
// (internal/cmd/migrate.go, V2Config): any subset of keys at each of the four levels
// (top, package config, interface config, configs[i]), bool/string/list/any-map values
// including YAML-significant strings, arbitrary package and interface names, null
// packages / interfaces / configs, `_anchors` maps (optionally holding anchored config
// blocks that are referenced with `*alias` / `<<: *alias` further down).
//
// The tree is rendered with yaml.v3 from the model below (never from the tool's types),
// `mockery migrate` is run in a scratch module, and the written v3 file is compared, as a
// yaml.Node tree, with a key-map model: every setting that has a v3 counterpart must appear
// with the same value at the same level under its v3 name, nothing may appear that is not
// the image of an input setting (apart from `template: testify`), names are map keys
// byte-for-byte, the input file is untouched, nothing panics, and `mockery showconfig`
// (the strict v3 loader) accepts the output.
package c19

import (
	"bytes"
	"encoding/json"
	"fmt"
	"os"
	"path/filepath"
	"regexp"
	"sort"
	"strconv"
	"strings"
	"testing"

	"gopkg.in/yaml.v3"
	"pgregory.net/rapid"
	"verif/harness/vh"
)

// ---- the v2 key set (every field of V2Config) and its v3 image ----------------------------------

type keyInfo struct {
	Name   string
	Kind   byte   // 'b' bool, 's' string, 'l' list of strings, 'a' any-map
	V3     string // v3 key ("template-data.x" for template data); "" = no counterpart
	Listed bool   // named by the property text as having a v3 counterpart
}

var keyTable = []keyInfo{
	{"all", 'b', "all", true},
	{"_anchors", 'a', "_anchors", true},
	{"boilerplate-file", 's', "template-data.boilerplate-file", true},
	{"tags", 's', "", false},
	{"case", 's', "", false},
	{"config", 's', "config", true},
	{"cpuprofile", 's', "", false},
	{"dir", 's', "dir", true},
	{"disable-config-search", 'b', "", false},
	{"disable-deprecation-warnings", 'b', "", false},
	{"disabled-deprecation-warnings", 'l', "", false},
	{"disable-func-mocks", 'b', "", false},
	{"disable-version-string", 'b', "", false},
	{"dry-run", 'b', "", false},
	{"exclude", 'l', "exclude-subpkg-regex", true},
	{"exclude-regex", 's', "exclude-interface-regex", true},
	{"exported", 'b', "", false},
	{"fail-on-missing", 'b', "", false},
	{"filename", 's', "", false},
	{"inpackage", 'b', "", false},
	{"inpackage-suffix", 'b', "", false},
	{"include-auto-generated", 'b', "", false},
	{"include-regex", 's', "include-interface-regex", true},
	{"issue-845-fix", 'b', "", false},
	{"keeptree", 'b', "", false},
	{"log-level", 's', "log-level", true},
	{"mock-build-tags", 's', "template-data.mock-build-tags", true},
	{"mockname", 's', "structname", true},
	{"name", 's', "", false},
	{"note", 's', "", false},
	{"outpkg", 's', "pkgname", true},
	{"output", 's', "", false},
	{"packageprefix", 's', "", false},
	{"print", 'b', "", false},
	{"profile", 's', "", false},
	{"quiet", 'b', "", false},
	{"recursive", 'b', "recursive", true},
	{"replace-type", 'l', "", false},
	{"resolve-type-alias", 'b', "", false},
	{"srcpkg", 's', "", false},
	{"structname", 's', "", false},
	{"testonly", 'b', "", false},
	{"unroll-variadic", 'b', "template-data.unroll-variadic", true},
	{"version", 'b', "", false},
	// documented by docs/v3.md (example output) although not named by the property: carried, don't-care
	{"with-expecter", 'b', "", false},
}

var keyByName = func() map[string]keyInfo {
	m := map[string]keyInfo{}
	for _, k := range keyTable {
		m[k.Name] = k
	}
	return m
}()

// v3 key -> v2 key for the listed keys
var v2OfV3 = func() map[string]string {
	m := map[string]string{}
	for _, k := range keyTable {
		if k.Listed {
			m[k.V3] = k.Name
		}
	}
	return m
}()

// canonical key of the known behaviour DESIGN §6 row 22
const keyRootAnchorsLoader = "migrate/root/_anchors/loader-panic"

// canonical key of the yaml.v3 emitter trouble (indent 2, as migrate sets it): a string that contains a
// line feed and starts with a tab, a line feed, U+2028 or U+2029 is written as a literal block that reads
// back without its first character(s) or does not parse at all
const keyLiteralBlock = "migrate/value=multi-line-string-starting-with-tab-or-line-break/not-preserved"

// canonical key: the output path was occupied and the old content was not fully replaced (the same case
// judged with a fresh output path holds)
const keyPreExisting = "migrate/outfile=pre-existing/old-content-not-replaced"

// canonical key: v2 exclude path that is not a regular expression, evaluated by a recursive package
const keyExcludeNotRegex = "migrate/value=exclude-path-not-a-regex/evaluated-by-recursive-package/loader-rejects"

// known reports whether key is a recorded finding (KNOWN_FINDINGS.txt) or is assumed to be one for a
// development run (C19_ASSUME_KNOWN=key1,key2), in which case the generator steers away from its trigger.
func known(key string) bool {
	if vh.Known(key) {
		return true
	}
	for _, k := range strings.Split(os.Getenv("C19_ASSUME_KNOWN"), ",") {
		if k == key {
			return true
		}
	}
	return false
}

// literalHazard: the trigger of keyLiteralBlock.
func literalHazard(s string) bool {
	if !strings.Contains(s, "\n") {
		return false
	}
	for _, p := range []string{"\t", "\n", "\u2028", "\u2029"} {
		if strings.HasPrefix(s, p) {
			return true
		}
	}
	return false
}

func anyHazard(a *Any) bool {
	if a == nil {
		return false
	}
	if a.T == "s" && literalHazard(a.S) {
		return true
	}
	for _, x := range a.L {
		if anyHazard(x) {
			return true
		}
	}
	for _, kv := range a.M {
		if anyHazard(kv.V) {
			return true
		}
	}
	return false
}

// entryHazard: does the entry hold a trigger string in a place that migrate writes out?
func entryHazard(e Entry) bool {
	switch e.Kind {
	case "s":
		return literalHazard(e.S)
	case "l":
		for _, s := range e.L {
			if literalHazard(s) {
				return true
			}
		}
	case "a":
		return anyHazard(anchorsAny(e.A))
	}
	return false
}

func (c *Case) emitsHazard() bool {
	for _, lv := range c.levels() {
		for k, e := range lv.ents {
			if keyByName[k].Listed && entryHazard(e) {
				return true
			}
		}
	}
	return false
}

func defuse(s string) string {
	if literalHazard(s) {
		vh.Excluded(keyLiteralBlock)
		return "x" + s
	}
	return s
}

func defuseAny(a *Any) {
	if a == nil {
		return
	}
	if a.T == "s" {
		a.S = defuse(a.S)
	}
	for _, x := range a.L {
		defuseAny(x)
	}
	for _, kv := range a.M {
		defuseAny(kv.V)
	}
}

func defuseEntries(ents []Entry) {
	for i := range ents {
		e := &ents[i]
		e.S = defuse(e.S)
		for j := range e.L {
			e.L[j] = defuse(e.L[j])
		}
		for j := range e.A {
			defuseAny(e.A[j].V)
			defuseEntries(e.A[j].Def)
		}
	}
}

// ---- case model ---------------------------------------------------------------------------------

// Any is an arbitrary YAML value inside an `_anchors` map.
type Any struct {
	T string  `json:"t"` // s string, i int, b bool, n null, l list, m map
	S string  `json:"s,omitempty"`
	I int64   `json:"i,omitempty"`
	B bool    `json:"b,omitempty"`
	L []*Any  `json:"l,omitempty"`
	M []AnyKV `json:"m,omitempty"`
}

type AnyKV struct {
	K string `json:"k"`
	V *Any   `json:"v,omitempty"`
	// IsDef: the value is an anchored v2 config block Def (`K: &aN {...}`), root level only.
	IsDef bool    `json:"is_def,omitempty"`
	Def   []Entry `json:"def,omitempty"`
}

// Entry is one `key: value` of a v2 config level.
type Entry struct {
	K     string   `json:"k"`
	Kind  string   `json:"kind"` // b, s, l, a, null (null = `key: ~`, i.e. unset)
	B     bool     `json:"b,omitempty"`
	S     string   `json:"s,omitempty"`
	L     []string `json:"l,omitempty"`
	A     []AnyKV  `json:"a,omitempty"`
	Style string   `json:"style,omitempty"` // strings: "", dq, sq, plain; bools: spelling; lists: "", flow
}

// Cfg is one config level.
type Cfg struct {
	State   string  `json:"state"`         // absent, null, map
	Use     string  `json:"use,omitempty"` // "", alias (`config: *aN`), merge (`<<: *aN` + Entries)
	Ref     int     `json:"ref,omitempty"` // index into the root `_anchors` entries (must have Def)
	Entries []Entry `json:"entries,omitempty"`
}

type Iface struct {
	Name         string `json:"name"`
	Null         bool   `json:"null,omitempty"` // `Name:` with a null value
	Config       Cfg    `json:"config"`
	ConfigsState string `json:"configs_state"` // absent, null, list
	Configs      []Cfg  `json:"configs,omitempty"`
}

type Pkg struct {
	Name        string  `json:"name"`
	Null        bool    `json:"null,omitempty"`
	Config      Cfg     `json:"config"`
	IfacesState string  `json:"ifaces_state"` // absent, null, map
	Ifaces      []Iface `json:"ifaces,omitempty"`
}

type Case struct {
	In  string `json:"in"`  // flag (--config v2.yml) | search (.mockery.yml / .mockery.yaml found in cwd)
	Out string `json:"out"` // flag (--outfile out/v3.yml) | default (.mockery_v3.yml)
	// Pre: what already sits at the output path: "" nothing, previous-larger (the result of migrating a
	// larger v2 file to the same path with the same binary), longer-text, shorter-text, empty
	Pre           string  `json:"pre,omitempty"`
	Root          []Entry `json:"root,omitempty"`
	PackagesState string  `json:"packages_state"` // absent, null, map
	Packages      []Pkg   `json:"packages,omitempty"`
}

// ---- value pools --------------------------------------------------------------------------------

var special = []string{
	"~", "true", "false", "null", "Null", "123", "1.5", "0x1F", "1e3", "-7", "0o17", ".inf", ".nan",
	"yes", "no", "on", "off", "y", "n",
	"a: b", "key: v: w", "- x", "-x", "--", "@at", "*star", "&anchor", "!tag", "!!str x", "%pct", "#hash", "a #b", "a#b",
	"{{.InterfaceName}}", "{{.InterfaceDir}}/mocks", "Mock{{.InterfaceName | firstUpper}}", "{{.Mock}}{{.InterfaceName}}",
	"mock_{{.InterfaceNameSnake}}_test.go", "{{", "{curly}", "[sq]", "[a, b]", "{a: 1}",
	"\"dq\"", "'sq'", "it's", "say \"hi\"", "back\\slash", "C:\\dir\\x", "`bt`",
	" lead", "trail ", "  ", "two\nlines", "trailing newline\n", "\nleading newline", "  indented\n  block\n", "\tTab\nx", "a\n\nb", "\u2028sep\nx", "tab\tx", "cr\rx", "",
	"ünïcödé", "接口", "🙂 mock", "e\u0301", "\u00a0nbsp", "a\u2028b", "\ufeffbom",
	"=", "?", "? q", "|", ">", "|-", ",", "a,b", ":", ": x", "x:", "...", "---", "--- x",
	"2001-12-14", "2001-12-14t21:59:43.10-05:00", "12:30:45", "1_000", "+1", "0b101", "010",
	"./mocks", "../x/y", "/abs/path with space", "mocks/{{.SrcPackageName}}",
	strings.Repeat("long-value-", 30),
}

var plainSafe = []string{"123", "1.5", "true", "false", "0x1F", "1e3", "yes", "no", "on", "off", "-7", "2001-12-14"}

var regexSafe = func() []string {
	var out []string
	for _, s := range special {
		if _, err := regexp.Compile(s); err == nil {
			out = append(out, s)
		}
	}
	out = append(out, "^Foo$", ".*Internal.*", "(?i)mock", "github.com/acme/lib/internal", "\\*star", "[a-z]+_test", "a|b")
	return out
}()

var logLevels = []string{"trace", "debug", "info", "warn", "error", "fatal", "panic", ""}

var pkgNames = []string{
	"github.com/acme/lib", "github.com/acme/lib/v2", "github.com/acme/lib/", "github.com/acme/lib/internal/x",
	"example.com/m", "example.com/m/pkg1", "example.com/m/pkg1/sub", "example.com/m/pkg2", "example.com/m/missing",
	"io", "net/http", "gopkg.in/yaml.v3", "k8s.io/api/core/v1",
}

var ifaceNames = []string{"Foo", "fooBar", "Requester", "T1", "_", "_x", "Ünï", "接口", "Config", "config", "configs", "interfaces", "packages", "Interface"}

// YAML-significant or otherwise unusual names (packages and interfaces)
var oddNames = []string{
	"true", "false", "null", "nil", "~", "123", "1.5", "0x1F", "1e3", "y", "n", "yes", "no", "on", "off", "Y", "NO",
	"a: b", "- x", "-x", "@at", "*star", "&a", "!t", "%p", "#h", "a #b", "", " sp", "sp ", "two\nlines", "tab\tx",
	"ünï/cödé", "接口/包", "🙂", "a|b", "a.b", "a/b.c|d", "{{.X}}", "[x]", "{x}", "'q'", "\"q\"", "it's", "?", "? x", ":", " : ", "x:", "=", "|", ">", ",",
	"2001-12-14", "back\\slash", "...", "---", "_anchors", "template", "template-data", "all",
	strings.Repeat("very/long/name/", 20),
}

// ---- generator ----------------------------------------------------------------------------------

type density struct {
	name   string
	pm, pu int // per-mille inclusion probability of mapped / unmapped keys
}

var densities = []density{
	{"empty", 0, 0}, {"sparse", 200, 30}, {"sparse", 200, 30}, {"medium", 450, 100}, {"medium", 450, 100}, {"medium", 450, 100},
	{"dense", 800, 300}, {"mapped-full", 1000, 0}, {"full", 1000, 1000},
}

func chance(t *rapid.T, permille int, label string) bool {
	// always draw (also for 0 and 1000) so that the draw sequence has the same shape under every density:
	// the shrinker can then lower the density first and the individual keys afterwards
	return rapid.IntRange(0, 999).Draw(t, label) >= 1000-permille // shrinks towards "no"
}

func genString(t *rapid.T, key, tag string) (string, string) {
	var s string
	switch {
	case key == "log-level":
		s = rapid.SampledFrom(logLevels).Draw(t, "loglevel")
	case rapid.IntRange(0, 9).Draw(t, "marker") >= 6:
		s = key + "=" + tag // unique per (level, key): makes leaks between keys and levels visible
	case key == "exclude" && rapid.IntRange(0, 3).Draw(t, "pkgpath") == 0:
		// v2 `exclude` holds package paths, not expressions: `+` is legal in an import path and
		// `c++` is not a valid regular expression. The migrated file must still load.
		s = rapid.SampledFrom([]string{"example.com/m/bindings/c++", "github.com/acme/lib/c++/internal", "pkg/a++"}).Draw(t, "pkgpathv")
	case key == "exclude" || key == "include-regex" || key == "exclude-regex":
		s = rapid.SampledFrom(regexSafe).Draw(t, "regex")
	default:
		s = rapid.SampledFrom(special).Draw(t, "special")
	}
	style := rapid.SampledFrom([]string{"", "", "", "dq", "sq"}).Draw(t, "style")
	for _, p := range plainSafe {
		if p == s && rapid.Bool().Draw(t, "plain") {
			style = "plain"
		}
	}
	return s, style
}

var trueSpell = []string{"", "", "", "True", "TRUE", "yes", "on", "y", "Yes", "ON"}
var falseSpell = []string{"", "", "", "False", "FALSE", "no", "off", "n", "No", "OFF"}

func genAny(t *rapid.T, depth int) *Any {
	k := rapid.IntRange(0, 9).Draw(t, "anykind")
	if depth >= 3 && k >= 7 {
		k = 0
	}
	switch {
	case k <= 3:
		return &Any{T: "s", S: rapid.SampledFrom(special).Draw(t, "anystr")}
	case k == 4:
		return &Any{T: "i", I: int64(rapid.IntRange(-5, 1000).Draw(t, "anyint"))}
	case k == 5:
		return &Any{T: "b", B: rapid.Bool().Draw(t, "anybool")}
	case k == 6:
		return &Any{T: "n"}
	case k == 7:
		a := &Any{T: "l"}
		for i, n := 0, rapid.IntRange(0, 3).Draw(t, "anylen"); i < n; i++ {
			a.L = append(a.L, genAny(t, depth+1))
		}
		return a
	default:
		return &Any{T: "m", M: genAnyMap(t, depth+1, 0, 3)}
	}
}

var anyKeys = []string{"k", "key2", "x-y", "defaults", "true", "123", "~", "a b", "ünï", "a.b", "all", "dir", "config", "mockname", "with: colon", "-dash", ""}

func genAnyMap(t *rapid.T, depth, min, max int) []AnyKV {
	var out []AnyKV
	seen := map[string]bool{}
	for i, n := 0, rapid.IntRange(min, max).Draw(t, "anymaplen"); i < n; i++ {
		k := rapid.SampledFrom(anyKeys).Draw(t, "anykey")
		if seen[k] {
			continue
		}
		seen[k] = true
		out = append(out, AnyKV{K: k, V: genAny(t, depth)})
	}
	return out
}

// genEntries draws one config level. anchors: 0 = never emit `_anchors`, 1 = plain any-map, 2 = may hold anchored blocks (root).
func genEntries(t *rapid.T, tag string, anchors int) []Entry {
	d := rapid.SampledFrom(densities).Draw(t, "density")
	var out []Entry
	for _, k := range keyTable {
		p := d.pu
		if k.Listed || k.Name == "with-expecter" {
			p = d.pm
		}
		if k.Kind == 'a' {
			if anchors == 0 {
				continue
			}
			if p > 350 && p < 1000 {
				p = 350
			}
		}
		if !chance(t, p, "has:"+k.Name) {
			continue
		}
		if rapid.IntRange(0, 24).Draw(t, "nullval") == 24 {
			out = append(out, Entry{K: k.Name, Kind: "null", Style: rapid.SampledFrom([]string{"", "~", "null"}).Draw(t, "nullspell")})
			continue
		}
		e := Entry{K: k.Name, Kind: string(k.Kind)}
		switch k.Kind {
		case 'b':
			e.B = rapid.Bool().Draw(t, "bool")
			if e.B {
				e.Style = rapid.SampledFrom(trueSpell).Draw(t, "spell")
			} else {
				e.Style = rapid.SampledFrom(falseSpell).Draw(t, "spell")
			}
		case 's':
			e.S, e.Style = genString(t, k.Name, tag)
		case 'l':
			n := rapid.SampledFrom([]int{0, 1, 1, 2, 2, 2, 3, 3}).Draw(t, "listlen")
			e.L = []string{}
			for i := 0; i < n; i++ {
				s, _ := genString(t, k.Name, fmt.Sprintf("%s[%d]", tag, i))
				e.L = append(e.L, s)
			}
			e.Style = rapid.SampledFrom([]string{"", "", "flow"}).Draw(t, "liststyle")
		case 'a':
			e.A = genAnyMap(t, 1, 0, 3)
			if anchors == 2 {
				for i, n := 0, rapid.IntRange(0, 2).Draw(t, "ndefs"); i < n; i++ {
					e.A = append(e.A, AnyKV{K: fmt.Sprintf("block%d", i), IsDef: true, Def: genDef(t, fmt.Sprintf("anc%d", i))})
				}
			}
		}
		out = append(out, e)
	}
	return out
}

// genDef draws an anchored config block: plain styles only, no nulls, no nested _anchors.
func genDef(t *rapid.T, tag string) []Entry {
	var out []Entry
	for _, e := range genEntries(t, tag, 0) {
		if e.Kind == "null" {
			continue
		}
		if e.Kind == "s" && e.Style == "plain" {
			e.Style = ""
		}
		if e.Kind == "b" {
			e.Style = ""
		}
		out = append(out, e)
	}
	return out
}

func defRefs(root []Entry) []int {
	var refs []int
	for _, e := range root {
		if e.K == "_anchors" && e.Kind == "a" {
			for i, kv := range e.A {
				if kv.IsDef {
					refs = append(refs, i)
				}
			}
		}
	}
	return refs
}

func rootAnchors(root []Entry) []AnyKV {
	for _, e := range root {
		if e.K == "_anchors" && e.Kind == "a" {
			return e.A
		}
	}
	return nil
}

func genCfg(t *rapid.T, c *Case, tag string, states []string) Cfg {
	cf := Cfg{State: rapid.SampledFrom(states).Draw(t, "cfgstate")}
	if cf.State != "map" {
		return cf
	}
	refs := defRefs(c.Root)
	if len(refs) > 0 && rapid.IntRange(0, 2).Draw(t, "useanchor") == 2 {
		cf.Ref = rapid.SampledFrom(refs).Draw(t, "ref")
		if rapid.Bool().Draw(t, "aliasOrMerge") {
			cf.Use = "alias"
			return cf
		}
		cf.Use = "merge"
		// own keys disjoint from the merged block (which of the two wins is not part of this property)
		have := map[string]bool{}
		for _, e := range rootAnchors(c.Root)[cf.Ref].Def {
			have[e.K] = true
		}
		for _, e := range genEntries(t, tag, 1) {
			if !have[e.K] {
				cf.Entries = append(cf.Entries, e)
			}
		}
		return cf
	}
	cf.Entries = genEntries(t, tag, 1)
	return cf
}

func genName(t *rapid.T, normal []string, label string) string {
	if rapid.IntRange(0, 9).Draw(t, label+"odd") >= 6 {
		return rapid.SampledFrom(oddNames).Draw(t, label)
	}
	return rapid.SampledFrom(normal).Draw(t, label)
}

func gen(t *rapid.T) Case {
	c := Case{
		In:  rapid.SampledFrom([]string{"flag", "flag", "flag", "search-yml", "search-yaml"}).Draw(t, "in"),
		Out: rapid.SampledFrom([]string{"flag", "flag", "default"}).Draw(t, "out"),
		Pre: rapid.SampledFrom([]string{"", "", "", "", "previous-larger", "previous-larger", "longer-text", "longer-text", "shorter-text", "empty"}).Draw(t, "pre"),
	}
	c.Root = genEntries(t, "r", 2)
	if known(keyRootAnchorsLoader) {
		// recorded finding: a non-empty root `_anchors` map makes the v3 loader panic. Steer away
		// (which also removes every alias) so that the campaign keeps looking behind it.
		var kept []Entry
		for _, e := range c.Root {
			if e.K == "_anchors" && e.Kind == "a" && len(e.A) > 0 {
				vh.Excluded(keyRootAnchorsLoader)
				continue
			}
			kept = append(kept, e)
		}
		c.Root = kept
	}
	c.PackagesState = rapid.SampledFrom([]string{"map", "map", "map", "map", "map", "map", "map", "map", "map", "map", "absent", "null"}).Draw(t, "pkgsstate")
	if c.PackagesState == "map" {
		genPackages(t, &c)
	}
	if known(keyLiteralBlock) {
		defuseEntries(c.Root)
		for pi := range c.Packages {
			defuseEntries(c.Packages[pi].Config.Entries)
			for ii := range c.Packages[pi].Ifaces {
				it := &c.Packages[pi].Ifaces[ii]
				defuseEntries(it.Config.Entries)
				for ci := range it.Configs {
					defuseEntries(it.Configs[ci].Entries)
				}
			}
		}
	}
	return c
}

func genPackages(t *rapid.T, cp *Case) {
	c := *cp
	defer func() { *cp = c }()
	seenP := map[string]bool{}
	for pi, np := 0, rapid.SampledFrom([]int{0, 1, 1, 1, 2, 2, 2, 2, 3, 3, 3, 4}).Draw(t, "npkgs"); pi < np; pi++ {
		p := Pkg{Name: genName(t, pkgNames, "pkgname"), Config: Cfg{State: "absent"}, IfacesState: "absent"}
		if seenP[p.Name] {
			continue
		}
		seenP[p.Name] = true
		if rapid.IntRange(0, 9).Draw(t, "nullpkg") == 0 {
			p.Null = true
			c.Packages = append(c.Packages, p)
			continue
		}
		ptag := fmt.Sprintf("p%d", pi)
		p.Config = genCfg(t, &c, ptag, []string{"map", "map", "map", "map", "absent", "null"})
		p.IfacesState = rapid.SampledFrom([]string{"map", "map", "map", "map", "map", "map", "absent", "null"}).Draw(t, "ifstate")
		if p.IfacesState == "map" {
			seenI := map[string]bool{}
			for ii, ni := 0, rapid.SampledFrom([]int{0, 1, 1, 2, 2, 3}).Draw(t, "nifaces"); ii < ni; ii++ {
				it := Iface{Name: genName(t, ifaceNames, "ifname"), Config: Cfg{State: "absent"}, ConfigsState: "absent"}
				if seenI[it.Name] {
					continue
				}
				seenI[it.Name] = true
				if rapid.IntRange(0, 5).Draw(t, "nulliface") == 0 {
					it.Null = true
					p.Ifaces = append(p.Ifaces, it)
					continue
				}
				itag := fmt.Sprintf("%si%d", ptag, ii)
				it.Config = genCfg(t, &c, itag, []string{"map", "map", "map", "absent", "null"})
				it.ConfigsState = rapid.SampledFrom([]string{"list", "list", "list", "list", "absent", "null"}).Draw(t, "cfgsstate")
				if it.ConfigsState == "list" {
					for ci, nc := 0, rapid.IntRange(0, 3).Draw(t, "nconfigs"); ci < nc; ci++ {
						it.Configs = append(it.Configs, genCfg(t, &c, fmt.Sprintf("%sc%d", itag, ci), []string{"map"}))
					}
				}
				p.Ifaces = append(p.Ifaces, it)
			}
		}
		c.Packages = append(c.Packages, p)
	}
}

// ---- rendering the v2 file (yaml.v3 nodes built from the model) ---------------------------------

func strNode(s, style string) *yaml.Node {
	n := &yaml.Node{Kind: yaml.ScalarNode, Tag: "!!str", Value: s}
	if literalHazard(s) {
		// yaml.v3 would write a literal block that reads back differently (the very trouble of keyLiteralBlock):
		// the input file must say what the model says, so these are always written double-quoted
		n.Style = yaml.DoubleQuotedStyle
		return n
	}
	switch style {
	case "dq":
		n.Style = yaml.DoubleQuotedStyle
	case "sq":
		if !strings.ContainsAny(s, "\n\r\t\u2028\ufeff\u00a0") {
			n.Style = yaml.SingleQuotedStyle
		}
	case "plain":
		n.Tag = "" // plain scalar resolving to int/bool/float/timestamp; a string field still receives the text
	}
	return n
}

func nullNode(spell string) *yaml.Node {
	return &yaml.Node{Kind: yaml.ScalarNode, Tag: "!!null", Value: spell}
}

func boolNode(b bool, spell string) *yaml.Node {
	if spell != "" {
		return &yaml.Node{Kind: yaml.ScalarNode, Value: spell} // untagged plain scalar, e.g. True / yes / on
	}
	return &yaml.Node{Kind: yaml.ScalarNode, Tag: "!!bool", Value: strconv.FormatBool(b)}
}

func mapNode() *yaml.Node { return &yaml.Node{Kind: yaml.MappingNode, Tag: "!!map"} }

func put(m *yaml.Node, k string, v *yaml.Node) {
	m.Content = append(m.Content, strNode(k, ""), v)
}

func anyNode(a *Any) *yaml.Node {
	switch a.T {
	case "s":
		return strNode(a.S, "")
	case "i":
		return &yaml.Node{Kind: yaml.ScalarNode, Tag: "!!int", Value: strconv.FormatInt(a.I, 10)}
	case "b":
		return boolNode(a.B, "")
	case "n":
		return nullNode("null")
	case "l":
		n := &yaml.Node{Kind: yaml.SequenceNode, Tag: "!!seq"}
		for _, x := range a.L {
			n.Content = append(n.Content, anyNode(x))
		}
		return n
	default:
		n := mapNode()
		for _, kv := range a.M {
			put(n, kv.K, anyNode(kv.V))
		}
		return n
	}
}

type renderer struct {
	defs map[int]*yaml.Node // root `_anchors` index -> anchored mapping node
}

func (r *renderer) entries(m *yaml.Node, ents []Entry, root bool) {
	for _, e := range ents {
		switch e.Kind {
		case "null":
			put(m, e.K, nullNode(e.Style))
		case "b":
			put(m, e.K, boolNode(e.B, e.Style))
		case "s":
			put(m, e.K, strNode(e.S, e.Style))
		case "l":
			n := &yaml.Node{Kind: yaml.SequenceNode, Tag: "!!seq"}
			if e.Style == "flow" {
				n.Style = yaml.FlowStyle
			}
			for _, s := range e.L {
				n.Content = append(n.Content, strNode(s, ""))
			}
			put(m, e.K, n)
		case "a":
			n := mapNode()
			for i, kv := range e.A {
				if kv.IsDef {
					d := mapNode()
					r.entries(d, kv.Def, false)
					if root {
						d.Anchor = fmt.Sprintf("a%d", i)
						r.defs[i] = d
					}
					put(n, kv.K, d)
				} else {
					put(n, kv.K, anyNode(kv.V))
				}
			}
			put(m, e.K, n)
		}
	}
}

func (r *renderer) alias(ref int) *yaml.Node {
	d := r.defs[ref]
	if d == nil {
		vh.Infra("generator: alias to undefined anchor %d", ref)
	}
	return &yaml.Node{Kind: yaml.AliasNode, Alias: d, Value: d.Anchor}
}

// cfg returns the node for a config level, nil when the key is to be left out.
func (r *renderer) cfg(cf Cfg) *yaml.Node {
	switch cf.State {
	case "absent", "":
		return nil
	case "null":
		return nullNode("")
	}
	if cf.Use == "alias" {
		return r.alias(cf.Ref)
	}
	m := mapNode()
	if cf.Use == "merge" {
		m.Content = append(m.Content, &yaml.Node{Kind: yaml.ScalarNode, Tag: "!!merge", Value: "<<"}, r.alias(cf.Ref))
	}
	r.entries(m, cf.Entries, false)
	return m
}

func render(c Case) []byte {
	r := &renderer{defs: map[int]*yaml.Node{}}
	root := mapNode()
	r.entries(root, c.Root, true)
	switch c.PackagesState {
	case "null":
		put(root, "packages", nullNode(""))
	case "map":
		pm := mapNode()
		for _, p := range c.Packages {
			if p.Null {
				put(pm, p.Name, nullNode(""))
				continue
			}
			pn := mapNode()
			if n := r.cfg(p.Config); n != nil {
				put(pn, "config", n)
			}
			switch p.IfacesState {
			case "null":
				put(pn, "interfaces", nullNode(""))
			case "map":
				im := mapNode()
				for _, it := range p.Ifaces {
					if it.Null {
						put(im, it.Name, nullNode(""))
						continue
					}
					in := mapNode()
					if n := r.cfg(it.Config); n != nil {
						put(in, "config", n)
					}
					switch it.ConfigsState {
					case "null":
						put(in, "configs", nullNode(""))
					case "list":
						seq := &yaml.Node{Kind: yaml.SequenceNode, Tag: "!!seq"}
						for _, cf := range it.Configs {
							n := r.cfg(cf)
							if n == nil {
								n = nullNode("")
							}
							seq.Content = append(seq.Content, n)
						}
						put(in, "configs", seq)
					}
					put(im, it.Name, in)
				}
				put(pn, "interfaces", im)
			}
			put(pm, p.Name, pn)
		}
		put(root, "packages", pm)
	}
	var buf bytes.Buffer
	enc := yaml.NewEncoder(&buf)
	enc.SetIndent(2)
	if err := enc.Encode(root); err != nil {
		vh.Infra("generator: encoding the v2 tree: %v", err)
	}
	_ = enc.Close()
	return buf.Bytes()
}

// ---- the model: effective settings of every level -----------------------------------------------

type level struct {
	kind string // root, package, interface, configs
	path string
	ents map[string]Entry // effective v2 settings (null entries removed, alias/merge resolved)
}

func (c *Case) effective(cf Cfg) map[string]Entry {
	out := map[string]Entry{}
	if cf.State != "map" {
		return out
	}
	if cf.Use != "" {
		ra := rootAnchors(c.Root)
		if cf.Ref < 0 || cf.Ref >= len(ra) || !ra[cf.Ref].IsDef {
			vh.Infra("case refers to an undefined anchor %d", cf.Ref)
		}
		for _, e := range ra[cf.Ref].Def {
			if e.Kind != "null" {
				out[e.K] = e
			}
		}
		if cf.Use == "alias" {
			return out
		}
	}
	for _, e := range cf.Entries {
		if e.Kind != "null" {
			out[e.K] = e
		}
	}
	return out
}

func defAny(def []Entry) *Any {
	m := &Any{T: "m"}
	for _, e := range def {
		var v *Any
		switch e.Kind {
		case "b":
			v = &Any{T: "b", B: e.B}
		case "s":
			v = &Any{T: "s", S: e.S}
		case "l":
			v = &Any{T: "l"}
			for _, s := range e.L {
				v.L = append(v.L, &Any{T: "s", S: s})
			}
		default:
			continue
		}
		m.M = append(m.M, AnyKV{K: e.K, V: v})
	}
	return m
}

func anchorsAny(a []AnyKV) *Any {
	m := &Any{T: "m"}
	for _, kv := range a {
		if kv.IsDef {
			m.M = append(m.M, AnyKV{K: kv.K, V: defAny(kv.Def)})
		} else {
			m.M = append(m.M, AnyKV{K: kv.K, V: kv.V})
		}
	}
	return m
}

// ---- comparing yaml nodes with model values -----------------------------------------------------

func deref(n *yaml.Node) *yaml.Node {
	for n != nil && n.Kind == yaml.AliasNode {
		n = n.Alias
	}
	return n
}

func isNullNode(n *yaml.Node) bool {
	n = deref(n)
	return n == nil || (n.Kind == yaml.ScalarNode && n.ShortTag() == "!!null")
}

func show(n *yaml.Node) string {
	n = deref(n)
	if n == nil {
		return "<absent>"
	}
	b, err := yaml.Marshal(n)
	if err != nil {
		return fmt.Sprintf("<%v>", err)
	}
	return vh.Trunc(strings.TrimSpace(string(b)), 300)
}

func matchStr(n *yaml.Node, want string) string {
	n = deref(n)
	if n == nil || n.Kind != yaml.ScalarNode {
		return fmt.Sprintf("want the string %q, got %s", want, show(n))
	}
	if n.ShortTag() != "!!str" {
		return fmt.Sprintf("want the string %q, got a %s scalar %q", want, n.ShortTag(), n.Value)
	}
	if n.Value != want {
		return fmt.Sprintf("want the string %q, got %q", want, n.Value)
	}
	return ""
}

func matchAny(n *yaml.Node, a *Any) string {
	n = deref(n)
	if n == nil {
		return "value missing"
	}
	switch a.T {
	case "s":
		return matchStr(n, a.S)
	case "i":
		if n.Kind != yaml.ScalarNode || n.ShortTag() != "!!int" {
			return fmt.Sprintf("want the integer %d, got %s %s", a.I, n.ShortTag(), show(n))
		}
		if v, err := strconv.ParseInt(n.Value, 0, 64); err != nil || v != a.I {
			return fmt.Sprintf("want the integer %d, got %q", a.I, n.Value)
		}
	case "b":
		if n.Kind != yaml.ScalarNode || n.ShortTag() != "!!bool" || n.Value != strconv.FormatBool(a.B) {
			return fmt.Sprintf("want the bool %v, got %s %s", a.B, n.ShortTag(), show(n))
		}
	case "n":
		if !isNullNode(n) {
			return fmt.Sprintf("want null, got %s", show(n))
		}
	case "l":
		if n.Kind != yaml.SequenceNode || len(n.Content) != len(a.L) {
			return fmt.Sprintf("want a list of %d, got %s", len(a.L), show(n))
		}
		for i := range a.L {
			if d := matchAny(n.Content[i], a.L[i]); d != "" {
				return fmt.Sprintf("[%d]: %s", i, d)
			}
		}
	case "m":
		if n.Kind != yaml.MappingNode {
			if len(a.M) == 0 && isNullNode(n) {
				return ""
			}
			return fmt.Sprintf("want a map, got %s", show(n))
		}
		got := map[string]*yaml.Node{}
		for i := 0; i+1 < len(n.Content); i += 2 {
			k := n.Content[i]
			if k.Kind != yaml.ScalarNode || k.ShortTag() != "!!str" {
				return fmt.Sprintf("map key %s is not a string", show(k))
			}
			got[k.Value] = n.Content[i+1]
		}
		for _, kv := range a.M {
			g, ok := got[kv.K]
			if !ok {
				return fmt.Sprintf("key %q missing", kv.K)
			}
			if d := matchAny(g, kv.V); d != "" {
				return fmt.Sprintf("%q: %s", kv.K, d)
			}
			delete(got, kv.K)
		}
		for k := range got {
			return fmt.Sprintf("extra key %q", k)
		}
	}
	return ""
}

// matchEntry compares an output node with a v2 entry; "" = same value.
func matchEntry(n *yaml.Node, e Entry) string {
	n = deref(n)
	switch e.Kind {
	case "b":
		return matchAny(n, &Any{T: "b", B: e.B})
	case "s":
		return matchStr(n, e.S)
	case "l":
		if n == nil || n.Kind != yaml.SequenceNode || len(n.Content) != len(e.L) {
			return fmt.Sprintf("want the list %q, got %s", e.L, show(n))
		}
		for i, s := range e.L {
			if d := matchStr(n.Content[i], s); d != "" {
				return fmt.Sprintf("[%d]: %s", i, d)
			}
		}
	case "a":
		return matchAny(n, anchorsAny(e.A))
	}
	return ""
}

func isEmptyContainer(e Entry) bool {
	return (e.Kind == "l" && len(e.L) == 0) || (e.Kind == "a" && len(e.A) == 0)
}

// pairs returns the key/value nodes of a mapping; keys must be strings.
func pairs(n *yaml.Node) (keys []string, vals map[string]*yaml.Node, bad string) {
	vals = map[string]*yaml.Node{}
	n = deref(n)
	if isNullNode(n) {
		return nil, vals, ""
	}
	if n.Kind != yaml.MappingNode {
		return nil, vals, "not a mapping: " + show(n)
	}
	for i := 0; i+1 < len(n.Content); i += 2 {
		k := n.Content[i]
		if k.Kind != yaml.ScalarNode || k.ShortTag() != "!!str" {
			return nil, vals, fmt.Sprintf("key %s (%s) is not a plain string key", show(k), k.ShortTag())
		}
		if _, dup := vals[k.Value]; dup {
			return nil, vals, fmt.Sprintf("duplicate key %q", k.Value)
		}
		keys = append(keys, k.Value)
		vals[k.Value] = n.Content[i+1]
	}
	return keys, vals, ""
}

type ctx struct {
	files map[string]string
	obs   string
}

// fail builds the verdict. vh passes Msg and Observed to rapid's Fatalf, and rapid only accepts a
// shrink step whose failure message is identical, so both must depend on the key alone: everything
// specific to the case (names, values, process output with time stamps) goes to tree/details.txt.
func (x *ctx) fail(key, format string, a ...any) *vh.Violation {
	files := map[string]string{}
	for k, v := range x.files {
		files[k] = v
	}
	files["details.txt"] = "key: " + key + "\n" + fmt.Sprintf(format, a...) + "\n\n" + x.obs
	return vh.Violate(key, "%s (the case-specific diagnosis is in tree/details.txt of the replay directory)", general(key)).With(files, "")
}

func general(key string) string {
	switch {
	case key == keyLiteralBlock:
		return "a multi-line string value that starts with a tab or a line break is not preserved by the migrated file"
	case key == keyPreExisting:
		return "the output path already held a file and its old content was not fully replaced: the v3 file is wrong, although the same v2 file migrates correctly to a fresh path"
	case strings.HasSuffix(key, "/dropped"):
		return "a v2 setting that has a v3 counterpart does not appear at its level of the migrated file"
	case strings.HasSuffix(key, "/wrong-value"):
		return "a v2 setting appears under its v3 name with a different value"
	case strings.HasSuffix(key, "/invented"):
		return "the migrated file contains a setting or name that is not the image of anything in the v2 file at that level"
	case strings.HasSuffix(key, "/lost"):
		return "a package or interface name of the v2 file is not a key of the migrated file"
	case strings.HasSuffix(key, "/loader-panic"):
		return "the v3 loader (mockery showconfig) panics on the migrated file"
	case strings.HasSuffix(key, "/loader-rejects"):
		return "the v3 loader (mockery showconfig) rejects the migrated file"
	case strings.HasPrefix(key, "migrate/panic"):
		return "mockery migrate panicked on a decodable v2 file"
	case strings.HasPrefix(key, "migrate/exit-nonzero"):
		return "mockery migrate exited non-zero on a valid v2 file"
	}
	return "the migrated file does not correspond to the v2 file"
}

// checkLevel compares one output config mapping (may be nil = absent) with the v2 level.
func (x *ctx) checkLevel(lv level, n *yaml.Node, skip map[string]bool) *vh.Violation {
	_, vals, bad := pairs(n)
	if bad != "" {
		return x.fail("migrate/"+lv.kind+"/structure", "%s: config level is malformed: %s", lv.path, bad)
	}
	flat := map[string]*yaml.Node{}
	for k, v := range vals {
		if skip[k] {
			continue
		}
		if k == "template-data" {
			_, td, bad := pairs(v)
			if bad != "" {
				return x.fail("migrate/"+lv.kind+"/structure", "%s: template-data is malformed: %s", lv.path, bad)
			}
			for tk, tv := range td {
				flat["template-data."+tk] = tv
			}
			continue
		}
		flat[k] = v
	}
	// 1. every listed v2 setting appears under its v3 name with the same value
	var names []string
	for k := range lv.ents {
		names = append(names, k)
	}
	sort.Strings(names)
	for _, k := range names {
		e, ki := lv.ents[k], keyByName[k]
		if !ki.Listed {
			continue
		}
		got, ok := flat[ki.V3]
		if !ok || (isNullNode(got) && e.Kind != "a") {
			if isEmptyContainer(e) {
				vh.DontCare("empty-" + k + "-left-out")
				continue
			}
			return x.fail(fmt.Sprintf("migrate/%s/%s/dropped", lv.kind, k), "%s: v2 `%s` (= %s) does not appear as `%s` at this level of the v3 file", lv.path, k, descr(e), ki.V3)
		}
		if d := matchEntry(got, e); d != "" {
			if entryHazard(e) {
				return x.fail(keyLiteralBlock, "%s: v2 `%s` (= %s) appears as `%s` with a different value: %s", lv.path, k, descr(e), ki.V3, d)
			}
			return x.fail(fmt.Sprintf("migrate/%s/%s/wrong-value", lv.kind, k), "%s: v2 `%s` (= %s) appears as `%s` with a different value: %s", lv.path, k, descr(e), ki.V3, d)
		}
	}
	// 2. nothing else appears
	var outKeys []string
	for k := range flat {
		outKeys = append(outKeys, k)
	}
	sort.Strings(outKeys)
	for _, ok := range outKeys {
		got := flat[ok]
		if v2k, listed := v2OfV3[ok]; listed {
			if _, set := lv.ents[v2k]; set {
				continue // compared above
			}
			// The property only forbids values "that the v2 file did not contain": a string or list that is
			// the value of an unlisted v2 key of this very level (docs/v3.md shows a v2 `structname` arriving
			// as v3 `structname`; a tool might carry `packageprefix` to `pkgname`) is not demanded either way.
			excused := false
			for _, k := range names {
				if e := lv.ents[k]; !keyByName[k].Listed && (e.Kind == "s" || e.Kind == "l") && matchEntry(got, e) == "" {
					excused = true
					break
				}
			}
			if excused {
				vh.DontCare("unlisted-v2-value-under-listed-v3-key:" + ok)
				continue
			}
			if isNullNode(got) || (deref(got).Kind != yaml.ScalarNode && len(deref(got).Content) == 0) {
				vh.DontCare("empty-value-emitted")
				continue
			}
			return x.fail(fmt.Sprintf("migrate/%s/out:%s/invented", lv.kind, ok), "%s: the v3 file sets `%s: %s` but the v2 file does not set `%s` at this level", lv.path, ok, show(got), v2k)
		}
		if ok == "template" {
			if matchStr(got, "testify") == "" {
				continue // the template choice
			}
			return x.fail(fmt.Sprintf("migrate/%s/out:template/invented", lv.kind), "%s: template is %s", lv.path, show(got))
		}
		// a v3 key that is not the image of a listed key: tolerated only when it carries the value of an
		// unlisted v2 key of this very level. docs/v3.md documents with-expecter -> template-data.with-expecter.
		carried := false
		if ok == "template-data.with-expecter" {
			if e, set := lv.ents["with-expecter"]; set && matchEntry(got, e) == "" {
				carried = true
				vh.DontCare("with-expecter-carried-to-template-data")
			}
		} else {
			for _, k := range names {
				if !keyByName[k].Listed && matchEntry(got, lv.ents[k]) == "" {
					carried = true
					vh.DontCare("unlisted-key-carried-as:" + ok)
					break
				}
			}
		}
		if !carried {
			return x.fail(fmt.Sprintf("migrate/%s/out:%s/invented", lv.kind, ok), "%s: the v3 file sets `%s: %s`, which is not the image of any v2 setting of this level", lv.path, ok, show(got))
		}
	}
	return nil
}

func descr(e Entry) string {
	switch e.Kind {
	case "b":
		return strconv.FormatBool(e.B)
	case "s":
		return strconv.Quote(e.S)
	case "l":
		return fmt.Sprintf("%q", e.L)
	case "a":
		return vh.Trunc(vh.JSON(anchorsAny(e.A)), 200)
	}
	return "null"
}

var plainNameRe = regexp.MustCompile(`^[A-Za-z_][A-Za-z0-9_./-]*$`)

func nameClass(s string) string {
	if plainNameRe.MatchString(s) {
		var n yaml.Node
		if yaml.Unmarshal([]byte(s), &n) == nil && len(n.Content) == 1 && n.Content[0].ShortTag() == "!!str" {
			return "plain"
		}
	}
	return "yaml-significant"
}

// sameNames checks that the keys of an output mapping are exactly the given names.
func (x *ctx) sameNames(what, path string, n *yaml.Node, want []string) (map[string]*yaml.Node, *vh.Violation) {
	_, vals, bad := pairs(n)
	if bad != "" {
		return nil, x.fail("migrate/"+what+"-name/not-a-string-key", "%s: %s", path, bad)
	}
	for _, w := range want {
		if _, ok := vals[w]; !ok {
			var have []string
			for k := range vals {
				have = append(have, k)
			}
			sort.Strings(have)
			return nil, x.fail("migrate/"+what+"-name/"+nameClass(w)+"/lost", "%s: %s name %q of the v2 file is not a key of the v3 file (keys: %q)", path, what, w, have)
		}
	}
	if len(vals) != len(want) {
		ws := map[string]bool{}
		for _, w := range want {
			ws[w] = true
		}
		for k := range vals {
			if !ws[k] {
				return nil, x.fail("migrate/"+what+"-name/invented", "%s: the v3 file has the %s %q which the v2 file does not have", path, what, k)
			}
		}
	}
	return vals, nil
}

func structural(x *ctx, what, path string, n *yaml.Node, allowed ...string) (map[string]*yaml.Node, *vh.Violation) {
	_, vals, bad := pairs(n)
	if bad != "" {
		return nil, x.fail("migrate/"+what+"/structure", "%s: %s", path, bad)
	}
	for k := range vals {
		found := false
		for _, a := range allowed {
			found = found || a == k
		}
		if !found {
			return nil, x.fail("migrate/"+what+"/structure", "%s: unexpected key %q in a v3 %s entry", path, k, what)
		}
	}
	return vals, nil
}

// ---- classification / non-triviality -------------------------------------------------------------

func (c *Case) levels() []level {
	lv := []level{{kind: "root", path: "top level", ents: c.effective(Cfg{State: "map", Entries: c.Root})}}
	for _, p := range c.Packages {
		pp := fmt.Sprintf("packages[%q]", p.Name)
		lv = append(lv, level{kind: "package", path: pp + ".config", ents: c.effective(p.Config)})
		for _, it := range p.Ifaces {
			ip := fmt.Sprintf("%s.interfaces[%q]", pp, it.Name)
			lv = append(lv, level{kind: "interface", path: ip + ".config", ents: c.effective(it.Config)})
			for i, cf := range it.Configs {
				lv = append(lv, level{kind: "configs", path: fmt.Sprintf("%s.configs[%d]", ip, i), ents: c.effective(cf)})
			}
		}
	}
	return lv
}

func classify(c Case) (string, []string) {
	pre := "outfile=fresh"
	if c.Pre != "" {
		pre = "outfile=pre-existing:" + c.Pre + "/out=" + c.Out
	}
	cl := []string{pre, "in=" + c.In, "out=" + c.Out, "packages=" + c.PackagesState, fmt.Sprintf("npackages=%d", len(c.Packages))}
	add := func(s string) { cl = append(cl, s) }
	kindsOf := map[string]map[string]bool{}  // listed key -> level kinds where set
	valuesOf := map[string]map[string]bool{} // listed key -> distinct values
	nontrivial := false
	for _, lv := range c.levels() {
		nListed, nOther := 0, 0
		for k, e := range lv.ents {
			ki := keyByName[k]
			if !ki.Listed {
				nOther++
				continue
			}
			nListed++
			add("set:" + lv.kind + ":" + k)
			if kindsOf[k] == nil {
				kindsOf[k], valuesOf[k] = map[string]bool{}, map[string]bool{}
			}
			kindsOf[k][lv.kind] = true
			valuesOf[k][descr(e)] = true
			switch {
			case e.Kind == "s" && e.Style == "plain":
				add("value:plain-non-string-scalar")
			case e.Kind == "s" && strings.Contains(e.S, "{{"):
				add("value:template-looking")
			case e.Kind == "s" && e.S == "":
				add("value:empty-string")
			case entryHazard(e):
				add("value:multi-line-starting-with-tab-or-break")
			case e.Kind == "s" && strings.ContainsAny(e.S, "\n\t\r"):
				add("value:control-char")
			case e.Kind == "s" && nameClass(e.S) != "plain":
				add("value:yaml-significant")
			case e.Kind == "b" && e.Style != "":
				add("value:bool-spelling")
			case e.Kind == "l" && len(e.L) == 0:
				add("value:empty-list")
			}
		}
		if nOther > 0 {
			add("unlisted-keys@" + lv.kind)
		}
		if nListed == 14 {
			add("all-listed-keys@" + lv.kind)
		}
		if nListed+nOther == len(keyTable) {
			add("full-key-set@" + lv.kind)
		}
	}
	for k := range kindsOf {
		if len(kindsOf[k]) >= 3 && len(valuesOf[k]) >= 3 {
			nontrivial = true
		}
	}
	if a := rootAnchors(c.Root); len(a) > 0 {
		add("root-_anchors:non-empty")
		if len(defRefs(c.Root)) > 0 {
			add("root-_anchors:anchored-block")
		}
	}
	for _, p := range c.Packages {
		add("pkg-name:" + nameClass(p.Name))
		if p.Null {
			add("pkg:null")
		}
		add("pkg-config:" + p.Config.State + p.Config.Use)
		add("pkg-interfaces:" + p.IfacesState)
		for _, it := range p.Ifaces {
			add("iface-name:" + nameClass(it.Name))
			if it.Null {
				add("iface:null")
				continue
			}
			add("iface-config:" + it.Config.State + it.Config.Use)
			add(fmt.Sprintf("configs:%s/%d", it.ConfigsState, len(it.Configs)))
			if len(it.Configs) >= 2 {
				nontrivial = true
			}
			for _, cf := range it.Configs {
				add("configs-entry:" + cf.State + cf.Use)
			}
		}
	}
	if nontrivial {
		add("non-trivial")
		return vh.Hash(vh.JSON(c)), cl
	}
	return "", cl
}

// ---- soundness pre-check: the rendered file, read back, says what the model says -----------------

func selfCheck(c Case, in []byte) string {
	var doc yaml.Node
	if err := yaml.Unmarshal(in, &doc); err != nil {
		return "rendered v2 file does not parse: " + err.Error()
	}
	if len(doc.Content) != 1 {
		return "rendered v2 file is not a single document"
	}
	var level func(n *yaml.Node, ents map[string]Entry, skip string) string
	level = func(n *yaml.Node, ents map[string]Entry, skip string) string {
		got := map[string]*yaml.Node{}
		var collect func(n *yaml.Node, override bool)
		collect = func(n *yaml.Node, override bool) {
			n = deref(n)
			if n == nil || n.Kind != yaml.MappingNode {
				return
			}
			for i := 0; i+1 < len(n.Content); i += 2 {
				k := n.Content[i]
				if k.Value == "<<" && k.ShortTag() == "!!merge" {
					collect(n.Content[i+1], false)
				}
			}
			for i := 0; i+1 < len(n.Content); i += 2 {
				k := n.Content[i]
				if k.Value == "<<" && k.ShortTag() == "!!merge" {
					continue
				}
				if _, ok := got[k.Value]; !ok || override {
					got[k.Value] = n.Content[i+1]
				}
			}
		}
		collect(n, true)
		for k, e := range ents {
			g := deref(got[k])
			if g == nil {
				return "key " + k + " not rendered"
			}
			switch e.Kind {
			case "s":
				if g.Kind != yaml.ScalarNode || g.Value != e.S || isNullNode(g) {
					return fmt.Sprintf("key %s rendered as %s, model %q", k, show(g), e.S)
				}
			case "b":
				var b bool
				if err := g.Decode(&b); err != nil || b != e.B {
					return fmt.Sprintf("key %s rendered as %s, model %v", k, show(g), e.B)
				}
			case "l":
				var l []string
				if err := g.Decode(&l); err != nil || fmt.Sprintf("%q", l) != fmt.Sprintf("%q", e.L) {
					return fmt.Sprintf("key %s rendered as %s, model %q", k, show(g), e.L)
				}
			case "a":
				if d := matchAny(g, anchorsAny(e.A)); d != "" {
					return fmt.Sprintf("key %s rendered differently from the model: %s", k, d)
				}
			}
		}
		n2 := 0
		for k, g := range got {
			if k == skip || isNullNode(g) {
				continue
			}
			n2++
		}
		if n2 != len(ents) {
			return fmt.Sprintf("level renders %d non-null keys, model has %d", n2, len(ents))
		}
		return ""
	}
	root := doc.Content[0]
	if d := level(root, c.effective(Cfg{State: "map", Entries: c.Root}), "packages"); d != "" {
		return "top level: " + d
	}
	_, rv, _ := pairs(root)
	_, pk, bad := pairs(rv["packages"])
	if bad != "" || len(pk) != len(c.Packages) {
		return fmt.Sprintf("packages rendered wrongly (%s): %d keys, model %d", bad, len(pk), len(c.Packages))
	}
	for _, p := range c.Packages {
		pn, ok := pk[p.Name]
		if !ok {
			return fmt.Sprintf("package %q not rendered as a key", p.Name)
		}
		_, pv, _ := pairs(pn)
		if d := level(pv["config"], c.effective(p.Config), ""); d != "" {
			return fmt.Sprintf("package %q: %s", p.Name, d)
		}
		_, iv, bad := pairs(pv["interfaces"])
		if bad != "" || len(iv) != len(p.Ifaces) {
			return fmt.Sprintf("interfaces of %q rendered wrongly (%s)", p.Name, bad)
		}
		for _, it := range p.Ifaces {
			in, ok := iv[it.Name]
			if !ok {
				return fmt.Sprintf("interface %q not rendered as a key", it.Name)
			}
			_, ivv, _ := pairs(in)
			if d := level(ivv["config"], c.effective(it.Config), ""); d != "" {
				return fmt.Sprintf("interface %q: %s", it.Name, d)
			}
			cs := deref(ivv["configs"])
			n := 0
			if cs != nil && cs.Kind == yaml.SequenceNode {
				n = len(cs.Content)
			}
			if n != len(it.Configs) {
				return fmt.Sprintf("interface %q: %d configs rendered, model %d", it.Name, n, len(it.Configs))
			}
			for i, cf := range it.Configs {
				if d := level(cs.Content[i], c.effective(cf), ""); d != "" {
					return fmt.Sprintf("interface %q configs[%d]: %s", it.Name, i, d)
				}
			}
		}
	}
	return ""
}

// ---- the property body ---------------------------------------------------------------------------

const goMod = "module example.com/m\n\ngo 1.23\n"

var tmpRe = regexp.MustCompile(`/tmp/[^\s"']+`)

func firstLines(s string, n int) string {
	ls := strings.Split(strings.TrimSpace(s), "\n")
	if len(ls) > n {
		ls = ls[:n]
	}
	return strings.Join(ls, "\n")
}

func panicLine(r vh.Result) string {
	for _, ln := range strings.Split(r.Stderr+"\n"+r.Stdout, "\n") {
		if strings.HasPrefix(ln, "panic: ") || strings.HasPrefix(ln, "fatal error: ") {
			return tmpRe.ReplaceAllString(strings.TrimSpace(ln), "<tmp>")
		}
	}
	return "panic"
}

func noDebug(s string) string {
	var keep []string
	for _, ln := range strings.Split(s, "\n") {
		if !strings.Contains(ln, " DBG ") {
			keep = append(keep, ln)
		}
	}
	return strings.Join(keep, "\n")
}

// skeleton renders a v3 file holding only the names and recursion flags of the case, written by
// this harness: if the loader refuses it too, the names are outside the loader's domain.
func skeleton(c Case) []byte {
	root := mapNode()
	lv := c.levels()
	if e, ok := lv[0].ents["recursive"]; ok {
		put(root, "recursive", boolNode(e.B, ""))
	}
	pm := mapNode()
	for _, p := range c.Packages {
		pn := mapNode()
		if e, ok := c.effective(p.Config)["recursive"]; ok {
			cn := mapNode()
			put(cn, "recursive", boolNode(e.B, ""))
			put(pn, "config", cn)
		}
		im := mapNode()
		for _, it := range p.Ifaces {
			put(im, it.Name, mapNode())
		}
		put(pn, "interfaces", im)
		put(pm, p.Name, pn)
	}
	put(root, "packages", pm)
	b, err := yaml.Marshal(root)
	if err != nil {
		vh.Infra("skeleton: %v", err)
	}
	return b
}

// larger returns the case with three more fully configured packages: migrating it gives a v3 file that
// is longer than the one of c itself.
func larger(c Case) Case {
	var big Case
	if err := json.Unmarshal([]byte(vh.JSON(c)), &big); err != nil {
		vh.Infra("copying the case: %v", err)
	}
	big.PackagesState = "map"
	for i := 0; i < 3; i++ {
		var ents []Entry
		for _, k := range keyTable {
			if !k.Listed {
				continue
			}
			v := fmt.Sprintf("previous-run-%s-%d-%s", k.Name, i, strings.Repeat("x", 40))
			switch k.Kind {
			case 'b':
				ents = append(ents, Entry{K: k.Name, Kind: "b", B: true})
			case 's':
				if k.Name == "log-level" {
					v = "debug"
				}
				ents = append(ents, Entry{K: k.Name, Kind: "s", S: v})
			case 'l':
				ents = append(ents, Entry{K: k.Name, Kind: "l", L: []string{v, v + "2"}})
			case 'a':
				ents = append(ents, Entry{K: k.Name, Kind: "a", A: []AnyKV{{K: "previous", V: &Any{T: "s", S: v}}}})
			}
		}
		p := Pkg{Name: fmt.Sprintf("example.com/previous/run%d", i), Config: Cfg{State: "map", Entries: ents}, IfacesState: "map"}
		for j := 0; j < 2; j++ {
			p.Ifaces = append(p.Ifaces, Iface{Name: fmt.Sprintf("Previous%d", j), Config: Cfg{State: "map", Entries: ents}, ConfigsState: "list", Configs: []Cfg{{State: "map", Entries: ents}, {State: "map", Entries: ents}}})
		}
		big.Packages = append(big.Packages, p)
	}
	return big
}

func run(c Case) *vh.Violation {
	fp, cl := classify(c)
	vh.Count(fp, cl...)
	if fp != "" && vh.NeedSample() {
		vh.Sample(c)
	}
	v := judge(c)
	if v == nil || c.Pre == "" {
		return v
	}
	// Is the occupied output path the cause? Judge the same tree with a fresh path.
	fresh := c
	fresh.Pre = ""
	if fv := judge(fresh); fv != nil {
		return fv
	}
	files := map[string]string{}
	for k, f := range v.Files {
		files[k] = f
	}
	files["details.txt"] = "key: " + keyPreExisting + "\nwith the output path occupied (" + c.Pre + ") the check reports what follows; with a fresh output path the same v2 file passes.\n\n" + files["details.txt"]
	return vh.Violate(keyPreExisting, "%s (the case-specific diagnosis is in tree/details.txt of the replay directory)", general(keyPreExisting)).With(files, "")
}

func judge(c Case) *vh.Violation {
	in := render(c)
	if d := selfCheck(c, in); d != "" {
		vh.Invalid()
		vh.Infra("generator produced a file that does not say what the model says: %s\n%s", d, vh.Trunc(string(in), 2000))
	}

	d := vh.NewScratch()
	defer vh.RemoveAll(d)
	inRel, outRel := "v2.yml", "out/v3.yml"
	var args []string
	switch c.In {
	case "search-yml":
		inRel = ".mockery.yml"
		args = []string{"migrate"}
	case "search-yaml":
		inRel = ".mockery.yaml"
		args = []string{"migrate"}
	default:
		args = []string{"migrate", "--config", inRel}
	}
	if c.Out == "default" {
		outRel = ".mockery_v3.yml"
	} else {
		args = append(args, "--outfile", outRel)
	}
	vh.WriteFiles(d, map[string]string{
		"go.mod":        goMod,
		"pkg1/a.go":     "package pkg1\n\ntype A interface{ M() }\n",
		"pkg1/sub/b.go": "package sub\n\ntype B interface{ M() }\n",
		"pkg2/c.go":     "package pkg2\n\ntype C interface{ M() }\n",
		"out/.keep":     "",
		inRel:           string(in),
	})
	x := &ctx{files: map[string]string{"v2.yml": string(in)}}
	switch c.Pre {
	case "previous-larger":
		vh.WriteFiles(d, map[string]string{"previous-v2.yml": string(render(larger(c)))})
		pr := vh.Mockery(d, nil, "migrate", "--config", "previous-v2.yml", "--outfile", outRel)
		if pr.TimedOut {
			vh.Infra("migrate timed out")
		}
		x.obs += fmt.Sprintf("$ mockery migrate --config previous-v2.yml --outfile %s   (the earlier, larger migration)\nexit %d\n", outRel, pr.Exit)
	case "longer-text":
		var b strings.Builder
		for i := 0; b.Len() < 4*len(in)+8192; i++ {
			fmt.Fprintf(&b, "stale-key-%d: stale value left over from an older file\n", i)
		}
		vh.WriteFiles(d, map[string]string{outRel: b.String()})
	case "shorter-text":
		vh.WriteFiles(d, map[string]string{outRel: "stale: 1\n"})
	case "empty":
		vh.WriteFiles(d, map[string]string{outRel: ""})
	}
	if c.Pre != "" {
		if old, err := os.ReadFile(filepath.Join(d, outRel)); err == nil {
			x.files["v3-before.yml"] = string(old)
			x.obs += fmt.Sprintf("the output path %s already holds %d bytes (%s)\n", outRel, len(old), c.Pre)
		}
	}
	x.obs += "$ mockery " + strings.Join(args, " ") + "\n"

	res := vh.Mockery(d, nil, args...)
	if res.TimedOut {
		vh.Infra("migrate timed out")
	}
	x.obs += fmt.Sprintf("exit %d\n--- stdout/stderr\n%s\n", res.Exit, vh.Trunc(res.Both(), 4000))
	if res.Panicked() {
		return x.fail("migrate/panic/"+panicLine(res), "migrate panicked on a decodable v2 file")
	}
	if res.Exit != 0 {
		diag := "error"
		switch {
		case strings.Contains(res.Both(), "decoding v2 config"):
			diag = "decoding-v2-config"
		case strings.Contains(res.Both(), "encoding .mockery_v3.yml"):
			diag = "encoding-v3"
		case strings.Contains(res.Both(), "opening"):
			diag = "opening-file"
		}
		return x.fail("migrate/exit-nonzero/"+diag, "migrate exited %d on a valid v2 file", res.Exit)
	}
	after, err := os.ReadFile(filepath.Join(d, inRel))
	if err != nil || !bytes.Equal(after, in) {
		return x.fail("migrate/input-modified", "the v2 input file was modified or removed (read error: %v)", err)
	}
	outB, err := os.ReadFile(filepath.Join(d, outRel))
	if err != nil {
		return x.fail("migrate/no-output", "exit 0 but the v3 file %s was not written: %v", outRel, err)
	}
	x.files["v3.yml"] = string(outB)
	var doc yaml.Node
	if err := yaml.Unmarshal(outB, &doc); err != nil {
		if c.emitsHazard() {
			return x.fail(keyLiteralBlock, "the v3 file does not parse as YAML: %v", err)
		}
		return x.fail("migrate/output-not-yaml", "the v3 file does not parse as YAML: %v", err)
	}
	var root *yaml.Node
	if len(doc.Content) == 1 {
		root = doc.Content[0]
	}

	// ---- key-map model
	lv := c.levels()
	if v := x.checkLevel(lv[0], root, map[string]bool{"packages": true}); v != nil {
		return v
	}
	_, rootVals, _ := pairs(root)
	var pnames []string
	for _, p := range c.Packages {
		pnames = append(pnames, p.Name)
	}
	pk, v := x.sameNames("package", "packages", rootVals["packages"], pnames)
	if v != nil {
		return v
	}
	for _, p := range c.Packages {
		pp := fmt.Sprintf("packages[%q]", p.Name)
		pv, v := structural(x, "package", pp, pk[p.Name], "config", "interfaces")
		if v != nil {
			return v
		}
		if v := x.checkLevel(level{kind: "package", path: pp + ".config", ents: c.effective(p.Config)}, pv["config"], nil); v != nil {
			return v
		}
		var inames []string
		for _, it := range p.Ifaces {
			inames = append(inames, it.Name)
		}
		iv, v := x.sameNames("interface", pp+".interfaces", pv["interfaces"], inames)
		if v != nil {
			return v
		}
		for _, it := range p.Ifaces {
			ip := fmt.Sprintf("%s.interfaces[%q]", pp, it.Name)
			ivv, v := structural(x, "interface", ip, iv[it.Name], "config", "configs")
			if v != nil {
				return v
			}
			if v := x.checkLevel(level{kind: "interface", path: ip + ".config", ents: c.effective(it.Config)}, ivv["config"], nil); v != nil {
				return v
			}
			cs := deref(ivv["configs"])
			n := 0
			if !isNullNode(cs) {
				if cs.Kind != yaml.SequenceNode {
					return x.fail("migrate/interface/structure", "%s.configs is not a list: %s", ip, show(cs))
				}
				n = len(cs.Content)
			}
			if n != len(it.Configs) {
				return x.fail("migrate/configs/count", "%s: the v2 file has %d configs entries, the v3 file %d", ip, len(it.Configs), n)
			}
			for i, cf := range it.Configs {
				if v := x.checkLevel(level{kind: "configs", path: fmt.Sprintf("%s.configs[%d]", ip, i), ents: c.effective(cf)}, cs.Content[i], nil); v != nil {
					return v
				}
			}
		}
	}

	// ---- the strict v3 loader accepts the file
	sc := vh.Mockery(d, nil, "showconfig", "--config", outRel)
	if sc.TimedOut {
		vh.Infra("showconfig timed out")
	}
	x.obs += fmt.Sprintf("\n$ mockery showconfig --config %s\nexit %d\n--- stderr (debug lines removed)\n%s\n", outRel, sc.Exit, vh.Trunc(noDebug(sc.Stderr), 4000))
	if sc.Exit != 0 || sc.Panicked() {
		// names (or recursion over them) the loader cannot digest even in a file written by the harness?
		vh.WriteFiles(d, map[string]string{"skeleton.yml": string(skeleton(c))})
		sk := vh.Mockery(d, nil, "showconfig", "--config", "skeleton.yml")
		if sk.Exit != 0 || sk.Panicked() {
			vh.DontCare("loader-refuses-the-names-alone")
			vh.Note("loader refuses a names-only v3 file: %s", vh.Trunc(firstLines(noDebug(sk.Stderr), 3), 300))
			return nil
		}
		// recorded finding: a v2 `exclude` entry is a package path; copied verbatim into
		// `exclude-subpkg-regex` it need not be an expression (`c++`), and a recursive package with
		// sub-packages evaluates it: the loader refuses the migrated file. Reported under its own key;
		// once listed, campaign cases that run into it are counted as excluded (replays still judge it).
		if v3b, _ := os.ReadFile(filepath.Join(d, outRel)); strings.Contains(string(v3b), "++") &&
			strings.Contains(sc.Stderr, "evaluating `exclude-subpkg-regex`") && strings.Contains(sc.Stderr, "error parsing regexp") {
			if known(keyExcludeNotRegex) && os.Getenv("VCHECK_REPLAY") == "" {
				vh.Excluded(keyExcludeNotRegex)
				return nil
			}
			return x.fail(keyExcludeNotRegex, "a v2 exclude path that is not a regular expression makes the v3 loader refuse the migrated file: %s", vh.Trunc(firstLines(noDebug(sc.Stderr), 1), 300))
		}
		feature := "other"
		if len(rootAnchors(c.Root)) > 0 {
			feature = "_anchors"
		}
		if sc.Panicked() {
			what := "loader-panic"
			return x.fail("migrate/root/"+feature+"/"+what, "the v3 loader (showconfig) panics on the migrated file: %s", panicLine(sc))
		}
		msg := tmpRe.ReplaceAllString(firstLines(noDebug(sc.Stdout+"\n"+sc.Stderr), 2), "<tmp>")
		return x.fail("migrate/root/"+feature+"/loader-rejects", "the v3 loader (showconfig) rejects the migrated file (exit %d): %s", sc.Exit, vh.Trunc(msg, 400))
	}
	return nil
}

func TestProp(t *testing.T) {
	vh.Main(t, vh.Check[Case]{Gen: gen, Run: run})
}
