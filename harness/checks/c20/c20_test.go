// C20 — release tagger: dry-run mutates nothing; only strictly newer versions are tagged.
//
// A case is a scratch git repository (commits, lightweight/annotated tags incl. major-only
// and non-semver names, some on older commits) plus a short history of tagger invocations
// (requested VERSION, --dry-run absent/true/false, clean or dirty tree). After every
// invocation the refs, HEAD, index and work tree are compared with a reference model
// built on an independent implementation of semver precedence (semver.org §11).
package c20

import (
	"fmt"
	"os"
	"path/filepath"
	"regexp"
	"sort"
	"strconv"
	"strings"
	"testing"
	"time"

	"pgregory.net/rapid"
	"verif/harness/vh"
)

type TagSpec struct {
	Name      string `json:"name"`
	Annotated bool   `json:"annotated"`
	Commit    int    `json:"commit"` // index into the commit list (0 = oldest)
	// Side: 0 = the tag sits on that commit of the main line; 1 = on a commit of a side branch forked
	// from it (a release cut from a maintenance branch); 2 = same, and the branch was deleted since
	// (the commit is reachable through the tag only). "Every existing tag" counts, reachable from
	// HEAD or not.
	Side int `json:"side,omitempty"`
}

type Step struct {
	Version string `json:"version"`
	DryRun  string `json:"dry_run"` // "" (flag absent), "true", "false"
	Dirty   string `json:"dirty"`   // "", "modified", "untracked", "staged"
}

type Case struct {
	Commits int       `json:"commits"`
	Tags    []TagSpec `json:"tags"`
	Steps   []Step    `json:"steps"`
	// Behind > 0: before the first step HEAD is checked out (detached) that many commits behind the
	// tip of the main line, so tags on later commits are not ancestors of HEAD
	Behind int `json:"behind,omitempty"`
}

// ---- independent semver (strict, semver.org 2.0.0) --------------------------------------------

type sv struct {
	maj, min, pat int
	pre           []string
	ok            bool
}

var svRe = regexp.MustCompile(`^v?(0|[1-9]\d*)\.(0|[1-9]\d*)\.(0|[1-9]\d*)(?:-([0-9A-Za-z-]+(?:\.[0-9A-Za-z-]+)*))?(?:\+([0-9A-Za-z-]+(?:\.[0-9A-Za-z-]+)*))?$`)
var numRe = regexp.MustCompile(`^(0|[1-9]\d*)$`)

func parseSV(s string) sv {
	m := svRe.FindStringSubmatch(s)
	if m == nil {
		return sv{}
	}
	v := sv{ok: true}
	v.maj, _ = strconv.Atoi(m[1])
	v.min, _ = strconv.Atoi(m[2])
	v.pat, _ = strconv.Atoi(m[3])
	if m[4] != "" {
		v.pre = strings.Split(m[4], ".")
		for _, id := range v.pre {
			if regexp.MustCompile(`^\d+$`).MatchString(id) && !numRe.MatchString(id) {
				return sv{} // numeric identifier with leading zero
			}
		}
	}
	return v
}

// parseReq parses a REQUESTED version the way the tool's semver library documents for
// NewVersion: "SemVer-ish" spellings with one or two numeric components are coerced
// (3 = 3.0.0, 3.5 = 3.5.0). It returns the parsed value and the canonical full tag name
// ("v" + MAJOR.MINOR.PATCH[-pre][+meta]) that the tool prints on stdout.
var looseRe = regexp.MustCompile(`^v?(0|[1-9]\d*)(?:\.(0|[1-9]\d*))?(?:\.(0|[1-9]\d*))?(-[0-9A-Za-z-]+(?:\.[0-9A-Za-z-]+)*)?(\+[0-9A-Za-z-]+(?:\.[0-9A-Za-z-]+)*)?$`)

func parseReq(s string) (sv, string) {
	m := looseRe.FindStringSubmatch(s)
	if m == nil {
		return sv{}, ""
	}
	num := func(x string) string {
		if x == "" {
			return "0"
		}
		return x
	}
	full := fmt.Sprintf("v%s.%s.%s%s%s", m[1], num(m[2]), num(m[3]), m[4], m[5])
	return parseSV(full), full
}

func cmpInt(a, b int) int {
	switch {
	case a < b:
		return -1
	case a > b:
		return 1
	}
	return 0
}

// cmpSV implements precedence: -1, 0, 1.
func cmpSV(a, b sv) int {
	if c := cmpInt(a.maj, b.maj); c != 0 {
		return c
	}
	if c := cmpInt(a.min, b.min); c != 0 {
		return c
	}
	if c := cmpInt(a.pat, b.pat); c != 0 {
		return c
	}
	switch {
	case len(a.pre) == 0 && len(b.pre) == 0:
		return 0
	case len(a.pre) == 0:
		return 1
	case len(b.pre) == 0:
		return -1
	}
	for i := 0; i < len(a.pre) && i < len(b.pre); i++ {
		x, y := a.pre[i], b.pre[i]
		xn, yn := numRe.MatchString(x), numRe.MatchString(y)
		switch {
		case xn && yn:
			xi, _ := strconv.Atoi(x)
			yi, _ := strconv.Atoi(y)
			if c := cmpInt(xi, yi); c != 0 {
				return c
			}
		case xn:
			return -1
		case yn:
			return 1
		default:
			if c := strings.Compare(x, y); c != 0 {
				return c
			}
		}
	}
	return cmpInt(len(a.pre), len(b.pre))
}

// ---- generators -------------------------------------------------------------------------------

var pres = []string{"", "", "", "-alpha", "-alpha.1", "-alpha.2", "-alpha.beta", "-beta", "-beta.2", "-beta.11", "-rc.1", "-rc.2", "-1", "-2", "-x-y"}
var metas = []string{"", "", "", "+build", "+001", "+b.7"}
var nonFull = []string{"latest", "stable", "v1", "v2", "v3", "v4", "3", "v3.1", "v2.0", "release-1", "nightly-2024", "v3-beta"}
var malformed = []string{"a.b.c", "v1.2.x", "1.2.3.4.5", "release.1.2"}

func genVersion(t *rapid.T, label string) string {
	v := fmt.Sprintf("%d.%d.%d", rapid.IntRange(0, 4).Draw(t, label+"maj"), rapid.IntRange(0, 3).Draw(t, label+"min"), rapid.IntRange(0, 3).Draw(t, label+"pat"))
	if label == "req" {
		// requested versions may use the short spellings the semver library coerces (3.5 = 3.5.0)
		switch rapid.IntRange(0, 5).Draw(t, label+"short") {
		case 4:
			v = v[:strings.LastIndex(v, ".")]
		case 5:
			v = v[:strings.Index(v, ".")]
		}
	}
	v += rapid.SampledFrom(pres).Draw(t, label+"pre") + rapid.SampledFrom(metas).Draw(t, label+"meta")
	if rapid.IntRange(0, 4).Draw(t, label+"v") > 0 {
		v = "v" + v
	}
	return v
}

func gen(t *rapid.T) Case {
	c := Case{Commits: rapid.IntRange(1, 3).Draw(t, "commits")}
	seen := map[string]bool{}
	n := rapid.IntRange(0, 10).Draw(t, "ntags")
	var fulls []string
	for i := 0; i < n; i++ {
		var name string
		switch k := rapid.IntRange(0, 11).Draw(t, "tagkind"); {
		case k <= 7:
			name = genVersion(t, "tag")
			fulls = append(fulls, name)
		case k <= 10:
			name = rapid.SampledFrom(nonFull).Draw(t, "nonfull")
		default:
			name = rapid.SampledFrom(malformed).Draw(t, "malformed")
		}
		if seen[name] {
			continue
		}
		seen[name] = true
		tg := TagSpec{Name: name, Annotated: rapid.Bool().Draw(t, "annotated"), Commit: rapid.IntRange(0, c.Commits-1).Draw(t, "commit")}
		if rapid.IntRange(0, 3).Draw(t, "side") == 3 {
			tg.Side = rapid.IntRange(1, 2).Draw(t, "sidekind")
		}
		c.Tags = append(c.Tags, tg)
	}
	if c.Commits > 1 && rapid.IntRange(0, 5).Draw(t, "behind") == 5 {
		c.Behind = rapid.IntRange(1, c.Commits-1).Draw(t, "behindn")
	}
	ns := rapid.IntRange(1, 3).Draw(t, "nsteps")
	for i := 0; i < ns; i++ {
		var ver string
		switch k := rapid.IntRange(0, 9).Draw(t, "verkind"); {
		case k <= 3 && len(fulls) > 0:
			// around an existing tag: same, bumped patch/minor, pre-release of it, metadata variant
			base := parseSV(rapid.SampledFrom(fulls).Draw(t, "base"))
			switch rapid.IntRange(0, 5).Draw(t, "around") {
			case 0:
				ver = fmt.Sprintf("v%d.%d.%d", base.maj, base.min, base.pat)
			case 1:
				ver = fmt.Sprintf("v%d.%d.%d", base.maj, base.min, base.pat+1)
			case 2:
				ver = fmt.Sprintf("v%d.%d.%d", base.maj, base.min+1, 0)
				if rapid.Bool().Draw(t, "short") {
					ver = fmt.Sprintf("v%d.%d", base.maj, base.min+1)
				}
			case 3:
				ver = fmt.Sprintf("v%d.%d.%d-rc.1", base.maj, base.min, base.pat)
			case 4:
				ver = fmt.Sprintf("v%d.%d.%d+meta", base.maj, base.min, base.pat)
			default:
				ver = fmt.Sprintf("v%d.%d.%d", base.maj+1, 0, 0)
				if rapid.Bool().Draw(t, "short") {
					ver = fmt.Sprintf("%d", base.maj+1)
				}
			}
		case k == 8 && i > 0:
			// the release job run again without a version bump
			ver = c.Steps[i-1].Version
		case k == 9:
			ver = rapid.SampledFrom([]string{"abc", "not-a-version", "v", "1.x.0"}).Draw(t, "invalid")
		default:
			ver = genVersion(t, "req")
		}
		c.Steps = append(c.Steps, Step{
			Version: ver,
			DryRun:  rapid.SampledFrom([]string{"", "true", "false", "false", "false"}).Draw(t, "dryrun"),
			Dirty:   rapid.SampledFrom([]string{"", "", "", "", "modified", "untracked", "staged"}).Draw(t, "dirty"),
		})
	}
	return c
}

// ---- execution --------------------------------------------------------------------------------

func git(dir string, args ...string) string {
	r := vh.Run(dir, vh.CleanEnv(), 60*time.Second, "git", args...)
	if r.Exit != 0 {
		vh.Infra("git %v failed: %s", args, r.Both())
	}
	return r.Stdout
}

type repoState struct {
	tags   map[string]string // tag name -> peeled commit
	others string            // every non-tag ref + HEAD
	index  string
	status string
	tree   string
}

func observe(dir string) repoState {
	st := repoState{tags: map[string]string{}}
	for _, ln := range strings.Split(strings.TrimSpace(git(dir, "for-each-ref", "--format=%(refname) %(objectname) %(*objectname)")), "\n") {
		f := strings.Fields(ln)
		if len(f) < 2 {
			continue
		}
		if strings.HasPrefix(f[0], "refs/tags/") {
			commit := f[1]
			if len(f) > 2 {
				commit = f[2]
			}
			st.tags[strings.TrimPrefix(f[0], "refs/tags/")] = commit
		} else {
			st.others += strings.Join(f, " ") + "\n"
		}
	}
	sym := vh.Run(dir, vh.CleanEnv(), 60*time.Second, "git", "symbolic-ref", "-q", "HEAD") // exit 1 = detached
	st.others += "HEAD " + strings.TrimSpace(git(dir, "rev-parse", "HEAD")) + " " + strings.TrimSpace(sym.Stdout)
	st.index = vh.Hash(git(dir, "ls-files", "-s"))
	st.status = git(dir, "status", "--porcelain")
	snap := vh.Snapshot(dir)
	for k := range snap {
		if k == ".git" || strings.HasPrefix(k, ".git/") {
			delete(snap, k)
		}
	}
	st.tree = vh.HashSnap(snap)
	return st
}

func tagDiff(a, b map[string]string) []string {
	var d []string
	for k, v := range a {
		if bv, ok := b[k]; !ok {
			d = append(d, "deleted "+k)
		} else if bv != v {
			d = append(d, "moved "+k)
		}
	}
	for k := range b {
		if _, ok := a[k]; !ok {
			d = append(d, "created "+k)
		}
	}
	sort.Strings(d)
	return d
}

func classify(c Case) (string, []string) {
	var cl []string
	nt := false
	for _, s := range c.Steps {
		req, _ := parseReq(s.Version)
		if req.ok && len(strings.Split(strings.SplitN(strings.SplitN(s.Version, "+", 2)[0], "-", 2)[0], ".")) < 3 {
			cl = append(cl, "requested=short-spelling")
		}
		sameMajor, distract := 0, 0
		for _, tg := range c.Tags {
			v := parseSV(tg.Name)
			if v.ok && req.ok && v.maj == req.maj {
				sameMajor++
			} else {
				distract++
			}
		}
		if (sameMajor >= 2 && distract >= 1) || s.Dirty != "" {
			nt = true
		}
		cl = append(cl, "dryrun="+s.DryRun)
		if s.Dirty != "" {
			cl = append(cl, "dirty="+s.Dirty)
		}
		if !req.ok {
			cl = append(cl, "requested=invalid")
		}
	}
	for _, tg := range c.Tags {
		if tg.Side > 0 {
			cl = append(cl, fmt.Sprintf("tag-on-side-branch=%d", tg.Side))
			break
		}
	}
	if c.Behind > 0 {
		cl = append(cl, "head-detached-behind-tip")
	}
	cl = append(cl, fmt.Sprintf("steps=%d", len(c.Steps)))
	if nt {
		return vh.Hash(vh.JSON(c)), cl
	}
	return "", cl
}

func run(c Case) *vh.Violation {
	fp, cl := classify(c)
	vh.Count(fp, cl...)
	if fp != "" && vh.NeedSample() {
		vh.Sample(c)
	}
	dir := vh.NewScratch()
	defer vh.RemoveAll(dir)
	git(dir, "init", "-q", "-b", "main")
	var commits []string
	for i := 0; i < c.Commits; i++ {
		vh.WriteFiles(dir, map[string]string{"file.txt": fmt.Sprintf("content %d\n", i), "mockery-tools.env": "VERSION=v0.0.1\n"})
		git(dir, "add", "-A")
		git(dir, "commit", "-q", "-m", fmt.Sprintf("c%d", i))
		commits = append(commits, strings.TrimSpace(git(dir, "rev-parse", "HEAD")))
	}
	for ti, tg := range c.Tags {
		at := commits[tg.Commit]
		if tg.Side > 0 {
			br := fmt.Sprintf("side-%d", ti)
			git(dir, "checkout", "-q", "-b", br, at)
			vh.WriteFiles(dir, map[string]string{fmt.Sprintf("side%d.txt", ti): "released from a side branch\n"})
			git(dir, "add", "-A")
			git(dir, "commit", "-q", "-m", br)
			at = strings.TrimSpace(git(dir, "rev-parse", "HEAD"))
			git(dir, "checkout", "-q", "main")
		}
		if tg.Annotated {
			git(dir, "tag", "-a", "-m", tg.Name, tg.Name, at)
		} else {
			git(dir, "tag", tg.Name, at)
		}
		if tg.Side == 2 {
			git(dir, "branch", "-q", "-D", fmt.Sprintf("side-%d", ti))
		}
	}
	if c.Behind > 0 && c.Behind < len(commits) {
		git(dir, "checkout", "-q", "--detach", commits[len(commits)-1-c.Behind])
	}
	var history []string
	for si, s := range c.Steps {
		// bump VERSION the way a release does: edit the env file and commit it
		vh.WriteFiles(dir, map[string]string{"mockery-tools.env": "VERSION=" + s.Version + "\n"})
		git(dir, "add", "-A")
		r := vh.Run(dir, vh.CleanEnv(), 30*time.Second, "git", "commit", "-q", "-m", fmt.Sprintf("bump %d", si))
		_ = r // nothing to commit when VERSION is unchanged
		switch s.Dirty {
		case "modified":
			vh.WriteFiles(dir, map[string]string{"file.txt": fmt.Sprintf("locally modified in step %d\n", si)})
		case "untracked":
			vh.WriteFiles(dir, map[string]string{fmt.Sprintf("untracked%d.txt", si): "new\n"})
		case "staged":
			vh.WriteFiles(dir, map[string]string{"file.txt": fmt.Sprintf("staged change in step %d\n", si)})
			git(dir, "add", "file.txt")
		}
		before := observe(dir)
		if (s.Dirty != "") != (strings.TrimSpace(before.status) != "") {
			vh.Infra("harness failed to establish dirty=%q: status %q", s.Dirty, before.status)
		}
		head := strings.TrimSpace(git(dir, "rev-parse", "HEAD"))
		args := []string{"tag"}
		if s.DryRun != "" {
			args = append(args, "--dry-run="+s.DryRun)
		}
		res := vh.Run(dir, vh.CleanEnv(), 60*time.Second, vh.ToolsBin(), args...)
		if res.TimedOut {
			vh.Infra("tagger timed out")
		}
		after := observe(dir)
		history = append(history, fmt.Sprintf("step %d: VERSION=%s dry-run=%q dirty=%q -> exit %d, tag changes %v", si, s.Version, s.DryRun, s.Dirty, res.Exit, tagDiff(before.tags, after.tags)))
		fail := func(key, format string, a ...any) *vh.Violation {
			return vh.Violate(key, format, a...).With(nil, strings.Join(history, "\n")+"\n--- stderr\n"+vh.Trunc(res.Stderr, 3000)+"\n--- tags before: "+fmt.Sprint(before.tags))
		}
		if res.Panicked() {
			return fail("panic", "tagger panicked")
		}

		// model
		req, full := parseReq(s.Version)
		maxSame := sv{ok: true} // v0.0.0
		hasMalformed := false
		for name := range before.tags {
			if len(strings.Split(name, ".")) < 3 {
				continue // not a full version tag
			}
			v := parseSV(name)
			if !v.ok {
				hasMalformed = true
				continue
			}
			if req.ok && v.maj == req.maj && cmpSV(v, maxSame) > 0 {
				maxSame = v
			}
		}
		newer := req.ok && cmpSV(req, maxSame) > 0
		mayTag := s.DryRun == "false" && s.Dirty == "" && newer
		changes := tagDiff(before.tags, after.tags)

		// nothing but tags may ever change
		if before.others != after.others || before.index != after.index || before.status != after.status || before.tree != after.tree {
			return fail("non-tag-mutation", "the tagger changed something other than tags: refs/HEAD %v, index %v, status %v, work tree %v\nbefore: %q\nafter: %q",
				before.others != after.others, before.index != after.index, before.status != after.status, before.tree != after.tree, before.others+before.status, after.others+after.status)
		}
		if !mayTag {
			if len(changes) != 0 {
				why := "dry-run"
				switch {
				case s.DryRun == "false" && s.Dirty != "":
					why = "dirty-tree"
				case s.DryRun == "false":
					why = "not-newer"
				case s.DryRun == "":
					why = "dry-run-default"
				}
				return fail("mutation/"+why, "tags changed although tagging was not permitted (%s): %v", why, changes)
			}
			if (s.Dirty != "" || !newer) && res.Exit == 0 {
				return fail("exit0/refused", "exit status 0 although nothing may be tagged (requested valid=%v newer=%v dirty=%q)", req.ok, newer, s.Dirty)
			}
			if s.Dirty == "" && newer && !hasMalformed && res.Exit != 0 {
				return fail("dryrun-exit", "dry run of a permitted tagging exited %d, want 0", res.Exit)
			}
			continue
		}
		// tagging permitted
		if res.Exit != 0 {
			if len(changes) != 0 {
				return fail("mutation+error", "non-zero exit %d together with tag changes %v", res.Exit, changes)
			}
			if hasMalformed {
				vh.DontCare("malformed-3-part-tag-refusal")
				continue
			}
			return fail("refused", "tagging was permitted (clean, dry-run=false, %s > %v) but the tool exited %d", s.Version, maxSame, res.Exit)
		}
		major := fmt.Sprintf("v%d", req.maj)
		want := map[string]string{}
		for k, v := range before.tags {
			want[k] = v
		}
		want[full], want[major] = head, head
		if d := tagDiff(want, after.tags); len(d) != 0 {
			return fail("wrong-tags", "after tagging %s: expected exactly %s and %s at HEAD and nothing else changed; difference to expectation: %v", s.Version, full, major, d)
		}
		// clean up dirtiness is not needed here (tree was clean)
	}
	for _, s := range c.Steps {
		_ = s
	}
	return nil
}

func TestProp(t *testing.T) {
	if _, err := os.Stat(vh.ToolsBin()); err != nil {
		t.Skipf("tools binary missing: %v", err)
	}
	_ = filepath.Join
	vh.Main(t, vh.Check[Case]{Gen: gen, Run: run})
}
