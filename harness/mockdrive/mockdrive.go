// Package mockdrive copies a reflection-based driver into a scratch module, generates the
// glue that lists the freshly generated mocks, runs it with `go test` and parses the verdict.
package mockdrive

import (
	_ "embed"
	"encoding/json"
	"fmt"
	"os"
	"path/filepath"
	"regexp"
	"sort"
	"strings"
	"time"

	"verif/harness/progen"
	"verif/harness/vh"
)

//go:embed driver_common.go.txt
var commonSrc string

//go:embed driver_matryer.go.txt
var matryerSrc string

//go:embed driver_testify.go.txt
var testifySrc string

//go:embed driver_race.go.txt
var raceSrc string

type Failure struct {
	Target  string   `json:"target"`
	Kind    string   `json:"kind"`
	Msg     string   `json:"msg"`
	History []string `json:"history"`
}

type Verdict struct {
	Histories  int            `json:"histories"`
	Steps      int            `json:"steps"`
	NonTrivial int            `json:"nontrivial"`
	Classes    map[string]int `json:"classes"`
	Shapes     []string       `json:"shapes"`
	Failure    *Failure       `json:"failure,omitempty"`
	Samples    []string       `json:"samples,omitempty"`
}

var aliasRe = regexp.MustCompile(`[^A-Za-z0-9]`)

func mockName(iface string) string {
	if iface != "" && iface[0] >= 'A' && iface[0] <= 'Z' {
		return "Mock" + iface
	}
	return "mock" + iface
}


// Glue renders the glue file and returns it with the helper-package files it needs.
// The rendering must use the "separate" placement (mocks in their own non-test packages).
func Glue(m *progen.Module, r progen.Rendering, style string) (string, map[string]string) {
	extra := map[string]string{}
	imports := map[string]string{} // path -> alias
	imp := func(path, alias string) string {
		imports[path] = alias
		return alias
	}
	optLitFor := func(data map[string]any) string {
		opts := map[string]string{}
		for k, v := range data {
			opts[k] = fmt.Sprint(v)
		}
		var optKeys []string
		for k := range opts {
			optKeys = append(optKeys, k)
		}
		sort.Strings(optKeys)
		var optLit strings.Builder
		optLit.WriteString("map[string]string{")
		for _, k := range optKeys {
			fmt.Fprintf(&optLit, "%q: %q, ", k, opts[k])
		}
		optLit.WriteString("}")
		return optLit.String()
	}

	var tg, im strings.Builder
	usedHelpers := map[string]bool{}
	for pi := range m.Pkgs {
		p := &m.Pkgs[pi]
		srcAlias := imp(m.PkgPath(p), fmt.Sprintf("src%d", pi))
		outFile, _ := r.OutputFile(p)
		mocksAlias := imp(m.ModPath+"/"+filepath.ToSlash(filepath.Dir(outFile)), fmt.Sprintf("mocks%d", pi))
		q := func(k string) string {
			if k == "" {
				return srcAlias + "."
			}
			a := "q_" + aliasRe.ReplaceAllString(k, "_")
			imp(m.ImportPath(k), a)
			if !progen.LookupPkg(k).Std {
				usedHelpers[k] = true
			}
			return a + "."
		}
		fmt.Fprintf(&im, "\timpls[reflect.TypeOf((*%s.LIface)(nil)).Elem()] = []any{%s.LImpl{S: \"l1\"}, %s.LImpl{S: \"l2\"}}\n", srcAlias, srcAlias, srcAlias)
		for ii := range p.Ifaces {
			it := &p.Ifaces[ii]
			if !it.Exported() || it.Alias {
				continue
			}
			for _, k := range it.PkgKeys() {
				if !progen.LookupPkg(k).Std {
					usedHelpers[k] = true
				}
			}
			for _, tuple := range progen.TypeArgs(it, 2) {
				inst := ""
				if len(tuple) > 0 {
					parts := make([]string, len(tuple))
					for i, a := range tuple {
						parts[i] = progen.Render(a, q)
					}
					inst = "[" + strings.Join(parts, ", ") + "]"
				}
				for _, mt := range r.MockTargets(p, it.Name) {
					newExpr := fmt.Sprintf("&%s.%s%s{}", mocksAlias, mt.StructName, inst)
					if style == "testify" {
						newExpr = fmt.Sprintf("%s.New%s%s(t)", mocksAlias, mt.StructName, inst)
					}
					label := p.Name + "." + it.Name + inst
					if mt.StructName != mockName(it.Name) {
						label += " as " + mt.StructName
					}
					fmt.Fprintf(&tg, "\t\t{Name: %q, Style: %q, Opts: %s,\n\t\t\tNew: func(t *RecT) any { return %s },\n\t\t\tIface: reflect.TypeOf((*%s.%s%s)(nil)).Elem()},\n",
						label, style, optLitFor(mt.Data), newExpr, srcAlias, it.Name, inst)
				}
			}
		}
	}
	var hk []string
	for k := range usedHelpers {
		hk = append(hk, k)
	}
	sort.Strings(hk)
	for _, k := range hk {
		f, src := progen.HelperFile(k)
		extra[f] = src
		a := "q_" + aliasRe.ReplaceAllString(k, "_")
		imp(m.ImportPath(k), a)
		fmt.Fprintf(&im, "\timpls[reflect.TypeOf((*%s.I)(nil)).Elem()] = []any{%s.ImplI{N: 1}, %s.ImplI{N: 2}}\n", a, a, a)
	}
	var sb strings.Builder
	sb.WriteString("package drv\n\nimport (\n\t\"reflect\"\n")
	var paths []string
	for p := range imports {
		paths = append(paths, p)
	}
	sort.Strings(paths)
	for _, p := range paths {
		fmt.Fprintf(&sb, "\t%s %q\n", imports[p], p)
	}
	sb.WriteString(")\n\nfunc targets() []Target {\n\treturn []Target{\n" + tg.String() + "\t}\n}\n\nfunc init() {\n" + im.String() + "}\n")
	// keep every import used even when a package contributes no target
	for _, p := range paths {
		if strings.HasPrefix(imports[p], "mocks") {
			fmt.Fprintf(&sb, "\nvar _ = %s.VerifKeep\n", imports[p])
		}
	}
	return sb.String(), extra
}

// Install writes the driver sources and the glue into dir/zz_drv and the keep-alive
// declarations into the mocks packages. It also adds rapid to go.mod.
func Install(dir string, m *progen.Module, r progen.Rendering, style string) {
	glue, extra := Glue(m, r, style)
	files := map[string]string{
		"mocks/zz_drv/common_test.go":  commonSrc,
		"mocks/zz_drv/matryer_test.go": matryerSrc,
		"mocks/zz_drv/testify_test.go": testifySrc,
		"mocks/zz_drv/race_test.go":    raceSrc,
		"mocks/zz_drv/glue_test.go":    glue,
	}
	for k, v := range extra {
		files[k] = v
	}
	for pi := range m.Pkgs {
		outFile, pkgname := r.OutputFile(&m.Pkgs[pi])
		files[filepath.Join(filepath.Dir(outFile), "zz_verif_keep.go")] = "package " + pkgname + "\n\n// VerifKeep lets the driver import this package even when it declares no usable mock.\nconst VerifKeep = 0\n"
	}
	vh.WriteFiles(dir, files)
	gm, err := os.ReadFile(filepath.Join(dir, "go.mod"))
	if err != nil {
		vh.Infra("read go.mod: %v", err)
	}
	nl := "\n"
	if strings.Contains(string(gm), "\r\n") {
		nl = "\r\n"
	}
	if err := os.WriteFile(filepath.Join(dir, "go.mod"), []byte(string(gm)+nl+"require pgregory.net/rapid v1.3.0"+nl), 0o644); err != nil {
		vh.Infra("write go.mod: %v", err)
	}
}

type RunResult struct {
	Verdict   *Verdict
	Output    string
	BuildFail bool // the test binary did not build
	Exit      int
}

// Run executes one driver test function in dir and returns the verdict.
func Run(dir, testName string, seed uint64, checks int, race bool, extraArgs ...string) RunResult {
	out := filepath.Join(dir, "mocks", "zz_drv", "verdict.json")
	_ = os.Remove(out)
	args := []string{"test", "./mocks/zz_drv/", "-run", "^" + testName + "$", "-count=1", "-vet=off"}
	if race {
		args = append(args, "-race")
	}
	args = append(args, extraArgs...)
	args = append(args, fmt.Sprintf("-rapid.checks=%d", checks), fmt.Sprintf("-rapid.seed=%d", seed), "-rapid.nofailfile", "-rapid.shrinktime=20s")
	env := vh.CleanEnv("DRV_OUT=" + out)
	res := vh.Run(dir, env, 15*time.Minute, "go", args...)
	rr := RunResult{Output: res.Both(), Exit: res.Exit}
	if res.TimedOut {
		vh.Infra("driver timed out: %s", vh.Trunc(res.Both(), 1500))
	}
	b, err := os.ReadFile(out)
	if err != nil {
		rr.BuildFail = true
		return rr
	}
	var v Verdict
	if err := json.Unmarshal(b, &v); err != nil {
		vh.Infra("bad verdict: %v", err)
	}
	rr.Verdict = &v
	return rr
}
