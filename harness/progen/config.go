package progen

import (
	"path"
	"sort"

	"gopkg.in/yaml.v3"
	"pgregory.net/rapid"
)

// Rendering is the mockery side of a case: which template, formatter, placement and
// template-data options are used for every package of the module.
type Rendering struct {
	Template  string         `json:"template"`  // testify | matryer
	Formatter string         `json:"formatter"` // goimports | gofmt | noop
	Placement string         `json:"placement"` // inpkg-test | inpkg | ext-test | separate
	Data      map[string]any `json:"data,omitempty"`
	All       bool           `json:"all,omitempty"` // all: true instead of listing the interfaces
	Boiler    bool           `json:"boiler,omitempty"`
	// IfaceData holds template-data written in the `config` of single interfaces, keyed by
	// "<package dir>/<interface>" (only used when the interfaces are listed).
	IfaceData map[string]map[string]any `json:"iface_data,omitempty"`
	// IfaceConfigs holds the entries of a `configs:` list of single interfaces (same key):
	// several mocks of one interface in the same output file, each with its own structname
	// and template-data.
	IfaceConfigs map[string][]MockCfg `json:"iface_configs,omitempty"`
}

// MockCfg is one entry of an interface's `configs:` list.
type MockCfg struct {
	StructName string         `json:"structname"`
	Data       map[string]any `json:"data,omitempty"`
}

// MockTarget is one mock type mockery has to generate.
type MockTarget struct {
	StructName string
	Data       map[string]any // effective template-data (entry over interface over root)
}

// MockTargets lists the mocks of one interface: one named Mock<Iface>, or one per entry of
// its `configs:` list.
func (r Rendering) MockTargets(p *Pkg, iface string) []MockTarget {
	base := r.EffectiveData(p, iface)
	entries := r.IfaceConfigs[IfaceKey(p, iface)]
	if r.All || len(entries) == 0 {
		return []MockTarget{{StructName: "Mock" + iface, Data: base}}
	}
	var out []MockTarget
	for _, e := range entries {
		d := map[string]any{}
		for k, v := range base {
			d[k] = v
		}
		for k, v := range e.Data {
			d[k] = v
		}
		out = append(out, MockTarget{StructName: e.StructName, Data: d})
	}
	return out
}

// GenIfaceConfigs draws `configs:` lists (2-3 mocks of one interface in one file, differing in
// structname and in the per-mock template-data options) for some interfaces.
func (r *Rendering) GenIfaceConfigs(t *rapid.T, m *Module) {
	if r.All || rapid.IntRange(0, 2).Draw(t, "ifaceconfigs") != 0 {
		return
	}
	keys := []string{"unroll-variadic"}
	if r.Template == "matryer" {
		keys = []string{"stub-impl", "skip-ensure"}
	}
	for pi := range m.Pkgs {
		p := &m.Pkgs[pi]
		taken := map[string]bool{}
		for _, it := range p.Ifaces {
			taken["Mock"+it.Name] = true
		}
		for _, it := range p.Ifaces {
			if it.Alias || !it.Exported() || rapid.IntRange(0, 1).Draw(t, "configs-for") != 0 {
				continue
			}
			n := rapid.IntRange(2, 3).Draw(t, "nconfigs")
			var entries []MockCfg
			for i := 0; i < n; i++ {
				name := []string{"Mock" + it.Name, it.Name + "Stub", it.Name + "Alt"}[i]
				if i > 0 && taken[name] {
					continue
				}
				taken[name] = true
				e := MockCfg{StructName: name}
				for _, k := range keys {
					switch rapid.IntRange(0, 2).Draw(t, "cfgdata:"+k) {
					case 1:
						e.Data = map[string]any{k: true}
					case 2:
						e.Data = map[string]any{k: false}
					}
				}
				entries = append(entries, e)
			}
			if len(entries) > 1 {
				if r.IfaceConfigs == nil {
					r.IfaceConfigs = map[string][]MockCfg{}
				}
				r.IfaceConfigs[IfaceKey(p, it.Name)] = entries
			}
		}
	}
}

// IfaceKey is the key of an interface in Rendering.IfaceData.
func IfaceKey(p *Pkg, iface string) string { return p.Dir + "/" + iface }

// EffectiveData returns the template-data in effect for one mock (interface level over root level).
func (r Rendering) EffectiveData(p *Pkg, iface string) map[string]any {
	out := map[string]any{}
	for k, v := range r.Data {
		out[k] = v
	}
	if !r.All {
		for k, v := range r.IfaceData[IfaceKey(p, iface)] {
			out[k] = v
		}
	}
	return out
}

// GenIfaceData draws interface-level overrides of the per-mock template-data options of the
// built-in templates (skip-ensure, stub-impl for matryer; unroll-variadic for testify).
func (r *Rendering) GenIfaceData(t *rapid.T, m *Module) {
	if r.All || rapid.IntRange(0, 2).Draw(t, "ifacedata") != 0 {
		return
	}
	keys := []string{"unroll-variadic"}
	if r.Template == "matryer" {
		keys = []string{"skip-ensure", "stub-impl"}
	}
	for pi := range m.Pkgs {
		p := &m.Pkgs[pi]
		for _, it := range p.Ifaces {
			for _, k := range keys {
				switch rapid.IntRange(0, 3).Draw(t, "ifacedata:"+k) {
				case 1:
					r.setIfaceData(IfaceKey(p, it.Name), k, true)
				case 2:
					r.setIfaceData(IfaceKey(p, it.Name), k, false)
				}
			}
		}
	}
}

func (r *Rendering) setIfaceData(key, k string, v any) {
	if r.IfaceData == nil {
		r.IfaceData = map[string]map[string]any{}
	}
	if r.IfaceData[key] == nil {
		r.IfaceData[key] = map[string]any{}
	}
	r.IfaceData[key][k] = v
}

var Templates = []string{"testify", "matryer"}
var Formatters = []string{"goimports", "gofmt", "noop"}
var Placements = []string{"inpkg-test", "inpkg", "ext-test", "separate"}

func (r Rendering) InPackage() bool { return r.Placement == "inpkg-test" || r.Placement == "inpkg" }

// GenRendering draws a rendering. Lists are ordered so that shrinking moves towards the
// defaults (testify, goimports, in-package test file, no template-data).
func GenRendering(t *rapid.T) Rendering {
	r := Rendering{
		Template:  rapid.SampledFrom(Templates).Draw(t, "template"),
		Formatter: rapid.SampledFrom(Formatters).Draw(t, "formatter"),
		Placement: rapid.SampledFrom(Placements).Draw(t, "placement"),
	}
	data := map[string]any{}
	tri := func(label, key string) {
		switch rapid.IntRange(0, 2).Draw(t, label) {
		case 1:
			data[key] = true
		case 2:
			data[key] = false
		}
	}
	if r.Template == "testify" {
		tri("unroll", "unroll-variadic")
	} else {
		tri("skip-ensure", "skip-ensure")
		tri("stub-impl", "stub-impl")
		tri("with-resets", "with-resets")
	}
	if rapid.IntRange(0, 4).Draw(t, "tags") == 0 {
		data["mock-build-tags"] = rapid.SampledFrom([]string{"integ", "integ && !other", "integ || other"}).Draw(t, "tagexpr")
	}
	if rapid.IntRange(0, 4).Draw(t, "boiler") == 0 {
		r.Boiler = true
		data["boilerplate-file"] = "boiler.txt"
	}
	if len(data) > 0 {
		r.Data = data
	}
	r.All = rapid.IntRange(0, 3).Draw(t, "all") == 0
	return r
}

// BuildTags returns the -tags value that satisfies the drawn build expression.
func (r Rendering) BuildTags() string {
	if _, ok := r.Data["mock-build-tags"]; ok {
		return "integ"
	}
	return ""
}

// OutputFile returns where the mocks of p go (relative to the module root) and the package
// name of that file.
func (r Rendering) OutputFile(p *Pkg) (file string, pkgname string) {
	switch r.Placement {
	case "inpkg":
		return path.Join(p.Dir, "mocks_gen.go"), p.Name
	case "ext-test":
		return path.Join(p.Dir, "mocks_ext_test.go"), p.Name + "_test"
	case "separate":
		d := p.Dir
		if d == "" {
			d = "rootpkg"
		}
		return path.Join("mocks", d, "mocks.go"), "mocks"
	}
	return path.Join(p.Dir, "mocks_test.go"), p.Name
}

// ConfigYAML renders .mockery.yml for module m. extra is merged into the root.
func (r Rendering) ConfigYAML(m *Module, extra map[string]any) string {
	root := map[string]any{
		"template":  r.Template,
		"formatter": r.Formatter,
	}
	if len(r.Data) > 0 {
		root["template-data"] = r.Data
	}
	for k, v := range extra {
		root[k] = v
	}
	pkgs := map[string]any{}
	for pi := range m.Pkgs {
		p := &m.Pkgs[pi]
		cfg := map[string]any{}
		file, pkgname := r.OutputFile(p)
		switch r.Placement {
		case "inpkg":
			cfg["filename"] = path.Base(file)
		case "ext-test":
			cfg["filename"] = path.Base(file)
			cfg["pkgname"] = pkgname
		case "separate":
			cfg["filename"] = path.Base(file)
			cfg["pkgname"] = pkgname
			cfg["dir"] = path.Dir(file)
		}
		entry := map[string]any{}
		if r.All {
			cfg["all"] = true
		} else {
			ifs := map[string]any{}
			for _, it := range p.Ifaces {
				if it.Alias {
					continue // an alias is not a type of its own and cannot be listed
				}
				ic := map[string]any{}
				if d := r.IfaceData[IfaceKey(p, it.Name)]; len(d) > 0 {
					ic["config"] = map[string]any{"template-data": d}
				}
				if es := r.IfaceConfigs[IfaceKey(p, it.Name)]; len(es) > 0 {
					var list []any
					for _, e := range es {
						ent := map[string]any{"structname": e.StructName}
						if len(e.Data) > 0 {
							ent["template-data"] = e.Data
						}
						list = append(list, ent)
					}
					ic["configs"] = list
				}
				if len(ic) > 0 {
					ifs[it.Name] = ic
				} else {
					ifs[it.Name] = nil
				}
			}
			entry["interfaces"] = ifs
		}
		if len(cfg) > 0 {
			entry["config"] = cfg
		}
		pkgs[m.PkgPath(p)] = entry
	}
	root["packages"] = pkgs
	b, err := yaml.Marshal(root)
	if err != nil {
		panic(err)
	}
	return string(b)
}

// MockedInterfaces lists, per package, the interface names the configuration selects
// (with all: true that includes the local helper interfaces every source package declares).
func (r Rendering) MockedInterfaces(m *Module, p *Pkg) []string {
	var out []string
	for _, it := range p.Ifaces {
		if !it.Alias {
			out = append(out, it.Name)
		}
	}
	if r.All {
		out = append(out, "LIface", "LGI")
		if m.Unexp {
			out = append(out, "lface")
		}
	}
	sort.Strings(out)
	return out
}

const BoilerText = "// Copyright (c) The Example Authors.\n// SPDX-License-Identifier: MIT"
