package progen

import (
	"os"
	"path/filepath"
	"regexp"
	"strings"

	"verif/harness/vh"
)

// Materialize writes module m with its .mockery.yml (rendering r, extra root keys) into a
// fresh scratch directory and returns it together with the file map (without go.sum).
func Materialize(m *Module, r Rendering, extraRoot map[string]any, extraFiles map[string]string) (string, map[string]string) {
	dir := vh.NewScratch()
	files := m.Files()
	files[".mockery.yml"] = r.ConfigYAML(m, extraRoot)
	if r.Boiler {
		files["boiler.txt"] = BoilerText
	}
	for k, v := range extraFiles {
		files[k] = v
	}
	files["go.sum"] = vh.GoSum()
	vh.WriteFiles(dir, files)
	delete(files, "go.sum")
	return dir, files
}

// Outputs lists the output file of every package (relative to the module root).
func (r Rendering) Outputs(m *Module) []string {
	var outs []string
	for pi := range m.Pkgs {
		f, _ := r.OutputFile(&m.Pkgs[pi])
		outs = append(outs, f)
	}
	return outs
}

var diagRe = regexp.MustCompile(`(?m)^(?:vet: )?(\S+\.go):(\d+):(\d+): (.*)$`)

// TypeCheck runs the compile oracle on dir. gen lists generated files (relative); a
// diagnostic outside them makes TypeCheck verify that the module compiles without the
// generated files — if it does not, that is a generator bug (vh.Infra).
// It returns ok, the first diagnostic attributed to a generated file, and the full output.
func TypeCheck(dir string, tags string, gen []string) (bool, string, string) {
	ok, out := vh.GoVet(dir, tags)
	if ok {
		return true, "", out
	}
	isGen := map[string]bool{}
	for _, f := range gen {
		isGen[filepath.Clean(f)] = true
	}
	first, inSource := "", false
	for _, m := range diagRe.FindAllStringSubmatch(out, -1) {
		p := filepath.Clean(strings.TrimPrefix(m[1], "./"))
		if filepath.IsAbs(p) {
			if rel, err := filepath.Rel(dir, p); err == nil {
				p = rel
			}
		}
		if isGen[p] {
			if first == "" {
				first = m[4]
			}
		} else {
			inSource = true
		}
	}
	if first == "" || inSource {
		AssertSourceCompiles(dir, tags, gen)
		if first == "" {
			first = firstLine(out)
		}
	}
	return false, first, out
}

// AssertSourceCompiles temporarily removes the generated files and makes sure the rest of
// the module type-checks; otherwise the generator produced an invalid program.
func AssertSourceCompiles(dir, tags string, gen []string) {
	saved := map[string][]byte{}
	for _, f := range gen {
		if b, err := os.ReadFile(filepath.Join(dir, f)); err == nil {
			saved[f] = b
			_ = os.Remove(filepath.Join(dir, f))
		}
	}
	ok, out := vh.GoVet(dir, tags)
	for f, b := range saved {
		_ = os.WriteFile(filepath.Join(dir, f), b, 0o644)
	}
	if !ok {
		vh.Invalid()
		vh.Infra("generated module does not compile by itself: %s", vh.Trunc(out, 1500))
	}
}

func firstLine(s string) string {
	for _, ln := range strings.Split(s, "\n") {
		ln = strings.TrimSpace(ln)
		if ln != "" && !strings.HasPrefix(ln, "#") {
			return ln
		}
	}
	return "?"
}

var numRe = regexp.MustCompile(`\d+`)

// NormDiag turns a diagnostic into a key fragment: digits folded, truncated, no spaces.
func NormDiag(s string) string {
	s = numRe.ReplaceAllString(s, "N")
	if len(s) > 90 {
		s = s[:90]
	}
	return strings.ReplaceAll(strings.TrimSpace(s), " ", "_")
}

var errFieldRe = regexp.MustCompile(`error="?([^"\n]*)`)
var ansiRe = regexp.MustCompile(`\x1b\[[0-9;]*m`)

// LastError extracts the last error="…" field of mockery's log output.
func LastError(stderr string) string {
	stderr = ansiRe.ReplaceAllString(stderr, "")
	lines := strings.Split(strings.TrimSpace(stderr), "\n")
	for i := len(lines) - 1; i >= 0; i-- {
		if m := errFieldRe.FindStringSubmatch(lines[i]); m != nil {
			return m[1]
		}
	}
	if len(lines) > 0 {
		return lines[len(lines)-1]
	}
	return "?"
}
