package progen

import (
	"fmt"
	"strings"

	"pgregory.net/rapid"
)

// Opts steers the generator. The zero value is the full grammar.
type Opts struct {
	// AllowUnexported permits unexported local types, interfaces and method names (only
	// sound when every mock is rendered into the source package itself).
	AllowUnexported bool
	// BenignNames restricts identifiers to harmless ones.
	BenignNames bool
	// NoGenerics disables type parameters and named instantiations.
	NoGenerics bool
	// Avoid lists feature switches to steer away from (known findings), e.g. "ident:_mock".
	Avoid map[string]bool
	// PkgKeys restricts the helper/std packages that may be mentioned (nil = all).
	PkgKeys []string
	// MaxPkgs, MaxIfaces, MaxMethods bound the size (0 = defaults 3, 3, 4).
	MaxPkgs, MaxIfaces, MaxMethods int
	// MethodFilter rejects method names (mock API collisions), nil = none.
	MethodFilter func(name string) bool
	// OnAvoid is called whenever a draw is actually steered away from a known-finding trigger.
	OnAvoid func(key string)
	// CrossEmbed lets interfaces embed interfaces of other source packages of the module.
	CrossEmbed bool
}

func (o Opts) steered(k string) {
	if o.OnAvoid != nil {
		o.OnAvoid(k)
	}
}

func (o Opts) avoid(k string) bool { return o.Avoid != nil && o.Avoid[k] }

var basicKinds = []string{"int", "string", "bool", "float64", "byte", "rune", "int64", "uint8", "error", "any", "uintptr", "complex128"}

var comparableBasics = []string{"int", "string", "bool", "float64", "byte", "int64", "uintptr"}

type gctx struct {
	t       *rapid.T
	o       Opts
	tparams []TParam // in scope
	n       int      // label counter
	pkgKeys []string
	// names of the types and package qualifiers mentioned by the signature being named:
	// hostile identifiers are preferably drawn from these, because only they can capture
	sigTypeNames, sigQuals []string
}

func (g *gctx) lbl(s string) string { g.n++; return fmt.Sprintf("%s#%d", s, g.n) }

func (g *gctx) intn(label string, lo, hi int) int {
	return rapid.IntRange(lo, hi).Draw(g.t, g.lbl(label))
}

func (g *gctx) pick(label string, xs []string) string {
	return rapid.SampledFrom(xs).Draw(g.t, g.lbl(label))
}

func (g *gctx) typesWhere(pred func(TypeInfo) bool) []TypeInfo {
	var out []TypeInfo
	for _, ti := range AllTypes {
		if ti.Pkg != "" {
			ok := false
			for _, k := range g.pkgKeys {
				if k == ti.Pkg {
					ok = true
				}
			}
			if !ok {
				continue
			}
		}
		if !ti.Exported && !g.o.AllowUnexported {
			continue
		}
		if g.o.NoGenerics && ti.Arity > 0 {
			continue
		}
		if g.o.avoid("pkg:"+ti.Pkg) || g.o.avoid("type:"+ti.Pkg+"."+ti.Name) {
			continue
		}
		if pred(ti) {
			out = append(out, ti)
		}
	}
	return out
}

// named draws a reference to a named type satisfying pred, instantiating generics.
func (g *gctx) named(depth int, pred func(TypeInfo) bool) (Ty, bool) {
	cands := g.typesWhere(pred)
	if len(cands) == 0 {
		return Ty{}, false
	}
	// types of the source package itself are rendered unqualified in-package, which is where
	// identifier capture can happen: give them a third of the draws
	if g.intn("preferlocal", 0, 2) == 0 {
		var local []TypeInfo
		for _, c := range cands {
			if c.Pkg == "" {
				local = append(local, c)
			}
		}
		if len(local) > 0 {
			cands = local
		}
	}
	ti := cands[g.intn("named", 0, len(cands)-1)]
	t := Ty{K: "named", Pkg: ti.Pkg, Name: ti.Name}
	for i := 0; i < ti.Arity; i++ {
		if ti.ArgCmp[i] {
			t.Args = append(t.Args, g.comparable(depth+1))
		} else {
			t.Args = append(t.Args, g.ty(depth+1))
		}
	}
	return t, true
}

// comparable draws a type usable as a map key.
func (g *gctx) comparable(depth int) Ty {
	k := g.intn("cmpkind", 0, 9)
	switch {
	case k <= 3 || depth >= 3:
		return B(g.pick("cmpbasic", comparableBasics))
	case k <= 6:
		if t, ok := g.named(depth, func(ti TypeInfo) bool { return ti.Comparable && ti.Arity == 0 }); ok {
			return t
		}
		return B("string")
	case k == 7:
		e := g.ty(depth + 1)
		return Ty{K: "ptr", Elem: &e}
	case k == 8:
		e := g.comparable(depth + 1)
		return Ty{K: "array", Len: g.intn("alen", 0, 4), Elem: &e}
	default:
		for _, tp := range g.tparams {
			if FindConstraint(tp.Constraint).Comparable {
				return Ty{K: "tparam", Name: tp.Name}
			}
		}
		e := g.ty(depth + 1)
		return Ty{K: "chan", Elem: &e}
	}
}

// ty draws an arbitrary type expression.
func (g *gctx) ty(depth int) Ty {
	max := 21
	if depth >= 3 {
		max = 9 // leaves only
	}
	k := g.intn("kind", 0, max)
	switch {
	case k <= 3:
		return B(g.pick("basic", basicKinds))
	case k <= 8:
		if len(g.tparams) > 0 && g.intn("usetp", 0, 2) == 0 {
			return Ty{K: "tparam", Name: g.tparams[g.intn("tp", 0, len(g.tparams)-1)].Name}
		}
		if t, ok := g.named(depth, func(ti TypeInfo) bool { return ti.Arity == 0 || depth < 3 }); ok {
			return t
		}
		return B("int")
	case k == 9:
		if len(g.tparams) > 0 {
			return Ty{K: "tparam", Name: g.tparams[g.intn("tp", 0, len(g.tparams)-1)].Name}
		}
		return B("string")
	case k <= 11:
		e := g.ty(depth + 1)
		return Ty{K: "ptr", Elem: &e}
	case k <= 13:
		e := g.ty(depth + 1)
		return Ty{K: "slice", Elem: &e}
	case k == 14:
		e := g.ty(depth + 1)
		return Ty{K: "array", Len: g.intn("alen", 0, 5), Elem: &e}
	case k <= 16:
		key, e := g.comparable(depth+1), g.ty(depth+1)
		return Ty{K: "map", Key: &key, Elem: &e}
	case k == 17:
		e := g.ty(depth + 1)
		return Ty{K: "chan", Elem: &e, Dir: g.pick("dir", []string{"", "send", "recv"})}
	case k <= 19:
		s := g.sig(depth+1, 2, 2, true)
		return Ty{K: "func", Fn: &s}
	case k == 20:
		return g.structLit(depth + 1)
	default:
		return g.ifaceLit(depth + 1)
	}
}

func (g *gctx) structLit(depth int) Ty {
	n := g.intn("nfields", 0, 3)
	t := Ty{K: "struct"}
	used := map[string]bool{}
	names := []string{"A", "B", "Name", "Value", "X"}
	if g.o.AllowUnexported {
		names = append(names, "a", "hidden")
	}
	for i := 0; i < n; i++ {
		if g.intn("embedded", 0, 5) == 0 {
			if nt, ok := g.named(depth, func(ti TypeInfo) bool { return ti.Arity == 0 && ti.Kind != "ptr" && isExportedName(ti.Name) }); ok && !used[nt.Name] {
				used[nt.Name] = true
				t.Fields = append(t.Fields, Field{T: nt, Embedded: true})
				continue
			}
		}
		name := g.pick("fname", names)
		if used[name] {
			continue
		}
		used[name] = true
		f := Field{Name: name, T: g.ty(depth + 1)}
		if g.intn("tag", 0, 2) == 0 {
			f.Tag = g.pick("tagv", []string{`json:"a"`, `json:"b,omitempty" yaml:"b"`, `x:"y z"`})
		}
		t.Fields = append(t.Fields, f)
	}
	return t
}

func (g *gctx) ifaceLit(depth int) Ty {
	t := Ty{K: "iface"}
	used := map[string]bool{}
	if g.intn("embed", 0, 2) == 0 {
		if nt, ok := g.named(depth, func(ti TypeInfo) bool { return ti.Kind == "iface" && ti.Arity == 0 }); ok {
			ti, _ := FindType(nt.Pkg, nt.Name)
			for _, m := range ti.Methods {
				used[m] = true
			}
			t.Embeds = append(t.Embeds, nt)
		}
	}
	n := g.intn("nmeths", 0, 2)
	names := []string{"Do", "Get", "Close", "Len"}
	if g.o.AllowUnexported {
		names = append(names, "do")
	}
	for i := 0; i < n; i++ {
		name := g.pick("mname", names)
		if used[name] {
			continue
		}
		used[name] = true
		t.Meths = append(t.Meths, Meth{Name: name, Sig: g.sig(depth+1, 2, 1, false)})
	}
	return t
}

// ---- identifiers -------------------------------------------------------------------------

var benignNames = []string{"a", "b", "x", "val", "name", "req", "id", "n", "s", "opts", "first", "second"}

// IdentClasses maps a class label to its pool.
var IdentClasses = map[string][]string{
	"qualifier":   {"alpha", "http", "io", "context", "time", "template", "fmt", "sync", "os", "unsafe", "mock", "alpha0", "http0"},
	"predeclared": {"string", "int", "error", "len", "append", "nil", "true", "any", "new", "make", "bool", "byte", "panic", "cap", "iota", "false"},
	"template":    {"_mock", "_m", "_e", "_c", "_va", "_ca", "_i", "ret", "ret1", "r0", "r1", "ok", "returnFunc", "tmpRet", "run", "args", "variadicArgs", "i", "mock", "callInfo", "calls", "t"},
	"unicode":     {"ñame", "δ", "名前", "été"},
	"typename":    {"T", "I", "Local", "Fn", "LIface", "MyInt", "Reader", "Context", "LGen", "LGI", "G", "LStr"},
	"suffixed":    {"a1", "a2", "x0", "val1", "ret0"},
}

var identClassOrder = []string{"qualifier", "predeclared", "template", "unicode", "typename", "suffixed"}

func (g *gctx) ident(used map[string]bool) string {
	for try := 0; try < 8; try++ {
		var name string
		if g.o.BenignNames || g.intn("identclass", 0, 9) < 5 {
			name = g.pick("benign", benignNames)
		} else {
			cl := g.pick("cls", identClassOrder)
			name = g.pick("hostile", IdentClasses[cl])
			if cl == "typename" && len(g.sigTypeNames) > 0 && g.intn("fromsig", 0, 1) == 0 {
				name = g.pick("sigtype", g.sigTypeNames)
			}
			if cl == "qualifier" && len(g.sigQuals) > 0 && g.intn("fromsig", 0, 1) == 0 {
				name = g.pick("sigqual", g.sigQuals)
			}
			if g.o.avoid("ident:"+name) || g.o.avoid("identclass:"+cl) {
				g.o.steered("ident:" + name)
				continue
			}
		}
		// a parameter must not shadow a type parameter it may need in its own signature
		shadow := false
		for _, tp := range g.tparams {
			if tp.Name == name {
				shadow = true
			}
		}
		if g.o.avoid("ident:case-collision") {
			for u := range used {
				if strings.EqualFold(u[:1], name[:1]) && u[1:] == name[1:] && u != name {
					shadow = true
					g.o.steered("ident:case-collision")
				}
			}
		}
		if !used[name] && !shadow {
			used[name] = true
			return name
		}
	}
	for i := 0; ; i++ {
		name := fmt.Sprintf("p%d", i)
		if !used[name] {
			used[name] = true
			return name
		}
	}
}

// sig draws a signature with up to maxP params and maxR results.
func (g *gctx) sig(depth, maxP, maxR int, inner bool) Sig {
	var s Sig
	np := g.intn("nparams", 0, maxP)
	nr := g.intn("nresults", 0, maxR)
	for i := 0; i < np; i++ {
		if i > 0 && g.intn("sametype", 0, 3) == 0 {
			// the same type twice in one signature (Merge(a, b T)) is the common case in real code
			s.Params = append(s.Params, Var{T: s.Params[g.intn("which", 0, i-1)].T})
			continue
		}
		s.Params = append(s.Params, Var{T: g.ty(depth)})
	}
	if np > 0 && g.intn("variadic", 0, 3) == 0 {
		s.Variadic = true
	}
	for i := 0; i < nr; i++ {
		var rt Ty
		if g.intn("errres", 0, 3) == 0 {
			rt = B("error")
		} else if np > 0 && g.intn("sameasparam", 0, 3) == 0 {
			rt = s.Params[g.intn("which", 0, np-1)].T
		} else {
			rt = g.ty(depth)
		}
		s.Results = append(s.Results, Var{T: rt})
	}
	g.sigTypeNames, g.sigQuals = nil, nil
	seenN := map[string]bool{}
	WalkSig(s, func(t Ty) {
		if t.K == "named" {
			if !seenN["t:"+t.Name] {
				seenN["t:"+t.Name] = true
				g.sigTypeNames = append(g.sigTypeNames, t.Name)
			}
			if t.Pkg != "" {
				if q := LookupPkg(t.Pkg).Name; !seenN["q:"+q] {
					seenN["q:"+q] = true
					g.sigQuals = append(g.sigQuals, q)
				}
			}
		}
	})
	used := map[string]bool{}
	switch m := g.intn("pnaming", 0, 9); {
	case m == 0: // unnamed
	case m == 1: // all blank
		for i := range s.Params {
			s.Params[i].Name = "_"
		}
	default:
		for i := range s.Params {
			if g.intn("blank", 0, 9) == 0 {
				s.Params[i].Name = "_"
			} else {
				s.Params[i].Name = g.ident(used)
			}
		}
	}
	if nr > 0 && g.intn("rnaming", 0, 3) == 0 {
		for i := range s.Results {
			if g.intn("blank", 0, 9) == 0 {
				s.Results[i].Name = "_"
			} else {
				s.Results[i].Name = g.ident(used)
			}
		}
	}
	_ = inner
	return s
}

// ---- interfaces ---------------------------------------------------------------------------

var methodNames = []string{"Do", "Get", "Put", "Run", "Close", "Read", "Write", "Fetch", "Len", "String", "Error", "M", "Return", "Unwrap", "Handle", "Do2"}
var unexportedMethodNames = []string{"do", "m1"}

var tparamNames = []string{"T", "K", "V", "E", "Elem"}
var hostileTParamNames = []string{"t", "elem", "any2", "M", "I", "mock", "x", "Stringer", "Num"}

var ifaceNames = []string{"Service", "Store", "Handler", "Repo", "Client", "Doer", "Thing", "Iface", "Widget", "API"}
var unexportedIfaceNames = []string{"service", "doer", "thing"}

func (g *gctx) iface(name string, file int) Iface {
	it := Iface{Name: name, File: file}
	g.tparams = nil
	if !g.o.NoGenerics && g.intn("generic", 0, 3) == 0 {
		ntp := g.intn("ntparams", 1, 3)
		used := map[string]bool{}
		for i := 0; i < ntp; i++ {
			pool := tparamNames
			if !g.o.BenignNames && !g.o.avoid("tparam:lowercase") && g.intn("hostiletp", 0, 3) == 0 {
				pool = hostileTParamNames
			}
			n := g.pick("tpname", pool)
			if g.o.avoid("tparamname:" + n) {
				g.o.steered("tparamname:" + n)
			}
			if used[n] || n == name || g.o.avoid("tparamname:"+n) {
				n = fmt.Sprintf("T%d", i)
			}
			used[n] = true
			var cands []string
			for _, c := range Constraints {
				if c.Dep && i == 0 || c.Key == "fwd-slice" {
					continue
				}
				if g.o.avoid("constraint:" + c.Key) {
					continue
				}
				ok := true
				for _, k := range c.Pkgs {
					found := false
					for _, pk := range g.pkgKeys {
						if pk == k {
							found = true
						}
					}
					ok = ok && found
				}
				if ok {
					cands = append(cands, c.Key)
				}
			}
			ck := "any"
			if g.intn("anyconstraint", 0, 2) > 0 {
				ck = g.pick("constraint", cands)
			}
			it.TParams = append(it.TParams, TParam{Name: n, Constraint: ck})
		}
		if len(it.TParams) >= 2 && g.intn("fwdref", 0, 3) == 0 {
			// a forward reference: the first parameter's constraint names the second one
			it.TParams[0].Constraint = "fwd-slice"
			if FindConstraint(it.TParams[1].Constraint).Dep {
				it.TParams[1].Constraint = "any"
			}
		}
		g.tparams = it.TParams
	}
	usedM := map[string]string{} // method name -> owner
	// embedding
	ne := g.intn("nembeds", 0, 3) - 1
	for i := 0; i < ne; i++ {
		et, ok := g.named(1, func(ti TypeInfo) bool { return ti.Kind == "iface" })
		if !ok {
			break
		}
		ti, _ := FindType(et.Pkg, et.Name)
		conflict := false
		for _, m := range ti.Methods {
			if owner, seen := usedM[m]; seen && owner != et.Name {
				// alpha.I and alphb.I (same method, identical signature) may both be embedded
				conflict = !(ti.Name == "I" && owner == "I")
			}
			if owner, seen := usedM[m]; seen && owner == et.Name && ti.Arity > 0 {
				conflict = true // two instantiations of the same generic interface differ in signature
			}
		}
		if conflict {
			continue
		}
		for _, m := range ti.Methods {
			usedM[m] = et.Name
		}
		it.Embeds = append(it.Embeds, et)
	}
	nm := g.intn("nmethods", 0, g.o.maxMethods())
	if nm == 0 && len(it.Embeds) == 0 && g.intn("allowempty", 0, 4) > 0 {
		nm = 1
	}
	for i := 0; i < nm; i++ {
		pool := methodNames
		if g.o.AllowUnexported && g.intn("unexpm", 0, 5) == 0 {
			pool = unexportedMethodNames
		}
		n := g.pick("mname", pool)
		if _, seen := usedM[n]; seen || (g.o.MethodFilter != nil && g.o.MethodFilter(n)) {
			continue
		}
		usedM[n] = "own"
		it.Methods = append(it.Methods, Meth{Name: n, Sig: g.sig(0, 4, 3, false)})
	}
	g.tparams = nil
	return it
}

func (o Opts) maxMethods() int {
	if o.MaxMethods > 0 {
		return o.MaxMethods
	}
	return 4
}

var goModSpellings = []string{"plain", "plain", "plain", "tab", "spaces", "quoted", "comment", "block", "crlf", "leading-comment", "go-first", "trailing-space"}

var modPaths = []string{"example.com/m", "example.com/deep/er/mod", "m", "github.com/Acme/some-repo/v2", "example.com/mock"}

var pkgDirs = []struct{ dir, name string }{
	{"svc", "svc"}, {"internal/store", "store"}, {"pkg/api/v1", "v1"}, {"", "root"}, {"odd", "notodd"}, {"httpd", "http"}, {"app/mock", "mock"}, {"tmpl", "template"},
	{"xhttp", "http"}, // the package name is a proper suffix of the directory name
}

// Gen draws a module.
func Gen(t *rapid.T, o Opts) Module {
	g := &gctx{t: t, o: o}
	m := Module{ModPath: g.pick("modpath", modPaths), GoMod: g.pick("gomod", goModSpellings), Unexp: o.AllowUnexported}
	if o.avoid("gomod:" + m.GoMod) {
		m.GoMod = "plain"
	}
	// choose the set of packages that may be mentioned: a small subset makes qualifier clashes likely
	all := o.PkgKeys
	if all == nil {
		for _, p := range Helpers {
			all = append(all, p.Key)
		}
		for _, p := range StdPkgs {
			all = append(all, p.Key)
		}
	}
	nk := g.intn("npkgkeys", 1, 5)
	seen := map[string]bool{}
	for i := 0; i < nk; i++ {
		k := g.pick("pkgkey", all)
		if o.avoid("pkg:" + k) {
			o.steered("pkg:" + k)
		}
		if !seen[k] && !o.avoid("pkg:"+k) {
			seen[k] = true
			g.pkgKeys = append(g.pkgKeys, k)
		}
	}
	if seen["alpha"] || seen["alphb"] || seen["alphc"] {
		if g.intn("namesakes", 0, 2) == 0 {
			for _, k := range []string{"alpha", "alphb", "alphc"} {
				if !seen[k] && !o.avoid("pkg:"+k) {
					seen[k] = true
					g.pkgKeys = append(g.pkgKeys, k)
				}
			}
		}
	}
	maxP, maxI := 3, 3
	if o.MaxPkgs > 0 {
		maxP = o.MaxPkgs
	}
	if o.MaxIfaces > 0 {
		maxI = o.MaxIfaces
	}
	np := g.intn("npkgs", 1, maxP)
	usedDir := map[string]bool{}
	for i := 0; i < np; i++ {
		d := pkgDirs[g.intn("pkgdir", 0, len(pkgDirs)-1)]
		if o.avoid("srcpkg:" + d.name) {
			o.steered("srcpkg:" + d.name)
		}
		if usedDir[d.dir] || o.avoid("srcpkg:"+d.name) {
			continue
		}
		usedDir[d.dir] = true
		p := Pkg{Dir: d.dir, Name: d.name, Files: g.intn("nfiles", 1, 2)}
		ni := g.intn("nifaces", 1, maxI)
		usedN := map[string]bool{}
		for j := 0; j < ni; j++ {
			pool := ifaceNames
			if o.AllowUnexported && g.intn("unexpi", 0, 4) == 0 {
				pool = unexportedIfaceNames
			}
			if d.name == "http" {
				// names that net/http exports too: a tool that takes this package for net/http finds them there
				pool = []string{"Handler", "Client", "Handler", "Client", "Service"}
			}
			n := g.pick("iname", pool)
			if usedN[n] {
				continue
			}
			usedN[n] = true
			p.Ifaces = append(p.Ifaces, g.iface(n, g.intn("file", 0, p.Files-1)))
		}
		// a named instantiation of a generic interface: type Inst = / Inst LGI[int,string]
		if !o.NoGenerics && g.intn("namedinst", 0, 4) == 0 {
			if it, ok := g.named(1, func(ti TypeInfo) bool { return ti.Kind == "iface" && ti.Arity > 0 }); ok {
				p.Ifaces = append(p.Ifaces, Iface{Name: "Inst", InstOf: &it})
				if g.intn("aliasinst", 0, 1) == 0 {
					it2 := it
					p.Ifaces = append(p.Ifaces, Iface{Name: "InstAlias", InstOf: &it2, Alias: true})
				}
			}
		}
		// aliases used by the source file for its imports
		if g.intn("srcalias", 0, 3) == 0 {
			p.SrcAlias = map[string]string{}
			for _, k := range g.pkgKeys {
				if k != "std:unsafe" && g.intn("aliasthis", 0, 1) == 0 {
					p.SrcAlias[k] = "x" + LookupPkg(k).Name
				}
			}
		}
		if g.intn("funclocal", 0, 3) == 0 {
			p.FuncLocal = append(p.FuncLocal, "OnlyLocal")
			if len(p.Ifaces) > 0 && g.intn("shadow", 0, 1) == 0 {
				p.FuncLocal = append(p.FuncLocal, p.Ifaces[0].Name)
			}
		}
		m.Pkgs = append(m.Pkgs, p)
	}
	if len(m.Pkgs) == 0 {
		m.Pkgs = append(m.Pkgs, Pkg{Dir: "svc", Name: "svc", Files: 1, Ifaces: []Iface{g.iface("Service", 0)}})
	}
	if o.CrossEmbed && !m.Unexp && len(m.Pkgs) > 1 {
		// an interface of a later package embeds a plain interface of an earlier one: the
		// promoted methods are rendered into two output files of the same run
		for pi := 1; pi < len(m.Pkgs); pi++ {
			for ii := range m.Pkgs[pi].Ifaces {
				it := &m.Pkgs[pi].Ifaces[ii]
				if it.InstOf != nil || len(it.Embeds) > 0 || g.intn("xembed", 0, 1) != 0 {
					continue
				}
				tp := g.intn("xpkg", 0, pi-1)
				var cands []string
				for _, c := range m.Pkgs[tp].Ifaces {
					if c.InstOf == nil && len(c.TParams) == 0 && len(c.Embeds) == 0 && len(c.XEmbeds) == 0 && len(c.Methods) > 0 {
						cands = append(cands, c.Name)
					}
				}
				if len(cands) == 0 {
					continue
				}
				it.XEmbeds = []XRef{{Pkg: tp, Iface: g.pick("xiface", cands)}}
			}
		}
		m.FixXEmbeds()
	}
	return m
}

// TemplateLocals are the identifiers the shipped templates themselves introduce inside a
// generated method body.
var TemplateLocals = map[string][]string{
	"testify": {"ret", "_mock", "_m", "_c", "_e", "_va", "_ca", "_i", "args", "run", "returnFunc", "tmpRet", "r0", "r1", "ok", "variadicArgs", "mock", "i", "make", "len", "append"},
	// the locals (and builtins) only the variadic preamble of the testify template uses
	"testify-variadic": {"_va", "_ca", "_i", "tmpRet", "make", "len", "append", "variadicArgs"},
	"matryer": {"mock", "callInfo", "calls", "lockGet", "ok", "i", "_", "r0"},
}

// templateLocalTypes gives the type the templates' own locals have, where it is a plain Go type.
var templateLocalTypes = map[string]Ty{
	"ok": B("bool"), "i": B("int"), "_i": B("int"),
	"_va": {K: "slice", Elem: &Ty{K: "basic", Name: "any"}}, "_ca": {K: "slice", Elem: &Ty{K: "basic", Name: "any"}},
}

// HostileLocals renames, in some methods, one parameter to an identifier the named template
// uses for its own locals. Preferred victims are parameters whose type admits len() and a
// zero length (slices, maps, strings, channels): a generated statement that reads the
// template's local by its literal name then silently reads the parameter instead.
func HostileLocals(t *rapid.T, m *Module, template string) int {
	pool := TemplateLocals[template]
	n := 0
	for pi := range m.Pkgs {
		for ii := range m.Pkgs[pi].Ifaces {
			it := &m.Pkgs[pi].Ifaces[ii]
			for mi := range it.Methods {
				sg := &it.Methods[mi].Sig
				if len(sg.Params) == 0 {
					continue
				}
				mpool := pool
				if vp := TemplateLocals[template+"-variadic"]; sg.Variadic && len(vp) > 0 {
					// variadic methods: always, and half of the time from the variadic-only locals
					if rapid.Bool().Draw(t, "variadic-local") {
						mpool = vp
					}
				} else if rapid.IntRange(0, 1).Draw(t, "hostile-local") != 0 {
					continue
				}
				victim := rapid.IntRange(0, len(sg.Params)-1).Draw(t, "victim")
				for i, p := range sg.Params {
					last := i == len(sg.Params)-1
					if (last && sg.Variadic) || p.T.K == "slice" || p.T.K == "map" || p.T.K == "chan" || (p.T.K == "basic" && p.T.Name == "string") {
						if rapid.IntRange(0, 1).Draw(t, "prefer-lenable") == 0 {
							victim = i
						}
						break
					}
				}
				name := rapid.SampledFrom(mpool).Draw(t, "local")
				if rapid.IntRange(0, 2).Draw(t, "typed-local") == 0 {
					// prefer the locals whose type a parameter can share (see templateLocalTypes)
					var typed []string
					for _, n := range mpool {
						if _, ok := templateLocalTypes[n]; ok {
							typed = append(typed, n)
						}
					}
					if len(typed) > 0 {
						name = rapid.SampledFrom(typed).Draw(t, "typed-local-name")
					}
				}
				clash := name == "_"
				for i, p := range sg.Params {
					if i != victim && p.Name == name {
						clash = true
					}
				}
				for _, r := range sg.Results {
					if r.Name == name {
						clash = true
					}
				}
				for _, tp := range it.TParams {
					if tp.Name == name {
						clash = true
					}
				}
				if clash {
					continue
				}
				sg.Params[victim].Name = name
				// The template's own local of that name has a type; with the parameter of the same
				// type a statement that reads the wrong one still compiles and misbehaves silently.
				if ty, ok := templateLocalTypes[name]; ok && !(sg.Variadic && victim == len(sg.Params)-1) && rapid.IntRange(0, 3).Draw(t, "same-type-as-local") > 0 {
					sg.Params[victim].T = ty
				}
				// Go forbids mixing named and unnamed parameters
				for i := range sg.Params {
					if sg.Params[i].Name == "" {
						sg.Params[i].Name = fmt.Sprintf("q%d", i)
					}
				}
				n++
			}
		}
	}
	return n
}
