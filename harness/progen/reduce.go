package progen

import (
	"encoding/json"
	"fmt"
)

func cloneModule(m Module) Module {
	b, _ := json.Marshal(m)
	var out Module
	_ = json.Unmarshal(b, &out)
	return out
}

// reduceTy lists simpler replacements for t (children first, then int).
func reduceTy(t Ty) []Ty {
	var out []Ty
	add := func(x Ty) { out = append(out, x) }
	if t.Elem != nil {
		add(*t.Elem)
	}
	if t.Key != nil {
		add(*t.Key)
	}
	for _, a := range t.Args {
		add(a)
	}
	if t.Fn != nil {
		for _, v := range t.Fn.Params {
			add(v.T)
		}
		for _, v := range t.Fn.Results {
			add(v.T)
		}
	}
	for _, f := range t.Fields {
		add(f.T)
	}
	for _, e := range t.Embeds {
		add(e)
	}
	for _, m := range t.Meths {
		for _, v := range m.Sig.Params {
			add(v.T)
		}
	}
	if !(t.K == "basic" && t.Name == "int") {
		add(B("int"))
	}
	// one-level-deeper simplifications that keep the constructor
	wrap := func(mk func(Ty) Ty, child Ty) {
		for _, r := range reduceTy(child) {
			add(mk(r))
		}
	}
	switch t.K {
	case "ptr", "slice", "array", "chan":
		c := t
		wrap(func(x Ty) Ty { y := c; y.Elem = &x; return y }, *t.Elem)
	case "map":
		c := t
		wrap(func(x Ty) Ty { y := c; y.Elem = &x; return y }, *t.Elem)
		if !(t.Key.K == "basic") {
			y := c
			k := B("string")
			y.Key = &k
			add(y)
		}
	case "func":
		for _, s := range reduceSig(*t.Fn) {
			s := s
			y := t
			y.Fn = &s
			add(y)
		}
	case "struct":
		for i := range t.Fields {
			y := t
			y.Fields = append(append([]Field{}, t.Fields[:i]...), t.Fields[i+1:]...)
			add(y)
		}
		for i := range t.Fields {
			if t.Fields[i].Embedded {
				continue
			}
			for _, r := range reduceTy(t.Fields[i].T) {
				y := t
				y.Fields = append([]Field{}, t.Fields...)
				y.Fields[i].T = r
				add(y)
			}
			if t.Fields[i].Tag != "" {
				y := t
				y.Fields = append([]Field{}, t.Fields...)
				y.Fields[i].Tag = ""
				add(y)
			}
		}
	case "iface":
		for i := range t.Embeds {
			y := t
			y.Embeds = append(append([]Ty{}, t.Embeds[:i]...), t.Embeds[i+1:]...)
			add(y)
		}
		for i := range t.Meths {
			y := t
			y.Meths = append(append([]Meth{}, t.Meths[:i]...), t.Meths[i+1:]...)
			add(y)
		}
		for i := range t.Meths {
			for _, s := range reduceSig(t.Meths[i].Sig) {
				y := t
				y.Meths = append([]Meth{}, t.Meths...)
				y.Meths[i].Sig = s
				add(y)
			}
		}
	case "named":
		for i := range t.Args {
			for _, r := range reduceTy(t.Args[i]) {
				if r.K != "basic" {
					continue // keep constraints satisfied: only basic replacements
				}
				y := t
				y.Args = append([]Ty{}, t.Args...)
				y.Args[i] = r
				add(y)
			}
		}
	}
	return out
}

func benign(i int) string { return fmt.Sprintf("p%d", i) }

func isBenign(n string) bool {
	if n == "" || n == "_" {
		return true
	}
	for _, b := range benignNames {
		if b == n {
			return true
		}
	}
	var i int
	_, err := fmt.Sscanf(n, "p%d", &i)
	return err == nil
}

func reduceSig(s Sig) []Sig {
	var out []Sig
	cp := func() Sig {
		return Sig{Params: append([]Var{}, s.Params...), Variadic: s.Variadic, Results: append([]Var{}, s.Results...)}
	}
	for i := range s.Params {
		y := cp()
		y.Params = append(y.Params[:i:i], y.Params[i+1:]...)
		if s.Variadic && i == len(s.Params)-1 {
			y.Variadic = false
		}
		out = append(out, y)
	}
	for i := range s.Results {
		y := cp()
		y.Results = append(y.Results[:i:i], y.Results[i+1:]...)
		out = append(out, y)
	}
	if s.Variadic {
		y := cp()
		y.Variadic = false
		out = append(out, y)
	}
	// names: all unnamed results, all benign params
	named := false
	for _, v := range s.Results {
		if v.Name != "" {
			named = true
		}
	}
	if named {
		y := cp()
		for i := range y.Results {
			y.Results[i].Name = ""
		}
		out = append(out, y)
	}
	for i := range s.Params {
		if !isBenign(s.Params[i].Name) {
			y := cp()
			y.Params[i].Name = benign(i)
			out = append(out, y)
		}
	}
	for i := range s.Results {
		if !isBenign(s.Results[i].Name) {
			y := cp()
			y.Results[i].Name = benign(10 + i)
			out = append(out, y)
		}
	}
	for i := range s.Params {
		for _, r := range reduceTy(s.Params[i].T) {
			y := cp()
			y.Params[i].T = r
			out = append(out, y)
		}
	}
	for i := range s.Results {
		for _, r := range reduceTy(s.Results[i].T) {
			y := cp()
			y.Results[i].T = r
			out = append(out, y)
		}
	}
	return out
}

func usesTParam(it *Iface, name string) bool {
	used := false
	it.WalkTypes(func(t Ty) {
		if t.K == "tparam" && t.Name == name {
			used = true
		}
	})
	return used
}

func replaceTParams(t Ty, names map[string]bool) Ty {
	b, _ := json.Marshal(t)
	var c Ty
	_ = json.Unmarshal(b, &c)
	var rec func(x *Ty)
	rec = func(x *Ty) {
		if x.K == "tparam" && names[x.Name] {
			*x = B("int")
			return
		}
		for i := range x.Args {
			rec(&x.Args[i])
		}
		if x.Elem != nil {
			rec(x.Elem)
		}
		if x.Key != nil {
			rec(x.Key)
		}
		if x.Fn != nil {
			for i := range x.Fn.Params {
				rec(&x.Fn.Params[i].T)
			}
			for i := range x.Fn.Results {
				rec(&x.Fn.Results[i].T)
			}
		}
		for i := range x.Fields {
			rec(&x.Fields[i].T)
		}
		for i := range x.Embeds {
			rec(&x.Embeds[i])
		}
		for i := range x.Meths {
			for j := range x.Meths[i].Sig.Params {
				rec(&x.Meths[i].Sig.Params[j].T)
			}
			for j := range x.Meths[i].Sig.Results {
				rec(&x.Meths[i].Sig.Results[j].T)
			}
		}
	}
	rec(&c)
	return c
}

// Reductions lists modules that are one step simpler than m (large cuts first). Some
// candidates may be invalid Go (e.g. a map key that is no longer comparable); the caller
// must treat a module that does not compile as "does not fail".
func Reductions(m Module) []Module {
	var out []Module
	edit := func(f func(x *Module)) {
		c := cloneModule(m)
		f(&c)
		c.FixXEmbeds()
		out = append(out, c)
	}
	if len(m.Pkgs) > 1 {
		for i := range m.Pkgs {
			i := i
			edit(func(x *Module) {
				x.Pkgs = append(x.Pkgs[:i:i], x.Pkgs[i+1:]...)
				// cross-package embeddings refer to packages by index
				for pi := range x.Pkgs {
					for ii := range x.Pkgs[pi].Ifaces {
						it := &x.Pkgs[pi].Ifaces[ii]
						var keep []XRef
						for _, xr := range it.XEmbeds {
							switch {
							case xr.Pkg == i:
							case xr.Pkg > i:
								keep = append(keep, XRef{Pkg: xr.Pkg - 1, Iface: xr.Iface})
							default:
								keep = append(keep, xr)
							}
						}
						it.XEmbeds = keep
					}
				}
			})
		}
	}
	for pi := range m.Pkgs {
		pi := pi
		p := &m.Pkgs[pi]
		if len(p.Ifaces) > 1 {
			for i := range p.Ifaces {
				i := i
				edit(func(x *Module) { q := &x.Pkgs[pi]; q.Ifaces = append(q.Ifaces[:i:i], q.Ifaces[i+1:]...) })
			}
		}
	}
	if m.GoMod != "plain" {
		edit(func(x *Module) { x.GoMod = "plain" })
	}
	if m.ModPath != "example.com/m" {
		edit(func(x *Module) { x.ModPath = "example.com/m" })
	}
	if m.Unexp {
		edit(func(x *Module) { x.Unexp = false })
	}
	for pi := range m.Pkgs {
		pi := pi
		p := &m.Pkgs[pi]
		if p.Files > 1 {
			edit(func(x *Module) { x.Pkgs[pi].Files = 1 })
		}
		if len(p.SrcAlias) > 0 {
			edit(func(x *Module) { x.Pkgs[pi].SrcAlias = nil })
		}
		if len(p.FuncLocal) > 0 {
			edit(func(x *Module) { x.Pkgs[pi].FuncLocal = x.Pkgs[pi].FuncLocal[:len(x.Pkgs[pi].FuncLocal)-1] })
		}
		if p.Dir != "svc" && p.Name != "svc" {
			clash := false
			for _, o := range m.Pkgs {
				if o.Dir == "svc" {
					clash = true
				}
			}
			if !clash {
				edit(func(x *Module) { x.Pkgs[pi].Dir, x.Pkgs[pi].Name = "svc", "svc" })
			}
		}
		for ii := range p.Ifaces {
			ii := ii
			it := &p.Ifaces[ii]
			if it.InstOf != nil {
				continue
			}
			if len(it.TParams) > 0 {
				// drop all type parameters
				edit(func(x *Module) {
					y := &x.Pkgs[pi].Ifaces[ii]
					names := map[string]bool{}
					for _, tp := range y.TParams {
						names[tp.Name] = true
					}
					y.TParams = nil
					for k := range y.Embeds {
						y.Embeds[k] = replaceTParams(y.Embeds[k], names)
					}
					for k := range y.Methods {
						for j := range y.Methods[k].Sig.Params {
							y.Methods[k].Sig.Params[j].T = replaceTParams(y.Methods[k].Sig.Params[j].T, names)
						}
						for j := range y.Methods[k].Sig.Results {
							y.Methods[k].Sig.Results[j].T = replaceTParams(y.Methods[k].Sig.Results[j].T, names)
						}
					}
				})
				// drop the last type parameter when unused, simplify constraints, benign names
				last := len(it.TParams) - 1
				if !usesTParam(it, it.TParams[last].Name) && !(last == 1 && it.TParams[0].Constraint == "fwd-slice") {
					edit(func(x *Module) { y := &x.Pkgs[pi].Ifaces[ii]; y.TParams = y.TParams[:last] })
				}
				for k, tp := range it.TParams {
					k := k
					dependedOn := k+1 < len(it.TParams) && FindConstraint(it.TParams[k+1].Constraint).Dep
					if tp.Constraint != "any" && !dependedOn {
						edit(func(x *Module) { x.Pkgs[pi].Ifaces[ii].TParams[k].Constraint = "any" })
					}
				}
			}
			for k := range it.Embeds {
				k := k
				edit(func(x *Module) { y := &x.Pkgs[pi].Ifaces[ii]; y.Embeds = append(y.Embeds[:k:k], y.Embeds[k+1:]...) })
			}
			if len(it.XEmbeds) > 0 {
				edit(func(x *Module) { x.Pkgs[pi].Ifaces[ii].XEmbeds = nil })
			}
			if len(it.Methods)+len(it.Embeds) > 1 || len(it.Methods) > 0 {
				for k := range it.Methods {
					k := k
					edit(func(x *Module) { y := &x.Pkgs[pi].Ifaces[ii]; y.Methods = append(y.Methods[:k:k], y.Methods[k+1:]...) })
				}
			}
			for k := range it.Methods {
				k := k
				for _, s := range reduceSig(it.Methods[k].Sig) {
					s := s
					edit(func(x *Module) { x.Pkgs[pi].Ifaces[ii].Methods[k].Sig = s })
				}
			}
		}
	}
	return out
}
