package progen

import (
	"fmt"
	"path"
	"sort"
	"strings"
)

// GoModText renders go.mod with the drawn spelling of the module line. Every variant is
// valid go.mod syntax.
func (m *Module) GoModText() string {
	rest := "\ngo 1.23\n\nrequire github.com/stretchr/testify v1.10.0\n"
	switch m.GoMod {
	case "tab":
		return "module\t" + m.ModPath + "\n" + rest
	case "spaces":
		return "module    " + m.ModPath + "\n" + rest
	case "quoted":
		return "module \"" + m.ModPath + "\"\n" + rest
	case "comment":
		return "module " + m.ModPath + " // the module path\n" + rest
	case "block":
		return "module (\n\t" + m.ModPath + "\n)\n" + rest
	case "crlf":
		return strings.ReplaceAll("module "+m.ModPath+"\n"+rest, "\n", "\r\n")
	case "leading-comment":
		return "// module example.org/decoy is not the module line\n\nmodule " + m.ModPath + "\n" + rest
	case "go-first":
		return "go 1.23\n\nmodule " + m.ModPath + "\n\nrequire github.com/stretchr/testify v1.10.0\n"
	case "trailing-space":
		return "module " + m.ModPath + " \n" + rest
	}
	return "module " + m.ModPath + "\n" + rest
}

// srcQualifiers assigns the qualifier each package key gets inside the source files of p.
func (m *Module) srcQualifiers(p *Pkg) map[string]string {
	keys := map[string]bool{}
	for i := range p.Ifaces {
		for _, k := range p.Ifaces[i].PkgKeys() {
			keys[k] = true
		}
	}
	var ks []string
	for k := range keys {
		ks = append(ks, k)
	}
	sort.Strings(ks)
	used := map[string]bool{}
	out := map[string]string{}
	for _, k := range ks {
		q := LookupPkg(k).Name
		if a := p.SrcAlias[k]; a != "" && k != "std:unsafe" {
			q = a
		}
		base := q
		for i := 2; used[q]; i++ {
			q = fmt.Sprintf("%s%d", base, i)
		}
		used[q] = true
		out[k] = q
	}
	return out
}

func (m *Module) ifaceDecl(p *Pkg, it *Iface, q func(string) string) string {
	var sb strings.Builder
	sb.WriteString("type " + it.Name)
	if len(it.TParams) > 0 {
		var names []string
		parts := make([]string, len(it.TParams))
		for i, tp := range it.TParams {
			if tp.Constraint == "fwd-slice" && i+1 < len(it.TParams) {
				parts[i] = tp.Name + " ~[]" + it.TParams[i+1].Name
			} else {
				parts[i] = tp.Name + " " + FindConstraint(tp.Constraint).Text(q, names)
			}
			names = append(names, tp.Name)
		}
		sb.WriteString("[" + strings.Join(parts, ", ") + "]")
	}
	if it.InstOf != nil {
		if it.Alias {
			sb.WriteString(" =")
		}
		sb.WriteString(" " + Render(*it.InstOf, q) + "\n")
		return sb.String()
	}
	sb.WriteString(" interface {\n")
	for _, e := range it.Embeds {
		sb.WriteString("\t" + Render(e, q) + "\n")
	}
	for _, x := range it.XEmbeds {
		sb.WriteString("\t" + XQual(x.Pkg) + "." + x.Iface + "\n")
	}
	for _, mt := range it.Methods {
		sb.WriteString("\t" + mt.Name + RenderSig(mt.Sig, q) + "\n")
	}
	sb.WriteString("}\n")
	return sb.String()
}

// SourceFileName returns the path (relative to the module root) of source file idx of p.
func (p *Pkg) SourceFileName(idx int) string {
	base := p.Name
	if idx > 0 {
		base = fmt.Sprintf("%s_%d", p.Name, idx)
	}
	return path.Join(p.Dir, base+".go")
}

// Files renders the whole module: go.mod, the helper packages that are mentioned and the
// source packages. go.sum is added by the caller.
func (m *Module) Files() map[string]string {
	files := map[string]string{"go.mod": m.GoModText()}
	usedHelpers := map[string]bool{}
	for pi := range m.Pkgs {
		p := &m.Pkgs[pi]
		quals := m.srcQualifiers(p)
		q := func(k string) string {
			if k == "" {
				return ""
			}
			return quals[k] + "."
		}
		nf := p.Files
		if nf < 1 {
			nf = 1
		}
		for f := 0; f < nf; f++ {
			var body strings.Builder
			keys := map[string]bool{}
			xsrc := map[int]bool{}
			for ii := range p.Ifaces {
				it := &p.Ifaces[ii]
				fi := it.File
				if fi >= nf {
					fi = 0
				}
				if fi != f {
					continue
				}
				for _, k := range it.PkgKeys() {
					keys[k] = true
				}
				for _, x := range it.XEmbeds {
					xsrc[x.Pkg] = true
				}
				body.WriteString("\n" + m.ifaceDecl(p, it, q))
			}
			var sb strings.Builder
			sb.WriteString("package " + p.Name + "\n\n")
			var ks []string
			for k := range keys {
				ks = append(ks, k)
			}
			sort.Strings(ks)
			if len(ks) > 0 || len(xsrc) > 0 {
				sb.WriteString("import (\n")
				for xi := range m.Pkgs {
					if xsrc[xi] {
						sb.WriteString("\t" + XQual(xi) + " \"" + m.PkgPath(&m.Pkgs[xi]) + "\"\n")
					}
				}
				for _, k := range ks {
					info := LookupPkg(k)
					if !info.Std {
						usedHelpers[k] = true
					}
					if quals[k] != info.Name {
						sb.WriteString("\t" + quals[k] + " ")
					} else {
						sb.WriteString("\t")
					}
					sb.WriteString("\"" + m.ImportPath(k) + "\"\n")
				}
				sb.WriteString(")\n")
			}
			if f == 0 {
				sb.WriteString(localSource)
				if m.Unexp {
					sb.WriteString(localUnexpSource)
				}
			}
			sb.WriteString(body.String())
			if f == nf-1 && len(p.FuncLocal) > 0 {
				sb.WriteString("\nfunc funcLocalTypes() {\n")
				for i, n := range p.FuncLocal {
					fmt.Fprintf(&sb, "\ttype %s interface{ FuncLocalOnly%d() }\n\tvar _ %s\n", n, i, n)
				}
				sb.WriteString("\t_ = func() {\n\t\ttype InLit interface{ X() }\n\t\tvar _ InLit\n\t}\n}\n\nvar _ = funcLocalTypes\n")
				// the same again inside a package-level function literal (no enclosing FuncDecl)
				sb.WriteString("\nvar funcLitLocalTypes = func() {\n")
				for i, n := range p.FuncLocal {
					fmt.Fprintf(&sb, "\ttype %s interface{ FuncLitLocalOnly%d() }\n\tvar _ %s\n", n, i, n)
				}
				sb.WriteString("}\n\nvar _ = funcLitLocalTypes\n")
			}
			files[p.SourceFileName(f)] = sb.String()
		}
	}
	for _, h := range Helpers {
		if usedHelpers[h.Key] {
			files[path.Join(h.Rel, "types.go")] = helperSource(h.Name)
		}
	}
	return files
}

// Features lists class labels describing what the module exercises (for the evidence
// histogram and the non-triviality rule).
func (m *Module) Features() []string {
	set := map[string]bool{"gomod=" + m.GoMod: true}
	names := map[string]string{}
	for cl, pool := range IdentClasses {
		for _, n := range pool {
			names[n] = cl
		}
	}
	var visitSig func(s Sig)
	visitSig = func(s Sig) {
		if s.Variadic {
			set["variadic"] = true
		}
		if len(s.Results) >= 2 {
			set["multi-result"] = true
		}
		unnamed := len(s.Params) > 0
		for _, v := range append(append([]Var{}, s.Params...), s.Results...) {
			if cl, ok := names[v.Name]; ok {
				set["ident:"+cl] = true
			}
			if v.Name == "_" {
				set["ident:blank"] = true
			}
		}
		for _, v := range s.Params {
			if v.Name != "" {
				unnamed = false
			}
		}
		if unnamed {
			set["ident:unnamed"] = true
		}
		for _, v := range s.Results {
			if v.Name != "" {
				set["named-results"] = true
			}
		}
	}
	for pi := range m.Pkgs {
		p := &m.Pkgs[pi]
		if len(p.SrcAlias) > 0 {
			set["src-import-alias"] = true
		}
		if len(p.FuncLocal) > 0 {
			set["func-local-types"] = true
		}
		for ii := range p.Ifaces {
			it := &p.Ifaces[ii]
			for _, k := range it.PkgKeys() {
				if LookupPkg(k).Std {
					set["pkg:stdlib"] = true
				} else {
					set["pkg:foreign"] = true
				}
			}
			if len(it.TParams) > 0 {
				set["generic"] = true
				for _, tp := range it.TParams {
					set["constraint:"+tp.Constraint] = true
					if tp.Name[0] >= 'a' && tp.Name[0] <= 'z' {
						set["tparam:lowercase"] = true
					}
				}
			}
			if it.InstOf != nil {
				set["named-instantiation"] = true
			}
			if it.Alias {
				set["alias-of-instantiation"] = true
			}
			if len(it.Embeds) > 0 {
				set["embedding"] = true
			}
			if len(it.XEmbeds) > 0 {
				set["embedding:interface-of-another-mocked-package"] = true
			}
			if !it.Exported() {
				set["unexported-iface"] = true
			}
			for _, mt := range it.Methods {
				visitSig(mt.Sig)
			}
			it.WalkTypes(func(t Ty) {
				set["type:"+t.K] = true
				if t.K == "named" && len(t.Args) > 0 {
					set["type:inst"] = true
				}
				if t.K == "named" && t.Pkg == "std:unsafe" {
					set["type:unsafe.Pointer"] = true
				}
				if t.K == "func" && t.Fn != nil {
					visitSig(*t.Fn)
				}
				if t.K == "chan" && t.Dir != "" {
					set["type:chan-dir"] = true
				}
				if t.K == "named" && (t.Name == "A" || t.Name == "LAlias") {
					set["type:alias"] = true
				}
			})
		}
		byName := map[string]map[string]bool{}
		for ii := range p.Ifaces {
			for _, k := range p.Ifaces[ii].PkgKeys() {
				n := LookupPkg(k).Name
				if byName[n] == nil {
					byName[n] = map[string]bool{}
				}
				byName[n][k] = true
			}
		}
		for _, ks := range byName {
			if len(ks) > 1 {
				set["same-named-imports"] = true
			}
		}
		if p.Name != path.Base(p.Dir) && p.Dir != "" {
			set["pkgname!=dir"] = true
		}
	}
	var out []string
	for k := range set {
		out = append(out, k)
	}
	sort.Strings(out)
	return out
}

// HelperFile returns the path and content of the helper package with the given key.
func HelperFile(key string) (string, string) {
	h := LookupPkg(key)
	return path.Join(h.Rel, "types.go"), helperSource(h.Name)
}
