// Package progen generates type-correct Go modules (as JSON-serialisable specs) whose
// interfaces exercise every type constructor and identifier class that mockery's
// generator has to cope with. A spec is plain data drawn through rapid, so failing
// cases shrink structurally and can be replayed from case.json.
package progen

import (
	"fmt"
	"sort"
	"strings"
)

// ---------------------------------------------------------------------------------------
// type expressions

type Ty struct {
	K      string  `json:"k"`           // basic named ptr slice array map chan func struct iface tparam
	Name   string  `json:"n,omitempty"` // basic/tparam: the name; named: type name
	Pkg    string  `json:"p,omitempty"` // named: package key ("" = the source package itself)
	Args   []Ty    `json:"a,omitempty"` // named: type arguments
	Elem   *Ty     `json:"e,omitempty"`
	Key    *Ty     `json:"key,omitempty"`
	Len    int     `json:"len,omitempty"`
	Dir    string  `json:"dir,omitempty"` // chan: "", "send" (chan<-), "recv" (<-chan)
	Fn     *Sig    `json:"fn,omitempty"`
	Fields []Field `json:"fields,omitempty"`
	Meths  []Meth  `json:"meths,omitempty"`
	Embeds []Ty    `json:"embeds,omitempty"`
}

type Var struct {
	Name string `json:"name"` // "" = unnamed
	T    Ty     `json:"t"`
}

type Sig struct {
	Params   []Var `json:"params,omitempty"`
	Variadic bool  `json:"variadic,omitempty"` // last param is ...T (its T is the element type)
	Results  []Var `json:"results,omitempty"`
}

type Meth struct {
	Name string `json:"name"`
	Sig  Sig    `json:"sig"`
}

type Field struct {
	Name     string `json:"name"` // "" for embedded
	T        Ty     `json:"t"`
	Tag      string `json:"tag,omitempty"`
	Embedded bool   `json:"embedded,omitempty"`
}

type TParam struct {
	Name       string `json:"name"`
	Constraint string `json:"constraint"` // key into Constraints
}

type Iface struct {
	Name    string   `json:"name"`
	TParams []TParam `json:"tparams,omitempty"`
	Embeds  []Ty     `json:"embeds,omitempty"`
	Methods []Meth   `json:"methods,omitempty"`
	// InstOf, when set, declares `type Name = / Name InstOf` (a named instantiation of a
	// generic interface) instead of an interface literal.
	InstOf *Ty `json:"inst_of,omitempty"`
	// Alias (with InstOf): declared as an alias, `type Name = InstOf`. An alias declares no new
	// type: mocking it is don't-care, mocking its target twice is not.
	Alias bool `json:"alias,omitempty"`
	File   int `json:"file,omitempty"` // index of the source file of the package it is declared in
	// XEmbeds embeds interfaces declared in OTHER source packages of the module (which are
	// mocked in the same run): the embedded methods are then the same type-checker objects in
	// two output files that must qualify their types differently.
	XEmbeds []XRef `json:"xembeds,omitempty"`
}

// XRef names an interface of another source package of the module.
type XRef struct {
	Pkg   int    `json:"pkg"` // index into Module.Pkgs (always smaller than the embedding package's index)
	Iface string `json:"iface"`
}

// XQual is the import name the source files use for source package i.
func XQual(i int) string { return fmt.Sprintf("xsrc%d", i) }

// FixXEmbeds drops cross-package embeddings whose target no longer exists (after a reduction).
func (m *Module) FixXEmbeds() {
	for pi := range m.Pkgs {
		for ii := range m.Pkgs[pi].Ifaces {
			it := &m.Pkgs[pi].Ifaces[ii]
			var keep []XRef
			for _, x := range it.XEmbeds {
				ok := false
				if x.Pkg >= 0 && x.Pkg < pi {
					for _, t := range m.Pkgs[x.Pkg].Ifaces {
						if t.Name == x.Iface && len(t.TParams) == 0 && t.InstOf == nil {
							ok = true
							for _, tm := range t.Methods {
								for _, om := range it.Methods {
									if tm.Name == om.Name {
										ok = false
									}
								}
							}
						}
					}
				}
				if ok {
					keep = append(keep, x)
				}
			}
			it.XEmbeds = keep
		}
	}
}

type Pkg struct {
	Dir    string  `json:"dir"`  // relative to the module root, "" = root
	Name   string  `json:"name"` // package clause
	Ifaces []Iface `json:"ifaces"`
	// SrcAlias maps a package key to the alias the *source* file uses for it ("" = default name).
	SrcAlias map[string]string `json:"src_alias,omitempty"`
	Files    int               `json:"files,omitempty"` // number of source files (1 or 2)
	// FuncLocal lists names of interface types declared inside a function body of the
	// package (they may coincide with package-level interface names; never mockable).
	FuncLocal []string `json:"func_local,omitempty"`
}

type Module struct {
	// Unexp: the source packages also declare unexported local types/interfaces (only sound
	// when the mocks are rendered into the source package itself).
	Unexp   bool   `json:"unexp,omitempty"`
	ModPath string `json:"modpath"`
	GoMod   string `json:"gomod"` // spelling variant of the module line
	Pkgs    []Pkg  `json:"pkgs"`
}

// ---------------------------------------------------------------------------------------
// package table

type PkgInfo struct {
	Key  string
	Rel  string // helper: directory relative to module root; std: import path
	Name string
	Std  bool
}

// Helper packages all declare the same set of types (see helperSource).
var Helpers = []PkgInfo{
	{Key: "alpha", Rel: "helpers/alpha", Name: "alpha"},
	{Key: "alphb", Rel: "helpers/other/alpha", Name: "alpha"}, // same name, different path
	{Key: "alphc", Rel: "helpers/third/alpha", Name: "alpha"}, // a third one: the second alias must be reserved too
	{Key: "httpx", Rel: "helpers/weird", Name: "http"},        // name != dir, same name as net/http
	{Key: "syncp", Rel: "helpers/sync", Name: "sync"},         // same name as a package the matryer template imports
	{Key: "fmtp", Rel: "helpers/fmt", Name: "fmt"},
	{Key: "mockp", Rel: "helpers/mock", Name: "mock"}, // same name as the testify import
	{Key: "ctxp", Rel: "helpers/context", Name: "context"},
}

var StdPkgs = []PkgInfo{
	{Key: "std:io", Rel: "io", Name: "io", Std: true},
	{Key: "std:context", Rel: "context", Name: "context", Std: true},
	{Key: "std:net/http", Rel: "net/http", Name: "http", Std: true},
	{Key: "std:time", Rel: "time", Name: "time", Std: true},
	{Key: "std:os", Rel: "os", Name: "os", Std: true},
	{Key: "std:fmt", Rel: "fmt", Name: "fmt", Std: true},
	{Key: "std:text/template", Rel: "text/template", Name: "template", Std: true},
	{Key: "std:html/template", Rel: "html/template", Name: "template", Std: true},
	{Key: "std:unsafe", Rel: "unsafe", Name: "unsafe", Std: true},
}

var pkgByKey = func() map[string]PkgInfo {
	m := map[string]PkgInfo{}
	for _, p := range Helpers {
		m[p.Key] = p
	}
	for _, p := range StdPkgs {
		m[p.Key] = p
	}
	return m
}()

func LookupPkg(key string) PkgInfo { return pkgByKey[key] }

// ImportPath of a package key inside module m.
func (m *Module) ImportPath(key string) string {
	p := pkgByKey[key]
	if p.Std {
		return p.Rel
	}
	return m.ModPath + "/" + p.Rel
}

func (m *Module) PkgPath(p *Pkg) string {
	if p.Dir == "" {
		return m.ModPath
	}
	return m.ModPath + "/" + p.Dir
}

// named type descriptors ---------------------------------------------------------------

type TypeInfo struct {
	Pkg        string // key, "" = local (declared in every source package)
	Name       string
	Kind       string // struct iface func int string map
	Comparable bool
	Arity      int      // number of type parameters
	ArgCmp     []bool   // per type parameter: must be comparable
	Methods    []string // for interfaces: method names (embedding bookkeeping)
	Exported   bool
}

var helperTypes = []TypeInfo{
	{Name: "T", Kind: "struct", Comparable: true},
	{Name: "I", Kind: "iface", Comparable: true, Methods: []string{"M"}},
	{Name: "Fn", Kind: "func"},
	{Name: "G", Kind: "struct", Arity: 1, ArgCmp: []bool{false}},
	{Name: "GI", Kind: "iface", Comparable: true, Arity: 1, ArgCmp: []bool{false}, Methods: []string{"Get", "Put"}},
	{Name: "A", Kind: "struct", Comparable: true}, // alias of T
	{Name: "MyInt", Kind: "int", Comparable: true},
	{Name: "Cmp", Kind: "string", Comparable: true},
	{Name: "E", Kind: "int", Comparable: true},
}

var stdTypes = []TypeInfo{
	{Pkg: "std:io", Name: "Reader", Kind: "iface", Comparable: true, Methods: []string{"Read"}},
	{Pkg: "std:io", Name: "Writer", Kind: "iface", Comparable: true, Methods: []string{"Write"}},
	{Pkg: "std:context", Name: "Context", Kind: "iface", Comparable: true, Methods: []string{"Deadline", "Done", "Err", "Value"}},
	{Pkg: "std:net/http", Name: "Handler", Kind: "iface", Comparable: true, Methods: []string{"ServeHTTP"}},
	{Pkg: "std:net/http", Name: "Request", Kind: "struct"},
	{Pkg: "std:net/http", Name: "ResponseWriter", Kind: "iface", Comparable: true, Methods: []string{"Header", "Write", "WriteHeader"}},
	{Pkg: "std:time", Name: "Duration", Kind: "int", Comparable: true},
	{Pkg: "std:time", Name: "Time", Kind: "struct", Comparable: true},
	{Pkg: "std:os", Name: "FileMode", Kind: "int", Comparable: true},
	{Pkg: "std:os", Name: "File", Kind: "struct"},
	{Pkg: "std:fmt", Name: "Stringer", Kind: "iface", Comparable: true, Methods: []string{"String"}},
	{Pkg: "std:text/template", Name: "Template", Kind: "struct"},
	{Pkg: "std:text/template", Name: "FuncMap", Kind: "map"},
	{Pkg: "std:html/template", Name: "Template", Kind: "struct"},
	{Pkg: "std:html/template", Name: "FuncMap", Kind: "map"},
	{Pkg: "std:unsafe", Name: "Pointer", Kind: "ptr", Comparable: true},
}

var localTypes = []TypeInfo{
	{Name: "Local", Kind: "struct", Comparable: true, Exported: true},
	{Name: "local", Kind: "struct", Comparable: true},
	{Name: "LIface", Kind: "iface", Comparable: true, Methods: []string{"LM"}, Exported: true},
	{Name: "lface", Kind: "iface", Comparable: true, Methods: []string{"lm"}},
	{Name: "LGen", Kind: "struct", Arity: 1, ArgCmp: []bool{false}, Exported: true},
	{Name: "LGI", Kind: "iface", Comparable: true, Arity: 2, ArgCmp: []bool{false, true}, Methods: []string{"Fetch"}, Exported: true},
	{Name: "LAlias", Kind: "struct", Comparable: true, Exported: true},
	{Name: "LFn", Kind: "func", Exported: true},
	{Name: "LStr", Kind: "string", Comparable: true, Exported: true},
}

// AllTypes lists every named type the generator can refer to.
var AllTypes = func() []TypeInfo {
	var out []TypeInfo
	for _, h := range Helpers {
		for _, t := range helperTypes {
			t.Pkg = h.Key
			t.Exported = true
			out = append(out, t)
		}
	}
	for _, t := range stdTypes {
		t.Exported = true
		out = append(out, t)
	}
	out = append(out, localTypes...)
	return out
}()

func FindType(pkg, name string) (TypeInfo, bool) {
	for _, t := range AllTypes {
		if t.Pkg == pkg && t.Name == name {
			return t, true
		}
	}
	return TypeInfo{}, false
}

const localUnexpSource = `
type local struct{ s string }

type lface interface{ lm() }

var _ = local{}.s
var _ lface
`

const localSource = `
type Local struct{ N int }

type LIface interface{ LM(int) string }

// LImpl implements LIface.
type LImpl struct{ S string }

func (l LImpl) LM(int) string { return l.S }

type LGen[X any] struct{ V X }

type LGI[X any, Y comparable] interface{ Fetch(Y) X }

type LAlias = Local

type LFn func(a int, b ...string) error

type LStr string

func (LStr) String() string { return "" }
`

func helperSource(name string) string {
	return "package " + name + `

type T struct {
	A int
	B string
}

func (T) String() string { return "" }

type I interface{ M() int }

// ImplI implements I (used by the reflection driver to produce non-nil values).
type ImplI struct{ N int }

func (i ImplI) M() int { return i.N }

type Fn func(int) string

type G[X any] struct{ V X }

type GI[X any] interface {
	Get() X
	Put(X)
}

type A = T

type MyInt int

func (MyInt) String() string { return "" }

type Cmp string

type E int

type Num interface{ ~int | ~float64 }
`
}

// ---------------------------------------------------------------------------------------
// constraints for type parameters

type ConstraintInfo struct {
	Key        string
	Text       func(q func(string) string, others []string) string // rendered constraint
	Pkgs       []string                                             // package keys it mentions
	Comparable bool                                                 // type arguments are comparable
	// Args lists admissible type arguments; `dep` constraints depend on the previous parameter.
	Args []Ty
	Dep  bool // mentions the previous type parameter (needs index >= 1)
}

func lit(s string) func(func(string) string, []string) string {
	return func(func(string) string, []string) string { return s }
}

var Constraints = []ConstraintInfo{
	{Key: "any", Text: lit("any"), Args: []Ty{B("int"), B("string"), {K: "slice", Elem: ptr(B("string"))}, N("alpha", "T"), {K: "ptr", Elem: ptr(N("", "Local"))}, B("error")}},
	{Key: "comparable", Text: lit("comparable"), Comparable: true, Args: []Ty{B("int"), B("string"), {K: "array", Len: 2, Elem: ptr(B("int"))}, N("alpha", "Cmp"), N("", "Local")}},
	{Key: "union", Text: lit("~int | ~string"), Comparable: true, Args: []Ty{B("int"), B("string"), N("alpha", "MyInt"), N("", "LStr")}},
	{Key: "named-union", Text: func(q func(string) string, _ []string) string { return q("alpha") + "Num" }, Pkgs: []string{"alpha"}, Comparable: true, Args: []Ty{B("int"), B("float64"), N("alpha", "MyInt")}},
	{Key: "stringer", Text: func(q func(string) string, _ []string) string { return q("std:fmt") + "Stringer" }, Pkgs: []string{"std:fmt"}, Args: []Ty{N("alpha", "T"), N("alpha", "MyInt"), N("", "LStr")}},
	{Key: "method+comparable", Text: lit("interface {\n\tcomparable\n\tString() string\n}"), Comparable: true, Args: []Ty{N("alpha", "T"), N("alpha", "MyInt"), N("", "LStr")}},
	{Key: "union+method", Text: lit("interface {\n\t~int | ~string\n\tString() string\n}"), Comparable: true, Args: []Ty{N("alpha", "MyInt"), N("", "LStr")}},
	{Key: "iface-literal", Text: lit("interface{ M() int }"), Args: []Ty{N("alpha", "I"), N("alphb", "I")}},
	{Key: "dep-slice", Dep: true, Text: func(_ func(string) string, o []string) string { return "~[]" + o[len(o)-1] }},
	// fwd-slice is rendered by ifaceDecl (it needs the NEXT parameter's name): S ~[]E with E declared after S
	{Key: "fwd-slice", Text: lit("any")},
	{Key: "dep-generic", Dep: true, Pkgs: []string{"alpha"}, Text: func(q func(string) string, o []string) string {
		return q("alpha") + "GI[" + o[len(o)-1] + "]"
	}},
}

func FindConstraint(key string) ConstraintInfo {
	for _, c := range Constraints {
		if c.Key == key {
			return c
		}
	}
	return Constraints[0]
}

// helpers to build Ty values
func B(name string) Ty      { return Ty{K: "basic", Name: name} }
func N(pkg, name string) Ty { return Ty{K: "named", Pkg: pkg, Name: name} }
func ptr(t Ty) *Ty          { return &t }

// ---------------------------------------------------------------------------------------
// rendering

// Render writes t as Go source; q maps a package key to the qualifier prefix ("alpha." or
// "" for the package the text is placed in).
func Render(t Ty, q func(string) string) string {
	switch t.K {
	case "basic", "tparam":
		return t.Name
	case "named":
		s := q(t.Pkg) + t.Name
		if len(t.Args) > 0 {
			as := make([]string, len(t.Args))
			for i, a := range t.Args {
				as[i] = Render(a, q)
			}
			s += "[" + strings.Join(as, ", ") + "]"
		}
		return s
	case "ptr":
		return "*" + Render(*t.Elem, q)
	case "slice":
		return "[]" + Render(*t.Elem, q)
	case "array":
		return fmt.Sprintf("[%d]%s", t.Len, Render(*t.Elem, q))
	case "map":
		return "map[" + Render(*t.Key, q) + "]" + Render(*t.Elem, q)
	case "chan":
		e := Render(*t.Elem, q)
		switch t.Dir {
		case "send":
			return "chan<- " + e
		case "recv":
			return "<-chan " + e
		}
		if t.Elem.K == "chan" && t.Elem.Dir == "recv" {
			return "chan (" + e + ")"
		}
		return "chan " + e
	case "func":
		return "func" + RenderSig(*t.Fn, q)
	case "struct":
		if len(t.Fields) == 0 {
			return "struct{}"
		}
		var sb strings.Builder
		sb.WriteString("struct {\n")
		for _, f := range t.Fields {
			if f.Embedded {
				sb.WriteString("\t" + Render(f.T, q))
			} else {
				sb.WriteString("\t" + f.Name + " " + Render(f.T, q))
			}
			if f.Tag != "" {
				sb.WriteString(" `" + f.Tag + "`")
			}
			sb.WriteString("\n")
		}
		sb.WriteString("}")
		return sb.String()
	case "iface":
		if len(t.Meths) == 0 && len(t.Embeds) == 0 {
			return "interface{}"
		}
		var sb strings.Builder
		sb.WriteString("interface {\n")
		for _, e := range t.Embeds {
			sb.WriteString("\t" + Render(e, q) + "\n")
		}
		for _, m := range t.Meths {
			sb.WriteString("\t" + m.Name + RenderSig(m.Sig, q) + "\n")
		}
		sb.WriteString("}")
		return sb.String()
	}
	panic("progen: unknown type kind " + t.K)
}

func renderVars(vs []Var, variadic bool, q func(string) string) string {
	parts := make([]string, len(vs))
	for i, v := range vs {
		ts := Render(v.T, q)
		if variadic && i == len(vs)-1 {
			ts = "..." + ts
		}
		if v.Name != "" {
			parts[i] = v.Name + " " + ts
		} else {
			parts[i] = ts
		}
	}
	return strings.Join(parts, ", ")
}

func RenderSig(s Sig, q func(string) string) string {
	out := "(" + renderVars(s.Params, s.Variadic, q) + ")"
	switch {
	case len(s.Results) == 0:
	case len(s.Results) == 1 && s.Results[0].Name == "":
		out += " " + Render(s.Results[0].T, q)
	default:
		out += " (" + renderVars(s.Results, false, q) + ")"
	}
	return out
}

// Walk visits every type node under t.
func Walk(t Ty, f func(Ty)) {
	f(t)
	for _, a := range t.Args {
		Walk(a, f)
	}
	if t.Elem != nil {
		Walk(*t.Elem, f)
	}
	if t.Key != nil {
		Walk(*t.Key, f)
	}
	if t.Fn != nil {
		WalkSig(*t.Fn, f)
	}
	for _, fl := range t.Fields {
		Walk(fl.T, f)
	}
	for _, m := range t.Meths {
		WalkSig(m.Sig, f)
	}
	for _, e := range t.Embeds {
		Walk(e, f)
	}
}

func WalkSig(s Sig, f func(Ty)) {
	for _, v := range s.Params {
		Walk(v.T, f)
	}
	for _, v := range s.Results {
		Walk(v.T, f)
	}
}

func (i *Iface) WalkTypes(f func(Ty)) {
	for _, e := range i.Embeds {
		Walk(e, f)
	}
	for _, m := range i.Methods {
		WalkSig(m.Sig, f)
	}
	if i.InstOf != nil {
		Walk(*i.InstOf, f)
	}
}

// PkgKeys returns the package keys an interface mentions (constraints included), sorted.
func (i *Iface) PkgKeys() []string {
	set := map[string]bool{}
	i.WalkTypes(func(t Ty) {
		if t.K == "named" && t.Pkg != "" {
			set[t.Pkg] = true
		}
	})
	for _, tp := range i.TParams {
		for _, k := range FindConstraint(tp.Constraint).Pkgs {
			set[k] = true
		}
	}
	var out []string
	for k := range set {
		out = append(out, k)
	}
	sort.Strings(out)
	return out
}

// UsesUnexported reports whether the interface (or its own name / method names) needs
// identifiers that cannot be named from another package.
func (i *Iface) UsesUnexported() bool {
	un := false
	i.WalkTypes(func(t Ty) {
		if t.K == "named" && t.Pkg == "" {
			if ti, ok := FindType("", t.Name); ok && !ti.Exported {
				un = true
			}
		}
		if t.K == "iface" {
			for _, m := range t.Meths {
				if !isExportedName(m.Name) {
					un = true
				}
			}
		}
		if t.K == "struct" {
			for _, f := range t.Fields {
				if !f.Embedded && !isExportedName(f.Name) {
					un = true
				}
			}
		}
	})
	for _, m := range i.Methods {
		if !isExportedName(m.Name) {
			un = true
		}
	}
	return un
}

func isExportedName(s string) bool {
	return s != "" && s[0] >= 'A' && s[0] <= 'Z'
}

func (i *Iface) Exported() bool { return isExportedName(i.Name) }

// TypeArgs returns up to n admissible type-argument tuples for a generic interface ([][]Ty{nil}
// for a non-generic one).
func TypeArgs(it *Iface, n int) [][]Ty {
	if len(it.TParams) == 0 {
		return [][]Ty{nil}
	}
	var out [][]Ty
	for variant := 0; variant < n; variant++ {
		tuple := make([]Ty, len(it.TParams))
		done := make([]bool, len(it.TParams))
		// independent parameters first, then the ones that refer to a neighbour
		for pass := 0; pass < 3; pass++ {
			for i, tp := range it.TParams {
				if done[i] {
					continue
				}
				c := FindConstraint(tp.Constraint)
				switch {
				case c.Key == "dep-slice" && i > 0 && done[i-1]:
					prev := tuple[i-1]
					tuple[i], done[i] = Ty{K: "slice", Elem: &prev}, true
				case c.Key == "dep-generic" && i > 0 && done[i-1]:
					prev := tuple[i-1]
					tuple[i], done[i] = Ty{K: "named", Pkg: "alpha", Name: "GI", Args: []Ty{prev}}, true
				case c.Key == "fwd-slice" && i+1 < len(it.TParams) && done[i+1]:
					next := tuple[i+1]
					tuple[i], done[i] = Ty{K: "slice", Elem: &next}, true
				case c.Key == "fwd-slice" && i+1 >= len(it.TParams):
					tuple[i], done[i] = B("int"), true // rendered as `any` when there is no next parameter
				case c.Key == "dep-slice" || c.Key == "dep-generic" || c.Key == "fwd-slice":
					// wait for the neighbour
				default:
					tuple[i], done[i] = c.Args[(variant+i)%len(c.Args)], true
				}
			}
		}
		for i := range done {
			if !done[i] {
				tuple[i] = B("int")
			}
		}
		out = append(out, tuple)
	}
	return out
}
