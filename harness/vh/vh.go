// Package vh is the shared harness library for the property checks under
// /verif/harness/checks. A check is a Go test package that defines a
// JSON-serialisable Case, a rapid generator for it and a pure function from a
// Case to a verdict; vh.Main wires those to rapid (random campaign), to the replay
// tier (saved cases, run without rapid) and to the evidence shard file that the
// vcheck driver merges.
package vh

import (
	"bytes"
	"crypto/sha256"
	"encoding/hex"
	"encoding/json"
	"fmt"
	"os"
	"os/exec"
	"path/filepath"
	"regexp"
	"sort"
	"strconv"
	"strings"
	"sync"
	"syscall"
	"testing"
	"time"

	"pgregory.net/rapid"
)

// ---------------------------------------------------------------------------
// environment handed down by the vcheck driver

func env(k, def string) string {
	if v := os.Getenv(k); v != "" {
		return v
	}
	return def
}

func VerifDir() string { return env("VCHECK_VERIF", "/verif") }
func RepoDir() string  { return env("VERIF_REPO", "/repo") }
func Tier() string     { return env("VERIF_TIER", "quick") }
func Thorough() bool   { return Tier() == "thorough" }
func SUT() string      { return env("VCHECK_SUT", filepath.Join(VerifDir(), ".build", "mockery")) }
func ToolsBin() string { return env("VCHECK_TOOLS", filepath.Join(VerifDir(), ".build", "mockery-tools")) }
func PropID() string   { return env("VCHECK_ID", "C00") }
func Shard() int       { n, _ := strconv.Atoi(env("VCHECK_SHARD", "0")); return n }

// Pick returns q in the quick tier and th in the thorough tier.
func Pick[T any](q, th T) T {
	if Thorough() {
		return th
	}
	return q
}

// ---------------------------------------------------------------------------
// known findings (read-only; never written at run time)

var (
	knownOnce sync.Once
	knownKeys map[string]string // key -> description
)

func loadKnown() {
	knownKeys = map[string]string{}
	b, err := os.ReadFile(filepath.Join(VerifDir(), "KNOWN_FINDINGS.txt"))
	if err != nil {
		return
	}
	re := regexp.MustCompile(`^finding:\s+property=(\S+)\s+key=(\S+)\s+replay=(\S+)\s+::\s+(.*)$`)
	for _, ln := range strings.Split(string(b), "\n") {
		m := re.FindStringSubmatch(strings.TrimSpace(ln))
		if m == nil {
			continue
		}
		knownKeys[m[1]+"|"+m[2]] = m[4]
	}
}

// Known reports whether key is listed as a recorded (unrepaired) finding of the
// current property. Generators use it to steer away from the trigger, counting
// the steered draws with Excluded.
func Known(key string) bool {
	knownOnce.Do(loadKnown)
	_, ok := knownKeys[PropID()+"|"+key]
	return ok
}

// ---------------------------------------------------------------------------
// scratch directories

var (
	scratchRoot string
	scratchOnce sync.Once
	scratchSeq  int
	scratchMu   sync.Mutex
)

func ScratchRoot() string {
	scratchOnce.Do(func() {
		scratchRoot = env("VCHECK_SCRATCH", filepath.Join(os.TempDir(), fmt.Sprintf("vscratch-%s-%d", PropID(), os.Getpid())))
		_ = os.MkdirAll(scratchRoot, 0o755)
	})
	return scratchRoot
}

// NewScratch returns a fresh empty directory. The caller removes it with
// os.RemoveAll when the case has been judged.
func NewScratch() string {
	scratchMu.Lock()
	scratchSeq++
	n := scratchSeq
	scratchMu.Unlock()
	d := filepath.Join(ScratchRoot(), fmt.Sprintf("c%06d", n))
	_ = os.RemoveAll(d)
	if err := os.MkdirAll(d, 0o755); err != nil {
		Infra("mkdir scratch: %v", err)
	}
	// resolve symlinks so that paths printed by the SUT compare equal
	if r, err := filepath.EvalSymlinks(d); err == nil {
		d = r
	}
	return d
}

// RemoveAll removes a scratch tree even when it contains read-only directories.
func RemoveAll(dir string) {
	_ = filepath.Walk(dir, func(p string, info os.FileInfo, err error) error {
		if err == nil && info.IsDir() {
			_ = os.Chmod(p, 0o755)
		}
		return nil
	})
	_ = os.RemoveAll(dir)
}

// WriteFiles writes files (relative path -> content) under root.
func WriteFiles(root string, files map[string]string) {
	for rel, content := range files {
		p := filepath.Join(root, rel)
		if err := os.MkdirAll(filepath.Dir(p), 0o755); err != nil {
			Infra("mkdir %s: %v", p, err)
		}
		if err := os.WriteFile(p, []byte(content), 0o644); err != nil {
			Infra("write %s: %v", p, err)
		}
	}
}

// ---------------------------------------------------------------------------
// subprocesses

type Result struct {
	Exit     int
	Stdout   string
	Stderr   string
	TimedOut bool
	Dur      time.Duration
}

func (r Result) Both() string { return r.Stdout + "\n" + r.Stderr }

var panicRe = regexp.MustCompile(`(?m)^(panic: |goroutine \d+ \[running\]|fatal error: )`)

// Panicked reports whether the process ended with a Go panic trace.
func (r Result) Panicked() bool {
	return panicRe.MatchString(r.Stderr) || panicRe.MatchString(r.Stdout)
}

// CleanEnv is the sanitised environment for every subprocess: no MOCKERY_*
// variables, fixed Go settings, offline.
func CleanEnv(extra ...string) []string {
	home := env("HOME", "/root")
	e := []string{
		"PATH=" + os.Getenv("PATH"),
		"HOME=" + home,
		"GOCACHE=" + env("GOCACHE", filepath.Join(home, ".cache", "go-build")),
		"GOMODCACHE=" + env("GOMODCACHE", filepath.Join(home, "go", "pkg", "mod")),
		"GOFLAGS=-mod=mod",
		"GOPROXY=off",
		"GOWORK=off",
		"GONOSUMDB=*", "GONOSUMCHECK=1", "GOFLAGS=-mod=mod",
		"TERM=dumb",
		"LC_ALL=C",
		"TZ=UTC",
		"GIT_CONFIG_GLOBAL=/dev/null", "GIT_CONFIG_SYSTEM=/dev/null",
		"GIT_AUTHOR_NAME=v", "GIT_AUTHOR_EMAIL=v@v", "GIT_COMMITTER_NAME=v", "GIT_COMMITTER_EMAIL=v@v",
		"GIT_AUTHOR_DATE=2020-01-01T00:00:00Z", "GIT_COMMITTER_DATE=2020-01-01T00:00:00Z",
	}
	return append(e, extra...)
}

// Run executes bin with args in dir under the given environment and a timeout.
func Run(dir string, environ []string, timeout time.Duration, bin string, args ...string) Result {
	return RunStdin(dir, environ, timeout, "", bin, args...)
}

func RunStdin(dir string, environ []string, timeout time.Duration, stdin string, bin string, args ...string) Result {
	cmd := exec.Command(bin, args...)
	cmd.Dir = dir
	cmd.Env = environ
	cmd.SysProcAttr = &syscall.SysProcAttr{Setpgid: true}
	var so, se bytes.Buffer
	cmd.Stdout, cmd.Stderr = &so, &se
	if stdin != "" {
		cmd.Stdin = strings.NewReader(stdin)
	}
	start := time.Now()
	if err := cmd.Start(); err != nil {
		Infra("start %s: %v", bin, err)
	}
	done := make(chan error, 1)
	go func() { done <- cmd.Wait() }()
	var res Result
	select {
	case err := <-done:
		if err != nil {
			if ee, ok := err.(*exec.ExitError); ok {
				res.Exit = ee.ExitCode()
			} else {
				res.Exit = -1
			}
		}
	case <-time.After(timeout):
		_ = syscall.Kill(-cmd.Process.Pid, syscall.SIGKILL)
		<-done
		res.TimedOut = true
		res.Exit = -9
	}
	res.Dur = time.Since(start)
	res.Stdout, res.Stderr = so.String(), se.String()
	// resource exhaustion of the sandbox is never evidence about the property
	for _, marker := range []string{"no space left on device", "cannot allocate memory", "too many open files", "resource temporarily unavailable"} {
		if strings.Contains(res.Stderr, marker) || strings.Contains(res.Stdout, marker) {
			Infra("%s: sandbox resource exhaustion (%s)", filepath.Base(bin), marker)
		}
	}
	return res
}

// Mockery runs the system under test in dir.
func Mockery(dir string, extraEnv []string, args ...string) Result {
	return Run(dir, CleanEnv(extraEnv...), 120*time.Second, SUT(), args...)
}

// ---------------------------------------------------------------------------
// tree snapshots

// Snapshot maps every path under root (relative) to a descriptor: "d" for a
// directory, "f:<mode>:<sha256>" for a regular file, "l:<target>" for a symlink.
func Snapshot(root string) map[string]string {
	out := map[string]string{}
	_ = filepath.Walk(root, func(p string, info os.FileInfo, err error) error {
		if err != nil {
			return nil
		}
		rel, _ := filepath.Rel(root, p)
		if rel == "." {
			return nil
		}
		switch {
		case info.IsDir():
			out[rel] = "d"
		case info.Mode()&os.ModeSymlink != 0:
			t, _ := os.Readlink(p)
			out[rel] = "l:" + t
		default:
			b, err := os.ReadFile(p)
			if err != nil {
				out[rel] = "f:unreadable"
				return nil
			}
			s := sha256.Sum256(b)
			out[rel] = fmt.Sprintf("f:%o:%s", info.Mode().Perm(), hex.EncodeToString(s[:8]))
		}
		return nil
	})
	return out
}

// DiffSnap lists paths whose descriptor differs between a and b.
func DiffSnap(a, b map[string]string) []string {
	var d []string
	for k, v := range a {
		if bv, ok := b[k]; !ok {
			d = append(d, "-"+k)
		} else if bv != v {
			d = append(d, "~"+k)
		}
	}
	for k := range b {
		if _, ok := a[k]; !ok {
			d = append(d, "+"+k)
		}
	}
	sort.Strings(d)
	return d
}

func HashSnap(s map[string]string) string {
	keys := make([]string, 0, len(s))
	for k := range s {
		keys = append(keys, k)
	}
	sort.Strings(keys)
	h := sha256.New()
	for _, k := range keys {
		fmt.Fprintf(h, "%s\x00%s\x00", k, s[k])
	}
	return hex.EncodeToString(h.Sum(nil)[:12])
}

func Hash(parts ...string) string {
	h := sha256.New()
	for _, p := range parts {
		h.Write([]byte(p))
		h.Write([]byte{0})
	}
	return hex.EncodeToString(h.Sum(nil)[:8])
}

// ---------------------------------------------------------------------------
// Go toolchain oracle

const ScratchGoMod = `module %s

go 1.23

require github.com/stretchr/testify v1.10.0
`

var goSumOnce sync.Once
var goSum string

// GoSum returns a go.sum sufficient for scratch modules that require testify and
// rapid (the union shipped with the harness).
func GoSum() string {
	goSumOnce.Do(func() {
		b, err := os.ReadFile(filepath.Join(VerifDir(), "harness", "go.sum"))
		if err != nil {
			Infra("read harness go.sum: %v", err)
		}
		goSum = string(b)
	})
	return goSum
}

// GoRun runs the go command inside a scratch module.
func GoRun(dir string, timeout time.Duration, args ...string) Result {
	return Run(dir, CleanEnv(), timeout, "go", args...)
}

// GoVet type-checks every package (including test variants) under dir with the
// given build tags, without linking. It returns the diagnostics (empty = ok).
func GoVet(dir string, tags string, pkgs ...string) (bool, string) {
	args := []string{"vet", "-bools"}
	if tags != "" {
		args = append(args, "-tags", tags)
	}
	if len(pkgs) == 0 {
		pkgs = []string{"./..."}
	}
	args = append(args, pkgs...)
	r := GoRun(dir, 300*time.Second, args...)
	if r.TimedOut {
		Infra("go vet timed out in %s", dir)
	}
	return r.Exit == 0, r.Both()
}

// ---------------------------------------------------------------------------
// infrastructure failures (exit 2, never a violation)

type InfraError struct{ Msg string }

func (e InfraError) Error() string { return "INFRA: " + e.Msg }

// Infra aborts the current case with an infrastructure error. The driver maps it
// to exit status 2 (inconclusive).
func Infra(format string, a ...any) {
	panic(InfraError{fmt.Sprintf(format, a...)})
}

// ---------------------------------------------------------------------------
// verdicts, recording, evidence shards

// Violation is the verdict of a failing case.
type Violation struct {
	Key      string            `json:"key"`      // canonical key (input shape + failure)
	Msg      string            `json:"msg"`      // what failed, human readable
	Files    map[string]string `json:"-"`        // generated tree, written into the replay dir
	Observed string            `json:"observed"` // diagnostics
}

func Violate(key, format string, a ...any) *Violation {
	return &Violation{Key: key, Msg: fmt.Sprintf(format, a...)}
}

func (v *Violation) With(files map[string]string, observed string) *Violation {
	v.Files = files
	v.Observed = observed
	return v
}

type shardOut struct {
	ID           string         `json:"id"`
	Shard        int            `json:"shard"`
	Mode         string         `json:"mode"`
	Evaluations  int            `json:"evaluations"`
	Evaluations2 int            `json:"distinct,omitempty"` // fuzz workers: number of distinct non-trivial fingerprints
	Fingerprints []string       `json:"fingerprints"`
	Classes      map[string]int `json:"classes"`
	Excluded     map[string]int `json:"excluded"`
	DontCare     map[string]int `json:"dont_care"`
	Invalid      int            `json:"invalid"`
	Samples      []any          `json:"samples"`
	Violations   []violationOut `json:"violations"`
	Replays      []replayOut    `json:"replays"`
	Infra        []string       `json:"infra"`
	Notes        []string       `json:"notes"`
}

type violationOut struct {
	Key    string `json:"key"`
	Msg    string `json:"msg"`
	Replay string `json:"replay"`
}

type replayOut struct {
	Dir string `json:"dir"`
	Key string `json:"key"` // "" = passed
	Msg string `json:"msg"`
}

var (
	recMu sync.Mutex
	rec   = shardOut{Classes: map[string]int{}, Excluded: map[string]int{}, DontCare: map[string]int{}}
	fps   = map[string]struct{}{}
)

const maxSamples = 6

// quiet suppresses the evidence counters while a found violation is being minimised.
var quiet bool

// Count records one property-body execution with its class labels. fingerprint
// is the identity of the case if it is non-trivial by the check's rule, "" if it
// is trivial.
func Count(fingerprint string, classes ...string) {
	recMu.Lock()
	defer recMu.Unlock()
	if quiet {
		return
	}
	rec.Evaluations++
	if fingerprint != "" {
		fps[fingerprint] = struct{}{}
	}
	for _, c := range classes {
		rec.Classes[c]++
	}
}

// Class adds class labels without counting an evaluation.
func Class(classes ...string) {
	recMu.Lock()
	defer recMu.Unlock()
	if quiet {
		return
	}
	for _, c := range classes {
		rec.Classes[c]++
	}
}

// AddEvaluations adds n to the evaluation counter (for checks whose cases
// contain many oracle comparisons, e.g. inner histories).
func AddEvaluations(n int) {
	if quiet {
		return
	}
	recMu.Lock()
	rec.Evaluations += n
	recMu.Unlock()
}

func AddFingerprint(fp string) {
	if quiet {
		return
	}
	recMu.Lock()
	fps[fp] = struct{}{}
	recMu.Unlock()
}

func Excluded(key string) {
	if quiet {
		return
	}
	recMu.Lock()
	rec.Excluded[key]++
	recMu.Unlock()
}

func DontCare(key string) {
	if quiet {
		return
	}
	recMu.Lock()
	rec.DontCare[key]++
	recMu.Unlock()
}

func Invalid() {
	if quiet {
		return
	}
	recMu.Lock()
	rec.Invalid++
	recMu.Unlock()
}

func Note(format string, a ...any) {
	recMu.Lock()
	if len(rec.Notes) < 50 {
		rec.Notes = append(rec.Notes, fmt.Sprintf(format, a...))
	}
	recMu.Unlock()
}

// Sample keeps v as one of the written-out sample cases (first few per shard,
// non-trivial ones preferred by the caller).
func Sample(v any) {
	recMu.Lock()
	defer recMu.Unlock()
	if quiet {
		return
	}
	if len(rec.Samples) < maxSamples {
		rec.Samples = append(rec.Samples, v)
	}
}

func NeedSample() bool {
	recMu.Lock()
	defer recMu.Unlock()
	return len(rec.Samples) < maxSamples
}

func flush(mode string) {
	recMu.Lock()
	defer recMu.Unlock()
	out := os.Getenv("VCHECK_OUT")
	if out == "" {
		return
	}
	rec.ID, rec.Shard, rec.Mode = PropID(), Shard(), mode
	rec.Fingerprints = rec.Fingerprints[:0]
	for k := range fps {
		rec.Fingerprints = append(rec.Fingerprints, k)
	}
	sort.Strings(rec.Fingerprints)
	b, _ := json.MarshalIndent(rec, "", " ")
	_ = os.WriteFile(out+".tmp", b, 0o644)
	_ = os.Rename(out+".tmp", out)
}

// ---------------------------------------------------------------------------
// Main: campaign / replay plumbing

// Check describes one property check.
type Check[C any] struct {
	// Gen draws a case. All randomness must come from t.
	Gen func(t *rapid.T) C
	// Run judges a case; nil means the property held. It must be a pure function
	// of the case and the code under test (it may call Count/Sample/etc).
	Run func(c C) *Violation
	// Reduce (optional) lists cases one step simpler than c. When a campaign finds a
	// violation, the harness greedily walks these candidates, keeping one whenever it still
	// fails with the same key, so that the saved replay (and its key) is canonical.
	Reduce func(c C) []C
}

var lastViolation struct {
	v    *Violation
	c    any
	seen bool
}

func saveReplay(c any, v *Violation) string {
	dir := filepath.Join(VerifDir(), "replays", PropID(), "found",
		fmt.Sprintf("%s%s-%s", env("VCHECK_FOUND_TAG", ""), sanitize(v.Key), Hash(fmt.Sprint(time.Now().UnixNano()), strconv.Itoa(os.Getpid()))))
	if err := os.MkdirAll(dir, 0o755); err != nil {
		return ""
	}
	b, _ := json.MarshalIndent(c, "", " ")
	_ = os.WriteFile(filepath.Join(dir, "case.json"), b, 0o644)
	_ = os.WriteFile(filepath.Join(dir, "observed.txt"), []byte("key: "+v.Key+"\n"+v.Msg+"\n\n"+v.Observed+"\n"), 0o644)
	if v.Files != nil {
		WriteFiles(filepath.Join(dir, "tree"), v.Files)
	}
	return dir
}

func sanitize(s string) string {
	s = regexp.MustCompile(`[^A-Za-z0-9_.=+-]+`).ReplaceAllString(s, "_")
	if len(s) > 80 {
		s = s[:80]
	}
	return s
}

func runGuard[C any](chk Check[C], c C) (v *Violation, infra string) {
	defer func() {
		if r := recover(); r != nil {
			if ie, ok := r.(InfraError); ok {
				infra = ie.Msg
				return
			}
			panic(r)
		}
	}()
	return chk.Run(c), ""
}

// Main is the body of the single Test function of a check package.
func Main[C any](t *testing.T, chk Check[C]) {
	switch {
	case os.Getenv("VCHECK_REPLAY") != "":
		replayMain(t, chk, strings.Split(os.Getenv("VCHECK_REPLAY"), string(os.PathListSeparator)))
	default:
		campaignMain(t, chk)
	}
}

func replayMain[C any](t *testing.T, chk Check[C], dirs []string) {
	defer flush("replay")
	for _, dir := range dirs {
		if dir == "" {
			continue
		}
		b, err := os.ReadFile(filepath.Join(dir, "case.json"))
		if err != nil {
			rec.Infra = append(rec.Infra, fmt.Sprintf("replay %s: %v", dir, err))
			continue
		}
		var c C
		dec := json.NewDecoder(bytes.NewReader(b))
		if err := dec.Decode(&c); err != nil {
			rec.Infra = append(rec.Infra, fmt.Sprintf("replay %s: decode: %v", dir, err))
			continue
		}
		v, infra := runGuard(chk, c)
		if infra != "" {
			rec.Infra = append(rec.Infra, fmt.Sprintf("replay %s: %s", dir, infra))
			continue
		}
		ro := replayOut{Dir: dir}
		if v != nil {
			ro.Key, ro.Msg = v.Key, v.Msg
			t.Logf("REPLAY %s: FAIL key=%s %s\n%s", dir, v.Key, v.Msg, v.Observed)
		} else {
			t.Logf("REPLAY %s: pass", dir)
		}
		rec.Replays = append(rec.Replays, ro)
	}
}

// minimize greedily applies chk.Reduce while the violation key stays the same. The time
// budget only bounds how small the saved replay gets; it never affects a verdict.
func minimize[C any](chk Check[C], c C, v *Violation) (C, *Violation) {
	if chk.Reduce == nil {
		return c, v
	}
	quiet = true
	defer func() { quiet = false }()
	deadline := time.Now().Add(Pick(5*time.Minute, 12*time.Minute))
	steps := 0
	for improved := true; improved && time.Now().Before(deadline); {
		improved = false
		for _, cand := range chk.Reduce(c) {
			if time.Now().After(deadline) {
				break
			}
			var v2 *Violation
			var infra string
			func() {
				defer func() {
					if r := recover(); r != nil {
						infra = fmt.Sprint(r)
					}
				}()
				v2, infra = runGuard(chk, cand)
			}()
			if infra == "" && v2 != nil && v2.Key == v.Key {
				c, v, improved = cand, v2, true
				steps++
				break
			}
		}
	}
	v.Observed += fmt.Sprintf("\n(minimised in %d structural steps)", steps)
	return c, v
}

func campaignMain[C any](t *testing.T, chk Check[C]) {
	defer func() {
		if lastViolation.seen {
			if c, ok := lastViolation.c.(C); ok {
				lastViolation.c, lastViolation.v = minimize(chk, c, lastViolation.v)
			}
			dir := saveReplay(lastViolation.c, lastViolation.v)
			rec.Violations = append(rec.Violations, violationOut{Key: lastViolation.v.Key, Msg: lastViolation.v.Msg, Replay: dir})
		}
		flush("campaign")
	}()
	rapid.Check(t, func(rt *rapid.T) {
		c := chk.Gen(rt)
		v, infra := runGuard(chk, c)
		if infra != "" {
			recMu.Lock()
			rec.Infra = append(rec.Infra, infra)
			recMu.Unlock()
			// an infrastructure problem is not a property failure: skip the case
			rt.Skip("infra: " + infra)
		}
		if v != nil {
			lastViolation.v, lastViolation.c, lastViolation.seen = v, c, true
			// rapid accepts a shrink step only when the failure message repeats: keep it to the key
			rt.Fatalf("VIOLATION key=%s", v.Key)
		}
	})
}

// ---------------------------------------------------------------------------
// FuzzMain: the secondary engine (thorough tier of the in-process checks only). Go's native
// coverage-guided fuzzer mutates the byte string that rapid.MakeFuzz turns into the generator's
// choice stream, so generator, property body and oracle are exactly those of the rapid campaign.
// The fuzzer runs the body in worker processes that are killed when the time is up, so each
// worker writes its counters to VCHECK_OUT+".fz<pid>" every few thousand evaluations and saves
// the replay directory of a violation itself before failing. Native fuzzing cannot be pinned to
// a seed: whatever it finds is reproducible through the saved case.json only.
func FuzzMain[C any](f *testing.F, chk Check[C]) {
	if os.Getenv("VCHECK_FUZZ") == "" {
		f.Skip("the native fuzz tier runs under ./vcheck run <ID> thorough only")
	}
	// deterministic starting corpus: choice streams of several lengths (a fixed LCG; this is
	// corpus material, not a random choice inside the property)
	x := uint64(0x9E3779B97F4A7C15)
	for _, n := range []int{0, 8, 64, 256, 1024, 4096} {
		for k := 0; k < 3; k++ {
			b := make([]byte, n)
			for i := range b {
				x = x*6364136223846793005 + 1442695040888963407
				b[i] = byte(x >> 56)
				if k == 1 && i%8 != 0 { // small draws: only the low byte of each 64-bit word is set
					b[i] = 0
				}
			}
			f.Add(b)
		}
	}
	out := os.Getenv("VCHECK_OUT")
	var n int
	savedKeys := map[string]bool{}
	flushFz := func() {
		if out == "" {
			return
		}
		recMu.Lock()
		defer recMu.Unlock()
		rec.ID, rec.Shard, rec.Mode = PropID(), os.Getpid(), "fuzz"
		rec.Fingerprints = rec.Fingerprints[:0]
		rec.Evaluations2 = len(fps)
		b, _ := json.Marshal(rec)
		p := fmt.Sprintf("%s.fz%d", out, os.Getpid())
		_ = os.WriteFile(p+".tmp", b, 0o644)
		_ = os.Rename(p+".tmp", p)
	}
	f.Fuzz(rapid.MakeFuzz(func(rt *rapid.T) {
		c := chk.Gen(rt)
		v, infra := runGuard(chk, c)
		if infra != "" {
			recMu.Lock()
			if len(rec.Infra) < 20 {
				rec.Infra = append(rec.Infra, infra)
			}
			recMu.Unlock()
			flushFz()
			rt.Skip("infra: " + infra)
		}
		n++
		if v != nil {
			// the coordinator re-executes a failing input many times while it minimises the
			// bytes: one saved replay per key and worker is enough
			if !savedKeys[v.Key] && len(savedKeys) < 3 {
				savedKeys[v.Key] = true
				c2, v2 := minimize(chk, c, v)
				dir := saveReplay(c2, v2)
				recMu.Lock()
				rec.Violations = append(rec.Violations, violationOut{Key: v2.Key, Msg: v2.Msg, Replay: dir})
				recMu.Unlock()
				flushFz()
			}
			rt.Fatalf("VIOLATION key=%s", v.Key)
		}
		if n%2000 == 0 {
			flushFz()
		}
	}))
}

// JSON renders v compactly (for samples and fingerprints).
func JSON(v any) string {
	b, _ := json.Marshal(v)
	return string(b)
}

func Trunc(s string, n int) string {
	if len(s) <= n {
		return s
	}
	return s[:n] + "…"
}

// NewModule writes go.mod (requiring testify) and go.sum for a scratch module at root.
func NewModule(root, modpath string) {
	WriteFiles(root, map[string]string{
		"go.mod": fmt.Sprintf(ScratchGoMod, modpath),
		"go.sum": GoSum(),
	})
}

// ReadTree returns every regular file under root (relative path -> content), for replay dirs.
func ReadTree(root string) map[string]string {
	out := map[string]string{}
	_ = filepath.Walk(root, func(p string, info os.FileInfo, err error) error {
		if err != nil || info.IsDir() || !info.Mode().IsRegular() {
			return nil
		}
		rel, _ := filepath.Rel(root, p)
		if rel == "go.sum" {
			return nil
		}
		if b, err := os.ReadFile(p); err == nil && len(b) < 200_000 {
			out[rel] = string(b)
		}
		return nil
	})
	return out
}
