#!/usr/bin/env python3
"""Regenerates MANIFEST.json from harness/checks/*/meta.json (run after adding or editing a check)."""
import json, glob, os
V = os.path.dirname(os.path.abspath(__file__))
props = [json.loads(l) for l in open(os.path.join(V, "properties.jsonl"))]
checks, na = [], []
# only checks listed in harness/registered.txt are claimed (others may still be under construction)
registered = set(open(os.path.join(V, "harness", "registered.txt")).read().split())
for p in props:
    cid = p["id"]
    mp = os.path.join(V, "harness", "checks", cid.lower(), "meta.json")
    if not os.path.exists(mp) or cid not in registered:
        na.append({"property_id": cid, "reason": "check not built yet (property-based testing applies; see DESIGN.md section 3)"})
        continue
    m = json.load(open(mp))
    if m.get("not_applicable"):
        na.append({"property_id": cid, "reason": m["not_applicable"]})
        continue
    checks.append({
        "property_id": cid,
        "quick_cmd": "./vcheck run %s quick" % cid,
        "thorough_cmd": "./vcheck run %s thorough" % cid,
        "evidence_file": "/verif/evidence/%s.json" % cid,
        "replay_cmd_template": "./vcheck replay %s {path}" % cid,
        "engine": "rapid",
        "level_claimed": {"category": m.get("level", "exploration"), "text": m["level_text"], "design_ref": "DESIGN.md section 3, " + cid},
        "level_note": m["level_note"],
        "technique": m["technique"],
    })
man = {
    "version": 1,
    "setup_cmd": "./vcheck build",
    "hooks": {
        "guard": "verif",
        "enable": "checks build /repo with `go build -tags verif`; no hook is needed (every fault and observation is induced from outside), so no source commit carries the tag",
        "baseline_off_cmd": "cd /repo && for m in . tools; do (cd $m && GOPROXY=off go test -vet=off -count=1 -timeout 25m ./...) || exit 1; done",
        "source_commits": [],
        "add_only": True,
    },
    "engines": [
        {"name": "rapid", "path": "/verif/harness", "serves_properties": [c["property_id"] for c in checks],
         "kind_free_text": "pgregory.net/rapid v1.3.0 property-based tests (generators, state machines, shrinking), sharded by seed over processes by ./vcheck; real mockery binary as subprocess in generated scratch modules, exported Go API in-process"},
    ],
    "checks": checks,
    "not_applicable": na,
    "notes": "Each check: replay tier (saved minimal cases under /verif/replays/<id>/) then a sharded rapid campaign; VERIF_SEED selects the seeds; exit 2 = infrastructure trouble (inconclusive). KNOWN_FINDINGS.txt lists recorded and fixed defects.",
}
json.dump(man, open(os.path.join(V, "MANIFEST.json"), "w"), indent=1)
print("checks:", [c["property_id"] for c in checks], "n/a:", [n["property_id"] for n in na])
