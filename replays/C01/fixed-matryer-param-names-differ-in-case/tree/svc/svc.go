package svc


type Local struct{ N int }

type LIface interface{ LM(int) string }

type LGen[X any] struct{ V X }

type LGI[X any, Y comparable] interface{ Fetch(Y) X }

type LAlias = Local

type LFn func(a int, b ...string) error

type LStr string

func (LStr) String() string { return "" }

type Repo interface {
	Close(t int, T int)
}
