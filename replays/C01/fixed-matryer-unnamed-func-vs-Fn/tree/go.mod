module example.com/m

go 1.23

require github.com/stretchr/testify v1.10.0
