package svc


type Local struct{ N int }

type LIface interface{ LM(int) string }

// LImpl implements LIface.
type LImpl struct{ S string }

func (l LImpl) LM(int) string { return l.S }

type LGen[X any] struct{ V X }

type LGI[X any, Y comparable] interface{ Fetch(Y) X }

type LAlias = Local

type LFn func(a int, b ...string) error

type LStr string

func (LStr) String() string { return "" }

type Service interface {
	Get(Fn int, _ func())
}
