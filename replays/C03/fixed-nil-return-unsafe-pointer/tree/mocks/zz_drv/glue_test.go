package drv

import (
	"reflect"
	mocks0 "example.com/m/mocks/svc"
	src0 "example.com/m/svc"
)

func targets() []Target {
	return []Target{
		{Name: "svc.Repo", Style: "testify", Opts: map[string]string{"unroll-variadic": "true", },
			New: func(t *RecT) any { return mocks0.NewMockRepo(t) },
			Iface: reflect.TypeOf((*src0.Repo)(nil)).Elem()},
	}
}

func init() {
	impls[reflect.TypeOf((*src0.LIface)(nil)).Elem()] = []any{src0.LImpl{S: "l1"}, src0.LImpl{S: "l2"}}
}

var _ = mocks0.VerifKeep
