package drv
