module example.com/m

go 1.23

require github.com/stretchr/testify v1.10.0

require pgregory.net/rapid v1.3.0

require (
	github.com/davecgh/go-spew v1.1.1 // indirect
	github.com/pmezard/go-difflib v1.0.0 // indirect
	github.com/stretchr/objx v0.5.2 // indirect
	gopkg.in/yaml.v3 v3.0.1 // indirect
)
