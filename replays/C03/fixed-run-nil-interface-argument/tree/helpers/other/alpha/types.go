package alpha

type T struct {
	A int
	B string
}

func (T) String() string { return "" }

type I interface{ M() int }

// ImplI implements I (used by the reflection driver to produce non-nil values).
type ImplI struct{ N int }

func (i ImplI) M() int { return i.N }

type Fn func(int) string

type G[X any] struct{ V X }

type GI[X any] interface {
	Get() X
	Put(X)
}

type A = T

type MyInt int

func (MyInt) String() string { return "" }

type Cmp string

type E int

type Num interface{ ~int | ~float64 }
