package drv
