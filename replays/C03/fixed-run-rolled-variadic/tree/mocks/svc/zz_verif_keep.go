package mocks

// VerifKeep lets the driver import this package even when it declares no usable mock.
const VerifKeep = 0
