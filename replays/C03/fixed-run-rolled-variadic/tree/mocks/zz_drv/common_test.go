// Reflection-based driver for freshly generated mocks (copied into scratch modules by the
// verification harness; not part of the code under test).
package drv

import (
	"context"
	"encoding/json"
	"errors"
	"fmt"
	"io"
	"math"
	"net/http"
	"os"
	"reflect"
	"sort"
	"strings"
	"sync"
	"testing"
	"time"
	"unsafe"

	"pgregory.net/rapid"
)

var _ = context.Background
var _ = http.NotFoundHandler
var _ = time.Second
var _ = io.EOF
var _ = errors.New
var _ = math.NaN
var _ = sort.Strings

// Target describes one generated mock.
type Target struct {
	Name  string
	Style string               // matryer | testify
	New   func(t *RecT) any    // pointer to a fresh mock
	Iface reflect.Type         // the (instantiated) source interface
	Opts  map[string]string    // template-data in effect ("unroll-variadic": "true"|"false"|"")
}

// impls: sample implementations of interface types, filled by the generated glue.
var impls = map[reflect.Type][]any{}

func init() {
	impls[reflect.TypeOf((*error)(nil)).Elem()] = []any{errors.New("e1"), errors.New("e2"), io.EOF}
	impls[reflect.TypeOf((*io.Reader)(nil)).Elem()] = []any{strings.NewReader("r1"), strings.NewReader("r2")}
	impls[reflect.TypeOf((*io.Writer)(nil)).Elem()] = []any{&strings.Builder{}, io.Discard}
	impls[reflect.TypeOf((*context.Context)(nil)).Elem()] = []any{context.Background(), context.TODO()}
	impls[reflect.TypeOf((*http.Handler)(nil)).Elem()] = []any{http.NotFoundHandler()}
	impls[reflect.TypeOf((*fmt.Stringer)(nil)).Elem()] = []any{time.Second, time.Minute}
}

// ---------------------------------------------------------------------------------------
// verdict

type Failure struct {
	Target  string   `json:"target"`
	Kind    string   `json:"kind"`
	Msg     string   `json:"msg"`
	History []string `json:"history"`
}

type Verdict struct {
	Histories  int            `json:"histories"`
	Steps      int            `json:"steps"`
	NonTrivial int            `json:"nontrivial"`
	Classes    map[string]int `json:"classes"`
	Shapes     []string       `json:"shapes"`
	Failure    *Failure       `json:"failure,omitempty"`
	Samples    []string       `json:"samples,omitempty"`
}

var (
	vmu     sync.Mutex
	verdict = Verdict{Classes: map[string]int{}}
	shapes  = map[string]bool{}
)

func class(c string) { vmu.Lock(); verdict.Classes[c]++; vmu.Unlock() }

func writeVerdict() {
	vmu.Lock()
	defer vmu.Unlock()
	for s := range shapes {
		verdict.Shapes = append(verdict.Shapes, s)
	}
	sort.Strings(verdict.Shapes)
	b, _ := json.MarshalIndent(verdict, "", " ")
	if p := os.Getenv("DRV_OUT"); p != "" {
		_ = os.WriteFile(p, b, 0o644)
	}
}

// fail aborts the current history (inside rapid) with a classified failure.
type driveFailure struct {
	kind, msg string
}

// ---------------------------------------------------------------------------------------
// recording TestingT

type failNow struct{}

type RecT struct {
	mu       sync.Mutex
	Errors   []string
	Failed   bool
	cleanups []func()
}

func (t *RecT) Logf(format string, args ...interface{}) {}
func (t *RecT) Helper()                                 {}
func (t *RecT) Errorf(format string, args ...interface{}) {
	t.mu.Lock()
	t.Errors = append(t.Errors, fmt.Sprintf(format, args...))
	t.mu.Unlock()
}
func (t *RecT) FailNow() {
	t.mu.Lock()
	t.Failed = true
	t.mu.Unlock()
	panic(failNow{})
}
func (t *RecT) Cleanup(f func()) { t.mu.Lock(); t.cleanups = append(t.cleanups, f); t.mu.Unlock() }
func (t *RecT) nErrors() int     { t.mu.Lock(); defer t.mu.Unlock(); return len(t.Errors) }

// ---------------------------------------------------------------------------------------
// values by reflect.Type

func isNillable(k reflect.Kind) bool {
	switch k {
	case reflect.Ptr, reflect.Map, reflect.Slice, reflect.Func, reflect.Chan, reflect.Interface, reflect.UnsafePointer:
		return true
	}
	return false
}

type vgen struct {
	t *rapid.T
	n int
}

func (g *vgen) lbl(s string) string { g.n++; return fmt.Sprintf("%s#%d", s, g.n) }
func (g *vgen) intn(l string, lo, hi int) int {
	return rapid.IntRange(lo, hi).Draw(g.t, g.lbl(l))
}

var strPool = []string{"", "a", "b", "héllo", "x y", "\x00"}

// value draws a value of type typ. nilBias raises the probability of nil for nillable kinds.
func (g *vgen) value(typ reflect.Type, depth int) reflect.Value {
	if isNillable(typ.Kind()) && g.intn("nil", 0, 3) == 0 {
		return reflect.Zero(typ)
	}
	v := reflect.New(typ).Elem()
	switch typ.Kind() {
	case reflect.Bool:
		v.SetBool(g.intn("bool", 0, 1) == 1)
	case reflect.Int, reflect.Int8, reflect.Int16, reflect.Int32, reflect.Int64:
		v.SetInt(int64(g.intn("int", -2, 5)))
	case reflect.Uint, reflect.Uint8, reflect.Uint16, reflect.Uint32, reflect.Uint64, reflect.Uintptr:
		v.SetUint(uint64(g.intn("uint", 0, 5)))
	case reflect.Float32, reflect.Float64:
		v.SetFloat([]float64{0, 1.5, -2, 3}[g.intn("float", 0, 3)])
	case reflect.Complex64, reflect.Complex128:
		v.SetComplex(complex(float64(g.intn("re", 0, 2)), float64(g.intn("im", 0, 2))))
	case reflect.String:
		v.SetString(strPool[g.intn("str", 0, len(strPool)-1)])
	case reflect.Slice:
		n := 0
		if depth < 3 {
			n = g.intn("slen", 0, 2)
		}
		s := reflect.MakeSlice(typ, n, n)
		for i := 0; i < n; i++ {
			s.Index(i).Set(g.value(typ.Elem(), depth+1))
		}
		v.Set(s)
	case reflect.Array:
		for i := 0; i < typ.Len() && depth < 3; i++ {
			v.Index(i).Set(g.value(typ.Elem(), depth+1))
		}
	case reflect.Map:
		m := reflect.MakeMap(typ)
		if depth < 3 && g.intn("mlen", 0, 1) == 1 {
			k := g.value(typ.Key(), depth+1)
			if hashable(k) {
				m.SetMapIndex(k, g.value(typ.Elem(), depth+1))
			}
		}
		v.Set(m)
	case reflect.Ptr:
		p := reflect.New(typ.Elem())
		if depth < 3 {
			p.Elem().Set(g.value(typ.Elem(), depth+1))
		}
		v.Set(p)
	case reflect.Struct:
		for i := 0; i < typ.NumField() && depth < 3; i++ {
			if typ.Field(i).IsExported() {
				f := v.Field(i)
				if f.CanSet() {
					f.Set(g.value(typ.Field(i).Type, depth+1))
				}
			}
		}
	case reflect.Chan:
		ct := typ
		if typ.ChanDir() != reflect.BothDir {
			ct = reflect.ChanOf(reflect.BothDir, typ.Elem())
		}
		v.Set(reflect.MakeChan(ct, 1).Convert(typ))
	case reflect.Func:
		v.Set(reflect.MakeFunc(typ, func(args []reflect.Value) []reflect.Value {
			out := make([]reflect.Value, typ.NumOut())
			for i := range out {
				out[i] = reflect.Zero(typ.Out(i))
			}
			return out
		}))
	case reflect.Interface:
		if cands := impls[typ]; len(cands) > 0 {
			v.Set(reflect.ValueOf(cands[g.intn("impl", 0, len(cands)-1)]))
		} else if typ.NumMethod() == 0 {
			switch g.intn("any", 0, 3) {
			case 0:
				v.Set(reflect.ValueOf(g.intn("anyint", 0, 3)))
			case 1:
				v.Set(reflect.ValueOf(strPool[g.intn("anystr", 0, 3)]))
			case 2:
				v.Set(reflect.ValueOf(struct{ A int }{g.intn("anystruct", 0, 2)}))
			default:
				x := g.intn("anyptr", 0, 2)
				v.Set(reflect.ValueOf(&x))
			}
		} else {
			// an implementation somewhere in impls that happens to implement typ
			for it, cands := range impls {
				_ = it
				for _, c := range cands {
					if reflect.TypeOf(c).Implements(typ) {
						v.Set(reflect.ValueOf(c))
						return v
					}
				}
			}
			// none known: nil
		}
	case reflect.UnsafePointer:
		x := new(int)
		v.SetPointer(unsafe.Pointer(x))
	}
	return v
}

func hashable(v reflect.Value) (ok bool) {
	defer func() {
		if recover() != nil {
			ok = false
		}
	}()
	m := reflect.MakeMap(reflect.MapOf(v.Type(), reflect.TypeOf(true)))
	m.SetMapIndex(v, reflect.ValueOf(true))
	return true
}

type eface struct {
	typ  unsafe.Pointer
	data unsafe.Pointer
}

func funcIdentity(v reflect.Value) unsafe.Pointer {
	if v.IsNil() {
		return nil
	}
	i := v.Interface()
	return (*eface)(unsafe.Pointer(&i)).data
}

// same reports whether two values are the "same argument": identity for pointers, funcs,
// channels, maps and slices (header), bitwise for floats, recursive for structs, arrays and
// interfaces. The second result names the first difference.
func same(a, b reflect.Value) (bool, string) {
	if a.IsValid() != b.IsValid() {
		return false, "validity"
	}
	if !a.IsValid() {
		return true, ""
	}
	if a.Type() != b.Type() {
		return false, fmt.Sprintf("type %s vs %s", a.Type(), b.Type())
	}
	switch a.Kind() {
	case reflect.Bool:
		return a.Bool() == b.Bool(), "bool"
	case reflect.Int, reflect.Int8, reflect.Int16, reflect.Int32, reflect.Int64:
		return a.Int() == b.Int(), fmt.Sprintf("%d vs %d", a.Int(), b.Int())
	case reflect.Uint, reflect.Uint8, reflect.Uint16, reflect.Uint32, reflect.Uint64, reflect.Uintptr:
		return a.Uint() == b.Uint(), fmt.Sprintf("%d vs %d", a.Uint(), b.Uint())
	case reflect.Float32, reflect.Float64:
		return math.Float64bits(a.Float()) == math.Float64bits(b.Float()), "float"
	case reflect.Complex64, reflect.Complex128:
		return a.Complex() == b.Complex(), "complex"
	case reflect.String:
		return a.String() == b.String(), fmt.Sprintf("%q vs %q", a.String(), b.String())
	case reflect.Ptr, reflect.Chan, reflect.UnsafePointer, reflect.Map:
		return a.Pointer() == b.Pointer(), a.Kind().String() + " identity"
	case reflect.Func:
		return funcIdentity(a) == funcIdentity(b), "func identity"
	case reflect.Slice:
		if a.IsNil() != b.IsNil() {
			return false, "slice nil-ness"
		}
		if a.Len() != b.Len() {
			return false, fmt.Sprintf("slice len %d vs %d", a.Len(), b.Len())
		}
		return a.Pointer() == b.Pointer(), "slice identity"
	case reflect.Interface:
		if a.IsNil() != b.IsNil() {
			return false, "interface nil-ness"
		}
		if a.IsNil() {
			return true, ""
		}
		return same(a.Elem(), b.Elem())
	case reflect.Array:
		for i := 0; i < a.Len(); i++ {
			if ok, why := same(a.Index(i), b.Index(i)); !ok {
				return false, fmt.Sprintf("[%d]: %s", i, why)
			}
		}
		return true, ""
	case reflect.Struct:
		for i := 0; i < a.NumField(); i++ {
			fa, fb := a.Field(i), b.Field(i)
			if !a.Type().Field(i).IsExported() {
				continue
			}
			if ok, why := same(fa, fb); !ok {
				return false, fmt.Sprintf(".%s: %s", a.Type().Field(i).Name, why)
			}
		}
		return true, ""
	}
	return true, ""
}

// sameElems compares two slices element-wise (for variadic tails that are re-packed).
func sameElems(a, b reflect.Value) (bool, string) {
	if a.Len() != b.Len() {
		return false, fmt.Sprintf("variadic len %d vs %d", a.Len(), b.Len())
	}
	for i := 0; i < a.Len(); i++ {
		if ok, why := same(a.Index(i), b.Index(i)); !ok {
			return false, fmt.Sprintf("variadic[%d]: %s", i, why)
		}
	}
	return true, ""
}

func show(v reflect.Value) string {
	if !v.IsValid() {
		return "<invalid>"
	}
	s := fmt.Sprintf("%#v", v.Interface())
	if len(s) > 60 {
		s = s[:60] + "…"
	}
	return s
}

func showAll(vs []reflect.Value) string {
	parts := make([]string, len(vs))
	for i, v := range vs {
		parts[i] = show(v)
	}
	return "(" + strings.Join(parts, ", ") + ")"
}

// sigShape is a coarse description of a method signature for the evidence.
func sigShape(mt reflect.Type) string {
	var p, r []string
	for i := 0; i < mt.NumIn(); i++ {
		k := mt.In(i).Kind().String()
		if mt.IsVariadic() && i == mt.NumIn()-1 {
			k = "..." + mt.In(i).Elem().Kind().String()
		}
		p = append(p, k)
	}
	for i := 0; i < mt.NumOut(); i++ {
		r = append(r, mt.Out(i).Kind().String())
	}
	return "(" + strings.Join(p, ",") + ")(" + strings.Join(r, ",") + ")"
}

// exportedMethods lists the methods of the interface that reflection can call.
func exportedMethods(it reflect.Type) []reflect.Method {
	var out []reflect.Method
	for i := 0; i < it.NumMethod(); i++ {
		m := it.Method(i)
		if m.PkgPath == "" {
			out = append(out, m)
		}
	}
	return out
}

// invoke calls fn with args (the last one being the variadic slice when the func is
// variadic) and classifies the outcome.
type outcome struct {
	results  []reflect.Value
	panicked bool
	panicVal any
	failed   bool // the recording TestingT's FailNow unwound the call
}

func invoke(fn reflect.Value, args []reflect.Value) (o outcome) {
	defer func() {
		if r := recover(); r != nil {
			if _, ok := r.(failNow); ok {
				o.failed = true
				return
			}
			o.panicked, o.panicVal = true, r
		}
	}()
	if fn.Type().IsVariadic() {
		o.results = fn.CallSlice(args)
	} else {
		o.results = fn.Call(args)
	}
	return
}

func genArgs(g *vgen, mt reflect.Type) []reflect.Value {
	args := make([]reflect.Value, mt.NumIn())
	for i := range args {
		args[i] = g.value(mt.In(i), 0)
	}
	return args
}

func genResults(g *vgen, mt reflect.Type) []reflect.Value {
	out := make([]reflect.Value, mt.NumOut())
	for i := range out {
		out[i] = g.value(mt.Out(i), 0)
	}
	return out
}

func TestMain(m *testing.M) {
	code := m.Run()
	writeVerdict()
	os.Exit(code)
}
