package drv

import (
	"fmt"
	"reflect"
	"strings"
	"testing"

	"pgregory.net/rapid"
)

type funcPanic struct{}

type fstate struct {
	kind    int // 0 nil, 1 returning, 2 panicking
	results []reflect.Value
	calls   [][]reflect.Value
}

func filterTargets(style string) []Target {
	var out []Target
	for _, t := range targets() {
		if t.Style == style {
			out = append(out, t)
		}
	}
	return out
}

func record(f *Failure) {
	vmu.Lock()
	verdict.Failure = f
	vmu.Unlock()
}

func TestMatryer(t *testing.T) {
	tgts := filterTargets("matryer")
	if len(tgts) == 0 {
		t.Skip("no matryer targets")
	}
	rapid.Check(t, func(rt *rapid.T) {
		tgt := tgts[rapid.IntRange(0, len(tgts)-1).Draw(rt, "target")]
		var hist []string
		kind, msg := runMatryer(rt, tgt, &hist)
		vmu.Lock()
		verdict.Histories++
		vmu.Unlock()
		if kind != "" {
			record(&Failure{Target: tgt.Name, Kind: kind, Msg: msg, History: hist})
			rt.Fatalf("FAIL %s", kind)
		}
	})
}

func runMatryer(rt *rapid.T, tgt Target, hist *[]string) (string, string) {
	g := &vgen{t: rt}
	mock := reflect.ValueOf(tgt.New(nil))
	meths := exportedMethods(tgt.Iface)
	stub := tgt.Opts["stub-impl"] == "true"
	resets := tgt.Opts["with-resets"] == "true"
	logf := func(format string, a ...any) { *hist = append(*hist, fmt.Sprintf(format, a...)) }

	if mock.MethodByName("ResetCalls").IsValid() != resets {
		return "reset-existence", fmt.Sprintf("ResetCalls exists=%v but with-resets=%v", mock.MethodByName("ResetCalls").IsValid(), resets)
	}
	for _, m := range meths {
		if mock.MethodByName("Reset"+m.Name+"Calls").IsValid() != resets {
			return "reset-existence", fmt.Sprintf("Reset%sCalls exists=%v but with-resets=%v", m.Name, !resets, resets)
		}
	}
	if len(meths) == 0 {
		return "", ""
	}
	model := map[string][][]reflect.Value{}
	fs := map[string]*fstate{}
	for _, m := range meths {
		fs[m.Name] = &fstate{}
	}
	callsPerMethod := map[string]int{}
	nilCall, readAfterReset, didReset := false, false, false

	checkCalls := func(m reflect.Method) (string, string) {
		cm := mock.MethodByName(m.Name + "Calls")
		if !cm.IsValid() {
			return "no-calls-method", m.Name + "Calls does not exist"
		}
		got := cm.Call(nil)[0]
		want := model[m.Name]
		if got.Len() != len(want) {
			return "record-count", fmt.Sprintf("%sCalls() has %d records, %d calls were made", m.Name, got.Len(), len(want))
		}
		for i := 0; i < got.Len(); i++ {
			rec := got.Index(i)
			if rec.NumField() != m.Type.NumIn() {
				return "record-shape", fmt.Sprintf("%sCalls()[%d] has %d fields for %d parameters", m.Name, i, rec.NumField(), m.Type.NumIn())
			}
			for j := 0; j < rec.NumField(); j++ {
				if ok, why := same(rec.Field(j), want[i][j]); !ok {
					return "record-field", fmt.Sprintf("%sCalls()[%d] field %d (%s) does not hold parameter %d of call %d: %s; got %s want %s", m.Name, i, j, rec.Type().Field(j).Name, j, i, why, show(rec.Field(j)), show(want[i][j]))
				}
			}
		}
		return "", ""
	}

	setFunc := func(m reflect.Method) (string, string) {
		field := mock.Elem().FieldByName(m.Name + "Func")
		if !field.IsValid() {
			return "no-func-field", m.Name + "Func does not exist"
		}
		nst := &fstate{kind: g.intn("funckind", 0, 3)}
		if nst.kind == 3 {
			nst.kind = 1
		}
		switch nst.kind {
		case 0:
			field.Set(reflect.Zero(field.Type()))
		default:
			nst.results = genResults(g, m.Type)
			field.Set(reflect.MakeFunc(field.Type(), func(args []reflect.Value) []reflect.Value {
				nst.calls = append(nst.calls, args)
				if nst.kind == 2 {
					panic(funcPanic{})
				}
				return nst.results
			}))
		}
		fs[m.Name] = nst
		logf("set %sFunc kind=%d results=%s", m.Name, nst.kind, showAll(nst.results))
		return "", ""
	}
	for _, m := range meths {
		if g.intn("initfunc", 0, 3) > 0 {
			if k, msg := setFunc(m); k != "" {
				return k, msg
			}
		}
	}

	steps := g.intn("steps", 1, 14)
	for s := 0; s < steps; s++ {
		m := meths[g.intn("method", 0, len(meths)-1)]
		st := fs[m.Name]
		act := g.intn("action", 0, 9)
		if !resets && act == 8 {
			act = 3
		}
		if !resets && act == 9 {
			act = 0
		}
		switch {
		case act <= 1: // setFunc
			if k, msg := setFunc(m); k != "" {
				return k, msg
			}
			st = fs[m.Name]
		case act <= 6: // call
			args := genArgs(g, m.Type)
			before := len(st.calls)
			logf("call %s%s (func kind %d)", m.Name, showAll(args), st.kind)
			o := invoke(mock.MethodByName(m.Name), args)
			vmu.Lock()
			shapes["matryer "+sigShape(m.Type)] = true
			vmu.Unlock()
			callsPerMethod[m.Name]++
			switch st.kind {
			case 0:
				nilCall = true
				if stub {
					class("call:nil-func-stub")
					if o.panicked {
						return "stub-panicked", fmt.Sprintf("%s with stub-impl and nil %sFunc panicked: %v", m.Name, m.Name, o.panicVal)
					}
					for i, r := range o.results {
						if !r.IsZero() {
							return "stub-result-nonzero", fmt.Sprintf("%s with stub-impl returned non-zero result %d: %s", m.Name, i, show(r))
						}
					}
					model[m.Name] = append(model[m.Name], args)
				} else {
					class("call:nil-func-panic")
					if !o.panicked {
						return "nil-func-no-panic", fmt.Sprintf("%s with nil %sFunc did not panic", m.Name, m.Name)
					}
					if msg := fmt.Sprint(o.panicVal); !strings.Contains(msg, m.Name+"Func") {
						return "nil-func-panic-message", fmt.Sprintf("panic message %q does not name %sFunc", msg, m.Name)
					}
				}
			default:
				class(fmt.Sprintf("call:func-kind-%d", st.kind))
				model[m.Name] = append(model[m.Name], args)
				if len(st.calls) != before+1 {
					return "func-call-count", fmt.Sprintf("%sFunc was invoked %d times for one call", m.Name, len(st.calls)-before)
				}
				seen := st.calls[len(st.calls)-1]
				for i := range args {
					if ok, why := same(seen[i], args[i]); !ok {
						return "func-args", fmt.Sprintf("%sFunc received a different argument %d: %s; got %s want %s", m.Name, i, why, show(seen[i]), show(args[i]))
					}
				}
				if st.kind == 2 {
					if !o.panicked {
						return "func-panic-swallowed", "the panic of the user func did not propagate"
					}
					if _, ok := o.panicVal.(funcPanic); !ok {
						return "panic-unexpected", fmt.Sprintf("unexpected panic %v", o.panicVal)
					}
				} else {
					if o.panicked {
						return "panic-unexpected", fmt.Sprintf("unexpected panic %v", o.panicVal)
					}
					for i, r := range o.results {
						if ok, why := same(r, st.results[i]); !ok {
							return "result", fmt.Sprintf("%s returned a different result %d: %s; got %s want %s", m.Name, i, why, show(r), show(st.results[i]))
						}
					}
				}
			}
		case act == 7: // explicit read
			if didReset {
				readAfterReset = true
			}
			logf("read %sCalls", m.Name)
		case act == 8:
			logf("Reset%sCalls", m.Name)
			mock.MethodByName("Reset" + m.Name + "Calls").Call(nil)
			model[m.Name] = nil
			didReset = true
			class("reset:one")
		case act == 9:
			logf("ResetCalls")
			mock.MethodByName("ResetCalls").Call(nil)
			model = map[string][][]reflect.Value{}
			didReset = true
			class("reset:all")
		}
		vmu.Lock()
		verdict.Steps++
		vmu.Unlock()
		for _, mm := range meths {
			if k, msg := checkCalls(mm); k != "" {
				return k, msg
			}
		}
		// resets must not touch the func fields: a set func stays set
		for _, mm := range meths {
			f := mock.Elem().FieldByName(mm.Name + "Func")
			if f.IsValid() && f.IsNil() != (fs[mm.Name].kind == 0) {
				return "func-field-changed", fmt.Sprintf("%sFunc nil-ness changed behind the user's back", mm.Name)
			}
		}
	}
	multi := false
	for _, n := range callsPerMethod {
		if n >= 2 {
			multi = true
		}
	}
	if (multi && readAfterReset) || nilCall {
		vmu.Lock()
		verdict.NonTrivial++
		vmu.Unlock()
	}
	return "", ""
}
