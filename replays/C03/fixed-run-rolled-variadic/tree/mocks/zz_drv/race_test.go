package drv
