package drv

import (
	"fmt"
	"reflect"
	"strings"
	"testing"

	"github.com/stretchr/testify/mock"
	"pgregory.net/rapid"
)

type expectation struct {
	id       int
	method   reflect.Method
	fixed    []reflect.Value // exact values of the non-variadic positions (invalid = Anything)
	varElems []reflect.Value // expected variadic elements (unrolled) / the slice's elements (rolled)
	varAny   bool            // rolled: the trailing slice is matched by Anything
	userArgs []any
	style    string
	results  []reflect.Value
	cbCalls  [][]reflect.Value
	provHits []int
	refHits  int
	times    int
}

func TestTestify(t *testing.T) {
	tgts := filterTargets("testify")
	if len(tgts) == 0 {
		t.Skip("no testify targets")
	}
	rapid.Check(t, func(rt *rapid.T) {
		tgt := tgts[rapid.IntRange(0, len(tgts)-1).Draw(rt, "target")]
		var hist []string
		kind, msg := runTestify(rt, tgt, &hist)
		vmu.Lock()
		verdict.Histories++
		vmu.Unlock()
		if kind != "" {
			record(&Failure{Target: tgt.Name, Kind: kind, Msg: msg, History: hist})
			rt.Fatalf("FAIL %s", kind)
		}
	})
}

func toIface(v reflect.Value) any {
	if !v.IsValid() {
		return nil
	}
	if v.Kind() == reflect.Interface && v.IsNil() {
		return nil
	}
	return v.Interface()
}

var anyType = reflect.TypeOf((*any)(nil)).Elem()

func ifaceValues(xs []any) []reflect.Value {
	out := make([]reflect.Value, len(xs))
	for i, x := range xs {
		v := reflect.New(anyType).Elem()
		if x != nil {
			v.Set(reflect.ValueOf(x))
		}
		out[i] = v
	}
	return out
}

func containsFunc(t reflect.Type) bool {
	switch t.Kind() {
	case reflect.Func:
		return true
	case reflect.Slice, reflect.Array:
		return containsFunc(t.Elem())
	}
	return false
}

func runTestify(rt *rapid.T, tgt Target, hist *[]string) (string, string) {
	g := &vgen{t: rt}
	logf := func(format string, a ...any) { *hist = append(*hist, fmt.Sprintf(format, a...)) }
	genT, refT := &RecT{}, &RecT{}
	mk := reflect.ValueOf(tgt.New(genT))
	if len(genT.cleanups) == 0 {
		return "no-cleanup-registered", "the constructor did not register a cleanup function on the TestingT"
	}
	ref := &mock.Mock{}
	ref.Test(refT)
	unroll := tgt.Opts["unroll-variadic"] == "true"
	meths := exportedMethods(tgt.Iface)
	if len(meths) == 0 {
		return "", ""
	}
	var exps []*expectation
	var lastMatched *expectation
	nontrivial := false

	steps := g.intn("steps", 1, 12)
	for s := 0; s < steps; s++ {
		m := meths[g.intn("method", 0, len(meths)-1)]
		mt := m.Type
		nIn, nOut := mt.NumIn(), mt.NumOut()
		variadic := mt.IsVariadic()
		nFixed := nIn
		if variadic {
			nFixed--
		}
		var mine []*expectation
		for _, e := range exps {
			if e.method.Name == m.Name {
				mine = append(mine, e)
			}
		}
		if g.intn("action", 0, 9) <= 3 || len(exps) == 0 && g.intn("first", 0, 2) > 0 {
			// ---- expect ------------------------------------------------------------------
			e := &expectation{id: len(exps), method: m}
			for i := 0; i < nFixed; i++ {
				if containsFunc(mt.In(i)) || g.intn("anything", 0, 3) == 0 {
					e.fixed = append(e.fixed, reflect.Value{})
					e.userArgs = append(e.userArgs, mock.Anything)
				} else {
					v := g.value(mt.In(i), 0)
					e.fixed = append(e.fixed, v)
					e.userArgs = append(e.userArgs, toIface(v))
				}
			}
			if variadic {
				et := mt.In(nIn - 1).Elem()
				k := g.intn("nvar", 0, 2)
				for i := 0; i < k; i++ {
					e.varElems = append(e.varElems, g.value(et, 0))
				}
				if unroll {
					for _, v := range e.varElems {
						if containsFunc(et) || g.intn("anything", 0, 3) == 0 {
							e.userArgs = append(e.userArgs, mock.Anything)
						} else {
							e.userArgs = append(e.userArgs, toIface(v))
						}
					}
				} else if k > 0 {
					if containsFunc(et) || g.intn("anything", 0, 3) == 0 {
						e.varAny = true
						e.userArgs = append(e.userArgs, mock.Anything)
					} else {
						sl := reflect.MakeSlice(mt.In(nIn-1), k, k)
						for i, v := range e.varElems {
							sl.Index(i).Set(v)
						}
						e.userArgs = append(e.userArgs, sl.Interface())
					}
				}
			}
			expecter := mk.MethodByName("EXPECT").Call(nil)[0]
			em := expecter.MethodByName(m.Name)
			if !em.IsValid() {
				return "no-expecter-method", "EXPECT()." + m.Name + " does not exist"
			}
			c := em.Call(ifaceValues(e.userArgs))[0]
			rc := ref.On(m.Name, e.userArgs...)
			rc.Run(func(mock.Arguments) { e.refHits++; lastMatched = e })

			styles := []string{"return", "run+return", "runandreturn", "none"}
			if nOut >= 1 {
				styles = append(styles, "providers", "nil-return", "return", "runandreturn")
			}
			if nOut >= 2 {
				styles = append(styles, "whole-provider")
			}
			e.style = styles[g.intn("style", 0, len(styles)-1)]
			e.results = genResults(g, mt)
			e.provHits = make([]int, nOut)
			var ins []reflect.Type
			for i := 0; i < nIn; i++ {
				ins = append(ins, mt.In(i))
			}
			var outs []reflect.Type
			for i := 0; i < nOut; i++ {
				outs = append(outs, mt.Out(i))
			}
			cbFunc := func(withResults bool) reflect.Value {
				o := outs
				if !withResults {
					o = nil
				}
				return reflect.MakeFunc(reflect.FuncOf(ins, o, variadic), func(args []reflect.Value) []reflect.Value {
					e.cbCalls = append(e.cbCalls, args)
					if withResults {
						return e.results
					}
					return nil
				})
			}
			untyped := c.Elem().FieldByName("Call") // the embedded *mock.Call
			refReturn := func() {
				xs := make([]any, nOut)
				for i, r := range e.results {
					xs[i] = toIface(r)
				}
				rc.Return(xs...)
			}
			switch e.style {
			case "return":
				c.MethodByName("Return").Call(e.results)
				refReturn()
			case "run+return":
				c.MethodByName("Run").Call([]reflect.Value{cbFunc(false)})
				c.MethodByName("Return").Call(e.results)
				refReturn()
			case "runandreturn":
				c.MethodByName("RunAndReturn").Call([]reflect.Value{cbFunc(true)})
				refReturn()
			case "providers":
				var ps []reflect.Value
				for i := 0; i < nOut; i++ {
					i := i
					ps = append(ps, reflect.MakeFunc(reflect.FuncOf(ins, []reflect.Type{outs[i]}, variadic), func(args []reflect.Value) []reflect.Value {
						e.provHits[i]++
						if i == 0 {
							e.cbCalls = append(e.cbCalls, args)
						}
						return []reflect.Value{e.results[i]}
					}))
				}
				pv := make([]reflect.Value, len(ps))
				for i, p := range ps {
					x := reflect.New(anyType).Elem()
					x.Set(p)
					pv[i] = x
				}
				untyped.MethodByName("Return").Call(pv)
				refReturn()
			case "whole-provider":
				x := reflect.New(anyType).Elem()
				x.Set(cbFunc(true))
				untyped.MethodByName("Return").Call([]reflect.Value{x})
				refReturn()
			case "nil-return":
				xs := make([]any, nOut)
				for i, r := range e.results {
					if isNillable(r.Kind()) {
						xs[i] = nil
						e.results[i] = reflect.Zero(outs[i])
					} else {
						xs[i] = toIface(r)
					}
				}
				untyped.MethodByName("Return").Call(ifaceValues(xs))
				rc.Return(xs...)
			case "none":
			}
			switch g.intn("times", 0, 4) {
			case 0:
				e.times = 1
				c.MethodByName("Once").Call(nil)
				rc.Once()
			case 1:
				e.times = 2
				c.MethodByName("Times").Call([]reflect.Value{reflect.ValueOf(2)})
				rc.Times(2)
			}
			exps = append(exps, e)
			class("expect:" + e.style)
			logf("expect#%d %s(%v) style=%s times=%d results=%s", e.id, m.Name, e.userArgs, e.style, e.times, showAll(e.results))
			continue
		}
		// ---- call --------------------------------------------------------------------------
		args := make([]reflect.Value, nIn)
		var from *expectation
		if len(mine) > 0 && g.intn("matching", 0, 3) > 0 {
			from = mine[g.intn("which", 0, len(mine)-1)]
		}
		for i := 0; i < nFixed; i++ {
			if from != nil && from.fixed[i].IsValid() {
				args[i] = from.fixed[i]
			} else {
				args[i] = g.value(mt.In(i), 0)
			}
		}
		if variadic {
			st := mt.In(nIn - 1)
			if from != nil && !from.varAny {
				sl := reflect.MakeSlice(st, len(from.varElems), len(from.varElems))
				for i, v := range from.varElems {
					sl.Index(i).Set(v)
				}
				if len(from.varElems) == 0 && g.intn("nilvar", 0, 1) == 0 {
					sl = reflect.Zero(st)
				}
				args[nIn-1] = sl
			} else {
				args[nIn-1] = g.value(st, 0)
			}
		}
		// the argument list as testify sees it
		var list []any
		for i := 0; i < nFixed; i++ {
			list = append(list, toIface(args[i]))
		}
		if variadic {
			va := args[nIn-1]
			if unroll {
				for i := 0; i < va.Len(); i++ {
					list = append(list, toIface(va.Index(i)))
				}
			} else if va.Len() > 0 {
				list = append(list, va.Interface())
			}
		}
		hasNil := false
		for _, a := range args {
			if isNillable(a.Kind()) && a.IsNil() {
				hasNil = true
			}
		}
		logf("call %s%s", m.Name, showAll(args))
		lastMatched = nil
		refT.Failed = false
		var refPanic any
		func() {
			defer func() {
				if r := recover(); r != nil {
					if _, ok := r.(failNow); !ok {
						refPanic = r
					}
				}
			}()
			ref.MethodCalled(m.Name, list...)
		}()
		if refPanic != nil {
			return "harness-ref-panic", fmt.Sprintf("the reference mock.Mock panicked: %v", refPanic)
		}
		var cbBefore int
		var provBefore []int
		if lastMatched != nil {
			cbBefore = len(lastMatched.cbCalls)
			provBefore = append([]int{}, lastMatched.provHits...)
		}
		genT.Failed = false
		errsBefore := genT.nErrors()
		o := invoke(mk.MethodByName(m.Name), args)
		vmu.Lock()
		shapes["testify "+sigShape(mt)] = true
		verdict.Steps++
		vmu.Unlock()

		if refT.Failed {
			class("call:unexpected")
			if !o.failed {
				what := "returned normally"
				if o.panicked {
					what = fmt.Sprintf("panicked: %v", o.panicVal)
				}
				return "unexpected-call-not-failed", fmt.Sprintf("testify's own mock.Mock fails the test for %s%v (no matching expectation) but the generated mock %s", m.Name, list, what)
			}
			if genT.nErrors() == errsBefore {
				return "unexpected-call-no-errorf", "FailNow without Errorf"
			}
			continue
		}
		e := lastMatched
		if e == nil {
			return "harness-no-match-info", "reference matched but no expectation was identified"
		}
		class("call:matched:" + e.style)
		if o.failed {
			return "matching-call-failed", fmt.Sprintf("%s%v matches expectation #%d on testify's own mock.Mock but the generated mock failed the test: %v", m.Name, list, e.id, genT.Errors[len(genT.Errors)-1:])
		}
		if e.style == "none" && nOut > 0 {
			if !o.panicked {
				return "no-return-values-no-panic", fmt.Sprintf("%s has results, no return values were configured, but the call did not panic", m.Name)
			}
			if msg := fmt.Sprint(o.panicVal); !strings.Contains(msg, m.Name) {
				return "no-return-values-panic-message", fmt.Sprintf("panic %q does not name the method %s", msg, m.Name)
			}
			continue
		}
		if o.panicked {
			k := "call-panicked/" + e.style
			if hasNil {
				k += "/nil-argument"
			}
			if variadic {
				k += fmt.Sprintf("/variadic/unroll=%v", unroll)
			}
			return k, fmt.Sprintf("%s%s matched expectation #%d (%s) but panicked: %v", m.Name, showAll(args), e.id, e.style, o.panicVal)
		}
		for i, r := range o.results {
			if ok, why := same(r, e.results[i]); !ok {
				return "result/" + e.style, fmt.Sprintf("%s result %d: %s; got %s want %s (expectation #%d)", m.Name, i, why, show(r), show(e.results[i]), e.id)
			}
		}
		hasCb := e.style == "run+return" || e.style == "runandreturn" || e.style == "providers" || e.style == "whole-provider"
		if hasCb {
			if e.style == "providers" {
				for i := range e.provHits {
					if e.provHits[i] != provBefore[i]+1 {
						return "provider-call-count", fmt.Sprintf("provider %d of %s invoked %d times for one call", i, m.Name, e.provHits[i]-provBefore[i])
					}
				}
			}
			if len(e.cbCalls) != cbBefore+1 {
				return "callback-call-count/" + e.style, fmt.Sprintf("callback of %s (%s) invoked %d times for one call", m.Name, e.style, len(e.cbCalls)-cbBefore)
			}
			seen := e.cbCalls[len(e.cbCalls)-1]
			for i := 0; i < nIn; i++ {
				var ok bool
				var why string
				if variadic && i == nIn-1 {
					ok, why = sameElems(seen[i], args[i])
				} else {
					ok, why = same(seen[i], args[i])
				}
				if !ok {
					return "callback-args/" + e.style, fmt.Sprintf("callback of %s received a different argument %d: %s; got %s want %s", m.Name, i, why, show(seen[i]), show(args[i]))
				}
			}
			if variadic || nOut >= 2 || hasNil {
				nontrivial = true
			}
		}
	}
	// ---- finish: cleanups report unmet expectations ----------------------------------------
	errsBefore := genT.nErrors()
	func() {
		defer func() { _ = recover() }()
		for i := len(genT.cleanups) - 1; i >= 0; i-- {
			genT.cleanups[i]()
		}
	}()
	refT2 := &RecT{}
	ref.AssertExpectations(refT2)
	genUnmet, refUnmet := genT.nErrors() > errsBefore, refT2.nErrors() > 0
	logf("finish: reference unmet=%v generated unmet=%v", refUnmet, genUnmet)
	if genUnmet != refUnmet {
		return "cleanup-unmet-expectations", fmt.Sprintf("after the history testify's own mock.Mock reports unmet expectations = %v, the generated mock's cleanup reports %v", refUnmet, genUnmet)
	}
	if refUnmet {
		class("finish:unmet")
	} else {
		class("finish:all-met")
	}
	if nontrivial {
		vmu.Lock()
		verdict.NonTrivial++
		vmu.Unlock()
	}
	return "", ""
}
