package alfa

const Filler = 1
