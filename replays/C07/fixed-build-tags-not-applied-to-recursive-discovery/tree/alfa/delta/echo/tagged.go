//go:build sometag

package echo

type bEr interface {
	Do(x int) string
}
