module example.com/m

go 1.23
