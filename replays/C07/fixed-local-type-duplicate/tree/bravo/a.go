package bravo

const Filler = 1

type bStore interface {
	Do(x int) string
}

func fnaSvc2() {
	{
		type bStore interface{ LocalbStore() }
		var _ bStore
	}
}
