package hotel

const Filler = 1

func fnaStore() {
	{
		type BSvc2 interface{ LocalBSvc2() }
		var _ BSvc2
	}
}
