package carol

const Filler = 1
