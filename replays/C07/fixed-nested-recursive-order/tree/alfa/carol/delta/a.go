package delta

const Filler = 1

type ASvc interface {
	Do(x int) string
}
