package delta

const Filler = 1
