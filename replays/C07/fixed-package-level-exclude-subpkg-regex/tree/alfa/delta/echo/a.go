package echo

const Filler = 1

type bRepo interface {
	Do(x int) string
}
