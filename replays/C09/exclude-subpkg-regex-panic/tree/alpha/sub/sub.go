package sub

type Leaf interface {
	Get(key string) (int, error)
}

