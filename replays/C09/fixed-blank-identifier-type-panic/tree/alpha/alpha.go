package alpha

type Reader interface {
	Get(key string) (int, error)
}

