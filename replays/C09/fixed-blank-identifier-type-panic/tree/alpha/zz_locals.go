package alpha

type _ interface{ Blank() }

type _ boxB[int]

type boxB[T any] interface{ Get() T }
