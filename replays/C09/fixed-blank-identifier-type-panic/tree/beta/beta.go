package beta

import (
	"io"
)

type Settings struct{ N int }

type Store interface {
	Open(name string) (io.Reader, error)
}

