package beta

type Reader interface {
	Get(key string) (int, error)
}

