package alpha

type boxT[T any] interface{ Get() T }

func helperInst() {
	type LocalInst boxT[int]
	type LocalPair[K comparable, V any] interface{ KV() (K, V) }
	type LocalPairInst LocalPair[string, int]
	var _ LocalInst
	var _ LocalPairInst
}
