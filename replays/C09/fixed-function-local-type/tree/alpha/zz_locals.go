package alpha

func helperWithLocal() {
	type LocalOnly interface{ L() }
	var _ LocalOnly
}
